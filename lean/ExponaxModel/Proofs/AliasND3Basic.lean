import ExponaxModel.Proofs.AliasND2Grad
import ExponaxModel.Proofs.AliasND2React
/-
C03 in general dimension `D ≥ 1`, part 11 (H1, H2):

  * **H1** `general_alias_free_nd`  `GeneralNonlinearFun` (`general c 1 s0 s1 s2 zeroFix`), one
    channel, any `D ≥ 1`, cut-off `3·Kc < N`: the sum of the polynomial / single-channel conservative
    convection / gradient-norm statements with the model's coefficients,
  * **H2** `bz_alias_free_nd`       the Belousov–Zhabotinsky reaction (`reaction c 3 bzReact`), three
    channels, any `D ≥ 1`.  `bzReact` is QUADRATIC in the model
    (`[a + b − a·b − a², d − b − a·b, a − d]`), so the cut-off is `3·Kc < N`.

Model conventions for `general` (`Model/Nonlin.lean`):

  `general c C s0 s1 s2 zeroFix û = polynomial c C [0, 0, s0] û + convection c C (−s1) true true û
                                     + gradientNorm c C (−s2) zeroFix û`

  and `convection … scale … = −scale·½·(Σ_d i s k_d)·F[u²]`, `gradientNorm … scale … = −scale·½·F[|∇u|²]`,
  so the three contributions are `+s0·F[u²]`, `+s1·½·(Σ_d i s k_d)·F[u²]`, `+s2·½·F[|∇u|²]` (ALL with
  a plus sign; with `zero_mode_fix` the mean mode of the third one is set to `0`).
-/
namespace Exponax.AliasND
open Exponax Exponax.Layout Exponax.Transform Exponax.DFT Exponax.Nonlin Exponax.Alias Finset

/-! ### H1 — `GeneralNonlinearFun` -/

/-- pipeline read-off of `general`: any channel count, any `D`, any stored input -/
theorem general_nd_readoff (c : Cfg ℂ) (C : ℕ) (s0 s1 s2 : ℂ) (zeroFix : Bool) (uh : MC ℂ)
    (ch : ℕ) (hch : ch < C) (h : ℕ) (hh : h < numModes c.D c.N) :
    at2 (general c C s0 s1 s2 zeroFix uh) ch h
      = at2 (polynomial c C [0, 0, s0] uh) ch h + at2 (convection c C (-s1) true true uh) ch h
        + at2 (gradientNorm c C (-s2) zeroFix uh) ch h := by
  have hM : h < modes c := hh
  unfold general
  simp only []
  rw [at2_tab2 _ _ _ _ _ hch hM]

/-- **H1: `GeneralNonlinearFun`, any `D ≥ 1`, one channel, cut-off `3·Kc < N`** (e.g. the 2/3 rule),
    real scale `s`, real state `x`, `û = rfftnM D N x`.  At a retained stored mode `h`, with `X` the
    box-truncated full spectrum of `x`, `D_d X(p) = (i s p_d)·X(p)`, `⋆` the LINEAR convolution
    (normalised by `N^{-D}`) and `deriv c d h = i s k_d(h)`:

      `out_h = s0·(X ⋆ X)(k(h)) + s1·½·(Σ_d i s k_d(h))·(X ⋆ X)(k(h))
               + s2·½·Σ_d (D_d X ⋆ D_d X)(k(h))`

    (the last term replaced by `0` at the mean mode `h = 0` when `zero_mode_fix = True`): the
    coefficient of `s0·u² + s1·½·(Σ_d ∂_d)(u²) + s2·½·|∇u|²` for the band-truncated state `u = P_K x`,
    alias-free.  At a dropped mode the output is `0`. -/
theorem general_alias_free_nd (c : Cfg ℂ) (hD : 0 < c.D) (hq : c.fq ≠ 0)
    (hK : 3 * Kc c < (c.N : ℤ)) (hN : 0 < c.N) (s : ℝ) (hs : c.s = (s : ℂ)) (s0 s1 s2 : ℂ)
    (zeroFix : Bool) (x : Array ℂ) (hx : IsRealND c.D c.N x) (h : ℕ) (hh : h < numModes c.D c.N) :
    (mask c h = 1 →
      at2 (general c 1 s0 s1 s2 zeroFix #[rfftnM c.D c.N x]) 0 h
        = s0 * linConv c.D c.N (Kc c) (dftV c.D c.N x) (dftV c.D c.N x) (kvec c.D c.N h)
          + s1 * ((1 : ℂ) / 2 * (∑ d ∈ range c.D, deriv c d h) *
              linConv c.D c.N (Kc c) (dftV c.D c.N x) (dftV c.D c.N x) (kvec c.D c.N h))
          + (if zeroFix = true ∧ h = 0 then 0 else
              s2 * (1 / 2) * ∑ d ∈ range c.D,
                linConv c.D c.N (Kc c) (dspec c d x) (dspec c d x) (kvec c.D c.N h)))
    ∧ (mask c h = 0 → at2 (general c 1 s0 s1 s2 zeroFix #[rfftnM c.D c.N x]) 0 h = 0) := by
  refine ⟨fun hm => ?_, fun hm => general_zero_off_band c 1 s0 s1 s2 zeroFix _ 0 h hm⟩
  have hP := (polynomial_quadratic_alias_free_nd c hD hq hK hN 0 0 s0 x hx h hh).1 hm
  have hC := (convection_single_conservative_alias_free_nd c hD hq hK hN 1 (-s1)
    #[rfftnM c.D c.N x] (fun _ => x) (fun _ _ => hx)
    (fun ch hch => by
      have : ch = 0 := by omega
      subst this
      rfl) 0 Nat.zero_lt_one h hh).1 hm
  have hG := (gradientNorm_alias_free_nd c hD hq hK hN s hs (-s2) zeroFix x hx h hh).1 hm
  rw [general_nd_readoff c 1 s0 s1 s2 zeroFix _ 0 Nat.zero_lt_one h hh, hP, hC, hG]
  split_ifs <;> ring

/-- H1 for the documented fraction 2/3 -/
theorem general_alias_free_nd_two_thirds (c : Cfg ℂ) (hD : 0 < c.D) (hp : c.fp = 2) (hq : c.fq = 3)
    (hN : 0 < c.N) (s : ℝ) (hs : c.s = (s : ℂ)) (s0 s1 s2 : ℂ)
    (zeroFix : Bool) (x : Array ℂ) (hx : IsRealND c.D c.N x) (h : ℕ) (hh : h < numModes c.D c.N) :
    (mask c h = 1 →
      at2 (general c 1 s0 s1 s2 zeroFix #[rfftnM c.D c.N x]) 0 h
        = s0 * linConv c.D c.N (Kc c) (dftV c.D c.N x) (dftV c.D c.N x) (kvec c.D c.N h)
          + s1 * ((1 : ℂ) / 2 * (∑ d ∈ range c.D, deriv c d h) *
              linConv c.D c.N (Kc c) (dftV c.D c.N x) (dftV c.D c.N x) (kvec c.D c.N h))
          + (if zeroFix = true ∧ h = 0 then 0 else
              s2 * (1 / 2) * ∑ d ∈ range c.D,
                linConv c.D c.N (Kc c) (dspec c d x) (dspec c d x) (kvec c.D c.N h)))
    ∧ (mask c h = 0 → at2 (general c 1 s0 s1 s2 zeroFix #[rfftnM c.D c.N x]) 0 h = 0) :=
  general_alias_free_nd c hD (by omega) (Kc_two_thirds c hp hq).1 hN s hs s0 s1 s2 zeroFix x hx h hh

/-! ### H2 — the Belousov–Zhabotinsky reaction -/

/-- pipeline read-off of the three-channel `reaction` with the Belousov–Zhabotinsky term, any `D`,
    any stored input: `out_ch(h) = mask_h · F[react(a, b, d)_ch](k(h))`, `a = ifft(mask·û_0)`,
    `b = ifft(mask·û_1)`, `d = ifft(mask·û_2)` (the double masking of the model collapses) -/
theorem bz_nd_readoff (c : Cfg ℂ) (hN : 0 < c.N) (uh : MC ℂ)
    (ch : ℕ) (hch : ch < 3) (h : ℕ) (hh : h < numModes c.D c.N) :
    at2 (reaction c 3 bzReact uh) ch h
      = mask c h * dftV c.D c.N (tab (c.N ^ c.D) fun x =>
          (bzReact [(nifft c (uh.getD 0 #[])).getD x 0, (nifft c (uh.getD 1 #[])).getD x 0,
            (nifft c (uh.getD 2 #[])).getD x 0]).getD ch 0) (kvec c.D c.N h) := by
  have hu : ∀ k, k < 3 → ∀ x, at2 (tabC 3 fun ch => nifft c (tab (modes c) fun h =>
        mask c h * at2 uh ch h)) k x = (nifft c (uh.getD k #[])).getD x 0 := by
    intro k hk x
    rw [at2_tabC _ _ _ _ hk]
    have : (tab (modes c) fun h => mask c h * at2 uh k h)
        = tab (modes c) fun h => mask c h * (uh.getD k #[]).getD h 0 := rfl
    rw [this, nifft_mask_idem]
  unfold reaction
  simp only []
  rw [at2_tabC _ _ _ _ hch, nfft_nd c hN _ h hh]
  congr 2
  unfold tab2
  rw [Nonlin.tab_getD _ _ _ _ hch]
  apply Nonlin.tab_congr
  intro x _
  have hl : (List.range 3).map (fun k => at2 (tabC 3 fun ch => nifft c (tab (modes c) fun h =>
        mask c h * at2 uh ch h)) k x)
      = [(nifft c (uh.getD 0 #[])).getD x 0, (nifft c (uh.getD 1 #[])).getD x 0,
          (nifft c (uh.getD 2 #[])).getD x 0] := by
    rw [show List.range 3 = [0, 1, 2] by decide, List.map_cons, List.map_cons, List.map_cons,
      List.map_nil, hu 0 (by norm_num), hu 1 (by norm_num), hu 2 (by norm_num)]
  beta_reduce
  rw [hl]

theorem bz_ch0 (a b d : ℂ) : (bzReact [a, b, d]).getD 0 0 = a + b - a * b - a * a := by
  simp [bzReact]

theorem bz_ch1 (a b d : ℂ) : (bzReact [a, b, d]).getD 1 0 = d - b - a * b := by
  simp [bzReact]

theorem bz_ch2 (a b d : ℂ) : (bzReact [a, b, d]).getD 2 0 = a - d := by
  simp [bzReact]

/-- **H2: Belousov–Zhabotinsky reaction, any `D ≥ 1`, three channels, cut-off `3·Kc < N`** (e.g.
    the 2/3 rule; the model's `bzReact` is quadratic).  Real states `xa`, `xb`, `xd`,
    `û = (rfftnM xa, rfftnM xb, rfftnM xd)`.  At a retained stored mode `h`

      `out_0(h) = â_h + b̂_h − (A ⋆ B)(k(h)) − (A ⋆ A)(k(h))`,
      `out_1(h) = d̂_h − b̂_h − (A ⋆ B)(k(h))`,
      `out_2(h) = â_h − d̂_h`,

    with `A`, `B` the box-truncated full spectra of `xa`, `xb` and `⋆` the LINEAR convolution
    (normalised by `N^{-D}`): the coefficients of the reaction term applied to the band-truncated
    state, alias-free.  At a dropped mode all three channels are `0`. -/
theorem bz_alias_free_nd (c : Cfg ℂ) (hD : 0 < c.D) (hq : c.fq ≠ 0)
    (hK : 3 * Kc c < (c.N : ℤ)) (hN : 0 < c.N) (xa xb xd : Array ℂ)
    (hxa : IsRealND c.D c.N xa) (hxb : IsRealND c.D c.N xb) (hxd : IsRealND c.D c.N xd)
    (h : ℕ) (hh : h < numModes c.D c.N) :
    (mask c h = 1 →
      at2 (reaction c 3 bzReact #[rfftnM c.D c.N xa, rfftnM c.D c.N xb, rfftnM c.D c.N xd]) 0 h
        = (rfftnM c.D c.N xa).getD h 0 + (rfftnM c.D c.N xb).getD h 0
          - linConv c.D c.N (Kc c) (dftV c.D c.N xa) (dftV c.D c.N xb) (kvec c.D c.N h)
          - linConv c.D c.N (Kc c) (dftV c.D c.N xa) (dftV c.D c.N xa) (kvec c.D c.N h)
      ∧ at2 (reaction c 3 bzReact #[rfftnM c.D c.N xa, rfftnM c.D c.N xb, rfftnM c.D c.N xd]) 1 h
        = (rfftnM c.D c.N xd).getD h 0 - (rfftnM c.D c.N xb).getD h 0
          - linConv c.D c.N (Kc c) (dftV c.D c.N xa) (dftV c.D c.N xb) (kvec c.D c.N h)
      ∧ at2 (reaction c 3 bzReact #[rfftnM c.D c.N xa, rfftnM c.D c.N xb, rfftnM c.D c.N xd]) 2 h
        = (rfftnM c.D c.N xa).getD h 0 - (rfftnM c.D c.N xd).getD h 0)
    ∧ (mask c h = 0 →
      at2 (reaction c 3 bzReact #[rfftnM c.D c.N xa, rfftnM c.D c.N xb, rfftnM c.D c.N xd]) 0 h = 0
      ∧ at2 (reaction c 3 bzReact #[rfftnM c.D c.N xa, rfftnM c.D c.N xb, rfftnM c.D c.N xd]) 1 h = 0
      ∧ at2 (reaction c 3 bzReact #[rfftnM c.D c.N xa, rfftnM c.D c.N xb, rfftnM c.D c.N xd]) 2 h = 0) := by
  have h2 := two_lt_of_three c.N (Kc c) hK
  refine ⟨fun hm => ?_, fun hm =>
    ⟨reaction_zero_off_band c 3 _ _ 0 h hm, reaction_zero_off_band c 3 _ _ 1 h hm,
      reaction_zero_off_band c 3 _ _ 2 h hm⟩⟩
  have hk : ∀ d, |kvec c.D c.N h d| ≤ Kc c := (mask_nd_eq_one_iff c hq h).mp hm
  have e0 : (#[rfftnM c.D c.N xa, rfftnM c.D c.N xb, rfftnM c.D c.N xd] : MC ℂ).getD 0 #[]
      = rfftnM c.D c.N xa := rfl
  have e1 : (#[rfftnM c.D c.N xa, rfftnM c.D c.N xb, rfftnM c.D c.N xd] : MC ℂ).getD 1 #[]
      = rfftnM c.D c.N xb := rfl
  have e2 : (#[rfftnM c.D c.N xa, rfftnM c.D c.N xb, rfftnM c.D c.N xd] : MC ℂ).getD 2 #[]
      = rfftnM c.D c.N xd := rfl
  rw [bz_nd_readoff c hN _ 0 (by norm_num) h hh, bz_nd_readoff c hN _ 1 (by norm_num) h hh,
    bz_nd_readoff c hN _ 2 (by norm_num) h hh, hm, one_mul, one_mul, one_mul, e0, e1, e2]
  set a := nifft c (rfftnM c.D c.N xa) with ha
  set b := nifft c (rfftnM c.D c.N xb) with hb
  set d := nifft c (rfftnM c.D c.N xd) with hd
  have hA : dftV c.D c.N a (kvec c.D c.N h) = (rfftnM c.D c.N xa).getD h 0 := by
    rw [ha, dftV_nifft_rfftn c hD hq hN h2 xa hxa _ hk, rfftn_eq_dftV c.D c.N hN xa h hh]
  have hB : dftV c.D c.N b (kvec c.D c.N h) = (rfftnM c.D c.N xb).getD h 0 := by
    rw [hb, dftV_nifft_rfftn c hD hq hN h2 xb hxb _ hk, rfftn_eq_dftV c.D c.N hN xb h hh]
  have hDd : dftV c.D c.N d (kvec c.D c.N h) = (rfftnM c.D c.N xd).getD h 0 := by
    rw [hd, dftV_nifft_rfftn c hD hq hN h2 xd hxd _ hk, rfftn_eq_dftV c.D c.N hN xd h hh]
  have hab : dftV c.D c.N (tab (c.N ^ c.D) fun j => a.getD j 0 * b.getD j 0) (kvec c.D c.N h)
      = linConv c.D c.N (Kc c) (dftV c.D c.N xa) (dftV c.D c.N xb) (kvec c.D c.N h) := by
    rw [ha, hb]
    exact dftV_mul_nifft_rfftn c hD hq hK hN xa xb hxa hxb _ hk
  have haa : dftV c.D c.N (tab (c.N ^ c.D) fun j => a.getD j 0 * a.getD j 0) (kvec c.D c.N h)
      = linConv c.D c.N (Kc c) (dftV c.D c.N xa) (dftV c.D c.N xa) (kvec c.D c.N h) := by
    rw [ha]
    exact dftV_mul_nifft_rfftn c hD hq hK hN xa xa hxa hxa _ hk
  refine ⟨?_, ?_, ?_⟩
  · have e : (tab (c.N ^ c.D) fun j => (bzReact [a.getD j 0, b.getD j 0, d.getD j 0]).getD 0 0)
        = tab (c.N ^ c.D) fun j => (((fun j => a.getD j 0) j + (fun j => b.getD j 0) j)
            + (fun j => (-1 : ℂ) * (a.getD j 0 * b.getD j 0)) j)
            + (fun j => (-1 : ℂ) * (a.getD j 0 * a.getD j 0)) j := by
      apply Nonlin.tab_congr
      intro j _
      rw [bz_ch0]
      ring
    rw [e, dftV_add, dftV_add, dftV_add, dftV_smul, dftV_smul, dftV_self_tab, dftV_self_tab,
      hab, haa, hA, hB]
    ring
  · have e : (tab (c.N ^ c.D) fun j => (bzReact [a.getD j 0, b.getD j 0, d.getD j 0]).getD 1 0)
        = tab (c.N ^ c.D) fun j => ((fun j => d.getD j 0) j + (fun j => (-1 : ℂ) * b.getD j 0) j)
            + (fun j => (-1 : ℂ) * (a.getD j 0 * b.getD j 0)) j := by
      apply Nonlin.tab_congr
      intro j _
      rw [bz_ch1]
      ring
    rw [e, dftV_add, dftV_add, dftV_smul, dftV_smul, dftV_self_tab, dftV_self_tab, hab, hB, hDd]
    ring
  · have e : (tab (c.N ^ c.D) fun j => (bzReact [a.getD j 0, b.getD j 0, d.getD j 0]).getD 2 0)
        = tab (c.N ^ c.D) fun j => (fun j => a.getD j 0) j + (fun j => (-1 : ℂ) * d.getD j 0) j := by
      apply Nonlin.tab_congr
      intro j _
      rw [bz_ch2]
      ring
    rw [e, dftV_add, dftV_smul, dftV_self_tab, dftV_self_tab, hA, hDd]
    ring

/-- H2 for the documented fraction 2/3 -/
theorem bz_alias_free_nd_two_thirds (c : Cfg ℂ) (hD : 0 < c.D) (hp : c.fp = 2) (hq : c.fq = 3)
    (hN : 0 < c.N) (xa xb xd : Array ℂ)
    (hxa : IsRealND c.D c.N xa) (hxb : IsRealND c.D c.N xb) (hxd : IsRealND c.D c.N xd)
    (h : ℕ) (hh : h < numModes c.D c.N) :
    (mask c h = 1 →
      at2 (reaction c 3 bzReact #[rfftnM c.D c.N xa, rfftnM c.D c.N xb, rfftnM c.D c.N xd]) 0 h
        = (rfftnM c.D c.N xa).getD h 0 + (rfftnM c.D c.N xb).getD h 0
          - linConv c.D c.N (Kc c) (dftV c.D c.N xa) (dftV c.D c.N xb) (kvec c.D c.N h)
          - linConv c.D c.N (Kc c) (dftV c.D c.N xa) (dftV c.D c.N xa) (kvec c.D c.N h)
      ∧ at2 (reaction c 3 bzReact #[rfftnM c.D c.N xa, rfftnM c.D c.N xb, rfftnM c.D c.N xd]) 1 h
        = (rfftnM c.D c.N xd).getD h 0 - (rfftnM c.D c.N xb).getD h 0
          - linConv c.D c.N (Kc c) (dftV c.D c.N xa) (dftV c.D c.N xb) (kvec c.D c.N h)
      ∧ at2 (reaction c 3 bzReact #[rfftnM c.D c.N xa, rfftnM c.D c.N xb, rfftnM c.D c.N xd]) 2 h
        = (rfftnM c.D c.N xa).getD h 0 - (rfftnM c.D c.N xd).getD h 0)
    ∧ (mask c h = 0 →
      at2 (reaction c 3 bzReact #[rfftnM c.D c.N xa, rfftnM c.D c.N xb, rfftnM c.D c.N xd]) 0 h = 0
      ∧ at2 (reaction c 3 bzReact #[rfftnM c.D c.N xa, rfftnM c.D c.N xb, rfftnM c.D c.N xd]) 1 h = 0
      ∧ at2 (reaction c 3 bzReact #[rfftnM c.D c.N xa, rfftnM c.D c.N xb, rfftnM c.D c.N xd]) 2 h = 0) :=
  bz_alias_free_nd c hD (by omega) (Kc_two_thirds c hp hq).1 hN xa xb xd hxa hxb hxd h hh

end Exponax.AliasND
