import ExponaxModel.Proofs.RepeatedPhysicalEtdrk
import ExponaxModel.Proofs.ContourComplexNodes
/-
C14 support, part 7 — the stored CONTOUR-INTEGRAL coefficients of ETDRK1–4 inherit the Hermitian
symmetry of the linear symbol: with real `dt` and real circle radius `r` (every `M`)

    conj (coef (dt, λ, M, r)) = coef (dt, conj λ, M, r)

for all fourteen regenerated coefficients (`conj_storedCoef`).  Reason: each coefficient is `dt ×` the
mean over the generated nodes `ζ_j = exp(2πi (j − 1/2)/M)` of a rational function of `exp` with real
coefficients (`rawPhi`, `storedCoef_eq_rawMean`), and complex conjugation maps the node list to its
reversal (`conj_root_of_unity`).

Consequences: `HermSymbol λ ⇒ HermSymbol (coef ∘ λ)` (`hermSymbol_storedCoef`, and by name
`hermSymbol_etdrk_coefs`), and the FULLY INSTANTIATED statements `repeatedStepper_eq_loop_etdrk0 … 4`:
for the regenerated coefficient formulas of a `HermSymbol` linear symbol `λ` (every symbol
`ℓ(−k) = conj ℓ(k)` on odd grids: `odd_grid_repeatedStepper_eq_loop_etdrk4`), real `dt`, `r`, and a
pseudo-spectral nonlinear term `m ⊙ rfftn (g (irfftn û))`, RepeatedStepper's evaluation equals the
physical loop — no hypothesis left on coefficients or nonlinearity.
-/
set_option linter.unusedVariables false
set_option linter.unusedSimpArgs false
namespace Exponax.C2R
open Exponax Exponax.Layout Exponax.Transform Exponax.DFT Exponax.Conserve Finset Exponax.Gen.Etdrk
open Exponax.Spec Exponax.ContourComplex

/-! ### conjugation of the nodes -/

/-- conjugation reflects the generated nodes: `conj ζ_{i+1} = ζ_{M−i}` (`i < M`) -/
theorem conj_root_of_unity (M i : ℕ) (hi : i < M) :
    (starRingEnd ℂ) (root_of_unity M (i + 1) : ℂ) = root_of_unity M (M - 1 - i + 1) := by
  obtain ⟨j, rfl⟩ : ∃ j, M = i + 1 + j := ⟨M - (i + 1), by omega⟩
  have hj : i + 1 + j - 1 - i + 1 = j + 1 := by omega
  rw [hj]
  simp only [root_of_unity, hasExp_complex, lit_eq, qlit_eq, hasI_complex, hasPi_complex]
  rw [← Complex.exp_conj, Complex.exp_eq_exp_iff_exists_int]
  refine ⟨-1, ?_⟩
  have hM : ((i + 1 + j : ℕ) : ℂ) ≠ 0 := by exact_mod_cast (by omega : i + 1 + j ≠ 0)
  simp only [map_div₀, map_mul, map_sub, map_natCast, Complex.conj_I, Complex.conj_ofReal]
  field_simp
  push_cast
  ring

/-- sums over the node list are invariant under the reflection -/
theorem roots_sum_reflect (M : ℕ) (F : ℂ → ℂ) :
    ((roots_of_unity (K := ℂ) M).map (fun ζ => F ((starRingEnd ℂ) ζ))).sum
      = ((roots_of_unity (K := ℂ) M).map F).sum := by
  simp only [roots_of_unity, List.map_map]
  rw [list_range_map_sum, list_range_map_sum]
  rw [← Finset.sum_range_reflect (fun i => (F ∘ fun i => (root_of_unity M (i + 1) : ℂ)) i) M]
  apply Finset.sum_congr rfl
  intro i hi
  simp only [Function.comp]
  rw [conj_root_of_unity M i (Finset.mem_range.mp hi)]

/-- **conjugate of a contour mean** of a function that commutes with conjugation -/
theorem conj_contourMean (M : ℕ) (r z : ℂ) (f : ℂ → ℂ)
    (hf : ∀ w, (starRingEnd ℂ) (f w) = f ((starRingEnd ℂ) w)) :
    (starRingEnd ℂ) (contourMean (roots_of_unity M) r f z)
      = contourMean (roots_of_unity M) ((starRingEnd ℂ) r) f ((starRingEnd ℂ) z) := by
  rw [contourMean_eq, contourMean_eq, map_div₀, map_natCast, map_list_sum, List.map_map]
  congr 1
  rw [← roots_sum_reflect M (fun ζ => f ((starRingEnd ℂ) r * ζ + (starRingEnd ℂ) z))]
  congr 1
  apply List.map_congr_left
  intro ζ _
  simp only [Function.comp, hf, map_add, map_mul]

/-! ### the closed forms commute with conjugation -/

theorem conj_phi1 (w : ℂ) : (starRingEnd ℂ) (phi1 w) = phi1 ((starRingEnd ℂ) w) := by
  simp only [phi1, hasExp_complex, map_div₀, map_sub, map_one, Complex.exp_conj]

theorem conj_phi2 (w : ℂ) : (starRingEnd ℂ) (Spec.phi2 w) = Spec.phi2 ((starRingEnd ℂ) w) := by
  simp only [Spec.phi2, hasExp_complex, map_div₀, map_sub, map_mul, map_one, Complex.exp_conj]

theorem conj_phi3 (w : ℂ) : (starRingEnd ℂ) (phi3 w) = phi3 ((starRingEnd ℂ) w) := by
  simp only [phi3, hasExp_complex, lit_eq, map_div₀, map_sub, map_mul, map_one, map_natCast,
    Complex.exp_conj]

theorem conj_rawPhi (w : ℂ) (i : Fin 14) :
    (starRingEnd ℂ) (rawPhi w i) = rawPhi ((starRingEnd ℂ) w) i := by
  have h2 : (starRingEnd ℂ) (2 : ℂ) = 2 := map_ofNat _ 2
  have h3 : (starRingEnd ℂ) (3 : ℂ) = 3 := map_ofNat _ 3
  have h4 : (starRingEnd ℂ) (4 : ℂ) = 4 := map_ofNat _ 4
  have h8 : (starRingEnd ℂ) (8 : ℂ) = 8 := map_ofNat _ 8
  fin_cases i <;>
    simp [rawPhi, conj_phi1, conj_phi2, conj_phi3, map_div₀, map_sub, map_add, map_mul, h2, h3, h4, h8]

/-! ### the fourteen stored coefficients -/

/-- **conjugate of a stored coefficient** (all fourteen, every `M`, complex `dt`, `r` allowed) -/
theorem conj_storedCoef' (dt lam r : ℂ) (M : ℕ) (i : Fin 14) :
    (starRingEnd ℂ) (storedCoef dt lam M r i)
      = storedCoef ((starRingEnd ℂ) dt) ((starRingEnd ℂ) lam) M ((starRingEnd ℂ) r) i := by
  rw [storedCoef_eq_rawMean, storedCoef_eq_rawMean, map_mul,
    conj_contourMean M r (lam * dt) (fun w => rawPhi w i) (fun w => conj_rawPhi w i), map_mul]

/-- real `dt` and `r`: `conj coef(λ) = coef(conj λ)` -/
theorem conj_storedCoef (dt r : ℝ) (lam : ℂ) (M : ℕ) (i : Fin 14) :
    (starRingEnd ℂ) (storedCoef (dt : ℂ) lam M (r : ℂ) i)
      = storedCoef (dt : ℂ) ((starRingEnd ℂ) lam) M (r : ℂ) i := by
  rw [conj_storedCoef', Complex.conj_ofReal, Complex.conj_ofReal]

/-- **every stored contour coefficient array of a `HermSymbol` linear symbol is a `HermSymbol`**
    (real `dt`, real radius, every number of nodes) -/
theorem hermSymbol_storedCoef (D N : ℕ) (dt r : ℝ) (M : ℕ) (lam : ℕ → ℂ) (hl : HermSymbol D N lam)
    (i : Fin 14) : HermSymbol D N (fun h => storedCoef (dt : ℂ) (lam h) M (r : ℂ) i) := by
  intro h hh hw
  show storedCoef (dt : ℂ) (lam (conjIdx D N h)) M (r : ℂ) i
    = (starRingEnd ℂ) (storedCoef (dt : ℂ) (lam h) M (r : ℂ) i)
  rw [conj_storedCoef, hl h hh hw]

/-- the same, coefficient by coefficient, about the regenerated definitions -/
theorem hermSymbol_etdrk_coefs (D N : ℕ) (dt r : ℝ) (M : ℕ) (lam : ℕ → ℂ) (hl : HermSymbol D N lam) :
    HermSymbol D N (fun h => E1_coef_1 (dt : ℂ) (lam h) M (r : ℂ)) ∧
    HermSymbol D N (fun h => E2_coef_1 (dt : ℂ) (lam h) M (r : ℂ)) ∧
    HermSymbol D N (fun h => E2_coef_2 (dt : ℂ) (lam h) M (r : ℂ)) ∧
    HermSymbol D N (fun h => E3_coef_1 (dt : ℂ) (lam h) M (r : ℂ)) ∧
    HermSymbol D N (fun h => E3_coef_2 (dt : ℂ) (lam h) M (r : ℂ)) ∧
    HermSymbol D N (fun h => E3_coef_3 (dt : ℂ) (lam h) M (r : ℂ)) ∧
    HermSymbol D N (fun h => E3_coef_4 (dt : ℂ) (lam h) M (r : ℂ)) ∧
    HermSymbol D N (fun h => E3_coef_5 (dt : ℂ) (lam h) M (r : ℂ)) ∧
    HermSymbol D N (fun h => E4_coef_1 (dt : ℂ) (lam h) M (r : ℂ)) ∧
    HermSymbol D N (fun h => E4_coef_2 (dt : ℂ) (lam h) M (r : ℂ)) ∧
    HermSymbol D N (fun h => E4_coef_3 (dt : ℂ) (lam h) M (r : ℂ)) ∧
    HermSymbol D N (fun h => E4_coef_4 (dt : ℂ) (lam h) M (r : ℂ)) ∧
    HermSymbol D N (fun h => E4_coef_5 (dt : ℂ) (lam h) M (r : ℂ)) ∧
    HermSymbol D N (fun h => E4_coef_6 (dt : ℂ) (lam h) M (r : ℂ)) :=
  ⟨hermSymbol_storedCoef D N dt r M lam hl 0, hermSymbol_storedCoef D N dt r M lam hl 1,
    hermSymbol_storedCoef D N dt r M lam hl 2, hermSymbol_storedCoef D N dt r M lam hl 3,
    hermSymbol_storedCoef D N dt r M lam hl 4, hermSymbol_storedCoef D N dt r M lam hl 5,
    hermSymbol_storedCoef D N dt r M lam hl 6, hermSymbol_storedCoef D N dt r M lam hl 7,
    hermSymbol_storedCoef D N dt r M lam hl 8, hermSymbol_storedCoef D N dt r M lam hl 9,
    hermSymbol_storedCoef D N dt r M lam hl 10, hermSymbol_storedCoef D N dt r M lam hl 11,
    hermSymbol_storedCoef D N dt r M lam hl 12, hermSymbol_storedCoef D N dt r M lam hl 13⟩

/-! ### the fully instantiated statements -/

/-- the regenerated ETDRK0 step with the regenerated `exp_term` -/
noncomputable def etdrk0 (dt : ℝ) (lam : ℕ → ℂ) : (ℕ → ℂ) → (ℕ → ℂ) :=
  E0step (fun h => exp_term (dt : ℂ) (lam h))

/-- the regenerated ETDRK1 step with the regenerated coefficient formulas -/
noncomputable def etdrk1 (dt r : ℝ) (M : ℕ) (lam : ℕ → ℂ) (𝒩 : (ℕ → ℂ) → (ℕ → ℂ)) :
    (ℕ → ℂ) → (ℕ → ℂ) :=
  E1step (fun h => exp_term (dt : ℂ) (lam h)) (fun h => E1_coef_1 (dt : ℂ) (lam h) M (r : ℂ)) 𝒩

noncomputable def etdrk2 (dt r : ℝ) (M : ℕ) (lam : ℕ → ℂ) (𝒩 : (ℕ → ℂ) → (ℕ → ℂ)) :
    (ℕ → ℂ) → (ℕ → ℂ) :=
  E2step (fun h => exp_term (dt : ℂ) (lam h)) (fun h => E2_coef_1 (dt : ℂ) (lam h) M (r : ℂ))
    (fun h => E2_coef_2 (dt : ℂ) (lam h) M (r : ℂ)) 𝒩

noncomputable def etdrk3 (dt r : ℝ) (M : ℕ) (lam : ℕ → ℂ) (𝒩 : (ℕ → ℂ) → (ℕ → ℂ)) :
    (ℕ → ℂ) → (ℕ → ℂ) :=
  E3step (fun h => exp_term (dt : ℂ) (lam h)) (fun h => E3_half_exp_term (dt : ℂ) (lam h) M (r : ℂ))
    (fun h => E3_coef_1 (dt : ℂ) (lam h) M (r : ℂ)) (fun h => E3_coef_2 (dt : ℂ) (lam h) M (r : ℂ))
    (fun h => E3_coef_3 (dt : ℂ) (lam h) M (r : ℂ)) (fun h => E3_coef_4 (dt : ℂ) (lam h) M (r : ℂ))
    (fun h => E3_coef_5 (dt : ℂ) (lam h) M (r : ℂ)) 𝒩

noncomputable def etdrk4 (dt r : ℝ) (M : ℕ) (lam : ℕ → ℂ) (𝒩 : (ℕ → ℂ) → (ℕ → ℂ)) :
    (ℕ → ℂ) → (ℕ → ℂ) :=
  E4step (fun h => exp_term (dt : ℂ) (lam h)) (fun h => E4_half_exp_term (dt : ℂ) (lam h) M (r : ℂ))
    (fun h => E4_coef_1 (dt : ℂ) (lam h) M (r : ℂ)) (fun h => E4_coef_2 (dt : ℂ) (lam h) M (r : ℂ))
    (fun h => E4_coef_3 (dt : ℂ) (lam h) M (r : ℂ)) (fun h => E4_coef_4 (dt : ℂ) (lam h) M (r : ℂ))
    (fun h => E4_coef_5 (dt : ℂ) (lam h) M (r : ℂ)) (fun h => E4_coef_6 (dt : ℂ) (lam h) M (r : ℂ)) 𝒩

/-- links: the abbreviations are the regenerated step formulas at the regenerated coefficients -/
theorem etdrk0_eq (dt : ℝ) (lam : ℕ → ℂ) :
    etdrk0 dt lam = E0step (fun h => exp_term (dt : ℂ) (lam h)) := rfl
theorem etdrk1_eq (dt r : ℝ) (M : ℕ) (lam : ℕ → ℂ) (𝒩 : (ℕ → ℂ) → (ℕ → ℂ)) :
    etdrk1 dt r M lam 𝒩 = E1step (fun h => exp_term (dt : ℂ) (lam h))
      (fun h => E1_coef_1 (dt : ℂ) (lam h) M (r : ℂ)) 𝒩 := rfl
theorem etdrk2_eq (dt r : ℝ) (M : ℕ) (lam : ℕ → ℂ) (𝒩 : (ℕ → ℂ) → (ℕ → ℂ)) :
    etdrk2 dt r M lam 𝒩 = E2step (fun h => exp_term (dt : ℂ) (lam h))
      (fun h => E2_coef_1 (dt : ℂ) (lam h) M (r : ℂ)) (fun h => E2_coef_2 (dt : ℂ) (lam h) M (r : ℂ)) 𝒩 := rfl
theorem etdrk3_eq (dt r : ℝ) (M : ℕ) (lam : ℕ → ℂ) (𝒩 : (ℕ → ℂ) → (ℕ → ℂ)) :
    etdrk3 dt r M lam 𝒩 = E3step (fun h => exp_term (dt : ℂ) (lam h))
      (fun h => E3_half_exp_term (dt : ℂ) (lam h) M (r : ℂ))
      (fun h => E3_coef_1 (dt : ℂ) (lam h) M (r : ℂ)) (fun h => E3_coef_2 (dt : ℂ) (lam h) M (r : ℂ))
      (fun h => E3_coef_3 (dt : ℂ) (lam h) M (r : ℂ)) (fun h => E3_coef_4 (dt : ℂ) (lam h) M (r : ℂ))
      (fun h => E3_coef_5 (dt : ℂ) (lam h) M (r : ℂ)) 𝒩 := rfl
theorem etdrk4_eq (dt r : ℝ) (M : ℕ) (lam : ℕ → ℂ) (𝒩 : (ℕ → ℂ) → (ℕ → ℂ)) :
    etdrk4 dt r M lam 𝒩 = E4step (fun h => exp_term (dt : ℂ) (lam h))
      (fun h => E4_half_exp_term (dt : ℂ) (lam h) M (r : ℂ))
      (fun h => E4_coef_1 (dt : ℂ) (lam h) M (r : ℂ)) (fun h => E4_coef_2 (dt : ℂ) (lam h) M (r : ℂ))
      (fun h => E4_coef_3 (dt : ℂ) (lam h) M (r : ℂ)) (fun h => E4_coef_4 (dt : ℂ) (lam h) M (r : ℂ))
      (fun h => E4_coef_5 (dt : ℂ) (lam h) M (r : ℂ)) (fun h => E4_coef_6 (dt : ℂ) (lam h) M (r : ℂ)) 𝒩 := rfl

section full
variable (D N : ℕ) (hD : 0 < D) (hN : 0 < N) (dt r : ℝ) (M : ℕ) (lam : ℕ → ℂ)
  (hl : HermSymbol D N lam) (m : ℕ → ℂ) (hm : HermSymbol D N m) (g : Array ℂ → Array ℂ)
  (hg : ∀ v, RealState D N v → ∀ j < N ^ D, ((g v).getD j 0).im = 0)
include hl

/-- **the regenerated ETDRK steps with the regenerated coefficients preserve realisable spectra**:
    `HermSymbol` linear symbol, real `dt`, `r`, any `𝒩̂` that keeps Hermitian consistency -/
theorem etdrk_steps_hermSpec_of_symbol (𝒩 : (ℕ → ℂ) → (ℕ → ℂ))
    (h𝒩 : ∀ f, HermSpec D N f → HermSpec D N (𝒩 f)) (u : ℕ → ℂ) (hu : HermSpec D N u) :
    HermSpec D N (etdrk0 dt lam u) ∧ HermSpec D N (etdrk1 dt r M lam 𝒩 u) ∧
    HermSpec D N (etdrk2 dt r M lam 𝒩 u) ∧ HermSpec D N (etdrk3 dt r M lam 𝒩 u) ∧
    HermSpec D N (etdrk4 dt r M lam 𝒩 u) := by
  have he := hermSymbol_exp_term D N dt lam hl
  obtain ⟨c11, c21, c22, c31, c32, c33, c34, c35, c41, c42, c43, c44, c45, c46⟩ :=
    hermSymbol_etdrk_coefs D N dt r M lam hl
  exact ⟨E0step_hermSpec he hu, E1step_hermSpec he c11 h𝒩 hu, E2step_hermSpec he c21 c22 h𝒩 hu,
    E3step_hermSpec he (hermSymbol_half_exp_term_E3 D N dt r M lam hl) c31 c32 c33 c34 c35 h𝒩 hu,
    E4step_hermSpec he (hermSymbol_half_exp_term_E4 D N dt r M lam hl) c41 c42 c43 c44 c45 c46 h𝒩 hu⟩

include hD hN

theorem etdrk_steps_preserve_realisable_of_symbol (𝒩 : (ℕ → ℂ) → (ℕ → ℂ))
    (h𝒩 : ∀ f, Realisable D N (tab (numModes D N) f) → Realisable D N (tab (numModes D N) (𝒩 f)))
    (u : ℕ → ℂ) (hu : Realisable D N (tab (numModes D N) u)) :
    Realisable D N (tab (numModes D N) (etdrk0 dt lam u)) ∧
    Realisable D N (tab (numModes D N) (etdrk1 dt r M lam 𝒩 u)) ∧
    Realisable D N (tab (numModes D N) (etdrk2 dt r M lam 𝒩 u)) ∧
    Realisable D N (tab (numModes D N) (etdrk3 dt r M lam 𝒩 u)) ∧
    Realisable D N (tab (numModes D N) (etdrk4 dt r M lam 𝒩 u)) := by
  simp only [realisable_tab_iff D N hD hN] at h𝒩 hu ⊢
  exact etdrk_steps_hermSpec_of_symbol D N dt r M lam hl 𝒩 h𝒩 u hu

/-- ETDRK0 (exact linear step) -/
theorem repeatedStepper_eq_loop_etdrk0 (u : Array ℂ) (hu : RealState D N u) (n : ℕ) :
    Loops.repeatN (fun v => irfftnM D N (liftStep D N (etdrk0 dt lam) (rfftnM D N v))) n u
      = irfftnM D N (Loops.repeatedStepFourier (liftStep D N (etdrk0 dt lam)) n (rfftnM D N u)) :=
  repeatedStepper_eq_loop_lift D N hD hN _
    (fun f hf => (etdrk_steps_hermSpec_of_symbol D N dt 0 0 lam hl id (fun _ h => h) f hf).1)
    u hu n

include hm hg

/-- **ETDRK1, fully instantiated** -/
theorem repeatedStepper_eq_loop_etdrk1 (u : Array ℂ) (hu : RealState D N u) (n : ℕ) :
    Loops.repeatN (fun v => irfftnM D N
        (liftStep D N (etdrk1 dt r M lam (pseudoNl D N m g)) (rfftnM D N v))) n u
      = irfftnM D N (Loops.repeatedStepFourier
          (liftStep D N (etdrk1 dt r M lam (pseudoNl D N m g))) n (rfftnM D N u)) :=
  repeatedStepper_eq_loop_lift D N hD hN _
    (fun f hf => (etdrk_steps_hermSpec_of_symbol D N dt r M lam hl _
      (fun f _ => pseudoNl_hermSpec D N hD hN m hm g hg f) f hf).2.1) u hu n

/-- **ETDRK2, fully instantiated** -/
theorem repeatedStepper_eq_loop_etdrk2 (u : Array ℂ) (hu : RealState D N u) (n : ℕ) :
    Loops.repeatN (fun v => irfftnM D N
        (liftStep D N (etdrk2 dt r M lam (pseudoNl D N m g)) (rfftnM D N v))) n u
      = irfftnM D N (Loops.repeatedStepFourier
          (liftStep D N (etdrk2 dt r M lam (pseudoNl D N m g))) n (rfftnM D N u)) :=
  repeatedStepper_eq_loop_lift D N hD hN _
    (fun f hf => (etdrk_steps_hermSpec_of_symbol D N dt r M lam hl _
      (fun f _ => pseudoNl_hermSpec D N hD hN m hm g hg f) f hf).2.2.1) u hu n

/-- **ETDRK3, fully instantiated** -/
theorem repeatedStepper_eq_loop_etdrk3 (u : Array ℂ) (hu : RealState D N u) (n : ℕ) :
    Loops.repeatN (fun v => irfftnM D N
        (liftStep D N (etdrk3 dt r M lam (pseudoNl D N m g)) (rfftnM D N v))) n u
      = irfftnM D N (Loops.repeatedStepFourier
          (liftStep D N (etdrk3 dt r M lam (pseudoNl D N m g))) n (rfftnM D N u)) :=
  repeatedStepper_eq_loop_lift D N hD hN _
    (fun f hf => (etdrk_steps_hermSpec_of_symbol D N dt r M lam hl _
      (fun f _ => pseudoNl_hermSpec D N hD hN m hm g hg f) f hf).2.2.2.1) u hu n

/-- **ETDRK4, fully instantiated** -/
theorem repeatedStepper_eq_loop_etdrk4 (u : Array ℂ) (hu : RealState D N u) (n : ℕ) :
    Loops.repeatN (fun v => irfftnM D N
        (liftStep D N (etdrk4 dt r M lam (pseudoNl D N m g)) (rfftnM D N v))) n u
      = irfftnM D N (Loops.repeatedStepFourier
          (liftStep D N (etdrk4 dt r M lam (pseudoNl D N m g))) n (rfftnM D N u)) :=
  repeatedStepper_eq_loop_lift D N hD hN _
    (fun f hf => (etdrk_steps_hermSpec_of_symbol D N dt r M lam hl _
      (fun f _ => pseudoNl_hermSpec D N hD hN m hm g hg f) f hf).2.2.2.2) u hu n

end full

/-- **odd grids, ETDRK4**: every linear symbol `λ_h = ℓ(k(h))` with `ℓ(−k) = conj ℓ(k)` qualifies
    (the other orders are obtained in the same way from `odd_grid_hermSymbol_lam`) -/
theorem odd_grid_repeatedStepper_eq_loop_etdrk4 (D N : ℕ) (hD : 0 < D) (hodd : N % 2 = 1)
    (dt r : ℝ) (M : ℕ) (ℓ : List ℤ → ℂ)
    (hℓ : ∀ k : List ℤ, ℓ (k.map (fun x => -x)) = (starRingEnd ℂ) (ℓ k))
    (m : ℕ → ℂ) (hm : HermSymbol D N m) (g : Array ℂ → Array ℂ)
    (hg : ∀ v, RealState D N v → ∀ j < N ^ D, ((g v).getD j 0).im = 0)
    (u : Array ℂ) (hu : RealState D N u) (n : ℕ) :
    Loops.repeatN (fun v => irfftnM D N (liftStep D N
        (etdrk4 dt r M (fun h => ℓ (wnFlat D N h)) (pseudoNl D N m g)) (rfftnM D N v))) n u
      = irfftnM D N (Loops.repeatedStepFourier (liftStep D N
        (etdrk4 dt r M (fun h => ℓ (wnFlat D N h)) (pseudoNl D N m g))) n (rfftnM D N u)) :=
  repeatedStepper_eq_loop_etdrk4 D N hD (by omega) dt r M _
    (odd_grid_hermSymbol_lam D N hD hodd ℓ hℓ) m hm g hg u hu n

/-! ### non-vacuity -/

/-- all hypotheses of `odd_grid_repeatedStepper_eq_loop_etdrk4` hold together: `D = 1`, `N = 3`,
    advection–diffusion symbol `ℓ(k) = −c·i k₀ + ν (i k₀)²` (genuinely complex), trivial mask, the
    pointwise square, a constant real state -/
example (c ν : ℝ) :
    (3 : ℕ) % 2 = 1 ∧
    (∀ k : List ℤ, (fun k : List ℤ => -(c : ℂ) * (Complex.I * ((k.getD 0 0 : ℤ) : ℂ))
        + (ν : ℂ) * (Complex.I * ((k.getD 0 0 : ℤ) : ℂ)) ^ 2) (k.map (fun x => -x))
      = (starRingEnd ℂ) ((fun k : List ℤ => -(c : ℂ) * (Complex.I * ((k.getD 0 0 : ℤ) : ℂ))
        + (ν : ℂ) * (Complex.I * ((k.getD 0 0 : ℤ) : ℂ)) ^ 2) k)) ∧
    HermSymbol 1 3 (fun _ => (1 : ℂ)) ∧
    (∀ v, RealState 1 3 v → ∀ j < 3 ^ 1,
      (((fun w : Array ℂ => tab (3 ^ 1) (fun j => w.getD j 0 * w.getD j 0)) v).getD j 0).im = 0) ∧
    RealState 1 3 (tab (3 ^ 1) (fun _ => (1 : ℂ))) := by
  refine ⟨by norm_num, ?_, ?_, ?_, ⟨tab_size _ _, ?_⟩⟩
  · intro k
    have hk : (k.map (fun x => -x)).getD 0 0 = -(k.getD 0 0) := by
      cases k <;> simp
    have hz : ∀ z : ℤ, (starRingEnd ℂ) (z : ℂ) = (z : ℂ) := fun z => Complex.conj_eq_iff_re.mpr rfl
    simp only [hk]
    simp only [map_mul, map_add, map_neg, map_pow, Complex.conj_ofReal, Complex.conj_I, Int.cast_neg, hz]
    ring
  · intro h hh hw; simp
  · intro v hv j hj
    show ((tab (3 ^ 1) (fun j => v.getD j 0 * v.getD j 0)).getD j 0).im = 0
    rw [tab_getD _ _ _ _ hj, Complex.mul_im, hv.2 j hj]
    ring
  · intro j hj
    rw [tab_getD _ _ _ _ hj]
    simp

/-- the index hypothesis of `conj_root_of_unity` is satisfiable -/
example (i : ℕ) (hi : i < 5) : (starRingEnd ℂ) (root_of_unity 5 (i + 1) : ℂ) = root_of_unity 5 (5 - 1 - i + 1) :=
  conj_root_of_unity 5 i hi

/-- the hypothesis of `conj_contourMean` holds for `exp` and for every closed form `rawPhi · i` -/
example : ∀ w, (starRingEnd ℂ) (Complex.exp w) = Complex.exp ((starRingEnd ℂ) w) :=
  fun w => (Complex.exp_conj w).symm

/-- the hypothesis `HermSymbol D N lam` of `hermSymbol_storedCoef` / `repeatedStepper_eq_loop_etdrk1…4`
    holds for a genuinely complex symbol: `D = 1`, `N = 3`, `λ = (0, i)` -/
example : HermSymbol 1 3 (fun h => if h = 1 then Complex.I else 0) :=
  (hermSymbol_1d_iff 3 (by norm_num) _).mpr ⟨by simp, by norm_num⟩

end Exponax.C2R
