import ExponaxModel.Proofs.LinearTestOrderNonlinear2
/-
C02 support — T6 for SYSTEMS: ETDRK2 (the regenerated `Gen.Etdrk.E2step` on vectors `ι → ℂ` with pointwise
operations) for `u' = L u + N(u)`, `L = diag(l k)`, `N : (ι → ℂ) → (ι → ℂ)` `K`-Lipschitz in the sup norm, with the
exact per-mode coefficients `e^{l k dt}`, `dt·φ₁(l k dt)`, `dt·φ₂(l k dt)`.

Smoothness hypothesis on `f t := N (u t)`:  `‖f (t+s) − f t − s • f' t‖ ≤ G s²/2` (sup norm) for some `f'`.

 * `etd2Vec_local_error`   `‖u(t+h) − S_h(u t)‖ ≤ e^{ωh}(K²M e^{ωh}/4 + 5G/12)·h³`
 * `etd2Vec_stable`        `‖S x − S y‖ ≤ etd2Stab ω K dt · ‖x − y‖`
 * `etd2Vec_global_error`  `‖u(n dt) − Sⁿ(u 0)‖ ≤ etd2C K M G ω T · dt²`   (`n·dt ≤ T`)
The constants depend on the spectrum only through `ω ≥ max(0, sup_k Re l k)`.
-/
set_option linter.unusedVariables false
noncomputable section
namespace Exponax.LinearOrder
open Exponax Exponax.Spec Exponax.ContourTail Exponax.Gen.Etdrk

variable {ι : Type} [Fintype ι]

/-- the ETDRK2 step on vectors: the regenerated `E2step` with per-mode exact coefficients -/
def etd2Vec (l : ι → ℂ) (N : (ι → ℂ) → (ι → ℂ)) (dt : ℝ) : (ι → ℂ) → (ι → ℂ) :=
  E2step (fun k => Complex.exp (l k * dt)) (fun k => dt * phi1e (l k * dt))
    (fun k => dt * phi2e (l k * dt)) N

omit [Fintype ι] in
theorem etd2Vec_apply (l : ι → ℂ) (N : (ι → ℂ) → (ι → ℂ)) (dt : ℝ) (x : ι → ℂ) (k : ι) :
    etd2Vec l N dt x k = expEulerVec l N dt x k
      + dt * phi2e (l k * dt) * (N (expEulerVec l N dt x) k - N x k) := rfl

/-- **T6(i) for systems: local error** -/
theorem etd2Vec_local_error (l : ι → ℂ) (N : (ι → ℂ) → (ι → ℂ)) (K : NNReal)
    (hN : LipschitzWith K N) (u : ℝ → (ι → ℂ)) (T M ω G : ℝ) (hω : 0 ≤ ω) (hl : ∀ k, (l k).re ≤ ω)
    (hG : 0 ≤ G)
    (hu : ∀ t ∈ Set.Icc (0 : ℝ) T, HasDerivAt u (l * u t + N (u t)) t)
    (hM : ∀ t ∈ Set.Icc (0 : ℝ) T, ‖l * u t + N (u t)‖ ≤ M)
    (f' : ℝ → (ι → ℂ))
    (hTay : ∀ t s : ℝ, 0 ≤ t → 0 ≤ s → t + s ≤ T →
      ‖N (u (t + s)) - N (u t) - (s : ℂ) • f' t‖ ≤ G * s ^ 2 / 2)
    (t h : ℝ) (ht : 0 ≤ t) (hh : 0 ≤ h) (hth : t + h ≤ T) :
    ‖u (t + h) - etd2Vec l N h (u t)‖
      ≤ Real.exp (ω * h) * (K ^ 2 * M * Real.exp (ω * h) / 4 + 5 * G / 12) * h ^ 3 := by
  have hsub : Set.Icc t (t + h) ⊆ Set.Icc (0 : ℝ) T := fun s hs => ⟨ht.trans hs.1, hs.2.trans hth⟩
  have hT : 0 ≤ T := by linarith
  have hM0 : 0 ≤ M := le_trans (norm_nonneg _) (hM 0 ⟨le_rfl, hT⟩)
  have hucont : ContinuousOn u (Set.Icc t (t + h)) := fun s hs =>
    (hu s (hsub hs)).continuousAt.continuousWithinAt
  have hNu : ContinuousOn (fun s => N (u s)) (Set.Icc t (t + h)) :=
    hN.continuous.comp_continuousOn hucont
  have hE1 := expEulerVec_local_error l N K hN u T M ω hω hl hu hM t h ht hh hth
  set a := expEulerVec l N h (u t) with ha
  have hNa : ‖N a - N (u (t + h))‖ ≤ K * (Real.exp (ω * h) * (K * M) * h ^ 2 / 2) := by
    have h1 := hN.dist_le_mul a (u (t + h))
    rw [dist_eq_norm, dist_eq_norm] at h1
    refine h1.trans (mul_le_mul_of_nonneg_left ?_ K.coe_nonneg)
    rw [norm_sub_rev]; exact hE1
  have hbnd : 0 ≤ Real.exp (ω * h) * (K ^ 2 * M * Real.exp (ω * h) / 4 + 5 * G / 12) * h ^ 3 := by
    positivity
  refine (pi_norm_le_iff_of_nonneg hbnd).mpr (fun k => ?_)
  have hT' : ∀ s ∈ Set.Icc t (t + h),
      ‖N (u s) k - N (u t) k - ((s - t : ℝ) : ℂ) * f' t k‖ ≤ G * (s - t) ^ 2 / 2 := by
    intro s hs
    have h1 := hTay t (s - t) ht (by linarith [hs.1]) (by linarith [hs.2])
    rw [show t + (s - t) = s by ring] at h1
    exact (norm_le_pi_norm (N (u s) - N (u t) - ((s - t : ℝ) : ℂ) • f' t) k).trans h1
  have hNak : ‖N a k - N (u (t + h)) k‖ ≤ K * (Real.exp (ω * h) * (K * M) * h ^ 2 / 2) :=
    (norm_le_pi_norm (N a - N (u (t + h))) k).trans hNa
  have hcore := etd2_local_core (l k) ω G (fun s => u s k) (fun s => N (u s) k) t (t + h) (by linarith)
    hω (hl k) (fun s hs => hasDerivAt_pi.mp (hu s (hsub hs)) k)
    ((continuous_apply k).comp_continuousOn hNu) (f' t k) hT' (N a k) _ hNak
  have hb : t + h - t = h := by ring
  rw [hb] at hcore
  have hcomp : (u (t + h) - etd2Vec l N h (u t)) k
      = u (t + h) k - ((Complex.exp (l k * h) * u t k + h * phi1e (l k * h) * N (u t) k)
        + h * phi2e (l k * h) * (N a k - N (u t) k)) := by
    rw [Pi.sub_apply, etd2Vec_apply, expEulerVec_apply]
  rw [hcomp]
  refine hcore.trans (le_of_eq ?_)
  ring

/-- **T6(ii) for systems: stability** -/
theorem etd2Vec_stable (l : ι → ℂ) (N : (ι → ℂ) → (ι → ℂ)) (K : NNReal)
    (hN : LipschitzWith K N) (ω dt : ℝ) (hω : 0 ≤ ω) (hl : ∀ k, (l k).re ≤ ω) (hdt : 0 ≤ dt)
    (x y : ι → ℂ) :
    ‖etd2Vec l N dt x - etd2Vec l N dt y‖ ≤ etd2Stab ω K dt * ‖x - y‖ := by
  have hK : (0 : ℝ) ≤ K := K.coe_nonneg
  have hS0 : 0 ≤ etd2Stab ω K dt := le_trans zero_le_one (one_le_etd2Stab ω K dt hω hK hdt)
  have h1 := expEulerVec_stable l N K hN ω dt hω hl hdt x y
  set ax := expEulerVec l N dt x
  set ay := expEulerVec l N dt y
  have h3 : ‖N ax - N ay‖ ≤ K * ‖ax - ay‖ := by
    have := hN.dist_le_mul ax ay; rwa [dist_eq_norm, dist_eq_norm] at this
  have h4 : ‖N x - N y‖ ≤ K * ‖x - y‖ := by
    have := hN.dist_le_mul x y; rwa [dist_eq_norm, dist_eq_norm] at this
  refine (pi_norm_le_iff_of_nonneg (mul_nonneg hS0 (norm_nonneg _))).mpr (fun k => ?_)
  have h2 := norm_h_phi2e_le (l k) ω dt hω (hl k) hdt
  have hid : (etd2Vec l N dt x - etd2Vec l N dt y) k
      = (ax - ay) k + dt * phi2e (l k * dt) * ((N ax - N ay) k - (N x - N y) k) := by
    simp only [Pi.sub_apply, etd2Vec_apply]
    ring
  rw [hid]
  calc ‖(ax - ay) k + dt * phi2e (l k * dt) * ((N ax - N ay) k - (N x - N y) k)‖
      ≤ ‖(ax - ay) k‖ + ‖(dt : ℂ) * phi2e (l k * dt)‖ * (‖(N ax - N ay) k‖ + ‖(N x - N y) k‖) := by
        refine (norm_add_le _ _).trans (add_le_add le_rfl ?_)
        rw [norm_mul]
        exact mul_le_mul_of_nonneg_left (norm_sub_le _ _) (norm_nonneg _)
    _ ≤ ‖ax - ay‖ + dt * Real.exp (ω * dt) / 2 * (‖N ax - N ay‖ + ‖N x - N y‖) := by
        gcongr
        · exact norm_le_pi_norm _ k
        · exact norm_le_pi_norm _ k
        · exact norm_le_pi_norm _ k
    _ ≤ ‖ax - ay‖ + dt * Real.exp (ω * dt) / 2 * (K * ‖ax - ay‖ + K * ‖x - y‖) := by gcongr
    _ ≤ Real.exp (ω * dt) * (1 + K * dt) * ‖x - y‖ + dt * Real.exp (ω * dt) / 2
          * (K * (Real.exp (ω * dt) * (1 + K * dt) * ‖x - y‖) + K * ‖x - y‖) := by gcongr
    _ = etd2Stab ω K dt * ‖x - y‖ := by unfold etd2Stab; ring

/-- **T6(iii) for systems: global error of ETDRK2**, second order, uniform in the stiffness -/
theorem etd2Vec_global_error (l : ι → ℂ) (N : (ι → ℂ) → (ι → ℂ)) (K : NNReal)
    (hN : LipschitzWith K N) (u : ℝ → (ι → ℂ)) (T M ω G : ℝ) (hω : 0 ≤ ω) (hl : ∀ k, (l k).re ≤ ω)
    (hG : 0 ≤ G)
    (hu : ∀ t ∈ Set.Icc (0 : ℝ) T, HasDerivAt u (l * u t + N (u t)) t)
    (hM : ∀ t ∈ Set.Icc (0 : ℝ) T, ‖l * u t + N (u t)‖ ≤ M)
    (f' : ℝ → (ι → ℂ))
    (hTay : ∀ t s : ℝ, 0 ≤ t → 0 ≤ s → t + s ≤ T →
      ‖N (u (t + s)) - N (u t) - (s : ℂ) • f' t‖ ≤ G * s ^ 2 / 2)
    (n : ℕ) (dt : ℝ) (hdt : 0 ≤ dt) (hn : n * dt ≤ T) :
    ‖u (n * dt) - (etd2Vec l N dt)^[n] (u 0)‖ ≤ etd2C K M G ω T * dt ^ 2 := by
  have hT : 0 ≤ T := le_trans (mul_nonneg (Nat.cast_nonneg n) hdt) hn
  have hM0 : 0 ≤ M := le_trans (norm_nonneg _) (hM 0 ⟨le_rfl, hT⟩)
  have hK : (0 : ℝ) ≤ K := K.coe_nonneg
  have hB0 : 0 ≤ Real.exp (ω * T) * (K ^ 2 * M * Real.exp (ω * T) / 4 + 5 * G / 12) * dt ^ 3 := by
    positivity
  have hfan := fan (etd2Vec l N dt) (fun k : ℕ => u (k * dt)) _ _
    (one_le_etd2Stab ω K dt hω hK hdt) hB0 n
    (fun k hk => by
      have hk1 : ((k + 1 : ℕ) : ℝ) * dt ≤ T := by
        have : ((k + 1 : ℕ) : ℝ) ≤ n := by exact_mod_cast hk
        exact (mul_le_mul_of_nonneg_right this hdt).trans hn
      have hkt : ((k + 1 : ℕ) : ℝ) * dt = k * dt + dt := by push_cast; ring
      have hkdt : 0 ≤ (k : ℝ) * dt := mul_nonneg (Nat.cast_nonneg k) hdt
      have hdtT : dt ≤ T := by rw [hkt] at hk1; linarith
      have hloc := etd2Vec_local_error l N K hN u T M ω G hω hl hG hu hM f' hTay (k * dt) dt hkdt hdt
        (by rw [← hkt]; exact hk1)
      have hW : Real.exp (ω * dt) ≤ Real.exp (ω * T) :=
        Real.exp_le_exp.mpr (mul_le_mul_of_nonneg_left hdtT hω)
      simp only [hkt]
      refine hloc.trans ?_
      gcongr)
    (fun x y => etd2Vec_stable l N K hN ω dt hω hl hdt x y)
  simp only [Nat.cast_zero, zero_mul] at hfan
  exact hfan.trans (etd2_fan_arith K M G ω T dt n hK hM0 hG hω hdt hn)

/-! ### non-vacuity: two decoupled modes `l = (−1, −100)`, `N v = i·v`, `u_k(t) = e^{(l_k+i)t}`,
    `f'_k(t) = i (l_k+i) u_k(t)`, `G = 101²` -/
example : ∃ (l : Fin 2 → ℂ) (N : (Fin 2 → ℂ) → (Fin 2 → ℂ)) (K : NNReal) (u f' : ℝ → (Fin 2 → ℂ))
    (T M ω G : ℝ), LipschitzWith K N ∧ 0 ≤ ω ∧ (∀ k, (l k).re ≤ ω) ∧ 0 ≤ G ∧ 0 < T ∧
    (∀ t ∈ Set.Icc (0 : ℝ) T, HasDerivAt u (l * u t + N (u t)) t) ∧
    (∀ t ∈ Set.Icc (0 : ℝ) T, ‖l * u t + N (u t)‖ ≤ M) ∧
    (∀ t s : ℝ, 0 ≤ t → 0 ≤ s → t + s ≤ T →
      ‖N (u (t + s)) - N (u t) - (s : ℂ) • f' t‖ ≤ G * s ^ 2 / 2) := by
  set c : Fin 2 → ℂ := fun k => ![-1, -100] k + Complex.I with hc
  have hcn : ∀ k, ‖c k‖ ≤ 101 := by
    intro k
    refine (norm_add_le _ _).trans ?_
    fin_cases k <;> simp <;> norm_num
  have hexp : ∀ k (t : ℝ), 0 ≤ t → ‖Complex.exp (c k * t)‖ ≤ 1 := by
    intro k t ht
    rw [Complex.norm_exp, Real.exp_le_one_iff]
    fin_cases k <;> simp [hc] <;> nlinarith
  have hder : ∀ k (t : ℝ),
      HasDerivAt (fun t : ℝ => Complex.exp (c k * t)) (c k * Complex.exp (c k * t)) t := by
    intro k t
    exact (hasDerivAt_exp_mul (c k) t).congr_deriv (by ring)
  refine ⟨![-1, -100], fun v => fun k => Complex.I * v k, 1, fun t => fun k => Complex.exp (c k * t),
    fun t => fun k => Complex.I * (c k * Complex.exp (c k * t)), 1, 101, 0, 101 ^ 2, ?_, le_rfl, ?_,
    by norm_num, one_pos, ?_, ?_, ?_⟩
  · refine LipschitzWith.of_dist_le_mul (fun x y => ?_)
    rw [dist_eq_norm, dist_eq_norm, NNReal.coe_one, one_mul]
    refine (pi_norm_le_iff_of_nonneg (norm_nonneg _)).mpr (fun k => ?_)
    have : ((fun k => Complex.I * x k) - fun k => Complex.I * y k) k = Complex.I * (x - y) k := by
      simp only [Pi.sub_apply]; ring
    rw [this, norm_mul, Complex.norm_I, one_mul]
    exact norm_le_pi_norm _ k
  · intro k; fin_cases k <;> simp
  · intro t _
    refine hasDerivAt_pi.mpr (fun k => ?_)
    refine (hder k t).congr_deriv ?_
    simp only [Pi.add_apply, Pi.mul_apply, hc]
    ring
  · intro t ht
    refine (pi_norm_le_iff_of_nonneg (by norm_num)).mpr (fun k => ?_)
    have h1 : ∀ z w : ℂ, z * Complex.exp w + Complex.I * Complex.exp w
        = (z + Complex.I) * Complex.exp w := by intros; ring
    simp only [Pi.add_apply, Pi.mul_apply, h1]
    change ‖c k * Complex.exp (c k * t)‖ ≤ 101
    rw [norm_mul]
    calc _ ≤ 101 * 1 := mul_le_mul (hcn k) (hexp k t ht.1) (norm_nonneg _) (by norm_num)
      _ = 101 := by ring
  · intro t s ht hs hts
    refine (pi_norm_le_iff_of_nonneg (by positivity)).mpr (fun k => ?_)
    have hf : ∀ x ∈ Set.Icc (0 : ℝ) 1,
        HasDerivAt (fun x : ℝ => Complex.I * Complex.exp (c k * x))
          (Complex.I * (c k * Complex.exp (c k * x))) x := fun x _ => (hder k x).const_mul _
    have hf'' : ∀ x : ℝ, HasDerivAt (fun x : ℝ => Complex.I * (c k * Complex.exp (c k * x)))
        (Complex.I * (c k * (c k * Complex.exp (c k * x)))) x :=
      fun x => ((hder k x).const_mul _).const_mul _
    have hbd : ∀ x ∈ Set.Icc (0 : ℝ) 1,
        ‖Complex.I * (c k * (c k * Complex.exp (c k * x)))‖ ≤ 101 ^ 2 := by
      intro x hx
      rw [norm_mul, norm_mul, norm_mul, Complex.norm_I, one_mul]
      calc ‖c k‖ * (‖c k‖ * ‖Complex.exp (c k * x)‖) ≤ 101 * (101 * 1) := by
            gcongr
            · exact hcn k
            · exact hcn k
            · exact hexp k x hx.1
        _ = 101 ^ 2 := by norm_num
    have hLip : ∀ x ∈ Set.Icc (0 : ℝ) 1, ∀ y ∈ Set.Icc (0 : ℝ) 1,
        ‖Complex.I * (c k * Complex.exp (c k * x)) - Complex.I * (c k * Complex.exp (c k * y))‖
          ≤ 101 ^ 2 * |x - y| := by
      intro x hx y hy
      have := Convex.norm_image_sub_le_of_norm_hasDerivWithin_le
        (f := fun x : ℝ => Complex.I * (c k * Complex.exp (c k * x)))
        (f' := fun x : ℝ => Complex.I * (c k * (c k * Complex.exp (c k * x)))) (s := Set.Icc (0 : ℝ) 1)
        (fun z _ => (hf'' z).hasDerivWithinAt) hbd (convex_Icc 0 1) hy hx
      simpa [Real.norm_eq_abs] using this
    have := taylor_of_lipschitz_deriv (fun x : ℝ => Complex.I * Complex.exp (c k * x))
      (fun x : ℝ => Complex.I * (c k * Complex.exp (c k * x))) 1 (101 ^ 2) hf hLip t s ht hs hts
    simpa [Pi.sub_apply, Pi.smul_apply, smul_eq_mul] using this

end Exponax.LinearOrder
end
