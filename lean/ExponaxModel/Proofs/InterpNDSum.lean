import ExponaxModel.Proofs.InterpNDSpec
/-
C15 support — I4, part 2: in-band sums over the stored half layout of the `N`-grid do not depend
on `N` (re-indexing by the signed wavenumber vector, axis by axis).
-/
set_option linter.unusedVariables false
set_option linter.unusedSimpArgs false
namespace Exponax.Interp
open Exponax Exponax.Layout Exponax.Transform Exponax.DFT Finset

/-! ### in-band sums over the stored layout do not depend on the resolution -/

/-- signed wavenumbers of the `E` leading axes of the leading flat index `a < N^E` -/
def kLead (E N a : ℕ) : List ℤ := (List.range E).map (fun d => fftfreq N (digit E N a d))

theorem kLead_succ (E N a : ℕ) : kLead (E + 1) N a = kLead E N (a / N) ++ [fftfreq N (a % N)] := by
  unfold kLead
  rw [List.range_succ, List.map_append, List.map_singleton, digit_succ_last]
  congr 1
  apply List.map_congr_left
  intro d hd
  rw [digit_succ_of_lt E N a d (List.mem_range.mp hd)]

theorem wnFlat_succ_eq (E N h : ℕ) (hh : h < N ^ E * (N / 2 + 1)) :
    wnFlat (E + 1) N h = kLead E N (h / (N / 2 + 1)) ++ [((h % (N / 2 + 1) : ℕ) : ℤ)] := by
  unfold wnFlat wnVec kLead
  rw [List.range_succ, List.map_append, List.map_singleton, wavenumberShape_succ]
  congr 1
  · apply List.map_congr_left
    intro d hd
    have hd' := List.mem_range.mp hd
    unfold wn
    rw [if_neg (by omega), unflatten_rep_getD_lt N _ E h d hd' hh]
    congr 1
    unfold digit
    rw [Nat.div_div_eq_div_mul, mul_comm]
  · unfold wn rfftfreq
    rw [if_pos rfl, unflatten_rep_getD_last N _ E h hh]

theorem inBand_nil (m : ℕ) : inBand m [] := by
  intro κ hκ; simp at hκ

theorem inBand_append_singleton (m : ℕ) (l : List ℤ) (k : ℤ) :
    inBand m (l ++ [k]) ↔ inBand m l ∧ 2 * |k| < (m : ℤ) := by
  unfold inBand
  simp only [List.mem_append, List.mem_singleton]
  constructor
  · intro h
    exact ⟨fun κ hκ => h κ (Or.inl hκ), h k (Or.inr rfl)⟩
  · rintro ⟨h1, h2⟩ κ (hκ | rfl)
    · exact h1 κ hκ
    · exact h2

/-- one leading axis: the in-band part of a sum over the `fftfreq` layout is a sum over the
    symmetric integer interval `|k| ≤ (m-1)/2` -/
theorem axis_sum_lead (N m : ℕ) (hN : 0 < N) (hmN : m ≤ N) (hm1 : 1 ≤ m) (g : ℤ → ℂ) :
    ∑ i ∈ range N, (if 2 * |fftfreq N i| < (m : ℤ) then g (fftfreq N i) else 0)
      = ∑ k ∈ Finset.Icc (-(((m - 1) / 2 : ℕ) : ℤ)) (((m - 1) / 2 : ℕ) : ℤ), g k := by
  rw [← Finset.sum_filter]
  apply Finset.sum_bij (fun i _ => fftfreq N i)
  · intro i hi
    rw [Finset.mem_filter] at hi
    rw [Finset.mem_Icc]
    have h1 := le_abs_self (fftfreq N i)
    have h2 := neg_abs_le (fftfreq N i)
    have := hi.2
    generalize |fftfreq N i| = a at this h1 h2
    constructor <;> omega
  · intro i hi i' hi' he
    rw [Finset.mem_filter, Finset.mem_range] at hi hi'
    exact fftfreq_injOn N i i' hi.1 hi'.1 he
  · intro k hk
    rw [Finset.mem_Icc] at hk
    have hlo : -((N / 2 : ℕ) : ℤ) ≤ k := by omega
    have hhi : k ≤ (((N - 1) / 2 : ℕ) : ℤ) := by omega
    refine ⟨fftfreqInv N k, ?_, fftfreq_fftfreqInv N k hN hlo hhi⟩
    rw [Finset.mem_filter, Finset.mem_range, fftfreq_fftfreqInv N k hN hlo hhi]
    refine ⟨fftfreqInv_lt N k hN hlo hhi, ?_⟩
    have := abs_le.mpr ⟨hk.1, hk.2⟩
    generalize |k| = a at this
    omega
  · intro i hi; rfl

/-- the last (rfft) axis -/
theorem axis_sum_last (N m : ℕ) (hmN : m ≤ N) (g : ℕ → ℂ) :
    ∑ l ∈ range (N / 2 + 1), (if 2 * |((l : ℕ) : ℤ)| < (m : ℤ) then g l else 0)
      = ∑ l ∈ range ((m + 1) / 2), g l := by
  rw [← Finset.sum_filter]
  congr 1
  ext l
  simp only [Finset.mem_filter, Finset.mem_range, Nat.abs_cast]
  omega

/-- the resolution-independent form of the in-band sum over the leading axes -/
noncomputable def leadCanon (m : ℕ) : ℕ → (List ℤ → ℂ) → ℂ
  | 0, G => G []
  | E + 1, G => ∑ k ∈ Finset.Icc (-(((m - 1) / 2 : ℕ) : ℤ)) (((m - 1) / 2 : ℕ) : ℤ),
      leadCanon m E (fun κ => G (κ ++ [k]))

theorem lead_sum (m N : ℕ) (hN : 0 < N) (hmN : m ≤ N) (hm1 : 1 ≤ m) :
    ∀ (E : ℕ) (G : List ℤ → ℂ),
      ∑ a ∈ range (N ^ E), (if inBand m (kLead E N a) then G (kLead E N a) else 0) = leadCanon m E G
  | 0, G => by
    simp [kLead, leadCanon, inBand_nil]
  | E + 1, G => by
    let G2 : ℕ → ℕ → ℂ := fun x y => if inBand m (kLead E N x) then
            (if 2 * |fftfreq N y| < (m : ℤ) then G (kLead E N x ++ [fftfreq N y]) else 0) else 0
    have hF : ∀ a ∈ range (N ^ E * N),
        (if inBand m (kLead (E + 1) N a) then G (kLead (E + 1) N a) else 0) = G2 (a / N) (a % N) := by
      intro a _
      show _ = if inBand m (kLead E N (a / N)) then
            (if 2 * |fftfreq N (a % N)| < (m : ℤ) then G (kLead E N (a / N) ++ [fftfreq N (a % N)]) else 0) else 0
      simp only [kLead_succ, inBand_append_singleton]
      by_cases h1 : inBand m (kLead E N (a / N))
      · by_cases h2 : 2 * |fftfreq N (a % N)| < (m : ℤ)
        · rw [if_pos ⟨h1, h2⟩, if_pos h1, if_pos h2]
        · rw [if_neg (fun h => h2 h.2), if_pos h1, if_neg h2]
      · rw [if_neg (fun h => h1 h.1), if_neg h1]
    rw [pow_succ, Finset.sum_congr rfl hF, sum_range_mul_div_mod (N ^ E) N G2]
    have hinner : ∀ x ∈ range (N ^ E),
        ∑ y ∈ range N, G2 x y
        = ∑ k ∈ Finset.Icc (-(((m - 1) / 2 : ℕ) : ℤ)) (((m - 1) / 2 : ℕ) : ℤ),
            (if inBand m (kLead E N x) then (fun κ => G (κ ++ [k])) (kLead E N x) else 0) := by
      intro x _
      show ∑ y ∈ range N, (if inBand m (kLead E N x) then
            (if 2 * |fftfreq N y| < (m : ℤ) then G (kLead E N x ++ [fftfreq N y]) else 0) else 0) = _
      by_cases h1 : inBand m (kLead E N x)
      · simp only [if_pos h1]
        exact axis_sum_lead N m hN hmN hm1 (fun k => G (kLead E N x ++ [k]))
      · simp only [if_neg h1, Finset.sum_const_zero]
    rw [Finset.sum_congr rfl hinner, Finset.sum_comm]
    show _ = ∑ k ∈ Finset.Icc (-(((m - 1) / 2 : ℕ) : ℤ)) (((m - 1) / 2 : ℕ) : ℤ),
      leadCanon m E (fun κ => G (κ ++ [k]))
    apply Finset.sum_congr rfl
    intro k _
    exact lead_sum m N hN hmN hm1 E (fun κ => G (κ ++ [k]))

/-- **layout independence**: the in-band part of any sum over the stored half layout of the `N`-grid
    (`N ≥ m`) that depends on the mode only through its wavenumber vector has a value that does not
    depend on `N` -/
theorem full_sum (m N : ℕ) (hN : 0 < N) (hmN : m ≤ N) (hm1 : 1 ≤ m) (E : ℕ) (G : List ℤ → ℂ) :
    ∑ h ∈ range (numModes (E + 1) N),
        (if inBand m (wnFlat (E + 1) N h) then G (wnFlat (E + 1) N h) else 0)
      = ∑ l ∈ range ((m + 1) / 2), leadCanon m E (fun κ => G (κ ++ [((l : ℕ) : ℤ)])) := by
  rw [numModes_succ]
  let G2 : ℕ → ℕ → ℂ := fun x y => if 2 * |((y : ℕ) : ℤ)| < (m : ℤ) then
          (if inBand m (kLead E N x) then G (kLead E N x ++ [((y : ℕ) : ℤ)]) else 0) else 0
  have hF : ∀ h ∈ range (N ^ E * (N / 2 + 1)),
      (if inBand m (wnFlat (E + 1) N h) then G (wnFlat (E + 1) N h) else 0)
      = G2 (h / (N / 2 + 1)) (h % (N / 2 + 1)) := by
    intro h hh
    show _ = if 2 * |((h % (N / 2 + 1) : ℕ) : ℤ)| < (m : ℤ) then
          (if inBand m (kLead E N (h / (N / 2 + 1))) then
            G (kLead E N (h / (N / 2 + 1)) ++ [((h % (N / 2 + 1) : ℕ) : ℤ)]) else 0) else 0
    rw [wnFlat_succ_eq E N h (Finset.mem_range.mp hh)]
    simp only [inBand_append_singleton]
    by_cases h1 : inBand m (kLead E N (h / (N / 2 + 1)))
    · by_cases h2 : 2 * |((h % (N / 2 + 1) : ℕ) : ℤ)| < (m : ℤ)
      · rw [if_pos ⟨h1, h2⟩, if_pos h2, if_pos h1]
      · rw [if_neg (fun h => h2 h.2), if_neg h2]
    · rw [if_neg (fun h => h1 h.1)]
      split_ifs <;> rfl
  rw [Finset.sum_congr rfl hF, sum_range_mul_div_mod (N ^ E) (N / 2 + 1) G2, Finset.sum_comm]
  show ∑ y ∈ range (N / 2 + 1), ∑ x ∈ range (N ^ E), (if 2 * |((y : ℕ) : ℤ)| < (m : ℤ) then
          (if inBand m (kLead E N x) then G (kLead E N x ++ [((y : ℕ) : ℤ)]) else 0) else 0) = _
  have hpull : ∀ y ∈ range (N / 2 + 1), ∑ x ∈ range (N ^ E), (if 2 * |((y : ℕ) : ℤ)| < (m : ℤ) then
          (if inBand m (kLead E N x) then G (kLead E N x ++ [((y : ℕ) : ℤ)]) else 0) else 0)
      = if 2 * |((y : ℕ) : ℤ)| < (m : ℤ) then (fun y : ℕ => ∑ x ∈ range (N ^ E),
          (if inBand m (kLead E N x) then G (kLead E N x ++ [((y : ℕ) : ℤ)]) else 0)) y else 0 := by
    intro y _
    split_ifs
    · rfl
    · simp
  rw [Finset.sum_congr rfl hpull, axis_sum_last N m hmN]
  apply Finset.sum_congr rfl
  intro l _
  exact lead_sum m N hN hmN hm1 E (fun κ => G (κ ++ [((l : ℕ) : ℤ)]))

end Exponax.Interp
