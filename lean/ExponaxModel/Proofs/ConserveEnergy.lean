import ExponaxModel.Proofs.AliasMore
/-
C09 (part K4) — conservative convection does no work in 1-D: the triad sum
`Σ_{a+b+c=0} c · X_a X_b X_c` over the symmetric band vanishes.
-/
set_option linter.unusedVariables false
set_option linter.unusedSimpArgs false
namespace Exponax.Conserve
open Exponax Exponax.Layout Exponax.Transform Exponax.DFT Exponax.Nonlin Exponax.Alias Finset

/-! ### the triad sum over the band `|a|, |b|, |c| ≤ K`, `a + b + c = 0` -/

/-- `Σ_{a,b,c ∈ [−K,K], a+b+c=0} w(a,b,c) · Y_a Y_b Y_c` -/
noncomputable def tri (K : ℤ) (Y : ℤ → ℂ) (w : ℤ → ℤ → ℤ → ℂ) : ℂ :=
  ∑ a ∈ Finset.Icc (-K) K, ∑ b ∈ Finset.Icc (-K) K, ∑ c ∈ Finset.Icc (-K) K,
    if a + b + c = 0 then w a b c * (Y a * Y b * Y c) else 0

theorem sum3_rev {S : Finset ℤ} (f : ℤ → ℤ → ℤ → ℂ) :
    ∑ x ∈ S, ∑ y ∈ S, ∑ z ∈ S, f z y x = ∑ x ∈ S, ∑ y ∈ S, ∑ z ∈ S, f x y z := by
  rw [Finset.sum_comm]
  have : ∀ y ∈ S, ∑ x ∈ S, ∑ z ∈ S, f z y x = ∑ z ∈ S, ∑ x ∈ S, f z y x :=
    fun y _ => Finset.sum_comm
  rw [Finset.sum_congr rfl this, Finset.sum_comm]

theorem sum3_swap23 {S : Finset ℤ} (f : ℤ → ℤ → ℤ → ℂ) :
    ∑ x ∈ S, ∑ y ∈ S, ∑ z ∈ S, f x z y = ∑ x ∈ S, ∑ y ∈ S, ∑ z ∈ S, f x y z :=
  Finset.sum_congr rfl (fun x _ => Finset.sum_comm)

theorem tri_swap13 (K : ℤ) (Y : ℤ → ℂ) (w : ℤ → ℤ → ℤ → ℂ) :
    tri K Y (fun a b c => w c b a) = tri K Y w := by
  unfold tri
  rw [← sum3_rev (fun a b c => if a + b + c = 0 then w a b c * (Y a * Y b * Y c) else 0)]
  apply Finset.sum_congr rfl; intro a _
  apply Finset.sum_congr rfl; intro b _
  apply Finset.sum_congr rfl; intro c _
  have e : a + b + c = 0 ↔ c + b + a = 0 := by constructor <;> intro h <;> omega
  simp only [e]
  split_ifs
  · ring
  · rfl

theorem tri_swap23 (K : ℤ) (Y : ℤ → ℂ) (w : ℤ → ℤ → ℤ → ℂ) :
    tri K Y (fun a b c => w a c b) = tri K Y w := by
  unfold tri
  rw [← sum3_swap23 (fun a b c => if a + b + c = 0 then w a b c * (Y a * Y b * Y c) else 0)]
  apply Finset.sum_congr rfl; intro a _
  apply Finset.sum_congr rfl; intro b _
  apply Finset.sum_congr rfl; intro c _
  have e : a + b + c = 0 ↔ a + c + b = 0 := by constructor <;> intro h <;> omega
  simp only [e]
  split_ifs
  · ring
  · rfl

theorem tri_add3 (K : ℤ) (Y : ℤ → ℂ) (w1 w2 w3 : ℤ → ℤ → ℤ → ℂ) :
    tri K Y w1 + tri K Y w2 + tri K Y w3 = tri K Y (fun a b c => w1 a b c + w2 a b c + w3 a b c) := by
  unfold tri
  simp only [← Finset.sum_add_distrib]
  apply Finset.sum_congr rfl; intro a _
  apply Finset.sum_congr rfl; intro b _
  apply Finset.sum_congr rfl; intro c _
  split_ifs
  · ring
  · ring

theorem tri_total_zero (K : ℤ) (Y : ℤ → ℂ) :
    tri K Y (fun a b c => (a : ℂ) + (b : ℂ) + (c : ℂ)) = 0 := by
  unfold tri
  apply Finset.sum_eq_zero; intro a _
  apply Finset.sum_eq_zero; intro b _
  apply Finset.sum_eq_zero; intro c _
  split_ifs with h
  · have : (a : ℂ) + (b : ℂ) + (c : ℂ) = 0 := by exact_mod_cast congrArg (Int.cast (R := ℂ)) h
    beta_reduce
    rw [this, zero_mul]
  · rfl

/-- the same sum with the third index outermost -/
theorem tri_eq_c_outer (K : ℤ) (Y : ℤ → ℂ) (w : ℤ → ℤ → ℤ → ℂ) :
    tri K Y w = ∑ c ∈ Finset.Icc (-K) K, ∑ a ∈ Finset.Icc (-K) K, ∑ b ∈ Finset.Icc (-K) K,
      if a + b + c = 0 then w a b c * (Y a * Y b * Y c) else 0 := by
  unfold tri
  have h1 : ∀ a ∈ Finset.Icc (-K) K,
      ∑ b ∈ Finset.Icc (-K) K, ∑ c ∈ Finset.Icc (-K) K,
        (if a + b + c = 0 then w a b c * (Y a * Y b * Y c) else 0)
      = ∑ c ∈ Finset.Icc (-K) K, ∑ b ∈ Finset.Icc (-K) K,
        (if a + b + c = 0 then w a b c * (Y a * Y b * Y c) else 0) :=
    fun a _ => Finset.sum_comm
  rw [Finset.sum_congr rfl h1, Finset.sum_comm]

/-- **the triad identity**: `Σ_{a+b+c=0} c · Y_a Y_b Y_c = 0` (the summand is symmetric in the three
    indices, so the sum is a third of `Σ (a+b+c) · Y_a Y_b Y_c = 0`) -/
theorem tri_third_zero (K : ℤ) (Y : ℤ → ℂ) : tri K Y (fun _ _ c => (c : ℂ)) = 0 := by
  have h1 : tri K Y (fun a _ _ => (a : ℂ)) = tri K Y (fun _ _ c => (c : ℂ)) :=
    tri_swap13 K Y (fun _ _ c => (c : ℂ))
  have h2 : tri K Y (fun _ b _ => (b : ℂ)) = tri K Y (fun _ _ c => (c : ℂ)) :=
    tri_swap23 K Y (fun _ _ c => (c : ℂ))
  have h3 := tri_add3 K Y (fun a _ _ => (a : ℂ)) (fun _ b _ => (b : ℂ)) (fun _ _ c => (c : ℂ))
  rw [tri_total_zero, h1, h2] at h3
  have : (3 : ℂ) * tri K Y (fun _ _ c => (c : ℂ)) = 0 := by linear_combination h3
  exact (mul_eq_zero.mp this).resolve_left (by norm_num)

/-! ### from the convolution form to the triad sum -/

theorem sum_Icc_neg (K : ℤ) (f : ℤ → ℂ) :
    ∑ m ∈ Finset.Icc (-K) K, f m = ∑ m ∈ Finset.Icc (-K) K, f (-m) := by
  apply Finset.sum_nbij' (fun m => -m) (fun m => -m)
  · intro m hm; rw [Finset.mem_Icc] at hm ⊢; omega
  · intro m hm; rw [Finset.mem_Icc] at hm ⊢; omega
  · intro m _; ring
  · intro m _; ring
  · intro m _; rw [neg_neg]

/-- a truncated spectrum read through the band window -/
theorem trunc_eq_sum_ite (K : ℤ) (X : ℤ → ℂ) (m c : ℤ) :
    trunc K X (-c - m)
      = ∑ b ∈ Finset.Icc (-K) K, if m + b + c = 0 then trunc K X b else 0 := by
  have e : ∀ b : ℤ, (m + b + c = 0) ↔ (b = -c - m) := by
    intro b; constructor <;> intro h <;> omega
  simp only [e]
  rw [Finset.sum_ite_eq']
  split_ifs with hmem
  · rfl
  · rw [trunc_of_gt]
    intro habs
    apply hmem
    rw [Finset.mem_Icc]
    exact abs_le.mp habs

/-- **K4, spectral form.** For ANY `X : ℤ → ℂ` and any band `K`:
    `Σ_{|h| ≤ K} X_{−h} · h · Σ_{|m| ≤ K} X_m X_{h−m} = 0` (truncated spectra).  With
    `X = dft N x`, `K = Kc` this is `N²/(−scale·½·i s)` times the grid inner product of the
    band-truncated state with the conservative convection term: the nonlinear term does no work. -/
theorem convection_energy_spectral (K : ℤ) (X : ℤ → ℂ) :
    ∑ h ∈ Finset.Icc (-K) K, trunc K X (-h) * (h : ℂ) *
      ∑ m ∈ Finset.Icc (-K) K, trunc K X m * trunc K X (h - m) = 0 := by
  have key : ∑ h ∈ Finset.Icc (-K) K, trunc K X (-h) * (h : ℂ) *
        ∑ m ∈ Finset.Icc (-K) K, trunc K X m * trunc K X (h - m)
      = -tri K (trunc K X) (fun _ _ c => (c : ℂ)) := by
    rw [sum_Icc_neg, tri_eq_c_outer, ← Finset.sum_neg_distrib]
    apply Finset.sum_congr rfl; intro c _
    rw [neg_neg, Finset.mul_sum, ← Finset.sum_neg_distrib]
    apply Finset.sum_congr rfl; intro m _
    rw [trunc_eq_sum_ite K X m c, Finset.mul_sum, Finset.mul_sum, ← Finset.sum_neg_distrib]
    apply Finset.sum_congr rfl; intro b _
    split_ifs
    · push_cast; ring
    · ring
  rw [key, tri_third_zero, neg_zero]

/-! ### K4 on the grid: `Σ_j (P_K u)_j · N(u)_j = 0` -/

/-- inner product of a real grid field with the inverse transform of a stored half spectrum -/
theorem real_inner_irfft (N : ℕ) (hN : 0 < N) (y cc : Array ℂ) (hy : ∀ j < N, (y.getD j 0).im = 0) :
    ∑ j ∈ range N, y.getD j 0 * (irfftnM 1 N cc).getD j 0
      = ((∑ h ∈ range (N / 2 + 1),
          (herm_weight 1 N h : ℝ) * (cc.getD h 0 * dft N y (-(h : ℤ))).re : ℝ) : ℂ) / (N : ℂ) := by
  have hterm : ∀ j ∈ range N, y.getD j 0 * (irfftnM 1 N cc).getD j 0
      = ((∑ h ∈ range (N / 2 + 1), (herm_weight 1 N h : ℝ) *
          (cc.getD h 0 * (y.getD j 0 * zeta N ^ (-(h : ℤ) * (j : ℤ)))).re : ℝ) : ℂ) / (N : ℂ) := by
    intro j hj
    have hj' := Finset.mem_range.mp hj
    obtain ⟨r, hr⟩ : ∃ r : ℝ, y.getD j 0 = (r : ℂ) :=
      ⟨(y.getD j 0).re, Complex.ext (Complex.ofReal_re _).symm (by rw [Complex.ofReal_im, hy j hj'])⟩
    rw [irfft1_getD N hN cc j hj', hr, mul_div_assoc']
    congr 1
    push_cast
    rw [Finset.mul_sum]
    apply Finset.sum_congr rfl
    intro h _
    rw [show cc.getD h 0 * ((r : ℂ) * zeta N ^ (-(h : ℤ) * (j : ℤ)))
        = (r : ℂ) * (cc.getD h 0 * zeta N ^ (-((h : ℤ) * (j : ℤ)))) by rw [neg_mul]; ring,
      Complex.re_ofReal_mul]
    push_cast
    ring
  rw [Finset.sum_congr rfl hterm, ← Finset.sum_div, ← Complex.ofReal_sum]
  congr 2
  rw [Finset.sum_comm]
  apply Finset.sum_congr rfl
  intro h _
  rw [← Finset.mul_sum, ← Complex.re_sum, ← Finset.mul_sum]
  rfl

/-- a sum over the symmetric integer window of an even function -/
theorem sum_Icc_even (g : ℤ → ℝ) (hg : ∀ h, g (-h) = g h) (K : ℕ) :
    ∑ h ∈ Finset.Icc (-(K : ℤ)) (K : ℤ), g h = g 0 + 2 * ∑ h ∈ range K, g ((h : ℤ) + 1) := by
  induction K with
  | zero => simp
  | succ K ih =>
    have e : Finset.Icc (-((K + 1 : ℕ) : ℤ)) ((K + 1 : ℕ) : ℤ)
        = insert (-((K : ℤ) + 1)) (insert ((K : ℤ) + 1) (Finset.Icc (-(K : ℤ)) (K : ℤ))) := by
      ext a
      simp only [Finset.mem_insert, Finset.mem_Icc]
      push_cast
      omega
    rw [e, Finset.sum_insert, Finset.sum_insert, ih, Finset.sum_range_succ, hg]
    · ring
    · simp only [Finset.mem_Icc]; omega
    · simp only [Finset.mem_insert, Finset.mem_Icc]; omega

/-- **K4 on the grid (1-D, real scale `b`, real state `x`, `û = rfft x`, cut-off `3·Kc < N`).**
    The conservative convection term `n = irfft(N(û))` is orthogonal on the grid to the
    band-truncated state `y = ifft(mask·û) = P_K x`: `Σ_j y_j n_j = 0` — convection does no work on
    the (dealiased) state, so `Σ_j y_j²` is conserved by the nonlinear term. -/
theorem convection_energy_grid (c : Cfg ℂ) (hD : c.D = 1) (hq : c.fq ≠ 0) (hK : 3 * Kc c < (c.N : ℤ))
    (hN : 0 < c.N) (s : ℝ) (hs : c.s = (s : ℂ)) (b : ℝ) (x : Array ℂ) (hx : IsRealField c.N x) :
    ∑ j ∈ range c.N, (nifft c (rfftnM 1 c.N x)).getD j 0 *
      (irfftnM 1 c.N ((convection c 1 (b : ℂ) true true #[rfftnM 1 c.N x]).getD 0 #[])).getD j 0
      = 0 := by
  have h2 := two_Kc_lt_of_three c hK
  rw [real_inner_irfft c.N hN _ _ (nifft_real c hD hN _)]
  set K := Kc c with hKdef
  set Y : ℤ → ℂ := trunc K (dft c.N x) with hY
  set conv : ℤ → ℂ := fun h => ∑ m ∈ Finset.Icc (-K) K, Y m * Y (h - m) with hconv
  set z : ℤ → ℂ := fun h => Y (-h) * (h : ℂ) * conv h with hz
  -- Hermitian symmetry of the truncated spectrum of a real field
  have hYc : ∀ m, (starRingEnd ℂ) (Y m) = Y (-m) := by
    intro m
    simp only [hY, trunc, abs_neg]
    split_ifs
    · exact conj_dft c.N x hx m
    · simp
  have hconvc : ∀ h, (starRingEnd ℂ) (conv h) = conv (-h) := by
    intro h
    simp only [hconv, map_sum, map_mul, hYc]
    rw [sum_Icc_neg]
    apply Finset.sum_congr rfl
    intro m _
    rw [neg_neg, show -(h - -m) = -h - m by ring]
  have hzc : ∀ h, (z (-h)).im = (z h).im := by
    intro h
    have : z (-h) = -(starRingEnd ℂ) (z h) := by
      simp only [hz, map_mul, hYc, hconvc, neg_neg]
      have : (starRingEnd ℂ) (h : ℂ) = (h : ℂ) := by
        rw [← Complex.ofReal_intCast, Complex.conj_ofReal]
      rw [this]
      push_cast
      ring
    rw [this]
    simp
  have hz0 : z 0 = 0 := by simp [hz]
  -- each stored mode
  have hmode : ∀ h ∈ range (c.N / 2 + 1),
      (herm_weight 1 c.N h : ℝ) *
        (((convection c 1 (b : ℂ) true true #[rfftnM 1 c.N x]).getD 0 #[]).getD h 0 *
          dft c.N (nifft c (rfftnM 1 c.N x)) (-(h : ℤ))).re
      = (herm_weight 1 c.N h : ℝ) *
          (if (h : ℤ) ≤ K then (b * s / (2 * (c.N : ℝ))) * (z (h : ℤ)).im else 0) := by
    intro h hh
    have hh' : h ≤ c.N / 2 := by have := Finset.mem_range.mp hh; omega
    congr 1
    have hnl : ((convection c 1 (b : ℂ) true true #[rfftnM 1 c.N x]).getD 0 #[]).getD h 0
        = at2 (convection c 1 (b : ℂ) true true #[rfftnM 1 c.N x]) 0 h := rfl
    rw [hnl, convection_one_alias_free_of_cutoff' c hD hq hK hN (b : ℂ) x hx h hh']
    split_ifs with hk
    · have habs : |(-(h : ℤ))| ≤ K := by rw [abs_neg, abs_of_nonneg (by positivity)]; exact hk
      rw [dft_nifft_rfft c hD hq hN h2 x hx _ habs, deriv_1d c hD, hs]
      have hYneg : dft c.N x (-(h : ℤ)) = Y (-(h : ℤ)) := (trunc_of_le _ _ _ habs).symm
      rw [hYneg]
      have : -(b : ℂ) * (1 / 2) * (Complex.I * ((s : ℂ) * ((h : ℕ) : ℂ))) *
            ((1 / (c.N : ℂ)) * ∑ m ∈ Finset.Icc (-K) K, Y m * Y ((h : ℤ) - m)) * Y (-(h : ℤ))
          = ((-(b * s / (2 * (c.N : ℝ))) : ℝ) : ℂ) * (Complex.I * z (h : ℤ)) := by
        simp only [hz, hconv]
        push_cast
        ring
      rw [this, Complex.re_ofReal_mul, Complex.I_mul_re]
      ring
    · simp
  rw [Finset.sum_congr rfl hmode]
  -- the weighted half sum is the full band sum of `Im z`
  have hsum : ∑ h ∈ range (c.N / 2 + 1), (herm_weight 1 c.N h : ℝ) *
        (if (h : ℤ) ≤ K then (b * s / (2 * (c.N : ℝ))) * (z (h : ℤ)).im else 0)
      = (b * s / (2 * (c.N : ℝ))) * ∑ m ∈ Finset.Icc (-K) K, (z m).im := by
    rcases lt_or_ge K 0 with hneg | hpos
    · rw [Finset.Icc_eq_empty (by omega), Finset.sum_empty, mul_zero]
      apply Finset.sum_eq_zero
      intro h _
      rw [if_neg (by omega), mul_zero]
    · obtain ⟨K', hK'⟩ : ∃ K' : ℕ, K = (K' : ℤ) := ⟨K.toNat, (Int.toNat_of_nonneg hpos).symm⟩
      have hK'N : 2 * K' < c.N := by omega
      rw [hK', sum_Icc_even (fun m => (z m).im) hzc K', hz0]
      have hsub : ∑ h ∈ range (c.N / 2 + 1), (herm_weight 1 c.N h : ℝ) *
            (if (h : ℤ) ≤ (K' : ℤ) then (b * s / (2 * (c.N : ℝ))) * (z (h : ℤ)).im else 0)
          = ∑ h ∈ range (K' + 1), (herm_weight 1 c.N h : ℝ) *
            (if (h : ℤ) ≤ (K' : ℤ) then (b * s / (2 * (c.N : ℝ))) * (z (h : ℤ)).im else 0) := by
        symm
        apply Finset.sum_subset
        · intro h hh
          rw [Finset.mem_range] at hh ⊢
          omega
        · intro h _ hh
          rw [Finset.mem_range] at hh
          rw [if_neg (by omega), mul_zero]
      rw [hsub, Finset.sum_range_succ']
      simp only [Nat.cast_zero, hz0, Complex.zero_im, mul_zero, ite_self, add_zero, zero_add]
      rw [Finset.mul_sum, Finset.mul_sum]
      apply Finset.sum_congr rfl
      intro h hh
      rw [Finset.mem_range] at hh
      rw [if_pos (by push_cast; omega), herm_weight_one, if_neg (by omega)]
      push_cast
      ring
  rw [hsum, ← Complex.im_sum]
  have := convection_energy_spectral K (dft c.N x)
  have hzsum : ∑ m ∈ Finset.Icc (-K) K, z m = 0 := this
  rw [hzsum]
  simp

/-- non-vacuity of the cut-off hypothesis: `D = 1`, `N = 8`, fraction `2/3` gives `Kc = 1`, `3 < 8` -/
example : 3 * Kc (⟨1, 8, 1, 2, 3⟩ : Cfg ℂ) < ((8 : ℕ) : ℤ) := by decide

end Exponax.Conserve
