import Mathlib.Analysis.Calculus.Deriv.Mul
import Mathlib.Analysis.Calculus.Deriv.Add
import Mathlib.Analysis.SpecialFunctions.ExpDeriv
import Mathlib.Analysis.SpecialFunctions.Trigonometric.Deriv
import Mathlib.Analysis.Complex.RealDeriv
import ExponaxModel.Proofs.Instances
import ExponaxModel.Model.Wave
/-
S4 — the per-mode wave stepper `Wave.stepMode` at `K := ℂ`:
closed form (rotation with angle `ω·dt`, `ω = c·|κ|`), DC drift, exactness for
`h' = v, v' = −ω² h`, energy conservation, group property.
-/
set_option linter.unusedVariables false
namespace Exponax
open Exponax.Wave

/-! ### interpretation of the guards and of `sqrt 2` -/

theorem hasIsZero_complex (z : ℂ) : HasIsZero.isZero z = decide (z = 0) := rfl

theorem hasSqrt_complex (z : ℂ) : HasSqrt.sqrt z = z ^ ((1 : ℂ) / 2) := rfl

theorem kGuard_of_ne (kn : ℂ) (h : kn ≠ 0) : kGuard kn = kn := by
  simp [kGuard, hasIsZero_complex, h]

theorem kGuard_zero : kGuard (0 : ℂ) = 1 := by
  simp [kGuard, hasIsZero_complex]

/-- `HasSqrt ℂ` at the literal `2` squares to `2` -/
theorem sqrt_two_mul_self : HasSqrt.sqrt (lit 2 : ℂ) * HasSqrt.sqrt (lit 2 : ℂ) = 2 := by
  rw [hasSqrt_complex, lit_eq]
  have h := Complex.cpow_nat_inv_pow ((2 : ℕ) : ℂ) (n := 2) (by norm_num)
  rw [one_div, ← pow_two]
  exact_mod_cast h

theorem sqrt_two_sq : (HasSqrt.sqrt (lit 2 : ℂ)) ^ 2 = 2 := by
  rw [pow_two, sqrt_two_mul_self]

theorem sqrt_two_ne_zero : HasSqrt.sqrt (lit 2 : ℂ) ≠ 0 := by
  intro h
  have := sqrt_two_mul_self
  rw [h, mul_zero] at this
  norm_num at this

theorem inv_sqrt_two_mul_self :
    1 / HasSqrt.sqrt (lit 2 : ℂ) * (1 / HasSqrt.sqrt (lit 2 : ℂ)) = 1 / 2 := by
  rw [div_mul_div_comm, sqrt_two_mul_self, one_mul]

/-- the `1/√2 … 1/√2` sandwich of forward and inverse transform is a factor `1/2` -/
theorem sandwich (a b x y : ℂ) :
    1 / HasSqrt.sqrt (lit 2 : ℂ) * (a * (1 / HasSqrt.sqrt (lit 2 : ℂ) * x)
        + b * (1 / HasSqrt.sqrt (lit 2 : ℂ) * y)) = (a * x + b * y) / 2 := by
  have h := inv_sqrt_two_mul_self
  calc _ = (1 / HasSqrt.sqrt (lit 2 : ℂ) * (1 / HasSqrt.sqrt (lit 2 : ℂ))) * (a * x + b * y) := by ring
    _ = _ := by rw [h]; ring

theorem sandwich' (a b x y : ℂ) :
    1 / HasSqrt.sqrt (lit 2 : ℂ) * (a * (1 / HasSqrt.sqrt (lit 2 : ℂ) * x)
        - b * (1 / HasSqrt.sqrt (lit 2 : ℂ) * y)) = (a * x - b * y) / 2 := by
  have h := inv_sqrt_two_mul_self
  calc _ = (1 / HasSqrt.sqrt (lit 2 : ℂ) * (1 / HasSqrt.sqrt (lit 2 : ℂ))) * (a * x - b * y) := by ring
    _ = _ := by rw [h]; ring

/-- forward then inverse transform is the identity (`c·kGuard kn ≠ 0`) -/
theorem inverse_forward (c kn h v : ℂ) (hc : c ≠ 0) :
    inverse c kn (forward c kn h v).1 (forward c kn h v).2 = (h, v) := by
  have hg : kGuard kn ≠ 0 := by
    rcases eq_or_ne kn 0 with h0 | h0
    · rw [h0, kGuard_zero]; exact one_ne_zero
    · rw [kGuard_of_ne kn h0]; exact h0
  have hden : Complex.I * c * kGuard kn ≠ 0 := mul_ne_zero (mul_ne_zero Complex.I_ne_zero hc) hg
  simp only [inverse, forward, hasI_complex]
  have h1 := sandwich 1 1 (Complex.I * c * kGuard kn * h + v) (Complex.I * c * kGuard kn * h - v)
  have h2 := sandwich' 1 1 (Complex.I * c * kGuard kn * h + v) (Complex.I * c * kGuard kn * h - v)
  simp only [one_mul] at h1 h2
  rw [h1, h2]
  refine Prod.ext ?_ ?_
  · simp only
    field_simp
    ring
  · simp only
    ring

/-- `stepMode` with the `1/√2` factors combined -/
theorem stepMode_halved (c dt kn : ℂ) (isDC : Bool) (h v : ℂ) :
    stepMode c dt kn isDC h v =
      let w := Complex.I * c * kGuard kn * h
      let E1 := Complex.exp (dt * (Complex.I * c * kn))
      let E2 := Complex.exp (dt * -(Complex.I * c * kn))
      let o1 := (E1 * (w + v) + E2 * (w - v)) / 2 / (Complex.I * c * kGuard kn)
      let o2 := (E1 * (w + v) - E2 * (w - v)) / 2
      if isDC then (o1 + dt * v, o2) else (o1, o2) := by
  simp only [stepMode, forward, inverse, symbols, hasExp_complex, hasI_complex]
  rw [sandwich, sandwich']

/-! ### S4(a) closed form away from the DC mode -/

theorem exp_pos_eq (c dt kn : ℂ) :
    Complex.exp (dt * (Complex.I * c * kn))
      = Complex.cos (c * kn * dt) + Complex.sin (c * kn * dt) * Complex.I := by
  rw [← Complex.exp_mul_I]; congr 1; ring

theorem exp_neg_eq (c dt kn : ℂ) :
    Complex.exp (dt * -(Complex.I * c * kn))
      = Complex.cos (c * kn * dt) - Complex.sin (c * kn * dt) * Complex.I := by
  have h : dt * -(Complex.I * c * kn) = (-(c * kn * dt)) * Complex.I := by ring
  rw [h, Complex.exp_mul_I, Complex.cos_neg, Complex.sin_neg]; ring

/-- complex-parameter closed form: rotation by the angle `ω·dt`, `ω = c·kn` -/
theorem stepMode_nonDC (c dt kn h v : ℂ) (hc : c ≠ 0) (hkn : kn ≠ 0) :
    stepMode c dt kn false h v =
      (Complex.cos (c * kn * dt) * h + Complex.sin (c * kn * dt) / (c * kn) * v,
       -(c * kn) * Complex.sin (c * kn * dt) * h + Complex.cos (c * kn * dt) * v) := by
  rw [stepMode_halved, kGuard_of_ne kn hkn, exp_pos_eq, exp_neg_eq]
  simp only [Bool.false_eq_true, if_false]
  refine Prod.ext ?_ ?_
  · simp only
    have hI := Complex.I_ne_zero
    field_simp
    ring
  · simp only
    linear_combination (Complex.sin (c * kn * dt) * c * kn * h) * Complex.I_sq

/-- S4(a): real `c ≠ 0`, `kn > 0`, `dt`: with `ω = c·kn`,
    `(h, v) ↦ (cos(ω dt) h + sin(ω dt)/ω v, −ω sin(ω dt) h + cos(ω dt) v)` -/
theorem stepMode_nonDC_real (c dt kn : ℝ) (h v : ℂ) (hc : c ≠ 0) (hkn : kn ≠ 0) :
    stepMode (c : ℂ) (dt : ℂ) (kn : ℂ) false h v =
      ((Real.cos (c * kn * dt) : ℂ) * h + ((Real.sin (c * kn * dt) / (c * kn) : ℝ) : ℂ) * v,
       ((-(c * kn) * Real.sin (c * kn * dt) : ℝ) : ℂ) * h + (Real.cos (c * kn * dt) : ℂ) * v) := by
  rw [stepMode_nonDC (c : ℂ) dt kn h v (by exact_mod_cast hc) (by exact_mod_cast hkn)]
  push_cast
  rfl

/-! ### S4(b) DC mode -/

theorem stepMode_DC (c dt h v : ℂ) (hc : c ≠ 0) :
    stepMode c dt 0 true h v = (h + dt * v, v) := by
  rw [stepMode_halved, kGuard_zero]
  simp only [mul_zero, neg_zero, Complex.exp_zero, if_true, one_mul, mul_one]
  refine Prod.ext ?_ ?_
  · simp only
    have hI := Complex.I_ne_zero
    field_simp
    ring
  · simp only
    ring

/-! ### S4(c) exactness: `stepMode` is the flow of `h' = v`, `v' = −ω² h` -/

theorem hasDerivAt_cos_mul (w t : ℂ) :
    HasDerivAt (fun t : ℂ => Complex.cos (w * t)) (-(w * Complex.sin (w * t))) t := by
  have h1 : HasDerivAt (fun t : ℂ => w * t) w t := by
    simpa using HasDerivAt.const_mul w (hasDerivAt_id t)
  exact HasDerivAt.congr_deriv (HasDerivAt.ccos h1) (by ring)

theorem hasDerivAt_sin_mul (w t : ℂ) :
    HasDerivAt (fun t : ℂ => Complex.sin (w * t)) (w * Complex.cos (w * t)) t := by
  have h1 : HasDerivAt (fun t : ℂ => w * t) w t := by
    simpa using HasDerivAt.const_mul w (hasDerivAt_id t)
  exact HasDerivAt.congr_deriv (HasDerivAt.csin h1) (by ring)

/-- complex time, complex parameters, `ω = c·kn ≠ 0` -/
theorem stepMode_nonDC_exact (c kn h0 v0 : ℂ) (hc : c ≠ 0) (hkn : kn ≠ 0) (t : ℂ) :
    HasDerivAt (fun t : ℂ => (stepMode c t kn false h0 v0).1) (stepMode c t kn false h0 v0).2 t
    ∧ HasDerivAt (fun t : ℂ => (stepMode c t kn false h0 v0).2)
        (-((c * kn) ^ 2) * (stepMode c t kn false h0 v0).1) t
    ∧ stepMode c 0 kn false h0 v0 = (h0, v0) := by
  have hw : c * kn ≠ 0 := mul_ne_zero hc hkn
  have hf1 : (fun t : ℂ => (stepMode c t kn false h0 v0).1)
      = fun t => Complex.cos (c * kn * t) * h0 + Complex.sin (c * kn * t) / (c * kn) * v0 := by
    funext t; rw [stepMode_nonDC c t kn h0 v0 hc hkn]
  have hf2 : (fun t : ℂ => (stepMode c t kn false h0 v0).2)
      = fun t => -(c * kn) * Complex.sin (c * kn * t) * h0 + Complex.cos (c * kn * t) * v0 := by
    funext t; rw [stepMode_nonDC c t kn h0 v0 hc hkn]
  have hC := hasDerivAt_cos_mul (c * kn) t
  have hS := hasDerivAt_sin_mul (c * kn) t
  refine ⟨?_, ?_, ?_⟩
  · rw [hf1, stepMode_nonDC c t kn h0 v0 hc hkn]
    have h1 := HasDerivAt.add (HasDerivAt.mul_const hC h0)
      (HasDerivAt.mul_const (HasDerivAt.div_const hS (c * kn)) v0)
    refine HasDerivAt.congr_deriv h1 ?_
    simp only
    field_simp
  · rw [hf2, stepMode_nonDC c t kn h0 v0 hc hkn]
    have h1 := HasDerivAt.add (HasDerivAt.mul_const (HasDerivAt.const_mul (-(c * kn)) hS) h0)
      (HasDerivAt.mul_const hC v0)
    refine HasDerivAt.congr_deriv h1 ?_
    simp only
    field_simp
    ring
  · rw [stepMode_nonDC c 0 kn h0 v0 hc hkn]
    simp

/-- S4(c), real data: real `c ≠ 0`, `kn ≠ 0`, real time -/
theorem stepMode_nonDC_exact_real (c kn : ℝ) (h0 v0 : ℂ) (hc : c ≠ 0) (hkn : kn ≠ 0) (t : ℝ) :
    HasDerivAt (fun t : ℝ => (stepMode (c : ℂ) (t : ℂ) (kn : ℂ) false h0 v0).1)
        (stepMode (c : ℂ) (t : ℂ) (kn : ℂ) false h0 v0).2 t
    ∧ HasDerivAt (fun t : ℝ => (stepMode (c : ℂ) (t : ℂ) (kn : ℂ) false h0 v0).2)
        (-(((c * kn : ℝ) : ℂ) ^ 2) * (stepMode (c : ℂ) (t : ℂ) (kn : ℂ) false h0 v0).1) t
    ∧ stepMode (c : ℂ) ((0 : ℝ) : ℂ) (kn : ℂ) false h0 v0 = (h0, v0) := by
  obtain ⟨h1, h2, h3⟩ := stepMode_nonDC_exact (c : ℂ) (kn : ℂ) h0 v0
    (by exact_mod_cast hc) (by exact_mod_cast hkn) (t : ℂ)
  refine ⟨HasDerivAt.comp_ofReal h1, ?_, ?_⟩
  · have := HasDerivAt.comp_ofReal h2
    push_cast
    exact this
  · simpa using h3

/-- DC mode: `h' = v`, `v' = 0` -/
theorem stepMode_DC_exact (c h0 v0 : ℂ) (hc : c ≠ 0) (t : ℝ) :
    HasDerivAt (fun t : ℝ => (stepMode c (t : ℂ) 0 true h0 v0).1) (stepMode c (t : ℂ) 0 true h0 v0).2 t
    ∧ HasDerivAt (fun t : ℝ => (stepMode c (t : ℂ) 0 true h0 v0).2) 0 t
    ∧ stepMode c ((0 : ℝ) : ℂ) 0 true h0 v0 = (h0, v0) := by
  have hf1 : (fun t : ℝ => (stepMode c (t : ℂ) 0 true h0 v0).1) = fun t : ℝ => h0 + (t : ℂ) * v0 := by
    funext t; rw [stepMode_DC c t h0 v0 hc]
  have hf2 : (fun t : ℝ => (stepMode c (t : ℂ) 0 true h0 v0).2) = fun _ : ℝ => v0 := by
    funext t; rw [stepMode_DC c t h0 v0 hc]
  refine ⟨?_, ?_, ?_⟩
  · rw [hf1, stepMode_DC c t h0 v0 hc]
    have h1 : HasDerivAt (fun z : ℂ => h0 + z * v0) v0 (t : ℂ) := by
      have := HasDerivAt.const_add h0 (HasDerivAt.mul_const (hasDerivAt_id (t : ℂ)) v0)
      simpa using this
    exact HasDerivAt.comp_ofReal h1
  · rw [hf2]; exact hasDerivAt_const t v0
  · rw [stepMode_DC c _ h0 v0 hc]; simp

/-! ### S4(d) energy -/

theorem rotation_energy (C S : ℝ) (hCS : C ^ 2 + S ^ 2 = 1) (a b : ℂ) :
    ‖(C : ℂ) * a + (S : ℂ) * b‖ ^ 2 + ‖-(S : ℂ) * a + (C : ℂ) * b‖ ^ 2 = ‖a‖ ^ 2 + ‖b‖ ^ 2 := by
  simp only [Complex.sq_norm, Complex.normSq_apply, Complex.add_re, Complex.add_im,
    Complex.neg_re, Complex.neg_im, Complex.mul_re, Complex.mul_im, Complex.ofReal_re,
    Complex.ofReal_im, neg_mul]
  linear_combination (a.re ^ 2 + a.im ^ 2 + b.re ^ 2 + b.im ^ 2) * hCS

/-- the wave energy `|ω ĥ|² + |v̂|²` of a non-DC mode is conserved by a step -/
theorem stepMode_energy (c dt kn : ℝ) (h v : ℂ) (hc : c ≠ 0) (hkn : kn ≠ 0) :
    ‖((c * kn : ℝ) : ℂ) * (stepMode (c : ℂ) (dt : ℂ) (kn : ℂ) false h v).1‖ ^ 2
      + ‖(stepMode (c : ℂ) (dt : ℂ) (kn : ℂ) false h v).2‖ ^ 2
      = ‖((c * kn : ℝ) : ℂ) * h‖ ^ 2 + ‖v‖ ^ 2 := by
  rw [stepMode_nonDC_real c dt kn h v hc hkn]
  have hw : c * kn ≠ 0 := mul_ne_zero hc hkn
  have hCS : Real.cos (c * kn * dt) ^ 2 + Real.sin (c * kn * dt) ^ 2 = 1 :=
    Real.cos_sq_add_sin_sq _
  rw [← rotation_energy _ _ hCS (((c * kn : ℝ) : ℂ) * h) v]
  have hc' : (c : ℂ) ≠ 0 := by exact_mod_cast hc
  have hkn' : (kn : ℂ) ≠ 0 := by exact_mod_cast hkn
  congr 3
  · simp only
    push_cast
    field_simp
  · simp only
    push_cast
    ring

/-! ### S4(e) group property -/

theorem stepMode_nonDC_add (c dt1 dt2 kn h v : ℂ) (hc : c ≠ 0) (hkn : kn ≠ 0) :
    stepMode c dt2 kn false (stepMode c dt1 kn false h v).1 (stepMode c dt1 kn false h v).2
      = stepMode c (dt1 + dt2) kn false h v := by
  have hw : c * kn ≠ 0 := mul_ne_zero hc hkn
  have e : c * kn * (dt1 + dt2) = c * kn * dt1 + c * kn * dt2 := by ring
  rw [stepMode_nonDC c dt1 kn h v hc hkn, stepMode_nonDC c dt2 kn _ _ hc hkn,
    stepMode_nonDC c (dt1 + dt2) kn h v hc hkn, e, Complex.cos_add, Complex.sin_add]
  refine Prod.ext ?_ ?_
  · simp only
    field_simp
    ring
  · simp only
    field_simp
    ring

theorem stepMode_nonDC_zero (c kn h v : ℂ) (hc : c ≠ 0) (hkn : kn ≠ 0) :
    stepMode c 0 kn false h v = (h, v) := by
  rw [stepMode_nonDC c 0 kn h v hc hkn]; simp

/-- a step with `−dt` undoes a step with `dt` -/
theorem stepMode_nonDC_neg (c dt kn h v : ℂ) (hc : c ≠ 0) (hkn : kn ≠ 0) :
    stepMode c (-dt) kn false (stepMode c dt kn false h v).1 (stepMode c dt kn false h v).2 = (h, v) := by
  rw [stepMode_nonDC_add c dt (-dt) kn h v hc hkn, add_neg_cancel, stepMode_nonDC_zero c kn h v hc hkn]

theorem stepMode_DC_add (c dt1 dt2 h v : ℂ) (hc : c ≠ 0) :
    stepMode c dt2 0 true (stepMode c dt1 0 true h v).1 (stepMode c dt1 0 true h v).2
      = stepMode c (dt1 + dt2) 0 true h v := by
  rw [stepMode_DC c dt1 h v hc, stepMode_DC c dt2 _ _ hc, stepMode_DC c (dt1 + dt2) h v hc]
  refine Prod.ext ?_ rfl
  simp only
  ring

theorem stepMode_DC_neg (c dt h v : ℂ) (hc : c ≠ 0) :
    stepMode c (-dt) 0 true (stepMode c dt 0 true h v).1 (stepMode c dt 0 true h v).2 = (h, v) := by
  rw [stepMode_DC_add c dt (-dt) h v hc, add_neg_cancel, stepMode_DC c 0 h v hc]
  simp

end Exponax
