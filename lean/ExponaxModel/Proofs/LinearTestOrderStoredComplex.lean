import ExponaxModel.Proofs.LinearTestOrderStored
import ExponaxModel.Proofs.ContourComplexNodes
/-
C02 support — T7 instantiated with the STORED contour coefficients (defaults `num_circle_points = 16`,
`circle_radius = 1`) for a COMPLEX linear symbol `λ` in the closed left half-plane (`Re λ ≤ 0`: diffusive, advective,
dispersive, or any mixture), real `dt ≥ 0`, and `λ·dt` not one of the sixteen quadrature nodes `−ζ_j`
(`ContourComplex.halfplane_accuracy_iff`: on a node the stored value is NOT accurate, so the hypothesis cannot be dropped;
purely imaginary and real `λ·dt` are never on a node).  Every stored ETDRK1–4 coefficient is then within `1.7·10⁻¹²·dt`
of its exact value (`ContourComplex.coef_errors_halfplane`), hence the regenerated steppers, with the regenerated
coefficient functions `E?_coef_?`, `exp_term`, `E?_half_exp_term` plugged in, satisfy on the linear test family
`u' = λu + μu` (`μ ∈ ℂ`)

   ‖(stored ETDRKp step)ⁿ u − e^{(λ+μ) n dt} u‖ ≤ Cfloor · (Cloc_p · dt^p + pertD_p(1.7·10⁻¹²)) · ‖u‖     (n·dt ≤ T),

p = 1, 2, 3, 4.  (The real-symbol version `LinearTestOrderStored.lean` used the older real-axis estimate with δ = 5·10⁻⁸.)
-/
set_option linter.unusedVariables false
noncomputable section
namespace Exponax.LinearOrder
open Exponax Exponax.Spec Exponax.ContourTail Exponax.ContourComplex Exponax.Gen.Etdrk

/-- the half-plane quadrature accuracy of the stored coefficients -/
def δstoredC : ℝ := 1.7e-12

theorem δstoredC_nonneg : 0 ≤ δstoredC := by unfold δstoredC; norm_num

theorem exp_term_eqC (dt : ℝ) (l : ℂ) : exp_term (dt : ℂ) l = Complex.exp (l * dt) := by
  rw [C02_exp_term, mul_comm]

theorem half_exp_term_E3_eqC (dt : ℝ) (l : ℂ) :
    E3_half_exp_term (dt : ℂ) l 16 1 = Complex.exp (l * dt / 2) := by
  rw [C02_half_exp_term_E3, mul_comm]

theorem half_exp_term_E4_eqC (dt : ℝ) (l : ℂ) :
    E4_half_exp_term (dt : ℂ) l 16 1 = Complex.exp (l * dt / 2) := by
  rw [C02_half_exp_term_E4, mul_comm]

/-- `‖(dt : ℂ)‖ * δ` to `δ * dt` for `dt ≥ 0` -/
theorem norm_fix {x y dt : ℝ} (hdt : 0 ≤ dt) (h : x ≤ ‖(dt : ℂ)‖ * y) : x ≤ y * dt := by
  rw [Complex.norm_real, Real.norm_eq_abs] at h
  exact abs_fix hdt h

/-- the fourteen stored coefficients in the form the perturbation theorems consume (`≤ δ·dt`) -/
theorem coef_errors_halfplane_real_dt (dt : ℝ) (l : ℂ) (hdt : 0 ≤ dt) (hl : l.re ≤ 0)
    (hnode : ∀ ζ ∈ (roots_of_unity 16 : List ℂ), l * (dt : ℂ) ≠ -(1 * ζ)) :
    ‖E1_coef_1 (dt : ℂ) l 16 1 - dt * phi1e (l * dt)‖ ≤ δstoredC * dt ∧
    ‖E2_coef_1 (dt : ℂ) l 16 1 - dt * phi1e (l * dt)‖ ≤ δstoredC * dt ∧
    ‖E2_coef_2 (dt : ℂ) l 16 1 - dt * phi2e (l * dt)‖ ≤ δstoredC * dt ∧
    ‖E3_coef_1 (dt : ℂ) l 16 1 - dt * (phi1e (l * dt / 2) / 2)‖ ≤ δstoredC * dt ∧
    ‖E3_coef_2 (dt : ℂ) l 16 1 - dt * phi1e (l * dt)‖ ≤ δstoredC * dt ∧
    ‖E3_coef_3 (dt : ℂ) l 16 1 - dt * (phi1e (l * dt) - 3 * phi2e (l * dt) + 4 * phi3e (l * dt))‖ ≤ δstoredC * dt ∧
    ‖E3_coef_4 (dt : ℂ) l 16 1 - dt * (4 * phi2e (l * dt) - 8 * phi3e (l * dt))‖ ≤ δstoredC * dt ∧
    ‖E3_coef_5 (dt : ℂ) l 16 1 - dt * (4 * phi3e (l * dt) - phi2e (l * dt))‖ ≤ δstoredC * dt ∧
    ‖E4_coef_1 (dt : ℂ) l 16 1 - dt * (phi1e (l * dt / 2) / 2)‖ ≤ δstoredC * dt ∧
    ‖E4_coef_2 (dt : ℂ) l 16 1 - dt * (phi1e (l * dt / 2) / 2)‖ ≤ δstoredC * dt ∧
    ‖E4_coef_3 (dt : ℂ) l 16 1 - dt * (phi1e (l * dt / 2) / 2)‖ ≤ δstoredC * dt ∧
    ‖E4_coef_4 (dt : ℂ) l 16 1 - dt * (phi1e (l * dt) - 3 * phi2e (l * dt) + 4 * phi3e (l * dt))‖ ≤ δstoredC * dt ∧
    ‖E4_coef_5 (dt : ℂ) l 16 1 - dt * (phi2e (l * dt) - 2 * phi3e (l * dt))‖ ≤ δstoredC * dt ∧
    ‖E4_coef_6 (dt : ℂ) l 16 1 - dt * (4 * phi3e (l * dt) - phi2e (l * dt))‖ ≤ δstoredC * dt := by
  obtain ⟨h0, h1, h2, h3, h4, h5, h6, h7, h8, h9, h10, h11, h12, h13⟩ :=
    coef_errors_halfplane (dt : ℂ) l (re_mul_ofReal_nonpos dt l hdt hl) hnode
  exact ⟨norm_fix hdt h0, norm_fix hdt h1, norm_fix hdt h2, norm_fix hdt h3, norm_fix hdt h4, norm_fix hdt h5,
    norm_fix hdt h6, norm_fix hdt h7, norm_fix hdt h8, norm_fix hdt h9, norm_fix hdt h10, norm_fix hdt h11,
    norm_fix hdt h12, norm_fix hdt h13⟩

/-- **T7 for the stored ETDRK1 stepper, complex symbol** (`Re λ ≤ 0`, `λ dt` off the nodes) -/
theorem stored_E1_global_complex (l m : ℂ) (T : ℝ) (hl : l.re ≤ 0) (n : ℕ) (dt : ℝ) (hdt : 0 ≤ dt)
    (hn : n * dt ≤ T) (hnode : ∀ ζ ∈ (roots_of_unity 16 : List ℂ), l * (dt : ℂ) ≠ -(1 * ζ)) (u : ℂ) :
    ‖(E1step (exp_term (dt : ℂ) l) (E1_coef_1 (dt : ℂ) l 16 1) (fun v => m * v))^[n] u
        - Complex.exp ((l + m) * (n * dt)) * u‖
      ≤ Cfloor (Cloc1 l m T) (pertD1 m δstoredC) (l + m) 1 T
          * (Cloc1 l m T * dt ^ 1 + pertD1 m δstoredC) * ‖u‖ := by
  have h := coef_errors_halfplane_real_dt dt l hdt hl hnode
  rw [exp_term_eqC]
  exact E1step_perturbed_global l m T δstoredC δstoredC_nonneg n dt hdt hn _ h.1 u

/-- **T7 for the stored ETDRK2 stepper, complex symbol** -/
theorem stored_E2_global_complex (l m : ℂ) (T : ℝ) (hl : l.re ≤ 0) (n : ℕ) (dt : ℝ) (hdt : 0 ≤ dt)
    (hn : n * dt ≤ T) (hnode : ∀ ζ ∈ (roots_of_unity 16 : List ℂ), l * (dt : ℂ) ≠ -(1 * ζ)) (u : ℂ) :
    ‖(E2step (exp_term (dt : ℂ) l) (E2_coef_1 (dt : ℂ) l 16 1) (E2_coef_2 (dt : ℂ) l 16 1)
          (fun v => m * v))^[n] u
        - Complex.exp ((l + m) * (n * dt)) * u‖
      ≤ Cfloor (Cloc2 l m T) (pertD2 l m T δstoredC) (l + m) 2 T
          * (Cloc2 l m T * dt ^ 2 + pertD2 l m T δstoredC) * ‖u‖ := by
  have h := coef_errors_halfplane_real_dt dt l hdt hl hnode
  rw [exp_term_eqC]
  exact E2step_perturbed_global l m T δstoredC δstoredC_nonneg n dt hdt hn _ _ h.2.1 h.2.2.1 u

/-- **T7 for the stored ETDRK3 stepper, complex symbol** -/
theorem stored_E3_global_complex (l m : ℂ) (T : ℝ) (hl : l.re ≤ 0) (n : ℕ) (dt : ℝ) (hdt : 0 ≤ dt)
    (hn : n * dt ≤ T) (hnode : ∀ ζ ∈ (roots_of_unity 16 : List ℂ), l * (dt : ℂ) ≠ -(1 * ζ)) (u : ℂ) :
    ‖(E3step (exp_term (dt : ℂ) l) (E3_half_exp_term (dt : ℂ) l 16 1)
          (E3_coef_1 (dt : ℂ) l 16 1) (E3_coef_2 (dt : ℂ) l 16 1)
          (E3_coef_3 (dt : ℂ) l 16 1) (E3_coef_4 (dt : ℂ) l 16 1)
          (E3_coef_5 (dt : ℂ) l 16 1) (fun v => m * v))^[n] u
        - Complex.exp ((l + m) * (n * dt)) * u‖
      ≤ Cfloor (Cloc3 l m T) (pertD3 l m T δstoredC) (l + m) 3 T
          * (Cloc3 l m T * dt ^ 3 + pertD3 l m T δstoredC) * ‖u‖ := by
  have h := coef_errors_halfplane_real_dt dt l hdt hl hnode
  rw [exp_term_eqC, half_exp_term_E3_eqC]
  exact E3step_perturbed_global l m T δstoredC δstoredC_nonneg n dt hdt hn _ _ _ _ _
    h.2.2.2.1 h.2.2.2.2.1 h.2.2.2.2.2.1 h.2.2.2.2.2.2.1 h.2.2.2.2.2.2.2.1 u

/-- **T7 for the stored ETDRK4 stepper, complex symbol** -/
theorem stored_E4_global_complex (l m : ℂ) (T : ℝ) (hl : l.re ≤ 0) (n : ℕ) (dt : ℝ) (hdt : 0 ≤ dt)
    (hn : n * dt ≤ T) (hnode : ∀ ζ ∈ (roots_of_unity 16 : List ℂ), l * (dt : ℂ) ≠ -(1 * ζ)) (u : ℂ) :
    ‖(E4step (exp_term (dt : ℂ) l) (E4_half_exp_term (dt : ℂ) l 16 1)
          (E4_coef_1 (dt : ℂ) l 16 1) (E4_coef_2 (dt : ℂ) l 16 1)
          (E4_coef_3 (dt : ℂ) l 16 1) (E4_coef_4 (dt : ℂ) l 16 1)
          (E4_coef_5 (dt : ℂ) l 16 1) (E4_coef_6 (dt : ℂ) l 16 1)
          (fun v => m * v))^[n] u
        - Complex.exp ((l + m) * (n * dt)) * u‖
      ≤ Cfloor (Cloc4 l m T) (pertD4 l m T δstoredC) (l + m) 4 T
          * (Cloc4 l m T * dt ^ 4 + pertD4 l m T δstoredC) * ‖u‖ := by
  have h := coef_errors_halfplane_real_dt dt l hdt hl hnode
  rw [exp_term_eqC, half_exp_term_E4_eqC]
  exact E4step_perturbed_global l m T δstoredC δstoredC_nonneg n dt hdt hn _ _ _ _ _ _
    h.2.2.2.2.2.2.2.2.1 h.2.2.2.2.2.2.2.2.2.1 h.2.2.2.2.2.2.2.2.2.2.1 h.2.2.2.2.2.2.2.2.2.2.2.1
    h.2.2.2.2.2.2.2.2.2.2.2.2.1 h.2.2.2.2.2.2.2.2.2.2.2.2.2 u

/-! ### the imaginary axis (advection `λ = −i c k`, dispersion `λ = i k³`): never on a node -/

/-- `λ·dt` with `Re λ = 0` and real `dt` is not a quadrature node (`M = 16` is a multiple of 4) -/
theorem imaginary_off_nodes (l : ℂ) (dt : ℝ) (hl : l.re = 0) :
    ∀ ζ ∈ (roots_of_unity 16 : List ℂ), l * (dt : ℂ) ≠ -(1 * ζ) := by
  refine excluded_of_re_eq_zero 16 (by norm_num) (by norm_num) (l * (dt : ℂ)) ?_
  rw [Complex.re_mul_ofReal, hl, zero_mul]

/-- all four stored steppers for a purely imaginary symbol: no node hypothesis -/
theorem stored_global_imaginary (l m : ℂ) (T : ℝ) (hl : l.re = 0) (n : ℕ) (dt : ℝ) (hdt : 0 ≤ dt)
    (hn : n * dt ≤ T) (u : ℂ) :
    ‖(E1step (exp_term (dt : ℂ) l) (E1_coef_1 (dt : ℂ) l 16 1) (fun v => m * v))^[n] u
        - Complex.exp ((l + m) * (n * dt)) * u‖
      ≤ Cfloor (Cloc1 l m T) (pertD1 m δstoredC) (l + m) 1 T
          * (Cloc1 l m T * dt ^ 1 + pertD1 m δstoredC) * ‖u‖ ∧
    ‖(E2step (exp_term (dt : ℂ) l) (E2_coef_1 (dt : ℂ) l 16 1) (E2_coef_2 (dt : ℂ) l 16 1)
          (fun v => m * v))^[n] u
        - Complex.exp ((l + m) * (n * dt)) * u‖
      ≤ Cfloor (Cloc2 l m T) (pertD2 l m T δstoredC) (l + m) 2 T
          * (Cloc2 l m T * dt ^ 2 + pertD2 l m T δstoredC) * ‖u‖ ∧
    ‖(E3step (exp_term (dt : ℂ) l) (E3_half_exp_term (dt : ℂ) l 16 1)
          (E3_coef_1 (dt : ℂ) l 16 1) (E3_coef_2 (dt : ℂ) l 16 1)
          (E3_coef_3 (dt : ℂ) l 16 1) (E3_coef_4 (dt : ℂ) l 16 1)
          (E3_coef_5 (dt : ℂ) l 16 1) (fun v => m * v))^[n] u
        - Complex.exp ((l + m) * (n * dt)) * u‖
      ≤ Cfloor (Cloc3 l m T) (pertD3 l m T δstoredC) (l + m) 3 T
          * (Cloc3 l m T * dt ^ 3 + pertD3 l m T δstoredC) * ‖u‖ ∧
    ‖(E4step (exp_term (dt : ℂ) l) (E4_half_exp_term (dt : ℂ) l 16 1)
          (E4_coef_1 (dt : ℂ) l 16 1) (E4_coef_2 (dt : ℂ) l 16 1)
          (E4_coef_3 (dt : ℂ) l 16 1) (E4_coef_4 (dt : ℂ) l 16 1)
          (E4_coef_5 (dt : ℂ) l 16 1) (E4_coef_6 (dt : ℂ) l 16 1)
          (fun v => m * v))^[n] u
        - Complex.exp ((l + m) * (n * dt)) * u‖
      ≤ Cfloor (Cloc4 l m T) (pertD4 l m T δstoredC) (l + m) 4 T
          * (Cloc4 l m T * dt ^ 4 + pertD4 l m T δstoredC) * ‖u‖ :=
  have hnode := imaginary_off_nodes l dt hl
  ⟨stored_E1_global_complex l m T hl.le n dt hdt hn hnode u, stored_E2_global_complex l m T hl.le n dt hdt hn hnode u,
   stored_E3_global_complex l m T hl.le n dt hdt hn hnode u, stored_E4_global_complex l m T hl.le n dt hdt hn hnode u⟩

/-! ### the floor constants in the half-plane: growth factor `W = 1` -/

theorem pertD1_storedC (m : ℂ) : pertD1 m δstoredC = 1.7e-12 * ‖m‖ := by
  unfold pertD1 pertK1 δstoredC; ring

theorem pertD2_storedC (l m : ℂ) (T : ℝ) (hl : l.re ≤ 0) (hT : 0 ≤ T) :
    pertD2 l m T δstoredC
      = 1.7e-12 * (‖m‖ * (1 + (1 + T * (1 + 1.7e-12) * ‖m‖ + 1) + T * (1 / 2) * ‖m‖)) := by
  unfold pertD2 pertK2 δstoredC
  rw [expMax_of_nonpos l.re T hl hT]

/-- the floor is non-negative (so the bound is a genuine `C'·dt^p + C''·δ`) -/
theorem pertD1_storedC_nonneg (m : ℂ) : 0 ≤ pertD1 m δstoredC := by
  rw [pertD1_storedC]; positivity

/-! ### non-vacuity -/

/-- a damped travelling wave `λ = −1 + 2i`, `dt = 1/10` (`‖λ dt‖² = 1/20 ≠ 1`): all hypotheses hold -/
example : ((-1 : ℂ) + 2 * Complex.I).re ≤ 0 ∧ (0 : ℝ) ≤ 1 / 10 ∧ ((10 : ℕ) : ℝ) * (1 / 10) ≤ 1 ∧
    ∀ ζ ∈ (roots_of_unity 16 : List ℂ), ((-1 : ℂ) + 2 * Complex.I) * ((1 / 10 : ℝ) : ℂ) ≠ -(1 * ζ) := by
  refine ⟨by simp, by norm_num, by norm_num, excluded_of_norm_ne_one 16 _ ?_⟩
  intro h
  have h2 : Complex.normSq (((-1 : ℂ) + 2 * Complex.I) * ((1 / 10 : ℝ) : ℂ)) = 1 := by
    rw [Complex.normSq_eq_norm_sq, h]; norm_num
  rw [Complex.normSq_mul, Complex.normSq_ofReal, Complex.normSq_apply] at h2
  simp at h2
  norm_num at h2

/-- hence the ETDRK4 bound holds for it (10 steps of 1/10 up to T = 1) -/
example (m u : ℂ) :
    ‖(E4step (exp_term ((1 / 10 : ℝ) : ℂ) (-1 + 2 * Complex.I)) (E4_half_exp_term ((1 / 10 : ℝ) : ℂ) (-1 + 2 * Complex.I) 16 1)
          (E4_coef_1 ((1 / 10 : ℝ) : ℂ) (-1 + 2 * Complex.I) 16 1) (E4_coef_2 ((1 / 10 : ℝ) : ℂ) (-1 + 2 * Complex.I) 16 1)
          (E4_coef_3 ((1 / 10 : ℝ) : ℂ) (-1 + 2 * Complex.I) 16 1) (E4_coef_4 ((1 / 10 : ℝ) : ℂ) (-1 + 2 * Complex.I) 16 1)
          (E4_coef_5 ((1 / 10 : ℝ) : ℂ) (-1 + 2 * Complex.I) 16 1) (E4_coef_6 ((1 / 10 : ℝ) : ℂ) (-1 + 2 * Complex.I) 16 1)
          (fun v => m * v))^[10] u
        - Complex.exp (((-1 + 2 * Complex.I) + m) * ((10 : ℕ) * ((1 / 10 : ℝ) : ℂ))) * u‖
      ≤ Cfloor (Cloc4 (-1 + 2 * Complex.I) m 1) (pertD4 (-1 + 2 * Complex.I) m 1 δstoredC) ((-1 + 2 * Complex.I) + m) 4 1
          * (Cloc4 (-1 + 2 * Complex.I) m 1 * (1 / 10 : ℝ) ^ 4 + pertD4 (-1 + 2 * Complex.I) m 1 δstoredC) * ‖u‖ := by
  refine stored_E4_global_complex (-1 + 2 * Complex.I) m 1 (by simp) 10 (1 / 10) (by norm_num) (by norm_num)
    (excluded_of_norm_ne_one 16 _ ?_) u
  intro h
  have h2 : Complex.normSq (((-1 : ℂ) + 2 * Complex.I) * ((1 / 10 : ℝ) : ℂ)) = 1 := by
    rw [Complex.normSq_eq_norm_sq, h]; norm_num
  rw [Complex.normSq_mul, Complex.normSq_ofReal, Complex.normSq_apply] at h2
  simp at h2
  norm_num at h2

/-- an advection symbol `λ = 3i`, `dt = 1/10` -/
example : (3 * Complex.I).re = 0 ∧ (0 : ℝ) ≤ 1 / 10 ∧ ((10 : ℕ) : ℝ) * (1 / 10) ≤ 1 := by
  refine ⟨by simp, by norm_num, by norm_num⟩

end Exponax.LinearOrder
end
