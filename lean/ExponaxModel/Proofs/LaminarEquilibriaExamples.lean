import ExponaxModel.Proofs.EquilibriaFixed
import ExponaxModel.Proofs.Laminar3DSteps
/-
Non-vacuity of the hypotheses used in `Proofs/Laminar*.lean` and `Proofs/Equilibria*.lean`: each block exhibits
concrete data satisfying the hypotheses of the named theorems.
-/
set_option linter.unusedVariables false
namespace Exponax.LaminarEquilibriaExamples
open Exponax Exponax.Spec Exponax.Gen.Etdrk Exponax.Nonlin Exponax.EquilibriaStored Exponax.Equilibria

/-- `stored_fixed_point_E{1..4}`, `stored_fixed_point_of_symbol_zero`: a non-zero equilibrium spectrum on which the
    defect conditions hold (linear symbol `0`, nonlinear term `0`) -/
example : ∃ (L u : ℕ → ℂ) (N : (ℕ → ℂ) → ℕ → ℂ), (∀ h, L h * u h + N u h = 0) ∧
    (∀ h, u h ≠ 0 → fpDefect 1 (L h) 16 1 = 0) ∧ (∀ h, u h ≠ 0 → fpDefectHalf 1 (L h) 16 1 = 0) ∧
    (∀ h, u h ≠ 0 → L h = 0) ∧ u 0 ≠ 0 :=
  ⟨0, 1, fun _ => 0, by simp, fun _ _ => (fpDefect_zero 1 1 16).1, fun _ _ => (fpDefect_zero 1 1 16).2,
    fun _ _ => rfl, by simp⟩

/-- `stage_fixed_of_defect`, `fixed_E?step_of_defect` (ring level): `L = 2`, `u = 1`, `N ≡ −2`, exact data `E = 3`,
    `c = 1` (`E − 1 − L c = 0`) -/
example : (2 : ℂ) * 1 + (-2) = 0 ∧ ((3 : ℂ) - 1 - 2 * 1) * 1 = 0 := by norm_num

/-- `norm_fpDefect_le`, `norm_fpDefectHalf_le`: nodes away from `0`, `‖r‖ < R`, `0 < M` -/
example : (0 : ℕ) < 16 ∧ ‖(1 : ℂ)‖ < (4 : ℝ) ∧
    ∀ ζ ∈ (roots_of_unity 16 : List ℂ), (1 : ℂ) * ζ + 0 * (0.1 : ℂ) ≠ 0 := by
  refine ⟨by norm_num, by simp, ?_⟩
  have := ContourTail.nodes_ne_zero_of_norm_ne 16 1 (0 * (0.1 : ℂ)) (by simp)
  exact this

/-- `norm_fpDefect_default`, `stored_E1_almost_fixed_default`: a dissipative mode -/
example : (-3 : ℝ) * 0.1 ≤ 0 := by norm_num

/-- `fpDefect_eq_tail` -/
example : (-3 : ℂ) * 0.1 ≠ 0 := by norm_num

/-- a configuration for the 2-D theorems (`hN`, `hD`, `0 < m`, `2m < N`) and for B1 (`0 < c.D`) -/
example : ∃ c : Cfg ℂ, c.D = 2 ∧ 0 < c.D ∧ 0 < c.N ∧ 0 < 4 ∧ 2 * 4 < c.N ∧ mask c 0 = 1 :=
  ⟨⟨2, 16, 1, 0, 0⟩, rfl, by norm_num, by norm_num, by norm_num, by norm_num, by simp [mask]⟩

/-- `vorticity2d_shear*`, `laminar_E*`: shear spectra exist and are not all trivial: every spectrum supported on the
    forced mode of the 2-D layout is a shear spectrum -/
example (c : Cfg ℂ) (hD : c.D = 2) (m : ℕ) (hm : 2 * m < c.N) (a : ℂ) :
    Laminar.ShearSpec c (fun h => if h = m then a else 0) := by
  intro h hh
  by_cases he : h = m
  · exfalso
    have hlt := Laminar.forced_mode_lt c hD m hm
    have hk := (Laminar.forced_mode_iff c hD m hm h (he ▸ hlt)).mpr he
    rcases hh with hh | hh
    · omega
    · exact hh hk.1
  · simp [he]

/-- `convection_const`, `gradientNorm_const`, `vorticity2d_const`, `polynomial_const_entry`: mean-mode spectra -/
example (c : Cfg ℂ) (hD : 0 < c.D) (hN : 0 < c.N) (C : ℕ) (u0 : ℕ → ℂ) : MeanSpec c (constSpec c C u0) :=
  constSpec_meanSpec c hD hN C u0

/-- `polynomial_equilibrium`, `FisherKPP_equilibria`: `r·1 + (−r)·1² = 0` -/
example (r : ℂ) : r * ((1 : ℝ) : ℂ) + polyEval [0, 0, -r] ((1 : ℝ) : ℂ) = 0 := by
  rw [Alias.polyEval_quadratic]; push_cast; ring

/-- `AllenCahn_equilibria` with the defaults `c₁ = 1`, `c₃ = −1`: `u₀ = 1` -/
example : (1 : ℂ) + (-1) * (((1 : ℝ) : ℂ)) ^ 2 = 0 := by push_cast; ring

/-- `SwiftHohenberg_equilibria` with `r = 0.7`, `k = 1`, `p(u) = u² − u³` (the defaults): `u₀ = 0` -/
example : (((0.7 : ℝ) : ℂ) - 1 ^ 2) * ((0 : ℝ) : ℂ) + polyEval [0, 0, 1, -1] ((0 : ℝ) : ℂ) = 0 := by
  simp [polyEval]

/-- `const_equilibrium_fixed_exact`: coefficient arrays that are exact at the mean mode exist (take them exact
    everywhere), with `dt L(0) ≠ 0` -/
example : ∃ (dt : ℂ) (L E Eh a1 a4 a5 a6 : ℕ → ℂ), dt * L 0 ≠ 0 ∧ E 0 = Complex.exp (dt * L 0) ∧
    Eh 0 = Complex.exp (dt * L 0 / 2) ∧ a1 0 = dt * (phi1 (dt * L 0 / 2) / 2) ∧
    a4 0 = dt * (phi1 (dt * L 0) - 3 * phi2 (dt * L 0) + 4 * phi3 (dt * L 0)) ∧
    a5 0 = dt * (phi2 (dt * L 0) - 2 * phi3 (dt * L 0)) ∧ a6 0 = dt * (4 * phi3 (dt * L 0) - phi2 (dt * L 0)) :=
  ⟨1, fun _ => 2, fun _ => Complex.exp (1 * 2), fun _ => Complex.exp (1 * 2 / 2),
    fun _ => 1 * (phi1 (1 * 2 / 2) / 2), fun _ => 1 * (phi1 (1 * 2) - 3 * phi2 (1 * 2) + 4 * phi3 (1 * 2)),
    fun _ => 1 * (phi2 (1 * 2) - 2 * phi3 (1 * 2)), fun _ => 1 * (4 * phi3 (1 * 2) - phi2 (1 * 2)),
    by norm_num, rfl, rfl, rfl, rfl, rfl, rfl⟩

/-- `laminar_exact_E*`, `laminar3d_exact_E4`: `σ ≠ 0`, `dt ≠ 0` -/
example : ((-0.3 : ℂ)) ≠ 0 ∧ ((0.01 : ℂ)) ≠ 0 := by norm_num

/-- 3-D: configuration, real non-zero scale, two-mode states (`projected3d_shear_none_partial`, `laminar3d_all`) -/
example : ∃ c : Cfg ℂ, c.D = 3 ∧ c.s = ((1 : ℝ) : ℂ) ∧ (1 : ℝ) ≠ 0 ∧ 0 < 2 ∧ 2 * 2 < c.N :=
  ⟨⟨3, 8, ((1 : ℝ) : ℂ), 2, 3⟩, rfl, rfl, one_ne_zero, by norm_num, by norm_num⟩

example (c : Cfg ℂ) (m : ℕ) (a b : ℂ) : Laminar3D.TwoModeSpec c m
    (fun i h => if i = 0 ∧ h = Laminar3D.hP c m then a else if i = 0 ∧ h = Laminar3D.hM c m then b else 0) := by
  intro i h hc
  rcases hc with hc | hc
  · simp [hc]
  · simp [hc.1, hc.2]

end Exponax.LaminarEquilibriaExamples
