import ExponaxModel.Proofs.ConserveEtdrk
import ExponaxModel.Proofs.ConserveMean
import ExponaxModel.Proofs.ConserveEnergy
import ExponaxModel.Proofs.ConserveVorticity
import ExponaxModel.Proofs.ConserveVorticityFull
/-
C09 — "conserved quantities and equilibria survive the discretisation exactly".

  ConserveEtdrk         : K2 (ETDRK keeps the mean mode), K3 (equilibria are fixed points)
  ConserveMean          : K1 (a)–(e) (the mean mode of the nonlinear terms)
  ConserveEnergy        : K4 (conservative convection does no work, 1-D; spectral and grid form)
  ConserveVorticity     : D-dim Parseval cross identity; K1 (f) `_partial` (any D, under a
                          Hermitian-consistency hypothesis)
  ConserveVorticityFull : K1 (f) in full for D = 2 (`vorticity2d_mean`): adjointness of the c2r
                          transform, `rfftn ∘ irfftn` on arbitrary half spectra in 2-D
  this file             : K1 + K2 combined: the mean of the state is kept by every ETDRK order for
                          the concrete one-channel nonlinear terms of the model
-/
set_option linter.unusedVariables false
namespace Exponax.Conserve
open Exponax Exponax.Transform Exponax.Nonlin Exponax.Gen.Etdrk

/-- every ETDRK order keeps the mean mode over any number of steps (`E 0 = 1`, `N(v) 0 = 0`) -/
theorem etdrk_mean_all_orders (E Eh a1 a2 a3 a4 a5 a6 : ℕ → ℂ) (Nl : (ℕ → ℂ) → (ℕ → ℂ))
    (hE : E 0 = 1) (hNl : ∀ v, Nl v 0 = 0) (n : ℕ) (u : ℕ → ℂ) :
    ((E0step E)^[n] u) 0 = u 0 ∧ ((E1step E a1 Nl)^[n] u) 0 = u 0 ∧
    ((E2step E a1 a2 Nl)^[n] u) 0 = u 0 ∧ ((E3step E Eh a1 a2 a3 a4 a5 Nl)^[n] u) 0 = u 0 ∧
    ((E4step E Eh a1 a2 a3 a4 a5 a6 Nl)^[n] u) 0 = u 0 :=
  ⟨mean_E0step_iterate E hE n u, mean_E1step_iterate E a1 Nl hE hNl n u,
    mean_E2step_iterate E a1 a2 Nl hE hNl n u, mean_E3step_iterate E Eh a1 a2 a3 a4 a5 Nl hE hNl n u,
    mean_E4step_iterate E Eh a1 a2 a3 a4 a5 a6 Nl hE hNl n u⟩

/-- a one-channel nonlinear function of the model as a map on mode-indexed spectra: the spectrum
    `v` is stored as the array of its `modes c` entries, the output is read entrywise -/
noncomputable def liftNl (c : Cfg ℂ) (F : MC ℂ → MC ℂ) : (ℕ → ℂ) → (ℕ → ℂ) :=
  fun v h => at2 (F #[tab (modes c) v]) 0 h

/-- Burgers / KdV / Kuramoto–Sivashinsky (conservative form), any dimension: the mean is kept -/
theorem etdrk_mean_convection (c : Cfg ℂ) (scale : ℂ) (single : Bool)
    (E Eh a1 a2 a3 a4 a5 a6 : ℕ → ℂ) (hE : E 0 = 1) (n : ℕ) (u : ℕ → ℂ) :
    ((E4step E Eh a1 a2 a3 a4 a5 a6 (liftNl c (convection c 1 scale single true)))^[n] u) 0 = u 0 :=
  mean_E4step_iterate E Eh a1 a2 a3 a4 a5 a6 _ hE
    (fun v => convection_conservative_mean c 1 scale single _ 0) n u

/-- Cahn–Hilliard: the mean (total mass) is kept -/
theorem etdrk_mean_cahnHilliard (c : Cfg ℂ) (scale : ℂ)
    (E Eh a1 a2 a3 a4 a5 a6 : ℕ → ℂ) (hE : E 0 = 1) (n : ℕ) (u : ℕ → ℂ) :
    ((E4step E Eh a1 a2 a3 a4 a5 a6 (liftNl c (cahnHilliard c scale)))^[n] u) 0 = u 0 :=
  mean_E4step_iterate E Eh a1 a2 a3 a4 a5 a6 _ hE (fun v => cahnHilliard_mean c scale _ 0) n u

/-- gradient-norm nonlinearity (KS in combustion form) with the zero-mode fix: the mean is kept -/
theorem etdrk_mean_gradientNorm (c : Cfg ℂ) (hN : 0 < c.N) (scale : ℂ)
    (E Eh a1 a2 a3 a4 a5 a6 : ℕ → ℂ) (hE : E 0 = 1) (n : ℕ) (u : ℕ → ℂ) :
    ((E4step E Eh a1 a2 a3 a4 a5 a6 (liftNl c (gradientNorm c 1 scale true)))^[n] u) 0 = u 0 :=
  mean_E4step_iterate E Eh a1 a2 a3 a4 a5 a6 _ hE
    (fun v => gradientNorm_zeroFix_mean c hN 1 scale _ 0) n u

/-- 2-D Navier–Stokes in vorticity form (with or without Kolmogorov forcing): the mean vorticity
    is kept -/
theorem etdrk_mean_vorticity2d (c : Cfg ℂ) (hD : c.D = 2) (hN : 0 < c.N) (s : ℝ) (hs : c.s = (s : ℂ))
    (scale : ℂ) (inj : Option (ℕ × ℂ))
    (E Eh a1 a2 a3 a4 a5 a6 : ℕ → ℂ) (hE : E 0 = 1) (n : ℕ) (u : ℕ → ℂ) :
    ((E4step E Eh a1 a2 a3 a4 a5 a6 (liftNl c (vorticity2d c scale inj)))^[n] u) 0 = u 0 :=
  mean_E4step_iterate E Eh a1 a2 a3 a4 a5 a6 _ hE
    (fun v => vorticity2d_mean_inj c hD hN s hs scale inj _) n u

end Exponax.Conserve
