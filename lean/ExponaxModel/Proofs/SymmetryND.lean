import ExponaxModel.Proofs.SymmetryNDDigits
import ExponaxModel.Proofs.Symmetry
/-
C08 in general dimension `D` (every `D`, in particular `D = 1, 2, 3`), every `N ≥ 1`:

S1  n-D roll (`jnp.roll(u, s, axis=(0,…,D-1))`): forward shift theorem at every stored mode and
    INVERSE shift theorem for ANY stored half spectrum.
S2  every per-mode (diagonal) stepper `irfftn(E ⊙ rfftn u)` (`Gen.Etdrk.E0step`, arbitrary
    `E : ℕ → ℂ`) commutes with the n-D roll, for every real or complex `u`; `n` steps.
S3  reflection `x ↦ −x` on every axis: `rfftn (reflect u) = conj (rfftn u)` for real `u`,
    `irfftn (conj c) = reflect (irfftn c)` for ANY `c`; a diagonal stepper with multiplier `E`
    is mapped by the reflection to the stepper with multiplier `conj E` (real `E`: commutes;
    advection: velocity `c ↦ −c`).

All statements are about the model's `rfftnM` / `irfftnM` / `phaseK` / `wnFlat`.  New definitions
(`rollIdx`, `rollND`, `reflIdx`, `reflect`, `dotKS`, `shiftPhaseND`, `shiftSpecND`, `specFun`,
`linStep`, `conjSpec`) are only used to state the theorems; `rollIdx`/`reflIdx` are characterised
by their digits (`digit_rollIdx`, `digit_reflIdx`) and `rollND 1` is the 1-D `roll`.
-/
set_option linter.unusedVariables false
namespace Exponax.SymmetryND
open Exponax Exponax.Layout Exponax.Transform Exponax.DFT Exponax.Symmetry Finset
open Exponax.Gen.Etdrk

/-! ## S1 — the n-D roll -/

/-- source index of entry `j` of the rolled field: digit `d` of `j` is replaced by
    `(j_d − s_d) mod N` -/
def rollIdx (D N : ℕ) (s : List ℤ) (j : ℕ) : ℕ :=
  digitMap D N (fun d => shiftDigit N (s.getD d 0)) j

/-- `jnp.roll(u, s, axis=(0,…,D-1))` on the `N^D` grid (flat C order):
    `rollND(u,s)[j₀,…] = u[(j₀ − s₀) mod N, …]` -/
def rollND (D N : ℕ) (u : Array ℂ) (s : List ℤ) : Array ℂ :=
  tab (N ^ D) (fun j => u.getD (rollIdx D N s j) 0)

/-- `k·s = Σ_{d<D} k_d s_d` -/
def dotKS (D : ℕ) (k : List ℤ) (s : List ℤ) : ℤ := ∑ d ∈ range D, k.getD d 0 * s.getD d 0

/-- the phase `e^{-2πi k(h)·s/N}` that the roll by `s` puts on stored mode `h` -/
noncomputable def shiftPhaseND (D N : ℕ) (s : List ℤ) (h : ℕ) : ℂ :=
  twiddle N (dotKS D (wnFlat D N h) s)

/-- the stored half spectrum `c` with every mode multiplied by its shift phase -/
noncomputable def shiftSpecND (D N : ℕ) (s : List ℤ) (c : Array ℂ) : Array ℂ :=
  tab (numModes D N) (fun h => shiftPhaseND D N s h * c.getD h 0)

@[simp] theorem rollND_size (D N : ℕ) (u : Array ℂ) (s : List ℤ) : (rollND D N u s).size = N ^ D := by
  simp [rollND]

@[simp] theorem shiftSpecND_size (D N : ℕ) (s : List ℤ) (c : Array ℂ) :
    (shiftSpecND D N s c).size = numModes D N := by
  simp [shiftSpecND]

theorem rollIdx_lt (D N : ℕ) (hN : 0 < N) (s : List ℤ) (j : ℕ) : rollIdx D N s j < N ^ D :=
  digitMap_lt D N hN _ (fun d _ x _ => shiftDigit_lt N hN _ x) j

/-- **characterisation of `rollIdx`**: its digit on axis `d` is `(j_d − s_d) mod N` -/
theorem digit_rollIdx (D N : ℕ) (hN : 0 < N) (s : List ℤ) (j d : ℕ) (hd : d < D) :
    digit D N (rollIdx D N s j) d = (((digit D N j d : ℤ) - s.getD d 0) % (N : ℤ)).toNat :=
  digit_digitMap D N hN _ (fun d _ x _ => shiftDigit_lt N hN _ x) j d hd

theorem rollND_getD (D N : ℕ) (u : Array ℂ) (s : List ℤ) (j : ℕ) (hj : j < N ^ D) :
    (rollND D N u s).getD j 0 = u.getD (rollIdx D N s j) 0 := by
  rw [rollND, DFT.tab_getD _ _ _ _ hj]

/-- in one dimension `rollND` is the 1-D `roll` of `DFT1DMain` -/
theorem rollND_one (N : ℕ) (u : Array ℂ) (s : ℤ) : rollND 1 N u [s] = roll N u s := by
  unfold rollND roll
  rw [pow_one]
  apply Nonlin.tab_congr
  intro j hj
  have : rollIdx 1 N [s] j = (((j : ℤ) - s) % (N : ℤ)).toNat := by
    simp [rollIdx, digitMap, ofDigits, shiftDigit, digit, Nat.mod_eq_of_lt hj]
  rw [this]

/-- explicit form in two dimensions -/
theorem rollIdx_two (N : ℕ) (hN : 0 < N) (s0 s1 : ℤ) (j0 j1 : ℕ) (h0 : j0 < N) (h1 : j1 < N) :
    rollIdx 2 N [s0, s1] (j0 * N + j1)
      = (((j0 : ℤ) - s0) % (N : ℤ)).toNat * N + (((j1 : ℤ) - s1) % (N : ℤ)).toNat := by
  have e0 : (j0 * N + j1) / N = j0 := by
    rw [Nat.add_comm, Nat.add_mul_div_right _ _ hN, Nat.div_eq_of_lt h1, zero_add]
  have e1 : (j0 * N + j1) % N = j1 := by
    rw [Nat.add_comm, Nat.add_mul_mod_self_right, Nat.mod_eq_of_lt h1]
  simp [rollIdx, digitMap, ofDigits, shiftDigit, digit, e0, e1, Nat.mod_eq_of_lt h0]

/-- the model's phase at the source index, modulo `N` -/
theorem phaseK_rollIdx_modEq (D N : ℕ) (hN : 0 < N) (k s : List ℤ) (j : ℕ) :
    phaseK D N k (rollIdx D N s j) ≡ phaseK D N k j - dotKS D k s [ZMOD (N : ℤ)] := by
  unfold rollIdx
  rw [phaseK_digitMap D N hN _ (fun d _ x _ => shiftDigit_lt N hN _ x), phaseK_eq_sum, dotKS,
    ← Finset.sum_sub_distrib]
  apply sum_modEq
  intro d _
  rw [← mul_sub]
  exact (shiftDigit_modEq N hN _ _).mul_left _

/-- **S1, forward shift theorem in `D` dimensions.**  Rolling the field by `s` multiplies every
    stored mode `h` by `e^{-2πi k(h)·s/N}`, `k(h) = wnFlat D N h`; any (real or complex) `u`, every
    `N ≥ 1`, every `D`. -/
theorem rfftn_rollND (D N : ℕ) (hN : 0 < N) (u : Array ℂ) (s : List ℤ) (h : ℕ)
    (hh : h < numModes D N) :
    (rfftnM D N (rollND D N u s)).getD h 0
      = twiddle N (dotKS D (wnFlat D N h) s) * (rfftnM D N u).getD h 0 := by
  rw [rfftnM_getD D N hN _ h hh, rfftnM_getD D N hN _ h hh, Finset.mul_sum]
  rw [← sum_digitMap D N hN (fun d => shiftDigit N (s.getD d 0)) (fun d => shiftDigit N (-(s.getD d 0)))
    (fun d _ x _ => shiftDigit_lt N hN _ x) (fun d _ x _ => shiftDigit_lt N hN _ x)
    (fun d _ x hx => shiftDigit_inv N hN _ x hx)
    (fun d _ x hx => by
      have := shiftDigit_inv N hN (-(s.getD d 0)) x hx
      rwa [neg_neg] at this)
    (fun j => twiddle N (dotKS D (wnFlat D N h) s)
      * (u.getD j 0 * twiddle N (phaseK D N (wnFlat D N h) j)))]
  apply Finset.sum_congr rfl
  intro j hj
  rw [rollND_getD D N u s j (Finset.mem_range.mp hj)]
  change u.getD (rollIdx D N s j) 0 * twiddle N (phaseK D N (wnFlat D N h) j)
    = twiddle N (dotKS D (wnFlat D N h) s)
      * (u.getD (rollIdx D N s j) 0 * twiddle N (phaseK D N (wnFlat D N h) (rollIdx D N s j)))
  rw [mul_left_comm, ← twiddle_add]
  congr 1
  apply twiddle_congr
  have := phaseK_rollIdx_modEq D N hN (wnFlat D N h) s j
  calc phaseK D N (wnFlat D N h) j
      = dotKS D (wnFlat D N h) s + (phaseK D N (wnFlat D N h) j - dotKS D (wnFlat D N h) s) := by ring
    _ ≡ dotKS D (wnFlat D N h) s + phaseK D N (wnFlat D N h) (rollIdx D N s j) [ZMOD (N : ℤ)] :=
      this.symm.add_left _

/-- **S1, forward, array form.** -/
theorem rfftn_rollND_array (D N : ℕ) (hN : 0 < N) (u : Array ℂ) (s : List ℤ) :
    rfftnM D N (rollND D N u s) = shiftSpecND D N s (rfftnM D N u) := by
  apply array_ext_getD _ _ (numModes D N) (by simp) (by simp)
  intro h hh
  rw [rfftn_rollND D N hN u s h hh, shiftSpecND, DFT.tab_getD _ _ _ _ hh, shiftPhaseND]

/-- **S1, INVERSE shift theorem in `D` dimensions (entrywise).**  For ANY stored half spectrum `c`
    (Hermitian or not), multiplying mode `h` by `e^{-2πi k(h)·s/N}` before the c2r transform rolls
    the result by `s`. -/
theorem irfftn_shiftSpecND_getD (D N : ℕ) (hN : 0 < N) (c : Array ℂ) (s : List ℤ) (j : ℕ)
    (hj : j < N ^ D) :
    (irfftnM D N (shiftSpecND D N s c)).getD j 0 = (rollND D N (irfftnM D N c) s).getD j 0 := by
  rw [rollND_getD D N _ s j hj, irfftnM_getD D N hN _ j hj,
    irfftnM_getD D N hN _ _ (rollIdx_lt D N hN s j)]
  congr 1
  apply Finset.sum_congr rfl
  intro h hh
  have hh' := Finset.mem_range.mp hh
  have key : (shiftSpecND D N s c).getD h 0 * twiddle N (-(phaseK D N (wnFlat D N h) j))
      = c.getD h 0 * twiddle N (-(phaseK D N (wnFlat D N h) (rollIdx D N s j))) := by
    rw [shiftSpecND, DFT.tab_getD _ _ _ _ hh', shiftPhaseND, mul_comm (twiddle N _) (c.getD h 0),
      mul_assoc, ← twiddle_add]
    congr 1
    apply twiddle_congr
    have := (phaseK_rollIdx_modEq D N hN (wnFlat D N h) s j).neg
    calc dotKS D (wnFlat D N h) s + -(phaseK D N (wnFlat D N h) j)
        = -(phaseK D N (wnFlat D N h) j - dotKS D (wnFlat D N h) s) := by ring
      _ ≡ -(phaseK D N (wnFlat D N h) (rollIdx D N s j)) [ZMOD (N : ℤ)] := this.symm
  rw [key]

/-- **S1, INVERSE, array form**: `irfftn (phase ⊙ c) = rollND (irfftn c) s` for ANY `c`. -/
theorem irfftn_shiftSpecND (D N : ℕ) (hN : 0 < N) (c : Array ℂ) (s : List ℤ) :
    irfftnM D N (shiftSpecND D N s c) = rollND D N (irfftnM D N c) s := by
  apply array_ext_getD _ _ (N ^ D) (by simp) (by simp)
  intro j hj
  exact irfftn_shiftSpecND_getD D N hN c s j hj

/-- round trip of a rolled real field -/
theorem irfftn_rfftn_rollND (D N : ℕ) (hD : 0 < D) (hN : 0 < N) (u : Array ℂ)
    (hu : ∀ j < N ^ D, (u.getD j 0).im = 0) (s : List ℤ) (j : ℕ) (hj : j < N ^ D) :
    (irfftnM D N (shiftSpecND D N s (rfftnM D N u))).getD j 0 = (rollND D N u s).getD j 0 := by
  rw [irfftn_shiftSpecND_getD D N hN _ s j hj, rollND_getD _ _ _ _ _ hj, rollND_getD _ _ _ _ _ hj,
    irfftn_rfftn D N hD hN u hu _ (rollIdx_lt D N hN s j)]

/-! ## S2 — diagonal (linear) steppers commute with the n-D roll -/

/-- the stored spectrum of `u` as a function of the flat mode index (`0` beyond the stored modes) -/
noncomputable def specFun (D N : ℕ) (u : Array ℂ) : ℕ → ℂ := fun h => (rfftnM D N u).getD h 0

/-- one step of a linear stepper in physical space: `irfftn (E ⊙ rfftn u)`, with the regenerated
    order-0 ETDRK stage formula `E0step` applied to the whole spectrum -/
noncomputable def linStep (D N : ℕ) (E : ℕ → ℂ) (u : Array ℂ) : Array ℂ :=
  irfftnM D N (tab (numModes D N) (E0step E (specFun D N u)))

theorem specFun_rollND (D N : ℕ) (hN : 0 < N) (u : Array ℂ) (s : List ℤ) :
    specFun D N (rollND D N u s) = (fun h => shiftPhaseND D N s h) * specFun D N u := by
  funext h
  simp only [specFun, Pi.mul_apply]
  rcases Nat.lt_or_ge h (numModes D N) with hlt | hge
  · exact rfftn_rollND D N hN u s h hlt
  · have e : ∀ a : Array ℂ, a.size = numModes D N → a.getD h 0 = 0 := by
      intro a ha
      have : ¬ h < a.size := by omega
      simp [Array.getD, this]
    rw [e _ (by simp), e _ (by simp), mul_zero]

theorem tab_phaseND_mul (D N : ℕ) (s : List ℤ) (v : ℕ → ℂ) :
    tab (numModes D N) ((fun h => shiftPhaseND D N s h) * v)
      = shiftSpecND D N s (tab (numModes D N) v) := by
  unfold shiftSpecND
  apply Nonlin.tab_congr
  intro h hh
  rw [DFT.tab_getD _ _ _ _ hh]
  rfl

/-- a diagonal Fourier multiplier commutes with the shift phases -/
theorem shiftSpecND_mul_diag (D N : ℕ) (s : List ℤ) (m : ℕ → ℂ) (c : Array ℂ) :
    shiftSpecND D N s (tab (numModes D N) fun h => m h * c.getD h 0)
      = tab (numModes D N) fun h => m h * (shiftSpecND D N s c).getD h 0 := by
  unfold shiftSpecND
  apply Nonlin.tab_congr
  intro h hh
  rw [DFT.tab_getD _ _ _ _ hh, DFT.tab_getD _ _ _ _ hh]
  ring

/-- **S2 (spectral form, `n` steps).**  Transform, take `n` steps of the diagonal stepper
    `û ↦ E ⊙ û` (`E0step`, ARBITRARY `E : ℕ → ℂ`), transform back: rolling the initial state by
    `s` rolls the result by `s`.  Any real or complex `u`, every `D`, every `N ≥ 1`. -/
theorem E0step_rollND (D N : ℕ) (hN : 0 < N) (E : ℕ → ℂ) (n : ℕ) (u : Array ℂ) (s : List ℤ) :
    irfftnM D N (tab (numModes D N) ((E0step E)^[n] (specFun D N (rollND D N u s))))
      = rollND D N (irfftnM D N (tab (numModes D N) ((E0step E)^[n] (specFun D N u)))) s := by
  rw [specFun_rollND D N hN u s, E0step_phase_iterate, tab_phaseND_mul, irfftn_shiftSpecND D N hN]

/-- **S2 (physical form, one step)**: `irfftn (E ⊙ rfftn (roll u)) = roll (irfftn (E ⊙ rfftn u))` -/
theorem linStep_rollND (D N : ℕ) (hN : 0 < N) (E : ℕ → ℂ) (u : Array ℂ) (s : List ℤ) :
    linStep D N E (rollND D N u s) = rollND D N (linStep D N E u) s :=
  E0step_rollND D N hN E 1 u s

/-- **S2 (physical form, `n` steps, transform pair applied at every step as the implementation
    does).** -/
theorem linStep_iterate_rollND (D N : ℕ) (hN : 0 < N) (E : ℕ → ℂ) (n : ℕ) (u : Array ℂ)
    (s : List ℤ) :
    (linStep D N E)^[n] (rollND D N u s) = rollND D N ((linStep D N E)^[n] u) s :=
  iterate_equivariant (fun v => rollND D N v s) (linStep D N E)
    (fun v => linStep_rollND D N hN E v s) n u

/-- … and for `repeat` / `rollout` of the model's loop layer -/
theorem linStep_rollout_rollND (D N : ℕ) (hN : 0 < N) (E : ℕ → ℂ) (n : ℕ) (incl : Bool)
    (u : Array ℂ) (s : List ℤ) :
    Loops.rollout (linStep D N E) n incl (rollND D N u s)
      = (Loops.rollout (linStep D N E) n incl u).map (fun v => rollND D N v s) :=
  rollout_equivariant (fun v => rollND D N v s) (linStep D N E)
    (fun v => linStep_rollND D N hN E v s) n incl u

/-! ## S3 — reflection `x ↦ −x` on every axis -/

/-- source index of entry `j` of the reflected field: every digit `j_d ↦ (−j_d) mod N` -/
def reflIdx (D N : ℕ) (j : ℕ) : ℕ := digitMap D N (fun _ => reflDigit N) j

/-- the reflected field `u(−x)`: `reflect(u)[j₀,…] = u[(−j₀) mod N, …]` -/
def reflect (D N : ℕ) (u : Array ℂ) : Array ℂ :=
  tab (N ^ D) (fun j => u.getD (reflIdx D N j) 0)

/-- entrywise complex conjugate of a stored spectrum -/
noncomputable def conjSpec (D N : ℕ) (c : Array ℂ) : Array ℂ :=
  tab (numModes D N) (fun h => (starRingEnd ℂ) (c.getD h 0))

@[simp] theorem reflect_size (D N : ℕ) (u : Array ℂ) : (reflect D N u).size = N ^ D := by
  simp [reflect]

@[simp] theorem conjSpec_size (D N : ℕ) (c : Array ℂ) : (conjSpec D N c).size = numModes D N := by
  simp [conjSpec]

theorem reflIdx_lt (D N : ℕ) (hN : 0 < N) (j : ℕ) : reflIdx D N j < N ^ D :=
  digitMap_lt D N hN _ (fun _ _ x _ => reflDigit_lt N hN x) j

/-- **characterisation of `reflIdx`**: its digit on axis `d` is `(N − j_d) mod N` -/
theorem digit_reflIdx (D N : ℕ) (hN : 0 < N) (j d : ℕ) (hd : d < D) :
    digit D N (reflIdx D N j) d = (N - digit D N j d) % N :=
  digit_digitMap D N hN _ (fun _ _ x _ => reflDigit_lt N hN x) j d hd

theorem reflIdx_reflIdx (D N : ℕ) (hN : 0 < N) (j : ℕ) (hj : j < N ^ D) :
    reflIdx D N (reflIdx D N j) = j :=
  digitMap_inv D N hN _ _ (fun _ _ x _ => reflDigit_lt N hN x)
    (fun _ _ x hx => reflDigit_inv N x hx) j hj

theorem reflect_getD (D N : ℕ) (u : Array ℂ) (j : ℕ) (hj : j < N ^ D) :
    (reflect D N u).getD j 0 = u.getD (reflIdx D N j) 0 := by
  rw [reflect, DFT.tab_getD _ _ _ _ hj]

/-- in one dimension: `reflect(u)[j] = u[(N − j) mod N]` -/
theorem reflect_one_getD (N : ℕ) (u : Array ℂ) (j : ℕ) (hj : j < N) :
    (reflect 1 N u).getD j 0 = u.getD ((N - j) % N) 0 := by
  rw [reflect_getD 1 N u j (by simpa using hj)]
  congr 1
  simp [reflIdx, digitMap, ofDigits, reflDigit, digit, Nat.mod_eq_of_lt hj]

theorem phaseK_reflIdx_modEq (D N : ℕ) (hN : 0 < N) (k : List ℤ) (j : ℕ) :
    phaseK D N k (reflIdx D N j) ≡ -(phaseK D N k j) [ZMOD (N : ℤ)] := by
  unfold reflIdx
  rw [phaseK_digitMap D N hN _ (fun _ _ x _ => reflDigit_lt N hN x), phaseK_eq_sum,
    ← Finset.sum_neg_distrib]
  apply sum_modEq
  intro d _
  rw [← mul_neg]
  exact (reflDigit_modEq N _ (digit_lt D N j d hN)).mul_left _

/-- the transform of the reflected field, any complex `u`: the conjugate DFT kernel -/
theorem rfftn_reflect_sum (D N : ℕ) (hN : 0 < N) (u : Array ℂ) (h : ℕ) (hh : h < numModes D N) :
    (rfftnM D N (reflect D N u)).getD h 0
      = ∑ j ∈ range (N ^ D), u.getD j 0 * twiddle N (-(phaseK D N (wnFlat D N h) j)) := by
  rw [rfftnM_getD D N hN _ h hh]
  rw [← sum_digitMap D N hN (fun _ => reflDigit N) (fun _ => reflDigit N)
    (fun _ _ x _ => reflDigit_lt N hN x) (fun _ _ x _ => reflDigit_lt N hN x)
    (fun _ _ x hx => reflDigit_inv N x hx) (fun _ _ x hx => reflDigit_inv N x hx)
    (fun j => u.getD j 0 * twiddle N (-(phaseK D N (wnFlat D N h) j)))]
  apply Finset.sum_congr rfl
  intro j hj
  rw [reflect_getD D N u j (Finset.mem_range.mp hj)]
  change u.getD (reflIdx D N j) 0 * twiddle N (phaseK D N (wnFlat D N h) j)
    = u.getD (reflIdx D N j) 0 * twiddle N (-(phaseK D N (wnFlat D N h) (reflIdx D N j)))
  congr 1
  apply twiddle_congr
  have := (phaseK_reflIdx_modEq D N hN (wnFlat D N h) j).neg
  rw [neg_neg] at this
  exact this.symm

/-- **S3, forward (any complex `u`).** `rfftn (reflect u) = conj (rfftn (conj u))` -/
theorem rfftn_reflect_conj (D N : ℕ) (hN : 0 < N) (u : Array ℂ) (h : ℕ) (hh : h < numModes D N) :
    (rfftnM D N (reflect D N u)).getD h 0
      = (starRingEnd ℂ) ((rfftnM D N (tab (N ^ D) fun j => (starRingEnd ℂ) (u.getD j 0))).getD h 0) := by
  rw [rfftn_reflect_sum D N hN u h hh, rfftnM_getD D N hN _ h hh, map_sum]
  apply Finset.sum_congr rfl
  intro j hj
  rw [DFT.tab_getD _ _ _ _ (Finset.mem_range.mp hj), map_mul, Complex.conj_conj, conj_twiddle]

/-- **S3, forward.**  For a REAL field, reflecting `x ↦ −x` conjugates every stored mode. -/
theorem rfftn_reflect (D N : ℕ) (hN : 0 < N) (u : Array ℂ)
    (hu : ∀ j < N ^ D, (u.getD j 0).im = 0) (h : ℕ) (hh : h < numModes D N) :
    (rfftnM D N (reflect D N u)).getD h 0 = (starRingEnd ℂ) ((rfftnM D N u).getD h 0) := by
  rw [rfftn_reflect_sum D N hN u h hh, rfftnM_getD D N hN _ h hh, map_sum]
  apply Finset.sum_congr rfl
  intro j hj
  rw [map_mul, Complex.conj_eq_iff_im.mpr (hu j (Finset.mem_range.mp hj)), conj_twiddle]

/-- **S3, forward, array form.** -/
theorem rfftn_reflect_array (D N : ℕ) (hN : 0 < N) (u : Array ℂ)
    (hu : ∀ j < N ^ D, (u.getD j 0).im = 0) :
    rfftnM D N (reflect D N u) = conjSpec D N (rfftnM D N u) := by
  apply array_ext_getD _ _ (numModes D N) (by simp) (by simp)
  intro h hh
  rw [rfftn_reflect D N hN u hu h hh, conjSpec, DFT.tab_getD _ _ _ _ hh]

/-- **S3, INVERSE (entrywise).**  For ANY stored half spectrum `c`, conjugating every mode before
    the c2r transform reflects the result. -/
theorem irfftn_conjSpec_getD (D N : ℕ) (hN : 0 < N) (c : Array ℂ) (j : ℕ) (hj : j < N ^ D) :
    (irfftnM D N (conjSpec D N c)).getD j 0 = (reflect D N (irfftnM D N c)).getD j 0 := by
  rw [reflect_getD D N _ j hj, irfftnM_getD D N hN _ j hj,
    irfftnM_getD D N hN _ _ (reflIdx_lt D N hN j)]
  congr 1
  apply Finset.sum_congr rfl
  intro h hh
  have hh' := Finset.mem_range.mp hh
  have key : (conjSpec D N c).getD h 0 * twiddle N (-(phaseK D N (wnFlat D N h) j))
      = (starRingEnd ℂ) (c.getD h 0 * twiddle N (-(phaseK D N (wnFlat D N h) (reflIdx D N j)))) := by
    rw [conjSpec, DFT.tab_getD _ _ _ _ hh', map_mul, conj_twiddle, neg_neg]
    congr 1
    apply twiddle_congr
    exact (phaseK_reflIdx_modEq D N hN (wnFlat D N h) j).symm
  rw [key, Complex.conj_re]

/-- **S3, INVERSE, array form**: `irfftn (conj c) = reflect (irfftn c)` for ANY `c`. -/
theorem irfftn_conjSpec (D N : ℕ) (hN : 0 < N) (c : Array ℂ) :
    irfftnM D N (conjSpec D N c) = reflect D N (irfftnM D N c) := by
  apply array_ext_getD _ _ (N ^ D) (by simp) (by simp)
  intro j hj
  exact irfftn_conjSpec_getD D N hN c j hj

/-- the c2r transform always returns a real field -/
theorem irfftn_im (D N : ℕ) (hN : 0 < N) (c : Array ℂ) (j : ℕ) (hj : j < N ^ D) :
    ((irfftnM D N c).getD j 0).im = 0 := by
  rw [irfftnM_getD D N hN c j hj]
  have : (∑ h ∈ range (numModes D N), (herm_weight D N h : ℂ) *
          (((c.getD h 0 * twiddle N (-(phaseK D N (wnFlat D N h) j))).re : ℝ) : ℂ))
        / ((N ^ D : ℕ) : ℂ)
      = (((∑ h ∈ range (numModes D N), (herm_weight D N h : ℝ) *
          (c.getD h 0 * twiddle N (-(phaseK D N (wnFlat D N h) j))).re) / ((N ^ D : ℕ) : ℝ) : ℝ) : ℂ) := by
    push_cast
    rfl
  rw [this, Complex.ofReal_im]

theorem linStep_im (D N : ℕ) (hN : 0 < N) (E : ℕ → ℂ) (u : Array ℂ) (j : ℕ) (hj : j < N ^ D) :
    ((linStep D N E u).getD j 0).im = 0 :=
  irfftn_im D N hN _ j hj

/-- **S3, consequence (one step).**  If `E' h = conj (E h)` on the stored modes, then for REAL `u`
    `irfftn (E' ⊙ rfftn (reflect u)) = reflect (irfftn (E ⊙ rfftn u))`:
    the reflection maps the diagonal stepper with multiplier `E` to the one with `conj E`
    (advection with velocity `c`, `E = e^{-i c k·dt}`, to velocity `−c`). -/
theorem linStep_reflect (D N : ℕ) (hN : 0 < N) (E E' : ℕ → ℂ)
    (hE : ∀ h < numModes D N, E' h = (starRingEnd ℂ) (E h)) (u : Array ℂ)
    (hu : ∀ j < N ^ D, (u.getD j 0).im = 0) :
    linStep D N E' (reflect D N u) = reflect D N (linStep D N E u) := by
  unfold linStep
  rw [← irfftn_conjSpec D N hN]
  congr 1
  unfold conjSpec
  apply Nonlin.tab_congr
  intro h hh
  rw [DFT.tab_getD _ _ _ _ hh]
  simp only [E0step, Pi.mul_apply, specFun]
  rw [rfftn_reflect D N hN u hu h hh, hE h hh, map_mul]

/-- **S3, even-order operators**: a REAL multiplier (diffusion, hyper-diffusion, any `E` built
    from an even symbol) gives a stepper that commutes with the reflection, real `u`. -/
theorem linStep_reflect_real (D N : ℕ) (hN : 0 < N) (E : ℕ → ℂ)
    (hE : ∀ h < numModes D N, (E h).im = 0) (u : Array ℂ)
    (hu : ∀ j < N ^ D, (u.getD j 0).im = 0) :
    linStep D N E (reflect D N u) = reflect D N (linStep D N E u) :=
  linStep_reflect D N hN E E (fun h hh => (Complex.conj_eq_iff_im.mpr (hE h hh)).symm) u hu

theorem reflect_im (D N : ℕ) (hN : 0 < N) (u : Array ℂ) (hu : ∀ j < N ^ D, (u.getD j 0).im = 0)
    (j : ℕ) (hj : j < N ^ D) : ((reflect D N u).getD j 0).im = 0 := by
  rw [reflect_getD D N u j hj]
  exact hu _ (reflIdx_lt D N hN j)

/-- **S3, `n` steps**: `reflect (step_E^n u) = step_{conj E}^n (reflect u)` for real `u`. -/
theorem linStep_iterate_reflect (D N : ℕ) (hN : 0 < N) (E E' : ℕ → ℂ)
    (hE : ∀ h < numModes D N, E' h = (starRingEnd ℂ) (E h)) (n : ℕ) (u : Array ℂ)
    (hu : ∀ j < N ^ D, (u.getD j 0).im = 0) :
    (linStep D N E')^[n] (reflect D N u) = reflect D N ((linStep D N E)^[n] u) := by
  induction n generalizing u with
  | zero => rfl
  | succ n ih =>
    rw [Function.iterate_succ_apply, Function.iterate_succ_apply,
      linStep_reflect D N hN E E' hE u hu, ih _ (fun j hj => linStep_im D N hN E u j hj)]

/-- **S3, spectral form**: for real `u` and `E' = conj E`, `n` diagonal steps applied to the
    spectrum of the reflected field, then c2r, give the reflection of the unreflected result. -/
theorem E0step_reflect (D N : ℕ) (hN : 0 < N) (E E' : ℕ → ℂ)
    (hE : ∀ h < numModes D N, E' h = (starRingEnd ℂ) (E h)) (n : ℕ) (u : Array ℂ)
    (hu : ∀ j < N ^ D, (u.getD j 0).im = 0) :
    irfftnM D N (tab (numModes D N) ((E0step E')^[n] (specFun D N (reflect D N u))))
      = reflect D N (irfftnM D N (tab (numModes D N) ((E0step E)^[n] (specFun D N u)))) := by
  rw [← irfftn_conjSpec D N hN]
  congr 1
  unfold conjSpec
  apply Nonlin.tab_congr
  intro h hh
  rw [DFT.tab_getD _ _ _ _ hh]
  have hit : ∀ (F v : ℕ → ℂ) (m : ℕ), ((E0step F)^[m] v) h = F h ^ m * v h := by
    intro F v m
    induction m generalizing v with
    | zero => simp
    | succ m ihm =>
      rw [Function.iterate_succ_apply, ihm]
      simp only [E0step, Pi.mul_apply]
      ring
  rw [hit, hit, map_mul, map_pow, hE h hh]
  simp only [specFun]
  rw [rfftn_reflect D N hN u hu h hh]

/-! ## non-vacuity of the hypotheses -/

example : ∃ (D N h : ℕ), 0 < N ∧ h < numModes D N := ⟨2, 4, 5, by norm_num, by decide⟩
example : ∃ (D N h : ℕ), 0 < N ∧ h < numModes D N := ⟨3, 3, 17, by norm_num, by decide⟩

example : ∃ (D N j : ℕ), 0 < D ∧ 0 < N ∧ j < N ^ D := ⟨2, 4, 7, by norm_num, by norm_num, by norm_num⟩

/-- a real field exists on every grid -/
example (D N : ℕ) : ∃ u : Array ℂ, u.size = N ^ D ∧ ∀ j < N ^ D, (u.getD j 0).im = 0 :=
  ⟨tab (N ^ D) (fun _ => 1), by simp, fun j hj => by rw [DFT.tab_getD _ _ _ _ hj]; simp⟩

/-- multiplier pairs `E' = conj E` exist (and real multipliers exist) -/
example (D N : ℕ) : ∃ E E' : ℕ → ℂ, (∀ h < numModes D N, E' h = (starRingEnd ℂ) (E h)) ∧
    ¬ (∀ h, (E h).im = 0) :=
  ⟨fun _ => Complex.I, fun _ => -Complex.I, fun _ _ => by simp, fun h => by simpa using h 0⟩

example (D N : ℕ) : ∃ E : ℕ → ℂ, ∀ h < numModes D N, (E h).im = 0 := ⟨fun _ => 2, fun _ _ => by simp⟩

end Exponax.SymmetryND
