import ExponaxModel.Proofs.SmallGaps3Mean
import ExponaxModel.Proofs.Laminar3D
/-
SmallGaps3, part K1 (C09): the statement "the 3-D rotational term has zero mean mode in every channel for EVERY spectrum"
is FALSE.  Counterexample through the model pipeline: `D = 3`, `N = 8`, `s = 1`, 2/3-rule mask (`Kc = 1`, so `2·Kc < N`),
the spectrum carried by the single stored mode `k = (0, 1, 0)` with `û₀ = 1`, `û₁ = −i`, `û₂ = 0` (NOT divergence free:
`(i s k)·û = 1` there).  Then `u₀(x) = ∇·u(x) = Re ζ^{−x₁} / 8³`, and by `projected3d_mean_eq_div`
the mean mode of channel 0 is `Σ_x (Re ζ^{−x₁})² / 8⁶ > 0`.
-/
set_option linter.unusedVariables false
namespace Exponax.SmallGaps3
open Exponax Exponax.Layout Exponax.Transform Exponax.DFT Exponax.Nonlin Exponax.Alias Exponax.AliasND Finset
open Exponax.Laminar3D

noncomputable def c8 : Cfg ℂ := { D := 3, N := 8, s := ((1 : ℝ) : ℂ), fp := 2, fq := 3 }

theorem c8_D : c8.D = 3 := rfl
theorem c8_m : 2 * 1 < c8.N := by show 2 * 1 < 8; norm_num
theorem c8_q : c8.fq ≠ 0 := by show (3 : ℕ) ≠ 0; norm_num
theorem c8_N : 0 < c8.N := by show 0 < 8; norm_num
theorem c8_Kc : Kc c8 = 1 := by
  unfold Kc
  show (((2 : ℕ) : ℤ) * ((8 / 2 : ℕ) : ℤ) - ((3 : ℕ) : ℤ)) / ((3 : ℕ) : ℤ) = 1
  norm_num
theorem c8_2K : 2 * Kc c8 < (c8.N : ℤ) := by rw [c8_Kc]; show (2 : ℤ) * 1 < ((8 : ℕ) : ℤ); norm_num

theorem c8_mask_hP : mask c8 (hP c8 1) = 1 := by
  rw [mask_nd_eq_one_iff c8 c8_q, c8_Kc]
  intro d
  unfold kvec
  rw [wnFlat_hP c8 c8_D 1 c8_m]
  have : (d : ℕ) < 3 := d.2
  have h3 : (d : ℕ) = 0 ∨ (d : ℕ) = 1 ∨ (d : ℕ) = 2 := by omega
  rcases h3 with h | h | h <;> rw [h] <;> simp

theorem c8_mask_zero : mask c8 0 = 1 := by
  rw [mask_nd_eq_one_iff c8 c8_q, c8_Kc, kvec_zero]
  intro d
  simp

/-- the stored array carrying `a` at `k = (0, 1, 0)` only -/
noncomputable def zA (a : ℂ) : Array ℂ := tab (modes c8) fun h => if h = hP c8 1 then a else 0

theorem zA_hP (a : ℂ) : (zA a).getD (hP c8 1) 0 = a := by
  unfold zA
  rw [Nonlin.tab_getD _ _ _ _ (hP_lt c8 c8_D 1 c8_m), if_pos rfl]

theorem zA_ne (a : ℂ) (h : ℕ) (hne : h ≠ hP c8 1) : (zA a).getD h 0 = 0 := by
  unfold zA
  rcases Nat.lt_or_ge h (modes c8) with hh | hh
  · rw [Nonlin.tab_getD _ _ _ _ hh, if_neg hne]
  · exact Nonlin.tab_getD_of_le _ _ _ _ hh

/-- the counterexample spectrum `û = (δ, −i·δ, 0)`, `δ` the indicator of the stored mode `(0, 1, 0)` -/
noncomputable def uhC : MC ℂ := #[zA 1, zA (-Complex.I), #[]]

/-- `ifft(mask · a·δ)(x) = Re(a ζ^{−x₁}) / 8³` -/
theorem nifft_zA (a : ℂ) (x : ℕ) (hx : x < c8.N ^ c8.D) :
    (nifft c8 (zA a)).getD x 0 = ((((a * (wph c8 1 x)⁻¹).re : ℝ)) : ℂ) / ((c8.N ^ c8.D : ℕ) : ℂ) := by
  rw [nifft_two_mode c8 c8_D 1 (by norm_num) c8_m (zA a) (fun h _ h1 _ => zA_ne a h h1) x hx,
    c8_mask_hP, zA_hP, zA_ne a _ (hP_ne_hM c8 c8_D 1 c8_m (by norm_num)).symm]
  simp

theorem velGrid_C (x : ℕ) (hx : x < c8.N ^ c8.D) :
    Conserve.velGrid c8 uhC 0 x = (((((wph c8 1 x)⁻¹).re : ℝ)) : ℂ) / ((c8.N ^ c8.D : ℕ) : ℂ) := by
  unfold Conserve.velGrid
  have : uhC.getD 0 #[] = zA 1 := rfl
  rw [this, nifft_zA 1 x hx, one_mul]

theorem divHat_C : divHat c8 uhC = zA 1 := by
  unfold divHat zA
  apply Nonlin.tab_congr
  intro h hh
  have e0 : at2 uhC 0 h = (zA 1).getD h 0 := rfl
  have e1 : at2 uhC 1 h = (zA (-Complex.I)).getD h 0 := rfl
  have e2 : at2 uhC 2 h = 0 := by simp [at2, uhC]
  rw [e0, e1, e2]
  split_ifs with hh1
  · rw [hh1, zA_hP, zA_hP, Nonlin.deriv_eq, Nonlin.deriv_eq, (kInt_hP c8 c8_D 1 c8_m).1, (kInt_hP c8 c8_D 1 c8_m).2.1]
    show Complex.I * (((1 : ℝ) : ℂ) * ((0 : ℤ) : ℂ)) * 1 + Complex.I * (((1 : ℝ) : ℂ) * (((1 : ℕ) : ℤ) : ℂ)) * -Complex.I
      + _ * 0 = 1
    push_cast
    have := Complex.I_mul_I
    linear_combination -this
  · rw [zA_ne _ h hh1, zA_ne _ h hh1]; ring

theorem divGrid_C (x : ℕ) (hx : x < c8.N ^ c8.D) :
    divGrid c8 uhC x = (((((wph c8 1 x)⁻¹).re : ℝ)) : ℂ) / ((c8.N ^ c8.D : ℕ) : ℂ) := by
  unfold divGrid
  rw [divHat_C, nifft_zA 1 x hx, one_mul]

/-- **K1 counterexample (value).** the mean mode of channel 0 is a positive real number -/
theorem projected3d_mean_counter_value :
    at2 (projected3d c8 none uhC) 0 0
      = ((∑ x ∈ range (c8.N ^ c8.D), (((wph c8 1 x)⁻¹).re / ((c8.N ^ c8.D : ℕ) : ℝ)) ^ 2 : ℝ) : ℂ) := by
  rw [projected3d_mean_eq_div c8 c8_D c8_N (Kc c8) (maskIn_Kc c8 c8_q) c8_2K 1 rfl uhC 0 (by norm_num), c8_mask_zero, one_mul]
  push_cast
  apply Finset.sum_congr rfl
  intro x hx
  rw [velGrid_C x (Finset.mem_range.mp hx), divGrid_C x (Finset.mem_range.mp hx)]
  push_cast
  ring

theorem projected3d_mean_counter_pos :
    0 < ∑ x ∈ range (c8.N ^ c8.D), (((wph c8 1 x)⁻¹).re / ((c8.N ^ c8.D : ℕ) : ℝ)) ^ 2 := by
  have h0 : 0 ∈ range (c8.N ^ c8.D) := Finset.mem_range.mpr (pow_pos c8_N _)
  refine lt_of_lt_of_le ?_ (Finset.single_le_sum (f := fun x => (((wph c8 1 x)⁻¹).re / ((c8.N ^ c8.D : ℕ) : ℝ)) ^ 2)
    (fun x _ => sq_nonneg _) h0)
  have w0 : wph c8 1 0 = 1 := by
    unfold wph
    rw [ExactLinear.phaseK_zero_point, zpow_zero]
  show 0 < (((wph c8 1 0)⁻¹).re / ((c8.N ^ c8.D : ℕ) : ℝ)) ^ 2
  rw [w0, inv_one, Complex.one_re]
  have : (0 : ℝ) < ((c8.N ^ c8.D : ℕ) : ℝ) := by exact_mod_cast pow_pos c8_N c8.D
  positivity

/-- **K1 counterexample.** a 3-channel spectrum (not divergence free) whose rotational term has NON-zero mean mode -/
theorem projected3d_mean_counter : at2 (projected3d c8 none uhC) 0 0 ≠ 0 := by
  rw [projected3d_mean_counter_value]
  exact_mod_cast projected3d_mean_counter_pos.ne'

/-- the unconditional claim of the audit item is false -/
theorem projected3d_mean_zero_false :
    ¬ ∀ (c : Cfg ℂ) (s : ℝ) (uh : MC ℂ) (i : ℕ), c.D = 3 → c.fq ≠ 0 → 0 < c.N → 2 * Kc c < (c.N : ℤ) → c.s = (s : ℂ) →
        at2 (projected3d c none uh) i 0 = 0 :=
  fun h => projected3d_mean_counter (h c8 1 uhC 0 c8_D c8_q c8_N c8_2K rfl)

end Exponax.SmallGaps3
