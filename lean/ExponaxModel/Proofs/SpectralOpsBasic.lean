import ExponaxModel.Proofs.NonlinFunsBasic
import ExponaxModel.Proofs.SpectralLayoutEq
import ExponaxModel.Generated.SpectralOps
/-
Read-off lemmas for `Proofs/SpectralOpsEq.lean`: the entries of the arrays regenerated in
`Generated/SpectralLayout.lean` (derivative operator, scaled wavenumbers, wavenumbers, scaling arrays, oddball
mask), read at a flat stored mode by the accessors of `Generated/SpectralOps.lean`, are the quantities of the
hand-written model (`Nonlin.deriv`, `Layout.wnFlat`, `Layout.scaling`, `Layout.oddball`) at `K := ℂ`; plus the
congruence lemmas of the raw transforms.
-/
set_option linter.unusedVariables false
namespace Exponax.SpectralOpsEq
open Exponax Exponax.Layout Exponax.Transform Exponax.Nonlin Exponax.Gen.SpectralOps Exponax.NonlinFunsEq

/-- the configuration of the model for `D` dimensions, `N` points and domain extent `L`: `s = 2π/L`, no mask -/
noncomputable def cfg (D N : ℕ) (L : ℂ) : Cfg ℂ := ⟨D, N, lit 2 * HasPi.pi / L, 0, 0⟩

@[simp] theorem cfg_D (D N : ℕ) (L : ℂ) : (cfg D N L).D = D := rfl
@[simp] theorem cfg_N (D N : ℕ) (L : ℂ) : (cfg D N L).N = N := rfl
@[simp] theorem cfg_fq (D N : ℕ) (L : ℂ) : (cfg D N L).fq = 0 := rfl
theorem cfg_s (D N : ℕ) (L : ℂ) : (cfg D N L).s = 2 * (Real.pi : ℂ) / L := by simp [cfg]
@[simp] theorem modes_cfg (D N : ℕ) (L : ℂ) : modes (cfg D N L) = numModes D N := rfl
@[simp] theorem gridSize_cfg (D N : ℕ) (L : ℂ) : gridSize (cfg D N L) = N ^ D := rfl

/-! ### the regenerated layout arrays at a flat stored mode -/

/-- **entry `[d, h]` of the regenerated `build_derivative_operator` is the model's `deriv`** -/
theorem derivative_operator_entry_eq (D N : ℕ) (hD : 1 ≤ D) (hN : 0 < N) (L : ℂ) (d h : ℕ) (hd : d < D) :
    derivative_operator_entry D L N "ij" d h = deriv (cfg D N L) d h := by
  unfold derivative_operator_entry modeIndex
  have := build_derivative_operator_deriv (cfg D N L) L rfl hD hN h d hd
  simp only [cfg_D, cfg_N] at this
  rw [List.getD_eq_getElem?_getD, this]
  rfl

theorem map_derivative_operator_entry (D N : ℕ) (hD : 1 ≤ D) (hN : 0 < N) (L : ℂ) (h : ℕ) :
    List.map (fun k => derivative_operator_entry D L N "ij" k h) (List.range D)
      = List.map (fun k => deriv (cfg D N L) k h) (List.range D) := by
  apply List.map_congr_left
  intro k hk
  exact derivative_operator_entry_eq D N hD hN L k h (List.mem_range.mp hk)

/-- the regenerated `build_laplace_operator` on the regenerated derivative operator is the model's `laplace` -/
theorem laplace_op_entry (D N : ℕ) (hD : 1 ≤ D) (hN : 0 < N) (L : ℂ) (order h : ℕ) :
    Gen.Steppers.laplace_op (List.map (fun k => derivative_operator_entry D L N "ij" k h) (List.range D)) order
      = laplace (cfg D N L) order h := by
  rw [map_derivative_operator_entry D N hD hN]
  exact laplace_op_deriv (cfg D N L) order h

theorem sumList_map_range (n : ℕ) (f : ℕ → ℂ) : sumList (List.map f (List.range n)) = sumRange n f := rfl

theorem isZero_iff (z : ℂ) : HasIsZero.isZero z = true ↔ z = 0 := by
  simp only [HasIsZero.isZero, decide_eq_true_eq]

theorem wavenumbers_entry_eq (D N : ℕ) (hD : 1 ≤ D) (hN : 0 < N) (d h : ℕ) :
    wavenumbers_entry D N "ij" d h = (wnFlat D N h).getD d 0 := by
  unfold wavenumbers_entry modeIndex
  rw [build_wavenumbers_ij D N hD hN]
  rfl

theorem scaled_wavenumbers_entry_eq (D N : ℕ) (hD : 1 ≤ D) (hN : 0 < N) (L : ℂ) (d h : ℕ) (hd : d < D) :
    scaled_wavenumbers_entry D L N "ij" d h = (2 * (Real.pi : ℂ) / L) * (((wnFlat D N h).getD d 0 : ℤ) : ℂ) := by
  unfold scaled_wavenumbers_entry modeIndex
  rw [build_scaled_wavenumbers_ij D N L hD hN]
  have hl : d < (wnVec D N (unflatten (wavenumberShape D N) h)).length := by rw [wnVec_length]; exact hd
  rw [List.getD_eq_getElem?_getD, List.getElem?_map, List.getElem?_eq_getElem hl]
  simp only [Option.map_some, Option.getD_some, wnFlat]
  rw [List.getD_eq_getElem?_getD, List.getElem?_eq_getElem hl]
  simp

theorem ofRat_eq (q : ℚ) : (ofRat q : ℂ) = (q : ℂ) := by
  unfold ofRat
  rw [Rat.cast_def]

theorem scaling_array_entry_eq (D N : ℕ) (hD : 1 ≤ D) (hN : 0 < N) (h : ℕ) :
    (scaling_array_entry D N "norm_compensation" "ij" h : ℂ) = scaling D N 0 (unflatten (wavenumberShape D N) h) ∧
    (scaling_array_entry D N "reconstruction" "ij" h : ℂ) = scaling D N 1 (unflatten (wavenumberShape D N) h) ∧
    (scaling_array_entry D N "coef_extraction" "ij" h : ℂ) = scaling D N 2 (unflatten (wavenumberShape D N) h) := by
  unfold scaling_array_entry scaling_array_entry? modeIndex
  rw [build_scaling_array_norm_compensation D N hD hN, build_scaling_array_reconstruction D N hD hN,
    build_scaling_array_coef_extraction D N hD hN]
  simp only [Option.map_some, Option.getD_some, ofRat_eq, scaling_cast]
  exact ⟨trivial, trivial, trivial⟩

theorem scaling_nc (D N : ℕ) (hD : 1 ≤ D) (hN : 0 < N) (h : ℕ) :
    (scaling_array_entry D N "norm_compensation" "ij" h : ℂ) = scaling D N 0 (unflatten (wavenumberShape D N) h) :=
  (scaling_array_entry_eq D N hD hN h).1

theorem scaling_rc (D N : ℕ) (hD : 1 ≤ D) (hN : 0 < N) (h : ℕ) :
    (scaling_array_entry D N "reconstruction" "ij" h : ℂ) = scaling D N 1 (unflatten (wavenumberShape D N) h) :=
  (scaling_array_entry_eq D N hD hN h).2.1

theorem scaling_ce (D N : ℕ) (hD : 1 ≤ D) (hN : 0 < N) (h : ℕ) :
    (scaling_array_entry D N "coef_extraction" "ij" h : ℂ) = scaling D N 2 (unflatten (wavenumberShape D N) h) :=
  (scaling_array_entry_eq D N hD hN h).2.2

theorem oddball_mask_entry_eq (D N : ℕ) (hD : 1 ≤ D) (hN : 0 < N) (h : ℕ) :
    oddball_mask_entry D N h = oddball N (wnFlat D N h) := by
  unfold oddball_mask_entry modeIndex
  exact oddball_filter_mask_flat D N hD hN h

/-- the integer wavenumber vector of the stored mode `h`, as the generated code assembles it -/
theorem map_wavenumbers_entry (D N : ℕ) (hD : 1 ≤ D) (hN : 0 < N) (h : ℕ) :
    List.map (fun k => wavenumbers_entry D N "ij" k h) (List.range D) = wnFlat D N h := by
  simp only [wavenumbers_entry_eq D N hD hN]
  apply List.ext_getElem
  · simp [wnFlat, wnVec_length]
  · intro i h1 h2
    have hi : i < D := by simpa using h1
    simp [List.getD_eq_getElem?_getD, h2]

/-! ### the 1-D wavenumbers, the radial-bin masks, the scan -/

theorem wavenumbers_1d_entry_eq (N : ℕ) (hN : 0 < N) (i : ℕ) : wavenumbers_1d_entry N "ij" i = (i : ℤ) := by
  unfold wavenumbers_1d_entry
  rw [build_wavenumbers_ij 1 N le_rfl hN]
  simp [wnVec, wn, rfftfreq]

theorem wavenumbers_1d_row_eq (N : ℕ) (hN : 0 < N) :
    wavenumbers_1d_row N "ij" = (List.range (N / 2 + 1)).map (fun (i : ℕ) => (i : ℤ)) := by
  unfold wavenumbers_1d_row
  rw [build_wavenumbers_shape_ij 1 N le_rfl hN]
  simp only [wavenumberShape]
  apply List.map_congr_left
  intro i _
  exact wavenumbers_1d_entry_eq N hN i

theorem lax_scan_unit {X Y : Type} (g : X → Y) (xs : List X) :
    (lax_scan (fun (_ : Unit) x => ((), g x)) () xs).2 = xs.map g := by
  induction xs with
  | nil => rfl
  | cons x xs ih => simp [lax_scan, ih]

/-- `l2norm_ge` decides `c ≤ sqrt(Σ kᵢ²)` -/
theorem l2norm_ge_iff_sqrt (ks : List ℤ) (c : ℚ) :
    l2norm_ge ks c = true ↔ (c : ℝ) ≤ Real.sqrt ((normSq ks : ℤ) : ℝ) := by
  unfold l2norm_ge
  change (decide (c ≤ 0) || decide (c * c ≤ ((normSq ks : ℤ) : ℚ))) = true ↔ _
  simp only [Bool.or_eq_true, decide_eq_true_eq]
  have hn : (0 : ℝ) ≤ ((normSq ks : ℤ) : ℝ) := by exact_mod_cast normSq_nonneg ks
  constructor
  · rintro (h | h)
    · have : (c : ℝ) ≤ 0 := by exact_mod_cast h
      exact this.trans (Real.sqrt_nonneg _)
    · apply Real.le_sqrt_of_sq_le
      have : ((c * c : ℚ) : ℝ) ≤ (((normSq ks : ℤ) : ℚ) : ℝ) := by exact_mod_cast h
      push_cast at this
      nlinarith
  · intro h
    by_cases hc : c ≤ 0
    · exact Or.inl hc
    · right
      have hc' : (0 : ℝ) ≤ c := by
        have : (0 : ℚ) < c := lt_of_not_ge hc
        exact_mod_cast this.le
      have := (Real.le_sqrt hc' hn).1 h
      have h2 : ((c * c : ℚ) : ℝ) ≤ (((normSq ks : ℤ) : ℚ) : ℝ) := by push_cast; nlinarith
      exact_mod_cast h2

/-- `l2norm_lt` decides `sqrt(Σ kᵢ²) < c` -/
theorem l2norm_lt_iff_sqrt (ks : List ℤ) (c : ℚ) :
    l2norm_lt ks c = true ↔ Real.sqrt ((normSq ks : ℤ) : ℝ) < (c : ℝ) := by
  unfold l2norm_lt
  change (decide (0 < c) && decide (((normSq ks : ℤ) : ℚ) < c * c)) = true ↔ _
  simp only [Bool.and_eq_true, decide_eq_true_eq]
  have hn : (0 : ℝ) ≤ ((normSq ks : ℤ) : ℝ) := by exact_mod_cast normSq_nonneg ks
  constructor
  · rintro ⟨h0, h⟩
    have h0' : (0 : ℝ) < c := by exact_mod_cast h0
    rw [Real.sqrt_lt' h0']
    have : ((((normSq ks : ℤ) : ℚ)) : ℝ) < ((c * c : ℚ) : ℝ) := by exact_mod_cast h
    push_cast at this
    nlinarith
  · intro h
    have h0' : (0 : ℝ) < c := lt_of_le_of_lt (Real.sqrt_nonneg _) h
    have h0 : (0 : ℚ) < c := by exact_mod_cast h0'
    refine ⟨h0, ?_⟩
    rw [Real.sqrt_lt' h0'] at h
    have h2 : ((((normSq ks : ℤ) : ℚ)) : ℝ) < ((c * c : ℚ) : ℝ) := by push_cast; nlinarith
    exact_mod_cast h2

/-- **the bin mask of `get_spectrum` (`k − dk/2 ≤ ‖κ‖ < k + dk/2` with `k = b`, `dk = 1`) is the model's `inBin`** -/
theorem bin_mask_eq (ks : List ℤ) (b : ℕ) :
    (l2norm_ge ks (((b : ℤ) : ℚ) - (((1 : ℤ) : ℚ) / (((2 : ℕ) : ℤ) : ℚ)))
      && l2norm_lt ks (((b : ℤ) : ℚ) + (((1 : ℤ) : ℚ) / (((2 : ℕ) : ℤ) : ℚ)))) = inBin ks b := by
  rw [Bool.eq_iff_iff, Bool.and_eq_true, l2norm_ge_iff_sqrt, l2norm_lt_iff_sqrt, inBin_iff_real]
  push_cast
  rfl

/-! ### the raw transforms only read the entries below their static extents -/

theorem irfftnM_congr (D N : ℕ) (a b : Array ℂ) (h : ∀ m, m < numModes D N → a.getD m 0 = b.getD m 0) :
    irfftnM D N a = irfftnM D N b := by
  unfold irfftnM
  apply tab_congr
  intro j hj
  congr 1
  apply sumRange_congr
  intro m hm
  rw [h m hm]

theorem irfftnM_tab (D N : ℕ) (a : Array ℂ) : irfftnM D N (tab (numModes D N) (fun h => a.getD h 0)) = irfftnM D N a :=
  irfftnM_congr D N _ _ (fun m hm => tab_getD _ _ _ _ hm)

theorem rfftnM_tab (D N : ℕ) (a : Array ℂ) : rfftnM D N (tab (N ^ D) (fun x => a.getD x 0)) = rfftnM D N a :=
  rfftnM_congr D N _ _ (fun m hm => tab_getD _ _ _ _ hm)

/-- the rows of a stored spectrum before the inverse transform -/
theorem irfft_rows (D N A : ℕ) (f : ℕ → ℕ → ℂ) :
    tabC A (fun p => irfftnM D N (tab (numModes D N) (fun h => at2 (tab2 A (numModes D N) f) p h)))
      = tabC A (fun p => irfftnM D N (tab (numModes D N) (f p))) := by
  apply tabC_congr; intro p hp
  apply irfftnM_congr; intro x hx
  rw [tab_getD _ _ _ _ hx, tab_getD _ _ _ _ hx, at2_tab2 _ _ _ _ _ hp hx]

theorem rfft_rows (D N A : ℕ) (f : ℕ → ℕ → ℂ) :
    tabC A (fun p => rfftnM D N (tab (N ^ D) (fun x => at2 (tab2 A (N ^ D) f) p x)))
      = tabC A (fun p => rfftnM D N (tab (N ^ D) (f p))) := by
  apply tabC_congr; intro p hp
  apply rfftnM_congr; intro x hx
  rw [tab_getD _ _ _ _ hx, tab_getD _ _ _ _ hx, at2_tab2 _ _ _ _ _ hp hx]

/-- the spectra of the channels, as the generated code computes them -/
theorem rfft_channels (D N C : ℕ) (u : MC ℂ) :
    tabC C (fun i0 => rfftnM D N (tab (N ^ D) (fun x => at2 u i0 x))) = tabC C (fun ch => rfftnM D N (u.getD ch #[])) :=
  tabC_congr _ _ _ (fun i _ => rfftnM_tab D N _)

theorem irfft_channels (D N C : ℕ) (u : MC ℂ) :
    tabC C (fun i0 => irfftnM D N (tab (numModes D N) (fun x => at2 u i0 x))) = tabC C (fun ch => irfftnM D N (u.getD ch #[])) :=
  tabC_congr _ _ _ (fun i _ => irfftnM_tab D N _)

theorem at2_rfft (D N C : ℕ) (u : MC ℂ) (i h : ℕ) (hi : i < C) :
    at2 (tabC C (fun ch => rfftnM D N (u.getD ch #[]))) i h = (rfftnM D N (u.getD i #[])).getD h 0 :=
  at2_tabC _ _ _ _ hi

end Exponax.SpectralOpsEq
