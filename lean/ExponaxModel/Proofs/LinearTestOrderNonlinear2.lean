import ExponaxModel.Proofs.LinearTestOrderNonlinearVec
/-
C02 support — T6: ETDRK2 (Cox–Matthews) for a genuinely NONLINEAR, globally Lipschitz `N : ℂ → ℂ`:
order 2, with constants that do not depend on `|λ|` (stiffness-uniform).

`u' = λ u + N(u)` on `[0,T]`, exact solution `u` a hypothesis; `f t := N (u t)`.
Smoothness hypothesis (about `f`, not about `N`):  a function `f' : ℝ → ℂ` with

      ‖f (t+s) − f t − s·f' t‖ ≤ G s²/2        (0 ≤ t, 0 ≤ s, t+s ≤ T)            (Taylor)

(`taylor_of_lipschitz_deriv`: this follows if `f` has the derivative `f'` on `[0,T]` and `f'` is `G`-Lipschitz.)

 * `etd2_weight`        `∫ₐᵇ e^{c(b−s)} (s−a) ds = (b−a)²·φ₂(c(b−a))`  (entire `phi2e`; `c = 0` covered)
 * `etd2_defect`        `‖y(b) − (e^{ch}y(a) + hφ₁(ch) f(a) + h²φ₂(ch) d)‖ ≤ e^{ωh} G h³/6`, `h = b−a`
 * `etd2_local_core`    the same with `h d` replaced by a stage difference `Na − f(a)`, `‖Na − f(b)‖ ≤ D`
 * `etd2_local_error`   one regenerated `E2step` with the exact coefficients from `u t`:
                        `≤ e^{ωh}(K²M e^{ωh}/4 + 5G/12)·h³`
 * `etd2_stable`        Lipschitz constant `e^{ωh}((1+Kh)(1+Kh e^{ωh}/2) + Kh/2)`
 * `etd2_global_error`  `‖u(n dt) − Sⁿ(u 0)‖ ≤ T·e^{ωT}(K²M e^{ωT}/4 + 5G/12)·e^{(ω + K(3+e^{ωT})/2)T}·dt²`
-/
set_option linter.unusedVariables false
noncomputable section
namespace Exponax.LinearOrder
open Exponax Exponax.Spec Exponax.ContourTail Exponax.Gen.Etdrk intervalIntegral MeasureTheory

/-! ### the `φ₂` weight -/

/-- `∫ₐᵇ e^{c(b−s)} (s−a) ds = (b−a)²·φ₂(c(b−a))` -/
theorem etd2_weight (c : ℂ) (a b : ℝ) :
    ((b - a : ℝ) : ℂ) ^ 2 * phi2e (c * ((b - a : ℝ) : ℂ))
      = ∫ s in a..b, Complex.exp (c * ((b : ℂ) - s)) * ((s : ℂ) - a) := by
  set F : ℝ → ℂ := fun x => Complex.exp (c * (x : ℂ)) * (((b - a : ℝ) : ℂ) - (x : ℂ)) with hF
  have h1 := intervalIntegral.integral_comp_sub_left (a := a) (b := b) F b
  have h2 := intervalIntegral.smul_integral_comp_mul_left (a := (0 : ℝ)) (b := 1) F (b - a)
  simp only [sub_self, mul_zero, mul_one] at h1 h2
  have h3 : ∫ s in a..b, Complex.exp (c * ((b : ℂ) - s)) * ((s : ℂ) - a) = ∫ s in a..b, F (b - s) := by
    refine integral_congr (fun s _ => ?_)
    simp only [hF]
    push_cast
    ring_nf
  have h4 : ∫ τ in (0 : ℝ)..1, F ((b - a) * τ)
      = ((b - a : ℝ) : ℂ) * ∫ τ in (0 : ℝ)..1, (1 - (τ : ℂ)) * Complex.exp (c * ((b - a : ℝ) : ℂ) * τ) := by
    rw [← intervalIntegral.integral_const_mul]
    refine integral_congr (fun τ _ => ?_)
    simp only [hF]
    push_cast
    ring_nf
  rw [h3, h1, ← h2, h4, phi2e_eq_integral, Complex.real_smul]
  ring

theorem real_int_sq (a b : ℝ) : ∫ s in a..b, (s - a) ^ 2 / 2 = (b - a) ^ 3 / 6 := by
  have h := intervalIntegral.integral_comp_sub_right (a := a) (b := b) (fun x : ℝ => x ^ 2 / 2) a
  simp only [sub_self] at h
  rw [h, intervalIntegral.integral_div, integral_pow]
  ring

theorem norm_exp_prop_le (c : ℂ) (ω : ℝ) (a b s : ℝ) (hω : 0 ≤ ω) (hc : c.re ≤ ω) (hs : s ∈ Set.Icc a b) :
    ‖Complex.exp (c * ((b : ℂ) - s))‖ ≤ Real.exp (ω * (b - a)) := by
  have hre : (c * ((b : ℂ) - s)).re = c.re * (b - s) := by
    have : ((b : ℂ) - s) = ((b - s : ℝ) : ℂ) := by push_cast; ring
    rw [this, Complex.re_mul_ofReal]
  rw [Complex.norm_exp, hre]
  refine Real.exp_le_exp.mpr ?_
  have h1 : c.re * (b - s) ≤ ω * (b - s) := mul_le_mul_of_nonneg_right hc (by linarith [hs.2])
  have h2 : ω * (b - s) ≤ ω * (b - a) := mul_le_mul_of_nonneg_left (by linarith [hs.1]) hω
  linarith

/-- **second-order defect**: for `y' = c y + f` with `‖f s − f a − (s−a) d‖ ≤ G (s−a)²/2` on `[a,b]`, `Re c ≤ ω` -/
theorem etd2_defect (c : ℂ) (ω G : ℝ) (y f : ℝ → ℂ) (a b : ℝ) (hab : a ≤ b) (hω : 0 ≤ ω)
    (hc : c.re ≤ ω)
    (hy : ∀ s ∈ Set.Icc a b, HasDerivAt y (c * y s + f s) s) (hf : ContinuousOn f (Set.Icc a b))
    (d : ℂ) (hTay : ∀ s ∈ Set.Icc a b, ‖f s - f a - ((s - a : ℝ) : ℂ) * d‖ ≤ G * (s - a) ^ 2 / 2) :
    ‖y b - (Complex.exp (c * ((b - a : ℝ) : ℂ)) * y a
        + ((b - a : ℝ) : ℂ) * phi1e (c * ((b - a : ℝ) : ℂ)) * f a
        + ((b - a : ℝ) : ℂ) ^ 2 * phi2e (c * ((b - a : ℝ) : ℂ)) * d)‖
      ≤ Real.exp (ω * (b - a)) * G * (b - a) ^ 3 / 6 := by
  set e : ℝ → ℂ := fun s => Complex.exp (c * ((b : ℂ) - s)) with he
  set r : ℝ → ℂ := fun s => f s - f a - ((s - a : ℝ) : ℂ) * d with hr
  have hcont : Continuous e := by simp only [he]; fun_prop
  have huIcc : Set.uIcc a b = Set.Icc a b := Set.uIcc_of_le hab
  have hrc : ContinuousOn r (Set.Icc a b) := by
    simp only [hr]
    exact (hf.sub continuousOn_const).sub (Continuous.continuousOn (by fun_prop))
  have hi1 : IntervalIntegrable (fun s => e s * f a) volume a b :=
    (hcont.mul continuous_const).intervalIntegrable _ _
  have hi2 : IntervalIntegrable (fun s : ℝ => e s * ((s : ℂ) - a) * d) volume a b :=
    (by fun_prop : Continuous fun s : ℝ => e s * ((s : ℂ) - a) * d).intervalIntegrable _ _
  have hi3 : IntervalIntegrable (fun s => e s * r s) volume a b := by
    apply ContinuousOn.intervalIntegrable
    rw [huIcc]; exact hcont.continuousOn.mul hrc
  have hsplit : ∫ s in a..b, e s * f s
      = (∫ s in a..b, e s) * f a + (∫ s in a..b, e s * ((s : ℂ) - a)) * d + ∫ s in a..b, e s * r s := by
    rw [← intervalIntegral.integral_mul_const, ← intervalIntegral.integral_mul_const,
      ← integral_add hi1 hi2, ← integral_add (hi1.add hi2) hi3]
    refine integral_congr (fun s _ => ?_)
    simp only [hr]
    push_cast
    ring
  have hkey : y b - (Complex.exp (c * ((b - a : ℝ) : ℂ)) * y a
        + ((b - a : ℝ) : ℂ) * phi1e (c * ((b - a : ℝ) : ℂ)) * f a
        + ((b - a : ℝ) : ℂ) ^ 2 * phi2e (c * ((b - a : ℝ) : ℂ)) * d) = ∫ s in a..b, e s * r s := by
    rw [variation_of_constants c y f a b hab hy hf, expEuler_weight c a b, etd2_weight c a b]
    have := hsplit
    simp only [he] at this ⊢
    rw [this]
    push_cast
    ring
  rw [hkey]
  have hbound : ∀ s ∈ Set.Ioc a b, ‖e s * r s‖ ≤ Real.exp (ω * (b - a)) * G * ((s - a) ^ 2 / 2) := by
    intro s hs
    have hs' : s ∈ Set.Icc a b := ⟨hs.1.le, hs.2⟩
    have h1 := norm_exp_prop_le c ω a b s hω hc hs'
    have h2 := hTay s hs'
    rw [norm_mul, mul_assoc]
    refine mul_le_mul h1 ?_ (norm_nonneg _) (Real.exp_pos _).le
    simp only [hr]
    linarith
  have hg : IntervalIntegrable (fun s : ℝ => Real.exp (ω * (b - a)) * G * ((s - a) ^ 2 / 2)) volume a b :=
    (by fun_prop : Continuous fun s : ℝ =>
      Real.exp (ω * (b - a)) * G * ((s - a) ^ 2 / 2)).intervalIntegrable _ _
  refine (norm_integral_le_of_norm_le hab (Filter.Eventually.of_forall hbound) hg).trans (le_of_eq ?_)
  rw [intervalIntegral.integral_const_mul, real_int_sq]
  ring

/-- `‖h·φ₂(c h)‖ ≤ h e^{ωh}/2` -/
theorem norm_h_phi2e_le (c : ℂ) (ω h : ℝ) (hω : 0 ≤ ω) (hc : c.re ≤ ω) (hh : 0 ≤ h) :
    ‖(h : ℂ) * phi2e (c * (h : ℂ))‖ ≤ h * Real.exp (ω * h) / 2 := by
  have hre : (c * (h : ℂ)).re = c.re * h := Complex.re_mul_ofReal c h
  have h2 : ‖phi2e (c * (h : ℂ))‖ ≤ Real.exp (ω * h) / 2 := by
    refine (norm_phi2e_le _).trans (div_le_div_of_nonneg_right ?_ (by norm_num))
    refine max_le (Real.one_le_exp (mul_nonneg hω hh)) ?_
    rw [hre]; exact Real.exp_le_exp.mpr (mul_le_mul_of_nonneg_right hc hh)
  rw [norm_mul, Complex.norm_real, Real.norm_eq_abs, abs_of_nonneg hh]
  calc h * ‖phi2e (c * (h : ℂ))‖ ≤ h * (Real.exp (ω * h) / 2) := mul_le_mul_of_nonneg_left h2 hh
    _ = h * Real.exp (ω * h) / 2 := by ring

/-- **local core of ETDRK2** (per mode): the corrector uses a stage value `Na` with `‖Na − f(b)‖ ≤ D` -/
theorem etd2_local_core (c : ℂ) (ω G : ℝ) (y f : ℝ → ℂ) (a b : ℝ) (hab : a ≤ b) (hω : 0 ≤ ω)
    (hc : c.re ≤ ω)
    (hy : ∀ s ∈ Set.Icc a b, HasDerivAt y (c * y s + f s) s) (hf : ContinuousOn f (Set.Icc a b))
    (d : ℂ) (hTay : ∀ s ∈ Set.Icc a b, ‖f s - f a - ((s - a : ℝ) : ℂ) * d‖ ≤ G * (s - a) ^ 2 / 2)
    (Na : ℂ) (D : ℝ) (hNa : ‖Na - f b‖ ≤ D) :
    ‖y b - ((Complex.exp (c * ((b - a : ℝ) : ℂ)) * y a
          + ((b - a : ℝ) : ℂ) * phi1e (c * ((b - a : ℝ) : ℂ)) * f a)
        + ((b - a : ℝ) : ℂ) * phi2e (c * ((b - a : ℝ) : ℂ)) * (Na - f a))‖
      ≤ Real.exp (ω * (b - a)) * G * (b - a) ^ 3 / 6
        + (b - a) * Real.exp (ω * (b - a)) / 2 * (D + G * (b - a) ^ 2 / 2) := by
  have hh : 0 ≤ b - a := by linarith
  have h1 := etd2_defect c ω G y f a b hab hω hc hy hf d hTay
  have h2 := norm_h_phi2e_le c ω (b - a) hω hc hh
  have h3 := hTay b ⟨hab, le_rfl⟩
  set h := ((b - a : ℝ) : ℂ) with hhdef
  have hid : y b - ((Complex.exp (c * h) * y a + h * phi1e (c * h) * f a)
        + h * phi2e (c * h) * (Na - f a))
      = (y b - (Complex.exp (c * h) * y a + h * phi1e (c * h) * f a + h ^ 2 * phi2e (c * h) * d))
        - h * phi2e (c * h) * ((Na - f b) + (f b - f a - h * d)) := by ring
  rw [hid]
  refine (norm_sub_le _ _).trans (add_le_add h1 ?_)
  rw [norm_mul]
  refine mul_le_mul h2 ((norm_add_le _ _).trans (add_le_add hNa h3)) (norm_nonneg _) (by positivity)

/-! ### ETDRK2 for `u' = λu + N(u)` -/

/-- the Taylor hypothesis from a `G`-Lipschitz derivative of `f` on `[0,T]` -/
theorem taylor_of_lipschitz_deriv (f f' : ℝ → ℂ) (T G : ℝ)
    (hf : ∀ t ∈ Set.Icc (0 : ℝ) T, HasDerivAt f (f' t) t)
    (hG : ∀ x ∈ Set.Icc (0 : ℝ) T, ∀ y ∈ Set.Icc (0 : ℝ) T, ‖f' x - f' y‖ ≤ G * |x - y|)
    (t s : ℝ) (ht : 0 ≤ t) (hs : 0 ≤ s) (hts : t + s ≤ T) :
    ‖f (t + s) - f t - (s : ℂ) * f' t‖ ≤ G * s ^ 2 / 2 := by
  have hsub : Set.Icc t (t + s) ⊆ Set.Icc (0 : ℝ) T := fun x hx => ⟨ht.trans hx.1, hx.2.trans hts⟩
  have hts' : t ≤ t + s := by linarith
  have htmem : t ∈ Set.Icc (0 : ℝ) T := ⟨ht, by linarith⟩
  have hcont : ContinuousOn f' (Set.Icc t (t + s)) := by
    have hL : LipschitzOnWith (Real.toNNReal G) f' (Set.Icc t (t + s)) := by
      refine LipschitzOnWith.of_dist_le_mul (fun x hx y hy => ?_)
      rw [dist_eq_norm, Real.dist_eq]
      refine (hG x (hsub hx) y (hsub hy)).trans ?_
      exact mul_le_mul_of_nonneg_right (Real.le_coe_toNNReal G) (abs_nonneg _)
    exact hL.continuousOn
  have hderiv : ∀ x ∈ Set.uIcc t (t + s),
      HasDerivAt (fun x : ℝ => f x - (x : ℂ) * f' t) (f' x - f' t) x := by
    intro x hx
    rw [Set.uIcc_of_le hts'] at hx
    have h1 := (hasDerivAt_ofReal x).mul_const (f' t)
    have h2 : HasDerivAt (fun x : ℝ => f x - (x : ℂ) * f' t) (f' x - 1 * f' t) x :=
      (hf x (hsub hx)).sub h1
    rwa [one_mul] at h2
  have hint : IntervalIntegrable (fun x => f' x - f' t) volume t (t + s) := by
    apply ContinuousOn.intervalIntegrable
    rw [Set.uIcc_of_le hts']
    exact hcont.sub continuousOn_const
  have h := integral_eq_sub_of_hasDerivAt hderiv hint
  have heq : f (t + s) - f t - (s : ℂ) * f' t = ∫ x in t..(t + s), (f' x - f' t) := by
    rw [h]; push_cast; ring
  rw [heq]
  have hbound : ∀ x ∈ Set.Ioc t (t + s), ‖f' x - f' t‖ ≤ G * (x - t) := by
    intro x hx
    have := hG x (hsub ⟨hx.1.le, hx.2⟩) t htmem
    rwa [abs_of_nonneg (by linarith [hx.1])] at this
  have hg : IntervalIntegrable (fun x : ℝ => G * (x - t)) volume t (t + s) :=
    (by fun_prop : Continuous fun x : ℝ => G * (x - t)).intervalIntegrable _ _
  refine (norm_integral_le_of_norm_le hts' (Filter.Eventually.of_forall hbound) hg).trans (le_of_eq ?_)
  have hI : ∫ x in t..(t + s), (x - t) = s ^ 2 / 2 := by
    have h := intervalIntegral.integral_comp_sub_right (a := t) (b := t + s) (fun x : ℝ => x) t
    simp only [sub_self] at h
    rw [h, integral_id]
    ring
  rw [intervalIntegral.integral_const_mul, hI]
  ring

/-- the regenerated ETDRK2 step is the exponential-Euler stage plus the `φ₂` corrector -/
theorem E2step_eq_stage (E a1 a2 : ℂ) (N : ℂ → ℂ) (x : ℂ) :
    E2step E a1 a2 N x = E1step E a1 N x + a2 * (N (E1step E a1 N x) - N x) := rfl

/-- **T6(i): local error of the regenerated ETDRK2 step** with the exact coefficients, nonlinear Lipschitz `N`;
    the constant involves `K, M, G, ω` only -/
theorem etd2_local_error (l : ℂ) (N : ℂ → ℂ) (K : NNReal) (hN : LipschitzWith K N) (u : ℝ → ℂ)
    (T M ω G : ℝ) (hω : 0 ≤ ω) (hl : l.re ≤ ω)
    (hu : ∀ t ∈ Set.Icc (0 : ℝ) T, HasDerivAt u (l * u t + N (u t)) t)
    (hM : ∀ t ∈ Set.Icc (0 : ℝ) T, ‖l * u t + N (u t)‖ ≤ M)
    (f' : ℝ → ℂ)
    (hTay : ∀ t s : ℝ, 0 ≤ t → 0 ≤ s → t + s ≤ T →
      ‖N (u (t + s)) - N (u t) - (s : ℂ) * f' t‖ ≤ G * s ^ 2 / 2)
    (t h : ℝ) (ht : 0 ≤ t) (hh : 0 ≤ h) (hth : t + h ≤ T) :
    ‖u (t + h) - E2step (Complex.exp (l * h)) (h * phi1e (l * h)) (h * phi2e (l * h)) N (u t)‖
      ≤ Real.exp (ω * h) * (K ^ 2 * M * Real.exp (ω * h) / 4 + 5 * G / 12) * h ^ 3 := by
  have hsub : Set.Icc t (t + h) ⊆ Set.Icc (0 : ℝ) T := fun s hs => ⟨ht.trans hs.1, hs.2.trans hth⟩
  have hucont : ContinuousOn u (Set.Icc t (t + h)) := fun s hs =>
    (hu s (hsub hs)).continuousAt.continuousWithinAt
  have hf : ContinuousOn (fun s => N (u s)) (Set.Icc t (t + h)) :=
    hN.continuous.comp_continuousOn hucont
  have hT' : ∀ s ∈ Set.Icc t (t + h),
      ‖N (u s) - N (u t) - ((s - t : ℝ) : ℂ) * f' t‖ ≤ G * (s - t) ^ 2 / 2 := by
    intro s hs
    have := hTay t (s - t) ht (by linarith [hs.1]) (by linarith [hs.2])
    rwa [show t + (s - t) = s by ring] at this
  have hE1 := expEuler_local_error l N K hN u T M ω hω hl hu hM t h ht hh hth
  set a := E1step (Complex.exp (l * h)) (h * phi1e (l * h)) N (u t) with ha
  have hNa : ‖N a - N (u (t + h))‖ ≤ K * (Real.exp (ω * h) * (K * M) * h ^ 2 / 2) := by
    have h1 := hN.dist_le_mul a (u (t + h))
    rw [dist_eq_norm, dist_eq_norm] at h1
    refine h1.trans (mul_le_mul_of_nonneg_left ?_ K.coe_nonneg)
    rw [norm_sub_rev]; exact hE1
  have hcore := etd2_local_core l ω G u (fun s => N (u s)) t (t + h) (by linarith) hω hl
    (fun s hs => hu s (hsub hs)) hf (f' t) hT' (N a) _ hNa
  have hb : t + h - t = h := by ring
  rw [hb] at hcore
  rw [E2step_eq_stage]
  have ha' : a = Complex.exp (l * h) * u t + h * phi1e (l * h) * N (u t) := rfl
  rw [← ha, ha']
  refine hcore.trans (le_of_eq ?_)
  ring

/-- the stability constant of one ETDRK2 step -/
def etd2Stab (ω K h : ℝ) : ℝ :=
  Real.exp (ω * h) * ((1 + K * h) * (1 + K * h * Real.exp (ω * h) / 2) + K * h / 2)

/-- **T6(ii): stability of the ETDRK2 step** -/
theorem etd2_stable (l : ℂ) (N : ℂ → ℂ) (K : NNReal) (hN : LipschitzWith K N) (ω dt : ℝ)
    (hω : 0 ≤ ω) (hl : l.re ≤ ω) (hdt : 0 ≤ dt) (x y : ℂ) :
    ‖E2step (Complex.exp (l * dt)) (dt * phi1e (l * dt)) (dt * phi2e (l * dt)) N x
        - E2step (Complex.exp (l * dt)) (dt * phi1e (l * dt)) (dt * phi2e (l * dt)) N y‖
      ≤ etd2Stab ω K dt * ‖x - y‖ := by
  have h1 := expEuler_stable l N K hN ω dt hω hl hdt x y
  have h2 := norm_h_phi2e_le l ω dt hω hl hdt
  rw [E2step_eq_stage, E2step_eq_stage]
  set ax := E1step (Complex.exp (l * dt)) (dt * phi1e (l * dt)) N x
  set ay := E1step (Complex.exp (l * dt)) (dt * phi1e (l * dt)) N y
  have h3 : ‖N ax - N ay‖ ≤ K * ‖ax - ay‖ := by
    have := hN.dist_le_mul ax ay; rwa [dist_eq_norm, dist_eq_norm] at this
  have h4 : ‖N x - N y‖ ≤ K * ‖x - y‖ := by
    have := hN.dist_le_mul x y; rwa [dist_eq_norm, dist_eq_norm] at this
  have hK : (0 : ℝ) ≤ K := K.coe_nonneg
  have hid : ax + dt * phi2e (l * dt) * (N ax - N x) - (ay + dt * phi2e (l * dt) * (N ay - N y))
      = (ax - ay) + dt * phi2e (l * dt) * ((N ax - N ay) - (N x - N y)) := by ring
  rw [hid]
  calc ‖(ax - ay) + dt * phi2e (l * dt) * ((N ax - N ay) - (N x - N y))‖
      ≤ ‖ax - ay‖ + ‖(dt : ℂ) * phi2e (l * dt)‖ * (‖N ax - N ay‖ + ‖N x - N y‖) := by
        refine (norm_add_le _ _).trans (add_le_add le_rfl ?_)
        rw [norm_mul]
        exact mul_le_mul_of_nonneg_left (norm_sub_le _ _) (norm_nonneg _)
    _ ≤ ‖ax - ay‖ + dt * Real.exp (ω * dt) / 2 * (K * ‖ax - ay‖ + K * ‖x - y‖) := by gcongr
    _ ≤ Real.exp (ω * dt) * (1 + K * dt) * ‖x - y‖ + dt * Real.exp (ω * dt) / 2
          * (K * (Real.exp (ω * dt) * (1 + K * dt) * ‖x - y‖) + K * ‖x - y‖) := by gcongr
    _ = etd2Stab ω K dt * ‖x - y‖ := by unfold etd2Stab; ring

/-- `etd2Stab ω K h ≤ e^{(ω + K(3 + e^{ωT})/2) h}` for `0 ≤ h ≤ T` -/
theorem etd2Stab_le_exp (ω K h T : ℝ) (hω : 0 ≤ ω) (hK : 0 ≤ K) (hh : 0 ≤ h) (hT : h ≤ T) :
    etd2Stab ω K h ≤ Real.exp ((ω + K * (3 + Real.exp (ω * T)) / 2) * h) := by
  have hW : Real.exp (ω * h) ≤ Real.exp (ω * T) :=
    Real.exp_le_exp.mpr (mul_le_mul_of_nonneg_left hT hω)
  have hKh : 0 ≤ K * h := mul_nonneg hK hh
  have e1 : 1 + K * h ≤ Real.exp (K * h) := by have := Real.add_one_le_exp (K * h); linarith
  have e2 : 1 + K * h * Real.exp (ω * h) / 2 ≤ Real.exp (K * h * Real.exp (ω * T) / 2) := by
    have := Real.add_one_le_exp (K * h * Real.exp (ω * T) / 2)
    have h' : K * h * Real.exp (ω * h) / 2 ≤ K * h * Real.exp (ω * T) / 2 := by gcongr
    linarith
  have e3 : 1 + K * h / 2 ≤ Real.exp (K * h / 2) := by
    have := Real.add_one_le_exp (K * h / 2); linarith
  have hP1 : 1 ≤ (1 + K * h) * (1 + K * h * Real.exp (ω * h) / 2) := by
    have : 0 ≤ K * h * Real.exp (ω * h) / 2 := by positivity
    nlinarith
  unfold etd2Stab
  calc Real.exp (ω * h) * ((1 + K * h) * (1 + K * h * Real.exp (ω * h) / 2) + K * h / 2)
      ≤ Real.exp (ω * h) * (((1 + K * h) * (1 + K * h * Real.exp (ω * h) / 2)) * (1 + K * h / 2)) := by
        refine mul_le_mul_of_nonneg_left ?_ (Real.exp_pos _).le
        nlinarith
    _ ≤ Real.exp (ω * h) * ((Real.exp (K * h) * Real.exp (K * h * Real.exp (ω * T) / 2))
          * Real.exp (K * h / 2)) := by gcongr
    _ = Real.exp ((ω + K * (3 + Real.exp (ω * T)) / 2) * h) := by
        rw [← Real.exp_add, ← Real.exp_add, ← Real.exp_add]; congr 1; ring

theorem one_le_etd2Stab (ω K h : ℝ) (hω : 0 ≤ ω) (hK : 0 ≤ K) (hh : 0 ≤ h) : 1 ≤ etd2Stab ω K h := by
  unfold etd2Stab
  have h1 : 1 ≤ Real.exp (ω * h) := Real.one_le_exp (mul_nonneg hω hh)
  have h2 : 0 ≤ K * h := mul_nonneg hK hh
  have h3 : 0 ≤ K * h * Real.exp (ω * h) / 2 := by positivity
  have h4 : 1 ≤ (1 + K * h) * (1 + K * h * Real.exp (ω * h) / 2) + K * h / 2 := by nlinarith
  calc (1 : ℝ) = 1 * 1 := by ring
    _ ≤ _ := mul_le_mul h1 h4 zero_le_one (by linarith)

/-- explicit global constant of ETDRK2 -/
def etd2C (K M G ω T : ℝ) : ℝ :=
  T * (Real.exp (ω * T) * (K ^ 2 * M * Real.exp (ω * T) / 4 + 5 * G / 12))
    * Real.exp ((ω + K * (3 + Real.exp (ω * T)) / 2) * T)

/-- arithmetic at the end of the ETDRK2 convergence proof -/
theorem etd2_fan_arith (K M G ω T dt : ℝ) (n : ℕ) (hK : 0 ≤ K) (hM : 0 ≤ M) (hG : 0 ≤ G) (hω : 0 ≤ ω)
    (hdt : 0 ≤ dt) (hn : n * dt ≤ T) :
    n * (Real.exp (ω * T) * (K ^ 2 * M * Real.exp (ω * T) / 4 + 5 * G / 12) * dt ^ 3)
        * etd2Stab ω K dt ^ n ≤ etd2C K M G ω T * dt ^ 2 := by
  have hT : 0 ≤ T := le_trans (mul_nonneg (Nat.cast_nonneg n) hdt) hn
  rcases Nat.eq_zero_or_pos n with rfl | hnpos
  · simp only [Nat.cast_zero, zero_mul, pow_zero]
    unfold etd2C; positivity
  have hn1 : (1 : ℝ) ≤ n := by exact_mod_cast hnpos
  have hdtT : dt ≤ T := le_trans (by nlinarith) hn
  set Λ := ω + K * (3 + Real.exp (ω * T)) / 2 with hΛ
  have hΛ0 : 0 ≤ Λ := by positivity
  have hA0 : 0 ≤ etd2Stab ω K dt := le_trans zero_le_one (one_le_etd2Stab ω K dt hω hK hdt)
  have hAn : etd2Stab ω K dt ^ n ≤ Real.exp (Λ * T) := by
    calc etd2Stab ω K dt ^ n ≤ Real.exp (Λ * dt) ^ n :=
          pow_le_pow_left₀ hA0 (etd2Stab_le_exp ω K dt T hω hK hdt hdtT) n
      _ = Real.exp (n * (Λ * dt)) := by rw [Real.exp_nat_mul]
      _ ≤ Real.exp (Λ * T) := by
          refine Real.exp_le_exp.mpr ?_
          calc (n : ℝ) * (Λ * dt) = Λ * (n * dt) := by ring
            _ ≤ Λ * T := mul_le_mul_of_nonneg_left hn hΛ0
  set Cl := Real.exp (ω * T) * (K ^ 2 * M * Real.exp (ω * T) / 4 + 5 * G / 12) with hCl
  have hCl0 : 0 ≤ Cl := by positivity
  calc (n : ℝ) * (Cl * dt ^ 3) * etd2Stab ω K dt ^ n
      = (n * dt) * (Cl * dt ^ 2) * etd2Stab ω K dt ^ n := by ring
    _ ≤ T * (Cl * dt ^ 2) * Real.exp (Λ * T) := by gcongr
    _ = etd2C K M G ω T * dt ^ 2 := by unfold etd2C; ring

/-- **T6(iii): global error of ETDRK2** (the regenerated `E2step` with the exact coefficients) for a nonlinear
    `K`-Lipschitz `N`: second order, constant independent of `|λ|` -/
theorem etd2_global_error (l : ℂ) (N : ℂ → ℂ) (K : NNReal) (hN : LipschitzWith K N) (u : ℝ → ℂ)
    (T M ω G : ℝ) (hω : 0 ≤ ω) (hl : l.re ≤ ω) (hG : 0 ≤ G)
    (hu : ∀ t ∈ Set.Icc (0 : ℝ) T, HasDerivAt u (l * u t + N (u t)) t)
    (hM : ∀ t ∈ Set.Icc (0 : ℝ) T, ‖l * u t + N (u t)‖ ≤ M)
    (f' : ℝ → ℂ)
    (hTay : ∀ t s : ℝ, 0 ≤ t → 0 ≤ s → t + s ≤ T →
      ‖N (u (t + s)) - N (u t) - (s : ℂ) * f' t‖ ≤ G * s ^ 2 / 2)
    (n : ℕ) (dt : ℝ) (hdt : 0 ≤ dt) (hn : n * dt ≤ T) :
    ‖u (n * dt) - (E2step (Complex.exp (l * dt)) (dt * phi1e (l * dt)) (dt * phi2e (l * dt)) N)^[n] (u 0)‖
      ≤ etd2C K M G ω T * dt ^ 2 := by
  have hT : 0 ≤ T := le_trans (mul_nonneg (Nat.cast_nonneg n) hdt) hn
  have hM0 : 0 ≤ M := le_trans (norm_nonneg _) (hM 0 ⟨le_rfl, hT⟩)
  have hK : (0 : ℝ) ≤ K := K.coe_nonneg
  have hB0 : 0 ≤ Real.exp (ω * T) * (K ^ 2 * M * Real.exp (ω * T) / 4 + 5 * G / 12) * dt ^ 3 := by
    positivity
  have hfan := fan (E2step (Complex.exp (l * dt)) (dt * phi1e (l * dt)) (dt * phi2e (l * dt)) N)
    (fun k : ℕ => u (k * dt)) _ _ (one_le_etd2Stab ω K dt hω hK hdt) hB0 n
    (fun k hk => by
      have hk1 : ((k + 1 : ℕ) : ℝ) * dt ≤ T := by
        have : ((k + 1 : ℕ) : ℝ) ≤ n := by exact_mod_cast hk
        exact (mul_le_mul_of_nonneg_right this hdt).trans hn
      have hkt : ((k + 1 : ℕ) : ℝ) * dt = k * dt + dt := by push_cast; ring
      have hkdt : 0 ≤ (k : ℝ) * dt := mul_nonneg (Nat.cast_nonneg k) hdt
      have hdtT : dt ≤ T := by rw [hkt] at hk1; linarith
      have hloc := etd2_local_error l N K hN u T M ω G hω hl hu hM f' hTay (k * dt) dt hkdt hdt
        (by rw [← hkt]; exact hk1)
      have hW : Real.exp (ω * dt) ≤ Real.exp (ω * T) :=
        Real.exp_le_exp.mpr (mul_le_mul_of_nonneg_left hdtT hω)
      simp only [hkt]
      refine hloc.trans ?_
      gcongr)
    (fun x y => etd2_stable l N K hN ω dt hω hl hdt x y)
  simp only [Nat.cast_zero, zero_mul] at hfan
  exact hfan.trans (etd2_fan_arith K M G ω T dt n hK hM0 hG hω hdt hn)

/-! ### non-vacuity: `λ = −100`, `N v = i·v` (1-Lipschitz), `u t = e^{(−100+i)t}`, `f t = i·u t`,
    `f' t = i(−100+i) u t`, `G = 101²` -/
example : ∃ (l : ℂ) (N : ℂ → ℂ) (K : NNReal) (u f' : ℝ → ℂ) (T M ω G : ℝ), LipschitzWith K N ∧ 0 ≤ ω ∧
    l.re ≤ ω ∧ 0 ≤ G ∧ 0 < T ∧
    (∀ t ∈ Set.Icc (0 : ℝ) T, HasDerivAt u (l * u t + N (u t)) t) ∧
    (∀ t ∈ Set.Icc (0 : ℝ) T, ‖l * u t + N (u t)‖ ≤ M) ∧
    (∀ t s : ℝ, 0 ≤ t → 0 ≤ s → t + s ≤ T →
      ‖N (u (t + s)) - N (u t) - (s : ℂ) * f' t‖ ≤ G * s ^ 2 / 2) := by
  set c : ℂ := -100 + Complex.I with hc
  have hcn : ‖c‖ ≤ 101 := by
    refine (norm_add_le _ _).trans ?_
    simp; norm_num
  have hexp : ∀ t : ℝ, 0 ≤ t → ‖Complex.exp (c * t)‖ ≤ 1 := by
    intro t ht
    rw [Complex.norm_exp, Real.exp_le_one_iff]
    simp [hc]; nlinarith
  have hder : ∀ t : ℝ, HasDerivAt (fun t : ℝ => Complex.exp (c * t)) (c * Complex.exp (c * t)) t := by
    intro t
    have h := hasDerivAt_exp_mul c t
    exact h.congr_deriv (by ring)
  refine ⟨-100, fun v => Complex.I * v, 1, fun t => Complex.exp (c * t),
    fun t => Complex.I * (c * Complex.exp (c * t)), 1, 101, 0, 101 ^ 2, ?_, le_rfl, by simp, by norm_num,
    one_pos, ?_, ?_, ?_⟩
  · refine LipschitzWith.of_dist_le_mul (fun x y => ?_)
    rw [dist_eq_norm, dist_eq_norm, ← mul_sub, norm_mul, Complex.norm_I]
    simp
  · intro t _
    exact (hder t).congr_deriv (by simp only [hc]; ring)
  · intro t ht
    have h1 : -100 * Complex.exp (c * t) + Complex.I * Complex.exp (c * t) = c * Complex.exp (c * t) := by
      simp only [hc]; ring
    rw [h1, norm_mul]
    calc _ ≤ 101 * 1 := mul_le_mul hcn (hexp t ht.1) (norm_nonneg _) (by norm_num)
      _ = 101 := by ring
  · intro t s ht hs hts
    -- `f = i·u` has derivative `f' = i c u`, and `f'` is `101²`-Lipschitz on `[0,1]`
    have hf : ∀ x ∈ Set.Icc (0 : ℝ) 1,
        HasDerivAt (fun x : ℝ => Complex.I * Complex.exp (c * x))
          (Complex.I * (c * Complex.exp (c * x))) x := fun x _ => (hder x).const_mul _
    have hf'' : ∀ x : ℝ, HasDerivAt (fun x : ℝ => Complex.I * (c * Complex.exp (c * x)))
        (Complex.I * (c * (c * Complex.exp (c * x)))) x :=
      fun x => ((hder x).const_mul _).const_mul _
    have hbd : ∀ x ∈ Set.Icc (0 : ℝ) 1, ‖Complex.I * (c * (c * Complex.exp (c * x)))‖ ≤ 101 ^ 2 := by
      intro x hx
      rw [norm_mul, norm_mul, norm_mul, Complex.norm_I, one_mul]
      calc ‖c‖ * (‖c‖ * ‖Complex.exp (c * x)‖) ≤ 101 * (101 * 1) := by
            gcongr
            exact hexp x hx.1
        _ = 101 ^ 2 := by norm_num
    have hLip : ∀ x ∈ Set.Icc (0 : ℝ) 1, ∀ y ∈ Set.Icc (0 : ℝ) 1,
        ‖Complex.I * (c * Complex.exp (c * x)) - Complex.I * (c * Complex.exp (c * y))‖
          ≤ 101 ^ 2 * |x - y| := by
      intro x hx y hy
      have := Convex.norm_image_sub_le_of_norm_hasDerivWithin_le
        (f := fun x : ℝ => Complex.I * (c * Complex.exp (c * x)))
        (f' := fun x : ℝ => Complex.I * (c * (c * Complex.exp (c * x)))) (s := Set.Icc (0 : ℝ) 1)
        (fun z _ => (hf'' z).hasDerivWithinAt) hbd (convex_Icc 0 1) hy hx
      simpa [Real.norm_eq_abs] using this
    exact taylor_of_lipschitz_deriv (fun x : ℝ => Complex.I * Complex.exp (c * x))
      (fun x : ℝ => Complex.I * (c * Complex.exp (c * x))) 1 (101 ^ 2) hf hLip t s ht hs hts

end Exponax.LinearOrder
end
