import ExponaxModel.Proofs.AliasND3Basic
import ExponaxModel.Proofs.AliasND2Conv
import ExponaxModel.Proofs.NonlinFunsBasic
/-
C03, multi-channel bookkeeping (T2) and the single-channel non-conservative convection (T3).

**Model semantics for `C > 1` channels** (`Model/Nonlin.lean`), proved here as equalities of whole channel arrays:

  * `polynomial c C coeffs û`            acts CHANNEL-WISE: channel `ch < C` of the output is the (only) channel of
                                          `polynomial c 1 coeffs #[û_ch]`                     (`polynomial_channel`),
  * `gradientNorm c C scale zf û`        acts CHANNEL-WISE: channel `ch` is `½ Σ_d (∂_d u_ch)²` (its own mean removed
                                          with `zero_mode_fix`), i.e. `gradientNorm c 1 … #[û_ch]` (`gradientNorm_channel`);
                                          channels are NOT mixed (no sum over channels),
  * `convection c C scale true true û`   (single-channel flag, conservative) acts CHANNEL-WISE: `½ (Σ_d ∂_d) u_ch²`
                                                                                   (`convection_single_conservative_channel`),
  * `general c C s0 s1 s2 zf û`          is the sum of the three, hence CHANNEL-WISE   (`general_channel`),
  * every one of them returns exactly `C` channels (`*_size`).

Consequently the C-channel versions of `C03_polynomial_*_nd`, `C03_gradient_norm_nd`, `C03_general_nd` hold with the
single-channel right-hand side evaluated at the state of that channel (`*_channels` below).

T3: `convection_single_nc_nd` (+ `_explicit`): the property-ready statement for
`ConvectionNonlinearFun(single_channel=True, conservative=False)`, `−b·u·Σ_d ∂_d u`, every `D ≥ 1`
(the multi-channel `(u·∇)u` is `AliasND.convection_multi_nc_alias_free_nd(_explicit)`, already surfaced as
`C03_convection_nonconservative_nd`).
-/
set_option linter.unusedVariables false
namespace Exponax.AliasMulti
open Exponax Exponax.Layout Exponax.Transform Exponax.DFT Exponax.Nonlin Exponax.Alias Exponax.AliasND Finset

/-! ### array read-off helpers -/

theorem tabC_getD (nc : ℕ) (f : ℕ → Array ℂ) (i : ℕ) (hi : i < nc) : (tabC nc f).getD i #[] = f i :=
  Nonlin.tab_getD _ _ _ _ hi

theorem tab2_getD (nc n : ℕ) (f : ℕ → ℕ → ℂ) (i : ℕ) (hi : i < nc) :
    (tab2 nc n f).getD i #[] = tab n (f i) := Nonlin.tab_getD _ _ _ _ hi

theorem at2_eq (a : MC ℂ) (ch i : ℕ) : at2 a ch i = (a.getD ch #[]).getD i 0 := rfl

theorem at2_singleton (a : Array ℂ) (i : ℕ) : at2 (#[a] : MC ℂ) 0 i = a.getD i 0 := rfl

/-! ### the number of output channels -/

theorem polynomial_size (c : Cfg ℂ) (C : ℕ) (coeffs : List ℂ) (uh : MC ℂ) :
    (polynomial c C coeffs uh).size = C := by
  unfold polynomial tabC
  simp only [Nonlin.tab_size]

theorem gradientNorm_size (c : Cfg ℂ) (C : ℕ) (scale : ℂ) (zeroFix : Bool) (uh : MC ℂ) :
    (gradientNorm c C scale zeroFix uh).size = C := by
  unfold gradientNorm tab2
  simp only [Nonlin.tab_size]

theorem general_size (c : Cfg ℂ) (C : ℕ) (s0 s1 s2 : ℂ) (zeroFix : Bool) (uh : MC ℂ) :
    (general c C s0 s1 s2 zeroFix uh).size = C := by
  unfold general tab2
  simp only [Nonlin.tab_size]

/-- the single-channel non-conservative convection returns ONE channel whatever `C` is -/
theorem convection_single_nc_size (c : Cfg ℂ) (C : ℕ) (scale : ℂ) (uh : MC ℂ) :
    (convection c C scale true false uh).size = 1 := by
  unfold convection tab2
  simp only [↓reduceIte, Bool.false_eq_true, Nonlin.tab_size]

/-! ### channel locality (whole channel arrays, any `D`, any input) -/

/-- `PolynomialNonlinearFun` acts channel-wise -/
theorem polynomial_channel (c : Cfg ℂ) (C : ℕ) (coeffs : List ℂ) (uh : MC ℂ) (ch : ℕ) (hch : ch < C) :
    (polynomial c C coeffs uh).getD ch #[] = (polynomial c 1 coeffs #[uh.getD ch #[]]).getD 0 #[] := by
  unfold polynomial
  simp only []
  rw [tabC_getD _ _ _ hch, tabC_getD _ _ _ Nat.zero_lt_one]
  refine congrArg (nfft c) ?_
  apply Nonlin.tab_congr
  intro x _
  rw [at2_tabC _ _ _ _ hch, at2_tabC _ _ _ _ Nat.zero_lt_one]
  rfl

/-- single-channel-flag conservative convection `½ (Σ_d ∂_d) u_ch²` acts channel-wise -/
theorem convection_single_conservative_channel (c : Cfg ℂ) (C : ℕ) (scale : ℂ) (uh : MC ℂ) (ch : ℕ)
    (hch : ch < C) :
    (convection c C scale true true uh).getD ch #[]
      = (convection c 1 scale true true #[uh.getD ch #[]]).getD 0 #[] := by
  unfold convection
  simp only [↓reduceIte]
  rw [tab2_getD _ _ _ _ hch, tab2_getD _ _ _ _ Nat.zero_lt_one]
  apply Nonlin.tab_congr
  intro h _
  rw [at2_tabC _ _ _ _ hch, at2_tabC _ _ _ _ Nat.zero_lt_one]
  refine congrArg (fun a : Array ℂ => -scale * (qlit 1 2 * sumList ((List.range c.D).map fun d => deriv c d h)
    * a.getD h 0)) ?_
  refine congrArg (nfft c) ?_
  apply Nonlin.tab_congr
  intro x _
  rw [at2_tabC _ _ _ _ hch, at2_tabC _ _ _ _ Nat.zero_lt_one]
  rfl

/-- the canonical one-channel gradient-norm pipeline on a stored channel `a` -/
noncomputable def gnQ (c : Cfg ℂ) (a : Array ℂ) (x : ℕ) : ℂ :=
  sumList ((List.range c.D).map fun d => (dfield c a d).getD x 0 * (dfield c a d).getD x 0)

noncomputable def gnChan (c : Cfg ℂ) (scale : ℂ) (zeroFix : Bool) (a : Array ℂ) : Array ℂ :=
  tab (modes c) fun h => -scale * (qlit 1 2 * (nfft c (tab (gridSize c) fun x =>
    if zeroFix = true then gnQ c a x - sumRange (gridSize c) (gnQ c a) / lit (gridSize c) else gnQ c a x)).getD h 0)

theorem gradientNorm_getD (c : Cfg ℂ) (C : ℕ) (scale : ℂ) (zeroFix : Bool) (uh : MC ℂ) (ch : ℕ)
    (hch : ch < C) :
    (gradientNorm c C scale zeroFix uh).getD ch #[] = gnChan c scale zeroFix (uh.getD ch #[]) := by
  have hg : ∀ d, d < c.D → ∀ x, at2 (tabC (C * c.D) fun cd => nifft c (tab (modes c) fun k =>
        deriv c (cd % c.D) k * at2 uh (cd / c.D) k)) (ch * c.D + d) x
      = (dfield c (uh.getD ch #[]) d).getD x 0 := by
    intro d hd x
    have hlt : ch * c.D + d < C * c.D := by
      calc ch * c.D + d < ch * c.D + c.D := by omega
        _ = (ch + 1) * c.D := by ring
        _ ≤ C * c.D := Nat.mul_le_mul_right _ hch
    rw [at2_tabC _ _ _ _ hlt]
    have e1 : (ch * c.D + d) % c.D = d := by
      rw [Nat.add_comm, Nat.add_mul_mod_self_right, Nat.mod_eq_of_lt hd]
    have e2 : (ch * c.D + d) / c.D = ch := by
      rw [Nat.add_comm, Nat.add_mul_div_right _ _ (by omega : 0 < c.D), Nat.div_eq_of_lt hd, zero_add]
    rw [e1, e2]
    rfl
  have hQ : ∀ x, sumList ((List.range c.D).map fun d =>
        at2 (tabC (C * c.D) fun cd => nifft c (tab (modes c) fun k =>
          deriv c (cd % c.D) k * at2 uh (cd / c.D) k)) (ch * c.D + d) x *
        at2 (tabC (C * c.D) fun cd => nifft c (tab (modes c) fun k =>
          deriv c (cd % c.D) k * at2 uh (cd / c.D) k)) (ch * c.D + d) x)
      = gnQ c (uh.getD ch #[]) x := by
    intro x
    unfold gnQ
    apply NonlinFunsEq.sumList_range_congr
    intro d hd
    rw [hg d hd]
  unfold gradientNorm gnChan
  simp only []
  rw [tab2_getD _ _ _ _ hch]
  apply Nonlin.tab_congr
  intro h _
  rw [at2_tabC _ _ _ _ hch, tab2_getD _ _ _ _ hch]
  refine congrArg (fun a : Array ℂ => -scale * (qlit 1 2 * a.getD h 0)) ?_
  refine congrArg (nfft c) ?_
  apply Nonlin.tab_congr
  intro x hx
  have hq : ∀ y, y < gridSize c →
      at2 (tab2 C (gridSize c) fun ch x => sumList ((List.range c.D).map fun d =>
        at2 (tabC (C * c.D) fun cd => nifft c (tab (modes c) fun k =>
          deriv c (cd % c.D) k * at2 uh (cd / c.D) k)) (ch * c.D + d) x *
        at2 (tabC (C * c.D) fun cd => nifft c (tab (modes c) fun k =>
          deriv c (cd % c.D) k * at2 uh (cd / c.D) k)) (ch * c.D + d) x)) ch y
        = gnQ c (uh.getD ch #[]) y := by
    intro y hy
    rw [at2_tab2 _ _ _ _ _ hch hy, hQ]
  rw [hq x hx, Nonlin.tab_getD _ _ _ _ hch, NonlinFunsEq.sumRange_congr _ _ _ hq]

/-- `GradientNormNonlinearFun` acts channel-wise (no mixing of channels; each channel's own mean is removed) -/
theorem gradientNorm_channel (c : Cfg ℂ) (C : ℕ) (scale : ℂ) (zeroFix : Bool) (uh : MC ℂ) (ch : ℕ)
    (hch : ch < C) :
    (gradientNorm c C scale zeroFix uh).getD ch #[]
      = (gradientNorm c 1 scale zeroFix #[uh.getD ch #[]]).getD 0 #[] := by
  rw [gradientNorm_getD c C scale zeroFix uh ch hch,
    gradientNorm_getD c 1 scale zeroFix #[uh.getD ch #[]] 0 Nat.zero_lt_one]
  rfl

/-- `GeneralNonlinearFun` acts channel-wise -/
theorem general_channel (c : Cfg ℂ) (C : ℕ) (s0 s1 s2 : ℂ) (zeroFix : Bool) (uh : MC ℂ) (ch : ℕ)
    (hch : ch < C) :
    (general c C s0 s1 s2 zeroFix uh).getD ch #[]
      = (general c 1 s0 s1 s2 zeroFix #[uh.getD ch #[]]).getD 0 #[] := by
  unfold general
  simp only []
  rw [tab2_getD _ _ _ _ hch, tab2_getD _ _ _ _ Nat.zero_lt_one]
  apply Nonlin.tab_congr
  intro h _
  simp only [at2_eq]
  rw [polynomial_channel c C _ uh ch hch, convection_single_conservative_channel c C _ uh ch hch,
    gradientNorm_channel c C _ zeroFix uh ch hch]

/-! ### entrywise forms -/

theorem polynomial_channel_at2 (c : Cfg ℂ) (C : ℕ) (coeffs : List ℂ) (uh : MC ℂ) (ch : ℕ) (hch : ch < C)
    (h : ℕ) : at2 (polynomial c C coeffs uh) ch h = at2 (polynomial c 1 coeffs #[uh.getD ch #[]]) 0 h := by
  rw [at2_eq, at2_eq, polynomial_channel c C coeffs uh ch hch]

theorem gradientNorm_channel_at2 (c : Cfg ℂ) (C : ℕ) (scale : ℂ) (zeroFix : Bool) (uh : MC ℂ) (ch : ℕ)
    (hch : ch < C) (h : ℕ) :
    at2 (gradientNorm c C scale zeroFix uh) ch h
      = at2 (gradientNorm c 1 scale zeroFix #[uh.getD ch #[]]) 0 h := by
  rw [at2_eq, at2_eq, gradientNorm_channel c C scale zeroFix uh ch hch]

theorem general_channel_at2 (c : Cfg ℂ) (C : ℕ) (s0 s1 s2 : ℂ) (zeroFix : Bool) (uh : MC ℂ) (ch : ℕ)
    (hch : ch < C) (h : ℕ) :
    at2 (general c C s0 s1 s2 zeroFix uh) ch h
      = at2 (general c 1 s0 s1 s2 zeroFix #[uh.getD ch #[]]) 0 h := by
  rw [at2_eq, at2_eq, general_channel c C s0 s1 s2 zeroFix uh ch hch]

/-- a channel index `ch ≥ C` does not exist in the output (read as `0`) -/
theorem channels_out_of_range (c : Cfg ℂ) (C : ℕ) (coeffs : List ℂ) (scale s0 s1 s2 : ℂ) (zeroFix : Bool)
    (uh : MC ℂ) (ch : ℕ) (hch : C ≤ ch) (h : ℕ) :
    at2 (polynomial c C coeffs uh) ch h = 0 ∧ at2 (gradientNorm c C scale zeroFix uh) ch h = 0 ∧
    at2 (general c C s0 s1 s2 zeroFix uh) ch h = 0 := by
  refine ⟨?_, ?_, ?_⟩
  · unfold polynomial
    simp only []
    rw [at2_tabC_any, if_neg (by omega)]
  · unfold gradientNorm
    simp only []
    exact at2_tab2_of_le_ch _ _ _ _ _ hch
  · unfold general
    simp only []
    exact at2_tab2_of_le_ch _ _ _ _ _ hch

/-! ### T2 — the `C`-channel alias-free statements, every `D ≥ 1`

Real states `xs ch`, `û_ch = rfftnM D N (xs ch)` for `ch < C`. -/

/-- **polynomial, degree ≤ 2, `3·Kc < N`, `C` channels**: channel `ch` is
    `c0·N^D·[h=0] + c1·x̂_ch + c2·(X_ch ⋆ X_ch)` on retained modes, `0` on dropped modes -/
theorem polynomial_quadratic_alias_free_nd_channels (c : Cfg ℂ) (hD : 0 < c.D) (hq : c.fq ≠ 0)
    (hK : 3 * Kc c < (c.N : ℤ)) (hN : 0 < c.N) (C : ℕ) (c0 c1 c2 : ℂ) (uh : MC ℂ) (xs : ℕ → Array ℂ)
    (hx : ∀ ch, ch < C → IsRealND c.D c.N (xs ch))
    (huh : ∀ ch, ch < C → uh.getD ch #[] = rfftnM c.D c.N (xs ch))
    (ch : ℕ) (hch : ch < C) (h : ℕ) (hh : h < numModes c.D c.N) :
    (mask c h = 1 →
      at2 (polynomial c C [c0, c1, c2] uh) ch h
        = c0 * (if h = 0 then ((c.N ^ c.D : ℕ) : ℂ) else 0) + c1 * (rfftnM c.D c.N (xs ch)).getD h 0
          + c2 * linConv c.D c.N (Kc c) (dftV c.D c.N (xs ch)) (dftV c.D c.N (xs ch)) (kvec c.D c.N h))
    ∧ (mask c h = 0 → at2 (polynomial c C [c0, c1, c2] uh) ch h = 0) := by
  rw [polynomial_channel_at2 c C _ uh ch hch h, huh ch hch]
  exact polynomial_quadratic_alias_free_nd c hD hq hK hN c0 c1 c2 (xs ch) (hx ch hch) h hh

/-- **polynomial, degree ≤ 3, `4·Kc < N`, `C` channels** -/
theorem polynomial_cubic_alias_free_nd_channels (c : Cfg ℂ) (hD : 0 < c.D) (hq : c.fq ≠ 0)
    (hK : 4 * Kc c < (c.N : ℤ)) (hN : 0 < c.N) (C : ℕ) (c0 c1 c2 c3 : ℂ) (uh : MC ℂ) (xs : ℕ → Array ℂ)
    (hx : ∀ ch, ch < C → IsRealND c.D c.N (xs ch))
    (huh : ∀ ch, ch < C → uh.getD ch #[] = rfftnM c.D c.N (xs ch))
    (ch : ℕ) (hch : ch < C) (h : ℕ) (hh : h < numModes c.D c.N) :
    (mask c h = 1 →
      at2 (polynomial c C [c0, c1, c2, c3] uh) ch h
        = c0 * (if h = 0 then ((c.N ^ c.D : ℕ) : ℂ) else 0) + c1 * (rfftnM c.D c.N (xs ch)).getD h 0
          + c2 * linConv c.D c.N (Kc c) (dftV c.D c.N (xs ch)) (dftV c.D c.N (xs ch)) (kvec c.D c.N h)
          + c3 * linConv3 c.D c.N (Kc c) (dftV c.D c.N (xs ch)) (dftV c.D c.N (xs ch))
              (dftV c.D c.N (xs ch)) (kvec c.D c.N h))
    ∧ (mask c h = 0 → at2 (polynomial c C [c0, c1, c2, c3] uh) ch h = 0) := by
  rw [polynomial_channel_at2 c C _ uh ch hch h, huh ch hch]
  exact polynomial_cubic_alias_free_nd c hD hq hK hN c0 c1 c2 c3 (xs ch) (hx ch hch) h hh

/-- **gradient norm `½|∇u_ch|²`, `C` channels, both values of the zero-mode fix** -/
theorem gradientNorm_alias_free_nd_channels (c : Cfg ℂ) (hD : 0 < c.D) (hq : c.fq ≠ 0)
    (hK : 3 * Kc c < (c.N : ℤ)) (hN : 0 < c.N) (s : ℝ) (hs : c.s = (s : ℂ)) (C : ℕ) (scale : ℂ)
    (zeroFix : Bool) (uh : MC ℂ) (xs : ℕ → Array ℂ)
    (hx : ∀ ch, ch < C → IsRealND c.D c.N (xs ch))
    (huh : ∀ ch, ch < C → uh.getD ch #[] = rfftnM c.D c.N (xs ch))
    (ch : ℕ) (hch : ch < C) (h : ℕ) (hh : h < numModes c.D c.N) :
    (mask c h = 1 →
      at2 (gradientNorm c C scale zeroFix uh) ch h
        = if zeroFix = true ∧ h = 0 then 0 else
          -scale * (1 / 2) * ∑ d ∈ range c.D,
            linConv c.D c.N (Kc c) (dspec c d (xs ch)) (dspec c d (xs ch)) (kvec c.D c.N h))
    ∧ (mask c h = 0 → at2 (gradientNorm c C scale zeroFix uh) ch h = 0) := by
  rw [gradientNorm_channel_at2 c C scale zeroFix uh ch hch h, huh ch hch]
  exact gradientNorm_alias_free_nd c hD hq hK hN s hs scale zeroFix (xs ch) (hx ch hch) h hh

/-- **general term `s₀u² + s₁·½(Σ_d∂_d)(u²) + s₂·½|∇u|²`, `C` channels** (channel-wise) -/
theorem general_alias_free_nd_channels (c : Cfg ℂ) (hD : 0 < c.D) (hq : c.fq ≠ 0)
    (hK : 3 * Kc c < (c.N : ℤ)) (hN : 0 < c.N) (s : ℝ) (hs : c.s = (s : ℂ)) (C : ℕ) (s0 s1 s2 : ℂ)
    (zeroFix : Bool) (uh : MC ℂ) (xs : ℕ → Array ℂ)
    (hx : ∀ ch, ch < C → IsRealND c.D c.N (xs ch))
    (huh : ∀ ch, ch < C → uh.getD ch #[] = rfftnM c.D c.N (xs ch))
    (ch : ℕ) (hch : ch < C) (h : ℕ) (hh : h < numModes c.D c.N) :
    (mask c h = 1 →
      at2 (general c C s0 s1 s2 zeroFix uh) ch h
        = s0 * linConv c.D c.N (Kc c) (dftV c.D c.N (xs ch)) (dftV c.D c.N (xs ch)) (kvec c.D c.N h)
          + s1 * ((1 : ℂ) / 2 * (∑ d ∈ range c.D, deriv c d h) *
              linConv c.D c.N (Kc c) (dftV c.D c.N (xs ch)) (dftV c.D c.N (xs ch)) (kvec c.D c.N h))
          + (if zeroFix = true ∧ h = 0 then 0 else
              s2 * (1 / 2) * ∑ d ∈ range c.D,
                linConv c.D c.N (Kc c) (dspec c d (xs ch)) (dspec c d (xs ch)) (kvec c.D c.N h)))
    ∧ (mask c h = 0 → at2 (general c C s0 s1 s2 zeroFix uh) ch h = 0) := by
  rw [general_channel_at2 c C s0 s1 s2 zeroFix uh ch hch h, huh ch hch]
  exact general_alias_free_nd c hD hq hK hN s hs s0 s1 s2 zeroFix (xs ch) (hx ch hch) h hh

/-! ### T3 — single-channel NON-conservative convection `−b·u·Σ_d ∂_d u`, every `D ≥ 1` -/

/-- property-ready form of `AliasND.convection_single_nc_alias_free_nd` (one input channel `û = rfftn x`) -/
theorem convection_single_nc_nd (c : Cfg ℂ) (hD : 0 < c.D) (hq : c.fq ≠ 0) (hK : 3 * Kc c < (c.N : ℤ))
    (hN : 0 < c.N) (s : ℝ) (hs : c.s = (s : ℂ)) (scale : ℂ) (x : Array ℂ) (hx : IsRealND c.D c.N x)
    (h : ℕ) (hh : h < numModes c.D c.N) :
    (mask c h = 1 →
      at2 (convection c 1 scale true false #[rfftnM c.D c.N x]) 0 h
        = -scale * ∑ d ∈ range c.D,
            linConv c.D c.N (Kc c) (dftV c.D c.N x) (dspec c d x) (kvec c.D c.N h))
    ∧ (mask c h = 0 → at2 (convection c 1 scale true false #[rfftnM c.D c.N x]) 0 h = 0) :=
  convection_single_nc_alias_free_nd c hD hq hK hN s hs 1 Nat.zero_lt_one scale _ x hx rfl h hh

/-- the same with every sum and symbol written out:
    `−b · Σ_d N^{-D} Σ_{p ∈ box} X(p) · (i s (k_d(h) − p_d)) · X(k(h) − p)` -/
theorem convection_single_nc_nd_explicit (c : Cfg ℂ) (hD : 0 < c.D) (hq : c.fq ≠ 0)
    (hK : 3 * Kc c < (c.N : ℤ)) (hN : 0 < c.N) (s : ℝ) (hs : c.s = (s : ℂ)) (scale : ℂ) (x : Array ℂ)
    (hx : IsRealND c.D c.N x) (h : ℕ) (hh : h < numModes c.D c.N) :
    (mask c h = 1 →
      at2 (convection c 1 scale true false #[rfftnM c.D c.N x]) 0 h
        = -scale * ∑ d : Fin c.D,
            ((1 / ((c.N ^ c.D : ℕ) : ℂ)) * ∑ p ∈ box c.D (Kc c),
              truncV (Kc c) (dftV c.D c.N x) p *
                (Complex.I * (c.s * (((kvec c.D c.N h d - p d : ℤ)) : ℂ))
                  * truncV (Kc c) (dftV c.D c.N x) (kvec c.D c.N h - p))))
    ∧ (mask c h = 0 → at2 (convection c 1 scale true false #[rfftnM c.D c.N x]) 0 h = 0) := by
  have := convection_single_nc_nd c hD hq hK hN s hs scale x hx h hh
  refine ⟨fun hm => ?_, this.2⟩
  rw [this.1 hm]
  congr 1
  rw [← Fin.sum_univ_eq_sum_range (fun d => linConv c.D c.N (Kc c) (dftV c.D c.N x)
    (dspec c d x) (kvec c.D c.N h)) c.D]
  apply Finset.sum_congr rfl
  intro d _
  exact linConv_u_dspec_explicit c d x x _

/-- with `C ≥ 1` input channels only channel `0` is read and there is one output channel (the source's shape guard
    demands `C = 1` for this variant; the model is total) -/
theorem convection_single_nc_nd_any_channels (c : Cfg ℂ) (hD : 0 < c.D) (hq : c.fq ≠ 0)
    (hK : 3 * Kc c < (c.N : ℤ)) (hN : 0 < c.N) (s : ℝ) (hs : c.s = (s : ℂ)) (C : ℕ) (hC : 0 < C)
    (scale : ℂ) (uh : MC ℂ) (x : Array ℂ) (hx : IsRealND c.D c.N x)
    (huh : uh.getD 0 #[] = rfftnM c.D c.N x) (ch h : ℕ) (hh : h < numModes c.D c.N) :
    (ch = 0 → mask c h = 1 →
      at2 (convection c C scale true false uh) ch h
        = -scale * ∑ d ∈ range c.D,
            linConv c.D c.N (Kc c) (dftV c.D c.N x) (dspec c d x) (kvec c.D c.N h))
    ∧ (mask c h = 0 → at2 (convection c C scale true false uh) ch h = 0)
    ∧ (0 < ch → at2 (convection c C scale true false uh) ch h = 0) := by
  refine ⟨fun h0 hm => ?_, fun hm => convection_zero_off_band c C scale true false uh ch h hm, fun hc => ?_⟩
  · subst h0
    exact (convection_single_nc_alias_free_nd c hD hq hK hN s hs C hC scale uh x hx huh h hh).1 hm
  · unfold convection
    simp only [↓reduceIte, Bool.false_eq_true]
    exact at2_tab2_of_le_ch _ _ _ _ _ hc

end Exponax.AliasMulti
