import ExponaxModel.Proofs.InterpQueryBasic
/-
C15 support — the `FourierInterpolator` (`Interp.interpolate`) at an ARBITRARY real query point,
inside or outside the domain: for Nyquist-free band-limited states it returns the ANALYTIC value.

`K := ℂ`, `s = 2π/L` real (cast to `ℂ`), query point with real coordinates: either `cx x` for `x : List ℝ`
or any `x : List ℂ` whose first `D` coordinates have zero imaginary part.  All `D ≥ 1`, `N ≥ 1`.

  U1  `interpolate (modeField κ a φ) x = a cos(Σ_d s κ_d x_d + φ)` for `κ` strictly below Nyquist —
      uniformly in `κ` (`κ = 0`; `κ_last = 0` with its stored partner; `κ_last < 0`: all three are
      covered by `rfftnM_modeField` + `Wsum_eq_two`).  `s ≠ 0` is NOT needed.
  U2  `interpolate (stateOf ms) x = Σ_m a_m cos(s κ_m·x + φ_m)` (`trigPoly`).
  U3  `interpolate u (x + Σ_d m_d L e_d) = interpolate u x`, `L = 2π/s`, `m_d ∈ ℤ`, for EVERY `u`
      (also complex, not band-limited), every complex `s ≠ 0`, every complex `x`; needs no `D ≥ 1`/`N ≥ 1`.
      Hence the value at any real point equals the value at its wrapped image in `[0, L)^D`.
  U4  every real state whose transform vanishes at and above Nyquist is the grid sampling of a
      trigonometric polynomial, and its interpolant equals that polynomial at every real point.
  Sharpness: at the Nyquist wavenumber U1 is FALSE (`U1_fails_at_nyquist`).
-/
set_option linter.unusedVariables false
set_option linter.unusedSimpArgs false
namespace Exponax.Interp
open Exponax Exponax.Layout Exponax.Transform Exponax.DFT Exponax.ExactLinear Finset
open scoped ComplexConjugate

/-! ## U1 — one mode -/

/-- **U1** (query point with real coordinates, given as complex numbers). -/
theorem U1_interpolate_mode_of_real (D N : ℕ) (hD : 0 < D) (hN : 0 < N) (s : ℝ) (κ : List ℤ)
    (hκ : BelowNyquist D N κ) (a φ : ℝ) (x : List ℂ) (hx : ∀ d < D, (x.getD d 0).im = 0) :
    interpolate D N (s : ℂ) (modeField D N κ a φ) x
      = (((a * Real.cos ((∑ d ∈ range D, s * (κ.getD d 0 : ℝ) * (x.getD d 0).re) + φ) : ℝ)) : ℂ) :=
  interpolate_modeField_of_real D N hD hN s κ hκ a φ x hx

/-- **U1.**  The interpolant of the sampled mode `a cos(2π κ·j/N + φ)`, `κ` strictly below Nyquist, is
    `a cos(Σ_d s κ_d x_d + φ)` at EVERY real query point `x` (inside or outside the domain). -/
theorem U1_interpolate_mode (D N : ℕ) (hD : 0 < D) (hN : 0 < N) (s : ℝ) (κ : List ℤ)
    (hκ : BelowNyquist D N κ) (a φ : ℝ) (x : List ℝ) :
    interpolate D N (s : ℂ) (modeField D N κ a φ) (cx x)
      = (((a * Real.cos ((∑ d ∈ range D, s * (κ.getD d 0 : ℝ) * x.getD d 0) + φ) : ℝ)) : ℂ) := by
  rw [interpolate_modeField_of_real D N hD hN s κ hκ a φ (cx x) (fun d _ => cx_real x d), dotC_cx]

/-- U1, real and imaginary part -/
theorem U1_interpolate_mode_re_im (D N : ℕ) (hD : 0 < D) (hN : 0 < N) (s : ℝ) (κ : List ℤ)
    (hκ : BelowNyquist D N κ) (a φ : ℝ) (x : List ℝ) :
    (interpolate D N (s : ℂ) (modeField D N κ a φ) (cx x)).re
        = a * Real.cos ((∑ d ∈ range D, s * (κ.getD d 0 : ℝ) * x.getD d 0) + φ) ∧
      (interpolate D N (s : ℂ) (modeField D N κ a φ) (cx x)).im = 0 := by
  rw [U1_interpolate_mode D N hD hN s κ hκ a φ x]
  exact ⟨Complex.ofReal_re _, Complex.ofReal_im _⟩

/-- non-vacuity of U1: `κ_last < 0` (stored as its negative), `κ_last = 0` (stored with partner), `κ = 0` -/
example : BelowNyquist 2 4 [1, -1] := ⟨rfl, by intro d hd; interval_cases d <;> simp⟩
example : BelowNyquist 2 5 [-2, 0] := ⟨rfl, by intro d hd; interval_cases d <;> simp⟩
example : BelowNyquist 3 1 [0, 0, 0] := ⟨rfl, by intro d hd; interval_cases d <;> simp⟩

/-! ## U2 — superposition -/

/-- the trigonometric polynomial `Σ_m a_m cos(s κ_m·x + φ_m)` of a list of modes at a query point -/
noncomputable def trigPoly (D : ℕ) (s : ℝ) (ms : Modes) (x : List ℂ) : ℝ :=
  (ms.map (fun m => m.2.1 * Real.cos (dotC D s m.1 x + m.2.2))).sum

theorem trigPoly_nil (D : ℕ) (s : ℝ) (x : List ℂ) : trigPoly D s [] x = 0 := rfl

theorem trigPoly_cons (D : ℕ) (s : ℝ) (m : List ℤ × ℝ × ℝ) (ms : Modes) (x : List ℂ) :
    trigPoly D s (m :: ms) x = m.2.1 * Real.cos (dotC D s m.1 x + m.2.2) + trigPoly D s ms x := by
  simp only [trigPoly, List.map_cons, List.sum_cons]

/-- `trigPoly` written out for a real point -/
theorem trigPoly_cx (D : ℕ) (s : ℝ) (ms : Modes) (x : List ℝ) :
    trigPoly D s ms (cx x)
      = (ms.map (fun m => m.2.1 *
          Real.cos ((∑ d ∈ range D, s * (m.1.getD d 0 : ℝ) * x.getD d 0) + m.2.2))).sum := by
  unfold trigPoly
  congr 1
  apply List.map_congr_left
  intro m _
  rw [dotC_cx]

/-- **U2** (query point with real coordinates, given as complex numbers). -/
theorem U2_interpolate_stateOf_of_real (D N : ℕ) (hD : 0 < D) (hN : 0 < N) (s : ℝ) (ms : Modes)
    (hms : ∀ m ∈ ms, BelowNyquist D N m.1) (x : List ℂ) (hx : ∀ d < D, (x.getD d 0).im = 0) :
    interpolate D N (s : ℂ) (stateOf D N ms) x = ((trigPoly D s ms x : ℝ) : ℂ) := by
  induction ms with
  | nil =>
    rw [stateOf, List.map_nil, vsum_nil, interpolate_vzero D N hD hN, trigPoly_nil, Complex.ofReal_zero]
  | cons m ms ih =>
    have e : stateOf D N (m :: ms) = vadd (N ^ D) (modeField D N m.1 m.2.1 m.2.2) (stateOf D N ms) := rfl
    rw [e, interpolate_vadd D N hD hN, ih (fun m' hm' => hms m' (List.mem_cons_of_mem _ hm')),
      interpolate_modeField_of_real D N hD hN s m.1 (hms m List.mem_cons_self) m.2.1 m.2.2 x hx,
      trigPoly_cons, Complex.ofReal_add]

/-- **U2.**  The interpolant of `Σ_m a_m cos(2π κ_m·j/N + φ_m)` (all `κ_m` strictly below Nyquist) is
    `Σ_m a_m cos(Σ_d s κ_{m,d} x_d + φ_m)` at every real query point. -/
theorem U2_interpolate_stateOf (D N : ℕ) (hD : 0 < D) (hN : 0 < N) (s : ℝ) (ms : Modes)
    (hms : ∀ m ∈ ms, BelowNyquist D N m.1) (x : List ℝ) :
    interpolate D N (s : ℂ) (stateOf D N ms) (cx x)
      = (((ms.map (fun m => m.2.1 *
          Real.cos ((∑ d ∈ range D, s * (m.1.getD d 0 : ℝ) * x.getD d 0) + m.2.2))).sum : ℝ) : ℂ) := by
  rw [U2_interpolate_stateOf_of_real D N hD hN s ms hms (cx x) (fun d _ => cx_real x d), trigPoly_cx]

/-- non-vacuity of U2 -/
example : ∀ m ∈ ([([1, 1], 2, 0.5), ([-1, 0], 1, 0), ([0, 0], 3, 0)] : Modes), BelowNyquist 2 4 m.1 := by
  intro m hm
  simp only [List.mem_cons, List.mem_nil_iff, or_false] at hm
  rcases hm with rfl | rfl | rfl <;> exact ⟨rfl, by intro d hd; interval_cases d <;> simp⟩

/-! ## U3 — periodicity, query points outside the domain -/

/-- the phase factor does not see shifts by integer multiples of `L = 2π/s` -/
theorem exp_phase_shift (D : ℕ) (s : ℂ) (hs : s ≠ 0) (k : List ℤ) (x x' : List ℂ) (m : ℕ → ℤ)
    (h : ∀ d < D, x'.getD d 0 = x.getD d 0 + (m d : ℂ) * (2 * (Real.pi : ℂ) / s)) :
    Complex.exp (∑ d ∈ range D, Complex.I * (s * ((k.getD d 0 : ℤ) : ℂ)) * x'.getD d 0)
      = Complex.exp (∑ d ∈ range D, Complex.I * (s * ((k.getD d 0 : ℤ) : ℂ)) * x.getD d 0) := by
  have e : ∑ d ∈ range D, Complex.I * (s * ((k.getD d 0 : ℤ) : ℂ)) * x'.getD d 0
      = ∑ d ∈ range D, Complex.I * (s * ((k.getD d 0 : ℤ) : ℂ)) * x.getD d 0
        + ((∑ d ∈ range D, k.getD d 0 * m d : ℤ) : ℂ) * (2 * (Real.pi : ℂ) * Complex.I) := by
    rw [Int.cast_sum, Finset.sum_mul, ← Finset.sum_add_distrib]
    apply Finset.sum_congr rfl
    intro d hd
    rw [h d (Finset.mem_range.mp hd)]
    push_cast
    field_simp
  rw [e, Complex.exp_add, Complex.exp_int_mul_two_pi_mul_I, mul_one]

/-- **U3.**  The interpolant is `L`-periodic (`L = 2π/s`) in every coordinate, for EVERY state `u`:
    shifting coordinate `d` by `m_d · L` (`m_d ∈ ℤ`) does not change the value. -/
theorem U3_interpolate_periodic (D N : ℕ) (s : ℂ) (hs : s ≠ 0) (u : Array ℂ) (x x' : List ℂ) (m : ℕ → ℤ)
    (h : ∀ d < D, x'.getD d 0 = x.getD d 0 + (m d : ℂ) * (2 * (Real.pi : ℂ) / s)) :
    interpolate D N s u x' = interpolate D N s u x := by
  unfold interpolate
  simp only [hasRe_complex, hasExp_complex, hasI_complex, sumRange_eq, sumList_eq, list_range_map_sum]
  congr 2
  apply Finset.sum_congr rfl
  intro h' _
  congr 1
  exact exp_phase_shift D s hs (wnFlat D N h') x x' m h

/-- U3 for one axis: `x + L·e_{d₀}` -/
theorem U3_interpolate_shift_axis (D N : ℕ) (s : ℂ) (hs : s ≠ 0) (u : Array ℂ) (x : List ℂ) (d₀ : ℕ) :
    interpolate D N s u (x.set d₀ (x.getD d₀ 0 + 2 * (Real.pi : ℂ) / s)) = interpolate D N s u x := by
  apply U3_interpolate_periodic D N s hs u x _ (fun d => if d = d₀ ∧ d₀ < x.length then 1 else 0)
  intro d _
  simp only [List.getD_eq_getElem?_getD, List.getElem?_set]
  by_cases hd : d₀ = d
  · subst hd
    by_cases hl : d₀ < x.length
    · simp [hl]
    · simp [hl, List.getElem?_eq_none (not_lt.mp hl)]
  · have hd' : ¬ d = d₀ := fun h => hd h.symm
    simp [hd, hd']

/-- the wrapped image of a real point: `x_d - L ⌊x_d / L⌋`, `L = 2π/s` -/
noncomputable def wrapPt (s : ℝ) (x : List ℝ) : List ℝ :=
  List.map (fun t : ℝ => t - (2 * Real.pi / s) * (⌊t / (2 * Real.pi / s)⌋ : ℝ)) x

theorem wrapPt_getD (s : ℝ) (x : List ℝ) (d : ℕ) :
    (wrapPt s x).getD d 0
      = x.getD d 0 - (2 * Real.pi / s) * (⌊x.getD d 0 / (2 * Real.pi / s)⌋ : ℝ) := by
  unfold wrapPt
  rw [List.getD_eq_getElem?_getD, List.getD_eq_getElem?_getD, List.getElem?_map]
  cases x[d]? <;> simp

/-- for `s > 0` the wrapped image lies in the domain `[0, L)^D` -/
theorem wrapPt_mem (s : ℝ) (hs : 0 < s) (x : List ℝ) (d : ℕ) :
    0 ≤ (wrapPt s x).getD d 0 ∧ (wrapPt s x).getD d 0 < 2 * Real.pi / s := by
  rw [wrapPt_getD]
  have hL : 0 < 2 * Real.pi / s := div_pos (by positivity) hs
  set L := 2 * Real.pi / s with hLdef
  set t := x.getD d 0 with ht
  have h1 := Int.floor_le (t / L)
  have h2 := Int.lt_floor_add_one (t / L)
  have h3 : t = L * (t / L) := by field_simp
  constructor
  · have := mul_le_mul_of_nonneg_left h1 hL.le
    linarith
  · have := mul_lt_mul_of_pos_left h2 hL
    linarith

/-- **U3 (wrapping).**  For every state `u`, the value of the interpolant at any real point — inside or
    outside the domain — is its value at the wrapped image of the point (which lies in `[0, L)^D` when `s > 0`,
    `wrapPt_mem`). -/
theorem U3_interpolate_wrap (D N : ℕ) (s : ℝ) (hs : s ≠ 0) (u : Array ℂ) (x : List ℝ) :
    interpolate D N (s : ℂ) u (cx x) = interpolate D N (s : ℂ) u (cx (wrapPt s x)) := by
  symm
  apply U3_interpolate_periodic D N (s : ℂ) (by exact_mod_cast hs) u (cx x) _
    (fun d => -⌊x.getD d 0 / (2 * Real.pi / s)⌋)
  intro d _
  rw [cx_getD, cx_getD, wrapPt_getD]
  push_cast
  ring

example : ∃ s : ℝ, 0 < s ∧ s ≠ 0 := ⟨1, one_pos, one_ne_zero⟩

/-! ## U4 — every real band-limited state -/

/-- at a grid point the real phase `s κ·x_j` is `2π (κ·j)/N` -/
theorem dotC_gridPoint (D N : ℕ) (s : ℝ) (hs : s ≠ 0) (κ : List ℤ) (j : ℕ) :
    dotC D s κ (gridPoint D N (s : ℂ) j) = 2 * Real.pi * ((phaseK D N κ j : ℤ) : ℝ) / N := by
  unfold dotC
  rw [phaseK_eq_sum]
  push_cast
  rw [Finset.mul_sum, Finset.sum_div]
  apply Finset.sum_congr rfl
  intro d hd
  rw [gridPoint_getD D N (s : ℂ) j d (Finset.mem_range.mp hd)]
  have e : (2 * (Real.pi : ℂ) / (s : ℂ)) * ((digit D N j d : ℕ) : ℂ) / (N : ℂ)
      = ((2 * Real.pi / s * (digit D N j d : ℕ) / N : ℝ) : ℂ) := by
    push_cast; ring
  rw [e, Complex.ofReal_re]
  field_simp

/-- the grid points are real -/
theorem gridPoint_real (D N : ℕ) (s : ℝ) (j d : ℕ) (hd : d < D) :
    ((gridPoint D N (s : ℂ) j).getD d 0).im = 0 := by
  rw [gridPoint_getD D N (s : ℂ) j d hd]
  have e : (2 * (Real.pi : ℂ) / (s : ℂ)) * ((digit D N j d : ℕ) : ℂ) / (N : ℂ)
      = ((2 * Real.pi / s * (digit D N j d : ℕ) / N : ℝ) : ℂ) := by
    push_cast; ring
  rw [e, Complex.ofReal_im]

/-- the grid samples of the trigonometric polynomial are the state `stateOf` -/
theorem trigPoly_gridPoint (D N : ℕ) (s : ℝ) (hs : s ≠ 0) (ms : Modes) (j : ℕ) (hj : j < N ^ D) :
    ((trigPoly D s ms (gridPoint D N (s : ℂ) j) : ℝ) : ℂ) = (stateOf D N ms).getD j 0 := by
  rw [stateOf_getD D N ms j hj]
  congr 1
  unfold trigPoly
  congr 1
  apply List.map_congr_left
  intro m _
  rw [dotC_gridPoint D N s hs]

/-- the band-limit hypothesis of U4, written out: the stored spectrum vanishes wherever some component of
    the wave vector is at (or above) Nyquist -/
theorem bandLimited_iff (D N : ℕ) (u : Array ℂ) :
    BandLimited D N u ↔ ∀ h < numModes D N,
      (∃ d < D, (N : ℤ) ≤ 2 * |(wnFlat D N h).getD d 0|) → (rfftnM D N u).getD h 0 = 0 := by
  unfold BandLimited
  constructor
  · intro hb h hh ⟨d, hd, hge⟩
    apply hb h hh
    intro hB
    have := hB.2 d hd
    omega
  · intro hb h hh hnB
    apply hb h hh
    by_contra hcon
    apply hnB
    refine ⟨wnFlat_length D N h, ?_⟩
    intro d hd
    by_contra hge
    exact hcon ⟨d, hd, by omega⟩

/-- **U4.**  For every real grid state `u` whose transform vanishes at and above Nyquist there is a
    trigonometric polynomial `T(x) = Σ_m a_m cos(s κ_m·x + φ_m)` (all `κ_m` strictly below Nyquist) such
    that `u` is the grid sampling of `T` and the interpolant of `u` equals `T` at EVERY real point. -/
theorem U4_interpolate_bandLimited (D N : ℕ) (hD : 0 < D) (hN : 0 < N) (s : ℝ) (hs : s ≠ 0)
    (u : Array ℂ) (hsz : u.size = N ^ D) (hre : ∀ j < N ^ D, (u.getD j 0).im = 0)
    (hb : BandLimited D N u) :
    ∃ ms : Modes, (∀ m ∈ ms, BelowNyquist D N m.1) ∧ u = stateOf D N ms ∧
      (∀ j < N ^ D, u.getD j 0 = ((trigPoly D s ms (gridPoint D N (s : ℂ) j) : ℝ) : ℂ)) ∧
      (∀ x : List ℂ, (∀ d < D, (x.getD d 0).im = 0) →
        interpolate D N (s : ℂ) u x = ((trigPoly D s ms x : ℝ) : ℂ)) ∧
      (∀ x : List ℝ, interpolate D N (s : ℂ) u (cx x)
        = (((ms.map (fun m => m.2.1 *
            Real.cos ((∑ d ∈ range D, s * (m.1.getD d 0 : ℝ) * x.getD d 0) + m.2.2))).sum : ℝ) : ℂ)) := by
  obtain ⟨ms, hms, rfl⟩ := exists_modes_of_bandLimited D N hD hN u hsz hre hb
  refine ⟨ms, hms, rfl, ?_, ?_, ?_⟩
  · intro j hj
    rw [trigPoly_gridPoint D N s hs ms j hj]
  · intro x hx
    exact U2_interpolate_stateOf_of_real D N hD hN s ms hms x hx
  · intro x
    exact U2_interpolate_stateOf D N hD hN s ms hms x

/-- U4 combined with U3: the value at any real point, inside or outside the domain, is the value of the
    trigonometric polynomial at the wrapped point in `[0, L)^D` as well -/
theorem U4_interpolate_bandLimited_wrap (D N : ℕ) (hD : 0 < D) (hN : 0 < N) (s : ℝ) (hs : s ≠ 0)
    (u : Array ℂ) (hsz : u.size = N ^ D) (hre : ∀ j < N ^ D, (u.getD j 0).im = 0)
    (hb : BandLimited D N u) :
    ∃ ms : Modes, (∀ m ∈ ms, BelowNyquist D N m.1) ∧ u = stateOf D N ms ∧
      ∀ x : List ℝ, interpolate D N (s : ℂ) u (cx x) = ((trigPoly D s ms (cx x) : ℝ) : ℂ) ∧
        trigPoly D s ms (cx x) = trigPoly D s ms (cx (wrapPt s x)) := by
  obtain ⟨ms, hms, hu, _, hx, _⟩ := U4_interpolate_bandLimited D N hD hN s hs u hsz hre hb
  refine ⟨ms, hms, hu, fun x => ⟨hx (cx x) (fun d _ => cx_real x d), ?_⟩⟩
  have h1 := hx (cx x) (fun d _ => cx_real x d)
  have h2 := hx (cx (wrapPt s x)) (fun d _ => cx_real _ d)
  rw [U3_interpolate_wrap D N s hs u x, h2] at h1
  exact_mod_cast h1.symm

/-- non-vacuity of U4 -/
example : ∃ (s : ℝ) (u : Array ℂ), s ≠ 0 ∧ u.size = 4 ^ 2 ∧ (∀ j < 4 ^ 2, (u.getD j 0).im = 0) ∧
    BandLimited 2 4 u := by
  have hms : ∀ m ∈ ([([1, 1], 2, 0.5)] : Modes), BelowNyquist 2 4 m.1 := by
    intro m hm
    simp only [List.mem_cons, List.mem_nil_iff, or_false] at hm
    subst hm
    exact ⟨rfl, by intro d hd; interval_cases d <;> simp⟩
  exact ⟨1, stateOf 2 4 [([1, 1], 2, 0.5)], one_ne_zero, by simp, stateOf_real 2 4 _,
    bandLimited_stateOf 2 4 (by norm_num) (by norm_num) _ hms⟩

/-! ## sharpness: U1 fails AT the Nyquist wavenumber -/

/-- `D = 1`, `N = 2`, `κ = 1 = N/2`, `φ = π/2`: the samples `cos(π j + π/2)` all vanish -/
theorem modeField_nyquist_zero : modeField 1 2 [1] 1 (Real.pi / 2) = vzero (2 ^ 1) := by
  apply array_ext_getD _ _ (2 ^ 1) (by simp) (by simp)
  intro j hj
  rw [modeField_getD 1 2 [1] 1 _ j hj, vzero_getD, phaseK_eq_sum, Finset.sum_range_one]
  have hj' : j < 2 := by simpa using hj
  rw [digit_one_of_lt 2 j hj']
  interval_cases j
  · simp
  · have : 2 * Real.pi * ((((([1] : List ℤ).getD 0 0 * ((1 : ℕ) : ℤ)) : ℤ)) : ℝ) / ((2 : ℕ) : ℝ) + Real.pi / 2
        = Real.pi / 2 + Real.pi := by
      simp; ring
    rw [this, Real.cos_add_pi, Real.cos_pi_div_two]
    simp

/-- **U1 is FALSE at Nyquist**: for `N = 2`, `κ = 1`, `a = 1`, `φ = π/2`, `s = 1`, `x = π/2` the interpolant is
    `0` while `a cos(s κ x + φ) = cos π = -1` -/
theorem U1_fails_at_nyquist :
    interpolate 1 2 ((1 : ℝ) : ℂ) (modeField 1 2 [1] 1 (Real.pi / 2)) (cx [Real.pi / 2])
      ≠ (((1 * Real.cos ((∑ d ∈ range 1, (1 : ℝ) * ((([1] : List ℤ).getD d 0 : ℤ) : ℝ)
          * ([Real.pi / 2] : List ℝ).getD d 0) + Real.pi / 2) : ℝ)) : ℂ) := by
  rw [modeField_nyquist_zero, interpolate_vzero 1 2 Nat.one_pos (by norm_num), Finset.sum_range_one]
  have : (1 : ℝ) * ((([1] : List ℤ).getD 0 0 : ℤ) : ℝ) * ([Real.pi / 2] : List ℝ).getD 0 0 + Real.pi / 2
      = Real.pi := by
    simp
  rw [this, Real.cos_pi]
  norm_num

/-- `κ = N/2` is exactly what `BelowNyquist` excludes -/
example : ¬ BelowNyquist 1 2 [1] := by
  intro h
  have := h.2 0 Nat.one_pos
  simp at this

end Exponax.Interp
