import Mathlib.Tactic
import ExponaxModel.Proofs.LoopsLemmas
import ExponaxModel.Model.Loops
import ExponaxModel.Generated.LoopsGen
/-
The definitions regenerated from `exponax/_utils.py` (`rollout`, `repeat`, `stack_sub_trajectories`) and
`exponax/_repeated_stepper.py` (`Generated/LoopsGen.lean`) are equal to the hand-written model
(`Model/Loops.lean`); `jax.lax.scan` is the fold `Gen.Prelude.lax_scan`.
-/
set_option linter.unusedVariables false
namespace Exponax.Gen.LoopsGen
open Exponax Exponax.Gen.Prelude Exponax.Loops

theorem generated_loops_pinned : generated_loops =
    ["rollout_noaux", "rollout_aux_constant", "rollout_aux_sequence", "repeat_noaux", "repeat_aux_constant",
     "repeat_aux_sequence", "stack_sub_trajectories", "RepeatedStepper_step_fourier", "RepeatedStepper_dt"] := rfl

variable {S A : Type}

/-! ### `lax_scan` of the scan bodies of `rollout` / `repeat` -/

theorem scan_rollout_noaux (f : S → S) (n : ℕ) (u : S) :
    (lax_scan (fun (u : S) (x_ : Unit) => let u_next := f u; (u_next, u_next)) u (List.replicate n ())).2
      = scanStates f n u := by
  induction n generalizing u with
  | zero => rfl
  | succ n ih =>
    rw [List.replicate_succ, lax_scan, scanStates]
    simp only [ih]

theorem scan_repeat_noaux (f : S → S) (n : ℕ) (u : S) :
    (lax_scan (fun (u : S) (x_ : Unit) => let u_next := f u; (u_next, ())) u (List.replicate n ())).1
      = repeatN f n u := by
  induction n generalizing u with
  | zero => rfl
  | succ n ih =>
    rw [List.replicate_succ, lax_scan, repeatN]
    simp only [ih]

theorem scan_rollout_aux (f : S → A → S) (xs : List A) (u : S) :
    (lax_scan (fun (u : S) (aux : A) => let u_next := f u aux; (u_next, u_next)) u xs).2
      = scanStatesAux f xs u := by
  induction xs generalizing u with
  | nil => rfl
  | cons a as ih =>
    rw [lax_scan, scanStatesAux]
    simp only [ih]

theorem scan_repeat_aux (f : S → A → S) (xs : List A) (u : S) :
    (lax_scan (fun (u : S) (aux : A) => let u_next := f u aux; (u_next, ())) u xs).1 = xs.foldl f u := by
  induction xs generalizing u with
  | nil => rfl
  | cons a as ih =>
    rw [lax_scan, List.foldl_cons]
    simp only [ih]

theorem scan_map {X Y : Type} (g : X → Y) (xs : List X) :
    (lax_scan (fun (c_ : Unit) (i : X) => (c_, g i)) () xs).2 = xs.map g := by
  induction xs with
  | nil => rfl
  | cons a as ih =>
    rw [lax_scan, List.map_cons]
    simp only [ih]

theorem constant_aux_eq (n : ℕ) (a : A) :
    List.flatMap (fun a => List.replicate n a) [a] = List.replicate n a := by simp

theorem model_constant_aux (n : ℕ) (a : A) :
    (List.replicate n ([a].head?)).filterMap id = List.replicate n a := by
  induction n with
  | zero => rfl
  | succ n ih => simp [List.replicate_succ] at ih ⊢

/-! ### `rollout` -/

/-- **`rollout(f, n, include_init=b)(u0)`** -/
theorem rollout_noaux_eq (f : S → S) (n : ℕ) (b : Bool) (u0 : S) :
    rollout_noaux f n b u0 = Loops.rollout f n b u0 := by
  unfold rollout_noaux Loops.rollout
  simp only [scan_rollout_noaux]
  cases b <;> rfl

/-- **`rollout(f, n, include_init=b, takes_aux=True, constant_aux=True)(u0, a)`** -/
theorem rollout_aux_constant_eq (f : S → A → S) (n : ℕ) (b : Bool) (u0 : S) (a : A) :
    rollout_aux_constant f n b u0 a = some (Loops.rolloutAux f n b true u0 [a]) := by
  unfold rollout_aux_constant Loops.rolloutAux lax_scan_length
  simp only [constant_aux_eq, List.length_replicate, if_true, Option.bind_some, scan_rollout_aux,
    model_constant_aux]
  cases b <;> rfl

/-- **`rollout(…, takes_aux=True, constant_aux=False)(u0, aux)`** when `aux` has exactly `n` entries
    (`_partial`: for other lengths `jax.lax.scan(..., length=n)` raises, see `rollout_aux_sequence_none`, whereas
    the model consumes `aux.take n`) -/
theorem rollout_aux_sequence_eq_partial (f : S → A → S) (n : ℕ) (b : Bool) (u0 : S) (aux : List A)
    (h : aux.length = n) :
    rollout_aux_sequence f n b u0 aux = some (Loops.rolloutAux f n b false u0 aux) := by
  unfold rollout_aux_sequence Loops.rolloutAux lax_scan_length
  have ht : aux.take n = aux := by rw [← h]; exact List.take_length
  simp only [h, if_true, Option.bind_some, scan_rollout_aux, Bool.false_eq_true, if_false, ht]
  cases b <;> rfl

theorem rollout_aux_sequence_none (f : S → A → S) (n : ℕ) (b : Bool) (u0 : S) (aux : List A)
    (h : aux.length ≠ n) : rollout_aux_sequence f n b u0 aux = none := by
  unfold rollout_aux_sequence lax_scan_length
  simp [h]

/-! ### `repeat` -/

/-- **`repeat(f, n)(u0)`** -/
theorem repeat_noaux_eq (f : S → S) (n : ℕ) (u0 : S) : repeat_noaux f n u0 = Loops.repeatN f n u0 := by
  unfold repeat_noaux
  simp only [scan_repeat_noaux]

/-- **`repeat(f, n, takes_aux=True, constant_aux=True)(u0, a)`** -/
theorem repeat_aux_constant_eq (f : S → A → S) (n : ℕ) (u0 : S) (a : A) :
    repeat_aux_constant f n u0 a = some (Loops.repeatAux f n true u0 [a]) := by
  unfold repeat_aux_constant Loops.repeatAux lax_scan_length
  simp only [constant_aux_eq, List.length_replicate, if_true, Option.bind_some, scan_repeat_aux, model_constant_aux]

/-- **`repeat(…, takes_aux=True, constant_aux=False)(u0, aux)`** when `aux` has exactly `n` entries (`_partial`) -/
theorem repeat_aux_sequence_eq_partial (f : S → A → S) (n : ℕ) (u0 : S) (aux : List A) (h : aux.length = n) :
    repeat_aux_sequence f n u0 aux = some (Loops.repeatAux f n false u0 aux) := by
  unfold repeat_aux_sequence Loops.repeatAux lax_scan_length
  have ht : aux.take n = aux := by rw [← h]; exact List.take_length
  simp only [h, if_true, Option.bind_some, scan_repeat_aux, Bool.false_eq_true, if_false, ht]

theorem repeat_aux_sequence_none (f : S → A → S) (n : ℕ) (u0 : S) (aux : List A) (h : aux.length ≠ n) :
    repeat_aux_sequence f n u0 aux = none := by
  unfold repeat_aux_sequence lax_scan_length
  simp [h]

/-! ### `stack_sub_trajectories` -/

/-- inside the range the clamped start index of `dynamic_slice_in_dim` is the index itself -/
theorem dynamic_slice_in_range (trj : List S) (i k : ℕ) (h : i + k ≤ trj.length) :
    dynamic_slice_in_dim trj i k = (trj.drop i).take k := by
  unfold dynamic_slice_in_dim
  rw [Nat.min_eq_left (by omega)]

/-- **`stack_sub_trajectories(trj, sub_len)`** (including the rejected case) -/
theorem stack_sub_trajectories_eq (trj : List S) (k : ℕ) :
    stack_sub_trajectories trj k = Loops.stackSub trj k := by
  unfold stack_sub_trajectories Loops.stackSub
  simp only [List.map_cons, List.map_nil, List.getD_cons_zero]
  have h1 : ([trj.length] : List ℕ).eraseDups.length = 1 := by simp [List.eraseDups_cons]
  simp only [h1, ne_eq, not_true_eq_false, if_false, Option.bind_some]
  by_cases hk : k > trj.length
  · simp [hk]
  · simp only [hk, if_false]
    have hn : Int.toNat ((trj.length : ℤ) - (k : ℤ) + 1) = trj.length - k + 1 := by omega
    rw [hn, scan_map (fun i => dynamic_slice_in_dim trj i k)]
    congr 1
    apply List.map_congr_left
    intro i hi
    have hi' : i < trj.length - k + 1 := List.mem_range.mp hi
    exact dynamic_slice_in_range trj i k (by omega)

/-! ### `RepeatedStepper` -/

/-- **`RepeatedStepper.step_fourier`** -/
theorem RepeatedStepper_step_fourier_eq (stepFourier : S → S) (numSubSteps : ℕ) (uHat : S) :
    RepeatedStepper_step_fourier numSubSteps stepFourier uHat
      = Loops.repeatedStepFourier stepFourier numSubSteps uHat := by
  unfold RepeatedStepper_step_fourier Loops.repeatedStepFourier
  exact repeat_noaux_eq _ _ _

/-- **`RepeatedStepper.dt`** -/
theorem RepeatedStepper_dt_eq {K : Type} [Mul K] [NatCast K] (dt : K) (numSubSteps : ℕ) :
    RepeatedStepper_dt dt numSubSteps = Loops.repeatedDt dt numSubSteps := rfl

end Exponax.Gen.LoopsGen
