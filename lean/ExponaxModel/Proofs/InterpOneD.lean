import ExponaxModel.Proofs.InterpBasic
/-
C15 support — `map_between_resolutions` in one dimension: the new half spectrum, the pointwise
formula of the mapped field, exactness (trigonometric interpolant) on band-limited states.
-/
set_option linter.unusedVariables false
set_option linter.unusedSimpArgs false
set_option linter.unusedTactic false
set_option linter.unreachableTactic false
namespace Exponax.Interp
open Exponax Exponax.Layout Exponax.Transform Exponax.DFT Finset

theorem srcIndex_one (Nold Nnew h' : ℕ) (hh : h' < Nnew / 2 + 1) :
    srcIndex 1 Nold Nnew [h'] = if h' < min Nold Nnew / 2 + 1 then some [h'] else none := by
  have := srcAxis_last Nold Nnew h' hh
  simp only [srcIndex, wavenumberShape, List.range_succ, List.range_zero, List.nil_append,
    List.foldr_cons, List.foldr_nil, Nat.sub_self, List.replicate_zero, List.getD_cons_zero,
    zero_add, beq_self_eq_true, this]
  split_ifs <;> rfl

theorem oddball_one (N h : ℕ) (hh : h ≤ N / 2) :
    oddball N (wnFlat 1 N h) = false ↔ (N % 2 = 0 ∧ h = N / 2) := by
  rw [wnFlat_one]
  by_cases he : N % 2 = 0
  · have := oddball_even_iff N [(h : ℤ)] he
    rw [← Bool.not_eq_true, this]
    simp only [List.mem_singleton, forall_eq, Nat.abs_cast]
    constructor
    · intro h1; exact ⟨he, by omega⟩
    · rintro ⟨_, h2⟩; omega
  · rw [oddball_odd N _ (by omega)]
    simp [he]

/-- the new half spectrum in 1-D -/
theorem mapSpectrum_one_getD (Nold Nnew : ℕ) (hne : Nold ≠ Nnew) (ob : Bool) (uh : Array ℂ) (h' : ℕ)
    (hh : h' ≤ Nnew / 2) :
    (mapSpectrum 1 Nold Nnew ob uh).getD h' 0 =
      if h' ≤ min Nold Nnew / 2 ∧ ¬ (ob = true ∧ min Nold Nnew % 2 = 0 ∧ h' = min Nold Nnew / 2)
      then uh.getD h' 0 / (Nold : ℂ) * (Nnew : ℂ) else 0 := by
  rw [mapSpectrum_getD 1 Nold Nnew ob uh h' (by rw [numModes_one]; omega)]
  have hun : unflatten (wavenumberShape 1 Nnew) h' = [h'] := by
    simp [wavenumberShape, unflatten, shapeSize]
  rw [hun, srcIndex_one Nold Nnew h' (by omega)]
  by_cases hband : h' < min Nold Nnew / 2 + 1
  · rw [if_pos hband]
    have hfl : flatten (wavenumberShape 1 Nold) [h'] = h' := by
      simp [wavenumberShape, flatten, shapeSize]
    simp only [hfl]
    have hho : h' ≤ Nold / 2 := by omega
    unfold oldSpec
    have hnm : h' < numModes 1 Nold := by rw [numModes_one]; omega
    simp only [if_pos hnm, oddball_one Nnew h' hh, oddball_one Nold h' hho, pow_one]
    cases ob
    · simp only [Bool.false_eq_true, and_false, false_and, if_false, not_false_eq_true, and_true]
      rw [if_pos (by omega)]
    · simp only [and_true, true_and]
      rcases Nat.lt_or_gt_of_ne hne with hlt | hgt
      · have hm : min Nold Nnew = Nold := by omega
        rw [hm]
        split_ifs <;> first | rfl | (exfalso; omega) | simp
      · have hm : min Nold Nnew = Nnew := by omega
        rw [hm]
        split_ifs <;> first | rfl | (exfalso; omega) | simp
  · rw [if_neg hband]
    simp only [zero_mul, ite_self]
    rw [if_neg (fun h => hband (by omega))]

/-- weight with which stored mode `h` of the OLD spectrum enters the mapped field: `0` if the mode is
    removed by the oddball filter, else the c2r weight on the NEW grid -/
noncomputable def mapWeight (Nold Nnew : ℕ) (ob : Bool) (h : ℕ) : ℕ :=
  if ob = true ∧ min Nold Nnew % 2 = 0 ∧ h = min Nold Nnew / 2 then 0 else herm_weight 1 Nnew h

/-- **general 1-D formula** (no band-limit hypothesis, any `u`):
    `v_j = (1/N_old) Σ_{h ≤ m/2} κ_h Re(û_h e^{2πi h j/N_new})` -/
theorem mapBetween_one_getD (Nold Nnew : ℕ) (hne : Nold ≠ Nnew) (hNn : 0 < Nnew) (ob : Bool)
    (u : Array ℂ) (j : ℕ) (hj : j < Nnew) :
    (mapBetween 1 Nold Nnew ob u).getD j 0 =
      (∑ h ∈ range (min Nold Nnew / 2 + 1), (mapWeight Nold Nnew ob h : ℂ) *
        ((((rfftnM 1 Nold u).getD h 0 * zeta Nnew ^ (-((h : ℤ) * (j : ℤ)))).re : ℝ) : ℂ)) / (Nold : ℂ) := by
  unfold mapBetween
  rw [if_neg hne, irfft1_getD Nnew hNn _ j hj]
  have hsub : range (min Nold Nnew / 2 + 1) ⊆ range (Nnew / 2 + 1) := by
    intro x hx; rw [Finset.mem_range] at hx ⊢; omega
  have hNn' : (Nnew : ℂ) ≠ 0 := by exact_mod_cast hNn.ne'
  have hscale : ∀ (z w : ℂ), ((z / (Nold : ℂ) * (Nnew : ℂ) * w).re : ℝ) = (z * w).re * ((Nnew : ℝ) / (Nold : ℝ)) := by
    intro z w
    rw [show z / (Nold : ℂ) * (Nnew : ℂ) * w = (((Nnew : ℝ) / (Nold : ℝ) : ℝ) : ℂ) * (z * w) by
      push_cast; ring, Complex.re_ofReal_mul]
    ring
  rw [← Finset.sum_subset hsub]
  · have hterm : ∀ h ∈ range (min Nold Nnew / 2 + 1),
        (herm_weight 1 Nnew h : ℂ) *
          ((((mapSpectrum 1 Nold Nnew ob (rfftnM 1 Nold u)).getD h 0 * zeta Nnew ^ (-((h : ℤ) * (j : ℤ)))).re : ℝ) : ℂ)
        = ((mapWeight Nold Nnew ob h : ℂ) *
          ((((rfftnM 1 Nold u).getD h 0 * zeta Nnew ^ (-((h : ℤ) * (j : ℤ)))).re : ℝ) : ℂ)) * ((Nnew : ℂ) / (Nold : ℂ)) := by
      intro h hh
      have hh' : h ≤ min Nold Nnew / 2 := by have := Finset.mem_range.mp hh; omega
      rw [mapSpectrum_one_getD Nold Nnew hne ob _ h (by omega)]
      unfold mapWeight
      by_cases hk : ob = true ∧ min Nold Nnew % 2 = 0 ∧ h = min Nold Nnew / 2
      · rw [if_neg (by tauto), if_pos hk]; simp
      · rw [if_pos ⟨hh', hk⟩, if_neg hk, hscale]
        push_cast; ring
    rw [Finset.sum_congr rfl hterm, ← Finset.sum_mul]
    by_cases hNo : (Nold : ℂ) = 0
    · rw [hNo]; simp
    · field_simp
  · intro h h1 h2
    have h1' := Finset.mem_range.mp h1
    have h2' : ¬ h < min Nold Nnew / 2 + 1 := fun hc => h2 (Finset.mem_range.mpr hc)
    rw [mapSpectrum_one_getD Nold Nnew hne ob _ h (by omega), if_neg (by omega)]
    simp

/-- the trigonometric interpolant of the `N`-point real field `u` at the normalised coordinate
    `t = x/L ∈ ℝ`: `(1/N) Σ_{h ≤ N/2} w_h Re(û_h e^{2πi h t})` (`w` = `herm_weight`) -/
noncomputable def trigInterp1 (N : ℕ) (u : Array ℂ) (t : ℝ) : ℂ :=
  (∑ h ∈ range (N / 2 + 1), (herm_weight 1 N h : ℂ) *
    ((((rfftnM 1 N u).getD h 0 * Complex.exp (2 * Real.pi * Complex.I * (h : ℂ) * (t : ℂ))).re : ℝ) : ℂ))
    / (N : ℂ)

theorem zeta_neg_eq_exp (N : ℕ) (h j : ℕ) :
    zeta N ^ (-((h : ℤ) * (j : ℤ)))
      = Complex.exp (2 * Real.pi * Complex.I * (h : ℂ) * (((j : ℝ) / (N : ℝ) : ℝ) : ℂ)) := by
  rw [zeta_zpow_eq_exp]
  congr 1
  push_cast
  ring

/-- the band-limit hypothesis of I2: all stored old modes with `2h ≥ m` vanish -/
def BandLimited1 (Nold m : ℕ) (u : Array ℂ) : Prop :=
  ∀ h, h ≤ Nold / 2 → m ≤ 2 * h → (rfftnM 1 Nold u).getD h 0 = 0

theorem mapBetween_one_bandlimited (Nold Nnew : ℕ) (hne : Nold ≠ Nnew) (hNn : 0 < Nnew) (ob : Bool)
    (u : Array ℂ) (hbl : BandLimited1 Nold (min Nold Nnew) u) (j : ℕ) (hj : j < Nnew) :
    (mapBetween 1 Nold Nnew ob u).getD j 0 =
      (∑ h ∈ range (Nold / 2 + 1), (herm_weight 1 Nold h : ℂ) *
        ((((rfftnM 1 Nold u).getD h 0 * zeta Nnew ^ (-((h : ℤ) * (j : ℤ)))).re : ℝ) : ℂ)) / (Nold : ℂ) := by
  rw [mapBetween_one_getD Nold Nnew hne hNn ob u j hj]
  congr 1
  have hsub : range (min Nold Nnew / 2 + 1) ⊆ range (Nold / 2 + 1) := by
    intro x hx; rw [Finset.mem_range] at hx ⊢; omega
  rw [← Finset.sum_subset hsub]
  · apply Finset.sum_congr rfl
    intro h hh
    have hh' := Finset.mem_range.mp hh
    by_cases hb : min Nold Nnew ≤ 2 * h
    · rw [hbl h (by omega) hb]; simp
    · congr 2
      unfold mapWeight
      rw [if_neg (by omega), herm_weight_one, herm_weight_one]
      congr 1
      apply propext
      constructor <;> rintro (h0 | ⟨_, h1⟩) <;> first | exact Or.inl h0 | (exfalso; omega)
  · intro h h1 h2
    have h1' := Finset.mem_range.mp h1
    have h2' : ¬ h < min Nold Nnew / 2 + 1 := fun hc => h2 (Finset.mem_range.mpr hc)
    rw [hbl h (by omega) (by omega)]
    simp

/-- **I2 (1-D exactness, up- and down-sampling).**  If the stored spectrum of the field `u` on the
    `N_old` grid vanishes for `2h ≥ m = min(N_old, N_new)`, then `map_between_resolutions` returns
    the trigonometric interpolant of `u` sampled on the new grid `x_j = j/N_new`. -/
theorem mapBetween_one_exact (Nold Nnew : ℕ) (hne : Nold ≠ Nnew) (hNn : 0 < Nnew) (ob : Bool)
    (u : Array ℂ) (hbl : BandLimited1 Nold (min Nold Nnew) u) (j : ℕ) (hj : j < Nnew) :
    (mapBetween 1 Nold Nnew ob u).getD j 0 = trigInterp1 Nold u ((j : ℝ) / (Nnew : ℝ)) := by
  rw [mapBetween_one_bandlimited Nold Nnew hne hNn ob u hbl j hj, trigInterp1]
  simp only [zeta_neg_eq_exp]

end Exponax.Interp
