import ExponaxModel.Proofs.EquivarianceNDTerms
/-
C08 in general dimension — Q2 (part 2): gradient norm (both `zeroFix`), `GeneralNonlinearFun`,
`VorticityConvection2d`, `ProjectedConvection3d` — without injection for EVERY shift vector, with
Kolmogorov injection `(m, γ)` for the shift vectors with `N ∣ m · s₁` (the injected spectrum is
supported on `(0, ±m[, 0])`, whose shift phase `e^{-2πi (±m) s₁ / N}` must be `1`); arbitrary
shifts along the other axes.  In particular (`dvd_of_forcing_period`) for `m ∣ N` every shift of
axis 1 by a multiple of the forcing period `N / m`.

`vorticity2d` / `projected3d` WITHOUT injection: the proofs do not use `c.D = 2` / `c.D = 3`, the
statements hold for the model functions at every `c`.
-/
set_option linter.unusedVariables false
namespace Exponax.EquivND
open Exponax Exponax.Layout Exponax.Transform Exponax.Nonlin Exponax.Alias Exponax.Symmetry
open Exponax.SymmetryND Finset

/-! ## gradient norm -/

/-- **Q2, gradient-norm nonlinearity (relation form)**: any channel count, with or without the
    zero-mode fix (the subtracted grid mean is roll-invariant). -/
theorem gradientNorm_mcShift (c : Cfg ℂ) (hN : 0 < c.N) (C : ℕ) (scale : ℂ) (zeroFix : Bool)
    (s : List ℤ) (uh uh' : MC ℂ) (h : MCShift c s uh uh') :
    MCShift c s (gradientNorm c C scale zeroFix uh) (gradientNorm c C scale zeroFix uh') := by
  have hg : MCRoll c s
      (tabC (C * c.D) fun cd => nifft c (tab (modes c) fun m => deriv c (cd % c.D) m * at2 uh (cd / c.D) m))
      (tabC (C * c.D) fun cd => nifft c (tab (modes c) fun m => deriv c (cd % c.D) m * at2 uh' (cd / c.D) m)) :=
    mcRoll_tabC c s _ _ _ (fun cd _ => nifft_fieldRoll c hN s _ _
      (specShift_tab c s _ _ (fun m hm => by rw [h _ m hm]; ring)))
  unfold gradientNorm
  simp only []
  generalize (tabC (C * c.D) fun cd => nifft c (tab (modes c) fun m =>
    deriv c (cd % c.D) m * at2 uh (cd / c.D) m)) = GR at hg ⊢
  generalize (tabC (C * c.D) fun cd => nifft c (tab (modes c) fun m =>
    deriv c (cd % c.D) m * at2 uh' (cd / c.D) m)) = GR' at hg ⊢
  have hq : MCRoll c s
      (tab2 C (gridSize c) fun ch x => sumList ((List.range c.D).map fun d =>
        at2 GR (ch * c.D + d) x * at2 GR (ch * c.D + d) x))
      (tab2 C (gridSize c) fun ch x => sumList ((List.range c.D).map fun d =>
        at2 GR' (ch * c.D + d) x * at2 GR' (ch * c.D + d) x)) :=
    mcRoll_tab2 c s C _ _ (fun ch _ x hx => by simp only [hg _ x hx])
  generalize (tab2 C (gridSize c) fun ch x => sumList ((List.range c.D).map fun d =>
    at2 GR (ch * c.D + d) x * at2 GR (ch * c.D + d) x)) = Q at hq ⊢
  generalize (tab2 C (gridSize c) fun ch x => sumList ((List.range c.D).map fun d =>
    at2 GR' (ch * c.D + d) x * at2 GR' (ch * c.D + d) x)) = Q' at hq ⊢
  have hmean : (tab C fun ch => sumRange (gridSize c) (fun x => at2 Q' ch x) / lit (gridSize c))
      = tab C fun ch => sumRange (gridSize c) (fun x => at2 Q ch x) / lit (gridSize c) :=
    Nonlin.tab_congr _ _ _ (fun ch _ => by
      rw [sumRange_fieldRoll c hN s (fun x => at2 Q ch x) (fun x => at2 Q' ch x)
        (fun x hx => hq ch x hx)])
  rw [hmean]
  generalize (tab C fun ch => sumRange (gridSize c) (fun x => at2 Q ch x) / lit (gridSize c)) = MEAN
  have hq' : MCRoll c s
      (tab2 C (gridSize c) fun ch x =>
        if zeroFix = true then at2 Q ch x - MEAN.getD ch 0 else at2 Q ch x)
      (tab2 C (gridSize c) fun ch x =>
        if zeroFix = true then at2 Q' ch x - MEAN.getD ch 0 else at2 Q' ch x) :=
    mcRoll_tab2 c s C _ _ (fun ch _ x hx => by rw [hq _ x hx])
  have hqh := mcShift_tabC c s C _ _
    (fun ch _ => nfft_specShift c hN s _ _ (mcRoll_fieldRoll hq' ch))
  refine mcShift_tab2 c s C _ _ (fun ch _ m hm => ?_)
  rw [hqh ch m hm]
  ring

/-- **Q2, gradient norm (explicit form).** -/
theorem gradientNorm_equivariant_nd (c : Cfg ℂ) (hN : 0 < c.N) (C : ℕ) (scale : ℂ) (zeroFix : Bool)
    (s : List ℤ) (uh : MC ℂ) (ch h : ℕ) (hh : h < modes c) :
    at2 (gradientNorm c C scale zeroFix (shiftMC c.D c.N s uh)) ch h
      = shiftPhaseND c.D c.N s h * at2 (gradientNorm c C scale zeroFix uh) ch h :=
  gradientNorm_mcShift c hN C scale zeroFix s _ _ (mcShift_shiftMC c s uh) ch h hh

/-! ## `GeneralNonlinearFun` -/

/-- **Q2, `GeneralNonlinearFun` (relation form)**: quadratic polynomial + single-channel
    conservative convection + gradient norm; any channel count. -/
theorem general_mcShift (c : Cfg ℂ) (hN : 0 < c.N) (C : ℕ) (s0 s1 s2 : ℂ) (zeroFix : Bool)
    (s : List ℤ) (uh uh' : MC ℂ) (h : MCShift c s uh uh') :
    MCShift c s (general c C s0 s1 s2 zeroFix uh) (general c C s0 s1 s2 zeroFix uh') := by
  have ha := polynomial_mcShift c hN C [0, 0, s0] s uh uh' h
  have hb := convection_mcShift c hN C (-s1) true true s uh uh' h
  have hg := gradientNorm_mcShift c hN C (-s2) zeroFix s uh uh' h
  unfold general
  simp only []
  refine mcShift_tab2 c s C _ _ (fun ch _ m hm => ?_)
  rw [ha ch m hm, hb ch m hm, hg ch m hm]
  ring

/-- **Q2, `GeneralNonlinearFun` (explicit form).** -/
theorem general_equivariant_nd (c : Cfg ℂ) (hN : 0 < c.N) (C : ℕ) (s0 s1 s2 : ℂ) (zeroFix : Bool)
    (s : List ℤ) (uh : MC ℂ) (ch h : ℕ) (hh : h < modes c) :
    at2 (general c C s0 s1 s2 zeroFix (shiftMC c.D c.N s uh)) ch h
      = shiftPhaseND c.D c.N s h * at2 (general c C s0 s1 s2 zeroFix uh) ch h :=
  general_mcShift c hN C s0 s1 s2 zeroFix s _ _ (mcShift_shiftMC c s uh) ch h hh

/-! ## the shift phase of the injected modes -/

theorem twiddle_zero' (N : ℕ) : (twiddle N 0 : ℂ) = 1 := by
  rw [DFT.twiddle_eq_zpow, zpow_zero]

/-- the shift phase of a mode is `1` as soon as `N ∣ k(h)·s` -/
theorem shiftPhaseND_eq_one (D N : ℕ) (s : List ℤ) (h : ℕ)
    (hd : (N : ℤ) ∣ dotKS D (wnFlat D N h) s) : shiftPhaseND D N s h = 1 := by
  rw [shiftPhaseND, ← twiddle_zero' N]
  exact twiddle_congr N ((Int.modEq_zero_iff_dvd).mpr hd)

/-- for `m ∣ N`, a shift by a multiple `t` of the forcing period `N / m` satisfies the hypothesis
    `N ∣ m · s₁` of the injection theorems -/
theorem dvd_of_forcing_period (N m : ℕ) (hm : m ∣ N) (t : ℤ) :
    (N : ℤ) ∣ (m : ℤ) * (t * ((N / m : ℕ) : ℤ)) := by
  refine ⟨t, ?_⟩
  have : (m : ℤ) * ((N / m : ℕ) : ℤ) = (N : ℤ) := by
    exact_mod_cast Nat.mul_div_cancel' hm
  calc (m : ℤ) * (t * ((N / m : ℕ) : ℤ)) = ((m : ℤ) * ((N / m : ℕ) : ℤ)) * t := by ring
    _ = (N : ℤ) * t := by rw [this]

/-! ## `VorticityConvection2d` -/

/-- the convective part `mask·fft(u ∂ₓω + v ∂ᵧω)` of `vorticity2d` -/
theorem vorticity2d_conv_specShift (c : Cfg ℂ) (hN : 0 < c.N) (s : List ℤ) (uh uh' : MC ℂ)
    (h : MCShift c s uh uh') :
    SpecShift c s
      (nfft c (tab (gridSize c) fun x =>
        (nifft c (tab (modes c) fun m => deriv c 1 m *
          (tab (modes c) fun k => invLapOne c k * at2 uh 0 k).getD m 0)).getD x 0
          * (nifft c (tab (modes c) fun m => deriv c 0 m * at2 uh 0 m)).getD x 0
        + (nifft c (tab (modes c) fun m => -(deriv c 0 m) *
          (tab (modes c) fun k => invLapOne c k * at2 uh 0 k).getD m 0)).getD x 0
          * (nifft c (tab (modes c) fun m => deriv c 1 m * at2 uh 0 m)).getD x 0))
      (nfft c (tab (gridSize c) fun x =>
        (nifft c (tab (modes c) fun m => deriv c 1 m *
          (tab (modes c) fun k => invLapOne c k * at2 uh' 0 k).getD m 0)).getD x 0
          * (nifft c (tab (modes c) fun m => deriv c 0 m * at2 uh' 0 m)).getD x 0
        + (nifft c (tab (modes c) fun m => -(deriv c 0 m) *
          (tab (modes c) fun k => invLapOne c k * at2 uh' 0 k).getD m 0)).getD x 0
          * (nifft c (tab (modes c) fun m => deriv c 1 m * at2 uh' 0 m)).getD x 0)) := by
  have hpsi : SpecShift c s (tab (modes c) fun k => invLapOne c k * at2 uh 0 k)
      (tab (modes c) fun k => invLapOne c k * at2 uh' 0 k) :=
    specShift_tab c s _ _ (fun m hm => by rw [h _ m hm]; ring)
  have hu := nifft_fieldRoll c hN s _ _ (specShift_mul c s (fun m => deriv c 1 m) _ _ hpsi)
  have hv := nifft_fieldRoll c hN s _ _ (specShift_mul c s (fun m => -(deriv c 0 m)) _ _ hpsi)
  have hwx : FieldRoll c s (nifft c (tab (modes c) fun m => deriv c 0 m * at2 uh 0 m))
      (nifft c (tab (modes c) fun m => deriv c 0 m * at2 uh' 0 m)) :=
    nifft_fieldRoll c hN s _ _ (specShift_tab c s _ _ (fun m hm => by rw [h _ m hm]; ring))
  have hwy : FieldRoll c s (nifft c (tab (modes c) fun m => deriv c 1 m * at2 uh 0 m))
      (nifft c (tab (modes c) fun m => deriv c 1 m * at2 uh' 0 m)) :=
    nifft_fieldRoll c hN s _ _ (specShift_tab c s _ _ (fun m hm => by rw [h _ m hm]; ring))
  apply nfft_specShift c hN
  apply fieldRoll_tab
  intro x hx
  rw [hu x hx, hv x hx, hwx x hx, hwy x hx]

/-- **Q2, `VorticityConvection2d` WITHOUT injection (relation form)**: every shift vector. -/
theorem vorticity2d_mcShift (c : Cfg ℂ) (hN : 0 < c.N) (scale : ℂ) (s : List ℤ) (uh uh' : MC ℂ)
    (h : MCShift c s uh uh') :
    MCShift c s (vorticity2d c scale none uh) (vorticity2d c scale none uh') := by
  have hconv := vorticity2d_conv_specShift c hN s uh uh' h
  unfold vorticity2d
  simp only []
  refine mcShift_tab2 c s 1 _ _ (fun i _ m hm => ?_)
  rw [hconv m hm]
  ring

/-- **Q2, `VorticityConvection2d` without injection (explicit form).** -/
theorem vorticity2d_equivariant_nd (c : Cfg ℂ) (hN : 0 < c.N) (scale : ℂ) (s : List ℤ) (uh : MC ℂ)
    (ch h : ℕ) (hh : h < modes c) :
    at2 (vorticity2d c scale none (shiftMC c.D c.N s uh)) ch h
      = shiftPhaseND c.D c.N s h * at2 (vorticity2d c scale none uh) ch h :=
  vorticity2d_mcShift c hN scale s _ _ (mcShift_shiftMC c s uh) ch h hh

/-- the `D = 2` shift phase at a mode with wavenumbers `(0, k₁)` -/
theorem dotKS_two (k s : List ℤ) : dotKS 2 k s = k.getD 0 0 * s.getD 0 0 + k.getD 1 0 * s.getD 1 0 := by
  simp [dotKS, Finset.sum_range_succ]

theorem dotKS_three (k s : List ℤ) :
    dotKS 3 k s = k.getD 0 0 * s.getD 0 0 + k.getD 1 0 * s.getD 1 0 + k.getD 2 0 * s.getD 2 0 := by
  simp [dotKS, Finset.sum_range_succ]

/-- **Q2, `VorticityConvection2d` WITH Kolmogorov injection `(m, γ)` (relation form)**, `D = 2`:
    equivariant for every shift vector with `N ∣ m · s₁` (arbitrary `s₀`). -/
theorem vorticity2d_inj_mcShift (c : Cfg ℂ) (hD : c.D = 2) (hN : 0 < c.N) (scale : ℂ) (m : ℕ) (gam : ℂ)
    (s : List ℤ) (hs : (c.N : ℤ) ∣ (m : ℤ) * s.getD 1 0) (uh uh' : MC ℂ)
    (h : MCShift c s uh uh') :
    MCShift c s (vorticity2d c scale (some (m, gam)) uh) (vorticity2d c scale (some (m, gam)) uh') := by
  have hconv := vorticity2d_conv_specShift c hN s uh uh' h
  unfold vorticity2d
  simp only []
  refine mcShift_tab2 c s 1 _ _ (fun i _ k hk => ?_)
  rw [hconv k hk]
  split_ifs with hcond
  · simp only [Bool.and_eq_true, beq_iff_eq] at hcond
    have hp : shiftPhaseND c.D c.N s k = 1 := by
      apply shiftPhaseND_eq_one
      rw [hD, dotKS_two]
      rw [hD] at hcond
      rw [hcond.1, hcond.2, zero_mul, zero_add]
      exact hs
    rw [hp]
    ring
  · ring

/-- **Q2, `VorticityConvection2d` with injection (explicit form).** -/
theorem vorticity2d_inj_equivariant_nd (c : Cfg ℂ) (hD : c.D = 2) (hN : 0 < c.N) (scale : ℂ) (m : ℕ)
    (gam : ℂ) (s : List ℤ) (hs : (c.N : ℤ) ∣ (m : ℤ) * s.getD 1 0) (uh : MC ℂ) (ch h : ℕ)
    (hh : h < modes c) :
    at2 (vorticity2d c scale (some (m, gam)) (shiftMC c.D c.N s uh)) ch h
      = shiftPhaseND c.D c.N s h * at2 (vorticity2d c scale (some (m, gam)) uh) ch h :=
  vorticity2d_inj_mcShift c hD hN scale m gam s hs _ _ (mcShift_shiftMC c s uh) ch h hh

/-- … in particular for `m ∣ N`: shift of axis 1 by `t` forcing periods `N / m`, axis 0 by any `s₀` -/
theorem vorticity2d_inj_equivariant_period (c : Cfg ℂ) (hD : c.D = 2) (hN : 0 < c.N) (scale : ℂ)
    (m : ℕ) (hm : m ∣ c.N) (gam : ℂ) (s0 t : ℤ) (uh : MC ℂ) (ch h : ℕ) (hh : h < modes c) :
    at2 (vorticity2d c scale (some (m, gam))
        (shiftMC c.D c.N [s0, t * ((c.N / m : ℕ) : ℤ)] uh)) ch h
      = shiftPhaseND c.D c.N [s0, t * ((c.N / m : ℕ) : ℤ)] h
        * at2 (vorticity2d c scale (some (m, gam)) uh) ch h :=
  vorticity2d_inj_equivariant_nd c hD hN scale m gam _
    (by simpa using dvd_of_forcing_period c.N m hm t) uh ch h hh

/-! ## `ProjectedConvection3d` -/

/-- the un-injected output `leray(mask·fft(u × curl u))` of `projected3d` -/
theorem projected3d_proj_mcShift (c : Cfg ℂ) (hN : 0 < c.N) (s : List ℤ) (uh uh' : MC ℂ)
    (h : MCShift c s uh uh') :
    MCShift c s (projected3d c none uh) (projected3d c none uh') := by
  have hcurlH : MCShift c s
      (tab2 3 (modes c) fun i k => proj3 (Gen.Misc.cross_product_3d
        (deriv c 0 k, deriv c 1 k, deriv c 2 k) (at2 uh 0 k, at2 uh 1 k, at2 uh 2 k)) i)
      (tab2 3 (modes c) fun i k => proj3 (Gen.Misc.cross_product_3d
        (deriv c 0 k, deriv c 1 k, deriv c 2 k) (at2 uh' 0 k, at2 uh' 1 k, at2 uh' 2 k)) i) := by
    refine mcShift_tab2 c s 3 _ _ (fun i _ k hk => ?_)
    rw [h 0 k hk, h 1 k hk, h 2 k hk]
    simp only [proj3, Gen.Misc.cross_product_3d]
    split_ifs <;> ring
  have hvel := mcRoll_nifft c hN s 3 uh uh' h
  unfold projected3d
  simp only []
  generalize (tab2 3 (modes c) fun i k => proj3 (Gen.Misc.cross_product_3d
    (deriv c 0 k, deriv c 1 k, deriv c 2 k) (at2 uh 0 k, at2 uh 1 k, at2 uh 2 k)) i) = CH at hcurlH ⊢
  generalize (tab2 3 (modes c) fun i k => proj3 (Gen.Misc.cross_product_3d
    (deriv c 0 k, deriv c 1 k, deriv c 2 k) (at2 uh' 0 k, at2 uh' 1 k, at2 uh' 2 k)) i) = CH' at hcurlH ⊢
  have hcurl := mcRoll_nifft c hN s 3 CH CH' hcurlH
  generalize (tabC 3 fun i => nifft c (CH.getD i #[])) = CU at hcurl ⊢
  generalize (tabC 3 fun i => nifft c (CH'.getD i #[])) = CU' at hcurl ⊢
  generalize (tabC 3 fun i => nifft c (uh.getD i #[])) = VE at hvel ⊢
  generalize (tabC 3 fun i => nifft c (uh'.getD i #[])) = VE' at hvel ⊢
  have hconv : MCRoll c s
      (tab2 3 (gridSize c) fun i x => proj3 (Gen.Misc.cross_product_3d
        (at2 VE 0 x, at2 VE 1 x, at2 VE 2 x) (at2 CU 0 x, at2 CU 1 x, at2 CU 2 x)) i)
      (tab2 3 (gridSize c) fun i x => proj3 (Gen.Misc.cross_product_3d
        (at2 VE' 0 x, at2 VE' 1 x, at2 VE' 2 x) (at2 CU' 0 x, at2 CU' 1 x, at2 CU' 2 x)) i) :=
    mcRoll_tab2 c s 3 _ _ (fun i _ x hx => by simp only [hvel _ x hx, hcurl _ x hx])
  have hconvH := mcShift_tabC c s 3 _ _
    (fun i _ => nfft_specShift c hN s _ _ (mcRoll_fieldRoll hconv i))
  have hproj := leray_mcShift c s _ _ hconvH
  refine mcShift_tab2 c s 3 _ _ (fun i _ k hk => ?_)
  exact hproj i k hk

/-- **Q2, `ProjectedConvection3d` WITHOUT injection (relation form)**: every shift vector. -/
theorem projected3d_mcShift (c : Cfg ℂ) (hN : 0 < c.N) (s : List ℤ) (uh uh' : MC ℂ)
    (h : MCShift c s uh uh') :
    MCShift c s (projected3d c none uh) (projected3d c none uh') :=
  projected3d_proj_mcShift c hN s uh uh' h

/-- **Q2, `ProjectedConvection3d` without injection (explicit form).** -/
theorem projected3d_equivariant_nd (c : Cfg ℂ) (hN : 0 < c.N) (s : List ℤ) (uh : MC ℂ)
    (ch h : ℕ) (hh : h < modes c) :
    at2 (projected3d c none (shiftMC c.D c.N s uh)) ch h
      = shiftPhaseND c.D c.N s h * at2 (projected3d c none uh) ch h :=
  projected3d_mcShift c hN s _ _ (mcShift_shiftMC c s uh) ch h hh

/-- the injected output is the un-injected output plus a FIXED spectrum supported on
    channel 0, modes `(0, ±m, 0)` -/
noncomputable def inj3 (c : Cfg ℂ) (m : ℕ) (gam : ℂ) (i h : ℕ) : ℂ :=
  let k := wnFlat c.D c.N h
  let amp := gam * scaling c.D c.N 2 (unflatten (wavenumberShape c.D c.N) h)
  if i = 0 && k.getD 0 0 == 0 && k.getD 2 0 == 0 && k.getD 1 0 == (m : Int) then -(Complex.I) * amp
  else if i = 0 && k.getD 0 0 == 0 && k.getD 2 0 == 0 && k.getD 1 0 == -(m : Int) then Complex.I * amp
  else 0

/-- decomposition of the injected `projected3d`: un-injected term + fixed forcing spectrum -/
theorem projected3d_inj_eq (c : Cfg ℂ) (m : ℕ) (gam : ℂ) (uh : MC ℂ) (i h : ℕ) (hi : i < 3)
    (hh : h < modes c) :
    at2 (projected3d c (some (m, gam)) uh) i h = at2 (projected3d c none uh) i h + inj3 c m gam i h := by
  unfold projected3d
  simp only []
  rw [at2_tab2 _ _ _ _ _ hi hh, at2_tab2 _ _ _ _ _ hi hh]
  simp only [inj3, hasI_complex]
  split_ifs <;> rfl

/-- the forcing spectrum is invariant under the shift phases with `N ∣ m · s₁` -/
theorem inj3_phase (c : Cfg ℂ) (hD : c.D = 3) (m : ℕ) (gam : ℂ) (s : List ℤ)
    (hs : (c.N : ℤ) ∣ (m : ℤ) * s.getD 1 0) (i h : ℕ) :
    shiftPhaseND c.D c.N s h * inj3 c m gam i h = inj3 c m gam i h := by
  unfold inj3
  simp only []
  split_ifs with h1 h2
  · simp only [Bool.and_eq_true, beq_iff_eq, decide_eq_true_eq] at h1
    have hp : shiftPhaseND c.D c.N s h = 1 := by
      apply shiftPhaseND_eq_one
      rw [hD, dotKS_three]
      rw [hD] at h1
      rw [h1.1.1.2, h1.1.2, h1.2, zero_mul, zero_mul, zero_add, add_zero]
      exact hs
    rw [hp, one_mul]
  · simp only [Bool.and_eq_true, beq_iff_eq, decide_eq_true_eq] at h2
    have hp : shiftPhaseND c.D c.N s h = 1 := by
      apply shiftPhaseND_eq_one
      rw [hD, dotKS_three]
      rw [hD] at h2
      rw [h2.1.1.2, h2.1.2, h2.2, zero_mul, zero_mul, zero_add, add_zero, neg_mul]
      exact (dvd_neg).mpr hs
    rw [hp, one_mul]
  · rw [mul_zero]

/-- **Q2, `ProjectedConvection3d` WITH Kolmogorov injection `(m, γ)` (relation form)**, `D = 3`:
    equivariant for every shift vector with `N ∣ m · s₁` (arbitrary `s₀`, `s₂`). -/
theorem projected3d_inj_mcShift (c : Cfg ℂ) (hD : c.D = 3) (hN : 0 < c.N) (m : ℕ) (gam : ℂ)
    (s : List ℤ) (hs : (c.N : ℤ) ∣ (m : ℤ) * s.getD 1 0) (uh uh' : MC ℂ)
    (h : MCShift c s uh uh') :
    MCShift c s (projected3d c (some (m, gam)) uh) (projected3d c (some (m, gam)) uh') := by
  intro i k hk
  rcases Nat.lt_or_ge i 3 with hi | hi
  · rw [projected3d_inj_eq c m gam uh' i k hi hk, projected3d_inj_eq c m gam uh i k hi hk,
      projected3d_proj_mcShift c hN s uh uh' h i k hk, mul_add, inj3_phase c hD m gam s hs]
  · have e : ∀ w : MC ℂ, at2 (projected3d c (some (m, gam)) w) i k = 0 := by
      intro w
      unfold projected3d
      simp only []
      exact at2_tab2_of_le_ch _ _ _ _ _ hi
    rw [e, e, mul_zero]

/-- **Q2, `ProjectedConvection3d` with injection (explicit form).** -/
theorem projected3d_inj_equivariant_nd (c : Cfg ℂ) (hD : c.D = 3) (hN : 0 < c.N) (m : ℕ) (gam : ℂ)
    (s : List ℤ) (hs : (c.N : ℤ) ∣ (m : ℤ) * s.getD 1 0) (uh : MC ℂ) (ch h : ℕ)
    (hh : h < modes c) :
    at2 (projected3d c (some (m, gam)) (shiftMC c.D c.N s uh)) ch h
      = shiftPhaseND c.D c.N s h * at2 (projected3d c (some (m, gam)) uh) ch h :=
  projected3d_inj_mcShift c hD hN m gam s hs _ _ (mcShift_shiftMC c s uh) ch h hh

/-- … in particular for `m ∣ N`: shift of axis 1 by `t` forcing periods, axes 0, 2 arbitrary -/
theorem projected3d_inj_equivariant_period (c : Cfg ℂ) (hD : c.D = 3) (hN : 0 < c.N) (m : ℕ)
    (hm : m ∣ c.N) (gam : ℂ) (s0 t s2 : ℤ) (uh : MC ℂ) (ch h : ℕ) (hh : h < modes c) :
    at2 (projected3d c (some (m, gam))
        (shiftMC c.D c.N [s0, t * ((c.N / m : ℕ) : ℤ), s2] uh)) ch h
      = shiftPhaseND c.D c.N [s0, t * ((c.N / m : ℕ) : ℤ), s2] h
        * at2 (projected3d c (some (m, gam)) uh) ch h :=
  projected3d_inj_equivariant_nd c hD hN m gam _
    (by simpa using dvd_of_forcing_period c.N m hm t) uh ch h hh

/-! ## non-vacuity -/

/-- `D = 2`, `N = 8`, forcing mode `m = 2` (period 4): shifts `(s₀, 4t)` satisfy the hypothesis -/
example : ∃ (c : Cfg ℂ) (m : ℕ) (s : List ℤ), c.D = 2 ∧ 0 < c.N ∧ (c.N : ℤ) ∣ (m : ℤ) * s.getD 1 0 ∧
    s.getD 1 0 ≠ 0 ∧ ∃ h, h < modes c :=
  ⟨⟨2, 8, 1, 2, 3⟩, 2, [3, 4], rfl, by norm_num, by norm_num, by norm_num, 7, by decide⟩

example : ∃ (c : Cfg ℂ) (m : ℕ) (s : List ℤ), c.D = 3 ∧ 0 < c.N ∧ (c.N : ℤ) ∣ (m : ℤ) * s.getD 1 0 ∧
    s.getD 1 0 ≠ 0 ∧ ∃ h, h < modes c :=
  ⟨⟨3, 4, 1, 2, 3⟩, 2, [1, 2, 3], rfl, by norm_num, by norm_num, by norm_num, 11, by decide⟩

example : ∃ (N m : ℕ), 0 < m ∧ m ∣ N := ⟨8, 2, by norm_num, by norm_num⟩

end Exponax.EquivND
