import ExponaxModel.Proofs.AxisPermRel
/-
C08, T2 — the NONLINEAR MODEL TERMS commute with permutations of the spatial axes, every dimension `D`.

Hypotheses (`PermCfg c`): `D ≥ 1`, `N ≥ 1`, real `s = 2π/L`, and `NyqCfg c` (`N` odd, or an active
dealiasing mask of fraction `≤ 1`, which removes the Nyquist modes the products create); real scales /
coefficients.  Inputs: NYQUIST-FREE stored spectra (`SpecPerm`, e.g. `rfftn u`, `rfftn (P_σ u)` for a real
Nyquist-free state `u`: `specPerm_rfftn`).  Without these provisos the statements are false for odd-order
derivative multipliers (`C08_transpose_counterexample`).

Relation form (compositional), channels NOT permuted (`τ = id`): for the isotropic single-channel-type terms

  convection (`single_channel`, conservative `½ Σ_d ∂_d u²` and non-conservative `u Σ_d ∂_d u`), polynomial,
  gradient norm (both `zeroFix`), `general`:

  `MCSpecPerm c σ id uh uh' → MCSpecPerm c σ id (T uh) (T uh')`

i.e. `irfftn (T uh')_ch = P_σ (irfftn (T uh)_ch)` and both outputs Nyquist-free.  The multi-channel
convection (velocity channels permuted together with the axes) is in `AxisPermTermsMC.lean`.
-/
set_option linter.unusedVariables false
namespace Exponax.AxisPerm
open Exponax Exponax.Layout Exponax.Transform Exponax.DFT Exponax.AliasND Exponax.Nonlin Exponax.Alias Finset

/-- the hypotheses on the configuration -/
structure PermCfg (c : Cfg ℂ) : Prop where
  hD : 0 < c.D
  hN : 0 < c.N
  hs : c.s.im = 0
  hny : NyqCfg c

/-! ## multi-channel relations (`τ` : the map on channel indices) -/

/-- channel `τ ch` of `uh'` and channel `ch` of `uh` are a `SpecPerm` pair, for every channel -/
def MCSpecPerm (c : Cfg ℂ) (σ : Equiv.Perm (Fin c.D)) (τ : ℕ → ℕ) (uh uh' : MC ℂ) : Prop :=
  ∀ ch, SpecPerm c.D c.N σ (tab (modes c) (at2 uh ch)) (tab (modes c) (at2 uh' (τ ch)))

/-- channel `τ ch` of `u'` is the axis-permuted channel `ch` of `u` -/
def MCFieldPerm (c : Cfg ℂ) (σ : Equiv.Perm (Fin c.D)) (τ : ℕ → ℕ) (u u' : MC ℂ) : Prop :=
  ∀ ch j, j < gridSize c → at2 u' (τ ch) j = at2 u ch (permIdx c.D c.N σ j)

/-- every channel is real on the grid -/
def MCReal (c : Cfg ℂ) (u : MC ℂ) : Prop := ∀ ch j, j < gridSize c → (at2 u ch j).im = 0

theorem mcSpecPerm_chan (c : Cfg ℂ) (hN : 0 < c.N) (σ : Equiv.Perm (Fin c.D)) (τ : ℕ → ℕ) (uh uh' : MC ℂ)
    (h : MCSpecPerm c σ τ uh uh') (ch : ℕ) :
    SpecPerm c.D c.N σ (uh.getD ch #[]) (uh'.getD (τ ch) #[]) :=
  specPerm_congr c.D c.N hN σ _ _ _ _ (fun m hm => DFT.tab_getD _ _ _ _ hm) (fun m hm => DFT.tab_getD _ _ _ _ hm) (h ch)

theorem mcSpecPerm_tabC (c : Cfg ℂ) (hN : 0 < c.N) (σ : Equiv.Perm (Fin c.D)) (τ : ℕ → ℕ) (C : ℕ)
    (hτ : ∀ ch, τ ch < C ↔ ch < C) (F F' : ℕ → Array ℂ)
    (h : ∀ ch, ch < C → SpecPerm c.D c.N σ (F ch) (F' (τ ch))) :
    MCSpecPerm c σ τ (tabC C F) (tabC C F') := by
  intro ch
  by_cases hc : ch < C
  · refine specPerm_congr c.D c.N hN σ _ _ _ _ ?_ ?_ (h ch hc)
    · intro m hm
      rw [DFT.tab_getD _ _ _ _ (show m < modes c from hm), at2_tabC_any, if_pos hc]
    · intro m hm
      rw [DFT.tab_getD _ _ _ _ (show m < modes c from hm), at2_tabC_any, if_pos ((hτ ch).mpr hc)]
  · apply specPerm_zero c.D c.N hN σ
    · intro m hm
      rw [DFT.tab_getD _ _ _ _ (show m < modes c from hm), at2_tabC_any, if_neg hc]
    · intro m hm
      rw [DFT.tab_getD _ _ _ _ (show m < modes c from hm), at2_tabC_any, if_neg (fun h' => hc ((hτ ch).mp h'))]

theorem mcSpecPerm_tab2 (c : Cfg ℂ) (hN : 0 < c.N) (σ : Equiv.Perm (Fin c.D)) (τ : ℕ → ℕ) (C : ℕ)
    (hτ : ∀ ch, τ ch < C ↔ ch < C) (f f' : ℕ → ℕ → ℂ)
    (h : ∀ ch, ch < C → SpecPerm c.D c.N σ (tab (modes c) (f ch)) (tab (modes c) (f' (τ ch)))) :
    MCSpecPerm c σ τ (tab2 C (modes c) f) (tab2 C (modes c) f') := by
  intro ch
  by_cases hc : ch < C
  · refine specPerm_congr c.D c.N hN σ _ _ _ _ ?_ ?_ (h ch hc)
    · intro m hm
      have hm' : m < modes c := hm
      rw [DFT.tab_getD _ _ _ _ hm', DFT.tab_getD _ _ _ _ hm', at2_tab2_any, if_pos ⟨hc, hm'⟩]
    · intro m hm
      have hm' : m < modes c := hm
      rw [DFT.tab_getD _ _ _ _ hm', DFT.tab_getD _ _ _ _ hm', at2_tab2_any, if_pos ⟨(hτ ch).mpr hc, hm'⟩]
  · apply specPerm_zero c.D c.N hN σ
    · intro m hm
      rw [DFT.tab_getD _ _ _ _ (show m < modes c from hm), at2_tab2_any, if_neg (fun h' => hc h'.1)]
    · intro m hm
      rw [DFT.tab_getD _ _ _ _ (show m < modes c from hm), at2_tab2_any,
        if_neg (fun h' => hc ((hτ ch).mp h'.1))]

theorem id_lt_iff (C : ℕ) : ∀ ch, id ch < C ↔ ch < C := fun _ => Iff.rfl

/-- channels not permuted -/
theorem mcSpecPerm_tabC_id (c : Cfg ℂ) (hN : 0 < c.N) (σ : Equiv.Perm (Fin c.D)) (C : ℕ) (F F' : ℕ → Array ℂ)
    (h : ∀ ch, ch < C → SpecPerm c.D c.N σ (F ch) (F' ch)) : MCSpecPerm c σ id (tabC C F) (tabC C F') :=
  mcSpecPerm_tabC c hN σ id C (id_lt_iff C) F F' h

theorem mcSpecPerm_tab2_id (c : Cfg ℂ) (hN : 0 < c.N) (σ : Equiv.Perm (Fin c.D)) (C : ℕ) (f f' : ℕ → ℕ → ℂ)
    (h : ∀ ch, ch < C → SpecPerm c.D c.N σ (tab (modes c) (f ch)) (tab (modes c) (f' ch))) :
    MCSpecPerm c σ id (tab2 C (modes c) f) (tab2 C (modes c) f') :=
  mcSpecPerm_tab2 c hN σ id C (id_lt_iff C) f f' h

/-- the physical fields of all channels -/
theorem mcFieldPerm_nifft (c : Cfg ℂ) (hD : 0 < c.D) (hN : 0 < c.N) (σ : Equiv.Perm (Fin c.D)) (τ : ℕ → ℕ)
    (C : ℕ) (hτ : ∀ ch, τ ch < C ↔ ch < C) (uh uh' : MC ℂ) (h : MCSpecPerm c σ τ uh uh') :
    MCFieldPerm c σ τ (tabC C fun ch => nifft c (uh.getD ch #[])) (tabC C fun ch => nifft c (uh'.getD ch #[])) := by
  intro ch j hj
  rw [at2_tabC_any, at2_tabC_any]
  by_cases hc : ch < C
  · rw [if_pos ((hτ ch).mpr hc), if_pos hc]
    exact nifft_fieldPerm c hD hN σ _ _ (mcSpecPerm_chan c hN σ τ uh uh' h ch) j hj
  · rw [if_neg (fun h' => hc ((hτ ch).mp h')), if_neg hc]

theorem mcReal_nifft (c : Cfg ℂ) (hN : 0 < c.N) (C : ℕ) (uh : MC ℂ) :
    MCReal c (tabC C fun ch => nifft c (uh.getD ch #[])) := by
  intro ch j hj
  rw [at2_tabC_any]
  split_ifs
  · exact nifft_isRealND c hN _ j hj
  · rfl

/-! ## real values -/

theorem im_mul_real {x y : ℂ} (hx : x.im = 0) (hy : y.im = 0) : (x * y).im = 0 := by
  rw [Complex.mul_im, hx, hy]; ring

theorem im_add_real {x y : ℂ} (hx : x.im = 0) (hy : y.im = 0) : (x + y).im = 0 := by
  rw [Complex.add_im, hx, hy]; ring

theorem im_sub_real {x y : ℂ} (hx : x.im = 0) (hy : y.im = 0) : (x - y).im = 0 := by
  rw [Complex.sub_im, hx, hy]; ring

theorem im_sumList_real (n : ℕ) (F : ℕ → ℂ) (h : ∀ d, d < n → (F d).im = 0) :
    (sumList ((List.range n).map F)).im = 0 := by
  rw [Nonlin.sumList_range_eq, Complex.im_sum]
  exact Finset.sum_eq_zero (fun d hd => h d (Finset.mem_range.mp hd))

theorem im_polyEval_real (coeffs : List ℂ) (hco : ∀ x ∈ coeffs, x.im = 0) (u : ℂ) (hu : u.im = 0) :
    (polyEval coeffs u).im = 0 := by
  unfold polyEval
  have key : ∀ (cs : List ℂ), (∀ x ∈ cs, x.im = 0) → ∀ a p : ℂ, a.im = 0 → p.im = 0 →
      ((cs.foldl (fun (acc : ℂ × ℂ) co => (acc.1 + co * acc.2, acc.2 * u)) (a, p)).1).im = 0 := by
    intro cs
    induction cs with
    | nil => intro _ a p ha _; exact ha
    | cons x cs ih =>
      intro hcs a p ha hp
      simp only [List.foldl_cons]
      apply ih (fun y hy => hcs y (List.mem_cons_of_mem _ hy))
      · exact im_add_real ha (im_mul_real (hcs x List.mem_cons_self) hp)
      · exact im_mul_real hp hu
  exact key coeffs hco 0 1 (by simp) (by simp)

/-! ## generic building blocks -/

/-- **the generic pointwise step**: the masked transforms of two real tabulated fields that are axis
    permutations of each other are a `SpecPerm` pair -/
theorem nfft_tab_specPerm (c : Cfg ℂ) (hc : PermCfg c) (σ : Equiv.Perm (Fin c.D)) (f f' : ℕ → ℂ)
    (hreal : ∀ x, x < gridSize c → (f x).im = 0)
    (hperm : ∀ x, x < gridSize c → f' x = f (permIdx c.D c.N σ x)) :
    SpecPerm c.D c.N σ (nfft c (tab (gridSize c) f)) (nfft c (tab (gridSize c) f')) := by
  apply nfft_specPerm c hc.hD hc.hN hc.hny σ
  · intro j hj
    have hj' : j < gridSize c := hj
    rw [DFT.tab_getD _ _ _ _ hj']
    exact hreal j hj'
  · intro j hj
    have hj' : j < gridSize c := hj
    have hp : permIdx c.D c.N σ j < gridSize c := permIdx_lt' c.D c.N σ j hj
    rw [DFT.tab_getD _ _ _ _ hj', DFT.tab_getD _ _ _ _ hp, hperm j hj']

/-- multiplication by a REAL scalar -/
theorem specPerm_smul (D N : ℕ) (hD : 0 < D) (hN : 0 < N) (σ : Equiv.Perm (Fin D)) (r : ℂ) (hr : r.im = 0)
    (a a' : Array ℂ) (h : SpecPerm D N σ a a') :
    SpecPerm D N σ (tab (numModes D N) fun m => r * a.getD m 0) (tab (numModes D N) fun m => r * a'.getD m 0) :=
  specPerm_mul D N hD hN σ (fun _ => r) (fun _ => (Complex.conj_eq_iff_im.mpr hr).symm) a a' h

theorem sumList_axes_eq (D : ℕ) (F : ℕ → ℂ) : sumList ((List.range D).map F) = ∑ e : Fin D, F e := by
  rw [Nonlin.sumList_range_eq, Finset.sum_range]

/-- `Σ_d i s k_d` as a function of the wavenumber vector -/
noncomputable def sumDerivFn (c : Cfg ℂ) (k : Fin c.D → ℤ) : ℂ := ∑ e : Fin c.D, derivFn c e k

theorem sumList_deriv_eq (c : Cfg ℂ) (h : ℕ) :
    sumList ((List.range c.D).map fun d => Nonlin.deriv c d h) = sumDerivFn c (kvec c.D c.N h) := by
  rw [sumList_axes_eq]
  rfl

theorem sumDerivFn_neg (c : Cfg ℂ) (hs : c.s.im = 0) (k : Fin c.D → ℤ) :
    sumDerivFn c (-k) = (starRingEnd ℂ) (sumDerivFn c k) := by
  unfold sumDerivFn
  rw [map_sum]
  exact Finset.sum_congr rfl (fun e _ => derivFn_neg c hs e k)

theorem sumDerivFn_comp (c : Cfg ℂ) (σ : Equiv.Perm (Fin c.D)) (k : Fin c.D → ℤ) :
    sumDerivFn c (k ∘ σ) = sumDerivFn c k := by
  unfold sumDerivFn
  simp only [derivFn_comp]
  exact Equiv.sum_comp σ (fun e => derivFn c e k)

/-! ## the terms -/

/-- **T2, polynomial nonlinearity**, real coefficients, any channel count -/
theorem polynomial_mcSpecPerm (c : Cfg ℂ) (hc : PermCfg c) (σ : Equiv.Perm (Fin c.D)) (C : ℕ) (coeffs : List ℂ)
    (hco : ∀ x ∈ coeffs, x.im = 0) (uh uh' : MC ℂ) (h : MCSpecPerm c σ id uh uh') :
    MCSpecPerm c σ id (polynomial c C coeffs uh) (polynomial c C coeffs uh') := by
  have hu := mcFieldPerm_nifft c hc.hD hc.hN σ id C (id_lt_iff C) uh uh' h
  have hr := mcReal_nifft c hc.hN C uh
  unfold polynomial
  simp only []
  generalize (tabC C fun ch => nifft c (uh.getD ch #[])) = U at hu hr ⊢
  generalize (tabC C fun ch => nifft c (uh'.getD ch #[])) = U' at hu ⊢
  exact mcSpecPerm_tabC_id c hc.hN σ C _ _ (fun ch _ => nfft_tab_specPerm c hc σ _ _
    (fun x hx => im_polyEval_real coeffs hco _ (hr ch x hx))
    (fun x hx => by rw [show at2 U' ch x = at2 U ch (permIdx c.D c.N σ x) from hu ch x hx]))

/-- **T2, convection, `single_channel = True`, conservative** (`−b ½ Σ_d ∂_d u²` on every channel):
    the multiplier `Σ_d ∂_d` is symmetric in the axes -/
theorem convection_cons_mcSpecPerm (c : Cfg ℂ) (hc : PermCfg c) (σ : Equiv.Perm (Fin c.D)) (C : ℕ) (scale : ℂ)
    (hsc : scale.im = 0) (uh uh' : MC ℂ) (h : MCSpecPerm c σ id uh uh') :
    MCSpecPerm c σ id (convection c C scale true true uh) (convection c C scale true true uh') := by
  have hu := mcFieldPerm_nifft c hc.hD hc.hN σ id C (id_lt_iff C) uh uh' h
  have hr := mcReal_nifft c hc.hN C uh
  unfold convection
  simp only [↓reduceIte]
  generalize (tabC C fun ch => nifft c (uh.getD ch #[])) = U at hu hr ⊢
  generalize (tabC C fun ch => nifft c (uh'.getD ch #[])) = U' at hu ⊢
  have hsq : ∀ ch, SpecPerm c.D c.N σ
      (nfft c (tab (gridSize c) fun j => at2 U ch j * at2 U ch j))
      (nfft c (tab (gridSize c) fun j => at2 U' ch j * at2 U' ch j)) := fun ch =>
    nfft_tab_specPerm c hc σ _ _ (fun x hx => im_mul_real (hr ch x hx) (hr ch x hx))
      (fun x hx => by rw [show at2 U' ch x = at2 U ch (permIdx c.D c.N σ x) from hu ch x hx])
  -- the output multiplier as a function of the wavenumber vector
  have hr2 : (-scale * qlit 1 2 : ℂ).im = 0 := by
    apply im_mul_real
    · rw [Complex.neg_im, hsc, neg_zero]
    · simp
  have hg : ∀ k : Fin c.D → ℤ, (fun k => (-scale * qlit 1 2) * sumDerivFn c k) (-k)
      = (starRingEnd ℂ) ((fun k => (-scale * qlit 1 2) * sumDerivFn c k) k) := by
    intro k
    show (-scale * qlit 1 2) * sumDerivFn c (-k) = (starRingEnd ℂ) ((-scale * qlit 1 2) * sumDerivFn c k)
    rw [sumDerivFn_neg c hc.hs, map_mul, Complex.conj_eq_iff_im.mpr hr2]
  refine mcSpecPerm_tab2_id c hc.hN σ C _ _ (fun ch hch => ?_)
  have key := specPerm_mul c.D c.N hc.hD hc.hN σ (fun k => (-scale * qlit 1 2) * sumDerivFn c k) hg _ _ (hsq ch)
  refine specPerm_congr c.D c.N hc.hN σ _ _ _ _ ?_ ?_ key
  · intro m hm
    have hm' : m < modes c := hm
    rw [DFT.tab_getD _ _ _ _ hm, DFT.tab_getD _ _ _ _ hm', at2_tabC_any, if_pos hch, sumList_deriv_eq]
    ring
  · intro m hm
    have hm' : m < modes c := hm
    rw [DFT.tab_getD _ _ _ _ hm, DFT.tab_getD _ _ _ _ hm', at2_tabC_any, if_pos hch, sumList_deriv_eq,
      sumDerivFn_comp]
    ring

/-- the derivative fields `∂_e u` of one channel -/
theorem deriv_fields_perm (c : Cfg ℂ) (hc : PermCfg c) (σ : Equiv.Perm (Fin c.D)) (a a' : Array ℂ)
    (h : SpecPerm c.D c.N σ a a') (e : Fin c.D) (j : ℕ) (hj : j < gridSize c) :
    (nifft c (tab (modes c) fun m => Nonlin.deriv c (σ e) m * a'.getD m 0)).getD j 0
      = (nifft c (tab (modes c) fun m => Nonlin.deriv c e m * a.getD m 0)).getD (permIdx c.D c.N σ j) 0 :=
  nifft_deriv_fieldPerm c hc.hD hc.hN hc.hs σ e a a' h j hj

/-- **T2, convection, `single_channel = True`, non-conservative** (`−b u Σ_d ∂_d u`, one channel) -/
theorem convection_noncons_mcSpecPerm (c : Cfg ℂ) (hc : PermCfg c) (σ : Equiv.Perm (Fin c.D)) (C : ℕ)
    (scale : ℂ) (hsc : scale.im = 0) (uh uh' : MC ℂ) (h : MCSpecPerm c σ id uh uh') :
    MCSpecPerm c σ id (convection c C scale true false uh) (convection c C scale true false uh') := by
  have hu := mcFieldPerm_nifft c hc.hD hc.hN σ id C (id_lt_iff C) uh uh' h
  have hr := mcReal_nifft c hc.hN C uh
  have h0 := mcSpecPerm_chan c hc.hN σ id uh uh' h 0
  unfold convection
  simp only [↓reduceIte, Bool.false_eq_true]
  generalize (tabC C fun ch => nifft c (uh.getD ch #[])) = U at hu hr ⊢
  generalize (tabC C fun ch => nifft c (uh'.getD ch #[])) = U' at hu ⊢
  have hconv : SpecPerm c.D c.N σ
      (nfft c (tab (gridSize c) fun j => sumList ((List.range c.D).map fun d =>
        at2 U 0 j * at2 (tabC c.D fun d => nifft c (tab (modes c) fun m => Nonlin.deriv c d m * at2 uh 0 m)) d j)))
      (nfft c (tab (gridSize c) fun j => sumList ((List.range c.D).map fun d =>
        at2 U' 0 j * at2 (tabC c.D fun d => nifft c (tab (modes c) fun m => Nonlin.deriv c d m * at2 uh' 0 m)) d j))) := by
    apply nfft_tab_specPerm c hc σ
    · intro x hx
      apply im_sumList_real
      intro d hd
      rw [at2_tabC_any, if_pos hd]
      exact im_mul_real (hr 0 x hx) (nifft_isRealND c hc.hN _ x hx)
    · intro x hx
      rw [sumList_axes_eq, sumList_axes_eq, ← Equiv.sum_comp σ]
      apply Finset.sum_congr rfl
      intro e _
      rw [at2_tabC_any, if_pos (σ e).2, at2_tabC_any, if_pos e.2,
        show at2 U' 0 x = at2 U 0 (permIdx c.D c.N σ x) from hu 0 x hx]
      congr 1
      exact deriv_fields_perm c hc σ _ _ h0 e x hx
  refine mcSpecPerm_tab2_id c hc.hN σ 1 _ _ (fun ch _ => ?_)
  exact specPerm_smul c.D c.N hc.hD hc.hN σ (-scale) (by rw [Complex.neg_im, hsc, neg_zero]) _ _ hconv

/-- **T2, gradient norm** (`−b ½ Σ_d (∂_d u)²`), both `zeroFix`, any channel count -/
theorem gradientNorm_mcSpecPerm (c : Cfg ℂ) (hc : PermCfg c) (σ : Equiv.Perm (Fin c.D)) (C : ℕ) (scale : ℂ)
    (hsc : scale.im = 0) (zeroFix : Bool) (uh uh' : MC ℂ) (h : MCSpecPerm c σ id uh uh') :
    MCSpecPerm c σ id (gradientNorm c C scale zeroFix uh) (gradientNorm c C scale zeroFix uh') := by
  have hD := hc.hD
  have hidx : ∀ ch, ch < C → ∀ d, d < c.D →
      (ch * c.D + d) % c.D = d ∧ (ch * c.D + d) / c.D = ch ∧ ch * c.D + d < C * c.D := by
    intro ch hch d hd
    refine ⟨?_, ?_, ?_⟩
    · rw [Nat.add_comm, Nat.add_mul_mod_self_right, Nat.mod_eq_of_lt hd]
    · rw [Nat.add_comm, Nat.add_mul_div_right _ _ hD, Nat.div_eq_of_lt hd, zero_add]
    · calc ch * c.D + d < ch * c.D + c.D := by omega
        _ = (ch + 1) * c.D := by ring
        _ ≤ C * c.D := Nat.mul_le_mul_right _ hch
  -- the gradient fields
  have hgval : ∀ (vh : MC ℂ) ch, ch < C → ∀ d, d < c.D → ∀ x,
      at2 (tabC (C * c.D) fun cd => nifft c (tab (modes c) fun m =>
        Nonlin.deriv c (cd % c.D) m * at2 vh (cd / c.D) m)) (ch * c.D + d) x
      = (nifft c (tab (modes c) fun m => Nonlin.deriv c d m * at2 vh ch m)).getD x 0 := by
    intro vh ch hch d hd x
    obtain ⟨e1, e2, e3⟩ := hidx ch hch d hd
    rw [at2_tabC_any, if_pos e3, e1, e2]
  unfold gradientNorm
  simp only []
  generalize hG : (tabC (C * c.D) fun cd => nifft c (tab (modes c) fun m =>
    Nonlin.deriv c (cd % c.D) m * at2 uh (cd / c.D) m)) = GR at hgval ⊢
  generalize hG' : (tabC (C * c.D) fun cd => nifft c (tab (modes c) fun m =>
    Nonlin.deriv c (cd % c.D) m * at2 uh' (cd / c.D) m)) = GR' at hgval ⊢
  have hgr : ∀ ch, ch < C → ∀ d, d < c.D → ∀ x, x < gridSize c → (at2 GR (ch * c.D + d) x).im = 0 := by
    intro ch hch d hd x hx
    rw [← hG, hgval uh ch hch d hd x]
    exact nifft_isRealND c hc.hN _ x hx
  have hgp : ∀ ch, ch < C → ∀ e : Fin c.D, ∀ x, x < gridSize c →
      at2 GR' (ch * c.D + (σ e : ℕ)) x = at2 GR (ch * c.D + (e : ℕ)) (permIdx c.D c.N σ x) := by
    intro ch hch e x hx
    rw [← hG, ← hG', hgval uh' ch hch _ (σ e).2 x, hgval uh ch hch _ e.2 _]
    exact deriv_fields_perm c hc σ _ _ (mcSpecPerm_chan c hc.hN σ id uh uh' h ch) e x hx
  -- the squared gradient norm
  have hqr : ∀ ch, ch < C → ∀ x, x < gridSize c →
      (sumList ((List.range c.D).map fun d => at2 GR (ch * c.D + d) x * at2 GR (ch * c.D + d) x)).im = 0 :=
    fun ch hch x hx => im_sumList_real _ _ (fun d hd => im_mul_real (hgr ch hch d hd x hx) (hgr ch hch d hd x hx))
  have hqp : ∀ ch, ch < C → ∀ x, x < gridSize c →
      sumList ((List.range c.D).map fun d => at2 GR' (ch * c.D + d) x * at2 GR' (ch * c.D + d) x)
        = sumList ((List.range c.D).map fun d => at2 GR (ch * c.D + d) (permIdx c.D c.N σ x)
            * at2 GR (ch * c.D + d) (permIdx c.D c.N σ x)) := by
    intro ch hch x hx
    rw [sumList_axes_eq, sumList_axes_eq, ← Equiv.sum_comp σ]
    exact Finset.sum_congr rfl (fun e _ => by rw [hgp ch hch e x hx])
  generalize hQ : (tab2 C (gridSize c) fun ch x => sumList ((List.range c.D).map fun d =>
    at2 GR (ch * c.D + d) x * at2 GR (ch * c.D + d) x)) = Q
  generalize hQ' : (tab2 C (gridSize c) fun ch x => sumList ((List.range c.D).map fun d =>
    at2 GR' (ch * c.D + d) x * at2 GR' (ch * c.D + d) x)) = Q'
  have hQr : ∀ ch x, x < gridSize c → (at2 Q ch x).im = 0 := by
    intro ch x hx
    rw [← hQ, at2_tab2_any]
    split_ifs with hcx
    · exact hqr ch hcx.1 x hx
    · rfl
  have hQp : ∀ ch x, x < gridSize c → at2 Q' ch x = at2 Q ch (permIdx c.D c.N σ x) := by
    intro ch x hx
    have hp := permIdx_lt' c.D c.N σ x hx
    rw [← hQ, ← hQ', at2_tab2_any, at2_tab2_any]
    by_cases hch : ch < C
    · rw [if_pos ⟨hch, hx⟩, if_pos ⟨hch, hp⟩, hqp ch hch x hx]
    · rw [if_neg (fun h' => hch h'.1), if_neg (fun h' => hch h'.1)]
  have hmean : (tab C fun ch => sumRange (gridSize c) (fun x => at2 Q' ch x) / lit (gridSize c))
      = tab C fun ch => sumRange (gridSize c) (fun x => at2 Q ch x) / lit (gridSize c) :=
    Nonlin.tab_congr _ _ _ (fun ch _ => by
      have hGs : gridSize c = c.N ^ c.D := rfl
      rw [DFT.sumRange_eq, DFT.sumRange_eq, hGs, ← sum_permIdx c.D c.N hc.hN σ (fun x => at2 Q ch x)]
      congr 1
      exact Finset.sum_congr rfl (fun x hx => hQp ch x (Finset.mem_range.mp hx)))
  rw [hmean]
  have hmr : ∀ ch, ((tab C fun ch => sumRange (gridSize c) (fun x => at2 Q ch x) / lit (gridSize c)).getD ch 0).im = 0 := by
    intro ch
    rcases Nat.lt_or_ge ch C with hch | hch
    · rw [DFT.tab_getD _ _ _ _ hch, DFT.sumRange_eq]
      have hs : (∑ x ∈ range (gridSize c), at2 Q ch x).im = 0 := by
        rw [Complex.im_sum]
        exact Finset.sum_eq_zero (fun x hx => hQr ch x (Finset.mem_range.mp hx))
      rw [show (lit (gridSize c) : ℂ) = ((gridSize c : ℝ) : ℂ) by simp, Complex.div_ofReal_im, hs, zero_div]
    · rw [DFT.tab_getD_of_le _ _ _ _ hch]; rfl
  generalize (tab C fun ch => sumRange (gridSize c) (fun x => at2 Q ch x) / lit (gridSize c)) = MEAN at hmr ⊢
  have hqh : ∀ ch, SpecPerm c.D c.N σ
      (nfft c ((tab2 C (gridSize c) fun ch x =>
        if zeroFix = true then at2 Q ch x - MEAN.getD ch 0 else at2 Q ch x).getD ch #[]))
      (nfft c ((tab2 C (gridSize c) fun ch x =>
        if zeroFix = true then at2 Q' ch x - MEAN.getD ch 0 else at2 Q' ch x).getD ch #[])) := by
    intro ch
    apply nfft_specPerm c hc.hD hc.hN hc.hny σ
    · intro x hx
      show (at2 (tab2 C (gridSize c) fun ch x =>
        if zeroFix = true then at2 Q ch x - MEAN.getD ch 0 else at2 Q ch x) ch x).im = 0
      rw [at2_tab2_any]
      split_ifs
      · exact im_sub_real (hQr ch x hx) (hmr ch)
      · exact hQr ch x hx
      · rfl
    · intro x hx
      have hx' : x < gridSize c := hx
      have hp : permIdx c.D c.N σ x < gridSize c := permIdx_lt' c.D c.N σ x hx
      show at2 (tab2 C (gridSize c) fun ch x =>
          if zeroFix = true then at2 Q' ch x - MEAN.getD ch 0 else at2 Q' ch x) ch x
        = at2 (tab2 C (gridSize c) fun ch x =>
          if zeroFix = true then at2 Q ch x - MEAN.getD ch 0 else at2 Q ch x) ch (permIdx c.D c.N σ x)
      rw [at2_tab2_any, at2_tab2_any]
      by_cases hch : ch < C
      · rw [if_pos (show ch < C ∧ x < gridSize c from ⟨hch, hx'⟩),
          if_pos (show ch < C ∧ permIdx c.D c.N σ x < gridSize c from ⟨hch, hp⟩), hQp ch x hx']
      · rw [if_neg (show ¬ (ch < C ∧ x < gridSize c) from fun h' => hch h'.1),
          if_neg (show ¬ (ch < C ∧ permIdx c.D c.N σ x < gridSize c) from fun h' => hch h'.1)]
  refine mcSpecPerm_tab2_id c hc.hN σ C _ _ (fun ch hch => ?_)
  have hr2 : (-scale * qlit 1 2 : ℂ).im = 0 := by
    apply im_mul_real
    · rw [Complex.neg_im, hsc, neg_zero]
    · simp
  have key := specPerm_smul c.D c.N hc.hD hc.hN σ (-scale * qlit 1 2) hr2 _ _ (hqh ch)
  refine specPerm_congr c.D c.N hc.hN σ _ _ _ _ ?_ ?_ key
  · intro m hm
    have hm' : m < modes c := hm
    rw [DFT.tab_getD _ _ _ _ hm, DFT.tab_getD _ _ _ _ hm', at2_tabC_any, if_pos hch]
    ring
  · intro m hm
    have hm' : m < modes c := hm
    rw [DFT.tab_getD _ _ _ _ hm, DFT.tab_getD _ _ _ _ hm', at2_tabC_any, if_pos hch]
    ring

/-- **T2, `GeneralNonlinearFun`** (quadratic polynomial + single-channel conservative convection +
    gradient norm), real scales, any channel count -/
theorem general_mcSpecPerm (c : Cfg ℂ) (hc : PermCfg c) (σ : Equiv.Perm (Fin c.D)) (C : ℕ) (s0 s1 s2 : ℂ)
    (h0 : s0.im = 0) (h1 : s1.im = 0) (h2 : s2.im = 0) (zeroFix : Bool) (uh uh' : MC ℂ)
    (h : MCSpecPerm c σ id uh uh') :
    MCSpecPerm c σ id (general c C s0 s1 s2 zeroFix uh) (general c C s0 s1 s2 zeroFix uh') := by
  have ha := polynomial_mcSpecPerm c hc σ C [0, 0, s0] (by
    intro x hx
    simp only [List.mem_cons, List.not_mem_nil, or_false] at hx
    rcases hx with rfl | rfl | rfl <;> simp [h0]) uh uh' h
  have hb := convection_cons_mcSpecPerm c hc σ C (-s1) (by rw [Complex.neg_im, h1, neg_zero]) uh uh' h
  have hg := gradientNorm_mcSpecPerm c hc σ C (-s2) (by rw [Complex.neg_im, h2, neg_zero]) zeroFix uh uh' h
  unfold general
  simp only []
  refine mcSpecPerm_tab2_id c hc.hN σ C _ _ (fun ch _ => ?_)
  exact specPerm_add c.D c.N hc.hN σ _ _ _ _ (specPerm_add c.D c.N hc.hN σ _ _ _ _ (ha ch) (hb ch)) (hg ch)

/-! ## non-vacuity -/

example : ∃ c : Cfg ℂ, PermCfg c ∧ c.N % 2 = 0 ∧ c.D = 3 :=
  ⟨⟨3, 8, 1, 2, 3⟩, ⟨by norm_num, by norm_num, by simp, Or.inr ⟨by norm_num, by norm_num⟩⟩, rfl, rfl⟩

example : ∃ c : Cfg ℂ, PermCfg c ∧ c.fq = 0 :=
  ⟨⟨2, 5, 1, 0, 0⟩, ⟨by norm_num, by norm_num, by simp, Or.inl rfl⟩, rfl⟩

example (c : Cfg ℂ) (hN : 0 < c.N) (σ : Equiv.Perm (Fin c.D)) : ∃ uh uh', MCSpecPerm c σ id uh uh' :=
  ⟨#[], #[], fun ch => specPerm_zero c.D c.N hN σ _ _
    (fun m hm => by rw [DFT.tab_getD _ _ _ _ (show m < modes c from hm)]; simp [at2])
    (fun m hm => by rw [DFT.tab_getD _ _ _ _ (show m < modes c from hm)]; simp [at2])⟩

end Exponax.AxisPerm
