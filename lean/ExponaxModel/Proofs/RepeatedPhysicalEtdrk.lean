import ExponaxModel.Proofs.RepeatedPhysicalNonlin
import ExponaxModel.Proofs.RepeatedPhysicalWavenumber
import ExponaxModel.Generated.Etdrk
/-
C14 support, part 6 — the REGENERATED ETDRK step formulas `Gen.Etdrk.E0step … E4step` (used at
`K := ℕ → ℂ`, one complex number per stored mode, as in C09/C10/C19) map realisable spectra to
realisable spectra, hence `RepeatedStepper` equals the physical loop for every ETDRK order.

  * `HermSpec D N f`            : the entrywise core of `Realisable` for a spectrum given as a function
                                  `ℕ → ℂ`; `realisable_tab_iff` : `Realisable D N (tab (numModes D N) f) ↔ HermSpec D N f`;
                                  `Realisable.hermSpec`, `tab_toFun` : arrays ↔ functions;
  * closure (item 1)            : `HermSpec.add/.sub/.neg/.mul_symbol/.natCast_mul/.real_smul`,
                                  `HermSymbol.mul/.add/.mul_natCast/…`, array versions `realisable_sub`,
                                  `realisable_neg`;
  * MAIN (item 2)               : `E0step_hermSpec … E4step_hermSpec` and the `Realisable`/`tab` forms
                                  `E0step_preserves_realisable … E4step_preserves_realisable`;
  * COROLLARY (item 3)          : `liftStep`, `repeatedStepper_eq_loop_E0 … _E4`;
  * item 4 (a)                  : `pseudoNl D N m g` (`û ↦ m ⊙ rfftn (g (irfftn û))`) returns a `HermSpec` for EVERY
                                  input (`pseudoNl_hermSpec`); `hermSymbol_exp_term`, `hermSymbol_half_exp_term_E3/E4`,
                                  `odd_grid_hermSymbol_exp_term`.
The contour-integral coefficients are treated in `RepeatedPhysicalEtdrkCoef.lean`.
Everything for general `D ≥ 1`, `N ≥ 1`.
-/
set_option linter.unusedVariables false
set_option linter.unusedSimpArgs false
namespace Exponax.C2R
open Exponax Exponax.Layout Exponax.Transform Exponax.DFT Exponax.Conserve Finset Exponax.Gen.Etdrk

/-! ### 0. spectra as functions `ℕ → ℂ` -/

/-- the entrywise core of `Realisable`: Hermitian consistency on the self-conjugate columns, for a
    spectrum given as a function of the stored index -/
def HermSpec (D N : ℕ) (f : ℕ → ℂ) : Prop :=
  ∀ h < numModes D N, herm_weight D N h = 1 → f h = (starRingEnd ℂ) (f (conjIdx D N h))

/-- read a stored spectrum as a function of the stored index -/
def toFun (C : Array ℂ) : ℕ → ℂ := fun h => C.getD h 0

theorem toFun_apply (C : Array ℂ) (h : ℕ) : toFun C h = C.getD h 0 := rfl

/-- **bridge**: the array of the first `numModes D N` values of `f` is realisable iff `f` is
    Hermitian-consistent -/
theorem realisable_tab_iff (D N : ℕ) (hD : 0 < D) (hN : 0 < N) (f : ℕ → ℂ) :
    Realisable D N (tab (numModes D N) f) ↔ HermSpec D N f := by
  constructor
  · intro H h hh hw
    have := H.2 h hh hw
    rwa [tab_getD _ _ _ _ hh, tab_getD _ _ _ _ (conjIdx_lt D N h hD hN)] at this
  · intro H
    refine ⟨tab_size _ _, ?_⟩
    intro h hh hw
    rw [tab_getD _ _ _ _ hh, tab_getD _ _ _ _ (conjIdx_lt D N h hD hN)]
    exact H h hh hw

theorem Realisable.hermSpec {D N : ℕ} {C : Array ℂ} (hC : Realisable D N C) : HermSpec D N (toFun C) :=
  hC.2

theorem tab_toFun (D N : ℕ) (C : Array ℂ) (hC : C.size = numModes D N) :
    tab (numModes D N) (toFun C) = C :=
  array_ext_getD _ _ (numModes D N) (tab_size _ _) hC (fun i hi => tab_getD _ _ _ _ hi)

theorem toFun_tab (n : ℕ) (f : ℕ → ℂ) (h : ℕ) (hh : h < n) : toFun (tab n f) h = f h :=
  tab_getD _ _ _ _ hh

/-- `Realisable` in terms of `HermSpec` -/
theorem realisable_iff_hermSpec (D N : ℕ) (C : Array ℂ) :
    Realisable D N C ↔ C.size = numModes D N ∧ HermSpec D N (toFun C) := Iff.rfl

/-! ### 1. closure properties -/

theorem HermSpec.add {D N : ℕ} {f g : ℕ → ℂ} (hf : HermSpec D N f) (hg : HermSpec D N g) :
    HermSpec D N (f + g) := by
  intro h hh hw
  rw [Pi.add_apply, Pi.add_apply, map_add, ← hf h hh hw, ← hg h hh hw]

theorem HermSpec.sub {D N : ℕ} {f g : ℕ → ℂ} (hf : HermSpec D N f) (hg : HermSpec D N g) :
    HermSpec D N (f - g) := by
  intro h hh hw
  rw [Pi.sub_apply, Pi.sub_apply, map_sub, ← hf h hh hw, ← hg h hh hw]

theorem HermSpec.neg {D N : ℕ} {f : ℕ → ℂ} (hf : HermSpec D N f) : HermSpec D N (-f) := by
  intro h hh hw
  rw [Pi.neg_apply, Pi.neg_apply, map_neg, ← hf h hh hw]

/-- entrywise product with a `HermSymbol` coefficient array -/
theorem HermSpec.mul_symbol {D N : ℕ} {e f : ℕ → ℂ} (he : HermSymbol D N e) (hf : HermSpec D N f) :
    HermSpec D N (e * f) := by
  intro h hh hw
  rw [Pi.mul_apply, Pi.mul_apply, map_mul, he h hh hw, Complex.conj_conj, ← hf h hh hw]

/-- multiples by natural-number literals (`lit 2 * ·` of ETDRK3/4) -/
theorem HermSpec.natCast_mul {D N : ℕ} {f : ℕ → ℂ} (n : ℕ) (hf : HermSpec D N f) :
    HermSpec D N ((n : ℕ → ℂ) * f) := by
  intro h hh hw
  rw [Pi.mul_apply, Pi.mul_apply, map_mul, ← hf h hh hw]
  show ((n : ℂ)) * f h = (starRingEnd ℂ) ((n : ℂ)) * f h
  rw [Complex.conj_natCast]

/-- multiples by real scalars -/
theorem HermSpec.real_smul {D N : ℕ} {f : ℕ → ℂ} (r : ℝ) (hf : HermSpec D N f) :
    HermSpec D N (fun h => (r : ℂ) * f h) := by
  intro h hh hw
  show (r : ℂ) * f h = (starRingEnd ℂ) ((r : ℂ) * f (conjIdx D N h))
  rw [map_mul, Complex.conj_ofReal, ← hf h hh hw]

theorem HermSpec.zero (D N : ℕ) : HermSpec D N 0 := by
  intro h hh hw
  simp

/-- symbols: products, sums, real multiples of `HermSymbol`s are `HermSymbol`s -/
theorem HermSymbol.mul {D N : ℕ} {e c : ℕ → ℂ} (he : HermSymbol D N e) (hc : HermSymbol D N c) :
    HermSymbol D N (e * c) := by
  intro h hh hw
  rw [Pi.mul_apply, Pi.mul_apply, map_mul, he h hh hw, hc h hh hw]

theorem HermSymbol.add {D N : ℕ} {e c : ℕ → ℂ} (he : HermSymbol D N e) (hc : HermSymbol D N c) :
    HermSymbol D N (e + c) := by
  intro h hh hw
  rw [Pi.add_apply, Pi.add_apply, map_add, he h hh hw, hc h hh hw]

theorem HermSymbol.sub {D N : ℕ} {e c : ℕ → ℂ} (he : HermSymbol D N e) (hc : HermSymbol D N c) :
    HermSymbol D N (e - c) := by
  intro h hh hw
  rw [Pi.sub_apply, Pi.sub_apply, map_sub, he h hh hw, hc h hh hw]

theorem HermSymbol.natCast (D N n : ℕ) : HermSymbol D N (n : ℕ → ℂ) := by
  intro h hh hw
  show (n : ℂ) = (starRingEnd ℂ) (n : ℂ)
  rw [Complex.conj_natCast]

theorem HermSymbol.mul_natCast {D N : ℕ} {e : ℕ → ℂ} (he : HermSymbol D N e) (n : ℕ) :
    HermSymbol D N (e * (n : ℕ → ℂ)) :=
  he.mul (HermSymbol.natCast D N n)

theorem HermSymbol.real_smul {D N : ℕ} {e : ℕ → ℂ} (r : ℝ) (he : HermSymbol D N e) :
    HermSymbol D N (fun h => (r : ℂ) * e h) := by
  intro h hh hw
  show (r : ℂ) * e (conjIdx D N h) = (starRingEnd ℂ) ((r : ℂ) * e h)
  rw [map_mul, Complex.conj_ofReal, he h hh hw]

/-- array versions: entrywise difference and negation (`realisable_add`, `realisable_smul_real`,
    `diag_preserves_realisable` are in `RepeatedPhysicalNonlin` / `RepeatedPhysicalDiag`) -/
noncomputable def subSpec (D N : ℕ) (A B : Array ℂ) : Array ℂ :=
  tab (numModes D N) (fun h => A.getD h 0 - B.getD h 0)

theorem realisable_sub (D N : ℕ) (hD : 0 < D) (hN : 0 < N) (A B : Array ℂ)
    (hA : Realisable D N A) (hB : Realisable D N B) : Realisable D N (subSpec D N A B) :=
  (realisable_tab_iff D N hD hN _).mpr (hA.hermSpec.sub hB.hermSpec)

theorem realisable_neg (D N : ℕ) (hD : 0 < D) (hN : 0 < N) (A : Array ℂ) (hA : Realisable D N A) :
    Realisable D N (tab (numModes D N) (fun h => - A.getD h 0)) :=
  (realisable_tab_iff D N hD hN _).mpr hA.hermSpec.neg

/-- the array operations are the `tab`s of the function operations -/
theorem addSpec_eq_tab (D N : ℕ) (A B : Array ℂ) :
    addSpec D N A B = tab (numModes D N) (toFun A + toFun B) := rfl

theorem diagStep_eq_tab (D N : ℕ) (e : ℕ → ℂ) (C : Array ℂ) :
    diagStep D N e C = tab (numModes D N) (e * toFun C) := rfl

/-! ### 2. MAIN: the regenerated ETDRK steps preserve Hermitian consistency -/

section steps
variable {D N : ℕ} {e eh a1 a2 a3 a4 a5 a6 : ℕ → ℂ} {𝒩 : (ℕ → ℂ) → (ℕ → ℂ)} {u : ℕ → ℂ}

theorem E0step_hermSpec (he : HermSymbol D N e) (hu : HermSpec D N u) :
    HermSpec D N (E0step e u) :=
  hu.mul_symbol he

theorem E1step_hermSpec (he : HermSymbol D N e) (h1 : HermSymbol D N a1)
    (h𝒩 : ∀ f, HermSpec D N f → HermSpec D N (𝒩 f)) (hu : HermSpec D N u) :
    HermSpec D N (E1step e a1 𝒩 u) :=
  (hu.mul_symbol he).add ((h𝒩 u hu).mul_symbol h1)

theorem E2step_hermSpec (he : HermSymbol D N e) (h1 : HermSymbol D N a1) (h2 : HermSymbol D N a2)
    (h𝒩 : ∀ f, HermSpec D N f → HermSpec D N (𝒩 f)) (hu : HermSpec D N u) :
    HermSpec D N (E2step e a1 a2 𝒩 u) := by
  have hn0 := h𝒩 u hu
  have hs1 : HermSpec D N (e * u + a1 * 𝒩 u) := (hu.mul_symbol he).add (hn0.mul_symbol h1)
  simp only [E2step]
  exact hs1.add (((h𝒩 _ hs1).sub hn0).mul_symbol h2)

theorem E3step_hermSpec (he : HermSymbol D N e) (heh : HermSymbol D N eh) (h1 : HermSymbol D N a1)
    (h2 : HermSymbol D N a2) (h3 : HermSymbol D N a3) (h4 : HermSymbol D N a4) (h5 : HermSymbol D N a5)
    (h𝒩 : ∀ f, HermSpec D N f → HermSpec D N (𝒩 f)) (hu : HermSpec D N u) :
    HermSpec D N (E3step e eh a1 a2 a3 a4 a5 𝒩 u) := by
  have hn0 := h𝒩 u hu
  have hs1 : HermSpec D N (eh * u + a1 * 𝒩 u) := (hu.mul_symbol heh).add (hn0.mul_symbol h1)
  have hn1 := h𝒩 _ hs1
  have hs2 : HermSpec D N (e * u + a2 * ((lit 2 : ℕ → ℂ) * 𝒩 (eh * u + a1 * 𝒩 u) - 𝒩 u)) :=
    (hu.mul_symbol he).add (((hn1.natCast_mul 2).sub hn0).mul_symbol h2)
  have hn2 := h𝒩 _ hs2
  simp only [E3step]
  exact (((hu.mul_symbol he).add (hn0.mul_symbol h3)).add (hn1.mul_symbol h4)).add (hn2.mul_symbol h5)

theorem E4step_hermSpec (he : HermSymbol D N e) (heh : HermSymbol D N eh) (h1 : HermSymbol D N a1)
    (h2 : HermSymbol D N a2) (h3 : HermSymbol D N a3) (h4 : HermSymbol D N a4) (h5 : HermSymbol D N a5)
    (h6 : HermSymbol D N a6)
    (h𝒩 : ∀ f, HermSpec D N f → HermSpec D N (𝒩 f)) (hu : HermSpec D N u) :
    HermSpec D N (E4step e eh a1 a2 a3 a4 a5 a6 𝒩 u) := by
  have hn0 := h𝒩 u hu
  have hs1 : HermSpec D N (eh * u + a1 * 𝒩 u) := (hu.mul_symbol heh).add (hn0.mul_symbol h1)
  have hn1 := h𝒩 _ hs1
  have hs2 : HermSpec D N (eh * u + a2 * 𝒩 (eh * u + a1 * 𝒩 u)) :=
    (hu.mul_symbol heh).add (hn1.mul_symbol h2)
  have hn2 := h𝒩 _ hs2
  have hs3 : HermSpec D N (eh * (eh * u + a1 * 𝒩 u)
      + a3 * ((lit 2 : ℕ → ℂ) * 𝒩 (eh * u + a2 * 𝒩 (eh * u + a1 * 𝒩 u)) - 𝒩 u)) :=
    (hs1.mul_symbol heh).add (((hn2.natCast_mul 2).sub hn0).mul_symbol h3)
  have hn3 := h𝒩 _ hs3
  simp only [E4step]
  exact (((hu.mul_symbol he).add (hn0.mul_symbol h4)).add
    ((hn1.add hn2).mul_symbol (h5.mul_natCast 2))).add (hn3.mul_symbol h6)

end steps

/-- **MAIN, all orders at once (function form)**: if every stored coefficient array is a `HermSymbol`
    and the spectral nonlinear function keeps Hermitian consistency, every regenerated ETDRK step
    does. -/
theorem etdrk_steps_hermSpec (D N : ℕ) (e eh a1 a2 a3 a4 a5 a6 : ℕ → ℂ)
    (he : HermSymbol D N e) (heh : HermSymbol D N eh) (h1 : HermSymbol D N a1)
    (h2 : HermSymbol D N a2) (h3 : HermSymbol D N a3) (h4 : HermSymbol D N a4) (h5 : HermSymbol D N a5)
    (h6 : HermSymbol D N a6) (𝒩 : (ℕ → ℂ) → (ℕ → ℂ))
    (h𝒩 : ∀ f, HermSpec D N f → HermSpec D N (𝒩 f)) (u : ℕ → ℂ) (hu : HermSpec D N u) :
    HermSpec D N (E0step e u) ∧ HermSpec D N (E1step e a1 𝒩 u) ∧ HermSpec D N (E2step e a1 a2 𝒩 u) ∧
    HermSpec D N (E3step e eh a1 a2 a3 a4 a5 𝒩 u) ∧
    HermSpec D N (E4step e eh a1 a2 a3 a4 a5 a6 𝒩 u) :=
  ⟨E0step_hermSpec he hu, E1step_hermSpec he h1 h𝒩 hu, E2step_hermSpec he h1 h2 h𝒩 hu,
    E3step_hermSpec he heh h1 h2 h3 h4 h5 h𝒩 hu, E4step_hermSpec he heh h1 h2 h3 h4 h5 h6 h𝒩 hu⟩

/-! #### the same in `Realisable` / `tab` form -/

/-- the hypothesis on `𝒩̂` in `Realisable` form is the same as in `HermSpec` form -/
theorem nl_hyp_iff (D N : ℕ) (hD : 0 < D) (hN : 0 < N) (𝒩 : (ℕ → ℂ) → (ℕ → ℂ)) :
    (∀ f, Realisable D N (tab (numModes D N) f) → Realisable D N (tab (numModes D N) (𝒩 f)))
      ↔ (∀ f, HermSpec D N f → HermSpec D N (𝒩 f)) := by
  simp only [realisable_tab_iff D N hD hN]

theorem E0step_preserves_realisable (D N : ℕ) (hD : 0 < D) (hN : 0 < N) (e : ℕ → ℂ)
    (he : HermSymbol D N e) (u : ℕ → ℂ) (hu : Realisable D N (tab (numModes D N) u)) :
    Realisable D N (tab (numModes D N) (E0step e u)) := by
  rw [realisable_tab_iff D N hD hN] at hu ⊢
  exact E0step_hermSpec he hu

theorem E1step_preserves_realisable (D N : ℕ) (hD : 0 < D) (hN : 0 < N) (e a1 : ℕ → ℂ)
    (he : HermSymbol D N e) (h1 : HermSymbol D N a1) (𝒩 : (ℕ → ℂ) → (ℕ → ℂ))
    (h𝒩 : ∀ f, Realisable D N (tab (numModes D N) f) → Realisable D N (tab (numModes D N) (𝒩 f)))
    (u : ℕ → ℂ) (hu : Realisable D N (tab (numModes D N) u)) :
    Realisable D N (tab (numModes D N) (E1step e a1 𝒩 u)) := by
  rw [nl_hyp_iff D N hD hN] at h𝒩
  rw [realisable_tab_iff D N hD hN] at hu ⊢
  exact E1step_hermSpec he h1 h𝒩 hu

theorem E2step_preserves_realisable (D N : ℕ) (hD : 0 < D) (hN : 0 < N) (e a1 a2 : ℕ → ℂ)
    (he : HermSymbol D N e) (h1 : HermSymbol D N a1) (h2 : HermSymbol D N a2)
    (𝒩 : (ℕ → ℂ) → (ℕ → ℂ))
    (h𝒩 : ∀ f, Realisable D N (tab (numModes D N) f) → Realisable D N (tab (numModes D N) (𝒩 f)))
    (u : ℕ → ℂ) (hu : Realisable D N (tab (numModes D N) u)) :
    Realisable D N (tab (numModes D N) (E2step e a1 a2 𝒩 u)) := by
  rw [nl_hyp_iff D N hD hN] at h𝒩
  rw [realisable_tab_iff D N hD hN] at hu ⊢
  exact E2step_hermSpec he h1 h2 h𝒩 hu

theorem E3step_preserves_realisable (D N : ℕ) (hD : 0 < D) (hN : 0 < N)
    (e eh a1 a2 a3 a4 a5 : ℕ → ℂ)
    (he : HermSymbol D N e) (heh : HermSymbol D N eh) (h1 : HermSymbol D N a1)
    (h2 : HermSymbol D N a2) (h3 : HermSymbol D N a3) (h4 : HermSymbol D N a4) (h5 : HermSymbol D N a5)
    (𝒩 : (ℕ → ℂ) → (ℕ → ℂ))
    (h𝒩 : ∀ f, Realisable D N (tab (numModes D N) f) → Realisable D N (tab (numModes D N) (𝒩 f)))
    (u : ℕ → ℂ) (hu : Realisable D N (tab (numModes D N) u)) :
    Realisable D N (tab (numModes D N) (E3step e eh a1 a2 a3 a4 a5 𝒩 u)) := by
  rw [nl_hyp_iff D N hD hN] at h𝒩
  rw [realisable_tab_iff D N hD hN] at hu ⊢
  exact E3step_hermSpec he heh h1 h2 h3 h4 h5 h𝒩 hu

theorem E4step_preserves_realisable (D N : ℕ) (hD : 0 < D) (hN : 0 < N)
    (e eh a1 a2 a3 a4 a5 a6 : ℕ → ℂ)
    (he : HermSymbol D N e) (heh : HermSymbol D N eh) (h1 : HermSymbol D N a1)
    (h2 : HermSymbol D N a2) (h3 : HermSymbol D N a3) (h4 : HermSymbol D N a4) (h5 : HermSymbol D N a5)
    (h6 : HermSymbol D N a6) (𝒩 : (ℕ → ℂ) → (ℕ → ℂ))
    (h𝒩 : ∀ f, Realisable D N (tab (numModes D N) f) → Realisable D N (tab (numModes D N) (𝒩 f)))
    (u : ℕ → ℂ) (hu : Realisable D N (tab (numModes D N) u)) :
    Realisable D N (tab (numModes D N) (E4step e eh a1 a2 a3 a4 a5 a6 𝒩 u)) := by
  rw [nl_hyp_iff D N hD hN] at h𝒩
  rw [realisable_tab_iff D N hD hN] at hu ⊢
  exact E4step_hermSpec he heh h1 h2 h3 h4 h5 h6 h𝒩 hu

/-! ### 3. COROLLARY: `RepeatedStepper` = physical loop for every ETDRK order -/

/-- a per-mode Fourier step `S` on functions `ℕ → ℂ`, as a map of stored spectra (arrays) -/
noncomputable def liftStep (D N : ℕ) (S : (ℕ → ℂ) → (ℕ → ℂ)) (C : Array ℂ) : Array ℂ :=
  tab (numModes D N) (S (toFun C))

theorem liftStep_getD (D N : ℕ) (S : (ℕ → ℂ) → (ℕ → ℂ)) (C : Array ℂ) (h : ℕ)
    (hh : h < numModes D N) : (liftStep D N S C).getD h 0 = S (fun i => C.getD i 0) h :=
  tab_getD _ _ _ _ hh

/-- the lift of the linear step `E0step e` is the diagonal step of `RepeatedPhysicalDiag` -/
theorem liftStep_E0step (D N : ℕ) (e : ℕ → ℂ) : liftStep D N (E0step e) = diagStep D N e := rfl

/-- the lift of `E1step` with a lifted nonlinearity is the ETD-Euler step of `RepeatedPhysicalNonlin`
    (on stored spectra of the right size) -/
theorem liftStep_E1step (D N : ℕ) (e c : ℕ → ℂ) (𝒩 : Array ℂ → Array ℂ) (C : Array ℂ)
    (hC : C.size = numModes D N) :
    liftStep D N (E1step e c (fun f => toFun (rfftnM D N (𝒩 (irfftnM D N (tab (numModes D N) f)))))) C
      = addSpec D N (diagStep D N e C) (diagStep D N c (rfftnM D N (𝒩 (irfftnM D N C)))) := by
  apply array_ext_getD _ _ (numModes D N) (tab_size _ _) (tab_size _ _)
  intro h hh
  rw [tab_getD _ _ _ _ hh, tab_getD _ _ _ _ hh, diagStep_getD D N e C h hh, diagStep_getD D N c _ h hh,
    E1step, tab_toFun D N C hC]
  rfl

theorem liftStep_preserves_realisable (D N : ℕ) (hD : 0 < D) (hN : 0 < N)
    (S : (ℕ → ℂ) → (ℕ → ℂ)) (hS : ∀ f, HermSpec D N f → HermSpec D N (S f)) (C : Array ℂ)
    (hC : Realisable D N C) : Realisable D N (liftStep D N S C) :=
  (realisable_tab_iff D N hD hN _).mpr (hS _ hC.hermSpec)

/-- general form: any function-level step preserving `HermSpec` -/
theorem repeatedStepper_eq_loop_lift (D N : ℕ) (hD : 0 < D) (hN : 0 < N)
    (S : (ℕ → ℂ) → (ℕ → ℂ)) (hS : ∀ f, HermSpec D N f → HermSpec D N (S f))
    (u : Array ℂ) (hu : RealState D N u) (n : ℕ) :
    Loops.repeatN (fun v => irfftnM D N (liftStep D N S (rfftnM D N v))) n u
      = irfftnM D N (Loops.repeatedStepFourier (liftStep D N S) n (rfftnM D N u)) :=
  repeatedStepper_eq_loop D N hD hN _ (liftStep_preserves_realisable D N hD hN S hS) u hu n

theorem repeatedStepper_eq_loop_E0 (D N : ℕ) (hD : 0 < D) (hN : 0 < N) (e : ℕ → ℂ)
    (he : HermSymbol D N e) (u : Array ℂ) (hu : RealState D N u) (n : ℕ) :
    Loops.repeatN (fun v => irfftnM D N (liftStep D N (E0step e) (rfftnM D N v))) n u
      = irfftnM D N (Loops.repeatedStepFourier (liftStep D N (E0step e)) n (rfftnM D N u)) :=
  repeatedStepper_eq_loop_lift D N hD hN _ (fun f hf => E0step_hermSpec he hf) u hu n

theorem repeatedStepper_eq_loop_E1 (D N : ℕ) (hD : 0 < D) (hN : 0 < N) (e a1 : ℕ → ℂ)
    (he : HermSymbol D N e) (h1 : HermSymbol D N a1) (𝒩 : (ℕ → ℂ) → (ℕ → ℂ))
    (h𝒩 : ∀ f, Realisable D N (tab (numModes D N) f) → Realisable D N (tab (numModes D N) (𝒩 f)))
    (u : Array ℂ) (hu : RealState D N u) (n : ℕ) :
    Loops.repeatN (fun v => irfftnM D N (liftStep D N (E1step e a1 𝒩) (rfftnM D N v))) n u
      = irfftnM D N (Loops.repeatedStepFourier (liftStep D N (E1step e a1 𝒩)) n (rfftnM D N u)) :=
  repeatedStepper_eq_loop_lift D N hD hN _
    (fun f hf => E1step_hermSpec he h1 ((nl_hyp_iff D N hD hN 𝒩).mp h𝒩) hf) u hu n

theorem repeatedStepper_eq_loop_E2 (D N : ℕ) (hD : 0 < D) (hN : 0 < N) (e a1 a2 : ℕ → ℂ)
    (he : HermSymbol D N e) (h1 : HermSymbol D N a1) (h2 : HermSymbol D N a2)
    (𝒩 : (ℕ → ℂ) → (ℕ → ℂ))
    (h𝒩 : ∀ f, Realisable D N (tab (numModes D N) f) → Realisable D N (tab (numModes D N) (𝒩 f)))
    (u : Array ℂ) (hu : RealState D N u) (n : ℕ) :
    Loops.repeatN (fun v => irfftnM D N (liftStep D N (E2step e a1 a2 𝒩) (rfftnM D N v))) n u
      = irfftnM D N (Loops.repeatedStepFourier (liftStep D N (E2step e a1 a2 𝒩)) n (rfftnM D N u)) :=
  repeatedStepper_eq_loop_lift D N hD hN _
    (fun f hf => E2step_hermSpec he h1 h2 ((nl_hyp_iff D N hD hN 𝒩).mp h𝒩) hf) u hu n

theorem repeatedStepper_eq_loop_E3 (D N : ℕ) (hD : 0 < D) (hN : 0 < N)
    (e eh a1 a2 a3 a4 a5 : ℕ → ℂ)
    (he : HermSymbol D N e) (heh : HermSymbol D N eh) (h1 : HermSymbol D N a1)
    (h2 : HermSymbol D N a2) (h3 : HermSymbol D N a3) (h4 : HermSymbol D N a4) (h5 : HermSymbol D N a5)
    (𝒩 : (ℕ → ℂ) → (ℕ → ℂ))
    (h𝒩 : ∀ f, Realisable D N (tab (numModes D N) f) → Realisable D N (tab (numModes D N) (𝒩 f)))
    (u : Array ℂ) (hu : RealState D N u) (n : ℕ) :
    Loops.repeatN (fun v => irfftnM D N
        (liftStep D N (E3step e eh a1 a2 a3 a4 a5 𝒩) (rfftnM D N v))) n u
      = irfftnM D N (Loops.repeatedStepFourier
          (liftStep D N (E3step e eh a1 a2 a3 a4 a5 𝒩)) n (rfftnM D N u)) :=
  repeatedStepper_eq_loop_lift D N hD hN _
    (fun f hf => E3step_hermSpec he heh h1 h2 h3 h4 h5 ((nl_hyp_iff D N hD hN 𝒩).mp h𝒩) hf) u hu n

theorem repeatedStepper_eq_loop_E4 (D N : ℕ) (hD : 0 < D) (hN : 0 < N)
    (e eh a1 a2 a3 a4 a5 a6 : ℕ → ℂ)
    (he : HermSymbol D N e) (heh : HermSymbol D N eh) (h1 : HermSymbol D N a1)
    (h2 : HermSymbol D N a2) (h3 : HermSymbol D N a3) (h4 : HermSymbol D N a4) (h5 : HermSymbol D N a5)
    (h6 : HermSymbol D N a6) (𝒩 : (ℕ → ℂ) → (ℕ → ℂ))
    (h𝒩 : ∀ f, Realisable D N (tab (numModes D N) f) → Realisable D N (tab (numModes D N) (𝒩 f)))
    (u : Array ℂ) (hu : RealState D N u) (n : ℕ) :
    Loops.repeatN (fun v => irfftnM D N
        (liftStep D N (E4step e eh a1 a2 a3 a4 a5 a6 𝒩) (rfftnM D N v))) n u
      = irfftnM D N (Loops.repeatedStepFourier
          (liftStep D N (E4step e eh a1 a2 a3 a4 a5 a6 𝒩)) n (rfftnM D N u)) :=
  repeatedStepper_eq_loop_lift D N hD hN _
    (fun f hf => E4step_hermSpec he heh h1 h2 h3 h4 h5 h6 ((nl_hyp_iff D N hD hN 𝒩).mp h𝒩) hf) u hu n

/-! ### 4 (a). the hypotheses hold: pseudo-spectral nonlinearities, `exp(dt·λ)` -/

/-- the pseudo-spectral term `𝒩̂(û) = m ⊙ rfftn (g (irfftn û))` on spectra given as functions
    (built from the model transforms and `diagStep`) -/
noncomputable def pseudoNl (D N : ℕ) (m : ℕ → ℂ) (g : Array ℂ → Array ℂ) (f : ℕ → ℂ) : ℕ → ℂ :=
  toFun (diagStep D N m (rfftnM D N (g (irfftnM D N (tab (numModes D N) f)))))

theorem pseudoNl_apply (D N : ℕ) (m : ℕ → ℂ) (g : Array ℂ → Array ℂ) (f : ℕ → ℂ) (h : ℕ)
    (hh : h < numModes D N) :
    pseudoNl D N m g f h = m h * (rfftnM D N (g (irfftnM D N (tab (numModes D N) f)))).getD h 0 :=
  diagStep_getD D N m _ h hh

/-- array form: `m ⊙ rfftn (g (irfftn C))` is realisable for EVERY stored spectrum `C` -/
theorem pseudo_spectral_realisable (D N : ℕ) (hD : 0 < D) (hN : 0 < N) (m : ℕ → ℂ)
    (hm : HermSymbol D N m) (g : Array ℂ → Array ℂ)
    (hg : ∀ v, RealState D N v → ∀ j < N ^ D, ((g v).getD j 0).im = 0) (C : Array ℂ) :
    Realisable D N (diagStep D N m (rfftnM D N (g (irfftnM D N C)))) :=
  diag_preserves_realisable D N hD hN m hm _ (nonlin_spectrum_realisable D N hD hN g hg C)

/-- **the hypothesis on `𝒩̂` holds for every pseudo-spectral term** with a grid-space function `g` that
    is real on real states and a `HermSymbol` mask/multiplier `m` — for EVERY input `f`, realisable or not -/
theorem pseudoNl_hermSpec (D N : ℕ) (hD : 0 < D) (hN : 0 < N) (m : ℕ → ℂ) (hm : HermSymbol D N m)
    (g : Array ℂ → Array ℂ)
    (hg : ∀ v, RealState D N v → ∀ j < N ^ D, ((g v).getD j 0).im = 0) (f : ℕ → ℂ) :
    HermSpec D N (pseudoNl D N m g f) :=
  (pseudo_spectral_realisable D N hD hN m hm g hg _).hermSpec

theorem pseudoNl_preserves_realisable (D N : ℕ) (hD : 0 < D) (hN : 0 < N) (m : ℕ → ℂ)
    (hm : HermSymbol D N m) (g : Array ℂ → Array ℂ)
    (hg : ∀ v, RealState D N v → ∀ j < N ^ D, ((g v).getD j 0).im = 0) :
    ∀ f, Realisable D N (tab (numModes D N) f)
      → Realisable D N (tab (numModes D N) (pseudoNl D N m g f)) :=
  fun f _ => (realisable_tab_iff D N hD hN _).mpr (pseudoNl_hermSpec D N hD hN m hm g hg f)

/-- sums of terms that keep Hermitian consistency keep it (several pseudo-spectral terms) -/
theorem nl_add_hermSpec (D N : ℕ) (𝒩₁ 𝒩₂ : (ℕ → ℂ) → (ℕ → ℂ))
    (h1 : ∀ f, HermSpec D N f → HermSpec D N (𝒩₁ f)) (h2 : ∀ f, HermSpec D N f → HermSpec D N (𝒩₂ f)) :
    ∀ f, HermSpec D N f → HermSpec D N ((fun f => 𝒩₁ f + 𝒩₂ f) f) :=
  fun f hf => (h1 f hf).add (h2 f hf)

/-- **`exp(dt·λ)` inherits the symmetry of `λ`** (real `dt`; regenerated `exp_term`) -/
theorem hermSymbol_exp_term (D N : ℕ) (dt : ℝ) (lam : ℕ → ℂ) (hl : HermSymbol D N lam) :
    HermSymbol D N (fun h => exp_term (dt : ℂ) (lam h)) := by
  intro h hh hw
  show Complex.exp ((dt : ℂ) * lam (conjIdx D N h)) = (starRingEnd ℂ) (Complex.exp ((dt : ℂ) * lam h))
  rw [← Complex.exp_conj, map_mul, Complex.conj_ofReal, hl h hh hw]

/-- in the plain form requested -/
theorem hermSymbol_exp (D N : ℕ) (dt : ℝ) (lam : ℕ → ℂ) (hl : HermSymbol D N lam) :
    HermSymbol D N (fun h => Complex.exp ((dt : ℂ) * lam h)) :=
  hermSymbol_exp_term D N dt lam hl

theorem hermSymbol_half_exp_term_E3 (D N : ℕ) (dt r : ℝ) (M : ℕ) (lam : ℕ → ℂ)
    (hl : HermSymbol D N lam) :
    HermSymbol D N (fun h => E3_half_exp_term (dt : ℂ) (lam h) M (r : ℂ)) := by
  intro h hh hw
  show Complex.exp ((qlit 1 2 : ℂ) * (dt : ℂ) * lam (conjIdx D N h))
    = (starRingEnd ℂ) (Complex.exp ((qlit 1 2 : ℂ) * (dt : ℂ) * lam h))
  have hq : (qlit 1 2 : ℂ) = (((1 / 2 : ℝ)) : ℂ) := by rw [qlit_eq]; push_cast; rfl
  rw [hq, ← Complex.exp_conj, map_mul, map_mul, Complex.conj_ofReal, Complex.conj_ofReal, hl h hh hw]

theorem hermSymbol_half_exp_term_E4 (D N : ℕ) (dt r : ℝ) (M : ℕ) (lam : ℕ → ℂ)
    (hl : HermSymbol D N lam) :
    HermSymbol D N (fun h => E4_half_exp_term (dt : ℂ) (lam h) M (r : ℂ)) :=
  hermSymbol_half_exp_term_E3 D N dt r M lam hl

/-- **odd grids**: a linear symbol `λ_h = ℓ(k(h))` with `ℓ(−k) = conj ℓ(k)` (every operator with real
    coefficients) is a `HermSymbol`, hence so are `exp(dt·λ)` and `exp(dt·λ/2)` -/
theorem odd_grid_hermSymbol_lam (D N : ℕ) (hD : 0 < D) (hodd : N % 2 = 1) (ℓ : List ℤ → ℂ)
    (hℓ : ∀ k : List ℤ, ℓ (k.map (fun x => -x)) = (starRingEnd ℂ) (ℓ k)) :
    HermSymbol D N (fun h => ℓ (wnFlat D N h)) :=
  odd_grid_hermSymbol_of_wavenumber D N hD hodd ℓ hℓ

theorem odd_grid_hermSymbol_exp_term (D N : ℕ) (hD : 0 < D) (hodd : N % 2 = 1) (dt : ℝ)
    (ℓ : List ℤ → ℂ) (hℓ : ∀ k : List ℤ, ℓ (k.map (fun x => -x)) = (starRingEnd ℂ) (ℓ k)) :
    HermSymbol D N (fun h => exp_term (dt : ℂ) (ℓ (wnFlat D N h))) :=
  hermSymbol_exp_term D N dt _ (odd_grid_hermSymbol_lam D N hD hodd ℓ hℓ)

/-! ### non-vacuity -/

/-- `HermSpec` is satisfiable by a non-zero spectrum: the constant `1` -/
example (D N : ℕ) : HermSpec D N (fun _ => (1 : ℂ)) := by
  intro h hh hw; simp

/-- the spectrum of the saw-tooth, read as a function, is Hermitian-consistent (`D = 1`, `N = 2`) -/
example : HermSpec 1 2 (toFun (rfftnM 1 2 #[(1 : ℂ), -1])) :=
  (rfftn_realisable 1 2 (by norm_num) (by norm_num) _ realState_sawtooth).hermSpec

/-- all coefficient hypotheses at once: real constants -/
example (D N : ℕ) (r : ℝ) : HermSymbol D N (fun _ => (r : ℂ)) := by
  intro h hh hw; simp

/-- the hypothesis on `𝒩̂` of the main theorems is satisfiable by a genuinely nonlinear map:
    the pseudo-spectral square `û ↦ rfftn ((irfftn û)²)` with the trivial mask -/
theorem pseudoNl_square_ok (D N : ℕ) (hD : 0 < D) (hN : 0 < N) :
    ∀ f, Realisable D N (tab (numModes D N) f) → Realisable D N (tab (numModes D N)
      (pseudoNl D N (fun _ => (1 : ℂ)) (fun w => tab (N ^ D) (fun j => w.getD j 0 * w.getD j 0)) f)) := by
  apply pseudoNl_preserves_realisable D N hD hN
  · intro h hh hw; simp
  · intro v hv j hj
    show ((tab (N ^ D) (fun j => v.getD j 0 * v.getD j 0)).getD j 0).im = 0
    rw [tab_getD _ _ _ _ hj, Complex.mul_im, hv.2 j hj]
    ring

/-- all hypotheses of `repeatedStepper_eq_loop_E4` together (`D = 2`, `N = 4`): real constant
    coefficients, the pseudo-spectral square, a constant real state -/
example (n : ℕ) :
    Loops.repeatN (fun v => irfftnM 2 4 (liftStep 2 4 (E4step (fun _ => ((1/2 : ℝ) : ℂ))
        (fun _ => ((1/2 : ℝ) : ℂ)) (fun _ => ((1/3 : ℝ) : ℂ)) (fun _ => ((1/3 : ℝ) : ℂ))
        (fun _ => ((1/3 : ℝ) : ℂ)) (fun _ => ((1/3 : ℝ) : ℂ)) (fun _ => ((1/3 : ℝ) : ℂ))
        (fun _ => ((1/3 : ℝ) : ℂ))
        (pseudoNl 2 4 (fun _ => (1 : ℂ)) (fun w => tab (4 ^ 2) (fun j => w.getD j 0 * w.getD j 0))))
        (rfftnM 2 4 v))) n (tab (4 ^ 2) (fun _ => (1 : ℂ)))
      = irfftnM 2 4 (Loops.repeatedStepFourier (liftStep 2 4 (E4step (fun _ => ((1/2 : ℝ) : ℂ))
        (fun _ => ((1/2 : ℝ) : ℂ)) (fun _ => ((1/3 : ℝ) : ℂ)) (fun _ => ((1/3 : ℝ) : ℂ))
        (fun _ => ((1/3 : ℝ) : ℂ)) (fun _ => ((1/3 : ℝ) : ℂ)) (fun _ => ((1/3 : ℝ) : ℂ))
        (fun _ => ((1/3 : ℝ) : ℂ))
        (pseudoNl 2 4 (fun _ => (1 : ℂ)) (fun w => tab (4 ^ 2) (fun j => w.getD j 0 * w.getD j 0)))))
        n (rfftnM 2 4 (tab (4 ^ 2) (fun _ => (1 : ℂ))))) := by
  have hc : ∀ r : ℝ, HermSymbol 2 4 (fun _ => (r : ℂ)) := fun r h hh hw => by simp
  refine repeatedStepper_eq_loop_E4 2 4 (by norm_num) (by norm_num) _ _ _ _ _ _ _ _
    (hc _) (hc _) (hc _) (hc _) (hc _) (hc _) (hc _) (hc _) _
    (pseudoNl_square_ok 2 4 (by norm_num) (by norm_num)) _ ⟨tab_size _ _, ?_⟩ n
  intro j hj
  rw [tab_getD _ _ _ _ hj]
  simp

/-- the hypothesis of `hermSymbol_exp_term` holds for a genuinely complex symbol on the odd grid
    `N = 3`, `D = 1`: `λ = (0, i)` (advection) -/
example : HermSymbol 1 3 (fun h => if h = 1 then Complex.I else 0) :=
  (hermSymbol_1d_iff 3 (by norm_num) _).mpr ⟨by simp, by norm_num⟩

end Exponax.C2R
