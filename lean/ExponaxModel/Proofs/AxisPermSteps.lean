import ExponaxModel.Proofs.AxisPermTermsMC
import ExponaxModel.Proofs.AxisPermStepRel
import ExponaxModel.Proofs.EquivarianceNDSteps
/-
C08, T3 — ETDRK steps (orders 0–4), `n` steps, of an ISOTROPIC stepper commute with permutations of the
spatial axes on real Nyquist-free states:

  `physCh (step^n (rfftn u')) (τ ch) = P_σ (physCh (step^n (rfftn u)) ch)`     whenever `u'_{τ ch} = P_σ u_ch`

(`τ = id` for the single-channel-type terms; `τ = chanMap σ` — the velocity channels permuted with the axes —
for the multi-channel convection).

* `IsoCoef c σ τ e e'`  : the coefficient arrays are, channel by channel, one conj-symmetric `σ`-invariant
                          function of the wavenumber vector (`isoCoef_generalLinear`: every conj-equivariant
                          function `F` — `exp(dt·)`, the ETDRK `φ`-type coefficients — of the isotropic
                          `general_linear` symbol with real coefficients, real `s = 2π/L`).
* `TermPerm c σ τ T`    : the T2 statement for a term (`*_termPerm`).
* `GoodMC c σ τ v v'`   : the relation on spectral states, preserved by every stage formula
                          (`goodMC_stepRel` + `AxisPermStepRel`).
* `E?_axisPerm_physical`, `E4_axisPerm_general`, `E4_axisPerm_convection_mc` : physical-space statements.
-/
set_option linter.unusedVariables false
namespace Exponax.AxisPerm
open Exponax Exponax.Layout Exponax.Transform Exponax.DFT Exponax.AliasND Exponax.Nonlin Exponax.Alias Finset
open Exponax.Gen.Etdrk
open Exponax.EquivND (liftTermND specMC physCh liftTermND_apply)

/-- spectral states (channel → stored mode → value): channel `τ ch` of `v'` and channel `ch` of `v` are a
    `SpecPerm` pair, for every channel -/
def GoodMC (c : Cfg ℂ) (σ : Equiv.Perm (Fin c.D)) (τ : ℕ → ℕ) (v v' : ℕ → ℕ → ℂ) : Prop :=
  ∀ ch, SpecPerm c.D c.N σ (tab (modes c) (v ch)) (tab (modes c) (v' (τ ch)))

/-- isotropic coefficient arrays: channel `ch` of `e` and channel `τ ch` of `e'` are the same conj-symmetric,
    `σ`-invariant function of the wavenumber vector -/
def IsoCoef (c : Cfg ℂ) (σ : Equiv.Perm (Fin c.D)) (τ : ℕ → ℕ) (e e' : ℕ → ℕ → ℂ) : Prop :=
  ∀ ch, ∃ g : (Fin c.D → ℤ) → ℂ, (∀ k, g (-k) = (starRingEnd ℂ) (g k)) ∧ (∀ k, g (k ∘ σ) = g k) ∧
    (∀ h, h < modes c → e ch h = g (kvec c.D c.N h)) ∧ (∀ h, h < modes c → e' (τ ch) h = g (kvec c.D c.N h))

/-- the T2 statement for a term -/
def TermPerm (c : Cfg ℂ) (σ : Equiv.Perm (Fin c.D)) (τ : ℕ → ℕ) (T : MC ℂ → MC ℂ) : Prop :=
  ∀ uh uh' : MC ℂ, MCSpecPerm c σ τ uh uh' → MCSpecPerm c σ τ (T uh) (T uh')

theorem goodMC_stepRel (c : Cfg ℂ) (hD : 0 < c.D) (hN : 0 < c.N) (σ : Equiv.Perm (Fin c.D)) (τ : ℕ → ℕ) :
    StepRel (GoodMC c σ τ) (IsoCoef c σ τ) where
  add := fun h1 h2 ch => specPerm_add c.D c.N hN σ _ _ _ _ (h1 ch) (h2 ch)
  sub := fun h1 h2 ch => specPerm_sub c.D c.N hN σ _ _ _ _ (h1 ch) (h2 ch)
  mul := by
    intro e e' a b he h1 ch
    obtain ⟨g, hg, hgσ, hge, hge'⟩ := he ch
    have key := specPerm_mul c.D c.N hD hN σ g hg _ _ (h1 ch)
    refine specPerm_congr c.D c.N hN σ _ _ _ _ ?_ ?_ key
    · intro m hm
      have hm' : m < modes c := hm
      rw [DFT.tab_getD _ _ _ _ hm, DFT.tab_getD _ _ _ _ hm', DFT.tab_getD _ _ _ _ hm']
      show g (kvec c.D c.N m) * a ch m = e ch m * a ch m
      rw [hge m hm']
    · intro m hm
      have hm' : m < modes c := hm
      rw [DFT.tab_getD _ _ _ _ hm, DFT.tab_getD _ _ _ _ hm', DFT.tab_getD _ _ _ _ hm']
      show g (kvec c.D c.N m ∘ σ) * b (τ ch) m = e' (τ ch) m * b (τ ch) m
      rw [hge' m hm', hgσ]
  two := fun ch => ⟨fun _ => ((2 : ℕ) : ℂ), fun _ => (Complex.conj_natCast 2).symm, fun _ => rfl,
    fun _ _ => rfl, fun _ _ => rfl⟩

theorem liftTermND_good (c : Cfg ℂ) (hN : 0 < c.N) (σ : Equiv.Perm (Fin c.D)) (τ : ℕ → ℕ) (C : ℕ)
    (hτ : ∀ ch, τ ch < C ↔ ch < C) (T : MC ℂ → MC ℂ) (hT : TermPerm c σ τ T) (v v' : ℕ → ℕ → ℂ)
    (h : GoodMC c σ τ v v') : GoodMC c σ τ (liftTermND c C T v) (liftTermND c C T v') := by
  have hin : MCSpecPerm c σ τ (tab2 C (modes c) v) (tab2 C (modes c) v') :=
    mcSpecPerm_tab2 c hN σ τ C hτ v v' (fun ch _ => h ch)
  intro ch
  refine specPerm_congr c.D c.N hN σ _ _ _ _ ?_ ?_ (hT _ _ hin ch)
  · intro m hm
    have hm' : m < modes c := hm
    rw [DFT.tab_getD _ _ _ _ hm', DFT.tab_getD _ _ _ _ hm', liftTermND_apply c C T v ch m hm']
  · intro m hm
    have hm' : m < modes c := hm
    rw [DFT.tab_getD _ _ _ _ hm', DFT.tab_getD _ _ _ _ hm', liftTermND_apply c C T v' (τ ch) m hm']

/-! ### every term of T2 -/

theorem polynomial_termPerm (c : Cfg ℂ) (hc : PermCfg c) (σ : Equiv.Perm (Fin c.D)) (C : ℕ) (coeffs : List ℂ)
    (hco : ∀ x ∈ coeffs, x.im = 0) : TermPerm c σ id (polynomial c C coeffs) :=
  fun uh uh' h => polynomial_mcSpecPerm c hc σ C coeffs hco uh uh' h

theorem convection_cons_termPerm (c : Cfg ℂ) (hc : PermCfg c) (σ : Equiv.Perm (Fin c.D)) (C : ℕ) (scale : ℂ)
    (hsc : scale.im = 0) : TermPerm c σ id (convection c C scale true true) :=
  fun uh uh' h => convection_cons_mcSpecPerm c hc σ C scale hsc uh uh' h

theorem convection_noncons_termPerm (c : Cfg ℂ) (hc : PermCfg c) (σ : Equiv.Perm (Fin c.D)) (C : ℕ) (scale : ℂ)
    (hsc : scale.im = 0) : TermPerm c σ id (convection c C scale true false) :=
  fun uh uh' h => convection_noncons_mcSpecPerm c hc σ C scale hsc uh uh' h

theorem gradientNorm_termPerm (c : Cfg ℂ) (hc : PermCfg c) (σ : Equiv.Perm (Fin c.D)) (C : ℕ) (scale : ℂ)
    (hsc : scale.im = 0) (zeroFix : Bool) : TermPerm c σ id (gradientNorm c C scale zeroFix) :=
  fun uh uh' h => gradientNorm_mcSpecPerm c hc σ C scale hsc zeroFix uh uh' h

theorem general_termPerm (c : Cfg ℂ) (hc : PermCfg c) (σ : Equiv.Perm (Fin c.D)) (C : ℕ) (s0 s1 s2 : ℂ)
    (h0 : s0.im = 0) (h1 : s1.im = 0) (h2 : s2.im = 0) (zeroFix : Bool) :
    TermPerm c σ id (general c C s0 s1 s2 zeroFix) :=
  fun uh uh' h => general_mcSpecPerm c hc σ C s0 s1 s2 h0 h1 h2 zeroFix uh uh' h

theorem convection_multi_termPerm (c : Cfg ℂ) (hc : PermCfg c) (σ : Equiv.Perm (Fin c.D)) (scale : ℂ)
    (hsc : scale.im = 0) (conservative : Bool) :
    TermPerm c σ (chanMap σ) (convection c c.D scale false conservative) := by
  intro uh uh' h
  cases conservative
  · exact convection_multi_noncons_mcSpecPerm c hc σ scale hsc uh uh' h
  · exact convection_multi_cons_mcSpecPerm c hc σ scale hsc uh uh' h

/-! ### isotropic coefficient arrays -/

theorem isoCoef_of_fn (c : Cfg ℂ) (σ : Equiv.Perm (Fin c.D)) (τ : ℕ → ℕ) (g : (Fin c.D → ℤ) → ℂ)
    (hg : ∀ k, g (-k) = (starRingEnd ℂ) (g k)) (hgσ : ∀ k, g (k ∘ σ) = g k) :
    IsoCoef c σ τ (fun _ h => g (kvec c.D c.N h)) (fun _ h => g (kvec c.D c.N h)) :=
  fun _ => ⟨g, hg, hgσ, fun _ _ => rfl, fun _ _ => rfl⟩

/-- the isotropic `general_linear` symbol `Σ_j a_j Σ_d (i s k_d)^j` as a function of the wavenumber vector -/
noncomputable def generalLinearFn (c : Cfg ℂ) (a : List ℂ) (k : Fin c.D → ℤ) : ℂ :=
  ∑ j ∈ Finset.range a.length, a.getD j 0 * ∑ e : Fin c.D, derivFn c e k ^ j

theorem polySymbol_generalLinear_eq_fn (c : Cfg ℂ) (a : List ℂ) (h : ℕ) :
    polySymbol c (generalLinear c.D a) h = generalLinearFn c a (kvec c.D c.N h) := by
  have := polyAt_generalLinear (kappa c h) a
  rw [kappa_length] at this
  rw [polySymbol_eq_polyAt, this, generalLinearFn]
  apply Finset.sum_congr rfl
  intro j _
  congr 1
  rw [Finset.sum_range]
  apply Finset.sum_congr rfl
  intro e _
  rw [kappa_getD c h e e.2]
  rfl

theorem generalLinearFn_neg (c : Cfg ℂ) (hs : c.s.im = 0) (a : List ℂ) (ha : ∀ x ∈ a, x.im = 0)
    (k : Fin c.D → ℤ) : generalLinearFn c a (-k) = (starRingEnd ℂ) (generalLinearFn c a k) := by
  unfold generalLinearFn
  rw [map_sum]
  apply Finset.sum_congr rfl
  intro j hj
  have hj' := Finset.mem_range.mp hj
  have haj : (starRingEnd ℂ) (a.getD j 0) = a.getD j 0 := by
    apply Complex.conj_eq_iff_im.mpr
    rw [List.getD_eq_getElem?_getD, List.getElem?_eq_getElem hj', Option.getD_some]
    exact ha _ (List.getElem_mem hj')
  rw [map_mul, map_sum, haj]
  congr 1
  apply Finset.sum_congr rfl
  intro e _
  rw [map_pow, derivFn_neg c hs]

theorem generalLinearFn_comp (c : Cfg ℂ) (σ : Equiv.Perm (Fin c.D)) (a : List ℂ) (k : Fin c.D → ℤ) :
    generalLinearFn c a (k ∘ σ) = generalLinearFn c a k := by
  unfold generalLinearFn
  apply Finset.sum_congr rfl
  intro j _
  congr 1
  simp only [derivFn_comp]
  exact Equiv.sum_comp σ (fun e => derivFn c e k ^ j)

/-- **the coefficient hypothesis holds for every conj-equivariant function `F` (`exp(dt·)`, the ETDRK
    `φ`-type coefficients, …) of the isotropic `general_linear` symbol with REAL coefficients** -/
theorem isoCoef_generalLinear (c : Cfg ℂ) (hs : c.s.im = 0) (σ : Equiv.Perm (Fin c.D)) (τ : ℕ → ℕ) (a : List ℂ)
    (ha : ∀ x ∈ a, x.im = 0) (F : ℂ → ℂ) (hF : ∀ z, F ((starRingEnd ℂ) z) = (starRingEnd ℂ) (F z)) :
    IsoCoef c σ τ (fun _ h => F (polySymbol c (generalLinear c.D a) h))
      (fun _ h => F (polySymbol c (generalLinear c.D a) h)) :=
  fun _ => ⟨fun k => F (generalLinearFn c a k),
    fun k => by
      show F (generalLinearFn c a (-k)) = (starRingEnd ℂ) (F (generalLinearFn c a k))
      rw [generalLinearFn_neg c hs a ha, hF],
    fun k => by
      show F (generalLinearFn c a (k ∘ σ)) = F (generalLinearFn c a k)
      rw [generalLinearFn_comp],
    fun h _ => by
      show F (polySymbol c (generalLinear c.D a) h) = F (generalLinearFn c a (kvec c.D c.N h))
      rw [polySymbol_generalLinear_eq_fn],
    fun h _ => by
      show F (polySymbol c (generalLinear c.D a) h) = F (generalLinearFn c a (kvec c.D c.N h))
      rw [polySymbol_generalLinear_eq_fn]⟩

/-! ## one step of every order (spectral relation) -/

section Steps
variable (c : Cfg ℂ) (hc : PermCfg c) (σ : Equiv.Perm (Fin c.D)) (τ : ℕ → ℕ) (C : ℕ)
  (hτ : ∀ ch, τ ch < C ↔ ch < C) (T : MC ℂ → MC ℂ) (hT : TermPerm c σ τ T)
include hc

omit hc in
theorem E0step_good (hD : 0 < c.D) (hN : 0 < c.N) {E E' u u' : ℕ → ℕ → ℂ} (hE : IsoCoef c σ τ E E')
    (hu : GoodMC c σ τ u u') : GoodMC c σ τ (E0step E u) (E0step E' u') :=
  E0step_rel (goodMC_stepRel c hD hN σ τ) hE hu

include hτ hT

theorem E1step_good {E c1 E' c1' u u' : ℕ → ℕ → ℂ} (hE : IsoCoef c σ τ E E') (h1 : IsoCoef c σ τ c1 c1')
    (hu : GoodMC c σ τ u u') :
    GoodMC c σ τ (E1step E c1 (liftTermND c C T) u) (E1step E' c1' (liftTermND c C T) u') :=
  E1step_rel (goodMC_stepRel c hc.hD hc.hN σ τ) (liftTermND_good c hc.hN σ τ C hτ T hT) hE h1 hu

theorem E2step_good {E c1 c2 E' c1' c2' u u' : ℕ → ℕ → ℂ} (hE : IsoCoef c σ τ E E') (h1 : IsoCoef c σ τ c1 c1')
    (h2 : IsoCoef c σ τ c2 c2') (hu : GoodMC c σ τ u u') :
    GoodMC c σ τ (E2step E c1 c2 (liftTermND c C T) u) (E2step E' c1' c2' (liftTermND c C T) u') :=
  E2step_rel (goodMC_stepRel c hc.hD hc.hN σ τ) (liftTermND_good c hc.hN σ τ C hτ T hT) hE h1 h2 hu

theorem E3step_good {E Eh c1 c2 c3 c4 c5 E' Eh' c1' c2' c3' c4' c5' u u' : ℕ → ℕ → ℂ}
    (hE : IsoCoef c σ τ E E') (hEh : IsoCoef c σ τ Eh Eh') (h1 : IsoCoef c σ τ c1 c1')
    (h2 : IsoCoef c σ τ c2 c2') (h3 : IsoCoef c σ τ c3 c3') (h4 : IsoCoef c σ τ c4 c4')
    (h5 : IsoCoef c σ τ c5 c5') (hu : GoodMC c σ τ u u') :
    GoodMC c σ τ (E3step E Eh c1 c2 c3 c4 c5 (liftTermND c C T) u)
      (E3step E' Eh' c1' c2' c3' c4' c5' (liftTermND c C T) u') :=
  E3step_rel (goodMC_stepRel c hc.hD hc.hN σ τ) (liftTermND_good c hc.hN σ τ C hτ T hT) hE hEh h1 h2 h3 h4 h5 hu

theorem E4step_good {E Eh c1 c2 c3 c4 c5 c6 E' Eh' c1' c2' c3' c4' c5' c6' u u' : ℕ → ℕ → ℂ}
    (hE : IsoCoef c σ τ E E') (hEh : IsoCoef c σ τ Eh Eh') (h1 : IsoCoef c σ τ c1 c1')
    (h2 : IsoCoef c σ τ c2 c2') (h3 : IsoCoef c σ τ c3 c3') (h4 : IsoCoef c σ τ c4 c4')
    (h5 : IsoCoef c σ τ c5 c5') (h6 : IsoCoef c σ τ c6 c6') (hu : GoodMC c σ τ u u') :
    GoodMC c σ τ (E4step E Eh c1 c2 c3 c4 c5 c6 (liftTermND c C T) u)
      (E4step E' Eh' c1' c2' c3' c4' c5' c6' (liftTermND c C T) u') :=
  E4step_rel (goodMC_stepRel c hc.hD hc.hN σ τ) (liftTermND_good c hc.hN σ τ C hτ T hT)
    hE hEh h1 h2 h3 h4 h5 h6 hu

end Steps

/-! ## physical space -/

/-- the initial relation: real, Nyquist-free channels that are axis permutations of each other -/
theorem goodMC_specMC (c : Cfg ℂ) (hD : 0 < c.D) (hN : 0 < c.N) (σ : Equiv.Perm (Fin c.D)) (τ : ℕ → ℕ)
    (u u' : MC ℂ) (hreal : ∀ ch, IsRealND c.D c.N (u.getD ch #[]))
    (hfree : ∀ ch, NyqFreeS c.D c.N (rfftnM c.D c.N (u.getD ch #[])))
    (hperm : ∀ ch, FieldPerm c.D c.N σ (u.getD ch #[]) (u'.getD (τ ch) #[])) :
    GoodMC c σ τ (specMC c.D c.N u) (specMC c.D c.N u') := by
  intro ch
  refine specPerm_congr c.D c.N hN σ _ _ _ _ ?_ ?_
    (specPerm_rfftn c.D c.N hD hN σ _ _ (hreal ch) (hfree ch) (hperm ch))
  · intro m hm
    rw [DFT.tab_getD _ _ _ _ (show m < modes c from hm)]
    rfl
  · intro m hm
    rw [DFT.tab_getD _ _ _ _ (show m < modes c from hm)]
    rfl

/-- back to physical space: the channels of a `GoodMC` pair are axis permutations of each other -/
theorem physCh_good (c : Cfg ℂ) (σ : Equiv.Perm (Fin c.D)) (τ : ℕ → ℕ) (v v' : ℕ → ℕ → ℂ)
    (h : GoodMC c σ τ v v') (ch : ℕ) :
    physCh c.D c.N v' (τ ch) = permField c.D c.N σ (physCh c.D c.N v ch) := by
  apply Symmetry.array_ext_getD _ _ (c.N ^ c.D) (by simp [physCh, irfftnM, tab]) (by simp)
  intro j hj
  rw [permField_getD c.D c.N σ _ j hj]
  exact (h ch).2.2 j hj

/-- **T2 in physical space**: for any term with the T2 property, `irfftn ∘ T ∘ rfftn` commutes with the
    permutation of the axes on real Nyquist-free multi-channel states (`C` input channels) -/
theorem term_physical_axisPerm (c : Cfg ℂ) (hD : 0 < c.D) (hN : 0 < c.N) (σ : Equiv.Perm (Fin c.D)) (τ : ℕ → ℕ)
    (C : ℕ) (hτ : ∀ ch, τ ch < C ↔ ch < C) (T : MC ℂ → MC ℂ) (hT : TermPerm c σ τ T)
    (u u' : MC ℂ) (hreal : ∀ ch, IsRealND c.D c.N (u.getD ch #[]))
    (hfree : ∀ ch, NyqFreeS c.D c.N (rfftnM c.D c.N (u.getD ch #[])))
    (hperm : ∀ ch, FieldPerm c.D c.N σ (u.getD ch #[]) (u'.getD (τ ch) #[])) (ch : ℕ) :
    irfftnM c.D c.N ((T (tab2 C (modes c) (specMC c.D c.N u'))).getD (τ ch) #[])
      = permField c.D c.N σ (irfftnM c.D c.N ((T (tab2 C (modes c) (specMC c.D c.N u))).getD ch #[])) := by
  have h0 := goodMC_specMC c hD hN σ τ u u' hreal hfree hperm
  have hin : MCSpecPerm c σ τ (tab2 C (modes c) (specMC c.D c.N u)) (tab2 C (modes c) (specMC c.D c.N u')) :=
    mcSpecPerm_tab2 c hN σ τ C hτ _ _ (fun ch _ => h0 ch)
  have hout := mcSpecPerm_chan c hN σ τ _ _ (hT _ _ hin) ch
  apply Symmetry.array_ext_getD _ _ (c.N ^ c.D) (by simp [irfftnM, tab]) (by simp)
  intro j hj
  rw [permField_getD c.D c.N σ _ j hj]
  exact hout.2.2 j hj

/-- **T3, physical space, any pair of step maps preserving the relation** -/
theorem physical_axisPerm (c : Cfg ℂ) (hD : 0 < c.D) (hN : 0 < c.N) (σ : Equiv.Perm (Fin c.D)) (τ : ℕ → ℕ)
    (step step' : (ℕ → ℕ → ℂ) → (ℕ → ℕ → ℂ))
    (hstep : ∀ v v', GoodMC c σ τ v v' → GoodMC c σ τ (step v) (step' v')) (n : ℕ)
    (u u' : MC ℂ) (hreal : ∀ ch, IsRealND c.D c.N (u.getD ch #[]))
    (hfree : ∀ ch, NyqFreeS c.D c.N (rfftnM c.D c.N (u.getD ch #[])))
    (hperm : ∀ ch, FieldPerm c.D c.N σ (u.getD ch #[]) (u'.getD (τ ch) #[])) (ch : ℕ) :
    physCh c.D c.N (step'^[n] (specMC c.D c.N u')) (τ ch)
      = permField c.D c.N σ (physCh c.D c.N (step^[n] (specMC c.D c.N u)) ch) :=
  physCh_good c σ τ _ _ (iterate_rel (GoodMC c σ τ) step step' hstep n _ _
    (goodMC_specMC c hD hN σ τ u u' hreal hfree hperm)) ch

section Physical
variable (c : Cfg ℂ) (hc : PermCfg c) (σ : Equiv.Perm (Fin c.D)) (τ : ℕ → ℕ) (C : ℕ)
  (hτ : ∀ ch, τ ch < C ↔ ch < C) (T : MC ℂ → MC ℂ) (hT : TermPerm c σ τ T)
  (u u' : MC ℂ) (hreal : ∀ ch, IsRealND c.D c.N (u.getD ch #[]))
  (hfree : ∀ ch, NyqFreeS c.D c.N (rfftnM c.D c.N (u.getD ch #[])))
  (hperm : ∀ ch, FieldPerm c.D c.N σ (u.getD ch #[]) (u'.getD (τ ch) #[]))
include hc hreal hfree hperm

/-- **T3, linear isotropic steppers (ETDRK0)** -/
theorem E0_axisPerm_physical {E : ℕ → ℕ → ℂ} (hE : IsoCoef c σ τ E E) (n : ℕ) (ch : ℕ) :
    physCh c.D c.N ((E0step E)^[n] (specMC c.D c.N u')) (τ ch)
      = permField c.D c.N σ (physCh c.D c.N ((E0step E)^[n] (specMC c.D c.N u)) ch) :=
  physical_axisPerm c hc.hD hc.hN σ τ _ _ (fun _ _ hv => E0step_good c σ τ hc.hD hc.hN hE hv) n u u'
    hreal hfree hperm ch

include hτ hT

/-- **T3, ETDRK1** -/
theorem E1_axisPerm_physical {E c1 : ℕ → ℕ → ℂ} (hE : IsoCoef c σ τ E E) (h1 : IsoCoef c σ τ c1 c1)
    (n : ℕ) (ch : ℕ) :
    physCh c.D c.N ((E1step E c1 (liftTermND c C T))^[n] (specMC c.D c.N u')) (τ ch)
      = permField c.D c.N σ (physCh c.D c.N ((E1step E c1 (liftTermND c C T))^[n] (specMC c.D c.N u)) ch) :=
  physical_axisPerm c hc.hD hc.hN σ τ _ _ (fun _ _ hv => E1step_good c hc σ τ C hτ T hT hE h1 hv) n u u'
    hreal hfree hperm ch

/-- **T3, ETDRK2** -/
theorem E2_axisPerm_physical {E c1 c2 : ℕ → ℕ → ℂ} (hE : IsoCoef c σ τ E E) (h1 : IsoCoef c σ τ c1 c1)
    (h2 : IsoCoef c σ τ c2 c2) (n : ℕ) (ch : ℕ) :
    physCh c.D c.N ((E2step E c1 c2 (liftTermND c C T))^[n] (specMC c.D c.N u')) (τ ch)
      = permField c.D c.N σ
          (physCh c.D c.N ((E2step E c1 c2 (liftTermND c C T))^[n] (specMC c.D c.N u)) ch) :=
  physical_axisPerm c hc.hD hc.hN σ τ _ _ (fun _ _ hv => E2step_good c hc σ τ C hτ T hT hE h1 h2 hv) n u u'
    hreal hfree hperm ch

/-- **T3, ETDRK3** -/
theorem E3_axisPerm_physical {E Eh c1 c2 c3 c4 c5 : ℕ → ℕ → ℂ} (hE : IsoCoef c σ τ E E)
    (hEh : IsoCoef c σ τ Eh Eh) (h1 : IsoCoef c σ τ c1 c1) (h2 : IsoCoef c σ τ c2 c2)
    (h3 : IsoCoef c σ τ c3 c3) (h4 : IsoCoef c σ τ c4 c4) (h5 : IsoCoef c σ τ c5 c5) (n : ℕ) (ch : ℕ) :
    physCh c.D c.N ((E3step E Eh c1 c2 c3 c4 c5 (liftTermND c C T))^[n] (specMC c.D c.N u')) (τ ch)
      = permField c.D c.N σ
          (physCh c.D c.N ((E3step E Eh c1 c2 c3 c4 c5 (liftTermND c C T))^[n] (specMC c.D c.N u)) ch) :=
  physical_axisPerm c hc.hD hc.hN σ τ _ _
    (fun _ _ hv => E3step_good c hc σ τ C hτ T hT hE hEh h1 h2 h3 h4 h5 hv) n u u' hreal hfree hperm ch

/-- **T3, ETDRK4**: `n` steps of an isotropic ETDRK4 stepper commute with the permutation of the axes -/
theorem E4_axisPerm_physical {E Eh c1 c2 c3 c4 c5 c6 : ℕ → ℕ → ℂ} (hE : IsoCoef c σ τ E E)
    (hEh : IsoCoef c σ τ Eh Eh) (h1 : IsoCoef c σ τ c1 c1) (h2 : IsoCoef c σ τ c2 c2)
    (h3 : IsoCoef c σ τ c3 c3) (h4 : IsoCoef c σ τ c4 c4) (h5 : IsoCoef c σ τ c5 c5)
    (h6 : IsoCoef c σ τ c6 c6) (n : ℕ) (ch : ℕ) :
    physCh c.D c.N ((E4step E Eh c1 c2 c3 c4 c5 c6 (liftTermND c C T))^[n] (specMC c.D c.N u')) (τ ch)
      = permField c.D c.N σ
          (physCh c.D c.N ((E4step E Eh c1 c2 c3 c4 c5 c6 (liftTermND c C T))^[n] (specMC c.D c.N u)) ch) :=
  physical_axisPerm c hc.hD hc.hN σ τ _ _
    (fun _ _ hv => E4step_good c hc σ τ C hτ T hT hE hEh h1 h2 h3 h4 h5 h6 hv) n u u' hreal hfree hperm ch

end Physical

/-! ## capstones written out on the model's transforms -/

/-- the state with every channel axis-permuted (channels not permuted) -/
def permMC (c : Cfg ℂ) (σ : Equiv.Perm (Fin c.D)) (u : MC ℂ) : MC ℂ := u.map (permField c.D c.N σ)

theorem fieldPerm_permMC (c : Cfg ℂ) (σ : Equiv.Perm (Fin c.D)) (u : MC ℂ) (ch : ℕ) :
    FieldPerm c.D c.N σ (u.getD ch #[]) ((permMC c σ u).getD (id ch) #[]) := by
  intro j hj
  unfold permMC
  rw [id, EquivND.getD_map]
  split_ifs with hc
  · exact permField_getD c.D c.N σ _ j hj
  · simp [Array.getD]

/-- **Capstone (T3, single-channel-type terms)**: ETDRK4 with the isotropic `general_linear` symbol
    (real coefficients `a`, coefficient arrays ANY conj-equivariant functions `F_i` of the symbol) and the
    `general` nonlinearity (real scales) commutes with every permutation of the axes, in every dimension,
    on real Nyquist-free states, `n` steps. -/
theorem E4_axisPerm_general (c : Cfg ℂ) (hc : PermCfg c) (σ : Equiv.Perm (Fin c.D)) (a : List ℂ)
    (ha : ∀ x ∈ a, x.im = 0) (F Fh F1 F2 F3 F4 F5 F6 : ℂ → ℂ)
    (hF : ∀ G ∈ [F, Fh, F1, F2, F3, F4, F5, F6], ∀ z, G ((starRingEnd ℂ) z) = (starRingEnd ℂ) (G z))
    (C : ℕ) (s0 s1 s2 : ℂ) (h0 : s0.im = 0) (h1 : s1.im = 0) (h2 : s2.im = 0) (zeroFix : Bool) (n : ℕ)
    (u : MC ℂ) (hreal : ∀ ch, IsRealND c.D c.N (u.getD ch #[]))
    (hfree : ∀ ch, NyqFreeS c.D c.N (rfftnM c.D c.N (u.getD ch #[]))) (ch : ℕ) :
    irfftnM c.D c.N (tab (numModes c.D c.N)
        (((E4step (fun _ h => F (polySymbol c (generalLinear c.D a) h))
            (fun _ h => Fh (polySymbol c (generalLinear c.D a) h))
            (fun _ h => F1 (polySymbol c (generalLinear c.D a) h))
            (fun _ h => F2 (polySymbol c (generalLinear c.D a) h))
            (fun _ h => F3 (polySymbol c (generalLinear c.D a) h))
            (fun _ h => F4 (polySymbol c (generalLinear c.D a) h))
            (fun _ h => F5 (polySymbol c (generalLinear c.D a) h))
            (fun _ h => F6 (polySymbol c (generalLinear c.D a) h))
            (liftTermND c C (general c C s0 s1 s2 zeroFix)))^[n]
          (fun ch h => (rfftnM c.D c.N ((u.map (permField c.D c.N σ)).getD ch #[])).getD h 0)) ch))
      = permField c.D c.N σ (irfftnM c.D c.N (tab (numModes c.D c.N)
        (((E4step (fun _ h => F (polySymbol c (generalLinear c.D a) h))
            (fun _ h => Fh (polySymbol c (generalLinear c.D a) h))
            (fun _ h => F1 (polySymbol c (generalLinear c.D a) h))
            (fun _ h => F2 (polySymbol c (generalLinear c.D a) h))
            (fun _ h => F3 (polySymbol c (generalLinear c.D a) h))
            (fun _ h => F4 (polySymbol c (generalLinear c.D a) h))
            (fun _ h => F5 (polySymbol c (generalLinear c.D a) h))
            (fun _ h => F6 (polySymbol c (generalLinear c.D a) h))
            (liftTermND c C (general c C s0 s1 s2 zeroFix)))^[n]
          (fun ch h => (rfftnM c.D c.N (u.getD ch #[])).getD h 0)) ch))) := by
  have hco : ∀ G ∈ [F, Fh, F1, F2, F3, F4, F5, F6],
      IsoCoef c σ id (fun _ h => G (polySymbol c (generalLinear c.D a) h))
        (fun _ h => G (polySymbol c (generalLinear c.D a) h)) :=
    fun G hG => isoCoef_generalLinear c hc.hs σ id a ha G (hF G hG)
  exact E4_axisPerm_physical c hc σ id C (id_lt_iff C) _ (general_termPerm c hc σ C s0 s1 s2 h0 h1 h2 zeroFix)
    u (permMC c σ u) hreal hfree (fieldPerm_permMC c σ u)
    (hco F (by simp)) (hco Fh (by simp)) (hco F1 (by simp)) (hco F2 (by simp)) (hco F3 (by simp))
    (hco F4 (by simp)) (hco F5 (by simp)) (hco F6 (by simp)) n ch

/-- the `D`-channel state with the axes AND the velocity channels permuted: `u'_{σ i} = P_σ u_i` -/
def permVecMC (c : Cfg ℂ) (σ : Equiv.Perm (Fin c.D)) (u : MC ℂ) : MC ℂ :=
  tabC c.D (fun ch' => permField c.D c.N σ (u.getD (chanMap σ⁻¹ ch') #[]))

theorem chanMap_inv {D : ℕ} (σ : Equiv.Perm (Fin D)) (ch : ℕ) : chanMap σ⁻¹ (chanMap σ ch) = ch := by
  by_cases h : ch < D
  · have h1 : chanMap σ ch = (σ ⟨ch, h⟩ : ℕ) := chanMap_fin σ ⟨ch, h⟩
    rw [h1, chanMap_fin σ⁻¹ (σ ⟨ch, h⟩)]
    simp
  · simp [chanMap, h]

theorem fieldPerm_permVecMC (c : Cfg ℂ) (σ : Equiv.Perm (Fin c.D)) (u : MC ℂ) (hsz : u.size ≤ c.D) (ch : ℕ) :
    FieldPerm c.D c.N σ (u.getD ch #[]) ((permVecMC c σ u).getD (chanMap σ ch) #[]) := by
  intro j hj
  show at2 (permVecMC c σ u) (chanMap σ ch) j = _
  unfold permVecMC
  rw [at2_tabC_any]
  by_cases h : ch < c.D
  · rw [if_pos ((chanMap_lt_iff σ ch).mpr h), chanMap_inv, permField_getD c.D c.N σ _ j hj]
  · rw [if_neg (fun h' => h ((chanMap_lt_iff σ ch).mp h'))]
    have : u.getD ch #[] = #[] := by simp [Array.getD, show ¬ ch < u.size by omega]
    rw [this]
    simp

/-- **Capstone (T3, multi-channel convection — Burgers / Navier–Stokes-type in `D` dimensions)**: ETDRK4
    with isotropic coefficient arrays and the `D`-channel convection term (conservative or not) commutes with
    every permutation of the axes applied together with the same permutation of the velocity channels. -/
theorem E4_axisPerm_convection_mc (c : Cfg ℂ) (hc : PermCfg c) (σ : Equiv.Perm (Fin c.D)) (scale : ℂ)
    (hsc : scale.im = 0) (conservative : Bool) {E Eh c1 c2 c3 c4 c5 c6 : ℕ → ℕ → ℂ}
    (hE : IsoCoef c σ (chanMap σ) E E) (hEh : IsoCoef c σ (chanMap σ) Eh Eh)
    (h1 : IsoCoef c σ (chanMap σ) c1 c1) (h2 : IsoCoef c σ (chanMap σ) c2 c2)
    (h3 : IsoCoef c σ (chanMap σ) c3 c3) (h4 : IsoCoef c σ (chanMap σ) c4 c4)
    (h5 : IsoCoef c σ (chanMap σ) c5 c5) (h6 : IsoCoef c σ (chanMap σ) c6 c6) (n : ℕ)
    (u : MC ℂ) (hsz : u.size ≤ c.D) (hreal : ∀ ch, IsRealND c.D c.N (u.getD ch #[]))
    (hfree : ∀ ch, NyqFreeS c.D c.N (rfftnM c.D c.N (u.getD ch #[]))) (i : Fin c.D) :
    physCh c.D c.N ((E4step E Eh c1 c2 c3 c4 c5 c6
        (liftTermND c c.D (convection c c.D scale false conservative)))^[n]
        (specMC c.D c.N (permVecMC c σ u))) (σ i)
      = permField c.D c.N σ (physCh c.D c.N ((E4step E Eh c1 c2 c3 c4 c5 c6
          (liftTermND c c.D (convection c c.D scale false conservative)))^[n] (specMC c.D c.N u)) i) := by
  have h := E4_axisPerm_physical c hc σ (chanMap σ) c.D (chanMap_lt_iff σ) _
    (convection_multi_termPerm c hc σ scale hsc conservative) u (permVecMC c σ u) hreal hfree
    (fieldPerm_permVecMC c σ u hsz) hE hEh h1 h2 h3 h4 h5 h6 n i
  rw [chanMap_fin] at h
  exact h

/-! ## non-vacuity -/

example (c : Cfg ℂ) (hc : PermCfg c) (σ : Equiv.Perm (Fin c.D)) : ∃ T, TermPerm c σ id T :=
  ⟨_, general_termPerm c hc σ 1 1 1 1 (by simp) (by simp) (by simp) true⟩

example (c : Cfg ℂ) (hc : PermCfg c) (σ : Equiv.Perm (Fin c.D)) : ∃ E, IsoCoef c σ id E E :=
  ⟨_, isoCoef_generalLinear c hc.hs σ id [0, 0, 1] (by intro x hx; simp at hx; rcases hx with rfl | rfl <;> simp)
    Complex.exp (fun z => by rw [← Complex.exp_conj])⟩

/-- real Nyquist-free states exist: the constant state -/
example (D N : ℕ) (hD : 0 < D) (hN : 0 < N) :
    ∃ u : Array ℂ, IsRealND D N u ∧ NyqFreeS D N (rfftnM D N u) := by
  refine ⟨tab (N ^ D) (fun _ => 1), fun j hj => by rw [DFT.tab_getD _ _ _ _ hj]; simp, ?_⟩
  intro h hh hny
  rw [rfftn_eq_dftV D N hN _ h hh, dftV_const D N hN, if_neg, ]
  intro hall
  obtain ⟨d, _, hn⟩ := hny
  exact hn (hall d)

end Exponax.AxisPerm
