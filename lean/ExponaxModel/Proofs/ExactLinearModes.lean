import ExponaxModel.Proofs.DFTnD
import ExponaxModel.Proofs.MeanMode
/-
C01 support, part 1 (A1): the `D`-dimensional single-mode read-off.

For an integer wave vector `κ` (length `D`) the grid field
  `u_j = a · cos(2π (κ·j)/N + φ)`,   `κ·j = phaseK D N κ j = Σ_d κ_d · digit D N j d`,
has the stored half spectrum (`rfftnM D N`)
  `û_h = (a/2) e^{iφ} N^D · [k(h) ≡ κ mod N] + (a/2) e^{-iφ} N^D · [k(h) ≡ -κ mod N]`   (every `κ`)
and, when `2|κ_d| < N` on every axis (strictly below Nyquist),
  `û_h = (a/2) e^{iφ} N^D · [k(h) = κ] + (a/2) e^{-iφ} N^D · [k(h) = -κ]`.
The three cases of the half layout (`κ ≠ 0` stored, its stored partner when `κ_last = 0`, `κ = 0`)
are read off as corollaries.
-/
set_option linter.unusedVariables false
namespace Exponax.ExactLinear
open Exponax Exponax.Layout Exponax.Transform Exponax.DFT Finset

/-! ### small list helpers -/

/-- the negated wave vector -/
def negK (κ : List ℤ) : List ℤ := κ.map (fun x => -x)

@[simp] theorem negK_length (κ : List ℤ) : (negK κ).length = κ.length := by simp [negK]

theorem negK_getD (κ : List ℤ) (d : ℕ) : (negK κ).getD d 0 = -(κ.getD d 0) := by
  simp only [negK, List.getD_eq_getElem?_getD, List.getElem?_map]
  cases κ[d]? <;> simp

@[simp] theorem negK_negK (κ : List ℤ) : negK (negK κ) = κ := by
  simp [negK, List.map_map]

theorem list_ext_getD (l l' : List ℤ) (n : ℕ) (hl : l.length = n) (hl' : l'.length = n)
    (h : ∀ d < n, l.getD d 0 = l'.getD d 0) : l = l' := by
  apply List.ext_getElem (by omega)
  intro d h1 h2
  have := h d (by omega)
  rw [List.getD_eq_getElem?_getD, List.getD_eq_getElem?_getD, List.getElem?_eq_getElem h1,
    List.getElem?_eq_getElem h2] at this
  simpa using this

theorem wnFlat_length (D N h : ℕ) : (wnFlat D N h).length = D := wnVec_length D N _

/-! ### orthogonality over the full grid for an arbitrary integer wave vector -/

/-- `Σ_j ζ^{m·j} = N^D` if `N ∣ m_d` on every axis, else `0` (`m·j = Σ_d m_d · digit_d(j)`). -/
theorem sum_zeta_digits (N : ℕ) (hN : 0 < N) (m : ℕ → ℤ) : ∀ D : ℕ,
    ∑ j ∈ range (N ^ D), zeta N ^ (∑ d ∈ range D, m d * (digit D N j d : ℤ))
      = if ∀ d < D, (N : ℤ) ∣ m d then ((N ^ D : ℕ) : ℂ) else 0
  | 0 => by simp
  | E + 1 => by
    have hterm : ∀ j : ℕ, zeta N ^ (∑ d ∈ range (E + 1), m d * (digit (E + 1) N j d : ℤ))
        = zeta N ^ (∑ d ∈ range E, m d * (digit E N (j / N) d : ℤ))
            * zeta N ^ (m E * ((j % N : ℕ) : ℤ)) := by
      intro j
      rw [Finset.sum_range_succ, digit_succ_last, zpow_add₀ (zeta_ne_zero N)]
      congr 2
      apply Finset.sum_congr rfl
      intro d hd
      rw [digit_succ_of_lt _ _ _ _ (Finset.mem_range.mp hd)]
    simp only [hterm]
    rw [pow_succ, sum_range_mul_div_mod (N ^ E) N (fun x y : ℕ =>
        zeta N ^ (∑ d ∈ range E, m d * (digit E N x d : ℤ)) * zeta N ^ (m E * (y : ℤ))),
      ← Finset.sum_mul_sum, sum_zeta_digits N hN m E, zeta_sum_zpow N hN]
    by_cases h1 : ∀ d < E, (N : ℤ) ∣ m d
    · by_cases h2 : (N : ℤ) ∣ m E
      · have h3 : ∀ d < E + 1, (N : ℤ) ∣ m d := by
          intro d hd
          rcases Nat.lt_succ_iff_lt_or_eq.mp hd with h | h
          · exact h1 d h
          · rw [h]; exact h2
        rw [if_pos h1, if_pos h2, if_pos h3]
        push_cast
        ring
      · have h3 : ¬ ∀ d < E + 1, (N : ℤ) ∣ m d := fun h => h2 (h E (Nat.lt_succ_self E))
        rw [if_neg h2, if_neg h3, mul_zero]
    · have h3 : ¬ ∀ d < E + 1, (N : ℤ) ∣ m d := fun h => h1 (fun d hd => h d (Nat.lt_succ_of_lt hd))
      rw [if_neg h1, if_neg h3, zero_mul]

/-- a sampled cosine as two powers of `ζ_N` -/
theorem cos_eq_zeta (N : ℕ) (p : ℤ) (a φ : ℝ) :
    (((a * Real.cos (2 * Real.pi * (p : ℝ) / N + φ)) : ℝ) : ℂ)
      = (a / 2 : ℂ) * (Complex.exp (φ * Complex.I) * zeta N ^ (-p)
          + Complex.exp (-(φ * Complex.I)) * zeta N ^ p) := by
  rw [zeta_zpow_eq_exp, zeta_zpow_eq_exp, ← Complex.exp_add, ← Complex.exp_add]
  set θ : ℂ := 2 * Real.pi * (p : ℂ) / N + φ with hθ
  have hA : (φ : ℂ) * Complex.I + -(2 * (Real.pi : ℂ) * Complex.I * ((-p : ℤ) : ℂ) / (N : ℂ))
      = θ * Complex.I := by
    rw [hθ]; push_cast; ring
  have hB : -((φ : ℂ) * Complex.I) + -(2 * (Real.pi : ℂ) * Complex.I * ((p : ℤ) : ℂ) / (N : ℂ))
      = -θ * Complex.I := by
    rw [hθ]; ring
  rw [hA, hB, ← Complex.two_cos]
  rw [hθ]
  push_cast
  ring

/-! ### the single-mode field -/

/-- `u_j = a cos(2π (κ·j)/N + φ)` on the `N^D` grid, `κ·j = phaseK D N κ j` -/
noncomputable def modeField (D N : ℕ) (κ : List ℤ) (a φ : ℝ) : Array ℂ :=
  tab (N ^ D) (fun j => (((a * Real.cos (2 * Real.pi * ((phaseK D N κ j : ℤ) : ℝ) / N + φ)) : ℝ) : ℂ))

@[simp] theorem modeField_size (D N : ℕ) (κ : List ℤ) (a φ : ℝ) : (modeField D N κ a φ).size = N ^ D := by
  simp [modeField]

theorem modeField_getD (D N : ℕ) (κ : List ℤ) (a φ : ℝ) (j : ℕ) (hj : j < N ^ D) :
    (modeField D N κ a φ).getD j 0
      = (((a * Real.cos (2 * Real.pi * ((phaseK D N κ j : ℤ) : ℝ) / N + φ)) : ℝ) : ℂ) := by
  rw [modeField, tab_getD _ _ _ _ hj]

theorem modeField_real (D N : ℕ) (κ : List ℤ) (a φ : ℝ) (j : ℕ) (hj : j < N ^ D) :
    ((modeField D N κ a φ).getD j 0).im = 0 := by
  rw [modeField_getD D N κ a φ j hj, Complex.ofReal_im]

/-- `κ·j` is the digit-wise dot product (restating `phaseK_eq_sum`) -/
theorem phaseK_eq_dot (D N : ℕ) (κ : List ℤ) (j : ℕ) :
    phaseK D N κ j = ∑ d ∈ range D, κ.getD d 0 * (digit D N j d : ℤ) := phaseK_eq_sum D N κ j

theorem phaseK_negK (D N : ℕ) (κ : List ℤ) (j : ℕ) : phaseK D N (negK κ) j = -phaseK D N κ j := by
  rw [phaseK_eq_sum, phaseK_eq_sum, ← Finset.sum_neg_distrib]
  apply Finset.sum_congr rfl
  intro d _
  rw [negK_getD]; ring

/-- the field of `-κ` with phase `φ` is the field of `κ` with phase `-φ` -/
theorem modeField_negK (D N : ℕ) (κ : List ℤ) (a φ : ℝ) :
    modeField D N (negK κ) a φ = modeField D N κ a (-φ) := by
  unfold modeField
  congr 1
  funext j
  rw [phaseK_negK, ← Real.cos_neg]
  congr 3
  push_cast
  ring

/-! ### A1, aliasing form: no restriction on `κ` -/

/-- **Single-mode read-off, any `κ`.**  `û_h = (a/2)e^{iφ}N^D·[k(h) ≡ κ (mod N)] + (a/2)e^{-iφ}N^D·[k(h) ≡ -κ (mod N)]`. -/
theorem rfftnM_modeField_general (D N : ℕ) (hN : 0 < N) (κ : List ℤ) (a φ : ℝ) (h : ℕ)
    (hh : h < numModes D N) :
    (rfftnM D N (modeField D N κ a φ)).getD h 0
      = (a / 2 : ℂ) * Complex.exp (φ * Complex.I) *
          (if ∀ d < D, (N : ℤ) ∣ (wnFlat D N h).getD d 0 - κ.getD d 0 then ((N ^ D : ℕ) : ℂ) else 0)
        + (a / 2 : ℂ) * Complex.exp (-(φ * Complex.I)) *
          (if ∀ d < D, (N : ℤ) ∣ (wnFlat D N h).getD d 0 + κ.getD d 0 then ((N ^ D : ℕ) : ℂ) else 0) := by
  rw [rfftnM_getD D N hN _ h hh]
  have hterm : ∀ j ∈ range (N ^ D),
      (modeField D N κ a φ).getD j 0 * twiddle N (phaseK D N (wnFlat D N h) j)
        = (a / 2 : ℂ) * Complex.exp (φ * Complex.I) *
            zeta N ^ (∑ d ∈ range D, ((wnFlat D N h).getD d 0 - κ.getD d 0) * (digit D N j d : ℤ))
          + (a / 2 : ℂ) * Complex.exp (-(φ * Complex.I)) *
            zeta N ^ (∑ d ∈ range D, ((wnFlat D N h).getD d 0 + κ.getD d 0) * (digit D N j d : ℤ)) := by
    intro j hj
    have e1 : ∑ d ∈ range D, ((wnFlat D N h).getD d 0 - κ.getD d 0) * (digit D N j d : ℤ)
        = -phaseK D N κ j + phaseK D N (wnFlat D N h) j := by
      rw [phaseK_eq_sum, phaseK_eq_sum, ← Finset.sum_neg_distrib, ← Finset.sum_add_distrib]
      exact Finset.sum_congr rfl (fun d _ => by ring)
    have e2 : ∑ d ∈ range D, ((wnFlat D N h).getD d 0 + κ.getD d 0) * (digit D N j d : ℤ)
        = phaseK D N κ j + phaseK D N (wnFlat D N h) j := by
      rw [phaseK_eq_sum, phaseK_eq_sum, ← Finset.sum_add_distrib]
      exact Finset.sum_congr rfl (fun d _ => by ring)
    rw [modeField_getD D N κ a φ j (Finset.mem_range.mp hj), cos_eq_zeta, twiddle_eq_zpow, e1, e2,
      zpow_add₀ (zeta_ne_zero N), zpow_add₀ (zeta_ne_zero N)]
    ring
  rw [Finset.sum_congr rfl hterm, Finset.sum_add_distrib, ← Finset.mul_sum, ← Finset.mul_sum,
    sum_zeta_digits N hN (fun d => (wnFlat D N h).getD d 0 - κ.getD d 0) D,
    sum_zeta_digits N hN (fun d => (wnFlat D N h).getD d 0 + κ.getD d 0) D]

/-! ### below Nyquist, congruence mod `N` is equality -/

/-- strictly below Nyquist on every axis -/
def BelowNyquist (D N : ℕ) (κ : List ℤ) : Prop :=
  κ.length = D ∧ ∀ d < D, 2 * |κ.getD d 0| < (N : ℤ)

theorem BelowNyquist.negK {D N : ℕ} {κ : List ℤ} (hκ : BelowNyquist D N κ) :
    BelowNyquist D N (negK κ) := by
  refine ⟨by rw [negK_length]; exact hκ.1, ?_⟩
  intro d hd
  rw [negK_getD, abs_neg]
  exact hκ.2 d hd

theorem wnFlat_getD_abs_le (D N h : ℕ) (hD : 0 < D) (hN : 0 < N) (hh : h < numModes D N) (d : ℕ)
    (hd : d < D) : 2 * |(wnFlat D N h).getD d 0| ≤ (N : ℤ) := by
  have := wnFlat_abs_le D N h hD hN hh d hd
  rw [← wnFlat_getD' D N h d hd] at this
  have h2 : 2 * ((N / 2 : ℕ) : ℤ) ≤ (N : ℤ) := by
    have := Nat.mul_div_le N 2
    omega
  omega

theorem dvd_sub_iff_eq (D N : ℕ) (hD : 0 < D) (hN : 0 < N) (κ : List ℤ) (hκ : BelowNyquist D N κ)
    (h : ℕ) (hh : h < numModes D N) :
    (∀ d < D, (N : ℤ) ∣ (wnFlat D N h).getD d 0 - κ.getD d 0) ↔ wnFlat D N h = κ := by
  constructor
  · intro hdv
    apply list_ext_getD _ _ D (wnFlat_length D N h) hκ.1
    intro d hd
    have h1 := wnFlat_getD_abs_le D N h hD hN hh d hd
    have h2 := hκ.2 d hd
    have h3 : |(wnFlat D N h).getD d 0 - κ.getD d 0| < (N : ℤ) := by
      have := abs_sub ((wnFlat D N h).getD d 0) (κ.getD d 0)
      omega
    have := eq_zero_of_dvd_of_abs_lt N _ (hdv d hd) h3
    omega
  · intro he d _
    rw [he, sub_self]
    exact dvd_zero _

theorem dvd_add_iff_eq (D N : ℕ) (hD : 0 < D) (hN : 0 < N) (κ : List ℤ) (hκ : BelowNyquist D N κ)
    (h : ℕ) (hh : h < numModes D N) :
    (∀ d < D, (N : ℤ) ∣ (wnFlat D N h).getD d 0 + κ.getD d 0) ↔ wnFlat D N h = negK κ := by
  rw [← dvd_sub_iff_eq D N hD hN (negK κ) hκ.negK h hh]
  simp only [negK_getD, sub_neg_eq_add]

/-! ### A1 -/

/-- **A1, single-mode read-off in `D` dimensions (strictly below Nyquist).**
    `û_h = (a/2)·N^D·e^{iφ}` where `k(h) = κ`, plus `(a/2)·N^D·e^{-iφ}` where `k(h) = -κ`, and `0` at every
    other stored mode. -/
theorem rfftnM_modeField (D N : ℕ) (hD : 0 < D) (hN : 0 < N) (κ : List ℤ) (hκ : BelowNyquist D N κ)
    (a φ : ℝ) (h : ℕ) (hh : h < numModes D N) :
    (rfftnM D N (modeField D N κ a φ)).getD h 0
      = (if wnFlat D N h = κ then (a / 2 : ℂ) * ((N ^ D : ℕ) : ℂ) * Complex.exp (φ * Complex.I) else 0)
        + (if wnFlat D N h = negK κ then (a / 2 : ℂ) * ((N ^ D : ℕ) : ℂ) * Complex.exp (-(φ * Complex.I))
            else 0) := by
  rw [rfftnM_modeField_general D N hN κ a φ h hh]
  simp only [dvd_sub_iff_eq D N hD hN κ hκ h hh, dvd_add_iff_eq D N hD hN κ hκ h hh]
  congr 1
  · split_ifs <;> ring
  · split_ifs <;> ring

/-- `κ = -κ` iff `κ = 0` -/
theorem eq_negK_iff (D : ℕ) (κ : List ℤ) (hκ : κ.length = D) :
    κ = negK κ ↔ ∀ d < D, κ.getD d 0 = 0 := by
  constructor
  · intro he d _
    have : κ.getD d 0 = (negK κ).getD d 0 := by rw [← he]
    rw [negK_getD] at this
    omega
  · intro h0
    apply list_ext_getD _ _ D hκ (by rw [negK_length]; exact hκ)
    intro d hd
    rw [negK_getD, h0 d hd, neg_zero]

/-- A1(a): at the stored mode carrying `κ ≠ 0` the coefficient is `(a/2)·N^D·e^{iφ}` -/
theorem rfftnM_modeField_at (D N : ℕ) (hD : 0 < D) (hN : 0 < N) (κ : List ℤ) (hκ : BelowNyquist D N κ)
    (hne : ∃ d < D, κ.getD d 0 ≠ 0) (a φ : ℝ) (h : ℕ) (hh : h < numModes D N) (hk : wnFlat D N h = κ) :
    (rfftnM D N (modeField D N κ a φ)).getD h 0
      = (a / 2 : ℂ) * ((N ^ D : ℕ) : ℂ) * Complex.exp (φ * Complex.I) := by
  rw [rfftnM_modeField D N hD hN κ hκ a φ h hh, if_pos hk, if_neg, add_zero]
  rw [hk]
  intro he
  obtain ⟨d, hd, hne⟩ := hne
  exact hne ((eq_negK_iff D κ hκ.1).mp he d hd)

/-- A1(b): at the stored partner (the mode carrying `-κ`, which exists exactly when `κ_last = 0`) the
    coefficient is the conjugate `(a/2)·N^D·e^{-iφ}` -/
theorem rfftnM_modeField_partner (D N : ℕ) (hD : 0 < D) (hN : 0 < N) (κ : List ℤ)
    (hκ : BelowNyquist D N κ) (hne : ∃ d < D, κ.getD d 0 ≠ 0) (a φ : ℝ) (h : ℕ) (hh : h < numModes D N)
    (hk : wnFlat D N h = negK κ) :
    (rfftnM D N (modeField D N κ a φ)).getD h 0
      = (starRingEnd ℂ) ((a / 2 : ℂ) * ((N ^ D : ℕ) : ℂ) * Complex.exp (φ * Complex.I)) := by
  rw [rfftnM_modeField D N hD hN κ hκ a φ h hh, if_pos hk, if_neg, zero_add]
  · have e1 : ((a : ℂ) / 2) = (((a / 2 : ℝ)) : ℂ) := by push_cast; ring
    rw [map_mul, map_mul, e1, Complex.conj_ofReal, Complex.conj_natCast, ← Complex.exp_conj, map_mul,
      Complex.conj_I, Complex.conj_ofReal, mul_neg]
  · rw [hk]
    intro he
    obtain ⟨d, hd, hne⟩ := hne
    exact hne ((eq_negK_iff D κ hκ.1).mp he.symm d hd)

/-- A1(c): `κ = 0`: the DC coefficient (flat index `0`) is `a·cos φ·N^D` -/
theorem rfftnM_modeField_dc (D N : ℕ) (hD : 0 < D) (hN : 0 < N) (κ : List ℤ) (hκ : κ.length = D)
    (h0 : ∀ d < D, κ.getD d 0 = 0) (a φ : ℝ) :
    (rfftnM D N (modeField D N κ a φ)).getD 0 0 = (((a * Real.cos φ * (N ^ D : ℕ)) : ℝ) : ℂ) := by
  have hκ' : BelowNyquist D N κ := ⟨hκ, fun d hd => by rw [h0 d hd]; simpa using hN⟩
  have hM : 0 < numModes D N := by
    rw [numModes_eq]; positivity
  have hk : wnFlat D N 0 = κ := by
    apply list_ext_getD _ _ D (wnFlat_length D N 0) hκ
    intro d hd
    rw [wnFlat_zero, h0 d hd]
  have hk' : wnFlat D N 0 = negK κ := by
    rw [← (eq_negK_iff D κ hκ).mpr h0]; exact hk
  rw [rfftnM_modeField D N hD hN κ hκ' a φ 0 hM, if_pos hk, if_pos hk']
  have := Complex.two_cos (φ : ℂ)
  rw [neg_mul] at this
  push_cast
  linear_combination ((a : ℂ) / 2 * ((N : ℂ) ^ D)) * this.symm

/-- A1(d): every other stored mode vanishes -/
theorem rfftnM_modeField_other (D N : ℕ) (hD : 0 < D) (hN : 0 < N) (κ : List ℤ) (hκ : BelowNyquist D N κ)
    (a φ : ℝ) (h : ℕ) (hh : h < numModes D N) (h1 : wnFlat D N h ≠ κ) (h2 : wnFlat D N h ≠ negK κ) :
    (rfftnM D N (modeField D N κ a φ)).getD h 0 = 0 := by
  rw [rfftnM_modeField D N hD hN κ hκ a φ h hh, if_neg h1, if_neg h2, add_zero]

/-! non-vacuity (existence of the stored indices: `ExactLinearIndex.stored_existsUnique`) -/
example : BelowNyquist 2 4 [1, -1] ∧ ∃ d < 2, ([1, -1] : List ℤ).getD d 0 ≠ 0 :=
  ⟨⟨rfl, by intro d hd; interval_cases d <;> simp⟩, 0, by norm_num, by decide⟩
example : BelowNyquist 3 5 [2, -2, 0] := ⟨rfl, by intro d hd; interval_cases d <;> simp⟩
example : ([0, 0] : List ℤ).length = 2 ∧ ∀ d < 2, ([0, 0] : List ℤ).getD d 0 = 0 :=
  ⟨rfl, by intro d hd; interval_cases d <;> simp⟩
example : (0 : ℕ) < numModes 2 4 := by rw [numModes_eq]; norm_num

end Exponax.ExactLinear
