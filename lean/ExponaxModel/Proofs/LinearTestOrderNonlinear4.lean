import ExponaxModel.Proofs.LinearTestOrderNonlinear4Prep
/-
C02 support — T8: ETDRK4 (Cox–Matthews) for a genuinely NONLINEAR `N : ℂ → ℂ`: classical order 4.

Hypotheses as for ETDRK3 (`LinearTestOrderNonlinear3.lean`) with one more Taylor term of `f t = N (u t)`:
   `‖f(t+s) − f t − s f₁ t − s²/2 f₂ t − s³/6 f₃ t‖ ≤ G₄ s⁴/24`,  `‖f_j t‖ ≤ M_j` (`j = 1,2,3`)  on `[0,T]`,
and the linearisation `L τ = N'(u τ)` (real-linear, `‖L τ v‖ ≤ K‖v‖`, quadratic remainder `H`, Lipschitz in `τ` with
constant `HL`).  The constants involve `‖λ‖` (classical order).

Structure of the proof (`etd4_core`): with `P = (λ f₁ + f₂)/48 − L f₁/16`,
   `(a − u(t+h/2)) + (b − u(t+h/2)) = h³ P + O(h⁴)`,   `c − u(t+h) = −2h³ P + O(h⁴)`,
and the weights satisfy `2β·1 + γ·(−2) = O(λh)`, so the `h⁴`-terms of the defect cancel.

 * `etd4_local_error`  `≤ NL4.Cloc·h⁵`;   `etd4_stable`  `e^{ωh} + h·Θ₄`;   `etd4_global_error`  `≤ NL4.Cglob·dt⁴`.
-/
set_option linter.unusedVariables false
noncomputable section
namespace Exponax.LinearOrder
open Exponax Exponax.Spec Exponax.ContourTail Exponax.Gen.Etdrk

/-- the regenerated ETDRK4 step in stage form (the three stored half-step coefficients equal) -/
theorem E4step_eq_stages (E Eh ch c4 c5 c6 : ℂ) (N : ℂ → ℂ) (x : ℂ) :
    E4step E Eh ch ch ch c4 c5 c6 N x
      = E * x + c4 * N x
        + c5 * 2 * (N (Eh * x + ch * N x) + N (Eh * x + ch * N (Eh * x + ch * N x)))
        + c6 * N (Eh * (Eh * x + ch * N x)
            + ch * (2 * N (Eh * x + ch * N (Eh * x + ch * N x)) - N x)) := by
  simp only [E4step, lit_eq]; push_cast; ring

set_option maxHeartbeats 400000 in
/-- **algebraic core of the ETDRK4 local error** (about 60 norm estimates in one context: the default
    heartbeat budget is doubled for this single lemma) -/
theorem etd4_core (c : NL4) (N : ℂ → ℂ) (La Lb : ℂ →ₗ[ℝ] ℂ) (h : ℝ)
    (hK0 : 0 ≤ c.K) (hM10 : 0 ≤ c.M1) (hM20 : 0 ≤ c.M2) (hM30 : 0 ≤ c.M3) (hG4 : 0 ≤ c.G4)
    (hH : 0 ≤ c.H) (hHL : 0 ≤ c.HL) (hΛ0 : 0 ≤ c.Lam) (hω : 0 ≤ c.ω) (hT : 0 ≤ c.T) (hh : 0 ≤ h)
    (hhT : h ≤ c.T)
    (hNlip : ∀ x y, ‖N x - N y‖ ≤ c.K * ‖x - y‖)
    (l u0 uh u1 d1 d2 d3 E Eh p1 p2 p3 p4 q1 q2 q3 : ℂ)
    (hlΛ : ‖l‖ ≤ c.Lam) (eE : E = Eh * Eh) (eP1 : (h : ℂ) * p1 = (h : ℂ) / 2 * q1 * (Eh + 1))
    (bq1 : ‖q1‖ ≤ c.W) (bq3 : ‖q3‖ ≤ c.W / 6)
    (dA : ‖q2 - 1 / 2‖ ≤ c.Lam * h * c.W / 12) (dB : ‖q1 - 1‖ ≤ c.Lam * h * c.W / 4)
    (dAB1 : ‖q1 - 2 * q2 - l * h / 12‖ ≤ (c.Lam * h) ^ 2 * c.W / 16)
    (dAB2 : ‖q1 - 4 * q3 - 1 / 3‖ ≤ c.Lam * h * c.W / 3)
    (dC1 : ‖q1 / 2 - p2 + l * h / 24‖ ≤ (c.Lam * h) ^ 2 * c.W / 16)
    (dC2 : ‖q1 / 8 - p3 + 1 / 24‖ ≤ c.Lam * h * c.W * (7 / 96))
    (dβγ : ‖(p2 - 2 * p3) - (4 * p3 - p2)‖ ≤ c.Lam * h * (7 * c.W / 12))
    (dQ : ‖-p2 / 12 + p3 / 2 - p4‖ ≤ c.Lam * h * (c.W / 72 + c.W / 48 + c.W / 120))
    (bβ : ‖p2 - 2 * p3‖ ≤ 5 * c.W / 6) (bγ : ‖4 * p3 - p2‖ ≤ 7 * c.W / 6)
    (hd1M : ‖d1‖ ≤ c.M1) (hd2M : ‖d2‖ ≤ c.M2) (hd3M : ‖d3‖ ≤ c.M3)
    (nρa : ‖uh - (Eh * u0 + (h : ℂ) / 2 * q1 * N u0 + ((h : ℂ) / 2) ^ 2 * q2 * d1
        + ((h : ℂ) / 2) ^ 3 * q3 * d2)‖ ≤ c.W * c.G3 * h ^ 4 / 384)
    (nρ3 : ‖u1 - (E * u0 + (h : ℂ) * p1 * N u0 + (h : ℂ) ^ 2 * p2 * d1 + (h : ℂ) ^ 3 * p3 * d2)‖
      ≤ c.W * c.G3 * h ^ 4 / 24)
    (nρ4 : ‖u1 - (E * u0 + (h : ℂ) * p1 * N u0 + (h : ℂ) ^ 2 * p2 * d1 + (h : ℂ) ^ 3 * p3 * d2
        + (h : ℂ) ^ 4 * p4 * d3)‖ ≤ c.W * c.G4 * h ^ 5 / 120)
    (nσ2 : ‖N uh - N u0 - (h : ℂ) / 2 * d1‖ ≤ c.G2 * h ^ 2 / 8)
    (nσ3 : ‖N uh - N u0 - (h : ℂ) / 2 * d1 - ((h : ℂ) / 2) ^ 2 / 2 * d2‖ ≤ c.G3 * h ^ 3 / 48)
    (nτh : ‖N uh - N u0 - (h : ℂ) / 2 * d1 - ((h : ℂ) / 2) ^ 2 / 2 * d2 - ((h : ℂ) / 2) ^ 3 / 6 * d3‖
      ≤ c.G4 * h ^ 4 / 384)
    (nτe : ‖N u1 - N u0 - (h : ℂ) * d1 - (h : ℂ) ^ 2 / 2 * d2 - (h : ℂ) ^ 3 / 6 * d3‖
      ≤ c.G4 * h ^ 4 / 24)
    (hLaK : ∀ v, ‖La v‖ ≤ c.K * ‖v‖) (hLbK : ∀ v, ‖Lb v‖ ≤ c.K * ‖v‖)
    (hLina : ∀ y, ‖N y - N uh - La (y - uh)‖ ≤ c.H / 2 * ‖y - uh‖ ^ 2)
    (hLinb : ∀ y, ‖N y - N u1 - Lb (y - u1)‖ ≤ c.H / 2 * ‖y - u1‖ ^ 2)
    (hLab : ∀ v, ‖La v - Lb v‖ ≤ c.HL * (h / 2) * ‖v‖) :
    ‖u1 - (E * u0 + (h : ℂ) * (p1 - 3 * p2 + 4 * p3) * N u0
        + (h : ℂ) * (p2 - 2 * p3) * 2
          * (N (Eh * u0 + (h : ℂ) * (q1 / 2) * N u0)
            + N (Eh * u0 + (h : ℂ) * (q1 / 2) * N (Eh * u0 + (h : ℂ) * (q1 / 2) * N u0)))
        + (h : ℂ) * (4 * p3 - p2)
          * N (Eh * (Eh * u0 + (h : ℂ) * (q1 / 2) * N u0)
            + (h : ℂ) * (q1 / 2)
              * (2 * N (Eh * u0 + (h : ℂ) * (q1 / 2) * N (Eh * u0 + (h : ℂ) * (q1 / 2) * N u0))
                - N u0)))‖
      ≤ c.Cloc * h ^ 5 := by
  have hW1 : 1 ≤ c.W := Real.one_le_exp (mul_nonneg hω hT)
  have hW0 : 0 ≤ c.W := by linarith
  have hG30 : 0 ≤ c.G3 := by unfold NL4.G3; positivity
  have hG20 : 0 ≤ c.G2 := by unfold NL4.G2; positivity
  have hEA0 : 0 ≤ c.EA := by unfold NL4.EA; positivity
  have hEa20 : 0 ≤ c.Ea2 := by unfold NL4.Ea2; positivity
  have hEB0 : 0 ≤ c.EB := by unfold NL4.EB; positivity
  have hEb20 : 0 ≤ c.Eb2 := by unfold NL4.Eb2; positivity
  have hPb0 : 0 ≤ c.Pb := by unfold NL4.Pb; positivity
  have hEAB0 : 0 ≤ c.EAB := by unfold NL4.EAB; positivity
  have hEC0 : 0 ≤ c.EC := by unfold NL4.EC; positivity
  have hEc30 : 0 ≤ c.Ec3 := by unfold NL4.Ec3; positivity
  have b2 : ‖(2 : ℂ)‖ ≤ 2 := by simp
  have bhc : ‖(h : ℂ)‖ ≤ h := nrm_ofReal hh le_rfl
  have bhpow : ∀ (k : ℕ) (r : ℝ), 0 < r → ‖(h : ℂ) ^ k / (r : ℂ)‖ ≤ h ^ k / r := by
    intro k r hr
    rw [norm_div, norm_pow, Complex.norm_real, Real.norm_eq_abs, abs_of_nonneg hh, Complex.norm_real,
      Real.norm_eq_abs, abs_of_pos hr]
  have bh2_4 : ‖(h : ℂ) ^ 2 / 4‖ ≤ h ^ 2 / 4 := by have := bhpow 2 4 (by norm_num); simpa using this
  have bh3_16 : ‖(h : ℂ) ^ 3 / 16‖ ≤ h ^ 3 / 16 := by have := bhpow 3 16 (by norm_num); simpa using this
  have bh3_8 : ‖(h : ℂ) ^ 3 / 8‖ ≤ h ^ 3 / 8 := by have := bhpow 3 8 (by norm_num); simpa using this
  have bh_2 : ‖(h : ℂ) / 2‖ ≤ h / 2 := by have := bhpow 1 2 (by norm_num); simpa using this
  have bhh3 : ‖((h : ℂ) / 2) ^ 3‖ ≤ h ^ 3 / 8 := by
    rw [norm_pow]
    calc ‖(h : ℂ) / 2‖ ^ 3 ≤ (h / 2) ^ 3 := pow_le_pow_left₀ (norm_nonneg _) bh_2 3
      _ = h ^ 3 / 8 := by ring
  have bh2' : ‖(h : ℂ) ^ 2‖ ≤ h ^ 2 := by
    rw [norm_pow, Complex.norm_real, Real.norm_eq_abs, abs_of_nonneg hh]
  have bh3' : ‖(h : ℂ) ^ 3‖ ≤ h ^ 3 := by
    rw [norm_pow, Complex.norm_real, Real.norm_eq_abs, abs_of_nonneg hh]
  have bh4' : ‖(h : ℂ) ^ 4‖ ≤ h ^ 4 := by
    rw [norm_pow, Complex.norm_real, Real.norm_eq_abs, abs_of_nonneg hh]
  have h4T : h ^ 4 ≤ c.T * h ^ 3 := by
    calc h ^ 4 = h * h ^ 3 := by ring
      _ ≤ c.T * h ^ 3 := mul_le_mul_of_nonneg_right hhT (by positivity)
  have h3T : h ^ 3 ≤ c.T * h ^ 2 := by
    calc h ^ 3 = h * h ^ 2 := by ring
      _ ≤ c.T * h ^ 2 := mul_le_mul_of_nonneg_right hhT (sq_nonneg h)
  -- remainders as atoms
  obtain ⟨ρa, hρa⟩ : ∃ ρ, ρ = uh - (Eh * u0 + (h : ℂ) / 2 * q1 * N u0 + ((h : ℂ) / 2) ^ 2 * q2 * d1
      + ((h : ℂ) / 2) ^ 3 * q3 * d2) := ⟨_, rfl⟩
  obtain ⟨ρ3, hρ3⟩ : ∃ ρ, ρ = u1 - (E * u0 + (h : ℂ) * p1 * N u0 + (h : ℂ) ^ 2 * p2 * d1
      + (h : ℂ) ^ 3 * p3 * d2) := ⟨_, rfl⟩
  obtain ⟨ρ4, hρ4⟩ : ∃ ρ, ρ = u1 - (E * u0 + (h : ℂ) * p1 * N u0 + (h : ℂ) ^ 2 * p2 * d1
      + (h : ℂ) ^ 3 * p3 * d2 + (h : ℂ) ^ 4 * p4 * d3) := ⟨_, rfl⟩
  obtain ⟨σ2, hσ2⟩ : ∃ σ, σ = N uh - N u0 - (h : ℂ) / 2 * d1 := ⟨_, rfl⟩
  obtain ⟨σ3, hσ3⟩ : ∃ σ, σ = N uh - N u0 - (h : ℂ) / 2 * d1 - ((h : ℂ) / 2) ^ 2 / 2 * d2 := ⟨_, rfl⟩
  obtain ⟨τh, hτh⟩ : ∃ τ, τ = N uh - N u0 - (h : ℂ) / 2 * d1 - ((h : ℂ) / 2) ^ 2 / 2 * d2
      - ((h : ℂ) / 2) ^ 3 / 6 * d3 := ⟨_, rfl⟩
  obtain ⟨τe, hτe⟩ : ∃ τ, τ = N u1 - N u0 - (h : ℂ) * d1 - (h : ℂ) ^ 2 / 2 * d2
      - (h : ℂ) ^ 3 / 6 * d3 := ⟨_, rfl⟩
  rw [← hρa] at nρa
  rw [← hρ3] at nρ3
  rw [← hρ4] at nρ4
  rw [← hσ2] at nσ2
  rw [← hσ3] at nσ3
  rw [← hτh] at nτh
  rw [← hτe] at nτe
  -- stage a
  obtain ⟨a, ha⟩ : ∃ a, a = Eh * u0 + (h : ℂ) * (q1 / 2) * N u0 := ⟨_, rfl⟩
  rw [← ha]
  obtain ⟨εa, hεa⟩ : ∃ ε, ε = a - uh + ((h ^ 2 / 8 : ℝ) : ℂ) * d1 := ⟨_, rfl⟩
  have eεa : εa = -((h : ℂ) ^ 2 / 4 * (q2 - 1 / 2) * d1) - ((h : ℂ) / 2) ^ 3 * q3 * d2 - ρa := by
    rw [hεa, hρa, ha]; push_cast; ring
  have nεa : ‖εa‖ ≤ c.EA * h ^ 3 := by
    rw [eεa]
    have h1 : ‖(h : ℂ) ^ 2 / 4 * (q2 - 1 / 2) * d1‖ ≤ h ^ 2 / 4 * (c.Lam * h * c.W / 12) * c.M1 :=
      nrm_mul (nrm_mul bh2_4 dA (by positivity)) hd1M (by positivity)
    have h1' : ‖-((h : ℂ) ^ 2 / 4 * (q2 - 1 / 2) * d1)‖ ≤ h ^ 2 / 4 * (c.Lam * h * c.W / 12) * c.M1 := by
      rwa [norm_neg]
    have h2 : ‖((h : ℂ) / 2) ^ 3 * q3 * d2‖ ≤ h ^ 3 / 8 * (c.W / 6) * c.M2 :=
      nrm_mul (nrm_mul bhh3 bq3 (by positivity)) hd2M (by positivity)
    refine (nrm_sub (nrm_sub h1' h2) nρa).trans ?_
    have : c.W * c.G3 * h ^ 4 / 384 ≤ c.W * c.G3 * (c.T * h ^ 3) / 384 := by gcongr
    unfold NL4.EA
    linarith
  have nea : ‖a - uh‖ ≤ c.Ea2 * h ^ 2 := by
    have e1 : a - uh = εa - ((h ^ 2 / 8 : ℝ) : ℂ) * d1 := by rw [hεa]; ring
    rw [e1]
    have h1 : ‖((h ^ 2 / 8 : ℝ) : ℂ) * d1‖ ≤ h ^ 2 / 8 * c.M1 :=
      nrm_mul (nrm_ofReal (by positivity) le_rfl) hd1M (by positivity)
    refine (nrm_sub nεa h1).trans ?_
    have : c.EA * h ^ 3 ≤ c.EA * (c.T * h ^ 2) := mul_le_mul_of_nonneg_left h3T hEA0
    unfold NL4.Ea2
    linarith
  obtain ⟨δa, hδa⟩ : ∃ δ, δ = N a - N uh := ⟨_, rfl⟩
  have nδa : ‖δa‖ ≤ c.K * (c.Ea2 * h ^ 2) := by
    rw [hδa]; exact (hNlip a uh).trans (mul_le_mul_of_nonneg_left nea hK0)
  obtain ⟨qa, hqa⟩ : ∃ q, q = N a - N uh - La (a - uh) := ⟨_, rfl⟩
  have nqa : ‖qa‖ ≤ c.H / 2 * (c.Ea2 * h ^ 2) ^ 2 := by
    rw [hqa]; refine (hLina a).trans ?_; gcongr
  -- stage b
  obtain ⟨b, hb⟩ : ∃ b, b = Eh * u0 + (h : ℂ) * (q1 / 2) * N a := ⟨_, rfl⟩
  rw [← hb]
  obtain ⟨εb, hεb⟩ : ∃ ε, ε = b - uh - ((h ^ 2 / 8 : ℝ) : ℂ) * d1 := ⟨_, rfl⟩
  have eεb : εb = εa + (h : ℂ) ^ 2 / 4 * (q1 - 1) * d1 + (h : ℂ) / 2 * q1 * (σ2 + δa) := by
    rw [hεb, hεa, hb, hσ2, hδa]; push_cast; linear_combination (-1 : ℂ) * ha
  have nεb : ‖εb‖ ≤ c.EB * h ^ 3 := by
    rw [eεb]
    have h1 : ‖(h : ℂ) ^ 2 / 4 * (q1 - 1) * d1‖ ≤ h ^ 2 / 4 * (c.Lam * h * c.W / 4) * c.M1 :=
      nrm_mul (nrm_mul bh2_4 dB (by positivity)) hd1M (by positivity)
    have h2 : ‖(h : ℂ) / 2 * q1 * (σ2 + δa)‖ ≤ h / 2 * c.W * (c.G2 * h ^ 2 / 8 + c.K * (c.Ea2 * h ^ 2)) :=
      nrm_mul (nrm_mul bh_2 bq1 (by positivity)) (nrm_add nσ2 nδa) (by positivity)
    refine (nrm_add (nrm_add nεa h1) h2).trans (le_of_eq ?_)
    unfold NL4.EB; ring
  have neb : ‖b - uh‖ ≤ c.Eb2 * h ^ 2 := by
    have e1 : b - uh = εb + ((h ^ 2 / 8 : ℝ) : ℂ) * d1 := by rw [hεb]; ring
    rw [e1]
    have h1 : ‖((h ^ 2 / 8 : ℝ) : ℂ) * d1‖ ≤ h ^ 2 / 8 * c.M1 :=
      nrm_mul (nrm_ofReal (by positivity) le_rfl) hd1M (by positivity)
    refine (nrm_add nεb h1).trans ?_
    have : c.EB * h ^ 3 ≤ c.EB * (c.T * h ^ 2) := mul_le_mul_of_nonneg_left h3T hEB0
    unfold NL4.Eb2
    linarith
  obtain ⟨qb, hqb⟩ : ∃ q, q = N b - N uh - La (b - uh) := ⟨_, rfl⟩
  have nqb : ‖qb‖ ≤ c.H / 2 * (c.Eb2 * h ^ 2) ^ 2 := by
    rw [hqb]; refine (hLina b).trans ?_; gcongr
  -- linearisations at t + h/2
  have eLa : La (a - uh) = La εa + ((-(h ^ 2 / 8) : ℝ) : ℂ) * La d1 := by
    rw [← lin_real]; congr 1; rw [hεa]; push_cast; ring
  have eLb : La (b - uh) = La εb + ((h ^ 2 / 8 : ℝ) : ℂ) * La d1 := by
    rw [← lin_real]; congr 1; rw [hεb]; push_cast; ring
  have nA1 : ‖La εa‖ ≤ c.K * (c.EA * h ^ 3) := (hLaK εa).trans (mul_le_mul_of_nonneg_left nεa hK0)
  have nB1 : ‖La εb‖ ≤ c.K * (c.EB * h ^ 3) := (hLaK εb).trans (mul_le_mul_of_nonneg_left nεb hK0)
  have nA2 : ‖La d1‖ ≤ c.K * c.M1 := (hLaK d1).trans (mul_le_mul_of_nonneg_left hd1M hK0)
  -- the common cubic coefficient P
  obtain ⟨P, hP⟩ : ∃ P, P = (1 / 48 : ℂ) * (l * d1 + d2) - (1 / 16 : ℂ) * La d1 := ⟨_, rfl⟩
  have nP : ‖P‖ ≤ c.Pb := by
    rw [hP]
    have h1 : ‖(1 / 48 : ℂ) * (l * d1 + d2)‖ ≤ 1 / 48 * (c.Lam * c.M1 + c.M2) :=
      nrm_mul (by simp) (nrm_add (nrm_mul hlΛ hd1M hΛ0) hd2M) (by norm_num)
    have h2 : ‖(1 / 16 : ℂ) * La d1‖ ≤ 1 / 16 * (c.K * c.M1) := nrm_mul (by simp) nA2 (by norm_num)
    refine (nrm_sub h1 h2).trans (le_of_eq ?_)
    unfold NL4.Pb; ring
  have e1 : N a = N uh + (La εa + ((-(h ^ 2 / 8) : ℝ) : ℂ) * La d1) + qa := by rw [hqa, eLa]; ring
  have e2 : N b = N uh + (La εb + ((h ^ 2 / 8 : ℝ) : ℂ) * La d1) + qb := by rw [hqb, eLb]; ring
  -- sum of the two half-step stage errors
  obtain ⟨εab, hεab⟩ : ∃ ε, ε = (a - uh) + (b - uh) - ((h ^ 3 : ℝ) : ℂ) * P := ⟨_, rfl⟩
  have eεab : εab = (h : ℂ) ^ 2 / 4 * (q1 - 2 * q2 - l * h / 12) * d1
      + (h : ℂ) ^ 3 / 16 * (q1 - 4 * q3 - 1 / 3) * d2 - (h : ℂ) ^ 3 / 16 * (q1 - 1) * La d1 - 2 * ρa
      + (h : ℂ) / 2 * q1 * (σ3 + La εa + qa) := by
    rw [hεab, hb, e1, ha, hρa, hσ3, hP]; push_cast; ring
  have nεab : ‖εab‖ ≤ c.EAB * h ^ 4 := by
    rw [eεab]
    have h1 : ‖(h : ℂ) ^ 2 / 4 * (q1 - 2 * q2 - l * h / 12) * d1‖
        ≤ h ^ 2 / 4 * ((c.Lam * h) ^ 2 * c.W / 16) * c.M1 :=
      nrm_mul (nrm_mul bh2_4 dAB1 (by positivity)) hd1M (by positivity)
    have h2 : ‖(h : ℂ) ^ 3 / 16 * (q1 - 4 * q3 - 1 / 3) * d2‖
        ≤ h ^ 3 / 16 * (c.Lam * h * c.W / 3) * c.M2 :=
      nrm_mul (nrm_mul bh3_16 dAB2 (by positivity)) hd2M (by positivity)
    have h3 : ‖(h : ℂ) ^ 3 / 16 * (q1 - 1) * La d1‖
        ≤ h ^ 3 / 16 * (c.Lam * h * c.W / 4) * (c.K * c.M1) :=
      nrm_mul (nrm_mul bh3_16 dB (by positivity)) nA2 (by positivity)
    have h4 : ‖2 * ρa‖ ≤ 2 * (c.W * c.G3 * h ^ 4 / 384) := nrm_mul b2 nρa (by norm_num)
    have h5 : ‖(h : ℂ) / 2 * q1 * (σ3 + La εa + qa)‖
        ≤ h / 2 * c.W * (c.G3 * h ^ 3 / 48 + c.K * (c.EA * h ^ 3) + c.H / 2 * (c.Ea2 * h ^ 2) ^ 2) :=
      nrm_mul (nrm_mul bh_2 bq1 (by positivity)) (nrm_add (nrm_add nσ3 nA1) nqa) (by positivity)
    refine (nrm_add (nrm_sub (nrm_sub (nrm_add h1 h2) h3) h4) h5).trans ?_
    have hq : c.H / 2 * (c.Ea2 * h ^ 2) ^ 2 ≤ c.H / 2 * c.Ea2 ^ 2 * c.T * h ^ 3 := by
      have : (c.Ea2 * h ^ 2) ^ 2 = c.Ea2 ^ 2 * h ^ 4 := by ring
      rw [this]
      have : c.H / 2 * (c.Ea2 ^ 2 * h ^ 4) ≤ c.H / 2 * (c.Ea2 ^ 2 * (c.T * h ^ 3)) := by gcongr
      linarith
    have hq' : h / 2 * c.W * (c.H / 2 * (c.Ea2 * h ^ 2) ^ 2)
        ≤ h / 2 * c.W * (c.H / 2 * c.Ea2 ^ 2 * c.T * h ^ 3) :=
      mul_le_mul_of_nonneg_left hq (by positivity)
    unfold NL4.EAB
    calc _ ≤ h ^ 2 / 4 * ((c.Lam * h) ^ 2 * c.W / 16) * c.M1 + h ^ 3 / 16 * (c.Lam * h * c.W / 3) * c.M2
          + h ^ 3 / 16 * (c.Lam * h * c.W / 4) * (c.K * c.M1) + 2 * (c.W * c.G3 * h ^ 4 / 384)
          + h / 2 * c.W * (c.G3 * h ^ 3 / 48 + c.K * (c.EA * h ^ 3) + c.H / 2 * c.Ea2 ^ 2 * c.T * h ^ 3) := by
          linarith
      _ = _ := by ring
  -- stage c
  obtain ⟨cc, hcc⟩ : ∃ x, x = Eh * a + (h : ℂ) * (q1 / 2) * (2 * N b - N u0) := ⟨_, rfl⟩
  rw [← hcc]
  obtain ⟨εc, hεc⟩ : ∃ ε, ε = cc - u1 + ((2 * h ^ 3 : ℝ) : ℂ) * P := ⟨_, rfl⟩
  have eεc : εc = (h : ℂ) ^ 2 * (q1 / 2 - p2 + l * h / 24) * d1
      + (h : ℂ) ^ 3 * (q1 / 8 - p3 + 1 / 24) * d2 + (h : ℂ) ^ 3 / 8 * (q1 - 1) * La d1
      + (h : ℂ) * q1 * (σ3 + La εb + qb) - ρ3 := by
    rw [hεc, hcc, e2, ha, hρ3, hσ3, hP]
    push_cast
    linear_combination (-u0) * eE + (-(N u0)) * eP1
  have nεc : ‖εc‖ ≤ c.EC * h ^ 4 := by
    rw [eεc]
    have h1 : ‖(h : ℂ) ^ 2 * (q1 / 2 - p2 + l * h / 24) * d1‖
        ≤ h ^ 2 * ((c.Lam * h) ^ 2 * c.W / 16) * c.M1 :=
      nrm_mul (nrm_mul bh2' dC1 (by positivity)) hd1M (by positivity)
    have h2 : ‖(h : ℂ) ^ 3 * (q1 / 8 - p3 + 1 / 24) * d2‖
        ≤ h ^ 3 * (c.Lam * h * c.W * (7 / 96)) * c.M2 :=
      nrm_mul (nrm_mul bh3' dC2 (by positivity)) hd2M (by positivity)
    have h3 : ‖(h : ℂ) ^ 3 / 8 * (q1 - 1) * La d1‖
        ≤ h ^ 3 / 8 * (c.Lam * h * c.W / 4) * (c.K * c.M1) :=
      nrm_mul (nrm_mul bh3_8 dB (by positivity)) nA2 (by positivity)
    have h5 : ‖(h : ℂ) * q1 * (σ3 + La εb + qb)‖
        ≤ h * c.W * (c.G3 * h ^ 3 / 48 + c.K * (c.EB * h ^ 3) + c.H / 2 * (c.Eb2 * h ^ 2) ^ 2) :=
      nrm_mul (nrm_mul bhc bq1 hh) (nrm_add (nrm_add nσ3 nB1) nqb) (by positivity)
    refine (nrm_sub (nrm_add (nrm_add (nrm_add h1 h2) h3) h5) nρ3).trans ?_
    have hq : c.H / 2 * (c.Eb2 * h ^ 2) ^ 2 ≤ c.H / 2 * c.Eb2 ^ 2 * c.T * h ^ 3 := by
      have : (c.Eb2 * h ^ 2) ^ 2 = c.Eb2 ^ 2 * h ^ 4 := by ring
      rw [this]
      have : c.H / 2 * (c.Eb2 ^ 2 * h ^ 4) ≤ c.H / 2 * (c.Eb2 ^ 2 * (c.T * h ^ 3)) := by gcongr
      linarith
    have hq' : h * c.W * (c.H / 2 * (c.Eb2 * h ^ 2) ^ 2)
        ≤ h * c.W * (c.H / 2 * c.Eb2 ^ 2 * c.T * h ^ 3) :=
      mul_le_mul_of_nonneg_left hq (by positivity)
    unfold NL4.EC
    calc _ ≤ h ^ 2 * ((c.Lam * h) ^ 2 * c.W / 16) * c.M1 + h ^ 3 * (c.Lam * h * c.W * (7 / 96)) * c.M2
          + h ^ 3 / 8 * (c.Lam * h * c.W / 4) * (c.K * c.M1)
          + h * c.W * (c.G3 * h ^ 3 / 48 + c.K * (c.EB * h ^ 3) + c.H / 2 * c.Eb2 ^ 2 * c.T * h ^ 3)
          + c.W * c.G3 * h ^ 4 / 24 := by linarith
      _ = _ := by ring
  have nec : ‖cc - u1‖ ≤ c.Ec3 * h ^ 3 := by
    have e : cc - u1 = εc - ((2 * h ^ 3 : ℝ) : ℂ) * P := by rw [hεc]; ring
    rw [e]
    have h1 : ‖((2 * h ^ 3 : ℝ) : ℂ) * P‖ ≤ 2 * h ^ 3 * c.Pb :=
      nrm_mul (nrm_ofReal (by positivity) le_rfl) nP (by positivity)
    refine (nrm_sub nεc h1).trans ?_
    have : c.EC * h ^ 4 ≤ c.EC * (c.T * h ^ 3) := mul_le_mul_of_nonneg_left h4T hEC0
    unfold NL4.Ec3
    linarith
  obtain ⟨qc, hqc⟩ : ∃ q, q = N cc - N u1 - Lb (cc - u1) := ⟨_, rfl⟩
  have nqc : ‖qc‖ ≤ c.H / 2 * (c.Ec3 * h ^ 3) ^ 2 := by
    rw [hqc]; refine (hLinb cc).trans ?_; gcongr
  have eLc : Lb (cc - u1) = Lb εc + ((-(2 * h ^ 3) : ℝ) : ℂ) * Lb P := by
    rw [← lin_real]; congr 1; rw [hεc]; push_cast; ring
  have eLab : La (a - uh) + La (b - uh) = La εab + ((h ^ 3 : ℝ) : ℂ) * La P := by
    rw [← map_add, ← lin_real]; congr 1; rw [hεab]; ring
  have nAB1 : ‖La εab‖ ≤ c.K * (c.EAB * h ^ 4) :=
    (hLaK εab).trans (mul_le_mul_of_nonneg_left nεab hK0)
  have nC1 : ‖Lb εc‖ ≤ c.K * (c.EC * h ^ 4) := (hLbK εc).trans (mul_le_mul_of_nonneg_left nεc hK0)
  have nLaP : ‖La P‖ ≤ c.K * c.Pb := (hLaK P).trans (mul_le_mul_of_nonneg_left nP hK0)
  have nLabP : ‖La P - Lb P‖ ≤ c.HL * (h / 2) * c.Pb :=
    (hLab P).trans (mul_le_mul_of_nonneg_left nP (by positivity))
  have e3 : N a + N b = 2 * N uh + (La εab + ((h ^ 3 : ℝ) : ℂ) * La P) + qa + qb := by
    rw [← eLab, hqa, hqb]; ring
  have e4 : N cc = N u1 + (Lb εc + ((-(2 * h ^ 3) : ℝ) : ℂ) * Lb P) + qc := by rw [hqc, eLc]; ring
  generalize La εab = AB1 at *
  generalize Lb εc = C1 at *
  generalize La P = LaP at *
  generalize Lb P = LbP at *
  -- the defect identity
  have hid : u1 - (E * u0 + (h : ℂ) * (p1 - 3 * p2 + 4 * p3) * N u0
        + (h : ℂ) * (p2 - 2 * p3) * 2 * (N a + N b) + (h : ℂ) * (4 * p3 - p2) * N cc)
      = -((h : ℂ) * (4 * (p2 - 2 * p3) * τh + (4 * p3 - p2) * τe)
        + (h : ℂ) ^ 4 * (-p2 / 12 + p3 / 2 - p4) * d3
        + (h : ℂ) * (2 * (p2 - 2 * p3) * (AB1 + qa + qb) + (4 * p3 - p2) * (C1 + qc))
        + 2 * ((h : ℂ) ^ 4 * (((p2 - 2 * p3) - (4 * p3 - p2)) * LaP + (4 * p3 - p2) * (LaP - LbP)))
        - ρ4) := by
    rw [e3, e4, hτh, hτe, hρ4]
    push_cast
    ring
  rw [hid, norm_neg]
  have b4c : ‖(4 : ℂ)‖ ≤ 4 := by simp
  have g1 : ‖(h : ℂ) * (4 * (p2 - 2 * p3) * τh + (4 * p3 - p2) * τe)‖
      ≤ h * (4 * (5 * c.W / 6) * (c.G4 * h ^ 4 / 384) + (7 * c.W / 6) * (c.G4 * h ^ 4 / 24)) :=
    nrm_mul bhc (nrm_add (nrm_mul (nrm_mul b4c bβ (by norm_num)) nτh (by positivity))
      (nrm_mul bγ nτe (by positivity))) hh
  have g2 : ‖(h : ℂ) ^ 4 * (-p2 / 12 + p3 / 2 - p4) * d3‖
      ≤ h ^ 4 * (c.Lam * h * (c.W / 72 + c.W / 48 + c.W / 120)) * c.M3 :=
    nrm_mul (nrm_mul bh4' dQ (by positivity)) hd3M (by positivity)
  have g3 : ‖(h : ℂ) * (2 * (p2 - 2 * p3) * (AB1 + qa + qb) + (4 * p3 - p2) * (C1 + qc))‖
      ≤ h * (2 * (5 * c.W / 6) * (c.K * (c.EAB * h ^ 4) + c.H / 2 * (c.Ea2 * h ^ 2) ^ 2
            + c.H / 2 * (c.Eb2 * h ^ 2) ^ 2)
          + (7 * c.W / 6) * (c.K * (c.EC * h ^ 4) + c.H / 2 * (c.Ec3 * h ^ 3) ^ 2)) :=
    nrm_mul bhc (nrm_add (nrm_mul (nrm_mul b2 bβ (by norm_num)) (nrm_add (nrm_add nAB1 nqa) nqb)
      (by positivity)) (nrm_mul bγ (nrm_add nC1 nqc) (by positivity))) hh
  have g4 : ‖2 * ((h : ℂ) ^ 4 * (((p2 - 2 * p3) - (4 * p3 - p2)) * LaP + (4 * p3 - p2) * (LaP - LbP)))‖
      ≤ 2 * (h ^ 4 * (c.Lam * h * (7 * c.W / 12) * (c.K * c.Pb)
          + (7 * c.W / 6) * (c.HL * (h / 2) * c.Pb))) :=
    nrm_mul b2 (nrm_mul bh4' (nrm_add (nrm_mul dβγ nLaP (by positivity))
      (nrm_mul bγ nLabP (by positivity))) (by positivity)) (by norm_num)
  refine (nrm_sub (nrm_add (nrm_add (nrm_add g1 g2) g3) g4) nρ4).trans ?_
  have hh2 : h ^ 2 ≤ c.T ^ 2 := pow_le_pow_left₀ hh hhT 2
  have hfin : h * (4 * (5 * c.W / 6) * (c.G4 * h ^ 4 / 384) + (7 * c.W / 6) * (c.G4 * h ^ 4 / 24))
      + h ^ 4 * (c.Lam * h * (c.W / 72 + c.W / 48 + c.W / 120)) * c.M3
      + h * (2 * (5 * c.W / 6) * (c.K * (c.EAB * h ^ 4) + c.H / 2 * (c.Ea2 * h ^ 2) ^ 2
            + c.H / 2 * (c.Eb2 * h ^ 2) ^ 2)
          + (7 * c.W / 6) * (c.K * (c.EC * h ^ 4) + c.H / 2 * (c.Ec3 * h ^ 3) ^ 2))
      + 2 * (h ^ 4 * (c.Lam * h * (7 * c.W / 12) * (c.K * c.Pb)
          + (7 * c.W / 6) * (c.HL * (h / 2) * c.Pb)))
      + c.W * c.G4 * h ^ 5 / 120
      = ((10 * c.W / 3) * (c.G4 / 384) + (7 * c.W / 6) * (c.G4 / 24) + c.W * c.G4 / 120
          + c.Lam * (c.W / 72 + c.W / 48 + c.W / 120) * c.M3
          + 2 * (c.Lam * (7 * c.W / 12) * (c.K * c.Pb) + (7 * c.W / 6) * (c.HL / 2 * c.Pb))
          + 2 * (5 * c.W / 6) * (c.K * c.EAB + c.H / 2 * c.Ea2 ^ 2 + c.H / 2 * c.Eb2 ^ 2)
          + (7 * c.W / 6) * (c.K * c.EC + c.H / 2 * c.Ec3 ^ 2 * h ^ 2)) * h ^ 5 := by ring
  rw [hfin]
  unfold NL4.Cloc
  gcongr

/-- the φ-relations and φ-difference bounds of the ETDRK4 proof (`z = λh`, `0 ≤ h ≤ T`, `W = e^{ωT}`) -/
theorem etd4_phi_diffs (l : ℂ) (ω h T : ℝ) (hω : 0 ≤ ω) (hl : l.re ≤ ω) (hh : 0 ≤ h) (hhT : h ≤ T) :
    ‖phi1e (l * h / 2) - 1‖ ≤ ‖l‖ * h * Real.exp (ω * T) / 4 ∧
    ‖phi1e (l * h / 2) - 2 * phi2e (l * h / 2) - l * h / 12‖ ≤ (‖l‖ * h) ^ 2 * Real.exp (ω * T) / 16 ∧
    ‖phi1e (l * h / 2) - 4 * phi3e (l * h / 2) - 1 / 3‖ ≤ ‖l‖ * h * Real.exp (ω * T) / 3 ∧
    ‖phi1e (l * h / 2) / 2 - phi2e (l * h) + l * h / 24‖ ≤ (‖l‖ * h) ^ 2 * Real.exp (ω * T) / 16 ∧
    ‖phi1e (l * h / 2) / 8 - phi3e (l * h) + 1 / 24‖ ≤ ‖l‖ * h * Real.exp (ω * T) * (7 / 96) ∧
    ‖(phi2e (l * h) - 2 * phi3e (l * h)) - (4 * phi3e (l * h) - phi2e (l * h))‖
      ≤ ‖l‖ * h * (7 * Real.exp (ω * T) / 12) ∧
    ‖-(phi2e (l * h)) / 12 + phi3e (l * h) / 2 - phiE 4 (l * h)‖
      ≤ ‖l‖ * h * (Real.exp (ω * T) / 72 + Real.exp (ω * T) / 48 + Real.exp (ω * T) / 120) ∧
    ‖phi2e (l * h) - 2 * phi3e (l * h)‖ ≤ 5 * Real.exp (ω * T) / 6 ∧
    ‖phi3e (l * h / 2)‖ ≤ Real.exp (ω * T) / 6 := by
  obtain ⟨bp1, bp2, bp3, bp4, bq1, bq2, bq3, bE, bEh⟩ := etd_phi_bounds l ω h T hω hl hh hhT
  have hwz := max_exp_le_W l ω h T hω hl hh hhT
  have hwz2 := max_exp_le_W_half l ω h T hω hl hh hhT
  set W := Real.exp (ω * T) with hW
  have hW0 : 0 ≤ W := (Real.exp_pos _).le
  have bq3' : ‖phi3e (l * h / 2)‖ ≤ W / 6 := by rw [← phiE_three]; exact bq3
  have bq4 : ‖phiE 4 (l * h / 2)‖ ≤ W / 24 := by
    have := norm_phiE_le_W 3 (l * h / 2) W hwz2
    norm_num [Nat.factorial] at this; exact this
  have bp5 : ‖phiE 5 (l * h)‖ ≤ W / 120 := by
    have := norm_phiE_le_W 4 (l * h) W hwz
    norm_num [Nat.factorial] at this; exact this
  have hzn : ‖l * (h : ℂ)‖ = ‖l‖ * h := by
    rw [norm_mul, Complex.norm_real, Real.norm_eq_abs, abs_of_nonneg hh]
  have hzn2 : ‖l * (h : ℂ) / 2‖ = ‖l‖ * h / 2 := by rw [norm_div, hzn]; simp
  have hlh0 : 0 ≤ ‖l‖ * h := mul_nonneg (norm_nonneg l) hh
  have hzsq : ‖(l * (h : ℂ)) ^ 2‖ = (‖l‖ * h) ^ 2 := by rw [norm_pow, hzn]
  have hzsq2 : ‖(l * (h : ℂ) / 2) ^ 2‖ = (‖l‖ * h) ^ 2 / 4 := by rw [norm_pow, hzn2]; ring
  have b2 : ‖(2 : ℂ)‖ ≤ 2 := by simp
  have b4 : ‖(4 : ℂ)‖ ≤ 4 := by simp
  have b6 : ‖(6 : ℂ)‖ ≤ 6 := by simp
  have ndiv : ∀ (x : ℂ) (X r : ℝ), 0 < r → ‖x‖ ≤ X → ‖x / (r : ℂ)‖ ≤ X / r := by
    intro x X r hr hx
    rw [norm_div, Complex.norm_real, Real.norm_eq_abs, abs_of_pos hr]
    exact div_le_div_of_nonneg_right hx hr.le
  refine ⟨?_, ?_, ?_, ?_, ?_, ?_, ?_, ?_, bq3'⟩
  · rw [phi1e_sub_one]
    refine (nrm_mul hzn2.le bq2 (by positivity)).trans (le_of_eq ?_); ring
  · have e : l * (h : ℂ) / 12 = (l * h / 2) / 6 := by ring
    rw [e, phi_q1_sub_2q2]
    refine (nrm_mul hzsq2.le (nrm_sub bq3' (nrm_mul b2 bq4 (by norm_num))) (by positivity)).trans
      (le_of_eq ?_)
    ring
  · rw [phi_q1_sub_4q3]
    refine (nrm_mul hzn2.le (nrm_sub bq2 (nrm_mul b4 bq4 (by norm_num))) (by positivity)).trans
      (le_of_eq ?_)
    ring
  · rw [phi_c1]
    have h8 : ‖phi3e (l * h / 2) / 8‖ ≤ W / 6 / 8 := by
      have := ndiv (phi3e (l * h / 2)) (W / 6) 8 (by norm_num) bq3'; simpa using this
    refine (nrm_mul hzsq.le (nrm_sub h8 bp4) (by positivity)).trans (le_of_eq ?_)
    ring
  · rw [phi_c2]
    have h16 : ‖phi2e (l * h / 2) / 16‖ ≤ W / 2 / 16 := by
      have := ndiv (phi2e (l * h / 2)) (W / 2) 16 (by norm_num) bq2; simpa using this
    refine (nrm_mul hzn.le (nrm_sub h16 bp4) hlh0).trans (le_of_eq ?_)
    ring
  · rw [phi_beta_sub_gamma]
    refine (nrm_mul hzn.le (nrm_sub (nrm_mul b2 bp3 (by norm_num)) (nrm_mul b6 bp4 (by norm_num)))
      hlh0).trans (le_of_eq ?_)
    ring
  · rw [phi_quad4]
    have h12 : ‖-(phi3e (l * h)) / 12‖ ≤ W / 6 / 12 := by
      have := ndiv (-(phi3e (l * h))) (W / 6) 12 (by norm_num) (by rwa [norm_neg]); simpa using this
    have h2 : ‖phiE 4 (l * h) / 2‖ ≤ W / 24 / 2 := by
      have := ndiv (phiE 4 (l * h)) (W / 24) 2 (by norm_num) bp4; simpa using this
    refine (nrm_mul hzn.le (nrm_sub (nrm_add h12 h2) bp5) hlh0).trans (le_of_eq ?_)
    ring
  · exact (nrm_sub bp2 (nrm_mul b2 bp3 (by norm_num))).trans (le_of_eq (by ring))

/-- third-order Taylor bound of `f` from the fourth-order hypothesis -/
theorem tay3_of_tay4 (N : ℂ → ℂ) (u f1 f2 f3 : ℝ → ℂ) (T M3 G4 : ℝ) (hG4 : 0 ≤ G4)
    (hM3 : ∀ t ∈ Set.Icc (0 : ℝ) T, ‖f3 t‖ ≤ M3)
    (hTay : ∀ t s : ℝ, 0 ≤ t → 0 ≤ s → t + s ≤ T →
      ‖N (u (t + s)) - N (u t) - (s : ℂ) * f1 t - (s : ℂ) ^ 2 / 2 * f2 t - (s : ℂ) ^ 3 / 6 * f3 t‖
        ≤ G4 * s ^ 4 / 24)
    (t s : ℝ) (ht : 0 ≤ t) (hs : 0 ≤ s) (hts : t + s ≤ T) :
    ‖N (u (t + s)) - N (u t) - (s : ℂ) * f1 t - (s : ℂ) ^ 2 / 2 * f2 t‖
      ≤ (M3 + G4 * T / 4) * s ^ 3 / 6 := by
  have htmem : t ∈ Set.Icc (0 : ℝ) T := ⟨ht, by linarith⟩
  have h1 := hTay t s ht hs hts
  have h2 : ‖(s : ℂ) ^ 3 / 6 * f3 t‖ ≤ s ^ 3 / 6 * M3 := by
    refine nrm_mul ?_ (hM3 t htmem) (by positivity)
    rw [norm_div, norm_pow, Complex.norm_real, Real.norm_eq_abs, abs_of_nonneg hs]; simp
  have h3 : N (u (t + s)) - N (u t) - (s : ℂ) * f1 t - (s : ℂ) ^ 2 / 2 * f2 t
      = (N (u (t + s)) - N (u t) - (s : ℂ) * f1 t - (s : ℂ) ^ 2 / 2 * f2 t - (s : ℂ) ^ 3 / 6 * f3 t)
        + (s : ℂ) ^ 3 / 6 * f3 t := by ring
  rw [h3]
  refine (nrm_add h1 h2).trans ?_
  have hsT : s ≤ T := by linarith
  have h4 : s ^ 4 ≤ T * s ^ 3 := by
    calc s ^ 4 = s * s ^ 3 := by ring
      _ ≤ T * s ^ 3 := mul_le_mul_of_nonneg_right hsT (by positivity)
  have h5 : G4 * s ^ 4 ≤ G4 * (T * s ^ 3) := mul_le_mul_of_nonneg_left h4 hG4
  linarith

/-- **T8, ETDRK4: local error `O(h⁵)`** of one regenerated `E4step` with the exact coefficients, started on the
    exact solution, for a nonlinear `N` (classical order; the constant involves `‖λ‖`) -/
theorem etd4_local_error (l : ℂ) (N : ℂ → ℂ) (K : NNReal) (hN : LipschitzWith K N) (u : ℝ → ℂ)
    (T ω M1 M2 M3 G4 H HL : ℝ) (hω : 0 ≤ ω) (hl : l.re ≤ ω) (hG4 : 0 ≤ G4) (hH : 0 ≤ H)
    (hHL : 0 ≤ HL)
    (hu : ∀ t ∈ Set.Icc (0 : ℝ) T, HasDerivAt u (l * u t + N (u t)) t)
    (f1 f2 f3 : ℝ → ℂ) (hM1 : ∀ t ∈ Set.Icc (0 : ℝ) T, ‖f1 t‖ ≤ M1)
    (hM2 : ∀ t ∈ Set.Icc (0 : ℝ) T, ‖f2 t‖ ≤ M2) (hM3 : ∀ t ∈ Set.Icc (0 : ℝ) T, ‖f3 t‖ ≤ M3)
    (hTay : ∀ t s : ℝ, 0 ≤ t → 0 ≤ s → t + s ≤ T →
      ‖N (u (t + s)) - N (u t) - (s : ℂ) * f1 t - (s : ℂ) ^ 2 / 2 * f2 t - (s : ℂ) ^ 3 / 6 * f3 t‖
        ≤ G4 * s ^ 4 / 24)
    (L : ℝ → ℂ →ₗ[ℝ] ℂ)
    (hLK : ∀ τ ∈ Set.Icc (0 : ℝ) T, ∀ v, ‖L τ v‖ ≤ K * ‖v‖)
    (hLin : ∀ τ ∈ Set.Icc (0 : ℝ) T, ∀ y, ‖N y - N (u τ) - L τ (y - u τ)‖ ≤ H / 2 * ‖y - u τ‖ ^ 2)
    (hLlip : ∀ τ ∈ Set.Icc (0 : ℝ) T, ∀ τ' ∈ Set.Icc (0 : ℝ) T, ∀ v,
      ‖L τ v - L τ' v‖ ≤ HL * |τ - τ'| * ‖v‖)
    (t h : ℝ) (ht : 0 ≤ t) (hh : 0 ≤ h) (hth : t + h ≤ T) :
    ‖u (t + h) - E4step (Complex.exp (l * h)) (Complex.exp (l * h / 2)) (h * (phi1e (l * h / 2) / 2))
        (h * (phi1e (l * h / 2) / 2)) (h * (phi1e (l * h / 2) / 2))
        (h * (phi1e (l * h) - 3 * phi2e (l * h) + 4 * phi3e (l * h)))
        (h * (phi2e (l * h) - 2 * phi3e (l * h))) (h * (4 * phi3e (l * h) - phi2e (l * h))) N (u t)‖
      ≤ NL4.Cloc ⟨K, M1, M2, M3, G4, H, HL, ‖l‖, ω, T⟩ * h ^ 5 := by
  have hT : 0 ≤ T := by linarith
  have hhT : h ≤ T := by linarith
  have h0mem : (0 : ℝ) ∈ Set.Icc (0 : ℝ) T := ⟨le_rfl, hT⟩
  have htmem : t ∈ Set.Icc (0 : ℝ) T := ⟨ht, by linarith⟩
  have hthmem : t + h / 2 ∈ Set.Icc (0 : ℝ) T := ⟨by linarith, by linarith⟩
  have ht1mem : t + h ∈ Set.Icc (0 : ℝ) T := ⟨by linarith, hth⟩
  have hM10 : 0 ≤ M1 := (norm_nonneg _).trans (hM1 0 h0mem)
  have hM20 : 0 ≤ M2 := (norm_nonneg _).trans (hM2 0 h0mem)
  have hM30 : 0 ≤ M3 := (norm_nonneg _).trans (hM3 0 h0mem)
  obtain ⟨bp1, bp2, bp3, bp4, bq1, bq2, bq3, bE, bEh⟩ := etd_phi_bounds l ω h T hω hl hh hhT
  obtain ⟨d_q2, d_p12, d_gb, b4β, bγ, bα⟩ := etd3_phi_diffs l ω h T hω hl hh hhT
  obtain ⟨dB, dAB1, dAB2, dC1, dC2, dβγ, dQ, bβ, bq3'⟩ := etd4_phi_diffs l ω h T hω hl hh hhT
  have hG30 : 0 ≤ M3 + G4 * T / 4 := by positivity
  have tay3 := tay3_of_tay4 N u f1 f2 f3 T M3 G4 hG4 hM3 hTay
  have tay2 := tay2_of_tay3 N u f1 f2 T M2 (M3 + G4 * T / 4) hG30 hM2 tay3
  have hsub : ∀ k : ℝ, 0 ≤ k → t + k ≤ T → Set.Icc t (t + k) ⊆ Set.Icc (0 : ℝ) T :=
    fun k hk hkT s hs => ⟨ht.trans hs.1, hs.2.trans hkT⟩
  have hfc : ∀ k : ℝ, 0 ≤ k → t + k ≤ T → ContinuousOn (fun s => N (u s)) (Set.Icc t (t + k)) :=
    fun k hk hkT => hN.continuous.comp_continuousOn
      (fun s hs => (hu s (hsub k hk hkT hs)).continuousAt.continuousWithinAt)
  have hT3 : ∀ k : ℝ, 0 ≤ k → t + k ≤ T → ∀ s ∈ Set.Icc t (t + k),
      ‖N (u s) - N (u t) - ((s - t : ℝ) : ℂ) * f1 t - ((s - t : ℝ) : ℂ) ^ 2 / 2 * f2 t‖
        ≤ (M3 + G4 * T / 4) * (s - t) ^ 3 / 6 := by
    intro k hk hkT s hs
    have := tay3 t (s - t) ht (by linarith [hs.1]) (by linarith [hs.2])
    rwa [show t + (s - t) = s by ring] at this
  -- exact solution at t + h/2 and t + h
  have Fa := etd_defect3 l ω (M3 + G4 * T / 4) u (fun s => N (u s)) t (t + h / 2) (by linarith) hω hl
    (fun s hs => hu s (hsub (h / 2) (by linarith) (by linarith) hs))
    (hfc (h / 2) (by linarith) (by linarith)) (f1 t) (f2 t) (hT3 (h / 2) (by linarith) (by linarith))
  rw [show t + h / 2 - t = h / 2 by ring] at Fa
  have ecast : l * ((h / 2 : ℝ) : ℂ) = l * h / 2 := by push_cast; ring
  have ecast' : ((h / 2 : ℝ) : ℂ) = (h : ℂ) / 2 := by push_cast; ring
  rw [ecast, ecast'] at Fa
  have F3 := etd_defect3 l ω (M3 + G4 * T / 4) u (fun s => N (u s)) t (t + h) (by linarith) hω hl
    (fun s hs => hu s (hsub h hh hth hs)) (hfc h hh hth) (f1 t) (f2 t) (hT3 h hh hth)
  rw [show t + h - t = h by ring] at F3
  have F4 := etd_defect4 l ω G4 u (fun s => N (u s)) t (t + h) (by linarith) hω hl
    (fun s hs => hu s (hsub h hh hth hs)) (hfc h hh hth) (f1 t) (f2 t) (f3 t)
    (fun s hs => by
      have := hTay t (s - t) ht (by linarith [hs.1]) (by linarith [hs.2])
      rwa [show t + (s - t) = s by ring] at this)
  rw [show t + h - t = h by ring] at F4
  have Tσ2 := tay2 t (h / 2) ht (by linarith) (by linarith)
  have Tσ3 := tay3 t (h / 2) ht (by linarith) (by linarith)
  have Tτh := hTay t (h / 2) ht (by linarith) (by linarith)
  have Tτe := hTay t h ht hh hth
  rw [ecast'] at Tσ2 Tσ3 Tτh
  have hexpW : Real.exp (ω * h) ≤ Real.exp (ω * T) :=
    Real.exp_le_exp.mpr (mul_le_mul_of_nonneg_left hhT hω)
  have hexpW2 : Real.exp (ω * (h / 2)) ≤ Real.exp (ω * T) :=
    Real.exp_le_exp.mpr (mul_le_mul_of_nonneg_left (by linarith) hω)
  have eP1 : (h : ℂ) * phi1e (l * h) = (h : ℂ) / 2 * phi1e (l * h / 2) * (Complex.exp (l * h / 2) + 1) := by
    rw [phi1e_double (l * h)]; ring
  rw [E4step_eq_stages]
  refine etd4_core ⟨K, M1, M2, M3, G4, H, HL, ‖l‖, ω, T⟩ N (L (t + h / 2)) (L (t + h)) h K.coe_nonneg hM10
    hM20 hM30 hG4 hH hHL (norm_nonneg l) hω hT hh hhT
    (fun x y => by have := hN.dist_le_mul x y; rwa [dist_eq_norm, dist_eq_norm] at this)
    l (u t) (u (t + h / 2)) (u (t + h)) (f1 t) (f2 t) (f3 t) _ _ _ _ _ (phiE 4 (l * h)) _ _ _ le_rfl
    (exp_half_sq (l * h)).symm eP1 bq1 bq3' d_q2 dB dAB1 dAB2 dC1 dC2 dβγ dQ bβ bγ (hM1 t htmem)
    (hM2 t htmem) (hM3 t htmem) ?_ ?_ ?_ ?_ ?_ ?_ Tτe (hLK _ hthmem) (hLK _ ht1mem) (hLin _ hthmem)
    (hLin _ ht1mem) ?_
  · refine Fa.trans ?_
    show _ ≤ Real.exp (ω * T) * (M3 + G4 * T / 4) * h ^ 4 / 384
    calc Real.exp (ω * (h / 2)) * (M3 + G4 * T / 4) * (h / 2) ^ 4 / 24
        ≤ Real.exp (ω * T) * (M3 + G4 * T / 4) * (h / 2) ^ 4 / 24 := by gcongr
      _ = Real.exp (ω * T) * (M3 + G4 * T / 4) * h ^ 4 / 384 := by ring
  · refine F3.trans ?_
    show _ ≤ Real.exp (ω * T) * (M3 + G4 * T / 4) * h ^ 4 / 24
    gcongr
  · refine F4.trans ?_
    show _ ≤ Real.exp (ω * T) * G4 * h ^ 5 / 120
    gcongr
  · refine Tσ2.trans (le_of_eq ?_)
    show _ = (M2 + (M3 + G4 * T / 4) * T / 3) * h ^ 2 / 8
    ring
  · refine Tσ3.trans (le_of_eq ?_)
    show _ = (M3 + G4 * T / 4) * h ^ 3 / 48
    ring
  · refine Tτh.trans (le_of_eq ?_)
    show _ = G4 * h ^ 4 / 384
    ring
  · intro v
    have := hLlip (t + h / 2) hthmem (t + h) ht1mem v
    rwa [show t + h / 2 - (t + h) = -(h / 2) by ring, abs_neg, abs_of_nonneg (by linarith)] at this


/-- **T8, ETDRK4: stability** of the step map (`0 ≤ dt ≤ T`) -/
theorem etd4_stable (l : ℂ) (N : ℂ → ℂ) (K : NNReal) (hN : LipschitzWith K N) (ω T dt : ℝ)
    (hω : 0 ≤ ω) (hl : l.re ≤ ω) (hdt : 0 ≤ dt) (hdtT : dt ≤ T) (x y : ℂ) :
    ‖E4step (Complex.exp (l * dt)) (Complex.exp (l * dt / 2)) (dt * (phi1e (l * dt / 2) / 2))
          (dt * (phi1e (l * dt / 2) / 2)) (dt * (phi1e (l * dt / 2) / 2))
          (dt * (phi1e (l * dt) - 3 * phi2e (l * dt) + 4 * phi3e (l * dt)))
          (dt * (phi2e (l * dt) - 2 * phi3e (l * dt))) (dt * (4 * phi3e (l * dt) - phi2e (l * dt))) N x
        - E4step (Complex.exp (l * dt)) (Complex.exp (l * dt / 2)) (dt * (phi1e (l * dt / 2) / 2))
          (dt * (phi1e (l * dt / 2) / 2)) (dt * (phi1e (l * dt / 2) / 2))
          (dt * (phi1e (l * dt) - 3 * phi2e (l * dt) + 4 * phi3e (l * dt)))
          (dt * (phi2e (l * dt) - 2 * phi3e (l * dt))) (dt * (4 * phi3e (l * dt) - phi2e (l * dt))) N y‖
      ≤ (Real.exp (ω * dt) + dt * etd4Θ K ω T) * ‖x - y‖ := by
  have hT : 0 ≤ T := hdt.trans hdtT
  have hK0 : (0 : ℝ) ≤ K := K.coe_nonneg
  obtain ⟨bp1, bp2, bp3, bp4, bq1, bq2, bq3, bE, bEh⟩ := etd_phi_bounds l ω dt T hω hl hdt hdtT
  obtain ⟨d_q2, d_p12, d_gb, b4β, bγ, bα⟩ := etd3_phi_diffs l ω dt T hω hl hdt hdtT
  obtain ⟨dB, dAB1, dAB2, dC1, dC2, dβγ, dQ, bβ, bq3'⟩ := etd4_phi_diffs l ω dt T hω hl hdt hdtT
  have bE' : ‖Complex.exp (l * dt)‖ ≤ Real.exp (ω * dt) := by
    rw [Complex.norm_exp, Complex.re_mul_ofReal]
    exact Real.exp_le_exp.mpr (mul_le_mul_of_nonneg_right hl hdt)
  set W := Real.exp (ω * T) with hW
  have hW0 : 0 ≤ W := (Real.exp_pos _).le
  have hlip : ∀ x y, ‖N x - N y‖ ≤ K * ‖x - y‖ := fun x y => by
    have := hN.dist_le_mul x y; rwa [dist_eq_norm, dist_eq_norm] at this
  rw [E4step_eq_stages, E4step_eq_stages]
  generalize Complex.exp (l * dt) = E at *
  generalize Complex.exp (l * dt / 2) = Eh at *
  generalize phi1e (l * dt) = p1 at *
  generalize phi2e (l * dt) = p2 at *
  generalize phi3e (l * dt) = p3 at *
  generalize phi1e (l * dt / 2) = q1 at *
  set δ := ‖x - y‖ with hδ
  have hδ0 : 0 ≤ δ := norm_nonneg _
  have bdt : ‖(dt : ℂ)‖ ≤ dt := nrm_ofReal hdt le_rfl
  have b2 : ‖(2 : ℂ)‖ ≤ 2 := by simp
  have bq1h : ‖q1 / 2‖ ≤ W / 2 := by
    rw [norm_div]; simpa using div_le_div_of_nonneg_right bq1 (by norm_num : (0 : ℝ) ≤ 2)
  have bch : ‖(dt : ℂ) * (q1 / 2)‖ ≤ T / 2 * W := by
    refine (nrm_mul bdt bq1h hdt).trans ?_
    have : dt * (W / 2) ≤ T * (W / 2) := mul_le_mul_of_nonneg_right hdtT (by positivity)
    linarith
  have hch0 : 0 ≤ T / 2 * W := by positivity
  -- stage a
  obtain ⟨ax, hax⟩ : ∃ a, a = Eh * x + (dt : ℂ) * (q1 / 2) * N x := ⟨_, rfl⟩
  obtain ⟨ay, hay⟩ : ∃ a, a = Eh * y + (dt : ℂ) * (q1 / 2) * N y := ⟨_, rfl⟩
  rw [← hax, ← hay]
  have na : ‖ax - ay‖ ≤ etd4Aa K ω T * δ := by
    have e : ax - ay = Eh * (x - y) + (dt : ℂ) * (q1 / 2) * (N x - N y) := by rw [hax, hay]; ring
    rw [e]
    refine (nrm_add (nrm_mul bEh le_rfl hW0) (nrm_mul bch (hlip x y) hch0)).trans (le_of_eq ?_)
    unfold etd4Aa; ring
  have hAa0 : 0 ≤ etd4Aa K ω T := by unfold etd4Aa; positivity
  have nNa : ‖N ax - N ay‖ ≤ K * (etd4Aa K ω T * δ) :=
    (hlip ax ay).trans (mul_le_mul_of_nonneg_left na hK0)
  -- stage b
  obtain ⟨bx, hbx⟩ : ∃ b, b = Eh * x + (dt : ℂ) * (q1 / 2) * N ax := ⟨_, rfl⟩
  obtain ⟨bY, hby⟩ : ∃ b, b = Eh * y + (dt : ℂ) * (q1 / 2) * N ay := ⟨_, rfl⟩
  rw [← hbx, ← hby]
  have nb : ‖bx - bY‖ ≤ etd4Ab K ω T * δ := by
    have e : bx - bY = Eh * (x - y) + (dt : ℂ) * (q1 / 2) * (N ax - N ay) := by rw [hbx, hby]; ring
    rw [e]
    refine (nrm_add (nrm_mul bEh le_rfl hW0) (nrm_mul bch nNa hch0)).trans (le_of_eq ?_)
    unfold etd4Ab; ring
  have hAb0 : 0 ≤ etd4Ab K ω T := by unfold etd4Ab; positivity
  have nNb : ‖N bx - N bY‖ ≤ K * (etd4Ab K ω T * δ) :=
    (hlip bx bY).trans (mul_le_mul_of_nonneg_left nb hK0)
  -- stage c
  obtain ⟨cx, hcx⟩ : ∃ c, c = Eh * ax + (dt : ℂ) * (q1 / 2) * (2 * N bx - N x) := ⟨_, rfl⟩
  obtain ⟨cy, hcy⟩ : ∃ c, c = Eh * ay + (dt : ℂ) * (q1 / 2) * (2 * N bY - N y) := ⟨_, rfl⟩
  rw [← hcx, ← hcy]
  have nc : ‖cx - cy‖ ≤ etd4Ac K ω T * δ := by
    have e : cx - cy = Eh * (ax - ay) + (dt : ℂ) * (q1 / 2) * (2 * (N bx - N bY) - (N x - N y)) := by
      rw [hcx, hcy]; ring
    rw [e]
    refine (nrm_add (nrm_mul bEh na hW0) (nrm_mul bch
      (nrm_sub (nrm_mul b2 nNb (by norm_num)) (hlip x y)) hch0)).trans (le_of_eq ?_)
    unfold etd4Ac; ring
  have hAc0 : 0 ≤ etd4Ac K ω T := by unfold etd4Ac; positivity
  have nNc : ‖N cx - N cy‖ ≤ K * (etd4Ac K ω T * δ) :=
    (hlip cx cy).trans (mul_le_mul_of_nonneg_left nc hK0)
  -- final stage
  have e : E * x + (dt : ℂ) * (p1 - 3 * p2 + 4 * p3) * N x + (dt : ℂ) * (p2 - 2 * p3) * 2 * (N ax + N bx)
        + (dt : ℂ) * (4 * p3 - p2) * N cx
      - (E * y + (dt : ℂ) * (p1 - 3 * p2 + 4 * p3) * N y + (dt : ℂ) * (p2 - 2 * p3) * 2 * (N ay + N bY)
        + (dt : ℂ) * (4 * p3 - p2) * N cy)
      = E * (x - y) + (dt : ℂ) * ((p1 - 3 * p2 + 4 * p3) * (N x - N y)
          + (p2 - 2 * p3) * (2 * ((N ax - N ay) + (N bx - N bY))) + (4 * p3 - p2) * (N cx - N cy)) := by
    ring
  rw [e]
  refine (nrm_add (nrm_mul bE' le_rfl (Real.exp_pos _).le) (nrm_mul bdt
    (nrm_add (nrm_add (nrm_mul bα (hlip x y) (by positivity))
      (nrm_mul bβ (nrm_mul b2 (nrm_add nNa nNb) (by norm_num)) (by positivity)))
      (nrm_mul bγ nNc (by positivity))) hdt)).trans (le_of_eq ?_)
  unfold etd4Θ
  ring

/-- **T8, ETDRK4: global error `O(dt⁴)`** for a nonlinear `N` (classical order) -/
theorem etd4_global_error (l : ℂ) (N : ℂ → ℂ) (K : NNReal) (hN : LipschitzWith K N) (u : ℝ → ℂ)
    (T ω M1 M2 M3 G4 H HL : ℝ) (hω : 0 ≤ ω) (hl : l.re ≤ ω) (hG4 : 0 ≤ G4) (hH : 0 ≤ H)
    (hHL : 0 ≤ HL)
    (hu : ∀ t ∈ Set.Icc (0 : ℝ) T, HasDerivAt u (l * u t + N (u t)) t)
    (f1 f2 f3 : ℝ → ℂ) (hM1 : ∀ t ∈ Set.Icc (0 : ℝ) T, ‖f1 t‖ ≤ M1)
    (hM2 : ∀ t ∈ Set.Icc (0 : ℝ) T, ‖f2 t‖ ≤ M2) (hM3 : ∀ t ∈ Set.Icc (0 : ℝ) T, ‖f3 t‖ ≤ M3)
    (hTay : ∀ t s : ℝ, 0 ≤ t → 0 ≤ s → t + s ≤ T →
      ‖N (u (t + s)) - N (u t) - (s : ℂ) * f1 t - (s : ℂ) ^ 2 / 2 * f2 t - (s : ℂ) ^ 3 / 6 * f3 t‖
        ≤ G4 * s ^ 4 / 24)
    (L : ℝ → ℂ →ₗ[ℝ] ℂ)
    (hLK : ∀ τ ∈ Set.Icc (0 : ℝ) T, ∀ v, ‖L τ v‖ ≤ K * ‖v‖)
    (hLin : ∀ τ ∈ Set.Icc (0 : ℝ) T, ∀ y, ‖N y - N (u τ) - L τ (y - u τ)‖ ≤ H / 2 * ‖y - u τ‖ ^ 2)
    (hLlip : ∀ τ ∈ Set.Icc (0 : ℝ) T, ∀ τ' ∈ Set.Icc (0 : ℝ) T, ∀ v,
      ‖L τ v - L τ' v‖ ≤ HL * |τ - τ'| * ‖v‖)
    (n : ℕ) (dt : ℝ) (hdt : 0 ≤ dt) (hn : n * dt ≤ T) :
    ‖u (n * dt) - (E4step (Complex.exp (l * dt)) (Complex.exp (l * dt / 2)) (dt * (phi1e (l * dt / 2) / 2))
        (dt * (phi1e (l * dt / 2) / 2)) (dt * (phi1e (l * dt / 2) / 2))
        (dt * (phi1e (l * dt) - 3 * phi2e (l * dt) + 4 * phi3e (l * dt)))
        (dt * (phi2e (l * dt) - 2 * phi3e (l * dt))) (dt * (4 * phi3e (l * dt) - phi2e (l * dt)))
        N)^[n] (u 0)‖
      ≤ NL4.Cglob ⟨K, M1, M2, M3, G4, H, HL, ‖l‖, ω, T⟩ * dt ^ 4 := by
  have hT : 0 ≤ T := le_trans (mul_nonneg (Nat.cast_nonneg n) hdt) hn
  have h0mem : (0 : ℝ) ∈ Set.Icc (0 : ℝ) T := ⟨le_rfl, hT⟩
  have hM10 : 0 ≤ M1 := (norm_nonneg _).trans (hM1 0 h0mem)
  have hM20 : 0 ≤ M2 := (norm_nonneg _).trans (hM2 0 h0mem)
  have hM30 : 0 ≤ M3 := (norm_nonneg _).trans (hM3 0 h0mem)
  have hK0 : (0 : ℝ) ≤ K := K.coe_nonneg
  set c : NL4 := ⟨K, M1, M2, M3, G4, H, HL, ‖l‖, ω, T⟩ with hc
  have hCl0 : 0 ≤ c.Cloc := by
    have h1 : (0 : ℝ) ≤ c.K := hK0
    have h2 : 0 ≤ c.M1 := hM10
    have h2' : 0 ≤ c.M2 := hM20
    have h2'' : 0 ≤ c.M3 := hM30
    have h3 : 0 ≤ c.G4 := hG4
    have h4 : 0 ≤ c.H := hH
    have h5 : 0 ≤ c.HL := hHL
    have h6 : 0 ≤ c.Lam := norm_nonneg l
    have h7 : 0 ≤ c.T := hT
    have hW0 : 0 ≤ c.W := (Real.exp_pos _).le
    have hG30 : 0 ≤ c.G3 := by unfold NL4.G3; positivity
    have hG20 : 0 ≤ c.G2 := by unfold NL4.G2; positivity
    have hEA0 : 0 ≤ c.EA := by unfold NL4.EA; positivity
    have hEa20 : 0 ≤ c.Ea2 := by unfold NL4.Ea2; positivity
    have hEB0 : 0 ≤ c.EB := by unfold NL4.EB; positivity
    have hEb20 : 0 ≤ c.Eb2 := by unfold NL4.Eb2; positivity
    have hPb0 : 0 ≤ c.Pb := by unfold NL4.Pb; positivity
    have hEAB0 : 0 ≤ c.EAB := by unfold NL4.EAB; positivity
    have hEC0 : 0 ≤ c.EC := by unfold NL4.EC; positivity
    have hEc30 : 0 ≤ c.Ec3 := by unfold NL4.Ec3; positivity
    unfold NL4.Cloc; positivity
  have hΘ0 : 0 ≤ etd4Θ K ω T := by unfold etd4Θ etd4Ac etd4Ab etd4Aa; positivity
  rcases Nat.eq_zero_or_pos n with rfl | hnpos
  · simp only [Nat.cast_zero, zero_mul, Function.iterate_zero, id_eq, sub_self, norm_zero]
    unfold NL4.Cglob; positivity
  have hn1 : (1 : ℝ) ≤ n := by exact_mod_cast hnpos
  have hdtT : dt ≤ T := le_trans (by nlinarith) hn
  have hA1 : 1 ≤ Real.exp (ω * dt) + dt * etd4Θ K ω T := by
    have := Real.one_le_exp (mul_nonneg hω hdt)
    have := mul_nonneg hdt hΘ0
    linarith
  have hB0 : 0 ≤ c.Cloc * dt ^ 5 := by positivity
  have hfan := fan _ (fun k : ℕ => u (k * dt)) _ _ hA1 hB0 n
    (fun k hk => by
      have hk1 : ((k + 1 : ℕ) : ℝ) * dt ≤ T := by
        have : ((k + 1 : ℕ) : ℝ) ≤ n := by exact_mod_cast hk
        exact (mul_le_mul_of_nonneg_right this hdt).trans hn
      have hkt : ((k + 1 : ℕ) : ℝ) * dt = k * dt + dt := by push_cast; ring
      have hkdt : 0 ≤ (k : ℝ) * dt := mul_nonneg (Nat.cast_nonneg k) hdt
      have hloc := etd4_local_error l N K hN u T ω M1 M2 M3 G4 H HL hω hl hG4 hH hHL hu f1 f2 f3 hM1 hM2
        hM3 hTay L hLK hLin hLlip (k * dt) dt hkdt hdt (by rw [← hkt]; exact hk1)
      simp only [hkt]
      exact hloc)
    (fun x y => etd4_stable l N K hN ω T dt hω hl hdt hdtT x y)
  simp only [Nat.cast_zero, zero_mul] at hfan
  refine hfan.trans ?_
  have hAexp : Real.exp (ω * dt) + dt * etd4Θ K ω T ≤ Real.exp ((ω + etd4Θ K ω T) * dt) := by
    have h1 : 1 ≤ Real.exp (ω * dt) := Real.one_le_exp (mul_nonneg hω hdt)
    have h2 : 1 + dt * etd4Θ K ω T ≤ Real.exp (etd4Θ K ω T * dt) := by
      have := Real.add_one_le_exp (etd4Θ K ω T * dt); linarith
    have h3 : 0 ≤ dt * etd4Θ K ω T := mul_nonneg hdt hΘ0
    calc Real.exp (ω * dt) + dt * etd4Θ K ω T
        ≤ Real.exp (ω * dt) * (1 + dt * etd4Θ K ω T) := by nlinarith
      _ ≤ Real.exp (ω * dt) * Real.exp (etd4Θ K ω T * dt) :=
          mul_le_mul_of_nonneg_left h2 (Real.exp_pos _).le
      _ = Real.exp ((ω + etd4Θ K ω T) * dt) := by rw [← Real.exp_add]; congr 1; ring
  have hAn : (Real.exp (ω * dt) + dt * etd4Θ K ω T) ^ n ≤ Real.exp ((ω + etd4Θ K ω T) * T) := by
    calc (Real.exp (ω * dt) + dt * etd4Θ K ω T) ^ n ≤ Real.exp ((ω + etd4Θ K ω T) * dt) ^ n :=
          pow_le_pow_left₀ (by linarith) hAexp n
      _ = Real.exp (n * ((ω + etd4Θ K ω T) * dt)) := by rw [Real.exp_nat_mul]
      _ ≤ Real.exp ((ω + etd4Θ K ω T) * T) := by
          refine Real.exp_le_exp.mpr ?_
          calc (n : ℝ) * ((ω + etd4Θ K ω T) * dt) = (ω + etd4Θ K ω T) * (n * dt) := by ring
            _ ≤ (ω + etd4Θ K ω T) * T := mul_le_mul_of_nonneg_left hn (by positivity)
  calc (n : ℝ) * (c.Cloc * dt ^ 5) * (Real.exp (ω * dt) + dt * etd4Θ K ω T) ^ n
      = (n * dt) * (c.Cloc * dt ^ 4) * (Real.exp (ω * dt) + dt * etd4Θ K ω T) ^ n := by ring
    _ ≤ T * (c.Cloc * dt ^ 4) * Real.exp ((ω + etd4Θ K ω T) * T) := by gcongr
    _ = NL4.Cglob c * dt ^ 4 := by
        have : NL4.Cglob c = T * c.Cloc * Real.exp ((ω + etd4Θ K ω T) * T) := rfl
        rw [this]; ring

/-! ### non-vacuity: `λ = −100`, `N v = i·v` (`L τ v = i·v`, `H = HL = 0`), `u t = e^{(−100+i)t}`,
    `f_j = i c^j u`, `G₄ = 101⁴` -/
example : ∃ (l : ℂ) (N : ℂ → ℂ) (K : NNReal) (u f1 f2 f3 : ℝ → ℂ) (L : ℝ → ℂ →ₗ[ℝ] ℂ)
    (T ω M1 M2 M3 G4 H HL : ℝ), LipschitzWith K N ∧ 0 ≤ ω ∧ l.re ≤ ω ∧ 0 ≤ G4 ∧ 0 ≤ H ∧ 0 ≤ HL ∧ 0 < T ∧
    (∀ t ∈ Set.Icc (0 : ℝ) T, HasDerivAt u (l * u t + N (u t)) t) ∧
    (∀ t ∈ Set.Icc (0 : ℝ) T, ‖f1 t‖ ≤ M1) ∧ (∀ t ∈ Set.Icc (0 : ℝ) T, ‖f2 t‖ ≤ M2) ∧
    (∀ t ∈ Set.Icc (0 : ℝ) T, ‖f3 t‖ ≤ M3) ∧
    (∀ t s : ℝ, 0 ≤ t → 0 ≤ s → t + s ≤ T →
      ‖N (u (t + s)) - N (u t) - (s : ℂ) * f1 t - (s : ℂ) ^ 2 / 2 * f2 t - (s : ℂ) ^ 3 / 6 * f3 t‖
        ≤ G4 * s ^ 4 / 24) ∧
    (∀ τ ∈ Set.Icc (0 : ℝ) T, ∀ v, ‖L τ v‖ ≤ K * ‖v‖) ∧
    (∀ τ ∈ Set.Icc (0 : ℝ) T, ∀ y, ‖N y - N (u τ) - L τ (y - u τ)‖ ≤ H / 2 * ‖y - u τ‖ ^ 2) ∧
    (∀ τ ∈ Set.Icc (0 : ℝ) T, ∀ τ' ∈ Set.Icc (0 : ℝ) T, ∀ v,
      ‖L τ v - L τ' v‖ ≤ HL * |τ - τ'| * ‖v‖) := by
  set c : ℂ := -100 + Complex.I with hc
  have hcn : ‖c‖ ≤ 101 := by
    refine (norm_add_le _ _).trans ?_
    simp; norm_num
  have hexp : ∀ t : ℝ, 0 ≤ t → ‖Complex.exp (c * t)‖ ≤ 1 := by
    intro t ht
    rw [Complex.norm_exp, Real.exp_le_one_iff]
    simp [hc]; nlinarith
  have hder : ∀ t : ℝ, HasDerivAt (fun t : ℝ => Complex.exp (c * t)) (c * Complex.exp (c * t)) t :=
    fun t => (hasDerivAt_exp_mul c t).congr_deriv (by ring)
  refine ⟨-100, fun v => Complex.I * v, 1, fun t => Complex.exp (c * t),
    fun t => Complex.I * (c * Complex.exp (c * t)), fun t => Complex.I * (c * (c * Complex.exp (c * t))),
    fun t => Complex.I * (c * (c * (c * Complex.exp (c * t)))),
    fun _ => LinearMap.mulLeft ℝ Complex.I, 1, 0, 101, 101 ^ 2, 101 ^ 3, 101 ^ 4, 0, 0,
    ?_, le_rfl, by simp, by norm_num, le_rfl, le_rfl, one_pos, ?_, ?_, ?_, ?_, ?_, ?_, ?_, ?_⟩
  · refine LipschitzWith.of_dist_le_mul (fun x y => ?_)
    rw [dist_eq_norm, dist_eq_norm, ← mul_sub, norm_mul, Complex.norm_I]
    simp
  · intro t _
    exact (hder t).congr_deriv (by simp only [hc]; ring)
  · intro t ht
    rw [norm_mul, norm_mul, Complex.norm_I, one_mul]
    calc ‖c‖ * ‖Complex.exp (c * t)‖ ≤ 101 * 1 := by
          gcongr
          exact hexp t ht.1
      _ = 101 := by ring
  · intro t ht
    rw [norm_mul, norm_mul, norm_mul, Complex.norm_I, one_mul]
    calc ‖c‖ * (‖c‖ * ‖Complex.exp (c * t)‖) ≤ 101 * (101 * 1) := by
          gcongr
          exact hexp t ht.1
      _ = 101 ^ 2 := by norm_num
  · intro t ht
    rw [norm_mul, norm_mul, norm_mul, norm_mul, Complex.norm_I, one_mul]
    calc ‖c‖ * (‖c‖ * (‖c‖ * ‖Complex.exp (c * t)‖)) ≤ 101 * (101 * (101 * 1)) := by
          gcongr
          exact hexp t ht.1
      _ = 101 ^ 3 := by norm_num
  · intro t s ht hs hts
    have hf : ∀ x ∈ Set.Icc (0 : ℝ) 1,
        HasDerivAt (fun x : ℝ => Complex.I * Complex.exp (c * x))
          (Complex.I * (c * Complex.exp (c * x))) x := fun x _ => (hder x).const_mul _
    have hf1 : ∀ x ∈ Set.Icc (0 : ℝ) 1,
        HasDerivAt (fun x : ℝ => Complex.I * (c * Complex.exp (c * x)))
          (Complex.I * (c * (c * Complex.exp (c * x)))) x :=
      fun x _ => ((hder x).const_mul _).const_mul _
    have hf2 : ∀ x ∈ Set.Icc (0 : ℝ) 1,
        HasDerivAt (fun x : ℝ => Complex.I * (c * (c * Complex.exp (c * x))))
          (Complex.I * (c * (c * (c * Complex.exp (c * x))))) x :=
      fun x _ => (((hder x).const_mul _).const_mul _).const_mul _
    have hf3 : ∀ x : ℝ, HasDerivAt (fun x : ℝ => Complex.I * (c * (c * (c * Complex.exp (c * x)))))
        (Complex.I * (c * (c * (c * (c * Complex.exp (c * x)))))) x :=
      fun x => ((((hder x).const_mul _).const_mul _).const_mul _).const_mul _
    have hbd : ∀ x ∈ Set.Icc (0 : ℝ) 1,
        ‖Complex.I * (c * (c * (c * (c * Complex.exp (c * x)))))‖ ≤ 101 ^ 4 := by
      intro x hx
      rw [norm_mul, norm_mul, norm_mul, norm_mul, norm_mul, Complex.norm_I, one_mul]
      calc ‖c‖ * (‖c‖ * (‖c‖ * (‖c‖ * ‖Complex.exp (c * x)‖))) ≤ 101 * (101 * (101 * (101 * 1))) := by
            gcongr
            exact hexp x hx.1
        _ = 101 ^ 4 := by norm_num
    have hLip : ∀ x ∈ Set.Icc (0 : ℝ) 1, ∀ y ∈ Set.Icc (0 : ℝ) 1,
        ‖Complex.I * (c * (c * (c * Complex.exp (c * x))))
            - Complex.I * (c * (c * (c * Complex.exp (c * y))))‖ ≤ 101 ^ 4 * |x - y| := by
      intro x hx y hy
      have := Convex.norm_image_sub_le_of_norm_hasDerivWithin_le
        (f := fun x : ℝ => Complex.I * (c * (c * (c * Complex.exp (c * x)))))
        (f' := fun x : ℝ => Complex.I * (c * (c * (c * (c * Complex.exp (c * x))))))
        (s := Set.Icc (0 : ℝ) 1)
        (fun z _ => (hf3 z).hasDerivWithinAt) hbd (convex_Icc 0 1) hy hx
      simpa [Real.norm_eq_abs] using this
    exact taylor3_of_lipschitz_deriv (fun x : ℝ => Complex.I * Complex.exp (c * x))
      (fun x : ℝ => Complex.I * (c * Complex.exp (c * x)))
      (fun x : ℝ => Complex.I * (c * (c * Complex.exp (c * x))))
      (fun x : ℝ => Complex.I * (c * (c * (c * Complex.exp (c * x))))) 1 (101 ^ 4) hf hf1 hf2 hLip t s
      ht hs hts
  · intro τ _ v
    simp [LinearMap.mulLeft_apply]
  · intro τ _ y
    simp only [LinearMap.mulLeft_apply]
    have : Complex.I * y - Complex.I * Complex.exp (c * τ) - Complex.I * (y - Complex.exp (c * τ)) = 0 := by
      ring
    rw [this]; simp
  · intro τ _ τ' _ v
    simp


end Exponax.LinearOrder
end
