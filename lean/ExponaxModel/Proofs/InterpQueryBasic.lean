import ExponaxModel.Proofs.InterpExact
import ExponaxModel.Proofs.ExactLinearBand
/-
C15 support — the `FourierInterpolator` at an ARBITRARY query point, part 1 (helpers):

  * the real phase `s κ·x` (`dotC`), the interpolator's phase factor for real `s`, real `x`
  * linearity of `Interp.interpolate` in the state (`vadd`, real `vsmul`, `vzero`, `vsum`)
  * `Interp.interpolate` of one cosine mode strictly below Nyquist, any real query point (U1)

`InterpQuery.lean` has the headline theorems U1–U4.
-/
set_option linter.unusedVariables false
set_option linter.unusedSimpArgs false
namespace Exponax.Interp
open Exponax Exponax.Layout Exponax.Transform Exponax.DFT Exponax.ExactLinear Finset
open scoped ComplexConjugate

/-! ### real query points and the real phase -/

/-- a real query point as the list of complex coordinates handed to the model -/
noncomputable def cx (x : List ℝ) : List ℂ := List.map (fun t : ℝ => (t : ℂ)) x

theorem cx_getD (x : List ℝ) (d : ℕ) : (cx x).getD d 0 = ((x.getD d 0 : ℝ) : ℂ) := by
  unfold cx
  rw [List.getD_eq_getElem?_getD, List.getD_eq_getElem?_getD, List.getElem?_map]
  cases x[d]? <;> simp

theorem cx_real (x : List ℝ) (d : ℕ) : ((cx x).getD d 0).im = 0 := by
  rw [cx_getD, Complex.ofReal_im]

theorem cx_re (x : List ℝ) (d : ℕ) : ((cx x).getD d 0).re = x.getD d 0 := by
  rw [cx_getD, Complex.ofReal_re]

/-- the real phase `Σ_d s κ_d x_d` (for a query point with real coordinates: its real parts) -/
noncomputable def dotC (D : ℕ) (s : ℝ) (κ : List ℤ) (x : List ℂ) : ℝ :=
  ∑ d ∈ range D, s * (κ.getD d 0 : ℝ) * (x.getD d 0).re

theorem dotC_cx (D : ℕ) (s : ℝ) (κ : List ℤ) (x : List ℝ) :
    dotC D s κ (cx x) = ∑ d ∈ range D, s * (κ.getD d 0 : ℝ) * x.getD d 0 := by
  unfold dotC
  apply Finset.sum_congr rfl
  intro d _
  rw [cx_re]

theorem dotC_negK (D : ℕ) (s : ℝ) (κ : List ℤ) (x : List ℂ) :
    dotC D s (negK κ) x = -dotC D s κ x := by
  unfold dotC
  rw [← Finset.sum_neg_distrib]
  apply Finset.sum_congr rfl
  intro d _
  rw [negK_getD]
  push_cast
  ring

/-- for real `s` and a query point with real coordinates the interpolator's phase is `i · (s κ·x)` -/
theorem phase_of_real (D : ℕ) (s : ℝ) (k : List ℤ) (x : List ℂ) (hx : ∀ d < D, (x.getD d 0).im = 0) :
    ∑ d ∈ range D, Complex.I * ((s : ℂ) * ((k.getD d 0 : ℤ) : ℂ)) * x.getD d 0
      = ((dotC D s k x : ℝ) : ℂ) * Complex.I := by
  unfold dotC
  rw [Complex.ofReal_sum, Finset.sum_mul]
  apply Finset.sum_congr rfl
  intro d hd
  obtain ⟨r, hr⟩ : ∃ r : ℝ, x.getD d 0 = (r : ℂ) :=
    ⟨(x.getD d 0).re, Complex.ext (Complex.ofReal_re _).symm
      (by rw [Complex.ofReal_im]; exact hx d (Finset.mem_range.mp hd))⟩
  rw [hr, Complex.ofReal_re]
  push_cast
  ring

/-! ### linearity of the interpolator in the state -/

/-- the interpolator is additive in the state (any complex `s`, any complex query point) -/
theorem interpolate_vadd (D N : ℕ) (hD : 0 < D) (hN : 0 < N) (s : ℂ) (u v : Array ℂ) (x : List ℂ) :
    interpolate D N s (vadd (N ^ D) u v) x = interpolate D N s u x + interpolate D N s v x := by
  rw [interpolate_eq D N hD hN, interpolate_eq D N hD hN, interpolate_eq D N hD hN,
    rfftnM_vadd D N hN, ← add_div, ← Finset.sum_add_distrib]
  congr 1
  apply Finset.sum_congr rfl
  intro h hh
  rw [vadd_getD _ _ _ _ (Finset.mem_range.mp hh), add_mul, Complex.add_re]
  push_cast
  ring

/-- the interpolator is homogeneous for REAL scalars (it takes real parts) -/
theorem interpolate_vsmul_real (D N : ℕ) (hD : 0 < D) (hN : 0 < N) (s : ℂ) (r : ℝ) (u : Array ℂ)
    (x : List ℂ) :
    interpolate D N s (vsmul (N ^ D) (r : ℂ) u) x = (r : ℂ) * interpolate D N s u x := by
  rw [interpolate_eq D N hD hN, interpolate_eq D N hD hN, rfftnM_vsmul D N hN, ← mul_div_assoc,
    Finset.mul_sum]
  congr 1
  apply Finset.sum_congr rfl
  intro h hh
  rw [vsmul_getD _ _ _ _ (Finset.mem_range.mp hh), mul_assoc, Complex.re_ofReal_mul]
  push_cast
  ring

theorem interpolate_vzero (D N : ℕ) (hD : 0 < D) (hN : 0 < N) (s : ℂ) (x : List ℂ) :
    interpolate D N s (vzero (N ^ D)) x = 0 := by
  rw [interpolate_eq D N hD hN, rfftnM_vzero D N hN]
  have : ∀ h ∈ range (numModes D N), (herm_weight D N h : ℂ) *
      ((((vzero (numModes D N)).getD h 0 * Complex.exp (∑ d ∈ range D,
          Complex.I * (s * (((wnFlat D N h).getD d 0 : ℤ) : ℂ)) * x.getD d 0)).re : ℝ) : ℂ) = 0 := by
    intro h _
    rw [vzero_getD, zero_mul]
    simp
  rw [Finset.sum_eq_zero this, zero_div]

/-- **superposition**: the interpolant of a finite sum of states is the sum of the interpolants -/
theorem interpolate_vsum (D N : ℕ) (hD : 0 < D) (hN : 0 < N) (s : ℂ) (us : List (Array ℂ)) (x : List ℂ) :
    interpolate D N s (vsum (N ^ D) us) x = (us.map (fun u => interpolate D N s u x)).sum := by
  induction us with
  | nil => rw [vsum_nil, interpolate_vzero D N hD hN]; simp
  | cons u us ih => rw [vsum_cons, interpolate_vadd D N hD hN, ih, List.map_cons, List.sum_cons]

/-! ### one mode -/

/-- real part of the coefficient of the mode times the interpolator's phase factor -/
theorem re_coef_phase (a φ θ : ℝ) (n : ℕ) :
    ((a / 2 : ℂ) * (n : ℂ) * Complex.exp (φ * Complex.I) * Complex.exp ((θ : ℂ) * Complex.I)).re
      = a / 2 * n * Real.cos (θ + φ) := by
  have e : (a / 2 : ℂ) * (n : ℂ) * Complex.exp (φ * Complex.I) * Complex.exp ((θ : ℂ) * Complex.I)
      = ((a / 2 * n : ℝ) : ℂ) * Complex.exp (((θ + φ : ℝ) : ℂ) * Complex.I) := by
    have hw : (((θ + φ : ℝ) : ℂ)) * Complex.I = (φ : ℂ) * Complex.I + (θ : ℂ) * Complex.I := by
      push_cast; ring
    rw [hw, Complex.exp_add]
    push_cast
    ring
  rw [e, Complex.re_ofReal_mul, Complex.exp_ofReal_mul_I_re]

/-- the interpolant of one mode, before evaluating the weight sum -/
theorem interpolate_modeField_sum (D N : ℕ) (hD : 0 < D) (hN : 0 < N) (s : ℝ) (κ : List ℤ)
    (hκ : BelowNyquist D N κ) (a φ : ℝ) (x : List ℂ) (hx : ∀ d < D, (x.getD d 0).im = 0) :
    interpolate D N (s : ℂ) (modeField D N κ a φ) x
      = ((((a / 2 : ℂ) * ((N ^ D : ℕ) : ℂ) * Complex.exp (φ * Complex.I)
            * Complex.exp (((dotC D s κ x : ℝ) : ℂ) * Complex.I)).re : ℝ) : ℂ) * Wsum D N κ / (N : ℂ) ^ D := by
  rw [interpolate_eq D N hD hN]
  congr 1
  unfold Wsum
  rw [Finset.mul_sum]
  apply Finset.sum_congr rfl
  intro h hh
  have hh' := Finset.mem_range.mp hh
  rw [rfftnM_modeField D N hD hN κ hκ a φ h hh', phase_of_real D s _ x hx]
  set c : ℂ := (a / 2 : ℂ) * ((N ^ D : ℕ) : ℂ) * Complex.exp (φ * Complex.I) with hc
  set c' : ℂ := (a / 2 : ℂ) * ((N ^ D : ℕ) : ℂ) * Complex.exp (-(φ * Complex.I)) with hc'
  set X : ℂ := c * Complex.exp (((dotC D s κ x : ℝ) : ℂ) * Complex.I) with hX
  have FA : wnFlat D N h = κ →
      c * Complex.exp (((dotC D s (wnFlat D N h) x : ℝ) : ℂ) * Complex.I) = X := by
    intro hA
    rw [hA]
  have FB : wnFlat D N h = negK κ →
      c' * Complex.exp (((dotC D s (wnFlat D N h) x : ℝ) : ℂ) * Complex.I) = conj X := by
    intro hB
    rw [hB, dotC_negK, hX, map_mul, hc, conj_coef, ← Complex.exp_conj, map_mul, Complex.conj_I,
      Complex.conj_ofReal, hc']
    push_cast
    ring_nf
  have key : ((if wnFlat D N h = κ then c else 0) + (if wnFlat D N h = negK κ then c' else 0))
        * Complex.exp (((dotC D s (wnFlat D N h) x : ℝ) : ℂ) * Complex.I)
      = (if wnFlat D N h = κ then X else 0) + (if wnFlat D N h = negK κ then conj X else 0) := by
    by_cases hA : wnFlat D N h = κ
    · by_cases hB : wnFlat D N h = negK κ
      · rw [if_pos hA, if_pos hB, if_pos hA, if_pos hB]; linear_combination FA hA + FB hB
      · rw [if_pos hA, if_neg hB, if_pos hA, if_neg hB]; linear_combination FA hA
    · by_cases hB : wnFlat D N h = negK κ
      · rw [if_neg hA, if_pos hB, if_neg hA, if_pos hB]; linear_combination FB hB
      · rw [if_neg hA, if_neg hB, if_neg hA, if_neg hB]; ring
  rw [key]
  have hre : ((((if wnFlat D N h = κ then X else 0)
        + (if wnFlat D N h = negK κ then conj X else 0)).re : ℝ) : ℂ)
      = (X.re : ℂ) * ((if wnFlat D N h = κ then (1 : ℂ) else 0)
          + (if wnFlat D N h = negK κ then (1 : ℂ) else 0)) := by
    split_ifs <;> simp
    ring
  rw [hre]
  ring

/-- **U1 (core form, query point = complex list with real entries).** -/
theorem interpolate_modeField_of_real (D N : ℕ) (hD : 0 < D) (hN : 0 < N) (s : ℝ) (κ : List ℤ)
    (hκ : BelowNyquist D N κ) (a φ : ℝ) (x : List ℂ) (hx : ∀ d < D, (x.getD d 0).im = 0) :
    interpolate D N (s : ℂ) (modeField D N κ a φ) x
      = (((a * Real.cos (dotC D s κ x + φ) : ℝ)) : ℂ) := by
  rw [interpolate_modeField_sum D N hD hN s κ hκ a φ x hx, Wsum_eq_two D N hD hN κ hκ, re_coef_phase]
  have hNne : ((N : ℂ) ^ D) ≠ 0 := pow_ne_zero _ (by exact_mod_cast hN.ne')
  rw [div_eq_iff hNne]
  push_cast
  ring

end Exponax.Interp
