import ExponaxModel.Proofs.ExactLinear
/-
C01 support, part 4 (A4 and the `polySymbol` instance).

* On band-limited states (finite superpositions of modes strictly below Nyquist) the linear step is a
  one-parameter group: `n` steps of `t` equal one step of `n·t`, two steps add, and a step with `−t` undoes a
  step with `t` (no restriction on `Re Λ`).
* On a state with Nyquist content this FAILS (the c2r transform projects the Nyquist coefficient onto its real
  part): explicit counterexample `N = 2`, `D = 1`.
* For `Λ = polySymbol c terms` (real scale, real coefficients) the Hermitian symmetry holds and the symbol at the
  wave vector `κ` is the polynomial `Σ coef·Π_d (i s κ_d)^{α_d}` — the eigenvalue of the documented operator on
  the plane wave `e^{i s κ·x}` (`C01_symbol_is_eigenvalue`).
-/
set_option linter.unusedVariables false
namespace Exponax.ExactLinear
open Exponax Exponax.Layout Exponax.Transform Exponax.DFT Exponax.Gen.Etdrk Exponax.Nonlin Finset
open scoped ComplexConjugate

/-! ### A4 on band-limited states -/

theorem evolve_belowNyquist (D N : ℕ) (Λ : ℕ → ℂ) (t : ℝ) (ms : Modes)
    (hms : ∀ m ∈ ms, BelowNyquist D N m.1) : ∀ m ∈ evolve D N Λ t ms, BelowNyquist D N m.1 := by
  intro m hm
  unfold evolve at hm
  rw [List.mem_map] at hm
  obtain ⟨m', hm', rfl⟩ := hm
  exact hms m' hm'

theorem evolve_zero (D N : ℕ) (Λ : ℕ → ℂ) (ms : Modes) : evolve D N Λ 0 ms = ms := by
  unfold evolve
  conv_rhs => rw [← List.map_id ms]
  apply List.map_congr_left
  intro m _
  simp

theorem evolve_add (D N : ℕ) (Λ : ℕ → ℂ) (t₁ t₂ : ℝ) (ms : Modes) :
    evolve D N Λ t₂ (evolve D N Λ t₁ ms) = evolve D N Λ (t₁ + t₂) ms := by
  unfold evolve
  rw [List.map_map]
  apply List.map_congr_left
  intro m _
  simp only [Function.comp]
  rw [mul_assoc, ← Real.exp_add]
  congr 2
  · ring_nf
  · ring

/-- two steps add -/
theorem linStep_linStep (D N : ℕ) (hD : 0 < D) (hN : 0 < N) (Λ : ℕ → ℂ) (hΛ : HermSym D N Λ) (t₁ t₂ : ℝ)
    (ms : Modes) (hms : ∀ m ∈ ms, BelowNyquist D N m.1) :
    linStep D N Λ t₂ (linStep D N Λ t₁ (stateOf D N ms))
      = linStep D N Λ ((t₁ + t₂ : ℝ) : ℂ) (stateOf D N ms) := by
  rw [linStep_stateOf D N hD hN Λ hΛ t₁ ms hms,
    linStep_stateOf D N hD hN Λ hΛ t₂ _ (evolve_belowNyquist D N Λ t₁ ms hms), evolve_add,
    linStep_stateOf D N hD hN Λ hΛ (t₁ + t₂) ms hms]

/-- **A4 (semigroup).** `n` calls with `t` equal one call with `n·t` on band-limited states. -/
theorem linStep_iterate (D N : ℕ) (hD : 0 < D) (hN : 0 < N) (Λ : ℕ → ℂ) (hΛ : HermSym D N Λ) (t : ℝ)
    (ms : Modes) (hms : ∀ m ∈ ms, BelowNyquist D N m.1) (n : ℕ) :
    (linStep D N Λ (t : ℂ))^[n] (stateOf D N ms)
      = linStep D N Λ (((n : ℝ) * t : ℝ) : ℂ) (stateOf D N ms) := by
  have key : ∀ n : ℕ, (linStep D N Λ (t : ℂ))^[n] (stateOf D N ms)
      = stateOf D N (evolve D N Λ ((n : ℝ) * t) ms) := by
    intro n
    induction n with
    | zero => simp [evolve_zero]
    | succ n ih =>
      rw [Function.iterate_succ_apply', ih,
        linStep_stateOf D N hD hN Λ hΛ t _ (evolve_belowNyquist D N Λ _ ms hms), evolve_add]
      congr 2
      push_cast
      ring
  rw [key n, linStep_stateOf D N hD hN Λ hΛ _ ms hms]

/-- **A4 (inverse).** A call with `−t` undoes a call with `t` on band-limited states (any `Re Λ`). -/
theorem linStep_neg (D N : ℕ) (hD : 0 < D) (hN : 0 < N) (Λ : ℕ → ℂ) (hΛ : HermSym D N Λ) (t : ℝ)
    (ms : Modes) (hms : ∀ m ∈ ms, BelowNyquist D N m.1) :
    linStep D N Λ ((-t : ℝ) : ℂ) (linStep D N Λ t (stateOf D N ms)) = stateOf D N ms := by
  rw [linStep_stateOf D N hD hN Λ hΛ t ms hms,
    linStep_stateOf D N hD hN Λ hΛ (-t) _ (evolve_belowNyquist D N Λ t ms hms), evolve_add,
    add_neg_cancel, evolve_zero]

/-- a call with `t = 0` is the identity on band-limited states -/
theorem linStep_zero_time (D N : ℕ) (hD : 0 < D) (hN : 0 < N) (Λ : ℕ → ℂ) (hΛ : HermSym D N Λ)
    (ms : Modes) (hms : ∀ m ∈ ms, BelowNyquist D N m.1) :
    linStep D N Λ ((0 : ℝ) : ℂ) (stateOf D N ms) = stateOf D N ms := by
  rw [linStep_stateOf D N hD hN Λ hΛ 0 ms hms, evolve_zero]

/-! ### the Nyquist counterexample (`N = 2`, `D = 1`) -/

theorem zeta_two : zeta 2 = -1 := by
  unfold zeta
  rw [show -(2 * (Real.pi : ℂ) * Complex.I / ((2 : ℕ) : ℂ)) = -(Real.pi * Complex.I) by push_cast; ring,
    Complex.exp_neg, Complex.exp_pi_mul_I]
  norm_num

/-- the Nyquist mode `u_j = cos(π j) = (1, −1)` on the 2-point grid -/
noncomputable def nyqState : Array ℂ := modeField 1 2 [1] 1 0

theorem nyqState_getD_zero : nyqState.getD 0 0 = 1 := by
  rw [nyqState, modeField_getD 1 2 _ _ _ 0 (by norm_num), phaseK_zero_point]
  simp

theorem nyqState_getD_one : nyqState.getD 1 0 = -1 := by
  rw [nyqState, modeField_getD 1 2 _ _ _ 1 (by norm_num), phaseK_one_of_lt 2 _ 1 (by norm_num)]
  have : 2 * Real.pi * (((1 : ℤ) * ((1 : ℕ) : ℤ) : ℤ) : ℝ) / ((2 : ℕ) : ℝ) + 0 = Real.pi := by
    push_cast; ring
  rw [this, Real.cos_pi]
  simp

theorem rfftn_nyqState_zero : (rfftnM 1 2 nyqState).getD 0 0 = 0 := by
  rw [nyqState, rfftnM_modeField_general 1 2 (by norm_num) _ _ _ 0 (by rw [numModes_one]; norm_num),
    wnFlat_one, if_neg, if_neg]
  · simp
  · intro h; have := h 0 (by norm_num); revert this; decide
  · intro h; have := h 0 (by norm_num); revert this; decide

theorem rfftn_nyqState_one : (rfftnM 1 2 nyqState).getD 1 0 = 2 := by
  rw [nyqState, rfftnM_modeField_general 1 2 (by norm_num) _ _ _ 1 (by rw [numModes_one]; norm_num),
    wnFlat_one, if_pos, if_pos]
  · simp; norm_num
  · intro d hd; interval_cases d; decide
  · intro d hd; interval_cases d; decide

theorem linStep_nyqState (Λ : ℕ → ℂ) (t : ℂ) (j : ℕ) (hj : j < 2) :
    (linStep 1 2 Λ t nyqState).getD j 0
      = (((Complex.exp (t * Λ 1) * 2 * (-1) ^ (-(j : ℤ))).re : ℝ) : ℂ) / 2 := by
  rw [linStep_getD 1 2 (by norm_num) Λ t _ j (by simpa using hj)]
  have hM : numModes 1 2 = 2 := by rw [numModes_one]
  rw [hM, Finset.sum_range_succ, Finset.sum_range_one, rfftn_nyqState_zero, rfftn_nyqState_one,
    herm_weight_one 2 1, wnFlat_one 2 1, phaseK_one_of_lt 2 _ j hj, zeta_two]
  simp

/-- the symbol of the counterexample: purely imaginary, `Λ 0 = 0`, `Λ 1 = iπ` (an advection symbol) -/
noncomputable def nyqSym : ℕ → ℂ := fun h => if h = 0 then 0 else Real.pi * Complex.I

theorem nyqSym_re (h : ℕ) : (nyqSym h).re = 0 := by
  unfold nyqSym; split_ifs <;> simp

theorem nyqSym_hermSym : HermSym 1 2 nyqSym := by
  intro h hh h' hh' hk
  have := hk 0 (by norm_num)
  rw [wnFlat_one, wnFlat_one] at this
  simp only [List.getD_cons_zero] at this
  have h0 : h = 0 := by omega
  have h0' : h' = 0 := by omega
  subst h0 h0'
  simp [nyqSym]

theorem exp_half_pi_I : Complex.exp ((1 / 2 : ℂ) * (Real.pi * Complex.I)) = Complex.I := by
  rw [show (1 / 2 : ℂ) * (Real.pi * Complex.I) = ((Real.pi / 2 : ℝ) : ℂ) * Complex.I by push_cast; ring,
    Complex.exp_mul_I, ← Complex.ofReal_cos, ← Complex.ofReal_sin, Real.cos_pi_div_two,
    Real.sin_pi_div_two]
  simp

/-- half a unit of time annihilates the Nyquist state: the propagated Nyquist coefficient `2i` is purely
    imaginary and the c2r transform keeps only its real part -/
theorem linStep_nyqState_half : linStep 1 2 nyqSym (1 / 2 : ℂ) nyqState = vzero (2 ^ 1) := by
  apply array_ext_getD _ _ (2 ^ 1) (by simp) (by simp)
  intro j hj
  rw [linStep_nyqState nyqSym _ j (by simpa using hj), vzero_getD]
  have : nyqSym 1 = Real.pi * Complex.I := by simp [nyqSym]
  rw [this, exp_half_pi_I]
  have hj' : j = 0 ∨ j = 1 := by omega
  rcases hj' with rfl | rfl <;> simp

/-- **Counterexample (inverse).** With Nyquist content a step with `−t` does NOT undo a step with `t`, even for
    a purely imaginary, Hermitian-symmetric symbol: `N = 2`, `D = 1`, `u = (1, −1)`, `Λ = (0, iπ)`, `t = 1/2`. -/
theorem nyquist_inverse_fails :
    (∀ h, (nyqSym h).re = 0) ∧ HermSym 1 2 nyqSym ∧ (∀ j < 2 ^ 1, (nyqState.getD j 0).im = 0) ∧
      linStep 1 2 nyqSym (-(1 / 2 : ℂ)) (linStep 1 2 nyqSym (1 / 2 : ℂ) nyqState) ≠ nyqState := by
  refine ⟨nyqSym_re, nyqSym_hermSym, fun j hj => modeField_real 1 2 _ _ _ j hj, ?_⟩
  rw [linStep_nyqState_half, linStep_vzero 1 2 (by norm_num)]
  intro h
  have := congrArg (fun a : Array ℂ => a.getD 0 0) h
  simp only [vzero_getD, nyqState_getD_zero] at this
  exact zero_ne_one this

/-- **Counterexample (semigroup).** Two steps of `t = 1/2` give `0`, one step of `t = 1` gives `−u`. -/
theorem nyquist_semigroup_fails :
    (linStep 1 2 nyqSym (1 / 2 : ℂ))^[2] nyqState ≠ linStep 1 2 nyqSym (((2 : ℕ) : ℂ) * (1 / 2 : ℂ)) nyqState := by
  rw [Function.iterate_succ_apply', Function.iterate_one, linStep_nyqState_half,
    linStep_vzero 1 2 (by norm_num)]
  intro h
  have := congrArg (fun a : Array ℂ => a.getD 0 0) h
  simp only [vzero_getD] at this
  rw [linStep_nyqState nyqSym _ 0 (by norm_num)] at this
  have h1 : nyqSym 1 = Real.pi * Complex.I := by simp [nyqSym]
  rw [h1, show ((2 : ℕ) : ℂ) * (1 / 2 : ℂ) * (Real.pi * Complex.I) = Real.pi * Complex.I by push_cast; ring,
    Complex.exp_pi_mul_I] at this
  norm_num at this

/-! ### the `polySymbol` instance -/

/-- Hermitian symmetry of the documented symbols (real scale `s`, real coefficients) -/
theorem hermSym_polySymbol (c : Cfg ℂ) (s : ℝ) (hs : c.s = (s : ℂ)) (terms : List (ℂ × List ℕ))
    (hc : ∀ t ∈ terms, t.1.im = 0) : HermSym c.D c.N (polySymbol c terms) := by
  intro h _ h' _ hk
  exact polySymbol_neg_wn_eq_conj c s hs terms h h' (fun d hd => hk d hd) hc

/-- the symbol at the wave vector `κ` is the polynomial of the operator at `(i s κ_d)_d` -/
theorem symAt_polySymbol (c : Cfg ℂ) (hD : 0 < c.D) (hN : 0 < c.N) (s : ℝ) (hs : c.s = (s : ℂ))
    (terms : List (ℂ × List ℕ)) (hc : ∀ t ∈ terms, t.1.im = 0) (κ : List ℤ)
    (hκ : BelowNyquist c.D c.N κ) :
    symAt c.D c.N (polySymbol c terms) κ
      = polyAt (imagVec c.D (fun d => s * ((κ.getD d 0 : ℤ) : ℝ))) terms := by
  by_cases hl : 0 ≤ κ.getD (c.D - 1) 0
  · have hw := wnFlat_modeIdx c.D c.N hD hN κ hκ hl
    rw [symAt, if_pos hl, polySymbol_eq_polyAt_imag c s hs]
    congr 2
    funext d
    rw [skAt, wnAt_def, hw]
  · have hl' : 0 ≤ (negK κ).getD (c.D - 1) 0 := by rw [negK_getD]; omega
    have hw := wnFlat_modeIdx c.D c.N hD hN _ hκ.negK hl'
    rw [symAt, if_neg hl, polySymbol_eq_polyAt_imag c s hs]
    have e : imagVec c.D (skAt c s (modeIdx c.D c.N (negK κ)))
        = (imagVec c.D (fun d => s * ((κ.getD d 0 : ℤ) : ℝ))).map (fun z => -z) := by
      rw [← imagVec_neg]
      congr 1
      funext d
      rw [skAt, wnAt_def, hw, negK_getD]
      push_cast
      ring
    rw [e, polyAt_neg_eq_conj _ _ (imagVec_re_zero _ _) hc, Complex.conj_conj]

/-- **C01 assembled.**  One call of the linear stepper of the documented operator `Σ coef·∂^α` (real
    coefficients, `s = 2π/L` real) maps the real state `Σ_m a_m cos(2π κ_m·j/N + φ_m)` with all `κ_m` strictly
    below Nyquist to `Σ_m a_m e^{t Re P(i s κ_m)} cos(2π κ_m·j/N + φ_m + t Im P(i s κ_m))`, `P = polyAt · terms`
    — the exact solution after time `t` — for every real `t`, every `D ≥ 1`, odd or even `N`. -/
theorem linStep_polySymbol_exact (c : Cfg ℂ) (hD : 0 < c.D) (hN : 0 < c.N) (s : ℝ) (hs : c.s = (s : ℂ))
    (terms : List (ℂ × List ℕ)) (hc : ∀ t ∈ terms, t.1.im = 0) (t : ℝ) (ms : Modes)
    (hms : ∀ m ∈ ms, BelowNyquist c.D c.N m.1) :
    linStep c.D c.N (polySymbol c terms) t (stateOf c.D c.N ms)
      = stateOf c.D c.N (ms.map (fun m =>
          (m.1,
           m.2.1 * Real.exp (t * (polyAt (imagVec c.D (fun d => s * ((m.1.getD d 0 : ℤ) : ℝ))) terms).re),
           m.2.2 + t * (polyAt (imagVec c.D (fun d => s * ((m.1.getD d 0 : ℤ) : ℝ))) terms).im))) := by
  rw [linStep_stateOf c.D c.N hD hN _ (hermSym_polySymbol c s hs terms hc) t ms hms]
  congr 1
  unfold evolve
  apply List.map_congr_left
  intro m hm
  rw [symAt_polySymbol c hD hN s hs terms hc m.1 (hms m hm)]

/-- semigroup / inverse for the documented linear steppers on band-limited states -/
theorem linStep_polySymbol_iterate (c : Cfg ℂ) (hD : 0 < c.D) (hN : 0 < c.N) (s : ℝ) (hs : c.s = (s : ℂ))
    (terms : List (ℂ × List ℕ)) (hc : ∀ t ∈ terms, t.1.im = 0) (t : ℝ) (ms : Modes)
    (hms : ∀ m ∈ ms, BelowNyquist c.D c.N m.1) (n : ℕ) :
    (linStep c.D c.N (polySymbol c terms) (t : ℂ))^[n] (stateOf c.D c.N ms)
        = linStep c.D c.N (polySymbol c terms) (((n : ℝ) * t : ℝ) : ℂ) (stateOf c.D c.N ms) ∧
      linStep c.D c.N (polySymbol c terms) ((-t : ℝ) : ℂ)
          (linStep c.D c.N (polySymbol c terms) t (stateOf c.D c.N ms)) = stateOf c.D c.N ms :=
  ⟨linStep_iterate c.D c.N hD hN _ (hermSym_polySymbol c s hs terms hc) t ms hms n,
    linStep_neg c.D c.N hD hN _ (hermSym_polySymbol c s hs terms hc) t ms hms⟩

/-! non-vacuity -/
example : ∃ (c : Cfg ℂ) (s : ℝ) (terms : List (ℂ × List ℕ)), 0 < c.D ∧ 0 < c.N ∧ c.s = (s : ℂ) ∧
    (∀ t ∈ terms, t.1.im = 0) ∧ BelowNyquist c.D c.N [1, -1, 0] :=
  ⟨{ D := 3, N := 5, s := ((2 : ℝ) : ℂ), fp := 0, fq := 0 }, 2, [((-1 : ℝ), [1, 0, 0])], by norm_num,
    by norm_num, rfl, by simp, rfl, by
      intro d hd
      interval_cases d <;> simp⟩

end Exponax.ExactLinear
