import ExponaxModel.Proofs.InterpQuery
import ExponaxModel.Proofs.ConserveVorticity
/-
SmallGaps, part G1 (C15 "there-and-back is the identity", every dimension).

Route: a real grid state whose stored spectrum vanishes outside the band `2|k_d| < m`
(`Interp.BandLimitedN D N m u`, the hypothesis of `C15_map_is_exact`) is a finite superposition
`stateOf D N ms` of cosine modes with all wave vectors inside the band (`exists_modes_inBand`);
`map_between_resolutions` sends `stateOf D Nold ms` to `stateOf D Nnew ms` — the SAME trigonometric
polynomial sampled on the other grid — whenever the modes are below both Nyquist wavenumbers
(`mapBetween_stateOf`, from the exactness theorem `mapBetween_nd_exact_full` and the analytic value
of the interpolant `U2_interpolate_stateOf_of_real`).  Going there and back therefore returns the
state.

Headlines: `mapBetween_round_trip` (band-limited real states, any `D ≥ 1`, `Nold, Nnew ≥ 1`, all parities,
both oddball options on both legs), `mapBetween_round_trip_getD` (no size hypothesis),
`mapBetween_round_trip_upsample_odd` (up-sampling from an odd grid: EVERY real state).
The state must be real: `irfftn` discards imaginary parts, so for a non-real `u` the statement is false
already for the inner transform pair.
-/
set_option linter.unusedVariables false
namespace Exponax.SmallGaps
open Exponax Exponax.Layout Exponax.Transform Exponax.DFT Exponax.Interp Exponax.ExactLinear Finset

/-! ### band membership of wave vectors -/

theorem belowNyquist_mono {D m N : ℕ} (hmN : m ≤ N) {κ : List ℤ} (hκ : BelowNyquist D m κ) :
    BelowNyquist D N κ :=
  ⟨hκ.1, fun d hd => lt_of_lt_of_le (hκ.2 d hd) (by exact_mod_cast hmN)⟩

/-- on stored wave vectors `inBand m` is `BelowNyquist D m` -/
theorem inBand_wnFlat_iff_belowNyquist (D N m h : ℕ) :
    inBand m (wnFlat D N h) ↔ BelowNyquist D m (wnFlat D N h) := by
  rw [inBand_wnFlat_iff]
  exact ⟨fun H => ⟨wnFlat_length D N h, H⟩, fun H => H.2⟩

/-! ### step 1: band-limited real states are in-band superpositions -/

/-- **every real state band-limited below `m ≤ N` is a finite superposition of cosine modes with
    wave vectors strictly inside the band `2|κ_d| < m`** (refines `exists_modes_of_bandLimited`) -/
theorem exists_modes_inBand (D N m : ℕ) (hD : 0 < D) (hN : 0 < N) (hm : 0 < m) (u : Array ℂ)
    (hsz : u.size = N ^ D) (hre : ∀ j < N ^ D, (u.getD j 0).im = 0) (hb : BandLimitedN D N m u) :
    ∃ ms : Modes, (∀ x ∈ ms, BelowNyquist D m x.1) ∧ u = stateOf D N ms := by
  classical
  set U := rfftnM D N u with hU
  set f : ℕ → (List ℤ × ℝ × ℝ) := fun h =>
    if BelowNyquist D m (wnFlat D N h) then
      (wnFlat D N h, (herm_weight D N h : ℝ) * ‖U.getD h 0‖ / ((N ^ D : ℕ) : ℝ), Complex.arg (U.getD h 0))
    else (List.replicate D 0, 0, 0) with hf
  refine ⟨(List.range (numModes D N)).map f, ?_, ?_⟩
  · intro x hx
    rw [List.mem_map] at hx
    obtain ⟨h, _, rfl⟩ := hx
    simp only [hf]
    split_ifs with hB
    · exact hB
    · exact belowNyquist_zero D m hm
  · apply array_ext_getD _ _ (N ^ D) hsz (by simp)
    intro j hj
    rw [stateOf_getD D N _ j hj, List.map_map, list_range_map_sum, Complex.ofReal_sum,
      ← irfftn_rfftn D N hD hN u hre j hj, irfftnM_getD D N hN _ j hj, Finset.sum_div]
    apply Finset.sum_congr rfl
    intro h hh
    have hh' := Finset.mem_range.mp hh
    simp only [Function.comp, hf]
    rw [twiddle_eq_zpow, ← hU]
    split_ifs with hB
    · rw [re_mul_zeta]
      push_cast
      ring
    · have h0 : U.getD h 0 = 0 :=
        hb h hh' (fun hin => hB ((inBand_wnFlat_iff_belowNyquist D N m h).mp hin))
      rw [h0]
      simp

/-- conversely, in-band superpositions are band-limited (any resolution `N ≥ m`) -/
theorem bandLimitedN_stateOf (D N m : ℕ) (hD : 0 < D) (hN : 0 < N) (hmN : m ≤ N) (ms : Modes)
    (hms : ∀ x ∈ ms, BelowNyquist D m x.1) : BandLimitedN D N m (stateOf D N ms) := by
  intro h hh hB
  induction ms with
  | nil =>
    rw [stateOf, List.map_nil, vsum_nil, rfftnM_vzero D N hN, vzero_getD]
  | cons x ms ih =>
    have hx := hms x List.mem_cons_self
    rw [stateOf, List.map_cons, vsum_cons, rfftnM_vadd D N hN, vadd_getD _ _ _ _ hh]
    have ih' := ih (fun x' hx' => hms x' (List.mem_cons_of_mem _ hx'))
    rw [stateOf] at ih'
    rw [ih', add_zero]
    apply rfftnM_modeField_other D N hD hN x.1 (belowNyquist_mono hmN hx) _ _ h hh
    · intro he
      exact hB ((inBand_wnFlat_iff_belowNyquist D N m h).mpr (he ▸ hx))
    · intro he
      exact hB ((inBand_wnFlat_iff_belowNyquist D N m h).mpr (he ▸ hx.negK))

/-! ### step 2: the map between resolutions re-samples the trigonometric polynomial -/

theorem mapBetween_size (D Nold Nnew : ℕ) (hne : Nold ≠ Nnew) (ob : Bool) (u : Array ℂ) :
    (mapBetween D Nold Nnew ob u).size = Nnew ^ D := by
  unfold mapBetween
  rw [if_neg hne, irfftnM_size]

/-- **`map_between_resolutions` of a superposition of modes below BOTH Nyquist wavenumbers is the same
    superposition on the new grid** — every `D ≥ 1`, finer or coarser, all parities, both oddball options -/
theorem mapBetween_stateOf (D Nold Nnew : ℕ) (hD : 0 < D) (hNo : 0 < Nold) (hNn : 0 < Nnew)
    (hne : Nold ≠ Nnew) (ob : Bool) (ms : Modes)
    (hms : ∀ x ∈ ms, BelowNyquist D (min Nold Nnew) x.1) :
    mapBetween D Nold Nnew ob (stateOf D Nold ms) = stateOf D Nnew ms := by
  have hmo : ∀ x ∈ ms, BelowNyquist D Nold x.1 := fun x hx => belowNyquist_mono (by omega) (hms x hx)
  apply array_ext_getD _ _ (Nnew ^ D) (mapBetween_size D Nold Nnew hne ob _) (by simp)
  intro j hj
  have h1 := mapBetween_nd_exact_full D Nold Nnew hD hNo hNn hne ob ((1 : ℝ) : ℂ)
    (by rw [Complex.ofReal_one]; exact one_ne_zero) (stateOf D Nold ms)
    (bandLimitedN_stateOf D Nold (min Nold Nnew) hD hNo (by omega) ms hms) j hj
  rw [h1, U2_interpolate_stateOf_of_real D Nold hD hNo 1 ms hmo _
      (fun d hd => gridPoint_real D Nnew 1 j d hd),
    trigPoly_gridPoint D Nnew 1 one_ne_zero ms j hj]

/-! ### G1 -/

/-- **G1 (there-and-back is the identity, every dimension).**  `D ≥ 1`, `Nold, Nnew ≥ 1` (finer or
    coarser, all parity combinations), both values of the oddball option on each leg: for every REAL state
    `u` on the `Nold^D` grid that is band-limited below both Nyquist wavenumbers (the hypothesis of
    `C15_map_is_exact`), mapping to `Nnew` and back returns `u`. -/
theorem mapBetween_round_trip (D Nold Nnew : ℕ) (hD : 0 < D) (hNo : 0 < Nold) (hNn : 0 < Nnew)
    (ob ob' : Bool) (u : Array ℂ) (hsz : u.size = Nold ^ D)
    (hre : ∀ j < Nold ^ D, (u.getD j 0).im = 0)
    (hb : BandLimitedN D Nold (min Nold Nnew) u) :
    mapBetween D Nnew Nold ob' (mapBetween D Nold Nnew ob u) = u := by
  by_cases hne : Nold = Nnew
  · subst hne
    unfold mapBetween
    rw [if_pos rfl, if_pos rfl]
  · obtain ⟨ms, hms, rfl⟩ := exists_modes_inBand D Nold (min Nold Nnew) hD hNo (by omega) u hsz hre hb
    rw [mapBetween_stateOf D Nold Nnew hD hNo hNn hne ob ms hms,
      mapBetween_stateOf D Nnew Nold hD hNn hNo (Ne.symm hne) ob' ms (by rw [min_comm]; exact hms)]

/-- `rfftn` reads only the first `N^D` entries -/
theorem rfftnM_tab_getD (D N : ℕ) (u : Array ℂ) :
    rfftnM D N (tab (N ^ D) (fun j => u.getD j 0)) = rfftnM D N u := by
  unfold rfftnM
  apply Nonlin.tab_congr
  intro h _
  rw [sumRange_eq, sumRange_eq]
  apply Finset.sum_congr rfl
  intro j hj
  rw [tab_getD _ _ _ _ (Finset.mem_range.mp hj)]

/-- **G1, entrywise, no hypothesis on the array length** (`Nold ≠ Nnew`; for `Nold = Nnew` both maps are
    the identity function) -/
theorem mapBetween_round_trip_getD (D Nold Nnew : ℕ) (hD : 0 < D) (hNo : 0 < Nold) (hNn : 0 < Nnew)
    (ob ob' : Bool) (u : Array ℂ) (hre : ∀ j < Nold ^ D, (u.getD j 0).im = 0)
    (hb : BandLimitedN D Nold (min Nold Nnew) u) (j : ℕ) (hj : j < Nold ^ D) :
    (mapBetween D Nnew Nold ob' (mapBetween D Nold Nnew ob u)).getD j 0 = u.getD j 0 := by
  by_cases hne : Nold = Nnew
  · subst hne
    unfold mapBetween
    rw [if_pos rfl, if_pos rfl]
  · set u' := tab (Nold ^ D) (fun j => u.getD j 0) with hu'
    have e : mapBetween D Nold Nnew ob u = mapBetween D Nold Nnew ob u' := by
      unfold mapBetween
      rw [if_neg hne, if_neg hne, hu', rfftnM_tab_getD]
    have hre' : ∀ j < Nold ^ D, (u'.getD j 0).im = 0 := by
      intro j hj; rw [hu', tab_getD _ _ _ _ hj]; exact hre j hj
    have hb' : BandLimitedN D Nold (min Nold Nnew) u' := by
      intro h hh hnb
      rw [hu', rfftnM_tab_getD]
      exact hb h hh hnb
    rw [e, mapBetween_round_trip D Nold Nnew hD hNo hNn ob ob' u' (by simp [hu']) hre' hb', hu',
      tab_getD _ _ _ _ hj]

/-- **G1, up-sampling from an odd grid: EVERY real state** (no band-limit hypothesis), `Nnew ≥ Nold` -/
theorem mapBetween_round_trip_upsample_odd (D Nold Nnew : ℕ) (hD : 0 < D) (hodd : Nold % 2 = 1)
    (hle : Nold ≤ Nnew) (ob ob' : Bool) (u : Array ℂ) (hsz : u.size = Nold ^ D)
    (hre : ∀ j < Nold ^ D, (u.getD j 0).im = 0) :
    mapBetween D Nnew Nold ob' (mapBetween D Nold Nnew ob u) = u := by
  rcases Nat.lt_or_ge Nold Nnew with hlt | hge
  · exact mapBetween_round_trip D Nold Nnew hD (by omega) (by omega) ob ob' u hsz hre
      (bandLimitedN_of_odd_up D Nold Nnew hD hodd hlt u)
  · have : Nold = Nnew := by omega
    subst this
    unfold mapBetween
    rw [if_pos rfl, if_pos rfl]

/-- the realness hypothesis cannot be dropped ("every state" means every REAL state): the inverse transform
    discards imaginary parts, so the non-real one-point state `#[i]` does not come back (`1 → 2 → 1` points) -/
theorem mapBetween_round_trip_fails_nonreal (ob ob' : Bool) :
    mapBetween 1 2 1 ob' (mapBetween 1 1 2 ob #[Complex.I]) ≠ #[Complex.I] := by
  intro h
  have hre : ((mapBetween 1 2 1 ob' (mapBetween 1 1 2 ob #[Complex.I])).getD 0 0).im = 0 := by
    unfold mapBetween
    rw [if_neg (by norm_num), if_neg (by norm_num)]
    exact Conserve.irfftnM_real 1 1 one_pos _ 0 (by norm_num)
  rw [h] at hre
  simp at hre

/-! ### non-vacuity -/

/-- the hypotheses of `mapBetween_round_trip` are satisfiable by a non-constant state: one mode
    `2 cos(2π(j₀ + j₁)/4 + ½)` on the `4 × 4` grid, mapped to `6 × 6` and back -/
example : ∃ u : Array ℂ, u.size = 4 ^ 2 ∧ (∀ j < 4 ^ 2, (u.getD j 0).im = 0) ∧
    BandLimitedN 2 4 (min 4 6) u := by
  have hms : ∀ x ∈ ([([1, 1], 2, 0.5)] : Modes), BelowNyquist 2 (min 4 6) x.1 := by
    intro x hx
    simp only [List.mem_cons, List.mem_nil_iff, or_false] at hx
    subst hx
    exact ⟨rfl, by intro d hd; interval_cases d <;> simp⟩
  exact ⟨stateOf 2 4 [([1, 1], 2, 0.5)], by simp, stateOf_real 2 4 _,
    bandLimitedN_stateOf 2 4 (min 4 6) (by norm_num) (by norm_num) (by norm_num) _ hms⟩

example : (5 : ℕ) % 2 = 1 ∧ 5 ≤ 8 := by norm_num

end Exponax.SmallGaps
