import ExponaxModel.Proofs.LinearTestOrderNonlinear4Stages
import ExponaxModel.Proofs.LinearTestOrderNonlinear3Vec
/-
C02 support — T8 for SYSTEMS: ETDRK4 (the regenerated `Gen.Etdrk.E4step` on vectors `ι → ℂ`, pointwise operations) for
`u' = L u + N(u)`, `L = diag(l k)`, nonlinear `N : (ι → ℂ) → (ι → ℂ)`, sup norm: classical order 4.
Hypotheses as in the scalar case (`LinearTestOrderNonlinear4.lean`); `Lam = ‖l‖ = sup_k |l k|`.

 * `etd4Vec_local_error`  `≤ NL4.Cloc·h⁵`;  `etd4Vec_stable`;  `etd4Vec_global_error`  `≤ NL4.Cglob·dt⁴`.
-/
set_option linter.unusedVariables false
noncomputable section
namespace Exponax.LinearOrder
open Exponax Exponax.Spec Exponax.ContourTail Exponax.Gen.Etdrk

/-- the per-mode facts about the exact solution and `f` for ETDRK4: scalar `y' = l y + f`, fourth-order Taylor
    hypothesis on `f` -/
theorem etd4_exact_facts (l : ℂ) (ω T M2 M3 G4 : ℝ) (hω : 0 ≤ ω) (hl : l.re ≤ ω) (hG4 : 0 ≤ G4)
    (y f g1 g2 g3 : ℝ → ℂ) (hy : ∀ t ∈ Set.Icc (0 : ℝ) T, HasDerivAt y (l * y t + f t) t)
    (hfc : ContinuousOn f (Set.Icc (0 : ℝ) T)) (hM2 : ∀ t ∈ Set.Icc (0 : ℝ) T, ‖g2 t‖ ≤ M2)
    (hM3 : ∀ t ∈ Set.Icc (0 : ℝ) T, ‖g3 t‖ ≤ M3)
    (hTay : ∀ t s : ℝ, 0 ≤ t → 0 ≤ s → t + s ≤ T →
      ‖f (t + s) - f t - (s : ℂ) * g1 t - (s : ℂ) ^ 2 / 2 * g2 t - (s : ℂ) ^ 3 / 6 * g3 t‖
        ≤ G4 * s ^ 4 / 24)
    (t h : ℝ) (ht : 0 ≤ t) (hh : 0 ≤ h) (hth : t + h ≤ T) :
    ‖y (t + h / 2) - (Complex.exp (l * h / 2) * y t + (h : ℂ) / 2 * phi1e (l * h / 2) * f t
        + ((h : ℂ) / 2) ^ 2 * phi2e (l * h / 2) * g1 t + ((h : ℂ) / 2) ^ 3 * phi3e (l * h / 2) * g2 t)‖
      ≤ Real.exp (ω * T) * (M3 + G4 * T / 4) * h ^ 4 / 384 ∧
    ‖y (t + h) - (Complex.exp (l * h) * y t + (h : ℂ) * phi1e (l * h) * f t
        + (h : ℂ) ^ 2 * phi2e (l * h) * g1 t + (h : ℂ) ^ 3 * phi3e (l * h) * g2 t)‖
      ≤ Real.exp (ω * T) * (M3 + G4 * T / 4) * h ^ 4 / 24 ∧
    ‖y (t + h) - (Complex.exp (l * h) * y t + (h : ℂ) * phi1e (l * h) * f t
        + (h : ℂ) ^ 2 * phi2e (l * h) * g1 t + (h : ℂ) ^ 3 * phi3e (l * h) * g2 t
        + (h : ℂ) ^ 4 * phiE 4 (l * h) * g3 t)‖ ≤ Real.exp (ω * T) * G4 * h ^ 5 / 120 ∧
    ‖f (t + h / 2) - f t - (h : ℂ) / 2 * g1 t‖ ≤ (M2 + (M3 + G4 * T / 4) * T / 3) * h ^ 2 / 8 ∧
    ‖f (t + h / 2) - f t - (h : ℂ) / 2 * g1 t - ((h : ℂ) / 2) ^ 2 / 2 * g2 t‖
      ≤ (M3 + G4 * T / 4) * h ^ 3 / 48 ∧
    ‖f (t + h / 2) - f t - (h : ℂ) / 2 * g1 t - ((h : ℂ) / 2) ^ 2 / 2 * g2 t
        - ((h : ℂ) / 2) ^ 3 / 6 * g3 t‖ ≤ G4 * h ^ 4 / 384 ∧
    ‖f (t + h) - f t - (h : ℂ) * g1 t - (h : ℂ) ^ 2 / 2 * g2 t - (h : ℂ) ^ 3 / 6 * g3 t‖
      ≤ G4 * h ^ 4 / 24 := by
  have hT : 0 ≤ T := by linarith
  have hhT : h ≤ T := by linarith
  have hM30 : 0 ≤ M3 := (norm_nonneg _).trans (hM3 0 ⟨le_rfl, hT⟩)
  have hG30 : 0 ≤ M3 + G4 * T / 4 := by positivity
  have tay3 := tay3_of_tay4 (fun x => x) f g1 g2 g3 T M3 G4 hG4 hM3 hTay
  have tay2 := tay2_of_tay3 (fun x => x) f g1 g2 T M2 (M3 + G4 * T / 4) hG30 hM2 tay3
  have hsub : ∀ k : ℝ, 0 ≤ k → t + k ≤ T → Set.Icc t (t + k) ⊆ Set.Icc (0 : ℝ) T :=
    fun k hk hkT s hs => ⟨ht.trans hs.1, hs.2.trans hkT⟩
  have hT3 : ∀ k : ℝ, 0 ≤ k → t + k ≤ T → ∀ s ∈ Set.Icc t (t + k),
      ‖f s - f t - ((s - t : ℝ) : ℂ) * g1 t - ((s - t : ℝ) : ℂ) ^ 2 / 2 * g2 t‖
        ≤ (M3 + G4 * T / 4) * (s - t) ^ 3 / 6 := by
    intro k hk hkT s hs
    have := tay3 t (s - t) ht (by linarith [hs.1]) (by linarith [hs.2])
    rwa [show t + (s - t) = s by ring] at this
  have Fa := etd_defect3 l ω (M3 + G4 * T / 4) y f t (t + h / 2) (by linarith) hω hl
    (fun s hs => hy s (hsub (h / 2) (by linarith) (by linarith) hs))
    (hfc.mono (hsub (h / 2) (by linarith) (by linarith))) (g1 t) (g2 t)
    (hT3 (h / 2) (by linarith) (by linarith))
  rw [show t + h / 2 - t = h / 2 by ring] at Fa
  have ecast : l * ((h / 2 : ℝ) : ℂ) = l * h / 2 := by push_cast; ring
  have ecast' : ((h / 2 : ℝ) : ℂ) = (h : ℂ) / 2 := by push_cast; ring
  rw [ecast, ecast'] at Fa
  have F3 := etd_defect3 l ω (M3 + G4 * T / 4) y f t (t + h) (by linarith) hω hl
    (fun s hs => hy s (hsub h hh hth hs)) (hfc.mono (hsub h hh hth)) (g1 t) (g2 t) (hT3 h hh hth)
  rw [show t + h - t = h by ring] at F3
  have F4 := etd_defect4 l ω G4 y f t (t + h) (by linarith) hω hl
    (fun s hs => hy s (hsub h hh hth hs)) (hfc.mono (hsub h hh hth)) (g1 t) (g2 t) (g3 t)
    (fun s hs => by
      have := hTay t (s - t) ht (by linarith [hs.1]) (by linarith [hs.2])
      rwa [show t + (s - t) = s by ring] at this)
  rw [show t + h - t = h by ring] at F4
  have Tσ2 := tay2 t (h / 2) ht (by linarith) (by linarith)
  have Tσ3 := tay3 t (h / 2) ht (by linarith) (by linarith)
  have Tτh := hTay t (h / 2) ht (by linarith) (by linarith)
  have Tτe := hTay t h ht hh hth
  rw [ecast'] at Tσ2 Tσ3 Tτh
  have hexpW : Real.exp (ω * h) ≤ Real.exp (ω * T) :=
    Real.exp_le_exp.mpr (mul_le_mul_of_nonneg_left hhT hω)
  have hexpW2 : Real.exp (ω * (h / 2)) ≤ Real.exp (ω * T) :=
    Real.exp_le_exp.mpr (mul_le_mul_of_nonneg_left (by linarith) hω)
  refine ⟨?_, ?_, ?_, ?_, ?_, ?_, Tτe⟩
  · refine Fa.trans ?_
    calc Real.exp (ω * (h / 2)) * (M3 + G4 * T / 4) * (h / 2) ^ 4 / 24
        ≤ Real.exp (ω * T) * (M3 + G4 * T / 4) * (h / 2) ^ 4 / 24 := by gcongr
      _ = Real.exp (ω * T) * (M3 + G4 * T / 4) * h ^ 4 / 384 := by ring
  · refine F3.trans ?_
    gcongr
  · refine F4.trans ?_
    gcongr
  · refine Tσ2.trans (le_of_eq ?_); ring
  · refine Tσ3.trans (le_of_eq ?_); ring
  · refine Tτh.trans (le_of_eq ?_); ring

variable {ι : Type} [Fintype ι]

/-- the ETDRK4 step on vectors: the regenerated `E4step` with per-mode exact coefficients -/
def etd4Vec (l : ι → ℂ) (N : (ι → ℂ) → (ι → ℂ)) (dt : ℝ) : (ι → ℂ) → (ι → ℂ) :=
  E4step (fun k => Complex.exp (l k * dt)) (fun k => Complex.exp (l k * dt / 2))
    (fun k => dt * (phi1e (l k * dt / 2) / 2)) (fun k => dt * (phi1e (l k * dt / 2) / 2))
    (fun k => dt * (phi1e (l k * dt / 2) / 2))
    (fun k => dt * (phi1e (l k * dt) - 3 * phi2e (l k * dt) + 4 * phi3e (l k * dt)))
    (fun k => dt * (phi2e (l k * dt) - 2 * phi3e (l k * dt)))
    (fun k => dt * (4 * phi3e (l k * dt) - phi2e (l k * dt))) N

/-- the stages -/
def etd4VecA (l : ι → ℂ) (N : (ι → ℂ) → (ι → ℂ)) (dt : ℝ) (x : ι → ℂ) : ι → ℂ :=
  fun k => Complex.exp (l k * dt / 2) * x k + dt * (phi1e (l k * dt / 2) / 2) * N x k
def etd4VecB (l : ι → ℂ) (N : (ι → ℂ) → (ι → ℂ)) (dt : ℝ) (x : ι → ℂ) : ι → ℂ :=
  fun k => Complex.exp (l k * dt / 2) * x k
    + dt * (phi1e (l k * dt / 2) / 2) * N (etd4VecA l N dt x) k
def etd4VecC (l : ι → ℂ) (N : (ι → ℂ) → (ι → ℂ)) (dt : ℝ) (x : ι → ℂ) : ι → ℂ :=
  fun k => Complex.exp (l k * dt / 2) * etd4VecA l N dt x k
    + dt * (phi1e (l k * dt / 2) / 2) * (2 * N (etd4VecB l N dt x) k - N x k)

omit [Fintype ι] in
theorem etd4Vec_apply (l : ι → ℂ) (N : (ι → ℂ) → (ι → ℂ)) (dt : ℝ) (x : ι → ℂ) (k : ι) :
    etd4Vec l N dt x k = Complex.exp (l k * dt) * x k
      + dt * (phi1e (l k * dt) - 3 * phi2e (l k * dt) + 4 * phi3e (l k * dt)) * N x k
      + dt * (phi2e (l k * dt) - 2 * phi3e (l k * dt)) * 2
        * (N (etd4VecA l N dt x) k + N (etd4VecB l N dt x) k)
      + dt * (4 * phi3e (l k * dt) - phi2e (l k * dt)) * N (etd4VecC l N dt x) k := by
  have hA : (fun k => Complex.exp (l k * dt / 2)) * x
      + (fun k => (dt : ℂ) * (phi1e (l k * dt / 2) / 2)) * N x = etd4VecA l N dt x := rfl
  have hB : (fun k => Complex.exp (l k * dt / 2)) * x
      + (fun k => (dt : ℂ) * (phi1e (l k * dt / 2) / 2)) * N (etd4VecA l N dt x)
      = etd4VecB l N dt x := rfl
  have hC : (fun k => Complex.exp (l k * dt / 2)) * etd4VecA l N dt x
      + (fun k => (dt : ℂ) * (phi1e (l k * dt / 2) / 2))
        * (lit 2 * N (etd4VecB l N dt x) - N x) = etd4VecC l N dt x := by
    funext j; simp [etd4VecC, lit]
  simp only [etd4Vec, E4step, hA, hB, hC, Pi.add_apply, Pi.mul_apply]
  simp [lit]

/-- **T8 for systems, ETDRK4: local error `O(h⁵)`** -/
theorem etd4Vec_local_error (l : ι → ℂ) (N : (ι → ℂ) → (ι → ℂ)) (K : NNReal)
    (hN : LipschitzWith K N) (u : ℝ → (ι → ℂ)) (T ω M1 M2 M3 G4 H HL : ℝ) (hω : 0 ≤ ω)
    (hl : ∀ k, (l k).re ≤ ω) (hG4 : 0 ≤ G4) (hH : 0 ≤ H) (hHL : 0 ≤ HL)
    (hu : ∀ t ∈ Set.Icc (0 : ℝ) T, HasDerivAt u (l * u t + N (u t)) t)
    (f1 f2 f3 : ℝ → (ι → ℂ)) (hM1 : ∀ t ∈ Set.Icc (0 : ℝ) T, ‖f1 t‖ ≤ M1)
    (hM2 : ∀ t ∈ Set.Icc (0 : ℝ) T, ‖f2 t‖ ≤ M2) (hM3 : ∀ t ∈ Set.Icc (0 : ℝ) T, ‖f3 t‖ ≤ M3)
    (hTay : ∀ t s : ℝ, 0 ≤ t → 0 ≤ s → t + s ≤ T →
      ‖N (u (t + s)) - N (u t) - (s : ℂ) • f1 t - ((s : ℂ) ^ 2 / 2) • f2 t - ((s : ℂ) ^ 3 / 6) • f3 t‖
        ≤ G4 * s ^ 4 / 24)
    (L : ℝ → (ι → ℂ) →ₗ[ℝ] (ι → ℂ))
    (hLK : ∀ τ ∈ Set.Icc (0 : ℝ) T, ∀ v, ‖L τ v‖ ≤ K * ‖v‖)
    (hLin : ∀ τ ∈ Set.Icc (0 : ℝ) T, ∀ y, ‖N y - N (u τ) - L τ (y - u τ)‖ ≤ H / 2 * ‖y - u τ‖ ^ 2)
    (hLlip : ∀ τ ∈ Set.Icc (0 : ℝ) T, ∀ τ' ∈ Set.Icc (0 : ℝ) T, ∀ v,
      ‖L τ v - L τ' v‖ ≤ HL * |τ - τ'| * ‖v‖)
    (t h : ℝ) (ht : 0 ≤ t) (hh : 0 ≤ h) (hth : t + h ≤ T) :
    ‖u (t + h) - etd4Vec l N h (u t)‖ ≤ NL4.Cloc ⟨K, M1, M2, M3, G4, H, HL, ‖l‖, ω, T⟩ * h ^ 5 := by
  have hT : 0 ≤ T := by linarith
  have hhT : h ≤ T := by linarith
  have h0mem : (0 : ℝ) ∈ Set.Icc (0 : ℝ) T := ⟨le_rfl, hT⟩
  have htmem : t ∈ Set.Icc (0 : ℝ) T := ⟨ht, by linarith⟩
  have hthmem : t + h / 2 ∈ Set.Icc (0 : ℝ) T := ⟨by linarith, by linarith⟩
  have ht1mem : t + h ∈ Set.Icc (0 : ℝ) T := ⟨by linarith, hth⟩
  have hM10 : 0 ≤ M1 := (norm_nonneg _).trans (hM1 0 h0mem)
  have hM20 : 0 ≤ M2 := (norm_nonneg _).trans (hM2 0 h0mem)
  have hM30 : 0 ≤ M3 := (norm_nonneg _).trans (hM3 0 h0mem)
  have hK0 : (0 : ℝ) ≤ K := K.coe_nonneg
  set c : NL4 := ⟨K, M1, M2, M3, G4, H, HL, ‖l‖, ω, T⟩ with hc
  have cW : c.W = Real.exp (ω * T) := rfl
  have hΛ0 : 0 ≤ c.Lam := norm_nonneg l
  have cK0 : 0 ≤ c.K := hK0
  have cM10 : 0 ≤ c.M1 := hM10
  have cM20 : 0 ≤ c.M2 := hM20
  have cM30 : 0 ≤ c.M3 := hM30
  have cG4 : 0 ≤ c.G4 := hG4
  have cH : 0 ≤ c.H := hH
  have cHL : 0 ≤ c.HL := hHL
  have cT : 0 ≤ c.T := hT
  have chT : h ≤ c.T := hhT
  obtain ⟨hW0, hG30, hG20, hEA0, hEa20, hEB0, hEb20, hPb0, hEAB0, hEC0, hEc30, hCl0⟩ :=
    c.nonnegs cK0 cM10 cM20 cM30 cG4 cH cHL hΛ0 cT
  have hlk : ∀ k, ‖l k‖ ≤ c.Lam := fun k => norm_le_pi_norm l k
  have hlip : ∀ x y, ‖N x - N y‖ ≤ K * ‖x - y‖ := fun x y => by
    have := hN.dist_le_mul x y; rwa [dist_eq_norm, dist_eq_norm] at this
  have hucont : ContinuousOn u (Set.Icc (0 : ℝ) T) := fun s hs =>
    (hu s hs).continuousAt.continuousWithinAt
  have hNu : ContinuousOn (fun s => N (u s)) (Set.Icc (0 : ℝ) T) :=
    hN.continuous.comp_continuousOn hucont
  have facts : ∀ k, _ := fun k => etd4_exact_facts (l k) ω T M2 M3 G4 hω (hl k) hG4 (fun s => u s k)
    (fun s => N (u s) k) (fun s => f1 s k) (fun s => f2 s k) (fun s => f3 s k)
    (fun s hs => hasDerivAt_pi.mp (hu s hs) k) ((continuous_apply k).comp_continuousOn hNu)
    (fun s hs => (norm_le_pi_norm (f2 s) k).trans (hM2 s hs))
    (fun s hs => (norm_le_pi_norm (f3 s) k).trans (hM3 s hs))
    (fun t s ht hs hts => by
      have := (norm_le_pi_norm _ k).trans (hTay t s ht hs hts)
      simpa [Pi.sub_apply, Pi.smul_apply, smul_eq_mul] using this) t h ht hh hth
  -- per-mode φ facts with `‖l k‖` replaced by `‖l‖`
  have hlh : ∀ k, ‖l k‖ * h ≤ c.Lam * h := fun k => mul_le_mul_of_nonneg_right (hlk k) hh
  have hlh0 : ∀ k, 0 ≤ ‖l k‖ * h := fun k => mul_nonneg (norm_nonneg _) hh
  have φ : ∀ k, ‖phi1e (l k * h / 2)‖ ≤ c.W ∧ ‖phi3e (l k * h / 2)‖ ≤ c.W / 6 ∧
      ‖phi2e (l k * h / 2) - 1 / 2‖ ≤ c.Lam * h * c.W / 12 ∧
      ‖phi1e (l k * h / 2) - 1‖ ≤ c.Lam * h * c.W / 4 ∧
      ‖phi1e (l k * h / 2) - 2 * phi2e (l k * h / 2) - l k * h / 12‖ ≤ (c.Lam * h) ^ 2 * c.W / 16 ∧
      ‖phi1e (l k * h / 2) - 4 * phi3e (l k * h / 2) - 1 / 3‖ ≤ c.Lam * h * c.W / 3 ∧
      ‖phi1e (l k * h / 2) / 2 - phi2e (l k * h) + l k * h / 24‖ ≤ (c.Lam * h) ^ 2 * c.W / 16 ∧
      ‖phi1e (l k * h / 2) / 8 - phi3e (l k * h) + 1 / 24‖ ≤ c.Lam * h * c.W * (7 / 96) ∧
      ‖(phi2e (l k * h) - 2 * phi3e (l k * h)) - (4 * phi3e (l k * h) - phi2e (l k * h))‖
        ≤ c.Lam * h * (7 * c.W / 12) ∧
      ‖-(phi2e (l k * h)) / 12 + phi3e (l k * h) / 2 - phiE 4 (l k * h)‖
        ≤ c.Lam * h * (c.W / 72 + c.W / 48 + c.W / 120) ∧
      ‖phi2e (l k * h) - 2 * phi3e (l k * h)‖ ≤ 5 * c.W / 6 ∧
      ‖4 * phi3e (l k * h) - phi2e (l k * h)‖ ≤ 7 * c.W / 6 := by
    intro k
    obtain ⟨bp1, bp2, bp3, bp4, bq1, bq2, bq3, bE, bEh⟩ := etd_phi_bounds (l k) ω h T hω (hl k) hh hhT
    obtain ⟨d_q2, d_p12, d_gb, b4β, bγ, bα⟩ := etd3_phi_diffs (l k) ω h T hω (hl k) hh hhT
    obtain ⟨dB, dAB1, dAB2, dC1, dC2, dβγ, dQ, bβ, bq3'⟩ := etd4_phi_diffs (l k) ω h T hω (hl k) hh hhT
    have h1 := hlh k
    have h0 := hlh0 k
    have hsq : (‖l k‖ * h) ^ 2 ≤ (c.Lam * h) ^ 2 := pow_le_pow_left₀ h0 h1 2
    rw [cW]
    refine ⟨bq1, bq3', d_q2.trans ?_, dB.trans ?_, dAB1.trans ?_, dAB2.trans ?_, dC1.trans ?_,
      dC2.trans ?_, dβγ.trans ?_, dQ.trans ?_, bβ, bγ⟩ <;> gcongr
  -- names
  set u0 := u t with hu0
  set uh := u (t + h / 2) with huh
  set u1 := u (t + h) with hu1
  set d1 := f1 t with hd1
  set d2 := f2 t with hd2
  set d3 := f3 t with hd3
  set a := etd4VecA l N h u0 with ha
  set b := etd4VecB l N h u0 with hb
  set cc := etd4VecC l N h u0 with hcc
  set La := L (t + h / 2) with hLa
  set Lb := L (t + h) with hLb
  have hd1M : ‖d1‖ ≤ c.M1 := hM1 t htmem
  have hd2M : ‖d2‖ ≤ c.M2 := hM2 t htmem
  have hd3M : ‖d3‖ ≤ c.M3 := hM3 t htmem
  have hd1k : ∀ k, ‖d1 k‖ ≤ c.M1 := fun k => (norm_le_pi_norm d1 k).trans hd1M
  have hd2k : ∀ k, ‖d2 k‖ ≤ c.M2 := fun k => (norm_le_pi_norm d2 k).trans hd2M
  have hd3k : ∀ k, ‖d3 k‖ ≤ c.M3 := fun k => (norm_le_pi_norm d3 k).trans hd3M
  -- stage a
  set εa : ι → ℂ := a - uh + (h ^ 2 / 8 : ℝ) • d1 with hεa
  have stA : ∀ k, ‖εa k‖ ≤ c.EA * h ^ 3 ∧ ‖(a - uh) k‖ ≤ c.Ea2 * h ^ 2 := by
    intro k
    obtain ⟨bq1, bq3, dA, dB, dAB1, dAB2, dC1, dC2, dβγ, dQ, bβ, bγ⟩ := φ k
    have := etd4_stageA c h cK0 cM10 cM20 cM30 cG4 cH cHL hΛ0 cT hh chT (u0 k) (uh k) (d1 k) (d2 k)
      _ _ _ _ (N u0 k) bq3 dA (hd1k k) (hd2k k) (facts k).1
    simpa [hεa, ha, etd4VecA, Pi.add_apply, Pi.sub_apply, Pi.smul_apply, Complex.real_smul] using this
  have nεa : ‖εa‖ ≤ c.EA * h ^ 3 :=
    (pi_norm_le_iff_of_nonneg (by positivity)).mpr (fun k => (stA k).1)
  have nea : ‖a - uh‖ ≤ c.Ea2 * h ^ 2 :=
    (pi_norm_le_iff_of_nonneg (by positivity)).mpr (fun k => (stA k).2)
  have nδa : ‖N a - N uh‖ ≤ c.K * (c.Ea2 * h ^ 2) :=
    (hlip a uh).trans (mul_le_mul_of_nonneg_left nea hK0)
  set qa : ι → ℂ := N a - N uh - La (a - uh) with hqa
  have nqa : ‖qa‖ ≤ c.H / 2 * (c.Ea2 * h ^ 2) ^ 2 := by
    refine (hLin (t + h / 2) hthmem a).trans ?_
    show H / 2 * ‖a - uh‖ ^ 2 ≤ _
    gcongr
  -- stage b
  set εb : ι → ℂ := b - uh - (h ^ 2 / 8 : ℝ) • d1 with hεb
  have stB : ∀ k, ‖εb k‖ ≤ c.EB * h ^ 3 ∧ ‖(b - uh) k‖ ≤ c.Eb2 * h ^ 2 := by
    intro k
    obtain ⟨bq1, bq3, dA, dB, dAB1, dAB2, dC1, dC2, dβγ, dQ, bβ, bγ⟩ := φ k
    have hεak : ‖(Complex.exp (l k * h / 2) * u0 k + (h : ℂ) * (phi1e (l k * h / 2) / 2) * N u0 k)
        - uh k + ((h ^ 2 / 8 : ℝ) : ℂ) * d1 k‖ ≤ c.EA * h ^ 3 := by
      have := (stA k).1
      simpa [hεa, ha, etd4VecA, Pi.add_apply, Pi.sub_apply, Pi.smul_apply, Complex.real_smul] using this
    have := etd4_stageB c h cK0 cM10 cM20 cM30 cG4 cH cHL hΛ0 cT hh chT (u0 k) (uh k) (d1 k) _ _
      (N u0 k) (N uh k) (N a k) bq1 dB (hd1k k) hεak (facts k).2.2.2.1
      ((norm_le_pi_norm (N a - N uh) k).trans nδa)
    simpa [hεb, hb, etd4VecB, Pi.add_apply, Pi.sub_apply, Pi.smul_apply, Complex.real_smul] using this
  have nεb : ‖εb‖ ≤ c.EB * h ^ 3 :=
    (pi_norm_le_iff_of_nonneg (by positivity)).mpr (fun k => (stB k).1)
  have neb : ‖b - uh‖ ≤ c.Eb2 * h ^ 2 :=
    (pi_norm_le_iff_of_nonneg (by positivity)).mpr (fun k => (stB k).2)
  set qb : ι → ℂ := N b - N uh - La (b - uh) with hqb
  have nqb : ‖qb‖ ≤ c.H / 2 * (c.Eb2 * h ^ 2) ^ 2 := by
    refine (hLin (t + h / 2) hthmem b).trans ?_
    show H / 2 * ‖b - uh‖ ^ 2 ≤ _
    gcongr
  -- linearisation at t + h/2
  have eLa : La (a - uh) = La εa + (-(h ^ 2 / 8) : ℝ) • La d1 := by
    rw [← lin_real_vec]; congr 1; rw [hεa]; module
  have eLb : La (b - uh) = La εb + (h ^ 2 / 8 : ℝ) • La d1 := by
    rw [← lin_real_vec]; congr 1; rw [hεb]; module
  have nA1 : ‖La εa‖ ≤ c.K * (c.EA * h ^ 3) :=
    (hLK _ hthmem εa).trans (mul_le_mul_of_nonneg_left nεa hK0)
  have nB1 : ‖La εb‖ ≤ c.K * (c.EB * h ^ 3) :=
    (hLK _ hthmem εb).trans (mul_le_mul_of_nonneg_left nεb hK0)
  have nA2 : ‖La d1‖ ≤ c.K * c.M1 := (hLK _ hthmem d1).trans (mul_le_mul_of_nonneg_left hd1M hK0)
  have e1 : N a = N uh + (La εa + (-(h ^ 2 / 8) : ℝ) • La d1) + qa := by rw [hqa, eLa]; abel
  have e2 : N b = N uh + (La εb + (h ^ 2 / 8 : ℝ) • La d1) + qb := by rw [hqb, eLb]; abel
  -- the cubic coefficient
  set P : ι → ℂ := fun k => (1 / 48 : ℂ) * (l k * d1 k + d2 k) - (1 / 16 : ℂ) * La d1 k with hP
  have nPk : ∀ k, ‖P k‖ ≤ c.Pb := fun k =>
    etd4_P_bound c cK0 cM10 hΛ0 (l k) (d1 k) (d2 k) (La d1 k) (hlk k) (hd1k k) (hd2k k)
      ((norm_le_pi_norm _ k).trans nA2)
  have nP : ‖P‖ ≤ c.Pb := (pi_norm_le_iff_of_nonneg hPb0).mpr nPk
  -- sum of the half-step errors
  set εab : ι → ℂ := (a - uh) + (b - uh) - (h ^ 3 : ℝ) • P with hεab
  have nεab : ‖εab‖ ≤ c.EAB * h ^ 4 := by
    refine (pi_norm_le_iff_of_nonneg (by positivity)).mpr (fun k => ?_)
    obtain ⟨bq1, bq3, dA, dB, dAB1, dAB2, dC1, dC2, dβγ, dQ, bβ, bγ⟩ := φ k
    have e1k := congrFun e1 k
    simp only [Pi.add_apply, Pi.smul_apply, Complex.real_smul] at e1k
    have := etd4_stageAB c h cK0 cM10 cM20 cM30 cG4 cH cHL hΛ0 cT hh chT (l k) (u0 k) (uh k) (d1 k)
      (d2 k) _ _ _ _ (N u0 k) (N uh k) (N a k) (La εa k) (La d1 k) (qa k) bq1 dB dAB1 dAB2 (hd1k k)
      (hd2k k) (facts k).1 (facts k).2.2.2.2.1 e1k ((norm_le_pi_norm _ k).trans nA1)
      ((norm_le_pi_norm _ k).trans nA2) ((norm_le_pi_norm _ k).trans nqa)
    simpa [hεab, hP, ha, hb, etd4VecA, etd4VecB, Pi.add_apply, Pi.sub_apply, Pi.smul_apply,
      Complex.real_smul] using this
  -- stage c
  set εc : ι → ℂ := cc - u1 + (2 * h ^ 3 : ℝ) • P with hεc
  have stC : ∀ k, ‖εc k‖ ≤ c.EC * h ^ 4 ∧ ‖(cc - u1) k‖ ≤ c.Ec3 * h ^ 3 := by
    intro k
    obtain ⟨bq1, bq3, dA, dB, dAB1, dAB2, dC1, dC2, dβγ, dQ, bβ, bγ⟩ := φ k
    have e2k := congrFun e2 k
    simp only [Pi.add_apply, Pi.smul_apply, Complex.real_smul] at e2k
    have eP1 : (h : ℂ) * phi1e (l k * h)
        = (h : ℂ) / 2 * phi1e (l k * h / 2) * (Complex.exp (l k * h / 2) + 1) := by
      rw [phi1e_double (l k * h)]; ring
    have := etd4_stageC c h cK0 cM10 cM20 cM30 cG4 cH cHL hΛ0 cT hh chT (l k) (u0 k) (u1 k) (d1 k)
      (d2 k) _ _ _ _ _ _ (N u0 k) (N uh k) (N b k) (La εb k) (La d1 k) (qb k)
      (exp_half_sq (l k * h)).symm eP1 bq1 dB dC1 dC2 (hd1k k) (hd2k k) (facts k).2.1
      (facts k).2.2.2.2.1 e2k ((norm_le_pi_norm _ k).trans nB1) ((norm_le_pi_norm _ k).trans nA2)
      ((norm_le_pi_norm _ k).trans nqb) (nPk k)
    simpa [hεc, hP, hcc, etd4VecC, etd4VecA, Pi.add_apply, Pi.sub_apply, Pi.smul_apply,
      Complex.real_smul] using this
  have nεc : ‖εc‖ ≤ c.EC * h ^ 4 :=
    (pi_norm_le_iff_of_nonneg (by positivity)).mpr (fun k => (stC k).1)
  have nec : ‖cc - u1‖ ≤ c.Ec3 * h ^ 3 :=
    (pi_norm_le_iff_of_nonneg (by positivity)).mpr (fun k => (stC k).2)
  set qc : ι → ℂ := N cc - N u1 - Lb (cc - u1) with hqc
  have nqc : ‖qc‖ ≤ c.H / 2 * (c.Ec3 * h ^ 3) ^ 2 := by
    refine (hLin (t + h) ht1mem cc).trans ?_
    show H / 2 * ‖cc - u1‖ ^ 2 ≤ _
    gcongr
  have eLc : Lb (cc - u1) = Lb εc + (-(2 * h ^ 3) : ℝ) • Lb P := by
    rw [← lin_real_vec]; congr 1; rw [hεc]; module
  have eLab : La (a - uh) + La (b - uh) = La εab + (h ^ 3 : ℝ) • La P := by
    rw [← map_add, ← lin_real_vec]; congr 1; rw [hεab]; module
  have nAB1 : ‖La εab‖ ≤ c.K * (c.EAB * h ^ 4) :=
    (hLK _ hthmem εab).trans (mul_le_mul_of_nonneg_left nεab hK0)
  have nC1 : ‖Lb εc‖ ≤ c.K * (c.EC * h ^ 4) :=
    (hLK _ ht1mem εc).trans (mul_le_mul_of_nonneg_left nεc hK0)
  have nLaP : ‖La P‖ ≤ c.K * c.Pb := (hLK _ hthmem P).trans (mul_le_mul_of_nonneg_left nP hK0)
  have nLabP : ‖La P - Lb P‖ ≤ c.HL * (h / 2) * c.Pb := by
    have := hLlip (t + h / 2) hthmem (t + h) ht1mem P
    rw [show t + h / 2 - (t + h) = -(h / 2) by ring, abs_neg, abs_of_nonneg (by linarith)] at this
    exact this.trans (mul_le_mul_of_nonneg_left nP (by positivity))
  have e3 : N a + N b = (2 : ℂ) • N uh + (La εab + (h ^ 3 : ℝ) • La P) + qa + qb := by
    rw [← eLab, hqa, hqb]; module
  have e4 : N cc = N u1 + (Lb εc + (-(2 * h ^ 3) : ℝ) • Lb P) + qc := by rw [hqc, eLc]; abel
  -- final stage, per mode
  refine (pi_norm_le_iff_of_nonneg (by positivity)).mpr (fun k => ?_)
  obtain ⟨bq1, bq3, dA, dB, dAB1, dAB2, dC1, dC2, dβγ, dQ, bβ, bγ⟩ := φ k
  have e3k := congrFun e3 k
  have e4k := congrFun e4 k
  simp only [Pi.add_apply, Pi.smul_apply, Complex.real_smul, smul_eq_mul] at e3k e4k
  have := etd4_final c h cK0 cM10 cM20 cM30 cG4 cH cHL hΛ0 cT hh chT (u0 k) (u1 k) (d1 k) (d2 k) (d3 k)
    _ _ _ _ _ (N u0 k) (N uh k) (N u1 k) (N a k) (N b k) (N cc k) (La εab k) (Lb εc k) (La P k)
    (Lb P k) (qa k) (qb k) (qc k) dβγ dQ bβ bγ (hd3k k) (facts k).2.2.1 (facts k).2.2.2.2.2.1
    (facts k).2.2.2.2.2.2 e3k e4k ((norm_le_pi_norm _ k).trans nAB1)
    ((norm_le_pi_norm _ k).trans nC1) ((norm_le_pi_norm _ k).trans nLaP)
    ((norm_le_pi_norm (La P - Lb P) k).trans nLabP) ((norm_le_pi_norm _ k).trans nqa)
    ((norm_le_pi_norm _ k).trans nqb) ((norm_le_pi_norm _ k).trans nqc)
  rw [Pi.sub_apply, etd4Vec_apply]
  exact this


/-- **T8 for systems, ETDRK4: stability** (`0 ≤ dt ≤ T`) -/
theorem etd4Vec_stable (l : ι → ℂ) (N : (ι → ℂ) → (ι → ℂ)) (K : NNReal) (hN : LipschitzWith K N)
    (ω T dt : ℝ) (hω : 0 ≤ ω) (hl : ∀ k, (l k).re ≤ ω) (hdt : 0 ≤ dt) (hdtT : dt ≤ T) (x y : ι → ℂ) :
    ‖etd4Vec l N dt x - etd4Vec l N dt y‖ ≤ (Real.exp (ω * dt) + dt * etd4Θ K ω T) * ‖x - y‖ := by
  have hT : 0 ≤ T := hdt.trans hdtT
  have hK0 : (0 : ℝ) ≤ K := K.coe_nonneg
  set W := Real.exp (ω * T) with hW
  have hW0 : 0 ≤ W := (Real.exp_pos _).le
  have hlip : ∀ x y, ‖N x - N y‖ ≤ K * ‖x - y‖ := fun x y => by
    have := hN.dist_le_mul x y; rwa [dist_eq_norm, dist_eq_norm] at this
  set δ := ‖x - y‖ with hδ
  have hδ0 : 0 ≤ δ := norm_nonneg _
  have bdt : ‖(dt : ℂ)‖ ≤ dt := nrm_ofReal hdt le_rfl
  have b2 : ‖(2 : ℂ)‖ ≤ 2 := by simp
  have hAa0 : 0 ≤ etd4Aa K ω T := by unfold etd4Aa; positivity
  have hAb0 : 0 ≤ etd4Ab K ω T := by unfold etd4Ab; positivity
  have hAc0 : 0 ≤ etd4Ac K ω T := by unfold etd4Ac; positivity
  have hΘ0 : 0 ≤ etd4Θ K ω T := by unfold etd4Θ; positivity
  have hch0 : 0 ≤ T / 2 * W := by positivity
  have hxy : ∀ k, ‖x k - y k‖ ≤ δ := fun k => norm_le_pi_norm (x - y) k
  have hNxy : ∀ k, ‖N x k - N y k‖ ≤ K * δ := fun k => (norm_le_pi_norm (N x - N y) k).trans (hlip x y)
  have bch : ∀ k, ‖(dt : ℂ) * (phi1e (l k * dt / 2) / 2)‖ ≤ T / 2 * W ∧
      ‖Complex.exp (l k * dt / 2)‖ ≤ W := by
    intro k
    obtain ⟨bp1, bp2, bp3, bp4, bq1, bq2, bq3, bE, bEh⟩ := etd_phi_bounds (l k) ω dt T hω (hl k) hdt hdtT
    have bq1h : ‖phi1e (l k * dt / 2) / 2‖ ≤ W / 2 := by
      rw [norm_div]; simpa using div_le_div_of_nonneg_right bq1 (by norm_num : (0 : ℝ) ≤ 2)
    refine ⟨(nrm_mul bdt bq1h hdt).trans ?_, bEh⟩
    have : dt * (W / 2) ≤ T * (W / 2) := mul_le_mul_of_nonneg_right hdtT (by positivity)
    linarith
  -- stage a
  have na : ‖etd4VecA l N dt x - etd4VecA l N dt y‖ ≤ etd4Aa K ω T * δ := by
    refine (pi_norm_le_iff_of_nonneg (by positivity)).mpr (fun k => ?_)
    have e : (etd4VecA l N dt x - etd4VecA l N dt y) k = Complex.exp (l k * dt / 2) * (x k - y k)
        + (dt : ℂ) * (phi1e (l k * dt / 2) / 2) * (N x k - N y k) := by
      simp only [Pi.sub_apply, etd4VecA]; ring
    rw [e]
    refine (nrm_add (nrm_mul (bch k).2 (hxy k) hW0) (nrm_mul (bch k).1 (hNxy k) hch0)).trans
      (le_of_eq ?_)
    unfold etd4Aa; ring
  have nNa : ∀ k, ‖N (etd4VecA l N dt x) k - N (etd4VecA l N dt y) k‖ ≤ K * (etd4Aa K ω T * δ) :=
    fun k => (norm_le_pi_norm (N (etd4VecA l N dt x) - N (etd4VecA l N dt y)) k).trans
      ((hlip _ _).trans (mul_le_mul_of_nonneg_left na hK0))
  -- stage b
  have nb : ‖etd4VecB l N dt x - etd4VecB l N dt y‖ ≤ etd4Ab K ω T * δ := by
    refine (pi_norm_le_iff_of_nonneg (by positivity)).mpr (fun k => ?_)
    have e : (etd4VecB l N dt x - etd4VecB l N dt y) k = Complex.exp (l k * dt / 2) * (x k - y k)
        + (dt : ℂ) * (phi1e (l k * dt / 2) / 2)
          * (N (etd4VecA l N dt x) k - N (etd4VecA l N dt y) k) := by
      simp only [Pi.sub_apply, etd4VecB]; ring
    rw [e]
    refine (nrm_add (nrm_mul (bch k).2 (hxy k) hW0) (nrm_mul (bch k).1 (nNa k) hch0)).trans
      (le_of_eq ?_)
    unfold etd4Ab; ring
  have nNb : ∀ k, ‖N (etd4VecB l N dt x) k - N (etd4VecB l N dt y) k‖ ≤ K * (etd4Ab K ω T * δ) :=
    fun k => (norm_le_pi_norm (N (etd4VecB l N dt x) - N (etd4VecB l N dt y)) k).trans
      ((hlip _ _).trans (mul_le_mul_of_nonneg_left nb hK0))
  -- stage c
  have nc : ‖etd4VecC l N dt x - etd4VecC l N dt y‖ ≤ etd4Ac K ω T * δ := by
    refine (pi_norm_le_iff_of_nonneg (by positivity)).mpr (fun k => ?_)
    have e : (etd4VecC l N dt x - etd4VecC l N dt y) k
        = Complex.exp (l k * dt / 2) * (etd4VecA l N dt x - etd4VecA l N dt y) k
        + (dt : ℂ) * (phi1e (l k * dt / 2) / 2)
          * (2 * (N (etd4VecB l N dt x) k - N (etd4VecB l N dt y) k) - (N x k - N y k)) := by
      simp only [Pi.sub_apply, etd4VecC]; ring
    rw [e]
    refine (nrm_add (nrm_mul (bch k).2 ((norm_le_pi_norm _ k).trans na) hW0) (nrm_mul (bch k).1
      (nrm_sub (nrm_mul b2 (nNb k) (by norm_num)) (hNxy k)) hch0)).trans (le_of_eq ?_)
    unfold etd4Ac; ring
  have nNc : ∀ k, ‖N (etd4VecC l N dt x) k - N (etd4VecC l N dt y) k‖ ≤ K * (etd4Ac K ω T * δ) :=
    fun k => (norm_le_pi_norm (N (etd4VecC l N dt x) - N (etd4VecC l N dt y)) k).trans
      ((hlip _ _).trans (mul_le_mul_of_nonneg_left nc hK0))
  -- final stage
  refine (pi_norm_le_iff_of_nonneg (by positivity)).mpr (fun k => ?_)
  obtain ⟨d_q2, d_p12, d_gb, b4β, bγ, bα⟩ := etd3_phi_diffs (l k) ω dt T hω (hl k) hdt hdtT
  obtain ⟨dB, dAB1, dAB2, dC1, dC2, dβγ, dQ, bβ, bq3'⟩ := etd4_phi_diffs (l k) ω dt T hω (hl k) hdt hdtT
  have bE' : ‖Complex.exp (l k * dt)‖ ≤ Real.exp (ω * dt) := by
    rw [Complex.norm_exp, Complex.re_mul_ofReal]
    exact Real.exp_le_exp.mpr (mul_le_mul_of_nonneg_right (hl k) hdt)
  have e : (etd4Vec l N dt x - etd4Vec l N dt y) k = Complex.exp (l k * dt) * (x k - y k)
      + (dt : ℂ) * ((phi1e (l k * dt) - 3 * phi2e (l k * dt) + 4 * phi3e (l k * dt)) * (N x k - N y k)
        + (phi2e (l k * dt) - 2 * phi3e (l k * dt))
          * (2 * ((N (etd4VecA l N dt x) k - N (etd4VecA l N dt y) k)
            + (N (etd4VecB l N dt x) k - N (etd4VecB l N dt y) k)))
        + (4 * phi3e (l k * dt) - phi2e (l k * dt))
          * (N (etd4VecC l N dt x) k - N (etd4VecC l N dt y) k)) := by
    rw [Pi.sub_apply, etd4Vec_apply, etd4Vec_apply]; ring
  rw [e]
  refine (nrm_add (nrm_mul bE' (hxy k) (Real.exp_pos _).le) (nrm_mul bdt
    (nrm_add (nrm_add (nrm_mul bα (hNxy k) (by positivity))
      (nrm_mul bβ (nrm_mul b2 (nrm_add (nNa k) (nNb k)) (by norm_num)) (by positivity)))
      (nrm_mul bγ (nNc k) (by positivity))) hdt)).trans (le_of_eq ?_)
  unfold etd4Θ
  ring

/-- **T8 for systems, ETDRK4: global error `O(dt⁴)`** -/
theorem etd4Vec_global_error (l : ι → ℂ) (N : (ι → ℂ) → (ι → ℂ)) (K : NNReal)
    (hN : LipschitzWith K N) (u : ℝ → (ι → ℂ)) (T ω M1 M2 M3 G4 H HL : ℝ) (hω : 0 ≤ ω)
    (hl : ∀ k, (l k).re ≤ ω) (hG4 : 0 ≤ G4) (hH : 0 ≤ H) (hHL : 0 ≤ HL)
    (hu : ∀ t ∈ Set.Icc (0 : ℝ) T, HasDerivAt u (l * u t + N (u t)) t)
    (f1 f2 f3 : ℝ → (ι → ℂ)) (hM1 : ∀ t ∈ Set.Icc (0 : ℝ) T, ‖f1 t‖ ≤ M1)
    (hM2 : ∀ t ∈ Set.Icc (0 : ℝ) T, ‖f2 t‖ ≤ M2) (hM3 : ∀ t ∈ Set.Icc (0 : ℝ) T, ‖f3 t‖ ≤ M3)
    (hTay : ∀ t s : ℝ, 0 ≤ t → 0 ≤ s → t + s ≤ T →
      ‖N (u (t + s)) - N (u t) - (s : ℂ) • f1 t - ((s : ℂ) ^ 2 / 2) • f2 t - ((s : ℂ) ^ 3 / 6) • f3 t‖
        ≤ G4 * s ^ 4 / 24)
    (L : ℝ → (ι → ℂ) →ₗ[ℝ] (ι → ℂ))
    (hLK : ∀ τ ∈ Set.Icc (0 : ℝ) T, ∀ v, ‖L τ v‖ ≤ K * ‖v‖)
    (hLin : ∀ τ ∈ Set.Icc (0 : ℝ) T, ∀ y, ‖N y - N (u τ) - L τ (y - u τ)‖ ≤ H / 2 * ‖y - u τ‖ ^ 2)
    (hLlip : ∀ τ ∈ Set.Icc (0 : ℝ) T, ∀ τ' ∈ Set.Icc (0 : ℝ) T, ∀ v,
      ‖L τ v - L τ' v‖ ≤ HL * |τ - τ'| * ‖v‖)
    (n : ℕ) (dt : ℝ) (hdt : 0 ≤ dt) (hn : n * dt ≤ T) :
    ‖u (n * dt) - (etd4Vec l N dt)^[n] (u 0)‖
      ≤ NL4.Cglob ⟨K, M1, M2, M3, G4, H, HL, ‖l‖, ω, T⟩ * dt ^ 4 := by
  have hT : 0 ≤ T := le_trans (mul_nonneg (Nat.cast_nonneg n) hdt) hn
  have h0mem : (0 : ℝ) ∈ Set.Icc (0 : ℝ) T := ⟨le_rfl, hT⟩
  have hM10 : 0 ≤ M1 := (norm_nonneg _).trans (hM1 0 h0mem)
  have hM20 : 0 ≤ M2 := (norm_nonneg _).trans (hM2 0 h0mem)
  have hM30 : 0 ≤ M3 := (norm_nonneg _).trans (hM3 0 h0mem)
  have hK0 : (0 : ℝ) ≤ K := K.coe_nonneg
  set c : NL4 := ⟨K, M1, M2, M3, G4, H, HL, ‖l‖, ω, T⟩ with hc
  have hCl0 : 0 ≤ c.Cloc :=
    (c.nonnegs hK0 hM10 hM20 hM30 hG4 hH hHL (norm_nonneg l) hT).2.2.2.2.2.2.2.2.2.2.2
  have hΘ0 : 0 ≤ etd4Θ K ω T := by unfold etd4Θ etd4Ac etd4Ab etd4Aa; positivity
  rcases Nat.eq_zero_or_pos n with rfl | hnpos
  · simp only [Nat.cast_zero, zero_mul, Function.iterate_zero, id_eq, sub_self, norm_zero]
    unfold NL4.Cglob; positivity
  have hn1 : (1 : ℝ) ≤ n := by exact_mod_cast hnpos
  have hdtT : dt ≤ T := le_trans (by nlinarith) hn
  have hA1 : 1 ≤ Real.exp (ω * dt) + dt * etd4Θ K ω T := by
    have := Real.one_le_exp (mul_nonneg hω hdt)
    have := mul_nonneg hdt hΘ0
    linarith
  have hB0 : 0 ≤ c.Cloc * dt ^ 5 := by positivity
  have hfan := fan (etd4Vec l N dt) (fun k : ℕ => u (k * dt)) _ _ hA1 hB0 n
    (fun k hk => by
      have hk1 : ((k + 1 : ℕ) : ℝ) * dt ≤ T := by
        have : ((k + 1 : ℕ) : ℝ) ≤ n := by exact_mod_cast hk
        exact (mul_le_mul_of_nonneg_right this hdt).trans hn
      have hkt : ((k + 1 : ℕ) : ℝ) * dt = k * dt + dt := by push_cast; ring
      have hkdt : 0 ≤ (k : ℝ) * dt := mul_nonneg (Nat.cast_nonneg k) hdt
      have hloc := etd4Vec_local_error l N K hN u T ω M1 M2 M3 G4 H HL hω hl hG4 hH hHL hu f1 f2 f3 hM1
        hM2 hM3 hTay L hLK hLin hLlip (k * dt) dt hkdt hdt (by rw [← hkt]; exact hk1)
      simp only [hkt]
      exact hloc)
    (fun x y => etd4Vec_stable l N K hN ω T dt hω hl hdt hdtT x y)
  simp only [Nat.cast_zero, zero_mul] at hfan
  refine hfan.trans ?_
  have hAexp : Real.exp (ω * dt) + dt * etd4Θ K ω T ≤ Real.exp ((ω + etd4Θ K ω T) * dt) := by
    have h1 : 1 ≤ Real.exp (ω * dt) := Real.one_le_exp (mul_nonneg hω hdt)
    have h2 : 1 + dt * etd4Θ K ω T ≤ Real.exp (etd4Θ K ω T * dt) := by
      have := Real.add_one_le_exp (etd4Θ K ω T * dt); linarith
    have h3 : 0 ≤ dt * etd4Θ K ω T := mul_nonneg hdt hΘ0
    calc Real.exp (ω * dt) + dt * etd4Θ K ω T
        ≤ Real.exp (ω * dt) * (1 + dt * etd4Θ K ω T) := by nlinarith
      _ ≤ Real.exp (ω * dt) * Real.exp (etd4Θ K ω T * dt) :=
          mul_le_mul_of_nonneg_left h2 (Real.exp_pos _).le
      _ = Real.exp ((ω + etd4Θ K ω T) * dt) := by rw [← Real.exp_add]; congr 1; ring
  have hAn : (Real.exp (ω * dt) + dt * etd4Θ K ω T) ^ n ≤ Real.exp ((ω + etd4Θ K ω T) * T) := by
    calc (Real.exp (ω * dt) + dt * etd4Θ K ω T) ^ n ≤ Real.exp ((ω + etd4Θ K ω T) * dt) ^ n :=
          pow_le_pow_left₀ (by linarith) hAexp n
      _ = Real.exp (n * ((ω + etd4Θ K ω T) * dt)) := by rw [Real.exp_nat_mul]
      _ ≤ Real.exp ((ω + etd4Θ K ω T) * T) := by
          refine Real.exp_le_exp.mpr ?_
          calc (n : ℝ) * ((ω + etd4Θ K ω T) * dt) = (ω + etd4Θ K ω T) * (n * dt) := by ring
            _ ≤ (ω + etd4Θ K ω T) * T := mul_le_mul_of_nonneg_left hn (by positivity)
  calc (n : ℝ) * (c.Cloc * dt ^ 5) * (Real.exp (ω * dt) + dt * etd4Θ K ω T) ^ n
      = (n * dt) * (c.Cloc * dt ^ 4) * (Real.exp (ω * dt) + dt * etd4Θ K ω T) ^ n := by ring
    _ ≤ T * (c.Cloc * dt ^ 4) * Real.exp ((ω + etd4Θ K ω T) * T) := by gcongr
    _ = NL4.Cglob c * dt ^ 4 := by
        have : NL4.Cglob c = T * c.Cloc * Real.exp ((ω + etd4Θ K ω T) * T) := rfl
        rw [this]; ring

/-! ### non-vacuity: two modes `l = (−1, −100)`, `N v = i·v` (`L τ v = i·v`, `H = HL = 0`), `u_k = e^{(l_k+i)t}` -/
example : ∃ (l : Fin 2 → ℂ) (N : (Fin 2 → ℂ) → (Fin 2 → ℂ)) (K : NNReal)
    (u f1 f2 f3 : ℝ → (Fin 2 → ℂ)) (L : ℝ → (Fin 2 → ℂ) →ₗ[ℝ] (Fin 2 → ℂ))
    (T ω M1 M2 M3 G4 H HL : ℝ), LipschitzWith K N ∧ 0 ≤ ω ∧
    (∀ k, (l k).re ≤ ω) ∧ 0 ≤ G4 ∧ 0 ≤ H ∧ 0 ≤ HL ∧ 0 < T ∧
    (∀ t ∈ Set.Icc (0 : ℝ) T, HasDerivAt u (l * u t + N (u t)) t) ∧
    (∀ t ∈ Set.Icc (0 : ℝ) T, ‖f1 t‖ ≤ M1) ∧ (∀ t ∈ Set.Icc (0 : ℝ) T, ‖f2 t‖ ≤ M2) ∧
    (∀ t ∈ Set.Icc (0 : ℝ) T, ‖f3 t‖ ≤ M3) ∧
    (∀ t s : ℝ, 0 ≤ t → 0 ≤ s → t + s ≤ T →
      ‖N (u (t + s)) - N (u t) - (s : ℂ) • f1 t - ((s : ℂ) ^ 2 / 2) • f2 t - ((s : ℂ) ^ 3 / 6) • f3 t‖
        ≤ G4 * s ^ 4 / 24) ∧
    (∀ τ ∈ Set.Icc (0 : ℝ) T, ∀ v, ‖L τ v‖ ≤ K * ‖v‖) ∧
    (∀ τ ∈ Set.Icc (0 : ℝ) T, ∀ y, ‖N y - N (u τ) - L τ (y - u τ)‖ ≤ H / 2 * ‖y - u τ‖ ^ 2) ∧
    (∀ τ ∈ Set.Icc (0 : ℝ) T, ∀ τ' ∈ Set.Icc (0 : ℝ) T, ∀ v,
      ‖L τ v - L τ' v‖ ≤ HL * |τ - τ'| * ‖v‖) := by
  set c : Fin 2 → ℂ := fun k => ![-1, -100] k + Complex.I with hc
  have hcn : ∀ k, ‖c k‖ ≤ 101 := by
    intro k
    refine (norm_add_le _ _).trans ?_
    fin_cases k <;> simp <;> norm_num
  have hexp : ∀ k (t : ℝ), 0 ≤ t → ‖Complex.exp (c k * t)‖ ≤ 1 := by
    intro k t ht
    rw [Complex.norm_exp, Real.exp_le_one_iff]
    fin_cases k <;> simp [hc] <;> nlinarith
  have hder : ∀ k (t : ℝ),
      HasDerivAt (fun t : ℝ => Complex.exp (c k * t)) (c k * Complex.exp (c k * t)) t :=
    fun k t => (hasDerivAt_exp_mul (c k) t).congr_deriv (by ring)
  have hIv : ∀ v : Fin 2 → ℂ, ‖(fun k => Complex.I * v k)‖ ≤ ‖v‖ := by
    intro v
    refine (pi_norm_le_iff_of_nonneg (norm_nonneg _)).mpr (fun k => ?_)
    rw [norm_mul, Complex.norm_I, one_mul]; exact norm_le_pi_norm v k
  have hpow : ∀ (k : Fin 2) (j : ℕ) (t : ℝ), 0 ≤ t →
      ‖Complex.I * (c k ^ j * Complex.exp (c k * t))‖ ≤ 101 ^ j := by
    intro k j t ht
    rw [norm_mul, norm_mul, norm_pow, Complex.norm_I, one_mul]
    calc ‖c k‖ ^ j * ‖Complex.exp (c k * t)‖ ≤ 101 ^ j * 1 :=
          mul_le_mul (pow_le_pow_left₀ (norm_nonneg _) (hcn k) j) (hexp k t ht) (norm_nonneg _)
            (by positivity)
      _ = 101 ^ j := by ring
  have hderj : ∀ (k : Fin 2) (j : ℕ) (t : ℝ),
      HasDerivAt (fun t : ℝ => Complex.I * (c k ^ j * Complex.exp (c k * t)))
        (Complex.I * (c k ^ (j + 1) * Complex.exp (c k * t))) t := by
    intro k j t
    have := ((hder k t).const_mul (c k ^ j)).const_mul Complex.I
    refine this.congr_deriv ?_
    ring
  refine ⟨![-1, -100], fun v => fun k => Complex.I * v k, 1, fun t => fun k => Complex.exp (c k * t),
    fun t => fun k => Complex.I * (c k ^ 1 * Complex.exp (c k * t)),
    fun t => fun k => Complex.I * (c k ^ 2 * Complex.exp (c k * t)),
    fun t => fun k => Complex.I * (c k ^ 3 * Complex.exp (c k * t)),
    fun _ => LinearMap.mulLeft ℝ (fun _ => Complex.I : Fin 2 → ℂ), 1, 0, 101 ^ 1, 101 ^ 2, 101 ^ 3,
    101 ^ 4, 0, 0, ?_, le_rfl, ?_, by norm_num, le_rfl, le_rfl, one_pos, ?_, ?_, ?_, ?_, ?_, ?_, ?_, ?_⟩
  · refine LipschitzWith.of_dist_le_mul (fun x y => ?_)
    rw [dist_eq_norm, dist_eq_norm, NNReal.coe_one, one_mul]
    have : ((fun k => Complex.I * x k) - fun k => Complex.I * y k) = fun k => Complex.I * (x - y) k := by
      funext k; simp only [Pi.sub_apply]; ring
    rw [this]; exact hIv _
  · intro k; fin_cases k <;> simp
  · intro t _
    refine hasDerivAt_pi.mpr (fun k => ?_)
    refine (hder k t).congr_deriv ?_
    simp only [Pi.add_apply, Pi.mul_apply, hc]
    ring
  · intro t ht
    exact (pi_norm_le_iff_of_nonneg (by norm_num)).mpr (fun k => hpow k 1 t ht.1)
  · intro t ht
    exact (pi_norm_le_iff_of_nonneg (by norm_num)).mpr (fun k => hpow k 2 t ht.1)
  · intro t ht
    exact (pi_norm_le_iff_of_nonneg (by norm_num)).mpr (fun k => hpow k 3 t ht.1)
  · intro t s ht hs hts
    refine (pi_norm_le_iff_of_nonneg (by positivity)).mpr (fun k => ?_)
    have hLip : ∀ x ∈ Set.Icc (0 : ℝ) 1, ∀ y ∈ Set.Icc (0 : ℝ) 1,
        ‖Complex.I * (c k ^ 3 * Complex.exp (c k * x)) - Complex.I * (c k ^ 3 * Complex.exp (c k * y))‖
          ≤ 101 ^ 4 * |x - y| := by
      intro x hx y hy
      have := Convex.norm_image_sub_le_of_norm_hasDerivWithin_le
        (f := fun x : ℝ => Complex.I * (c k ^ 3 * Complex.exp (c k * x)))
        (f' := fun x : ℝ => Complex.I * (c k ^ (3 + 1) * Complex.exp (c k * x)))
        (s := Set.Icc (0 : ℝ) 1)
        (fun z _ => (hderj k 3 z).hasDerivWithinAt) (fun z hz => hpow k 4 z hz.1) (convex_Icc 0 1) hy hx
      simpa [Real.norm_eq_abs] using this
    have h0 : ∀ x ∈ Set.Icc (0 : ℝ) 1,
        HasDerivAt (fun x : ℝ => Complex.I * Complex.exp (c k * x))
          (Complex.I * (c k ^ 1 * Complex.exp (c k * x))) x := by
      intro x _
      have := hderj k 0 x
      simpa using this
    have := taylor3_of_lipschitz_deriv (fun x : ℝ => Complex.I * Complex.exp (c k * x))
      (fun x : ℝ => Complex.I * (c k ^ 1 * Complex.exp (c k * x)))
      (fun x : ℝ => Complex.I * (c k ^ 2 * Complex.exp (c k * x)))
      (fun x : ℝ => Complex.I * (c k ^ 3 * Complex.exp (c k * x))) 1 (101 ^ 4) h0
      (fun x _ => hderj k 1 x) (fun x _ => hderj k 2 x) hLip t s ht hs hts
    simpa [Pi.sub_apply, Pi.smul_apply, smul_eq_mul] using this
  · intro τ _ v
    rw [NNReal.coe_one, one_mul]
    have : LinearMap.mulLeft ℝ (fun _ => Complex.I : Fin 2 → ℂ) v = fun k => Complex.I * v k := by
      funext k; simp [LinearMap.mulLeft_apply]
    rw [this]; exact hIv v
  · intro τ _ y
    have : (fun k => Complex.I * y k) - (fun k => Complex.I * Complex.exp (c k * τ))
        - LinearMap.mulLeft ℝ (fun _ => Complex.I : Fin 2 → ℂ) (y - fun k => Complex.exp (c k * τ)) = 0 := by
      funext k; simp [LinearMap.mulLeft_apply]; ring
    rw [this]; simp
  · intro τ _ τ' _ v
    simp


end Exponax.LinearOrder
end
