import ExponaxModel.Proofs.LinearTestOrderNonlinear3
/-
C02 support — T8 for SYSTEMS: ETDRK3 (the regenerated `Gen.Etdrk.E3step` on vectors `ι → ℂ`, pointwise operations) for
`u' = L u + N(u)`, `L = diag(l k)`, nonlinear `N : (ι → ℂ) → (ι → ℂ)`, sup norm: classical order 3.

Hypotheses as in the scalar case (`LinearTestOrderNonlinear3.lean`), with `f₁, f₂ : ℝ → ι → ℂ`, real-linear
`L τ : (ι → ℂ) →ₗ[ℝ] (ι → ℂ)` (`= N'(u τ)`, it may couple the modes), all norms sup norms; `Lam = ‖l‖ = sup_k |l k|`.

The proof applies three scalar, per-mode lemmas (`etd3_stageA`, `etd3_stageB`, `etd3_final`) in which the values of
`N` and of `L τ` at the relevant vectors enter as plain complex numbers.

 * `etd3Vec_local_error`  `≤ NL3.Cloc·h⁴`;  `etd3Vec_stable`;  `etd3Vec_global_error`  `≤ NL3.Cglob·dt³`.
-/
set_option linter.unusedVariables false
noncomputable section
namespace Exponax.LinearOrder
open Exponax Exponax.Spec Exponax.ContourTail Exponax.Gen.Etdrk

/-! ### per-mode lemmas -/

/-- stage `a` (per mode) -/
theorem etd3_stageA (c : NL3) (h : ℝ) (hM10 : 0 ≤ c.M1) (hM20 : 0 ≤ c.M2) (hG3 : 0 ≤ c.G3)
    (hΛ0 : 0 ≤ c.Lam) (hω : 0 ≤ c.ω) (hT : 0 ≤ c.T) (hh : 0 ≤ h) (hhT : h ≤ c.T)
    (u0 uh d1 Eh q1 q2 f0 : ℂ) (d_q2 : ‖q2 - 1 / 2‖ ≤ c.Lam * h * c.W / 12) (hd1M : ‖d1‖ ≤ c.M1)
    (nρa : ‖uh - (Eh * u0 + (h : ℂ) / 2 * q1 * f0 + ((h : ℂ) / 2) ^ 2 * q2 * d1)‖
      ≤ c.W * c.G2 * h ^ 3 / 48) :
    ‖(Eh * u0 + (h : ℂ) * (q1 / 2) * f0) - uh + ((h ^ 2 / 8 : ℝ) : ℂ) * d1‖ ≤ c.EA * h ^ 3 ∧
    ‖(Eh * u0 + (h : ℂ) * (q1 / 2) * f0) - uh‖ ≤ c.Ea2 * h ^ 2 := by
  have hW0 : 0 ≤ c.W := (Real.exp_pos _).le
  have hG20 : 0 ≤ c.G2 := by unfold NL3.G2; positivity
  have hEA0 : 0 ≤ c.EA := by unfold NL3.EA; positivity
  obtain ⟨ρa, hρa⟩ : ∃ ρ, ρ = uh - (Eh * u0 + (h : ℂ) / 2 * q1 * f0 + ((h : ℂ) / 2) ^ 2 * q2 * d1) :=
    ⟨_, rfl⟩
  rw [← hρa] at nρa
  obtain ⟨a, ha⟩ : ∃ a, a = Eh * u0 + (h : ℂ) * (q1 / 2) * f0 := ⟨_, rfl⟩
  rw [← ha]
  obtain ⟨εa, hεa⟩ : ∃ ε, ε = a - uh + ((h ^ 2 / 8 : ℝ) : ℂ) * d1 := ⟨_, rfl⟩
  rw [← hεa]
  have eεa : εa = -((h : ℂ) ^ 2 / 4 * (q2 - 1 / 2) * d1) - ρa := by
    rw [hεa, hρa, ha]; push_cast; ring
  have bh2 : ‖(h : ℂ) ^ 2 / 4‖ ≤ h ^ 2 / 4 := by
    rw [norm_div, norm_pow, Complex.norm_real, Real.norm_eq_abs, abs_of_nonneg hh]; simp
  have nεa : ‖εa‖ ≤ c.EA * h ^ 3 := by
    rw [eεa]
    have h1 : ‖(h : ℂ) ^ 2 / 4 * (q2 - 1 / 2) * d1‖ ≤ h ^ 2 / 4 * (c.Lam * h * c.W / 12) * c.M1 :=
      nrm_mul (nrm_mul bh2 d_q2 (by positivity)) hd1M (by positivity)
    have h2 : ‖-((h : ℂ) ^ 2 / 4 * (q2 - 1 / 2) * d1)‖ ≤ h ^ 2 / 4 * (c.Lam * h * c.W / 12) * c.M1 := by
      rwa [norm_neg]
    refine (nrm_sub h2 nρa).trans (le_of_eq ?_)
    unfold NL3.EA; ring
  refine ⟨nεa, ?_⟩
  have h3T : h ^ 3 ≤ c.T * h ^ 2 := by
    calc h ^ 3 = h * h ^ 2 := by ring
      _ ≤ c.T * h ^ 2 := mul_le_mul_of_nonneg_right hhT (sq_nonneg h)
  have e1 : a - uh = εa - ((h ^ 2 / 8 : ℝ) : ℂ) * d1 := by rw [hεa]; ring
  rw [e1]
  have h1 : ‖((h ^ 2 / 8 : ℝ) : ℂ) * d1‖ ≤ h ^ 2 / 8 * c.M1 :=
    nrm_mul (nrm_ofReal (by positivity) le_rfl) hd1M (by positivity)
  refine (nrm_sub nεa h1).trans ?_
  have : c.EA * h ^ 3 ≤ c.EA * (c.T * h ^ 2) := mul_le_mul_of_nonneg_left h3T hEA0
  unfold NL3.Ea2
  linarith

/-- stage `b` (per mode); `Na` is the mode of `N(a)`, `fh` of `N(u(t+h/2))` -/
theorem etd3_stageB (c : NL3) (h : ℝ) (hK0 : 0 ≤ c.K) (hM10 : 0 ≤ c.M1) (hM20 : 0 ≤ c.M2)
    (hG3 : 0 ≤ c.G3) (hΛ0 : 0 ≤ c.Lam) (hω : 0 ≤ c.ω) (hT : 0 ≤ c.T) (hh : 0 ≤ h) (hhT : h ≤ c.T)
    (u0 u1 d1 E p1 p2 f0 fh Na : ℂ) (bp1 : ‖p1‖ ≤ c.W)
    (d_p12 : ‖p1 - p2 - 1 / 2‖ ≤ c.Lam * h * (2 * c.W / 3)) (hd1M : ‖d1‖ ≤ c.M1)
    (nρb : ‖u1 - (E * u0 + (h : ℂ) * p1 * f0 + (h : ℂ) ^ 2 * p2 * d1)‖ ≤ c.W * c.G2 * h ^ 3 / 6)
    (nσh : ‖fh - f0 - (h : ℂ) / 2 * d1‖ ≤ c.G2 * h ^ 2 / 8)
    (nδa : ‖Na - fh‖ ≤ c.K * (c.Ea2 * h ^ 2)) :
    ‖(E * u0 + (h : ℂ) * p1 * (2 * Na - f0)) - u1 - ((h ^ 2 / 2 : ℝ) : ℂ) * d1‖ ≤ c.EB * h ^ 3 ∧
    ‖(E * u0 + (h : ℂ) * p1 * (2 * Na - f0)) - u1‖ ≤ c.Eb2 * h ^ 2 := by
  have hW0 : 0 ≤ c.W := (Real.exp_pos _).le
  have hG20 : 0 ≤ c.G2 := by unfold NL3.G2; positivity
  have hEA0 : 0 ≤ c.EA := by unfold NL3.EA; positivity
  have hEa20 : 0 ≤ c.Ea2 := by unfold NL3.Ea2; positivity
  have hEB0 : 0 ≤ c.EB := by unfold NL3.EB; positivity
  have b2 : ‖(2 : ℂ)‖ ≤ 2 := by simp
  obtain ⟨ρb, hρb⟩ : ∃ ρ, ρ = u1 - (E * u0 + (h : ℂ) * p1 * f0 + (h : ℂ) ^ 2 * p2 * d1) := ⟨_, rfl⟩
  obtain ⟨σh, hσh⟩ : ∃ σ, σ = fh - f0 - (h : ℂ) / 2 * d1 := ⟨_, rfl⟩
  obtain ⟨δa, hδa⟩ : ∃ δ, δ = Na - fh := ⟨_, rfl⟩
  rw [← hρb] at nρb
  rw [← hσh] at nσh
  rw [← hδa] at nδa
  obtain ⟨b, hb⟩ : ∃ b, b = E * u0 + (h : ℂ) * p1 * (2 * Na - f0) := ⟨_, rfl⟩
  rw [← hb]
  obtain ⟨εb, hεb⟩ : ∃ ε, ε = b - u1 - ((h ^ 2 / 2 : ℝ) : ℂ) * d1 := ⟨_, rfl⟩
  rw [← hεb]
  have eεb : εb = (h : ℂ) ^ 2 * (p1 - p2 - 1 / 2) * d1 + 2 * ((h : ℂ) * p1 * σh)
      + 2 * ((h : ℂ) * p1 * δa) - ρb := by
    rw [hεb, hρb, hb, hσh, hδa]; push_cast; ring
  have bhc : ‖(h : ℂ)‖ ≤ h := nrm_ofReal hh le_rfl
  have bh2' : ‖(h : ℂ) ^ 2‖ ≤ h ^ 2 := by
    rw [norm_pow, Complex.norm_real, Real.norm_eq_abs, abs_of_nonneg hh]
  have nεb : ‖εb‖ ≤ c.EB * h ^ 3 := by
    rw [eεb]
    have h1 : ‖(h : ℂ) ^ 2 * (p1 - p2 - 1 / 2) * d1‖ ≤ h ^ 2 * (c.Lam * h * (2 * c.W / 3)) * c.M1 :=
      nrm_mul (nrm_mul bh2' d_p12 (by positivity)) hd1M (by positivity)
    have h2 : ‖2 * ((h : ℂ) * p1 * σh)‖ ≤ 2 * (h * c.W * (c.G2 * h ^ 2 / 8)) :=
      nrm_mul b2 (nrm_mul (nrm_mul bhc bp1 hh) nσh (by positivity)) (by norm_num)
    have h3 : ‖2 * ((h : ℂ) * p1 * δa)‖ ≤ 2 * (h * c.W * (c.K * (c.Ea2 * h ^ 2))) :=
      nrm_mul b2 (nrm_mul (nrm_mul bhc bp1 hh) nδa (by positivity)) (by norm_num)
    refine (nrm_sub (nrm_add (nrm_add h1 h2) h3) nρb).trans (le_of_eq ?_)
    unfold NL3.EB; ring
  refine ⟨nεb, ?_⟩
  have h3T : h ^ 3 ≤ c.T * h ^ 2 := by
    calc h ^ 3 = h * h ^ 2 := by ring
      _ ≤ c.T * h ^ 2 := mul_le_mul_of_nonneg_right hhT (sq_nonneg h)
  have e1 : b - u1 = εb + ((h ^ 2 / 2 : ℝ) : ℂ) * d1 := by rw [hεb]; ring
  rw [e1]
  have h1 : ‖((h ^ 2 / 2 : ℝ) : ℂ) * d1‖ ≤ h ^ 2 / 2 * c.M1 :=
    nrm_mul (nrm_ofReal (by positivity) le_rfl) hd1M (by positivity)
  refine (nrm_add nεb h1).trans ?_
  have : c.EB * h ^ 3 ≤ c.EB * (c.T * h ^ 2) := mul_le_mul_of_nonneg_left h3T hEB0
  unfold NL3.Eb2
  linarith

/-- final stage (per mode): `Na, Nb` modes of `N(a), N(b)`; `A1, A2, B1, B2` modes of `L_a ε_a, L_a f₁, L_b ε_b,
    L_b f₁`; `qa, qb` the quadratic remainders -/
theorem etd3_final (c : NL3) (h : ℝ) (hK0 : 0 ≤ c.K) (hM10 : 0 ≤ c.M1) (hM20 : 0 ≤ c.M2)
    (hG3 : 0 ≤ c.G3) (hH : 0 ≤ c.H) (hHL : 0 ≤ c.HL) (hΛ0 : 0 ≤ c.Lam) (hω : 0 ≤ c.ω) (hT : 0 ≤ c.T)
    (hh : 0 ≤ h) (hhT : h ≤ c.T)
    (u0 u1 d1 d2 E p1 p2 p3 f0 fh fe Na Nb A1 A2 B1 B2 qa qb : ℂ)
    (d_gb : ‖(4 * p3 - p2) - (p2 - 2 * p3)‖ ≤ c.Lam * h * (7 * c.W / 12))
    (b4β : ‖4 * p2 - 8 * p3‖ ≤ 10 * c.W / 3) (bγ : ‖4 * p3 - p2‖ ≤ 7 * c.W / 6)
    (nρ3 : ‖u1 - (E * u0 + (h : ℂ) * p1 * f0 + (h : ℂ) ^ 2 * p2 * d1 + (h : ℂ) ^ 3 * p3 * d2)‖
      ≤ c.W * c.G3 * h ^ 4 / 24)
    (nτh : ‖fh - f0 - (h : ℂ) / 2 * d1 - ((h : ℂ) / 2) ^ 2 / 2 * d2‖ ≤ c.G3 * h ^ 3 / 48)
    (nτe : ‖fe - f0 - (h : ℂ) * d1 - (h : ℂ) ^ 2 / 2 * d2‖ ≤ c.G3 * h ^ 3 / 6)
    (e1 : Na = fh + (A1 + ((-(h ^ 2 / 8) : ℝ) : ℂ) * A2) + qa)
    (e2 : Nb = fe + (B1 + ((h ^ 2 / 2 : ℝ) : ℂ) * B2) + qb)
    (nA1 : ‖A1‖ ≤ c.K * (c.EA * h ^ 3)) (nB1 : ‖B1‖ ≤ c.K * (c.EB * h ^ 3))
    (nA2 : ‖A2‖ ≤ c.K * c.M1) (nBA : ‖B2 - A2‖ ≤ c.HL * (h / 2) * c.M1)
    (nqa : ‖qa‖ ≤ c.H / 2 * (c.Ea2 * h ^ 2) ^ 2) (nqb : ‖qb‖ ≤ c.H / 2 * (c.Eb2 * h ^ 2) ^ 2) :
    ‖u1 - (E * u0 + (h : ℂ) * (p1 - 3 * p2 + 4 * p3) * f0 + (h : ℂ) * (4 * p2 - 8 * p3) * Na
        + (h : ℂ) * (4 * p3 - p2) * Nb)‖ ≤ c.Cloc * h ^ 4 := by
  have hW0 : 0 ≤ c.W := (Real.exp_pos _).le
  have hG20 : 0 ≤ c.G2 := by unfold NL3.G2; positivity
  have hEA0 : 0 ≤ c.EA := by unfold NL3.EA; positivity
  have hEa20 : 0 ≤ c.Ea2 := by unfold NL3.Ea2; positivity
  have hEB0 : 0 ≤ c.EB := by unfold NL3.EB; positivity
  have hEb20 : 0 ≤ c.Eb2 := by unfold NL3.Eb2; positivity
  have bhc : ‖(h : ℂ)‖ ≤ h := nrm_ofReal hh le_rfl
  obtain ⟨ρ3, hρ3⟩ : ∃ ρ, ρ = u1 - (E * u0 + (h : ℂ) * p1 * f0 + (h : ℂ) ^ 2 * p2 * d1
      + (h : ℂ) ^ 3 * p3 * d2) := ⟨_, rfl⟩
  obtain ⟨τh, hτh⟩ : ∃ τ, τ = fh - f0 - (h : ℂ) / 2 * d1 - ((h : ℂ) / 2) ^ 2 / 2 * d2 := ⟨_, rfl⟩
  obtain ⟨τe, hτe⟩ : ∃ τ, τ = fe - f0 - (h : ℂ) * d1 - (h : ℂ) ^ 2 / 2 * d2 := ⟨_, rfl⟩
  rw [← hρ3] at nρ3
  rw [← hτh] at nτh
  rw [← hτe] at nτe
  have hid : u1 - (E * u0 + (h : ℂ) * (p1 - 3 * p2 + 4 * p3) * f0 + (h : ℂ) * (4 * p2 - 8 * p3) * Na
        + (h : ℂ) * (4 * p3 - p2) * Nb)
      = -((h : ℂ) * ((4 * p2 - 8 * p3) * τh + (4 * p3 - p2) * τe)
        + (h : ℂ) * ((4 * p2 - 8 * p3) * (A1 + qa) + (4 * p3 - p2) * (B1 + qb))
        + (h : ℂ) * ((h : ℂ) ^ 2 / 2 * ((4 * p3 - p2) * (B2 - A2)
            + ((4 * p3 - p2) - (p2 - 2 * p3)) * A2))
        - ρ3) := by
    rw [e1, e2, hτh, hτe, hρ3]
    push_cast
    ring
  rw [hid, norm_neg]
  have g1 : ‖(h : ℂ) * ((4 * p2 - 8 * p3) * τh + (4 * p3 - p2) * τe)‖
      ≤ h * ((10 * c.W / 3) * (c.G3 * h ^ 3 / 48) + (7 * c.W / 6) * (c.G3 * h ^ 3 / 6)) :=
    nrm_mul bhc (nrm_add (nrm_mul b4β nτh (by positivity)) (nrm_mul bγ nτe (by positivity))) hh
  have g2 : ‖(h : ℂ) * ((4 * p2 - 8 * p3) * (A1 + qa) + (4 * p3 - p2) * (B1 + qb))‖
      ≤ h * ((10 * c.W / 3) * (c.K * (c.EA * h ^ 3) + c.H / 2 * (c.Ea2 * h ^ 2) ^ 2)
          + (7 * c.W / 6) * (c.K * (c.EB * h ^ 3) + c.H / 2 * (c.Eb2 * h ^ 2) ^ 2)) :=
    nrm_mul bhc (nrm_add (nrm_mul b4β (nrm_add nA1 nqa) (by positivity))
      (nrm_mul bγ (nrm_add nB1 nqb) (by positivity))) hh
  have bh22 : ‖(h : ℂ) ^ 2 / 2‖ ≤ h ^ 2 / 2 := by
    rw [norm_div, norm_pow, Complex.norm_real, Real.norm_eq_abs, abs_of_nonneg hh]; simp
  have g3 : ‖(h : ℂ) * ((h : ℂ) ^ 2 / 2 * ((4 * p3 - p2) * (B2 - A2)
        + ((4 * p3 - p2) - (p2 - 2 * p3)) * A2))‖
      ≤ h * (h ^ 2 / 2 * ((7 * c.W / 6) * (c.HL * (h / 2) * c.M1)
          + c.Lam * h * (7 * c.W / 12) * (c.K * c.M1))) :=
    nrm_mul bhc (nrm_mul bh22 (nrm_add (nrm_mul bγ nBA (by positivity))
      (nrm_mul d_gb nA2 (by positivity))) (by positivity)) hh
  refine (nrm_sub (nrm_add (nrm_add g1 g2) g3) nρ3).trans ?_
  have hfin : h * ((10 * c.W / 3) * (c.G3 * h ^ 3 / 48) + (7 * c.W / 6) * (c.G3 * h ^ 3 / 6))
      + h * ((10 * c.W / 3) * (c.K * (c.EA * h ^ 3) + c.H / 2 * (c.Ea2 * h ^ 2) ^ 2)
          + (7 * c.W / 6) * (c.K * (c.EB * h ^ 3) + c.H / 2 * (c.Eb2 * h ^ 2) ^ 2))
      + h * (h ^ 2 / 2 * ((7 * c.W / 6) * (c.HL * (h / 2) * c.M1)
          + c.Lam * h * (7 * c.W / 12) * (c.K * c.M1)))
      + c.W * c.G3 * h ^ 4 / 24
      = ((10 * c.W / 3) * (c.G3 / 48) + (7 * c.W / 6) * (c.G3 / 6) + c.W * c.G3 / 24
          + (1 / 2) * ((7 * c.W / 6) * c.HL * c.M1 / 2 + c.Lam * (7 * c.W / 12) * c.K * c.M1)
          + (10 * c.W / 3) * (c.K * c.EA + c.H / 2 * c.Ea2 ^ 2 * h)
          + (7 * c.W / 6) * (c.K * c.EB + c.H / 2 * c.Eb2 ^ 2 * h)) * h ^ 4 := by ring
  rw [hfin]
  unfold NL3.Cloc
  gcongr

/-- the facts about the exact solution and about `f` used per mode: scalar `y' = l y + f`, third-order Taylor
    hypothesis on `f` -/
theorem etd3_exact_facts (l : ℂ) (ω T M2 G3 : ℝ) (hω : 0 ≤ ω) (hl : l.re ≤ ω) (hG3 : 0 ≤ G3)
    (y f g1 g2 : ℝ → ℂ) (hy : ∀ t ∈ Set.Icc (0 : ℝ) T, HasDerivAt y (l * y t + f t) t)
    (hfc : ContinuousOn f (Set.Icc (0 : ℝ) T)) (hM2 : ∀ t ∈ Set.Icc (0 : ℝ) T, ‖g2 t‖ ≤ M2)
    (hTay : ∀ t s : ℝ, 0 ≤ t → 0 ≤ s → t + s ≤ T →
      ‖f (t + s) - f t - (s : ℂ) * g1 t - (s : ℂ) ^ 2 / 2 * g2 t‖ ≤ G3 * s ^ 3 / 6)
    (t h : ℝ) (ht : 0 ≤ t) (hh : 0 ≤ h) (hth : t + h ≤ T) :
    ‖y (t + h / 2) - (Complex.exp (l * h / 2) * y t + (h : ℂ) / 2 * phi1e (l * h / 2) * f t
        + ((h : ℂ) / 2) ^ 2 * phi2e (l * h / 2) * g1 t)‖
      ≤ Real.exp (ω * T) * (M2 + G3 * T / 3) * h ^ 3 / 48 ∧
    ‖y (t + h) - (Complex.exp (l * h) * y t + (h : ℂ) * phi1e (l * h) * f t
        + (h : ℂ) ^ 2 * phi2e (l * h) * g1 t)‖ ≤ Real.exp (ω * T) * (M2 + G3 * T / 3) * h ^ 3 / 6 ∧
    ‖y (t + h) - (Complex.exp (l * h) * y t + (h : ℂ) * phi1e (l * h) * f t
        + (h : ℂ) ^ 2 * phi2e (l * h) * g1 t + (h : ℂ) ^ 3 * phi3e (l * h) * g2 t)‖
      ≤ Real.exp (ω * T) * G3 * h ^ 4 / 24 ∧
    ‖f (t + h / 2) - f t - (h : ℂ) / 2 * g1 t‖ ≤ (M2 + G3 * T / 3) * h ^ 2 / 8 ∧
    ‖f (t + h / 2) - f t - (h : ℂ) / 2 * g1 t - ((h : ℂ) / 2) ^ 2 / 2 * g2 t‖ ≤ G3 * h ^ 3 / 48 ∧
    ‖f (t + h) - f t - (h : ℂ) * g1 t - (h : ℂ) ^ 2 / 2 * g2 t‖ ≤ G3 * h ^ 3 / 6 := by
  have hT : 0 ≤ T := by linarith
  have hhT : h ≤ T := by linarith
  have tay2 := tay2_of_tay3 (fun x => x) f g1 g2 T M2 G3 hG3 hM2 hTay
  have hsub : ∀ k : ℝ, 0 ≤ k → t + k ≤ T → Set.Icc t (t + k) ⊆ Set.Icc (0 : ℝ) T :=
    fun k hk hkT s hs => ⟨ht.trans hs.1, hs.2.trans hkT⟩
  have hT2 : ∀ k : ℝ, 0 ≤ k → t + k ≤ T → ∀ s ∈ Set.Icc t (t + k),
      ‖f s - f t - ((s - t : ℝ) : ℂ) * g1 t‖ ≤ (M2 + G3 * T / 3) * (s - t) ^ 2 / 2 := by
    intro k hk hkT s hs
    have := tay2 t (s - t) ht (by linarith [hs.1]) (by linarith [hs.2])
    rwa [show t + (s - t) = s by ring] at this
  have Fa := etd2_defect l ω (M2 + G3 * T / 3) y f t (t + h / 2) (by linarith) hω hl
    (fun s hs => hy s (hsub (h / 2) (by linarith) (by linarith) hs))
    (hfc.mono (hsub (h / 2) (by linarith) (by linarith))) (g1 t)
    (hT2 (h / 2) (by linarith) (by linarith))
  rw [show t + h / 2 - t = h / 2 by ring] at Fa
  have ecast : l * ((h / 2 : ℝ) : ℂ) = l * h / 2 := by push_cast; ring
  have ecast' : ((h / 2 : ℝ) : ℂ) = (h : ℂ) / 2 := by push_cast; ring
  rw [ecast, ecast'] at Fa
  have Fb := etd2_defect l ω (M2 + G3 * T / 3) y f t (t + h) (by linarith) hω hl
    (fun s hs => hy s (hsub h hh hth hs)) (hfc.mono (hsub h hh hth)) (g1 t) (hT2 h hh hth)
  rw [show t + h - t = h by ring] at Fb
  have F3 := etd_defect3 l ω G3 y f t (t + h) (by linarith) hω hl
    (fun s hs => hy s (hsub h hh hth hs)) (hfc.mono (hsub h hh hth)) (g1 t) (g2 t)
    (fun s hs => by
      have := hTay t (s - t) ht (by linarith [hs.1]) (by linarith [hs.2])
      rwa [show t + (s - t) = s by ring] at this)
  rw [show t + h - t = h by ring] at F3
  have Tσ := tay2 t (h / 2) ht (by linarith) (by linarith)
  have Tτh := hTay t (h / 2) ht (by linarith) (by linarith)
  have Tτe := hTay t h ht hh hth
  rw [ecast'] at Tσ Tτh
  have hexpW : Real.exp (ω * h) ≤ Real.exp (ω * T) :=
    Real.exp_le_exp.mpr (mul_le_mul_of_nonneg_left hhT hω)
  have hexpW2 : Real.exp (ω * (h / 2)) ≤ Real.exp (ω * T) :=
    Real.exp_le_exp.mpr (mul_le_mul_of_nonneg_left (by linarith) hω)
  have hG20 : 0 ≤ M2 + G3 * T / 3 := by
    have : 0 ≤ M2 := (norm_nonneg _).trans (hM2 0 ⟨le_rfl, hT⟩)
    positivity
  refine ⟨?_, ?_, ?_, ?_, ?_, Tτe⟩
  · refine Fa.trans ?_
    calc Real.exp (ω * (h / 2)) * (M2 + G3 * T / 3) * (h / 2) ^ 3 / 6
        ≤ Real.exp (ω * T) * (M2 + G3 * T / 3) * (h / 2) ^ 3 / 6 := by gcongr
      _ = Real.exp (ω * T) * (M2 + G3 * T / 3) * h ^ 3 / 48 := by ring
  · refine Fb.trans ?_
    gcongr
  · refine F3.trans ?_
    gcongr
  · refine Tσ.trans (le_of_eq ?_); ring
  · refine Tτh.trans (le_of_eq ?_); ring

/-! ### the vector step -/

variable {ι : Type} [Fintype ι]

/-- the ETDRK3 step on vectors: the regenerated `E3step` with per-mode exact coefficients -/
def etd3Vec (l : ι → ℂ) (N : (ι → ℂ) → (ι → ℂ)) (dt : ℝ) : (ι → ℂ) → (ι → ℂ) :=
  E3step (fun k => Complex.exp (l k * dt)) (fun k => Complex.exp (l k * dt / 2))
    (fun k => dt * (phi1e (l k * dt / 2) / 2)) (fun k => dt * phi1e (l k * dt))
    (fun k => dt * (phi1e (l k * dt) - 3 * phi2e (l k * dt) + 4 * phi3e (l k * dt)))
    (fun k => dt * (4 * phi2e (l k * dt) - 8 * phi3e (l k * dt)))
    (fun k => dt * (4 * phi3e (l k * dt) - phi2e (l k * dt))) N

/-- first stage -/
def etd3VecA (l : ι → ℂ) (N : (ι → ℂ) → (ι → ℂ)) (dt : ℝ) (x : ι → ℂ) : ι → ℂ :=
  fun k => Complex.exp (l k * dt / 2) * x k + dt * (phi1e (l k * dt / 2) / 2) * N x k
/-- second stage -/
def etd3VecB (l : ι → ℂ) (N : (ι → ℂ) → (ι → ℂ)) (dt : ℝ) (x : ι → ℂ) : ι → ℂ :=
  fun k => Complex.exp (l k * dt) * x k
    + dt * phi1e (l k * dt) * (2 * N (etd3VecA l N dt x) k - N x k)

omit [Fintype ι] in
theorem etd3Vec_apply (l : ι → ℂ) (N : (ι → ℂ) → (ι → ℂ)) (dt : ℝ) (x : ι → ℂ) (k : ι) :
    etd3Vec l N dt x k = Complex.exp (l k * dt) * x k
      + dt * (phi1e (l k * dt) - 3 * phi2e (l k * dt) + 4 * phi3e (l k * dt)) * N x k
      + dt * (4 * phi2e (l k * dt) - 8 * phi3e (l k * dt)) * N (etd3VecA l N dt x) k
      + dt * (4 * phi3e (l k * dt) - phi2e (l k * dt)) * N (etd3VecB l N dt x) k := by
  have hA : (fun k => Complex.exp (l k * dt / 2)) * x
      + (fun k => (dt : ℂ) * (phi1e (l k * dt / 2) / 2)) * N x = etd3VecA l N dt x := rfl
  have hB : (fun k => Complex.exp (l k * dt)) * x + (fun k => (dt : ℂ) * phi1e (l k * dt))
      * (lit 2 * N (etd3VecA l N dt x) - N x) = etd3VecB l N dt x := by
    funext j; simp [etd3VecB, lit]
  simp only [etd3Vec, E3step, hA, hB, Pi.add_apply, Pi.mul_apply]

omit [Fintype ι] in
/-- `L` of a vector plus a real multiple -/
theorem lin_real_vec (L : (ι → ℂ) →ₗ[ℝ] (ι → ℂ)) (x d : ι → ℂ) (r : ℝ) :
    L (x + r • d) = L x + r • L d := by rw [map_add, map_smul]

/-- **T8 for systems, ETDRK3: local error `O(h⁴)`** -/
theorem etd3Vec_local_error (l : ι → ℂ) (N : (ι → ℂ) → (ι → ℂ)) (K : NNReal)
    (hN : LipschitzWith K N) (u : ℝ → (ι → ℂ)) (T ω M1 M2 G3 H HL : ℝ) (hω : 0 ≤ ω)
    (hl : ∀ k, (l k).re ≤ ω) (hG3 : 0 ≤ G3) (hH : 0 ≤ H) (hHL : 0 ≤ HL)
    (hu : ∀ t ∈ Set.Icc (0 : ℝ) T, HasDerivAt u (l * u t + N (u t)) t)
    (f1 f2 : ℝ → (ι → ℂ)) (hM1 : ∀ t ∈ Set.Icc (0 : ℝ) T, ‖f1 t‖ ≤ M1)
    (hM2 : ∀ t ∈ Set.Icc (0 : ℝ) T, ‖f2 t‖ ≤ M2)
    (hTay : ∀ t s : ℝ, 0 ≤ t → 0 ≤ s → t + s ≤ T →
      ‖N (u (t + s)) - N (u t) - (s : ℂ) • f1 t - ((s : ℂ) ^ 2 / 2) • f2 t‖ ≤ G3 * s ^ 3 / 6)
    (L : ℝ → (ι → ℂ) →ₗ[ℝ] (ι → ℂ))
    (hLK : ∀ τ ∈ Set.Icc (0 : ℝ) T, ∀ v, ‖L τ v‖ ≤ K * ‖v‖)
    (hLin : ∀ τ ∈ Set.Icc (0 : ℝ) T, ∀ y, ‖N y - N (u τ) - L τ (y - u τ)‖ ≤ H / 2 * ‖y - u τ‖ ^ 2)
    (hLlip : ∀ τ ∈ Set.Icc (0 : ℝ) T, ∀ τ' ∈ Set.Icc (0 : ℝ) T, ∀ v,
      ‖L τ v - L τ' v‖ ≤ HL * |τ - τ'| * ‖v‖)
    (t h : ℝ) (ht : 0 ≤ t) (hh : 0 ≤ h) (hth : t + h ≤ T) :
    ‖u (t + h) - etd3Vec l N h (u t)‖ ≤ NL3.Cloc ⟨K, M1, M2, G3, H, HL, ‖l‖, ω, T⟩ * h ^ 4 := by
  have hT : 0 ≤ T := by linarith
  have hhT : h ≤ T := by linarith
  have h0mem : (0 : ℝ) ∈ Set.Icc (0 : ℝ) T := ⟨le_rfl, hT⟩
  have htmem : t ∈ Set.Icc (0 : ℝ) T := ⟨ht, by linarith⟩
  have hthmem : t + h / 2 ∈ Set.Icc (0 : ℝ) T := ⟨by linarith, by linarith⟩
  have ht1mem : t + h ∈ Set.Icc (0 : ℝ) T := ⟨by linarith, hth⟩
  have hM10 : 0 ≤ M1 := (norm_nonneg _).trans (hM1 0 h0mem)
  have hM20 : 0 ≤ M2 := (norm_nonneg _).trans (hM2 0 h0mem)
  have hK0 : (0 : ℝ) ≤ K := K.coe_nonneg
  set c : NL3 := ⟨K, M1, M2, G3, H, HL, ‖l‖, ω, T⟩ with hc
  have cK : c.K = K := rfl
  have cM1 : c.M1 = M1 := rfl
  have cW : c.W = Real.exp (ω * T) := rfl
  have cG2 : c.G2 = M2 + G3 * T / 3 := rfl
  have hW0 : 0 ≤ c.W := (Real.exp_pos _).le
  have hG20 : 0 ≤ c.G2 := by rw [cG2]; positivity
  have hΛ0 : 0 ≤ c.Lam := norm_nonneg l
  have hEA0 : 0 ≤ c.EA := by unfold NL3.EA; positivity
  have hEa20 : 0 ≤ c.Ea2 := by unfold NL3.Ea2; positivity
  have hEB0 : 0 ≤ c.EB := by unfold NL3.EB; positivity
  have hEb20 : 0 ≤ c.Eb2 := by unfold NL3.Eb2; positivity
  have hlk : ∀ k, ‖l k‖ ≤ c.Lam := fun k => norm_le_pi_norm l k
  have hlip : ∀ x y, ‖N x - N y‖ ≤ K * ‖x - y‖ := fun x y => by
    have := hN.dist_le_mul x y; rwa [dist_eq_norm, dist_eq_norm] at this
  -- per-mode facts about the exact solution
  have hucont : ContinuousOn u (Set.Icc (0 : ℝ) T) := fun s hs =>
    (hu s hs).continuousAt.continuousWithinAt
  have hNu : ContinuousOn (fun s => N (u s)) (Set.Icc (0 : ℝ) T) :=
    hN.continuous.comp_continuousOn hucont
  have facts : ∀ k, _ := fun k => etd3_exact_facts (l k) ω T M2 G3 hω (hl k) hG3 (fun s => u s k)
    (fun s => N (u s) k) (fun s => f1 s k) (fun s => f2 s k)
    (fun s hs => hasDerivAt_pi.mp (hu s hs) k) ((continuous_apply k).comp_continuousOn hNu)
    (fun s hs => (norm_le_pi_norm (f2 s) k).trans (hM2 s hs))
    (fun t s ht hs hts => by
      have := (norm_le_pi_norm _ k).trans (hTay t s ht hs hts)
      simpa [Pi.sub_apply, Pi.smul_apply, smul_eq_mul] using this) t h ht hh hth
  have hd1k : ∀ k, ‖f1 t k‖ ≤ c.M1 := fun k => (norm_le_pi_norm (f1 t) k).trans (hM1 t htmem)
  have mono12 : ∀ k, ‖l k‖ * h * Real.exp (ω * T) / 12 ≤ c.Lam * h * c.W / 12 := by
    intro k; rw [cW]; have := hlk k; gcongr
  have mono23 : ∀ k, ‖l k‖ * h * (2 * Real.exp (ω * T) / 3) ≤ c.Lam * h * (2 * c.W / 3) := by
    intro k; rw [cW]; have := hlk k; gcongr
  have mono712 : ∀ k, ‖l k‖ * h * (7 * Real.exp (ω * T) / 12) ≤ c.Lam * h * (7 * c.W / 12) := by
    intro k; rw [cW]; have := hlk k; gcongr
  -- names
  set u0 := u t with hu0
  set uh := u (t + h / 2) with huh
  set u1 := u (t + h) with hu1
  set d1 := f1 t with hd1
  set d2 := f2 t with hd2
  set a := etd3VecA l N h u0 with ha
  set b := etd3VecB l N h u0 with hb
  set La := L (t + h / 2) with hLa
  set Lb := L (t + h) with hLb
  -- stage a
  set εa : ι → ℂ := a - uh + (h ^ 2 / 8 : ℝ) • d1 with hεa
  have stA : ∀ k, ‖εa k‖ ≤ c.EA * h ^ 3 ∧ ‖(a - uh) k‖ ≤ c.Ea2 * h ^ 2 := by
    intro k
    obtain ⟨d_q2, d_p12, d_gb, b4β, bγ, bα⟩ := etd3_phi_diffs (l k) ω h T hω (hl k) hh hhT
    have := etd3_stageA c h hM10 hM20 hG3 hΛ0 hω hT hh hhT (u0 k) (uh k) (d1 k) _ _ _ (N u0 k)
      (d_q2.trans (mono12 k)) (hd1k k) (facts k).1
    simpa [hεa, ha, etd3VecA, Pi.add_apply, Pi.sub_apply, Pi.smul_apply, Complex.real_smul] using this
  have nεa : ‖εa‖ ≤ c.EA * h ^ 3 :=
    (pi_norm_le_iff_of_nonneg (by positivity)).mpr (fun k => (stA k).1)
  have nea : ‖a - uh‖ ≤ c.Ea2 * h ^ 2 :=
    (pi_norm_le_iff_of_nonneg (by positivity)).mpr (fun k => (stA k).2)
  have nδa : ‖N a - N uh‖ ≤ c.K * (c.Ea2 * h ^ 2) :=
    (hlip a uh).trans (mul_le_mul_of_nonneg_left nea hK0)
  -- stage b
  set εb : ι → ℂ := b - u1 - (h ^ 2 / 2 : ℝ) • d1 with hεb
  have stB : ∀ k, ‖εb k‖ ≤ c.EB * h ^ 3 ∧ ‖(b - u1) k‖ ≤ c.Eb2 * h ^ 2 := by
    intro k
    obtain ⟨bp1, bp2, bp3, bp4, bq1, bq2, bq3, bE, bEh⟩ := etd_phi_bounds (l k) ω h T hω (hl k) hh hhT
    obtain ⟨d_q2, d_p12, d_gb, b4β, bγ, bα⟩ := etd3_phi_diffs (l k) ω h T hω (hl k) hh hhT
    have := etd3_stageB c h hK0 hM10 hM20 hG3 hΛ0 hω hT hh hhT (u0 k) (u1 k) (d1 k) _ _ _ (N u0 k)
      (N uh k) (N a k) bp1 (d_p12.trans (mono23 k)) (hd1k k) (facts k).2.1 (facts k).2.2.2.1
      ((norm_le_pi_norm (N a - N uh) k).trans nδa)
    simpa [hεb, hb, etd3VecB, Pi.add_apply, Pi.sub_apply, Pi.smul_apply, Complex.real_smul] using this
  have nεb : ‖εb‖ ≤ c.EB * h ^ 3 :=
    (pi_norm_le_iff_of_nonneg (by positivity)).mpr (fun k => (stB k).1)
  have neb : ‖b - u1‖ ≤ c.Eb2 * h ^ 2 :=
    (pi_norm_le_iff_of_nonneg (by positivity)).mpr (fun k => (stB k).2)
  -- linearisation
  set qa : ι → ℂ := N a - N uh - La (a - uh) with hqa
  set qb : ι → ℂ := N b - N u1 - Lb (b - u1) with hqb
  have nqa : ‖qa‖ ≤ c.H / 2 * (c.Ea2 * h ^ 2) ^ 2 := by
    refine (hLin (t + h / 2) hthmem a).trans ?_
    have : (0 : ℝ) ≤ c.H := hH
    show H / 2 * ‖a - uh‖ ^ 2 ≤ _
    gcongr
  have nqb : ‖qb‖ ≤ c.H / 2 * (c.Eb2 * h ^ 2) ^ 2 := by
    refine (hLin (t + h) ht1mem b).trans ?_
    show H / 2 * ‖b - u1‖ ^ 2 ≤ _
    gcongr
  have eLa : La (a - uh) = La εa + (-(h ^ 2 / 8) : ℝ) • La d1 := by
    rw [← lin_real_vec]; congr 1; rw [hεa]; module
  have eLb : Lb (b - u1) = Lb εb + (h ^ 2 / 2 : ℝ) • Lb d1 := by
    rw [← lin_real_vec]; congr 1; rw [hεb]; module
  have hd1M : ‖d1‖ ≤ c.M1 := hM1 t htmem
  have nA1 : ‖La εa‖ ≤ c.K * (c.EA * h ^ 3) :=
    (hLK _ hthmem εa).trans (mul_le_mul_of_nonneg_left nεa hK0)
  have nB1 : ‖Lb εb‖ ≤ c.K * (c.EB * h ^ 3) :=
    (hLK _ ht1mem εb).trans (mul_le_mul_of_nonneg_left nεb hK0)
  have nA2 : ‖La d1‖ ≤ c.K * c.M1 := (hLK _ hthmem d1).trans (mul_le_mul_of_nonneg_left hd1M hK0)
  have nBA : ‖Lb d1 - La d1‖ ≤ c.HL * (h / 2) * c.M1 := by
    have := hLlip (t + h) ht1mem (t + h / 2) hthmem d1
    rw [show t + h - (t + h / 2) = h / 2 by ring, abs_of_nonneg (by linarith)] at this
    exact this.trans (mul_le_mul_of_nonneg_left hd1M (by positivity))
  have e1 : N a = N uh + (La εa + (-(h ^ 2 / 8) : ℝ) • La d1) + qa := by rw [hqa, eLa]; abel
  have e2 : N b = N u1 + (Lb εb + (h ^ 2 / 2 : ℝ) • Lb d1) + qb := by rw [hqb, eLb]; abel
  -- final stage, per mode
  have hCl0 : 0 ≤ c.Cloc * h ^ 4 := by
    have : 0 ≤ c.Cloc := by
      have h4 : 0 ≤ c.H := hH
      have h5 : 0 ≤ c.HL := hHL
      have h3 : 0 ≤ c.G3 := hG3
      have h7 : 0 ≤ c.T := hT
      have h1 : 0 ≤ c.K := hK0
      have h2 : 0 ≤ c.M1 := hM10
      unfold NL3.Cloc; positivity
    positivity
  refine (pi_norm_le_iff_of_nonneg hCl0).mpr (fun k => ?_)
  obtain ⟨d_q2, d_p12, d_gb, b4β, bγ, bα⟩ := etd3_phi_diffs (l k) ω h T hω (hl k) hh hhT
  have e1k := congrFun e1 k
  have e2k := congrFun e2 k
  simp only [Pi.add_apply, Pi.smul_apply, Complex.real_smul] at e1k e2k
  have := etd3_final c h hK0 hM10 hM20 hG3 hH hHL hΛ0 hω hT hh hhT (u0 k) (u1 k) (d1 k) (d2 k) _ _ _ _
    (N u0 k) (N uh k) (N u1 k) (N a k) (N b k) (La εa k) (La d1 k) (Lb εb k) (Lb d1 k) (qa k) (qb k)
    (d_gb.trans (mono712 k)) b4β bγ (facts k).2.2.1 (facts k).2.2.2.2.1 (facts k).2.2.2.2.2 e1k e2k
    ((norm_le_pi_norm _ k).trans nA1) ((norm_le_pi_norm _ k).trans nB1)
    ((norm_le_pi_norm _ k).trans nA2) ((norm_le_pi_norm (Lb d1 - La d1) k).trans nBA)
    ((norm_le_pi_norm _ k).trans nqa) ((norm_le_pi_norm _ k).trans nqb)
  rw [Pi.sub_apply, etd3Vec_apply]
  exact this


/-- **T8 for systems, ETDRK3: stability** (`0 ≤ dt ≤ T`) -/
theorem etd3Vec_stable (l : ι → ℂ) (N : (ι → ℂ) → (ι → ℂ)) (K : NNReal) (hN : LipschitzWith K N)
    (ω T dt : ℝ) (hω : 0 ≤ ω) (hl : ∀ k, (l k).re ≤ ω) (hdt : 0 ≤ dt) (hdtT : dt ≤ T) (x y : ι → ℂ) :
    ‖etd3Vec l N dt x - etd3Vec l N dt y‖ ≤ (Real.exp (ω * dt) + dt * etd3Θ K ω T) * ‖x - y‖ := by
  have hT : 0 ≤ T := hdt.trans hdtT
  have hK0 : (0 : ℝ) ≤ K := K.coe_nonneg
  set W := Real.exp (ω * T) with hW
  have hW0 : 0 ≤ W := (Real.exp_pos _).le
  have hlip : ∀ x y, ‖N x - N y‖ ≤ K * ‖x - y‖ := fun x y => by
    have := hN.dist_le_mul x y; rwa [dist_eq_norm, dist_eq_norm] at this
  set δ := ‖x - y‖ with hδ
  have hδ0 : 0 ≤ δ := norm_nonneg _
  have bdt : ‖(dt : ℂ)‖ ≤ dt := nrm_ofReal hdt le_rfl
  have b2 : ‖(2 : ℂ)‖ ≤ 2 := by simp
  have hAa0 : 0 ≤ etd3Aa K ω T := by unfold etd3Aa; positivity
  have hAb0 : 0 ≤ etd3Ab K ω T := by unfold etd3Ab; positivity
  have hΘ0 : 0 ≤ etd3Θ K ω T := by unfold etd3Θ; positivity
  have hxy : ∀ k, ‖x k - y k‖ ≤ δ := fun k => norm_le_pi_norm (x - y) k
  have hNxy : ∀ k, ‖N x k - N y k‖ ≤ K * δ := fun k => (norm_le_pi_norm (N x - N y) k).trans (hlip x y)
  -- stage a
  have na : ‖etd3VecA l N dt x - etd3VecA l N dt y‖ ≤ etd3Aa K ω T * δ := by
    refine (pi_norm_le_iff_of_nonneg (by positivity)).mpr (fun k => ?_)
    obtain ⟨bp1, bp2, bp3, bp4, bq1, bq2, bq3, bE, bEh⟩ := etd_phi_bounds (l k) ω dt T hω (hl k) hdt hdtT
    have bq1h : ‖phi1e (l k * dt / 2) / 2‖ ≤ W / 2 := by
      rw [norm_div]; simpa using div_le_div_of_nonneg_right bq1 (by norm_num : (0 : ℝ) ≤ 2)
    have e : (etd3VecA l N dt x - etd3VecA l N dt y) k = Complex.exp (l k * dt / 2) * (x k - y k)
        + (dt : ℂ) * (phi1e (l k * dt / 2) / 2) * (N x k - N y k) := by
      simp only [Pi.sub_apply, etd3VecA]; ring
    rw [e]
    refine (nrm_add (nrm_mul bEh (hxy k) hW0) (nrm_mul (nrm_mul bdt bq1h hdt) (hNxy k)
      (by positivity))).trans ?_
    unfold etd3Aa
    have : dt * (W / 2) * (K * δ) ≤ T * (W / 2) * (K * δ) := by gcongr
    calc W * δ + dt * (W / 2) * (K * δ) ≤ W * δ + T * (W / 2) * (K * δ) := by linarith
      _ = W * (1 + K * T / 2) * δ := by ring
  have nNa : ∀ k, ‖N (etd3VecA l N dt x) k - N (etd3VecA l N dt y) k‖ ≤ K * (etd3Aa K ω T * δ) :=
    fun k => (norm_le_pi_norm (N (etd3VecA l N dt x) - N (etd3VecA l N dt y)) k).trans
      ((hlip _ _).trans (mul_le_mul_of_nonneg_left na hK0))
  -- stage b
  have nb : ‖etd3VecB l N dt x - etd3VecB l N dt y‖ ≤ etd3Ab K ω T * δ := by
    refine (pi_norm_le_iff_of_nonneg (by positivity)).mpr (fun k => ?_)
    obtain ⟨bp1, bp2, bp3, bp4, bq1, bq2, bq3, bE, bEh⟩ := etd_phi_bounds (l k) ω dt T hω (hl k) hdt hdtT
    have e : (etd3VecB l N dt x - etd3VecB l N dt y) k = Complex.exp (l k * dt) * (x k - y k)
        + (dt : ℂ) * phi1e (l k * dt) * (2 * (N (etd3VecA l N dt x) k - N (etd3VecA l N dt y) k)
          - (N x k - N y k)) := by
      simp only [Pi.sub_apply, etd3VecB]; ring
    rw [e]
    refine (nrm_add (nrm_mul bE (hxy k) hW0) (nrm_mul (nrm_mul bdt bp1 hdt)
      (nrm_sub (nrm_mul b2 (nNa k) (by norm_num)) (hNxy k)) (by positivity))).trans ?_
    unfold etd3Ab
    have : dt * W * (2 * (K * (etd3Aa K ω T * δ)) + K * δ)
        ≤ T * W * (2 * (K * (etd3Aa K ω T * δ)) + K * δ) := by gcongr
    calc W * δ + dt * W * (2 * (K * (etd3Aa K ω T * δ)) + K * δ)
        ≤ W * δ + T * W * (2 * (K * (etd3Aa K ω T * δ)) + K * δ) := by linarith
      _ = W * (1 + T * K * (2 * etd3Aa K ω T + 1)) * δ := by ring
  have nNb : ∀ k, ‖N (etd3VecB l N dt x) k - N (etd3VecB l N dt y) k‖ ≤ K * (etd3Ab K ω T * δ) :=
    fun k => (norm_le_pi_norm (N (etd3VecB l N dt x) - N (etd3VecB l N dt y)) k).trans
      ((hlip _ _).trans (mul_le_mul_of_nonneg_left nb hK0))
  -- final stage
  refine (pi_norm_le_iff_of_nonneg (by positivity)).mpr (fun k => ?_)
  obtain ⟨bp1, bp2, bp3, bp4, bq1, bq2, bq3, bE, bEh⟩ := etd_phi_bounds (l k) ω dt T hω (hl k) hdt hdtT
  obtain ⟨d_q2, d_p12, d_gb, b4β, bγ, bα⟩ := etd3_phi_diffs (l k) ω dt T hω (hl k) hdt hdtT
  have bE' : ‖Complex.exp (l k * dt)‖ ≤ Real.exp (ω * dt) := by
    rw [Complex.norm_exp, Complex.re_mul_ofReal]
    exact Real.exp_le_exp.mpr (mul_le_mul_of_nonneg_right (hl k) hdt)
  have e : (etd3Vec l N dt x - etd3Vec l N dt y) k = Complex.exp (l k * dt) * (x k - y k)
      + (dt : ℂ) * ((phi1e (l k * dt) - 3 * phi2e (l k * dt) + 4 * phi3e (l k * dt)) * (N x k - N y k)
        + (4 * phi2e (l k * dt) - 8 * phi3e (l k * dt))
          * (N (etd3VecA l N dt x) k - N (etd3VecA l N dt y) k)
        + (4 * phi3e (l k * dt) - phi2e (l k * dt))
          * (N (etd3VecB l N dt x) k - N (etd3VecB l N dt y) k)) := by
    rw [Pi.sub_apply, etd3Vec_apply, etd3Vec_apply]; ring
  rw [e]
  refine (nrm_add (nrm_mul bE' (hxy k) (Real.exp_pos _).le) (nrm_mul bdt
    (nrm_add (nrm_add (nrm_mul bα (hNxy k) (by positivity)) (nrm_mul b4β (nNa k) (by positivity)))
      (nrm_mul bγ (nNb k) (by positivity))) hdt)).trans (le_of_eq ?_)
  unfold etd3Θ
  ring

/-- **T8 for systems, ETDRK3: global error `O(dt³)`** -/
theorem etd3Vec_global_error (l : ι → ℂ) (N : (ι → ℂ) → (ι → ℂ)) (K : NNReal)
    (hN : LipschitzWith K N) (u : ℝ → (ι → ℂ)) (T ω M1 M2 G3 H HL : ℝ) (hω : 0 ≤ ω)
    (hl : ∀ k, (l k).re ≤ ω) (hG3 : 0 ≤ G3) (hH : 0 ≤ H) (hHL : 0 ≤ HL)
    (hu : ∀ t ∈ Set.Icc (0 : ℝ) T, HasDerivAt u (l * u t + N (u t)) t)
    (f1 f2 : ℝ → (ι → ℂ)) (hM1 : ∀ t ∈ Set.Icc (0 : ℝ) T, ‖f1 t‖ ≤ M1)
    (hM2 : ∀ t ∈ Set.Icc (0 : ℝ) T, ‖f2 t‖ ≤ M2)
    (hTay : ∀ t s : ℝ, 0 ≤ t → 0 ≤ s → t + s ≤ T →
      ‖N (u (t + s)) - N (u t) - (s : ℂ) • f1 t - ((s : ℂ) ^ 2 / 2) • f2 t‖ ≤ G3 * s ^ 3 / 6)
    (L : ℝ → (ι → ℂ) →ₗ[ℝ] (ι → ℂ))
    (hLK : ∀ τ ∈ Set.Icc (0 : ℝ) T, ∀ v, ‖L τ v‖ ≤ K * ‖v‖)
    (hLin : ∀ τ ∈ Set.Icc (0 : ℝ) T, ∀ y, ‖N y - N (u τ) - L τ (y - u τ)‖ ≤ H / 2 * ‖y - u τ‖ ^ 2)
    (hLlip : ∀ τ ∈ Set.Icc (0 : ℝ) T, ∀ τ' ∈ Set.Icc (0 : ℝ) T, ∀ v,
      ‖L τ v - L τ' v‖ ≤ HL * |τ - τ'| * ‖v‖)
    (n : ℕ) (dt : ℝ) (hdt : 0 ≤ dt) (hn : n * dt ≤ T) :
    ‖u (n * dt) - (etd3Vec l N dt)^[n] (u 0)‖
      ≤ NL3.Cglob ⟨K, M1, M2, G3, H, HL, ‖l‖, ω, T⟩ * dt ^ 3 := by
  have hT : 0 ≤ T := le_trans (mul_nonneg (Nat.cast_nonneg n) hdt) hn
  have h0mem : (0 : ℝ) ∈ Set.Icc (0 : ℝ) T := ⟨le_rfl, hT⟩
  have hM10 : 0 ≤ M1 := (norm_nonneg _).trans (hM1 0 h0mem)
  have hM20 : 0 ≤ M2 := (norm_nonneg _).trans (hM2 0 h0mem)
  have hK0 : (0 : ℝ) ≤ K := K.coe_nonneg
  set c : NL3 := ⟨K, M1, M2, G3, H, HL, ‖l‖, ω, T⟩ with hc
  have hCl0 : 0 ≤ c.Cloc := by
    have hW0 : 0 ≤ c.W := (Real.exp_pos _).le
    have h1 : (0 : ℝ) ≤ c.K := hK0
    have h2 : 0 ≤ c.M1 := hM10
    have h2' : 0 ≤ c.M2 := hM20
    have h3 : 0 ≤ c.G3 := hG3
    have h4 : 0 ≤ c.H := hH
    have h5 : 0 ≤ c.HL := hHL
    have h6 : 0 ≤ c.Lam := norm_nonneg l
    have h7 : 0 ≤ c.T := hT
    have hG20 : 0 ≤ c.G2 := by unfold NL3.G2; positivity
    have hEA0 : 0 ≤ c.EA := by unfold NL3.EA; positivity
    have hEa20 : 0 ≤ c.Ea2 := by unfold NL3.Ea2; positivity
    have hEB0 : 0 ≤ c.EB := by unfold NL3.EB; positivity
    have hEb20 : 0 ≤ c.Eb2 := by unfold NL3.Eb2; positivity
    unfold NL3.Cloc; positivity
  have hΘ0 : 0 ≤ etd3Θ K ω T := by unfold etd3Θ etd3Ab etd3Aa; positivity
  rcases Nat.eq_zero_or_pos n with rfl | hnpos
  · simp only [Nat.cast_zero, zero_mul, Function.iterate_zero, id_eq, sub_self, norm_zero]
    unfold NL3.Cglob; positivity
  have hn1 : (1 : ℝ) ≤ n := by exact_mod_cast hnpos
  have hdtT : dt ≤ T := le_trans (by nlinarith) hn
  have hA1 : 1 ≤ Real.exp (ω * dt) + dt * etd3Θ K ω T := by
    have := Real.one_le_exp (mul_nonneg hω hdt)
    have := mul_nonneg hdt hΘ0
    linarith
  have hB0 : 0 ≤ c.Cloc * dt ^ 4 := by positivity
  have hfan := fan (etd3Vec l N dt) (fun k : ℕ => u (k * dt)) _ _ hA1 hB0 n
    (fun k hk => by
      have hk1 : ((k + 1 : ℕ) : ℝ) * dt ≤ T := by
        have : ((k + 1 : ℕ) : ℝ) ≤ n := by exact_mod_cast hk
        exact (mul_le_mul_of_nonneg_right this hdt).trans hn
      have hkt : ((k + 1 : ℕ) : ℝ) * dt = k * dt + dt := by push_cast; ring
      have hkdt : 0 ≤ (k : ℝ) * dt := mul_nonneg (Nat.cast_nonneg k) hdt
      have hloc := etd3Vec_local_error l N K hN u T ω M1 M2 G3 H HL hω hl hG3 hH hHL hu f1 f2 hM1 hM2 hTay
        L hLK hLin hLlip (k * dt) dt hkdt hdt (by rw [← hkt]; exact hk1)
      simp only [hkt]
      exact hloc)
    (fun x y => etd3Vec_stable l N K hN ω T dt hω hl hdt hdtT x y)
  simp only [Nat.cast_zero, zero_mul] at hfan
  refine hfan.trans ?_
  have hAexp : Real.exp (ω * dt) + dt * etd3Θ K ω T ≤ Real.exp ((ω + etd3Θ K ω T) * dt) := by
    have h1 : 1 ≤ Real.exp (ω * dt) := Real.one_le_exp (mul_nonneg hω hdt)
    have h2 : 1 + dt * etd3Θ K ω T ≤ Real.exp (etd3Θ K ω T * dt) := by
      have := Real.add_one_le_exp (etd3Θ K ω T * dt); linarith
    have h3 : 0 ≤ dt * etd3Θ K ω T := mul_nonneg hdt hΘ0
    calc Real.exp (ω * dt) + dt * etd3Θ K ω T
        ≤ Real.exp (ω * dt) * (1 + dt * etd3Θ K ω T) := by nlinarith
      _ ≤ Real.exp (ω * dt) * Real.exp (etd3Θ K ω T * dt) :=
          mul_le_mul_of_nonneg_left h2 (Real.exp_pos _).le
      _ = Real.exp ((ω + etd3Θ K ω T) * dt) := by rw [← Real.exp_add]; congr 1; ring
  have hAn : (Real.exp (ω * dt) + dt * etd3Θ K ω T) ^ n ≤ Real.exp ((ω + etd3Θ K ω T) * T) := by
    calc (Real.exp (ω * dt) + dt * etd3Θ K ω T) ^ n ≤ Real.exp ((ω + etd3Θ K ω T) * dt) ^ n :=
          pow_le_pow_left₀ (by linarith) hAexp n
      _ = Real.exp (n * ((ω + etd3Θ K ω T) * dt)) := by rw [Real.exp_nat_mul]
      _ ≤ Real.exp ((ω + etd3Θ K ω T) * T) := by
          refine Real.exp_le_exp.mpr ?_
          calc (n : ℝ) * ((ω + etd3Θ K ω T) * dt) = (ω + etd3Θ K ω T) * (n * dt) := by ring
            _ ≤ (ω + etd3Θ K ω T) * T := mul_le_mul_of_nonneg_left hn (by positivity)
  calc (n : ℝ) * (c.Cloc * dt ^ 4) * (Real.exp (ω * dt) + dt * etd3Θ K ω T) ^ n
      = (n * dt) * (c.Cloc * dt ^ 3) * (Real.exp (ω * dt) + dt * etd3Θ K ω T) ^ n := by ring
    _ ≤ T * (c.Cloc * dt ^ 3) * Real.exp ((ω + etd3Θ K ω T) * T) := by gcongr
    _ = NL3.Cglob c * dt ^ 3 := by
        have : NL3.Cglob c = T * c.Cloc * Real.exp ((ω + etd3Θ K ω T) * T) := rfl
        rw [this]; ring


/-! ### non-vacuity: two modes `l = (−1, −100)`, `N v = i·v` (`L τ v = i·v`, `H = HL = 0`), `u_k = e^{(l_k+i)t}` -/
example : ∃ (l : Fin 2 → ℂ) (N : (Fin 2 → ℂ) → (Fin 2 → ℂ)) (K : NNReal) (u f1 f2 : ℝ → (Fin 2 → ℂ))
    (L : ℝ → (Fin 2 → ℂ) →ₗ[ℝ] (Fin 2 → ℂ)) (T ω M1 M2 G3 H HL : ℝ), LipschitzWith K N ∧ 0 ≤ ω ∧
    (∀ k, (l k).re ≤ ω) ∧ 0 ≤ G3 ∧ 0 ≤ H ∧ 0 ≤ HL ∧ 0 < T ∧
    (∀ t ∈ Set.Icc (0 : ℝ) T, HasDerivAt u (l * u t + N (u t)) t) ∧
    (∀ t ∈ Set.Icc (0 : ℝ) T, ‖f1 t‖ ≤ M1) ∧ (∀ t ∈ Set.Icc (0 : ℝ) T, ‖f2 t‖ ≤ M2) ∧
    (∀ t s : ℝ, 0 ≤ t → 0 ≤ s → t + s ≤ T →
      ‖N (u (t + s)) - N (u t) - (s : ℂ) • f1 t - ((s : ℂ) ^ 2 / 2) • f2 t‖ ≤ G3 * s ^ 3 / 6) ∧
    (∀ τ ∈ Set.Icc (0 : ℝ) T, ∀ v, ‖L τ v‖ ≤ K * ‖v‖) ∧
    (∀ τ ∈ Set.Icc (0 : ℝ) T, ∀ y, ‖N y - N (u τ) - L τ (y - u τ)‖ ≤ H / 2 * ‖y - u τ‖ ^ 2) ∧
    (∀ τ ∈ Set.Icc (0 : ℝ) T, ∀ τ' ∈ Set.Icc (0 : ℝ) T, ∀ v,
      ‖L τ v - L τ' v‖ ≤ HL * |τ - τ'| * ‖v‖) := by
  set c : Fin 2 → ℂ := fun k => ![-1, -100] k + Complex.I with hc
  have hcn : ∀ k, ‖c k‖ ≤ 101 := by
    intro k
    refine (norm_add_le _ _).trans ?_
    fin_cases k <;> simp <;> norm_num
  have hexp : ∀ k (t : ℝ), 0 ≤ t → ‖Complex.exp (c k * t)‖ ≤ 1 := by
    intro k t ht
    rw [Complex.norm_exp, Real.exp_le_one_iff]
    fin_cases k <;> simp [hc] <;> nlinarith
  have hder : ∀ k (t : ℝ),
      HasDerivAt (fun t : ℝ => Complex.exp (c k * t)) (c k * Complex.exp (c k * t)) t :=
    fun k t => (hasDerivAt_exp_mul (c k) t).congr_deriv (by ring)
  have hIv : ∀ v : Fin 2 → ℂ, ‖(fun k => Complex.I * v k)‖ ≤ ‖v‖ := by
    intro v
    refine (pi_norm_le_iff_of_nonneg (norm_nonneg _)).mpr (fun k => ?_)
    rw [norm_mul, Complex.norm_I, one_mul]; exact norm_le_pi_norm v k
  refine ⟨![-1, -100], fun v => fun k => Complex.I * v k, 1, fun t => fun k => Complex.exp (c k * t),
    fun t => fun k => Complex.I * (c k * Complex.exp (c k * t)),
    fun t => fun k => Complex.I * (c k * (c k * Complex.exp (c k * t))),
    fun _ => LinearMap.mulLeft ℝ (fun _ => Complex.I : Fin 2 → ℂ), 1, 0, 101, 101 ^ 2, 101 ^ 3, 0, 0,
    ?_, le_rfl, ?_, by norm_num, le_rfl, le_rfl, one_pos, ?_, ?_, ?_, ?_, ?_, ?_, ?_⟩
  · refine LipschitzWith.of_dist_le_mul (fun x y => ?_)
    rw [dist_eq_norm, dist_eq_norm, NNReal.coe_one, one_mul]
    have : ((fun k => Complex.I * x k) - fun k => Complex.I * y k) = fun k => Complex.I * (x - y) k := by
      funext k; simp only [Pi.sub_apply]; ring
    rw [this]; exact hIv _
  · intro k; fin_cases k <;> simp
  · intro t _
    refine hasDerivAt_pi.mpr (fun k => ?_)
    refine (hder k t).congr_deriv ?_
    simp only [Pi.add_apply, Pi.mul_apply, hc]
    ring
  · intro t ht
    refine (pi_norm_le_iff_of_nonneg (by norm_num)).mpr (fun k => ?_)
    rw [norm_mul, norm_mul, Complex.norm_I, one_mul]
    calc ‖c k‖ * ‖Complex.exp (c k * t)‖ ≤ 101 * 1 := by
          gcongr
          · exact hcn k
          · exact hexp k t ht.1
      _ = 101 := by ring
  · intro t ht
    refine (pi_norm_le_iff_of_nonneg (by norm_num)).mpr (fun k => ?_)
    rw [norm_mul, norm_mul, norm_mul, Complex.norm_I, one_mul]
    calc ‖c k‖ * (‖c k‖ * ‖Complex.exp (c k * t)‖) ≤ 101 * (101 * 1) := by
          gcongr
          · exact hcn k
          · exact hcn k
          · exact hexp k t ht.1
      _ = 101 ^ 2 := by norm_num
  · intro t s ht hs hts
    refine (pi_norm_le_iff_of_nonneg (by positivity)).mpr (fun k => ?_)
    have hf : ∀ x ∈ Set.Icc (0 : ℝ) 1,
        HasDerivAt (fun x : ℝ => Complex.I * Complex.exp (c k * x))
          (Complex.I * (c k * Complex.exp (c k * x))) x := fun x _ => (hder k x).const_mul _
    have hf1 : ∀ x ∈ Set.Icc (0 : ℝ) 1,
        HasDerivAt (fun x : ℝ => Complex.I * (c k * Complex.exp (c k * x)))
          (Complex.I * (c k * (c k * Complex.exp (c k * x)))) x :=
      fun x _ => ((hder k x).const_mul _).const_mul _
    have hf2 : ∀ x : ℝ, HasDerivAt (fun x : ℝ => Complex.I * (c k * (c k * Complex.exp (c k * x))))
        (Complex.I * (c k * (c k * (c k * Complex.exp (c k * x))))) x :=
      fun x => (((hder k x).const_mul _).const_mul _).const_mul _
    have hbd : ∀ x ∈ Set.Icc (0 : ℝ) 1,
        ‖Complex.I * (c k * (c k * (c k * Complex.exp (c k * x))))‖ ≤ 101 ^ 3 := by
      intro x hx
      rw [norm_mul, norm_mul, norm_mul, norm_mul, Complex.norm_I, one_mul]
      calc ‖c k‖ * (‖c k‖ * (‖c k‖ * ‖Complex.exp (c k * x)‖)) ≤ 101 * (101 * (101 * 1)) := by
            gcongr
            · exact hcn k
            · exact hcn k
            · exact hcn k
            · exact hexp k x hx.1
        _ = 101 ^ 3 := by norm_num
    have hLip : ∀ x ∈ Set.Icc (0 : ℝ) 1, ∀ y ∈ Set.Icc (0 : ℝ) 1,
        ‖Complex.I * (c k * (c k * Complex.exp (c k * x)))
            - Complex.I * (c k * (c k * Complex.exp (c k * y)))‖ ≤ 101 ^ 3 * |x - y| := by
      intro x hx y hy
      have := Convex.norm_image_sub_le_of_norm_hasDerivWithin_le
        (f := fun x : ℝ => Complex.I * (c k * (c k * Complex.exp (c k * x))))
        (f' := fun x : ℝ => Complex.I * (c k * (c k * (c k * Complex.exp (c k * x)))))
        (s := Set.Icc (0 : ℝ) 1)
        (fun z _ => (hf2 z).hasDerivWithinAt) hbd (convex_Icc 0 1) hy hx
      simpa [Real.norm_eq_abs] using this
    have := taylor2_of_lipschitz_deriv (fun x : ℝ => Complex.I * Complex.exp (c k * x))
      (fun x : ℝ => Complex.I * (c k * Complex.exp (c k * x)))
      (fun x : ℝ => Complex.I * (c k * (c k * Complex.exp (c k * x)))) 1 (101 ^ 3) hf hf1 hLip t s ht hs
      hts
    simpa [Pi.sub_apply, Pi.smul_apply, smul_eq_mul] using this
  · intro τ _ v
    rw [NNReal.coe_one, one_mul]
    have : LinearMap.mulLeft ℝ (fun _ => Complex.I : Fin 2 → ℂ) v = fun k => Complex.I * v k := by
      funext k; simp [LinearMap.mulLeft_apply]
    rw [this]; exact hIv v
  · intro τ _ y
    have : (fun k => Complex.I * y k) - (fun k => Complex.I * Complex.exp (c k * τ))
        - LinearMap.mulLeft ℝ (fun _ => Complex.I : Fin 2 → ℂ) (y - fun k => Complex.exp (c k * τ)) = 0 := by
      funext k; simp [LinearMap.mulLeft_apply]; ring
    rw [this]; simp
  · intro τ _ τ' _ v
    simp


end Exponax.LinearOrder
end
