import ExponaxModel.Proofs.AliasNDConv
import ExponaxModel.Proofs.MeanMode
/-
C03 in general dimension `D ≥ 1`, part 3: N1 about the MODEL transform `rfftnM`.

  * layout of the stored wavenumber vector `kvec D N h` (leading axes `fftfreq` of the digits of
    `h / (N/2+1)`, last axis `h % (N/2+1)`),
  * every integer wavenumber vector is congruent (mod `N`) to `± kvec h` for a stored mode `h`,
  * `StoredBandLimited` (hypothesis on the stored half spectrum of a REAL field) ⇒ `BandLimitedV`,
  * **N1** `rfftn_mul_no_alias`, `rfftn_mul3_no_alias` (+ the `Σ_{p+q=k}` form).
-/
namespace Exponax.AliasND
open Exponax Exponax.Layout Exponax.Transform Exponax.DFT Finset

/-! ### layout of the stored wavenumber vector -/

theorem kvec_leading (E N h : ℕ) (hh : h < numModes (E + 1) N) (d : Fin (E + 1)) (hd : (d : ℕ) < E) :
    kvec (E + 1) N h d = fftfreq N (digit E N (h / (N / 2 + 1)) d) := by
  have hh' := hh
  rw [numModes_succ] at hh'
  show (wnFlat (E + 1) N h).getD (d : ℕ) 0 = _
  rw [wnFlat_getD _ _ _ _ d.2]
  simp only [wn, if_neg (show ¬ (d : ℕ) + 1 = E + 1 by omega), wavenumberShape_succ]
  rw [unflatten_rep_getD_lt N _ E h d hd hh']
  congr 2
  rw [Nat.div_div_eq_div_mul, mul_comm]

theorem kvec_last (E N h : ℕ) (hh : h < numModes (E + 1) N) (d : Fin (E + 1)) (hd : (d : ℕ) = E) :
    kvec (E + 1) N h d = ((h % (N / 2 + 1) : ℕ) : ℤ) := by
  have hh' := hh
  rw [numModes_succ] at hh'
  show (wnFlat (E + 1) N h).getD (d : ℕ) 0 = _
  rw [wnFlat_getD _ _ _ _ d.2]
  simp only [wn, hd, if_true, rfftfreq, wavenumberShape_succ]
  rw [unflatten_rep_getD_last N _ E h hh']

/-- every stored wavenumber component satisfies `|k_d| ≤ N/2` -/
theorem kvec_abs_le (D N h : ℕ) (hD : 0 < D) (hN : 0 < N) (hh : h < numModes D N) (d : Fin D) :
    |kvec D N h d| ≤ ((N / 2 : ℕ) : ℤ) := by
  show |(wnFlat D N h).getD (d : ℕ) 0| ≤ _
  rw [wnFlat_getD _ _ _ _ d.2]
  exact wnFlat_abs_le D N h hD hN hh d d.2

/-- the stored mode `0` is the zero wavenumber vector -/
theorem kvec_zero (D N : ℕ) : kvec D N 0 = 0 := by
  funext d
  exact wnFlat_zero D N d

theorem kvec_eq_zero_iff (D N h : ℕ) (hD : 0 < D) (hN : 0 < N) (hh : h < numModes D N) :
    kvec D N h = 0 ↔ h = 0 := by
  rw [← wnFlat_eq_zero_iff D N h hD hN hh]
  constructor
  · intro hk d hd
    exact congrFun hk ⟨d, hd⟩
  · intro hk
    funext d
    exact hk d d.2

/-! ### every wavenumber vector is `±` a stored one modulo `N` -/

theorem exists_full_rep (N : ℕ) (hN : 0 < N) (x : ℤ) : ∃ p : ℕ, p < N ∧ (N : ℤ) ∣ (p : ℤ) - x := by
  have hNz : (N : ℤ) ≠ 0 := by exact_mod_cast hN.ne'
  have h0 : 0 ≤ x % (N : ℤ) := Int.emod_nonneg _ hNz
  have h1 : x % (N : ℤ) < N := Int.emod_lt_of_pos _ (by exact_mod_cast hN)
  refine ⟨(x % (N : ℤ)).toNat, by omega, ?_⟩
  rw [Int.toNat_of_nonneg h0]
  exact ⟨-(x / (N : ℤ)), by linarith [Int.emod_add_mul_ediv x (N : ℤ)]⟩

theorem exists_half_rep (N : ℕ) (hN : 0 < N) (x : ℤ) :
    ∃ l : ℕ, l ≤ N / 2 ∧ ((N : ℤ) ∣ (l : ℤ) - x ∨ (N : ℤ) ∣ (l : ℤ) + x) := by
  obtain ⟨p, hp, hd⟩ := exists_full_rep N hN x
  rcases Nat.lt_or_ge (N / 2) p with h | h
  · refine ⟨N - p, by omega, Or.inr ?_⟩
    have : ((N - p : ℕ) : ℤ) + x = (N : ℤ) - ((p : ℤ) - x) := by
      rw [Nat.cast_sub (by omega)]; ring
    rw [this]
    exact Dvd.dvd.sub (dvd_refl _) hd
  · exact ⟨p, h, Or.inl hd⟩

/-- a stored mode with prescribed residues, the last one in the stored half `[0, N/2]` -/
theorem exists_stored_of_last (E N : ℕ) (hN : 0 < N) (b : Fin (E + 1) → ℤ) (l : ℕ) (hl : l ≤ N / 2)
    (hlast : (N : ℤ) ∣ (l : ℤ) - b (Fin.last E)) :
    ∃ h, h < numModes (E + 1) N ∧ VCongr (E + 1) N (kvec (E + 1) N h) b := by
  have hp : ∀ d : ℕ, ∃ p : ℕ, p < N ∧ ∀ hd : d < E + 1, (N : ℤ) ∣ (p : ℤ) - b ⟨d, hd⟩ := by
    intro d
    by_cases hd : d < E + 1
    · obtain ⟨p, hp, hdv⟩ := exists_full_rep N hN (b ⟨d, hd⟩)
      exact ⟨p, hp, fun _ => hdv⟩
    · exact ⟨0, hN, fun h => absurd h hd⟩
  choose p hpN hpd using hp
  obtain ⟨A, hA, hAd⟩ := exists_digits N hN E p (fun d _ => hpN d)
  have hn : 0 < N / 2 + 1 := by omega
  have hdiv : (A * (N / 2 + 1) + l) / (N / 2 + 1) = A := by
    rw [Nat.add_comm, Nat.add_mul_div_right _ _ hn, Nat.div_eq_of_lt (by omega), zero_add]
  have hmod : (A * (N / 2 + 1) + l) % (N / 2 + 1) = l := by
    rw [Nat.add_comm, Nat.add_mul_mod_self_right, Nat.mod_eq_of_lt (by omega)]
  have hlt : A * (N / 2 + 1) + l < numModes (E + 1) N := by
    rw [numModes_succ]
    calc A * (N / 2 + 1) + l < A * (N / 2 + 1) + (N / 2 + 1) := by omega
      _ = (A + 1) * (N / 2 + 1) := by ring
      _ ≤ N ^ E * (N / 2 + 1) := Nat.mul_le_mul_right _ hA
  refine ⟨A * (N / 2 + 1) + l, hlt, ?_⟩
  intro d
  rcases Nat.lt_or_ge (d : ℕ) E with hd | hd
  · rw [kvec_leading E N _ hlt d hd, hdiv, hAd d hd]
    have h1 := Int.modEq_iff_dvd.mp (fftfreq_modEq N (p d)).symm
    have h2 := hpd d d.2
    have : fftfreq N (p d) - b d = (fftfreq N (p d) - (p d : ℤ)) + ((p d : ℤ) - b d) := by ring
    rw [this]
    exact Dvd.dvd.add h1 h2
  · have hdE : (d : ℕ) = E := by omega
    rw [kvec_last E N _ hlt d hdE, hmod]
    have : d = Fin.last E := Fin.ext hdE
    rw [this]
    exact hlast

/-- **every integer wavenumber vector is congruent to `± kvec h` for a stored mode `h`** -/
theorem exists_stored_congr (D N : ℕ) (hD : 0 < D) (hN : 0 < N) (a : Fin D → ℤ) :
    ∃ h, h < numModes D N ∧ (VCongr D N (kvec D N h) a ∨ VCongr D N (kvec D N h) (-a)) := by
  obtain ⟨E, rfl⟩ : ∃ E, D = E + 1 := ⟨D - 1, by omega⟩
  obtain ⟨l, hl, hd | hd⟩ := exists_half_rep N hN (a (Fin.last E))
  · obtain ⟨h, hh, hc⟩ := exists_stored_of_last E N hN a l hl hd
    exact ⟨h, hh, Or.inl hc⟩
  · obtain ⟨h, hh, hc⟩ := exists_stored_of_last E N hN (-a) l hl (by
      rw [Pi.neg_apply, sub_neg_eq_add]; exact hd)
    exact ⟨h, hh, Or.inr hc⟩

/-! ### band-limitedness from the stored half spectrum of a real field -/

/-- the stored half spectrum vanishes at every stored mode with some `|k_d| > K` -/
def StoredBandLimited (D N : ℕ) (K : ℤ) (u : Array ℂ) : Prop :=
  ∀ h, h < numModes D N → (∃ d, K < |kvec D N h d|) → (rfftnM D N u).getD h 0 = 0

/-- for a REAL field the condition on the stored half spectrum gives the condition on the full
    spectrum (conjugate symmetry supplies the other half) -/
theorem bandLimitedV_of_stored (D N : ℕ) (hD : 0 < D) (hN : 0 < N) (K : ℤ) (u : Array ℂ)
    (hu : IsRealND D N u) (hs : StoredBandLimited D N K u) : BandLimitedV D N K u := by
  intro a ha
  obtain ⟨h, hh, hc⟩ := exists_stored_congr D N hD hN a
  have hex : ∃ d, K < |kvec D N h d| := by
    by_contra hno'
    have hno : ∀ d, |kvec D N h d| ≤ K := fun d => not_lt.mp (fun hlt => hno' ⟨d, hlt⟩)
    apply ha
    rcases hc with hc | hc
    · exact ⟨kvec D N h, hno, hc.symm⟩
    · refine ⟨-kvec D N h, fun d => by rw [Pi.neg_apply, abs_neg]; exact hno d, ?_⟩
      have := hc.neg.symm
      rwa [neg_neg] at this
  have hz : dftV D N u (kvec D N h) = 0 := by
    rw [← rfftn_eq_dftV D N hN u h hh]; exact hs h hh hex
  rcases hc with hc | hc
  · rw [← dftV_of_congr u hc, hz]
  · have h1 : dftV D N u (-a) = 0 := by rw [← dftV_of_congr u hc, hz]
    have h2 := conj_dftV D N u hu a
    rw [h1] at h2
    exact (map_eq_zero (starRingEnd ℂ)).mp h2

/-- conversely the full-spectrum condition gives the stored one (`K + N/2 < N`, i.e. `2K < N`) -/
theorem stored_of_bandLimitedV (D N : ℕ) (hD : 0 < D) (hN : 0 < N) (K : ℤ) (hK : 2 * K < (N : ℤ))
    (u : Array ℂ) (hb : BandLimitedV D N K u) : StoredBandLimited D N K u := by
  intro h hh hex
  rw [rfftn_eq_dftV D N hN u h hh]
  apply hb
  apply not_congr_box K ((N / 2 : ℕ) : ℤ) (by omega) (kvec D N h)
  · intro hall
    obtain ⟨d, hd⟩ := hex
    exact absurd (hall d) (not_le.mpr hd)
  · exact kvec_abs_le D N h hD hN hh

/-! ### N1 about `rfftnM` -/

/-- **N1 (quadratic, 2/3-rule situation `3K < N`).**  `f`, `g` REAL grid fields whose stored half
    spectra vanish at every stored mode with some `|k_d| > K`.  Then at every stored mode `h` whose
    wavenumber vector lies in the box, the stored coefficient of the pointwise product is
    `N^{-D}` times the LINEAR (non-circular) convolution over the box of the full spectra
    `F = dftV f`, `G = dftV g` (truncated, not periodised): no aliased contribution. -/
theorem rfftn_mul_no_alias (D N : ℕ) (hD : 0 < D) (hN : 0 < N) (K : ℤ) (hK : 3 * K < (N : ℤ))
    (f g : Array ℂ) (hf : IsRealND D N f) (hg : IsRealND D N g)
    (hbf : StoredBandLimited D N K f) (hbg : StoredBandLimited D N K g)
    (h : ℕ) (hh : h < numModes D N) (hk : ∀ d, |kvec D N h d| ≤ K) :
    (rfftnM D N (tab (N ^ D) fun j => f.getD j 0 * g.getD j 0)).getD h 0
      = (1 / ((N ^ D : ℕ) : ℂ)) * ∑ p ∈ box D K,
          truncV K (dftV D N f) p * truncV K (dftV D N g) (kvec D N h - p) := by
  rw [rfftn_eq_dftV D N hN _ h hh]
  exact dftV_mul_no_alias' D N hN K hK f g (bandLimitedV_of_stored D N hD hN K f hf hbf)
    (bandLimitedV_of_stored D N hD hN K g hg hbg) _ hk

/-- N1 with the right-hand side written literally as `Σ_{p+q=k(h), |p_d|,|q_d| ≤ K} F(p) G(q)` -/
theorem rfftn_mul_no_alias_pairs (D N : ℕ) (hD : 0 < D) (hN : 0 < N) (K : ℤ) (hK : 3 * K < (N : ℤ))
    (f g : Array ℂ) (hf : IsRealND D N f) (hg : IsRealND D N g)
    (hbf : StoredBandLimited D N K f) (hbg : StoredBandLimited D N K g)
    (h : ℕ) (hh : h < numModes D N) (hk : ∀ d, |kvec D N h d| ≤ K) :
    (rfftnM D N (tab (N ^ D) fun j => f.getD j 0 * g.getD j 0)).getD h 0
      = (1 / ((N ^ D : ℕ) : ℂ)) *
          ∑ pq ∈ (box D K ×ˢ box D K).filter (fun pq => pq.1 + pq.2 = kvec D N h),
            dftV D N f pq.1 * dftV D N g pq.2 := by
  rw [rfftn_mul_no_alias D N hD hN K hK f g hf hg hbf hbg h hh hk, sum_box_trunc_eq_pairs]

/-- **N1 (cubic, 1/2-rule situation `4K < N`).** -/
theorem rfftn_mul3_no_alias (D N : ℕ) (hD : 0 < D) (hN : 0 < N) (K : ℤ) (hK : 4 * K < (N : ℤ))
    (f g w : Array ℂ) (hf : IsRealND D N f) (hg : IsRealND D N g) (hw : IsRealND D N w)
    (hbf : StoredBandLimited D N K f) (hbg : StoredBandLimited D N K g)
    (hbw : StoredBandLimited D N K w)
    (h : ℕ) (hh : h < numModes D N) (hk : ∀ d, |kvec D N h d| ≤ K) :
    (rfftnM D N (tab (N ^ D) fun j => f.getD j 0 * g.getD j 0 * w.getD j 0)).getD h 0
      = (1 / ((N ^ D : ℕ) : ℂ)) ^ 2 * ∑ a ∈ box D K, ∑ b ∈ box D K,
          truncV K (dftV D N f) a * truncV K (dftV D N g) b
            * truncV K (dftV D N w) (kvec D N h - a - b) := by
  rw [rfftn_eq_dftV D N hN _ h hh]
  exact dftV_mul3_no_alias' D N hN K hK f g w (bandLimitedV_of_stored D N hD hN K f hf hbf)
    (bandLimitedV_of_stored D N hD hN K g hg hbg) (bandLimitedV_of_stored D N hD hN K w hw hbw) _ hk

/-- the full spectrum of a real field at an arbitrary wavenumber vector is determined by the stored
    half spectrum: it is the stored coefficient of a congruent stored mode, or its conjugate -/
theorem dftV_eq_stored (D N : ℕ) (hD : 0 < D) (hN : 0 < N) (u : Array ℂ) (hu : IsRealND D N u)
    (a : Fin D → ℤ) :
    ∃ h, h < numModes D N ∧
      (dftV D N u a = (rfftnM D N u).getD h 0 ∨ dftV D N u a = (starRingEnd ℂ) ((rfftnM D N u).getD h 0)) := by
  obtain ⟨h, hh, hc | hc⟩ := exists_stored_congr D N hD hN a
  · exact ⟨h, hh, Or.inl (by rw [rfftn_eq_dftV D N hN u h hh, dftV_of_congr u hc])⟩
  · refine ⟨h, hh, Or.inr ?_⟩
    rw [rfftn_eq_dftV D N hN u h hh, dftV_of_congr u hc, conj_dftV D N u hu, neg_neg]

end Exponax.AliasND
