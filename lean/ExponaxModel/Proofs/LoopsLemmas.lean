import Mathlib.Tactic
import Mathlib.Logic.Function.Iterate
import ExponaxModel.Model.Loops
/-
Theorems about the code-mirror of `rollout`, `repeat`, `stack_sub_trajectories`
and `RepeatedStepper` (`ExponaxModel/Model/Loops.lean`).  Nothing here restates
a model definition; every statement is about the definitions of the model file.
-/
namespace Exponax.Loops

variable {S A : Type}

/-! ### U1 — `scanStates` -/

/-- closed form of the scan: the list of the `n` successive iterates -/
theorem scanStates_eq_map (f : S → S) (n : ℕ) (u : S) :
    scanStates f n u = (List.range n).map (fun i => f^[i + 1] u) := by
  induction n generalizing u with
  | zero => rfl
  | succ n ih =>
    rw [scanStates, List.range_succ_eq_map, List.map_cons, List.map_map]
    simp only [ih, Function.iterate_succ, Function.comp_apply, Function.iterate_zero, id_eq]
    rfl

@[simp] theorem scanStates_length (f : S → S) (n : ℕ) (u : S) :
    (scanStates f n u).length = n := by
  simp [scanStates_eq_map]

theorem scanStates_getElem (f : S → S) (n : ℕ) (u : S) (i : ℕ)
    (h : i < (scanStates f n u).length) :
    (scanStates f n u)[i] = f^[i + 1] u := by
  simp [scanStates_eq_map]

theorem scanStates_getElem? (f : S → S) (n : ℕ) (u : S) (i : ℕ) (h : i < n) :
    (scanStates f n u)[i]? = some (f^[i + 1] u) := by
  simp [scanStates_eq_map, h]

/-! ### U2 — `rollout` -/

theorem rollout_false (f : S → S) (n : ℕ) (u0 : S) :
    rollout f n false u0 = (List.range n).map (fun i => f^[i + 1] u0) := by
  simp [rollout, scanStates_eq_map]

theorem rollout_true (f : S → S) (n : ℕ) (u0 : S) :
    rollout f n true u0 = (List.range (n + 1)).map (fun i => f^[i] u0) := by
  simp only [rollout, if_true, scanStates_eq_map]
  rw [List.range_succ_eq_map, List.map_cons, List.map_map]
  rfl

theorem rollout_false_length (f : S → S) (n : ℕ) (u0 : S) :
    (rollout f n false u0).length = n := by
  simp [rollout_false]

theorem rollout_true_length (f : S → S) (n : ℕ) (u0 : S) :
    (rollout f n true u0).length = n + 1 := by
  simp [rollout_true]

theorem rollout_length (f : S → S) (n : ℕ) (b : Bool) (u0 : S) :
    (rollout f n b u0).length = if b then n + 1 else n := by
  cases b
  · simp [rollout_false_length]
  · simp [rollout_true_length]

theorem rollout_false_getElem? (f : S → S) (n : ℕ) (u0 : S) (i : ℕ) (h : i < n) :
    (rollout f n false u0)[i]? = some (f^[i + 1] u0) := by
  simp [rollout_false, h]

theorem rollout_true_getElem? (f : S → S) (n : ℕ) (u0 : S) (i : ℕ) (h : i ≤ n) :
    (rollout f n true u0)[i]? = some (f^[i] u0) := by
  have : i < n + 1 := by omega
  rw [rollout_true, List.getElem?_map, List.getElem?_range this]
  rfl

/-- with `include_init` the trajectory is the initial state followed by the one without -/
theorem rollout_true_eq_cons (f : S → S) (n : ℕ) (u0 : S) :
    rollout f n true u0 = u0 :: rollout f n false u0 := by
  simp [rollout]

/-! ### U3 — `repeatN` -/

theorem repeatN_eq_iterate (f : S → S) (n : ℕ) (u : S) : repeatN f n u = f^[n] u := by
  induction n generalizing u with
  | zero => rfl
  | succ n ih => rw [repeatN, ih, Function.iterate_succ, Function.comp_apply]

/-- `repeat(f, n)(u)` is the last entry of `rollout(f, n)(u)` -/
theorem repeatN_eq_rollout_getLast? (f : S → S) (n : ℕ) (hn : 0 < n) (u : S) :
    (rollout f n false u).getLast? = some (repeatN f n u) := by
  obtain ⟨m, rfl⟩ : ∃ m, n = m + 1 := ⟨n - 1, by omega⟩
  rw [rollout_false, repeatN_eq_iterate, List.range_succ, List.map_append]
  simp

/-- the same with `include_init = True` (there also for `n = 0`) -/
theorem repeatN_eq_rollout_true_getLast? (f : S → S) (n : ℕ) (u : S) :
    (rollout f n true u).getLast? = some (repeatN f n u) := by
  rw [rollout_true, repeatN_eq_iterate, List.range_succ, List.map_append]
  simp

theorem repeatN_eq_rollout_getLast (f : S → S) (n : ℕ) (hn : 0 < n) (u : S)
    (hne : rollout f n false u ≠ []) :
    (rollout f n false u).getLast hne = repeatN f n u := by
  have h := repeatN_eq_rollout_getLast? f n hn u
  rw [List.getLast?_eq_some_getLast hne] at h
  exact Option.some.inj h

theorem repeatN_add (f : S → S) (m n : ℕ) :
    repeatN f (m + n) = repeatN f n ∘ repeatN f m := by
  funext u
  simp only [Function.comp_apply, repeatN_eq_iterate]
  rw [Nat.add_comm, Function.iterate_add_apply]

theorem repeatN_add_apply (f : S → S) (m n : ℕ) (u : S) :
    repeatN f (m + n) u = repeatN f n (repeatN f m u) := by
  rw [repeatN_add]; rfl

/-! ### U4 — the variants with auxiliary input -/

theorem scanStatesAux_replicate (f : S → A → S) (a : A) (n : ℕ) (u : S) :
    scanStatesAux f (List.replicate n a) u = scanStates (fun u => f u a) n u := by
  induction n generalizing u with
  | zero => rfl
  | succ n ih => simp only [List.replicate_succ, scanStatesAux, scanStates, ih]

theorem filterMap_replicate_some (a : A) (n : ℕ) :
    (List.replicate n (some a)).filterMap id = List.replicate n a := by
  induction n with
  | zero => rfl
  | succ n ih => simp [List.replicate_succ]

/-- constant aux: the rollout of the partially applied stepper -/
theorem rolloutAux_constant (f : S → A → S) (n : ℕ) (inc : Bool) (u0 : S) (a : A) :
    rolloutAux f n inc true u0 [a] = rollout (fun u => f u a) n inc u0 := by
  simp only [rolloutAux, rollout, if_true, List.head?_cons, filterMap_replicate_some,
    scanStatesAux_replicate]

/-- the same for any non-empty aux list whose head is `a` (only the head is read) -/
theorem rolloutAux_constant_cons (f : S → A → S) (n : ℕ) (inc : Bool) (u0 : S) (a : A)
    (as : List A) :
    rolloutAux f n inc true u0 (a :: as) = rollout (fun u => f u a) n inc u0 := by
  simp only [rolloutAux, rollout, if_true, List.head?_cons, filterMap_replicate_some,
    scanStatesAux_replicate]

theorem scanStatesAux_length (f : S → A → S) (as : List A) (u : S) :
    (scanStatesAux f as u).length = as.length := by
  induction as generalizing u with
  | nil => rfl
  | cons a as ih => simp [scanStatesAux, ih]

theorem scanStatesAux_getElem? (f : S → A → S) (as : List A) (u : S) (i : ℕ)
    (h : i < as.length) :
    (scanStatesAux f as u)[i]? = some ((as.take (i + 1)).foldl f u) := by
  induction as generalizing u i with
  | nil => simp at h
  | cons a as ih =>
    cases i with
    | zero => simp [scanStatesAux]
    | succ i =>
      simp only [List.length_cons] at h
      simp only [scanStatesAux, List.getElem?_cons_succ, List.take_succ_cons, List.foldl_cons]
      exact ih (f u a) i (by omega)

theorem rolloutAux_false_length (f : S → A → S) (n : ℕ) (u0 : S) (aux : List A)
    (h : n ≤ aux.length) :
    (rolloutAux f n false false u0 aux).length = n := by
  simp [rolloutAux, scanStatesAux_length, h]

theorem rolloutAux_true_length (f : S → A → S) (n : ℕ) (u0 : S) (aux : List A)
    (h : n ≤ aux.length) :
    (rolloutAux f n true false u0 aux).length = n + 1 := by
  simp [rolloutAux, scanStatesAux_length, h]

/-- non-constant aux: entry `i` is the left fold over the first `i + 1` aux entries -/
theorem rolloutAux_false_getElem? (f : S → A → S) (n : ℕ) (u0 : S) (aux : List A)
    (h : n ≤ aux.length) (i : ℕ) (hi : i < n) :
    (rolloutAux f n false false u0 aux)[i]? = some ((aux.take (i + 1)).foldl f u0) := by
  simp only [rolloutAux, Bool.false_eq_true, if_false]
  rw [scanStatesAux_getElem? f (aux.take n) u0 i (by simp; omega), List.take_take]
  congr 3
  omega

/-- with `include_init` entry `i` is the left fold over the first `i` aux entries -/
theorem rolloutAux_true_getElem? (f : S → A → S) (n : ℕ) (u0 : S) (aux : List A)
    (h : n ≤ aux.length) (i : ℕ) (hi : i ≤ n) :
    (rolloutAux f n true false u0 aux)[i]? = some ((aux.take i).foldl f u0) := by
  cases i with
  | zero => simp [rolloutAux]
  | succ i =>
    have := rolloutAux_false_getElem? f n u0 aux h i (by omega)
    simp only [rolloutAux, Bool.false_eq_true, if_false, if_true, List.getElem?_cons_succ] at this ⊢
    exact this

theorem repeatAux_constant (f : S → A → S) (n : ℕ) (u0 : S) (a : A) (as : List A) :
    repeatAux f n true u0 (a :: as) = repeatN (fun u => f u a) n u0 := by
  simp only [repeatAux, if_true, List.head?_cons, filterMap_replicate_some]
  induction n generalizing u0 with
  | zero => rfl
  | succ n ih => simp only [List.replicate_succ, List.foldl_cons, repeatN, ih]

theorem repeatAux_false (f : S → A → S) (n : ℕ) (u0 : S) (aux : List A) :
    repeatAux f n false u0 aux = (aux.take n).foldl f u0 := by
  simp [repeatAux]

/-- `repeat` with aux is the last entry of `rollout` with aux -/
theorem repeatAux_eq_rolloutAux_getLast? (f : S → A → S) (n : ℕ) (hn : 0 < n) (u0 : S)
    (aux : List A) (h : n ≤ aux.length) :
    (rolloutAux f n false false u0 aux).getLast? = some (repeatAux f n false u0 aux) := by
  rw [List.getLast?_eq_getElem?, rolloutAux_false_length f n u0 aux h,
    rolloutAux_false_getElem? f n u0 aux h (n - 1) (by omega), repeatAux_false]
  congr 3
  omega

theorem repeatAux_constant_eq_rolloutAux_getLast? (f : S → A → S) (n : ℕ) (hn : 0 < n) (u0 : S)
    (a : A) :
    (rolloutAux f n false true u0 [a]).getLast? = some (repeatAux f n true u0 [a]) := by
  rw [rolloutAux_constant, repeatAux_constant, repeatN_eq_rollout_getLast? _ n hn]

/-! ### U5 — `stackSub` -/

theorem stackSub_eq_none_iff (trj : List S) (subLen : ℕ) :
    stackSub trj subLen = none ↔ subLen > trj.length := by
  unfold stackSub
  split <;> simp_all

theorem stackSub_eq_some (trj : List S) (subLen : ℕ) (h : subLen ≤ trj.length) :
    stackSub trj subLen
      = some ((List.range (trj.length - subLen + 1)).map (fun i => (trj.drop i).take subLen)) := by
  unfold stackSub
  rw [if_neg (by omega)]

/-- number of windows -/
theorem stackSub_length (trj : List S) (subLen : ℕ) (w : List (List S))
    (hw : stackSub trj subLen = some w) : w.length = trj.length - subLen + 1 := by
  unfold stackSub at hw
  split at hw
  · simp at hw
  · simp only [Option.some.injEq] at hw
    simp [← hw]

/-- window `i` -/
theorem stackSub_getElem? (trj : List S) (subLen : ℕ) (w : List (List S))
    (hw : stackSub trj subLen = some w) (i : ℕ) (hi : i < trj.length - subLen + 1) :
    w[i]? = some ((trj.drop i).take subLen) := by
  unfold stackSub at hw
  split at hw
  · simp at hw
  · simp only [Option.some.injEq] at hw
    simp [← hw, hi]

/-- each window has length `subLen` -/
theorem stackSub_window_length (trj : List S) (subLen : ℕ) (w : List (List S))
    (hw : stackSub trj subLen = some w) (x : List S) (hx : x ∈ w) : x.length = subLen := by
  have hle : subLen ≤ trj.length := by
    by_contra hc
    rw [(stackSub_eq_none_iff trj subLen).2 (by omega)] at hw
    simp at hw
  rw [stackSub_eq_some trj subLen hle] at hw
  simp only [Option.some.injEq] at hw
  subst hw
  simp only [List.mem_map, List.mem_range] at hx
  obtain ⟨i, hi, rfl⟩ := hx
  simp only [List.length_take, List.length_drop]
  omega

/-- window `i`, entry `j` is `trj[i + j]` -/
theorem stackSub_entry (trj : List S) (subLen : ℕ) (w : List (List S))
    (hw : stackSub trj subLen = some w) (i j : ℕ) (hi : i < trj.length - subLen + 1)
    (hj : j < subLen) :
    (w[i]?.bind (fun x => x[j]?)) = trj[i + j]? := by
  rw [stackSub_getElem? trj subLen w hw i hi]
  simp [hj]

/-- consecutive windows overlap: window `i+1` entry `j` is window `i` entry `j+1` -/
theorem stackSub_overlap (trj : List S) (subLen : ℕ) (w : List (List S))
    (hw : stackSub trj subLen = some w) (i j : ℕ) (hi : i + 1 < trj.length - subLen + 1)
    (hj : j + 1 < subLen) :
    (w[i + 1]?.bind (fun x => x[j]?)) = (w[i]?.bind (fun x => x[j + 1]?)) := by
  rw [stackSub_entry trj subLen w hw (i + 1) j hi (by omega),
    stackSub_entry trj subLen w hw i (j + 1) (by omega) hj]
  congr 1
  omega

/-! ### U6 — `RepeatedStepper` -/

theorem repeatedStepFourier_eq_iterate (stepFourier : S → S) (n : ℕ) :
    repeatedStepFourier stepFourier n = stepFourier^[n] := by
  funext u
  exact repeatN_eq_iterate stepFourier n u

theorem repeatedDt_eq {K : Type} [Semiring K] (dt : K) (n : ℕ) :
    repeatedDt dt n = dt * (n : K) := rfl

end Exponax.Loops
