import ExponaxModel.Proofs.DFTnD
/-
Digit machinery for the n-D symmetry theorems (C08): the flat C-order index with prescribed
base-`N` digits (`ofDigits`), digit-wise index maps (`digitMap`), their bijectivity on the grid
`range (N^D)`, re-indexing of grid sums, and the model's `phaseK` at a mapped index.
Everything here is auxiliary; the headline theorems are in `SymmetryND.lean`.
-/
namespace Exponax.SymmetryND
open Exponax Exponax.Layout Exponax.Transform Exponax.DFT Finset

/-! ### flat index from digits (Horner form, axis 0 most significant) -/

/-- the flat C-order index whose digits (axes `0 … D-1`) are `f 0, …, f (D-1)` -/
def ofDigits (N : ℕ) (f : ℕ → ℕ) : ℕ → ℕ
  | 0 => 0
  | E + 1 => ofDigits N f E * N + f E

theorem ofDigits_congr (N : ℕ) (f g : ℕ → ℕ) :
    ∀ D, (∀ d < D, f d = g d) → ofDigits N f D = ofDigits N g D
  | 0, _ => rfl
  | E + 1, h => by
    simp only [ofDigits]
    rw [ofDigits_congr N f g E (fun d hd => h d (by omega)), h E (by omega)]

theorem ofDigits_lt (N : ℕ) (f : ℕ → ℕ) : ∀ D, (∀ d < D, f d < N) → ofDigits N f D < N ^ D
  | 0, _ => by simp [ofDigits]
  | E + 1, h => by
    have ih := ofDigits_lt N f E (fun d hd => h d (by omega))
    have hE := h E (by omega)
    simp only [ofDigits, pow_succ]
    calc ofDigits N f E * N + f E < ofDigits N f E * N + N := by omega
      _ = (ofDigits N f E + 1) * N := by ring
      _ ≤ N ^ E * N := Nat.mul_le_mul_right _ ih

theorem digit_lt (D N j d : ℕ) (hN : 0 < N) : digit D N j d < N := Nat.mod_lt _ hN

/-- the closed form `Σ_d f_d N^{D-1-d}` of the Horner recursion -/
theorem ofDigits_eq_sum (N : ℕ) (f : ℕ → ℕ) :
    ∀ D, ofDigits N f D = ∑ d ∈ range D, f d * N ^ (D - 1 - d)
  | 0 => by simp [ofDigits]
  | E + 1 => by
    rw [Finset.sum_range_succ, ofDigits, ofDigits_eq_sum N f E, Finset.sum_mul]
    congr 1
    · apply Finset.sum_congr rfl
      intro d hd
      have hd' := Finset.mem_range.mp hd
      rw [mul_assoc, ← pow_succ]
      congr 2
      omega
    · simp

theorem digit_ofDigits (N : ℕ) (f : ℕ → ℕ) : ∀ D, (∀ d < D, f d < N) → ∀ d < D,
    digit D N (ofDigits N f D) d = f d
  | 0, _, d, hd => absurd hd (Nat.not_lt_zero _)
  | E + 1, h, d, hd => by
    have hE := h E (by omega)
    have hN : 0 < N := by omega
    rcases Nat.lt_or_ge d E with hlt | hge
    · rw [digit_succ_of_lt E N _ d hlt]
      have hdiv : (ofDigits N f (E + 1)) / N = ofDigits N f E := by
        simp only [ofDigits]
        rw [Nat.add_comm, Nat.add_mul_div_right _ _ hN, Nat.div_eq_of_lt hE, zero_add]
      rw [hdiv]
      exact digit_ofDigits N f E (fun d hd => h d (by omega)) d hlt
    · have hdE : d = E := by omega
      subst hdE
      rw [digit_succ_last]
      simp only [ofDigits]
      rw [Nat.add_comm, Nat.add_mul_mod_self_right, Nat.mod_eq_of_lt hE]

theorem ofDigits_digit (N : ℕ) : ∀ D j, j < N ^ D →
    ofDigits N (fun d => digit D N j d) D = j
  | 0, j, hj => by
    have : j = 0 := by simpa using hj
    simp [ofDigits, this]
  | E + 1, j, hj => by
    have hj' : j / N < N ^ E := Nat.div_lt_of_lt_mul (by rw [pow_succ'] at hj; exact hj)
    simp only [ofDigits]
    rw [digit_succ_last,
      ofDigits_congr N _ (fun d => digit E N (j / N) d) E (fun d hd => digit_succ_of_lt E N j d hd),
      ofDigits_digit N E (j / N) hj']
    exact Nat.div_add_mod' j N

/-! ### digit-wise index maps -/

/-- apply `g d` to the digit of axis `d`, for every axis -/
def digitMap (D N : ℕ) (g : ℕ → ℕ → ℕ) (j : ℕ) : ℕ :=
  ofDigits N (fun d => g d (digit D N j d)) D

section DigitMap
variable (D N : ℕ) (hN : 0 < N) (g g' : ℕ → ℕ → ℕ)
  (hg : ∀ d < D, ∀ x < N, g d x < N)
include hN hg

theorem digitMap_lt (j : ℕ) : digitMap D N g j < N ^ D :=
  ofDigits_lt N _ D (fun d hd => hg d hd _ (digit_lt D N j d hN))

theorem digit_digitMap (j d : ℕ) (hd : d < D) :
    digit D N (digitMap D N g j) d = g d (digit D N j d) :=
  digit_ofDigits N _ D (fun d hd => hg d hd _ (digit_lt D N j d hN)) d hd

theorem digitMap_inv (hinv : ∀ d < D, ∀ x < N, g' d (g d x) = x) (j : ℕ) (hj : j < N ^ D) :
    digitMap D N g' (digitMap D N g j) = j := by
  unfold digitMap
  rw [ofDigits_congr N _ (fun d => digit D N j d) D]
  · exact ofDigits_digit N D j hj
  · intro d hd
    have := digit_digitMap D N hN g hg j d hd
    unfold digitMap at this
    rw [this, hinv d hd _ (digit_lt D N j d hN)]

/-- the model's phase at a mapped grid point -/
theorem phaseK_digitMap (k : List ℤ) (j : ℕ) :
    phaseK D N k (digitMap D N g j)
      = ∑ d ∈ range D, k.getD d 0 * ((g d (digit D N j d) : ℕ) : ℤ) := by
  rw [phaseK_eq_sum]
  apply Finset.sum_congr rfl
  intro d hd
  rw [digit_digitMap D N hN g hg j d (Finset.mem_range.mp hd)]

end DigitMap

/-- a digit-wise bijection re-indexes sums over the grid -/
theorem sum_digitMap {M : Type} [AddCommMonoid M] (D N : ℕ) (hN : 0 < N) (g g' : ℕ → ℕ → ℕ)
    (hg : ∀ d < D, ∀ x < N, g d x < N) (hg' : ∀ d < D, ∀ x < N, g' d x < N)
    (h1 : ∀ d < D, ∀ x < N, g' d (g d x) = x) (h2 : ∀ d < D, ∀ x < N, g d (g' d x) = x)
    (F : ℕ → M) :
    ∑ j ∈ range (N ^ D), F (digitMap D N g j) = ∑ j ∈ range (N ^ D), F j := by
  apply Finset.sum_nbij' (digitMap D N g) (digitMap D N g')
  · intro j _
    exact Finset.mem_range.mpr (digitMap_lt D N hN g hg j)
  · intro j _
    exact Finset.mem_range.mpr (digitMap_lt D N hN g' hg' j)
  · intro j hj
    exact digitMap_inv D N hN g g' hg h1 j (Finset.mem_range.mp hj)
  · intro j hj
    exact digitMap_inv D N hN g' g hg' h2 j (Finset.mem_range.mp hj)
  · intro j _
    rfl

/-! ### congruences -/

theorem sum_modEq (n : ℤ) (D : ℕ) (a b : ℕ → ℤ) (h : ∀ d < D, a d ≡ b d [ZMOD n]) :
    ∑ d ∈ range D, a d ≡ ∑ d ∈ range D, b d [ZMOD n] := by
  induction D with
  | zero => simp [Int.ModEq]
  | succ E ih =>
    rw [Finset.sum_range_succ, Finset.sum_range_succ]
    exact (ih (fun d hd => h d (by omega))).add (h E (by omega))

theorem twiddle_congr (N : ℕ) {a b : ℤ} (h : a ≡ b [ZMOD (N : ℤ)]) :
    (twiddle N a : ℂ) = twiddle N b := by
  rw [twiddle_eq_zpow, twiddle_eq_zpow, zeta_zpow_eq_of_modEq N h]

/-! ### the shifted and the reflected digit -/

/-- `(x − s) mod N` -/
def shiftDigit (N : ℕ) (s : ℤ) (x : ℕ) : ℕ := (((x : ℤ) - s) % (N : ℤ)).toNat

theorem shiftDigit_lt (N : ℕ) (hN : 0 < N) (s : ℤ) (x : ℕ) : shiftDigit N s x < N := by
  unfold shiftDigit
  have h1 : 0 ≤ ((x : ℤ) - s) % (N : ℤ) := Int.emod_nonneg _ (by exact_mod_cast hN.ne')
  have h2 : ((x : ℤ) - s) % (N : ℤ) < N := Int.emod_lt_of_pos _ (by exact_mod_cast hN)
  omega

theorem shiftDigit_cast (N : ℕ) (hN : 0 < N) (s : ℤ) (x : ℕ) :
    ((shiftDigit N s x : ℕ) : ℤ) = ((x : ℤ) - s) % (N : ℤ) :=
  Int.toNat_of_nonneg (Int.emod_nonneg _ (by exact_mod_cast hN.ne'))

theorem shiftDigit_inv (N : ℕ) (hN : 0 < N) (s : ℤ) (x : ℕ) (hx : x < N) :
    shiftDigit N (-s) (shiftDigit N s x) = x := by
  have h := shiftDigit_cast N hN s x
  unfold shiftDigit at h ⊢
  rw [h, sub_neg_eq_add, Int.emod_add_emod, sub_add_cancel,
    Int.emod_eq_of_lt (by positivity) (by exact_mod_cast hx), Int.toNat_natCast]

theorem shiftDigit_modEq (N : ℕ) (hN : 0 < N) (s : ℤ) (x : ℕ) :
    ((shiftDigit N s x : ℕ) : ℤ) ≡ (x : ℤ) - s [ZMOD (N : ℤ)] := by
  rw [shiftDigit_cast N hN]
  exact Int.mod_modEq _ _

/-- `(−x) mod N` -/
def reflDigit (N : ℕ) (x : ℕ) : ℕ := (N - x) % N

theorem reflDigit_lt (N : ℕ) (hN : 0 < N) (x : ℕ) : reflDigit N x < N := Nat.mod_lt _ hN

theorem reflDigit_inv (N : ℕ) (x : ℕ) (hx : x < N) : reflDigit N (reflDigit N x) = x := by
  unfold reflDigit
  rcases Nat.eq_zero_or_pos x with h0 | h0
  · subst h0; simp
  · rw [Nat.mod_eq_of_lt (show N - x < N by omega), Nat.sub_sub_self hx.le, Nat.mod_eq_of_lt hx]

theorem reflDigit_modEq (N : ℕ) (x : ℕ) (hx : x < N) :
    ((reflDigit N x : ℕ) : ℤ) ≡ -(x : ℤ) [ZMOD (N : ℤ)] := by
  unfold reflDigit
  rcases Nat.eq_zero_or_pos x with h0 | h0
  · subst h0; simp [Int.ModEq]
  · rw [Nat.mod_eq_of_lt (show N - x < N by omega), Nat.cast_sub hx.le]
    have : (N : ℤ) - (x : ℤ) = -(x : ℤ) + (N : ℤ) * 1 := by ring
    rw [this]
    exact Int.modEq_add_fac_self

end Exponax.SymmetryND
