import ExponaxModel.Proofs.Laminar3DTerm
/-
C12 / PART A2, 3-D — the Kolmogorov-forced 3-D velocity stepper (`Nonlin.projected3d c (some (m, γ))`) from rest:
the WHOLE three-channel spectrum after `n` steps of ETDRK-p, p = 1..4, any coefficient arrays.

Spectra are `ℕ → ℕ → ℂ` (channel, stored mode) with the pointwise ring structure; `liftNl3 c F` is the three-channel
nonlinear function `F` as a map on such spectra.  On the invariant set `TwoModeSpec c m` (channel 0 carried by the two
stored modes `(0, ±m, 0)`, channels 1, 2 zero) the nonlinear term is the constant forcing spectrum `forcing3` (A1, 3-D), so

    step^[n] v = E^n v + (Σ_{i<n} E^i) · κ · forcing3        (every channel, every mode)

with `κ = a₁` (orders 1, 2), `a₃+a₄+a₅` (order 3), `a₄+4a₅+a₆` (order 4); entrywise with exact coefficients:
`forcing3 · (e^{nσdt} − 1)/σ`; with ALL coefficients stored: `κ = E1_coef_1` for every order.
-/
set_option linter.unusedVariables false
namespace Exponax.Laminar3D
open Exponax Exponax.Layout Exponax.Transform Exponax.DFT Exponax.ExactLinear Exponax.Gen.Etdrk Exponax.Spec Finset
open Exponax.Nonlin (Cfg MC at2 tab2 tabC modes gridSize mask nfft nifft projected3d leray kInt deriv proj3)
open Exponax.Laminar (ConstOn E1step_on E2step_on E3step_on E4step_on iterate_on geom_phi1)

/-- a three-channel nonlinear function of the model as a map on (channel, mode)-indexed spectra -/
noncomputable def liftNl3 (c : Cfg ℂ) (F : MC ℂ → MC ℂ) : (ℕ → ℕ → ℂ) → (ℕ → ℕ → ℂ) :=
  fun v i h => at2 (F (tabC 3 (fun i => tab (modes c) (v i)))) i h

/-- `(û₀, 0, 0)` with `û₀` carried by the stored modes `(0, ±m, 0)` -/
def TwoModeSpec (c : Cfg ℂ) (m : ℕ) (v : ℕ → ℕ → ℂ) : Prop :=
  ∀ i h, (i ≠ 0 ∨ (h ≠ hP c m ∧ h ≠ hM c m)) → v i h = 0

/-- the forcing spectrum: response of the forced term at rest -/
noncomputable def forcing3 (c : Cfg ℂ) (inj : Option (ℕ × ℂ)) : ℕ → ℕ → ℂ := liftNl3 c (projected3d c inj) 0

/-- the Kolmogorov term of `projected3d` (state independent) -/
noncomputable def injTerm3 (c : Cfg ℂ) (inj : Option (ℕ × ℂ)) (i h : ℕ) : ℂ :=
  match inj with
  | none => 0
  | some (m', gam) =>
    if i = 0 ∧ kInt c 0 h = 0 ∧ kInt c 2 h = 0 ∧ kInt c 1 h = (m' : ℤ)
    then -Complex.I * gam * scaling c.D c.N 2 (unflatten (wavenumberShape c.D c.N) h)
    else if i = 0 ∧ kInt c 0 h = 0 ∧ kInt c 2 h = 0 ∧ kInt c 1 h = -(m' : ℤ)
    then Complex.I * gam * scaling c.D c.N 2 (unflatten (wavenumberShape c.D c.N) h)
    else 0

theorem at2_lift (c : Cfg ℂ) (v : ℕ → ℕ → ℂ) (i h : ℕ) (hi : i < 3) (hh : h < modes c) :
    at2 (tabC 3 (fun i => tab (modes c) (v i))) i h = v i h := by
  rw [Nonlin.at2_tabC _ _ _ _ hi, Nonlin.tab_getD _ _ _ _ hh]

theorem twoMode_lift (c : Cfg ℂ) (m : ℕ) (v : ℕ → ℕ → ℂ) (hv : TwoModeSpec c m v) :
    TwoMode c m (tabC 3 (fun i => tab (modes c) (v i))) := by
  intro i h hh hc
  rw [Alias.at2_tabC_any]
  split_ifs
  · rw [Nonlin.tab_getD _ _ _ _ hh]; exact hv i h hc
  · rfl

theorem projected3d_at2_out (c : Cfg ℂ) (inj : Option (ℕ × ℂ)) (uh : MC ℂ) (i h : ℕ)
    (ho : ¬ (i < 3 ∧ h < modes c)) : at2 (projected3d c inj uh) i h = 0 := by
  unfold projected3d
  simp only []
  rw [Alias.at2_tab2_any, if_neg ho]

section
variable (c : Cfg ℂ) (hD : c.D = 3) (s : ℝ) (hs : c.s = (s : ℂ)) (hs0 : s ≠ 0) (m : ℕ) (hm0 : 0 < m)
  (hm : 2 * m < c.N)
include hD hs hs0 hm0 hm

/-- A1, 3-D, all injections at once -/
theorem projected3d_shear_all (inj : Option (ℕ × ℂ)) (uh : MC ℂ) (hu : TwoMode c m uh) (i h : ℕ) (hi : i < 3)
    (hh : h < modes c) : at2 (projected3d c inj uh) i h = injTerm3 c inj i h := by
  cases inj with
  | none => exact projected3d_shear_none_partial c hD s hs hs0 m hm0 hm uh hu i h hi hh
  | some mg =>
    obtain ⟨m', gam⟩ := mg
    exact projected3d_shear_partial c hD s hs hs0 m hm0 hm uh hu m' gam i h hi hh

/-- **the forced 3-D term is constant on two-mode shear spectra** -/
theorem liftNl3_shear (inj : Option (ℕ × ℂ)) (v : ℕ → ℕ → ℂ) (hv : TwoModeSpec c m v) :
    liftNl3 c (projected3d c inj) v = forcing3 c inj := by
  funext i h
  unfold forcing3 liftNl3
  by_cases hc : i < 3 ∧ h < modes c
  · rw [projected3d_shear_all c hD s hs hs0 m hm0 hm inj _ (twoMode_lift c m v hv) i h hc.1 hc.2,
      projected3d_shear_all c hD s hs hs0 m hm0 hm inj _ (twoMode_lift c m 0 (fun _ _ _ => rfl)) i h hc.1 hc.2]
  · rw [projected3d_at2_out c inj _ i h hc, projected3d_at2_out c inj _ i h hc]

theorem forcing3_apply (inj : Option (ℕ × ℂ)) (i h : ℕ) :
    forcing3 c inj i h = if i < 3 ∧ h < modes c then injTerm3 c inj i h else 0 := by
  unfold forcing3 liftNl3
  split_ifs with hc
  · exact projected3d_shear_all c hD s hs hs0 m hm0 hm inj _ (twoMode_lift c m 0 (fun _ _ _ => rfl)) i h hc.1 hc.2
  · exact projected3d_at2_out c inj _ i h hc

/-- the forcing of the mode-`m` Kolmogorov stepper (or no forcing) is itself a two-mode shear spectrum -/
theorem forcing3_twoMode (inj : Option (ℕ × ℂ)) (hinj : inj = none ∨ ∃ gam, inj = some (m, gam)) :
    TwoModeSpec c m (forcing3 c inj) := by
  intro i h hc
  rw [forcing3_apply c hD s hs hs0 m hm0 hm]
  split_ifs with hr
  · rcases hinj with rfl | ⟨gam, rfl⟩
    · rfl
    · simp only [injTerm3]
      rw [if_neg, if_neg]
      · rintro ⟨hi0, k0, k2, k1⟩
        have := (eq_hM_iff c hD m hm h hr.2).mp ⟨k0, k2, k1⟩
        rcases hc with hc | hc
        · exact hc hi0
        · exact hc.2 this
      · rintro ⟨hi0, k0, k2, k1⟩
        have := (eq_hP_iff c hD m hm h hr.2).mp ⟨k0, k2, k1⟩
        rcases hc with hc | hc
        · exact hc hi0
        · exact hc.1 this
  · rfl

theorem constOn_twoMode (inj : Option (ℕ × ℂ)) (hinj : inj = none ∨ ∃ gam, inj = some (m, gam)) :
    ConstOn (TwoModeSpec c m) (forcing3 c inj) (liftNl3 c (projected3d c inj)) where
  affine := by
    intro A B v hv i h hc
    simp only [Pi.add_apply, Pi.mul_apply]
    rw [hv i h hc, forcing3_twoMode c hD s hs hs0 m hm0 hm inj hinj i h hc]
    ring
  const := fun v hv => liftNl3_shear c hD s hs hs0 m hm0 hm inj v hv

/-- ETDRK1..4 from a two-mode shear state: the whole (channel, mode) spectrum, ANY coefficient arrays -/
theorem laminar3d_all (inj : Option (ℕ × ℂ)) (hinj : inj = none ∨ ∃ gam, inj = some (m, gam))
    (E Eh a1 a2 a3 a4 a5 a6 v : ℕ → ℕ → ℂ) (hv : TwoModeSpec c m v) (n : ℕ) :
    (E1step E a1 (liftNl3 c (projected3d c inj)))^[n] v
        = E ^ n * v + (∑ i ∈ range n, E ^ i) * (a1 * forcing3 c inj) ∧
    (E2step E a1 a2 (liftNl3 c (projected3d c inj)))^[n] v
        = E ^ n * v + (∑ i ∈ range n, E ^ i) * (a1 * forcing3 c inj) ∧
    (E3step E Eh a1 a2 a3 a4 a5 (liftNl3 c (projected3d c inj)))^[n] v
        = E ^ n * v + (∑ i ∈ range n, E ^ i) * ((a3 + a4 + a5) * forcing3 c inj) ∧
    (E4step E Eh a1 a2 a3 a4 a5 a6 (liftNl3 c (projected3d c inj)))^[n] v
        = E ^ n * v + (∑ i ∈ range n, E ^ i) * ((a4 + 4 * a5 + a6) * forcing3 c inj) := by
  have H := constOn_twoMode c hD s hs hs0 m hm0 hm inj hinj
  exact ⟨(iterate_on H _ E a1 (fun w hw => E1step_on H E a1 w hw) v hv n).2,
    (iterate_on H _ E a1 (fun w hw => E2step_on H E a1 a2 w hw) v hv n).2,
    (iterate_on H _ E (a3 + a4 + a5) (fun w hw => E3step_on H E Eh a1 a2 a3 a4 a5 w hw) v hv n).2,
    (iterate_on H _ E (a4 + 4 * a5 + a6) (fun w hw => E4step_on H E Eh a1 a2 a3 a4 a5 a6 w hw) v hv n).2⟩

/-- the forcing spectrum, explicitly: `∓ i γ N³/2` on channel 0 at the stored modes `(0, ±m, 0)`, zero elsewhere -/
theorem forcing3_eq (gam : ℂ) :
    forcing3 c (some (m, gam)) = fun i h =>
      if i = 0 ∧ h = hP c m then -Complex.I * gam * ((c.N : ℂ) * ((c.N : ℂ) / 2) * (c.N : ℂ))
      else if i = 0 ∧ h = hM c m then Complex.I * gam * ((c.N : ℂ) * ((c.N : ℂ) / 2) * (c.N : ℂ))
      else 0 := by
  funext i h
  rw [forcing3_apply c hD s hs hs0 m hm0 hm]
  by_cases hr : i < 3 ∧ h < modes c
  · rw [if_pos hr]
    simp only [injTerm3]
    by_cases hp : i = 0 ∧ h = hP c m
    · have hk := (eq_hP_iff c hD m hm h hr.2).mpr hp.2
      rw [if_pos ⟨hp.1, hk⟩, if_pos hp, Nonlin.scaling_at_kolmogorov_3d c hD h m hm0 hm hk.1 hk.2.1 (Or.inl hk.2.2)]
    · have np : ¬ (i = 0 ∧ kInt c 0 h = 0 ∧ kInt c 2 h = 0 ∧ kInt c 1 h = (m : ℤ)) := by
        rintro ⟨hi0, hk⟩
        exact hp ⟨hi0, (eq_hP_iff c hD m hm h hr.2).mp hk⟩
      rw [if_neg np, if_neg hp]
      by_cases hq : i = 0 ∧ h = hM c m
      · have hk := (eq_hM_iff c hD m hm h hr.2).mpr hq.2
        rw [if_pos ⟨hq.1, hk⟩, if_pos hq,
          Nonlin.scaling_at_kolmogorov_3d c hD h m hm0 hm hk.1 hk.2.1 (Or.inr hk.2.2)]
      · have nq : ¬ (i = 0 ∧ kInt c 0 h = 0 ∧ kInt c 2 h = 0 ∧ kInt c 1 h = -(m : ℤ)) := by
          rintro ⟨hi0, hk⟩
          exact hq ⟨hi0, (eq_hM_iff c hD m hm h hr.2).mp hk⟩
        rw [if_neg nq, if_neg hq]
  · rw [if_neg hr, if_neg, if_neg]
    · rintro ⟨hi0, rfl⟩
      exact hr ⟨by omega, hM_lt c hD m hm⟩
    · rintro ⟨hi0, rfl⟩
      exact hr ⟨by omega, hP_lt c hD m hm⟩

/-- **laminar solution, 3-D, entrywise, exact coefficients at that entry** (ETDRK4; from rest): every entry of the
    spectrum is `f̂ (e^{nσdt} − 1)/σ` with `f̂` the forcing entry — in particular `0` wherever the forcing vanishes,
    whatever the coefficients there -/
theorem laminar3d_exact_E4 (gam : ℂ) (E Eh a1 a2 a3 a4 a5 a6 : ℕ → ℕ → ℂ) (n : ℕ) (i h : ℕ) :
    (forcing3 c (some (m, gam)) i h = 0 →
      (E4step E Eh a1 a2 a3 a4 a5 a6 (liftNl3 c (projected3d c (some (m, gam)))))^[n] 0 i h = 0) ∧
    (∀ σ dt : ℂ, σ ≠ 0 → dt ≠ 0 → E i h = Complex.exp (σ * dt) →
      a4 i h = dt * (phi1 (σ * dt) - 3 * phi2 (σ * dt) + 4 * phi3 (σ * dt)) →
      a5 i h = dt * (phi2 (σ * dt) - 2 * phi3 (σ * dt)) →
      a6 i h = dt * (4 * phi3 (σ * dt) - phi2 (σ * dt)) →
      (E4step E Eh a1 a2 a3 a4 a5 a6 (liftNl3 c (projected3d c (some (m, gam)))))^[n] 0 i h
        = forcing3 c (some (m, gam)) i h * (Complex.exp (n * (σ * dt)) - 1) / σ) := by
  have hall := (laminar3d_all c hD s hs hs0 m hm0 hm (some (m, gam)) (Or.inr ⟨gam, rfl⟩) E Eh a1 a2 a3 a4 a5 a6 0
    (fun _ _ _ => rfl) n).2.2.2
  have hval : (E4step E Eh a1 a2 a3 a4 a5 a6 (liftNl3 c (projected3d c (some (m, gam)))))^[n] 0 i h
      = (∑ j ∈ range n, E i h ^ j) * ((a4 i h + 4 * a5 i h + a6 i h) * forcing3 c (some (m, gam)) i h) := by
    rw [hall]
    have h4 : (4 : ℕ → ℕ → ℂ) i h = 4 := rfl
    simp only [Pi.add_apply, Pi.mul_apply, Pi.zero_apply, mul_zero, zero_add, Finset.sum_apply, Pi.pow_apply, h4]
  constructor
  · intro hF
    rw [hval, hF]; ring
  · intro σ dt hσ hdt hE h4 h5 h6
    rw [hval, hE, h4, h5, h6]
    have hk : dt * (phi1 (σ * dt) - 3 * phi2 (σ * dt) + 4 * phi3 (σ * dt))
        + 4 * (dt * (phi2 (σ * dt) - 2 * phi3 (σ * dt))) + dt * (4 * phi3 (σ * dt) - phi2 (σ * dt))
        = dt * phi1 (σ * dt) := by ring
    rw [hk]
    exact geom_phi1 σ dt _ hσ hdt n

/-- ALL coefficients stored (contour means), every order, from rest: the same trajectory, entrywise
    `(Σ_{j<n} e^{j dt L}) · E1_coef_1 dt L M r · f̂` -/
theorem laminar3d_stored (gam : ℂ) (dt r : ℂ) (M : ℕ) (L : ℕ → ℕ → ℂ) (n : ℕ) (i h : ℕ) :
    (E1step (fun i h => exp_term dt (L i h)) (fun i h => E1_coef_1 dt (L i h) M r)
      (liftNl3 c (projected3d c (some (m, gam)))))^[n] 0 i h
        = (∑ j ∈ range n, exp_term dt (L i h) ^ j)
          * (E1_coef_1 dt (L i h) M r * forcing3 c (some (m, gam)) i h) ∧
    (E3step (fun i h => exp_term dt (L i h)) (fun i h => E3_half_exp_term dt (L i h) M r)
      (fun i h => E3_coef_1 dt (L i h) M r) (fun i h => E3_coef_2 dt (L i h) M r)
      (fun i h => E3_coef_3 dt (L i h) M r) (fun i h => E3_coef_4 dt (L i h) M r)
      (fun i h => E3_coef_5 dt (L i h) M r) (liftNl3 c (projected3d c (some (m, gam)))))^[n] 0 i h
        = (∑ j ∈ range n, exp_term dt (L i h) ^ j)
          * (E1_coef_1 dt (L i h) M r * forcing3 c (some (m, gam)) i h) ∧
    (E4step (fun i h => exp_term dt (L i h)) (fun i h => E4_half_exp_term dt (L i h) M r)
      (fun i h => E4_coef_1 dt (L i h) M r) (fun i h => E4_coef_2 dt (L i h) M r)
      (fun i h => E4_coef_3 dt (L i h) M r) (fun i h => E4_coef_4 dt (L i h) M r)
      (fun i h => E4_coef_5 dt (L i h) M r) (fun i h => E4_coef_6 dt (L i h) M r)
      (liftNl3 c (projected3d c (some (m, gam)))))^[n] 0 i h
        = (∑ j ∈ range n, exp_term dt (L i h) ^ j)
          * (E1_coef_1 dt (L i h) M r * forcing3 c (some (m, gam)) i h) := by
  have hinj : (some (m, gam) : Option (ℕ × ℂ)) = none ∨ ∃ g, (some (m, gam) : Option (ℕ × ℂ)) = some (m, g) :=
    Or.inr ⟨gam, rfl⟩
  have h4 : (4 : ℕ → ℕ → ℂ) i h = 4 := rfl
  refine ⟨?_, ?_, ?_⟩
  · rw [(laminar3d_all c hD s hs hs0 m hm0 hm _ hinj _ 0 _ 0 0 0 0 0 0 (fun _ _ _ => rfl) n).1]
    simp only [Pi.add_apply, Pi.mul_apply, Pi.zero_apply, mul_zero, zero_add, Finset.sum_apply, Pi.pow_apply]
  · rw [(laminar3d_all c hD s hs hs0 m hm0 hm _ hinj _ _ _ _ _ _ _ 0 0 (fun _ _ _ => rfl) n).2.2.1]
    simp only [Pi.add_apply, Pi.mul_apply, Pi.zero_apply, mul_zero, zero_add, Finset.sum_apply, Pi.pow_apply]
    rw [EquilibriaStored.stored_E3_sum]
  · rw [(laminar3d_all c hD s hs hs0 m hm0 hm _ hinj _ _ _ _ _ _ _ _ 0 (fun _ _ _ => rfl) n).2.2.2]
    simp only [Pi.add_apply, Pi.mul_apply, Pi.zero_apply, mul_zero, zero_add, Finset.sum_apply, Pi.pow_apply, h4]
    rw [EquilibriaStored.stored_E4_sum]

end

/-! ### non-vacuity -/

example : ∃ c : Cfg ℂ, c.D = 3 ∧ c.s = ((1 : ℝ) : ℂ) ∧ (1 : ℝ) ≠ 0 ∧ 0 < 2 ∧ 2 * 2 < c.N :=
  ⟨⟨3, 8, ((1 : ℝ) : ℂ), 2, 3⟩, rfl, rfl, one_ne_zero, by norm_num, by norm_num⟩
example (c : Cfg ℂ) (m : ℕ) : TwoModeSpec c m 0 := fun _ _ _ => rfl
example (c : Cfg ℂ) (m : ℕ) : TwoMode c m (#[] : MC ℂ) := twoMode_empty c m

end Exponax.Laminar3D
