import ExponaxModel.Proofs.LinearTestOrderConst
/-
C02 support — T7: the order theorems on the linear test family `u' = λu + μu` for PERTURBED coefficients.

If every coefficient handed to the regenerated `Gen.Etdrk.E{p}step` differs from the exact Cox–Matthews value
`dt·(φ-combination)(λ dt)` by at most `δ·dt` in norm (the propagators `e^{λdt}`, `e^{λdt/2}` being exact), then for
`n·dt ≤ T`

   ‖(E{p}step …)ⁿ u − e^{(λ+μ) n dt} u‖ ≤ Cfloor · (Cloc{p} · dt^p + pertD{p}) · ‖u‖,      pertD{p} = δ · κ_p ,

i.e. `C'·dt^p·‖u‖ + C''·δ·‖u‖` with `C' = Cfloor·Cloc{p}`, `C'' = Cfloor·κ_p`: the order-`p` decay down to a
consistency floor proportional to `δ`.  All constants are explicit:
 * `Cloc{p} l m T` — the local constants of `LinearTestOrderConst`,
 * `κ_p = pertK{p} ‖μ‖ W …` — polynomials in `‖μ‖, W = max(1, e^{T Re λ}), T, δ` (below),
 * `Cfloor Cl D s p T = T·e^{(‖s‖ + Cl·T^p + D)·T}`  (`s = λ+μ`).
They do not depend on `n`, `dt`; they depend on `δ` only monotonically (through `W/2 + δ` etc. and `e^{D T}`).

 * `amp{p}` : the amplification factor of `E{p}step` for ARBITRARY coefficients (`E{p}step_amp`),
 * `amp{p}_exact` : with the exact coefficients it is `R{p}(λdt, μdt)`,
 * `amp{p}_pert` : `‖amp{p}(perturbed) − amp{p}(exact)‖ ≤ e·pertK{p}(…)` if all coefficients are within `e`,
 * `global_of_local_floor` : local error `≤ C dt^{p+1} + D dt` ⟹ global error `≤ T e^{(‖s‖+C T^p+D)T}(C dt^p + D)`,
 * `E{p}step_perturbed_global` : the headline statements, `p = 1, 2, 3, 4`.
-/
set_option linter.unusedVariables false
noncomputable section
namespace Exponax.LinearOrder
open Exponax Exponax.Spec Exponax.ContourTail Exponax.Gen.Etdrk

/-! ### local ⟹ global with a consistency floor -/

/-- `Cfloor Cl D s p T = T·e^{(‖s‖ + Cl·T^p + D)·T}` -/
def Cfloor (Cl D : ℝ) (s : ℂ) (p : ℕ) (T : ℝ) : ℝ := T * Real.exp ((‖s‖ + Cl * T ^ p + D) * T)

/-- if ONE step of size `dt` has amplification `A` with `‖A − e^{s dt}‖ ≤ C dt^{p+1} + D dt`, then `n` steps,
    `n·dt ≤ T`, satisfy `‖Aⁿ − e^{s n dt}‖ ≤ T e^{(‖s‖ + C T^p + D) T} (C dt^p + D)` -/
theorem global_of_local_floor (A s : ℂ) (p : ℕ) (C D T dt : ℝ) (n : ℕ) (hC : 0 ≤ C) (hD : 0 ≤ D)
    (hdt : 0 ≤ dt) (hn : n * dt ≤ T)
    (hloc : ‖A - Complex.exp (s * dt)‖ ≤ C * dt ^ (p + 1) + D * dt) :
    ‖A ^ n - Complex.exp (s * (n * dt))‖ ≤ Cfloor C D s p T * (C * dt ^ p + D) := by
  have hT : 0 ≤ T := le_trans (mul_nonneg (Nat.cast_nonneg n) hdt) hn
  have hK : 0 ≤ ‖s‖ + C * T ^ p + D :=
    add_nonneg (add_nonneg (norm_nonneg _) (mul_nonneg hC (pow_nonneg hT p))) hD
  have hfl : 0 ≤ C * dt ^ p + D := add_nonneg (mul_nonneg hC (pow_nonneg hdt p)) hD
  unfold Cfloor
  rcases Nat.eq_zero_or_pos n with rfl | hnpos
  · simp only [pow_zero, Nat.cast_zero, zero_mul, mul_zero, Complex.exp_zero, sub_self, norm_zero]
    exact mul_nonneg (mul_nonneg hT (Real.exp_pos _).le) hfl
  have hn1 : (1 : ℝ) ≤ n := by exact_mod_cast hnpos
  have hdtT : dt ≤ T := le_trans (by nlinarith) hn
  set K := ‖s‖ + C * T ^ p + D with hKdef
  have hbpow : Complex.exp (s * (n * dt)) = Complex.exp (s * dt) ^ n := by
    rw [← Complex.exp_nat_mul]; congr 1; ring
  have hb : ‖Complex.exp (s * dt)‖ ≤ Real.exp (‖s‖ * dt) := by
    rw [Complex.norm_exp]
    refine Real.exp_le_exp.mpr ?_
    calc (s * dt).re ≤ ‖s * dt‖ := Complex.re_le_norm _
      _ = ‖s‖ * dt := by rw [norm_mul, Complex.norm_real, Real.norm_eq_abs, abs_of_nonneg hdt]
  have hCD : 0 ≤ C * T ^ p + D := add_nonneg (mul_nonneg hC (pow_nonneg hT p)) hD
  have hbK : ‖Complex.exp (s * dt)‖ ≤ Real.exp (K * dt) :=
    hb.trans (Real.exp_le_exp.mpr (mul_le_mul_of_nonneg_right (by rw [hKdef]; linarith) hdt))
  have hdtp : dt ^ (p + 1) ≤ T ^ p * dt := by
    rw [pow_succ]; exact mul_le_mul_of_nonneg_right (pow_le_pow_left₀ hdt hdtT p) hdt
  have ha : ‖A‖ ≤ Real.exp (K * dt) := by
    have h1 : ‖A‖ ≤ ‖Complex.exp (s * dt)‖ + ‖A - Complex.exp (s * dt)‖ := by
      have := norm_add_le (Complex.exp (s * dt)) (A - Complex.exp (s * dt))
      simpa using this
    have h2 : (1 : ℝ) ≤ Real.exp (‖s‖ * dt) := Real.one_le_exp (mul_nonneg (norm_nonneg _) hdt)
    have hx : 0 ≤ (C * T ^ p + D) * dt := mul_nonneg hCD hdt
    have h3 : 1 + (C * T ^ p + D) * dt ≤ Real.exp ((C * T ^ p + D) * dt) := by
      have := Real.add_one_le_exp ((C * T ^ p + D) * dt); linarith
    have h4 : C * dt ^ (p + 1) ≤ C * (T ^ p * dt) := mul_le_mul_of_nonneg_left hdtp hC
    calc ‖A‖ ≤ Real.exp (‖s‖ * dt) + (C * dt ^ (p + 1) + D * dt) := by linarith
      _ ≤ Real.exp (‖s‖ * dt) + (C * T ^ p + D) * dt := by linarith
      _ ≤ Real.exp (‖s‖ * dt) * (1 + (C * T ^ p + D) * dt) := by nlinarith
      _ ≤ Real.exp (‖s‖ * dt) * Real.exp ((C * T ^ p + D) * dt) := by gcongr
      _ = Real.exp (K * dt) := by rw [← Real.exp_add, hKdef]; congr 1; ring
  have hmax : max ‖A‖ ‖Complex.exp (s * dt)‖ ^ (n - 1) ≤ Real.exp (K * T) := by
    calc max ‖A‖ ‖Complex.exp (s * dt)‖ ^ (n - 1) ≤ Real.exp (K * dt) ^ (n - 1) :=
          pow_le_pow_left₀ (le_max_of_le_left (norm_nonneg _)) (max_le ha hbK) _
      _ = Real.exp (((n - 1 : ℕ) : ℝ) * (K * dt)) := by rw [Real.exp_nat_mul]
      _ ≤ Real.exp (K * T) := by
          refine Real.exp_le_exp.mpr ?_
          have h4 : (((n - 1 : ℕ)) : ℝ) ≤ n := by exact_mod_cast Nat.sub_le n 1
          calc ((n - 1 : ℕ) : ℝ) * (K * dt) ≤ (n : ℝ) * (K * dt) :=
                mul_le_mul_of_nonneg_right h4 (mul_nonneg hK hdt)
            _ = K * (n * dt) := by ring
            _ ≤ K * T := mul_le_mul_of_nonneg_left hn hK
  rw [hbpow]
  calc ‖A ^ n - Complex.exp (s * dt) ^ n‖
      ≤ n * max ‖A‖ ‖Complex.exp (s * dt)‖ ^ (n - 1) * ‖A - Complex.exp (s * dt)‖ :=
        norm_pow_sub_pow_le _ _ n
    _ ≤ n * Real.exp (K * T) * (C * dt ^ (p + 1) + D * dt) := by gcongr
    _ = (n * dt) * Real.exp (K * T) * (C * dt ^ p + D) := by ring
    _ ≤ T * Real.exp (K * T) * (C * dt ^ p + D) := by gcongr

/-! ### amplification factors for arbitrary coefficients -/

def amp1 (m E c1 : ℂ) : ℂ := E + c1 * m

def amp2 (m E c1 c2 : ℂ) : ℂ := (E + c1 * m) + c2 * m * ((E + c1 * m) - 1)

def amp3 (m E Eh ch c1 cb1 cb2 cb3 : ℂ) : ℂ :=
  E + cb1 * m + cb2 * m * (Eh + ch * m) + cb3 * m * (E + c1 * m * (2 * (Eh + ch * m) - 1))

def amp4 (m E Eh c1 c2 c3 c4 c5 c6 : ℂ) : ℂ :=
  E + c4 * m + 2 * c5 * m * ((Eh + c1 * m) + (Eh + c2 * m * (Eh + c1 * m)))
    + c6 * m * (Eh * (Eh + c1 * m) + c3 * m * (2 * (Eh + c2 * m * (Eh + c1 * m)) - 1))

theorem E1step_amp (m E c1 u : ℂ) : E1step E c1 (fun v => m * v) u = amp1 m E c1 * u := by
  simp only [E1step, amp1]; ring

theorem E2step_amp (m E c1 c2 u : ℂ) : E2step E c1 c2 (fun v => m * v) u = amp2 m E c1 c2 * u := by
  simp only [E2step, amp2]; ring

theorem E3step_amp (m E Eh ch c1 cb1 cb2 cb3 u : ℂ) :
    E3step E Eh ch c1 cb1 cb2 cb3 (fun v => m * v) u = amp3 m E Eh ch c1 cb1 cb2 cb3 * u := by
  simp only [E3step, amp3, lit_eq]; push_cast; ring

theorem E4step_amp (m E Eh c1 c2 c3 c4 c5 c6 u : ℂ) :
    E4step E Eh c1 c2 c3 c4 c5 c6 (fun v => m * v) u = amp4 m E Eh c1 c2 c3 c4 c5 c6 * u := by
  simp only [E4step, amp4, lit_eq]; push_cast; ring

/-- with the exact coefficients the amplification factors are `R_p(z, μ dt)` -/
theorem amp1_exact (z dt m : ℂ) : amp1 m (Complex.exp z) (dt * phi1e z) = R1 z (m * dt) := by
  have h := E1step_linear z dt m 1
  rw [E1step_amp] at h; simpa using h

theorem amp2_exact (z dt m : ℂ) :
    amp2 m (Complex.exp z) (dt * phi1e z) (dt * phi2e z) = R2 z (m * dt) := by
  have h := E2step_linear z dt m 1
  rw [E2step_amp] at h; simpa using h

theorem amp3_exact (z dt m : ℂ) :
    amp3 m (Complex.exp z) (Complex.exp (z / 2)) (dt * (phi1e (z / 2) / 2)) (dt * phi1e z)
      (dt * (phi1e z - 3 * phi2e z + 4 * phi3e z)) (dt * (4 * phi2e z - 8 * phi3e z))
      (dt * (4 * phi3e z - phi2e z)) = R3 z (m * dt) := by
  have h := E3step_linear z dt m 1
  rw [E3step_amp] at h; simpa using h

theorem amp4_exact (z dt m : ℂ) :
    amp4 m (Complex.exp z) (Complex.exp (z / 2)) (dt * (phi1e (z / 2) / 2))
      (dt * (phi1e (z / 2) / 2)) (dt * (phi1e (z / 2) / 2))
      (dt * (phi1e z - 3 * phi2e z + 4 * phi3e z)) (dt * (phi2e z - 2 * phi3e z))
      (dt * (4 * phi3e z - phi2e z)) = R4 z (m * dt) := by
  have h := E4step_linear z dt m 1
  rw [E4step_amp] at h; simpa using h

/-! ### perturbation of the amplification factors -/

theorem nm2 {x y : ℂ} {X Y : ℝ} (hx : ‖x‖ ≤ X) (hy : ‖y‖ ≤ Y) (hX : 0 ≤ X) : ‖x * y‖ ≤ X * Y := by
  rw [norm_mul]; exact mul_le_mul hx hy (norm_nonneg _) hX

theorem na2 {x y : ℂ} {X Y : ℝ} (hx : ‖x‖ ≤ X) (hy : ‖y‖ ≤ Y) : ‖x + y‖ ≤ X + Y :=
  (norm_add_le _ _).trans (add_le_add hx hy)

theorem ns2 {x y : ℂ} {X Y : ℝ} (hx : ‖x‖ ≤ X) (hy : ‖y‖ ≤ Y) : ‖x - y‖ ≤ X + Y :=
  (norm_sub_le _ _).trans (add_le_add hx hy)

theorem norm_le_of_close {c a : ℂ} {A e q : ℝ} (ha : ‖a‖ ≤ A) (h : ‖c - a‖ ≤ e) (hq : A + e ≤ q) :
    ‖c‖ ≤ q := by
  have : ‖c‖ ≤ ‖a‖ + ‖c - a‖ := by
    have := norm_add_le a (c - a); simpa using this
  linarith

theorem two_le : ‖(2 : ℂ)‖ ≤ 2 := by simp
theorem one_le' : ‖(1 : ℂ)‖ ≤ 1 := by simp

def pertK1 (mm : ℝ) : ℝ := mm

theorem amp1_pert (m E a1 c1 : ℂ) (e : ℝ) (h1 : ‖c1 - a1‖ ≤ e) :
    ‖amp1 m E c1 - amp1 m E a1‖ ≤ e * pertK1 ‖m‖ := by
  have hid : amp1 m E c1 - amp1 m E a1 = (c1 - a1) * m := by simp only [amp1]; ring
  rw [hid, norm_mul]
  exact mul_le_mul_of_nonneg_right h1 (norm_nonneg _)

/-- `κ₂`: `W ≥ ‖E‖`, `q1 ≥ ‖c₁‖`, `a2 ≥ ‖a₂‖` -/
def pertK2 (mm W q1 a2 : ℝ) : ℝ := mm * (1 + (W + q1 * mm + 1) + a2 * mm)

theorem amp2_pert (m E a1 a2 c1 c2 : ℂ) (e W q1 a1B a2B : ℝ) (he : 0 ≤ e) (hE : ‖E‖ ≤ W)
    (ha1 : ‖a1‖ ≤ a1B) (hq1 : a1B + e ≤ q1) (ha2 : ‖a2‖ ≤ a2B)
    (h1 : ‖c1 - a1‖ ≤ e) (h2 : ‖c2 - a2‖ ≤ e) :
    ‖amp2 m E c1 c2 - amp2 m E a1 a2‖ ≤ e * pertK2 ‖m‖ W q1 a2B := by
  have hW : 0 ≤ W := (norm_nonneg _).trans hE
  have ha1B : 0 ≤ a1B := (norm_nonneg _).trans ha1
  have ha2B : 0 ≤ a2B := (norm_nonneg _).trans ha2
  have hq0 : 0 ≤ q1 := by linarith
  have hm : ‖m‖ ≤ ‖m‖ := le_rfl
  have hm0 := norm_nonneg m
  have hc1 : ‖c1‖ ≤ q1 := norm_le_of_close ha1 h1 hq1
  have hA' : ‖E + c1 * m‖ ≤ W + q1 * ‖m‖ := na2 hE (nm2 hc1 hm hq0)
  have hdA : ‖(c1 - a1) * m‖ ≤ e * ‖m‖ := nm2 h1 hm he
  have hid : amp2 m E c1 c2 - amp2 m E a1 a2
      = (c1 - a1) * m + m * ((c2 - a2) * ((E + c1 * m) - 1) + a2 * ((c1 - a1) * m)) := by
    simp only [amp2]; ring
  rw [hid]
  have := na2 hdA (nm2 hm (na2 (nm2 h2 (ns2 hA' one_le') he) (nm2 ha2 hdA ha2B)) hm0)
  refine this.trans (le_of_eq ?_)
  unfold pertK2; ring

/-- `κ₃`: `W ≥ ‖E‖,‖Eh‖`; `a1 ≥ ‖a₁‖`; `q1 ≥ ‖c₁‖`, `qh ≥ ‖c_h‖`; `b2, b3 ≥ ‖b₂‖, ‖b₃‖` -/
def pertK3 (mm W a1 q1 qh b2 b3 : ℝ) : ℝ :=
  mm * (1 + (W + qh * mm) + b2 * mm + (W + q1 * mm * (2 * (W + qh * mm) + 1))
    + b3 * mm * ((2 * (W + qh * mm) + 1) + 2 * a1 * mm))

theorem amp3_pert (m E Eh ah a1 b1 b2 b3 ch c1 cb1 cb2 cb3 : ℂ) (e W ahB a1B q1 qh b2B b3B : ℝ)
    (he : 0 ≤ e) (hE : ‖E‖ ≤ W) (hEh : ‖Eh‖ ≤ W) (hah : ‖ah‖ ≤ ahB) (hqh : ahB + e ≤ qh)
    (ha1 : ‖a1‖ ≤ a1B) (hq1 : a1B + e ≤ q1) (hb2 : ‖b2‖ ≤ b2B) (hb3 : ‖b3‖ ≤ b3B)
    (hh : ‖ch - ah‖ ≤ e) (h1 : ‖c1 - a1‖ ≤ e) (h3 : ‖cb1 - b1‖ ≤ e) (h4 : ‖cb2 - b2‖ ≤ e)
    (h5 : ‖cb3 - b3‖ ≤ e) :
    ‖amp3 m E Eh ch c1 cb1 cb2 cb3 - amp3 m E Eh ah a1 b1 b2 b3‖
      ≤ e * pertK3 ‖m‖ W a1B q1 qh b2B b3B := by
  have hW : 0 ≤ W := (norm_nonneg _).trans hE
  have hahB : 0 ≤ ahB := (norm_nonneg _).trans hah
  have ha1B : 0 ≤ a1B := (norm_nonneg _).trans ha1
  have hb2B : 0 ≤ b2B := (norm_nonneg _).trans hb2
  have hb3B : 0 ≤ b3B := (norm_nonneg _).trans hb3
  have hq10 : 0 ≤ q1 := by linarith
  have hqh0 : 0 ≤ qh := by linarith
  have hm : ‖m‖ ≤ ‖m‖ := le_rfl
  have hm0 := norm_nonneg m
  have hch : ‖ch‖ ≤ qh := norm_le_of_close hah hh hqh
  have hc1 : ‖c1‖ ≤ q1 := norm_le_of_close ha1 h1 hq1
  -- stages
  have hA' : ‖Eh + ch * m‖ ≤ W + qh * ‖m‖ := na2 hEh (nm2 hch hm hqh0)
  have h2A' : ‖2 * (Eh + ch * m) - 1‖ ≤ 2 * (W + qh * ‖m‖) + 1 :=
    ns2 (nm2 two_le hA' (by norm_num)) one_le'
  have hB' : ‖E + c1 * m * (2 * (Eh + ch * m) - 1)‖ ≤ W + q1 * ‖m‖ * (2 * (W + qh * ‖m‖) + 1) :=
    na2 hE (nm2 (nm2 hc1 hm hq10) h2A' (mul_nonneg hq10 hm0))
  have hdA : ‖(ch - ah) * m‖ ≤ e * ‖m‖ := nm2 hh hm he
  have hdB : ‖m * ((c1 - a1) * (2 * (Eh + ch * m) - 1) + a1 * (2 * ((ch - ah) * m)))‖
      ≤ ‖m‖ * (e * (2 * (W + qh * ‖m‖) + 1) + a1B * (2 * (e * ‖m‖))) :=
    nm2 hm (na2 (nm2 h1 h2A' he) (nm2 ha1 (nm2 two_le hdA (by norm_num)) ha1B)) hm0
  have hid : amp3 m E Eh ch c1 cb1 cb2 cb3 - amp3 m E Eh ah a1 b1 b2 b3
      = (cb1 - b1) * m + m * ((cb2 - b2) * (Eh + ch * m) + b2 * ((ch - ah) * m))
        + m * ((cb3 - b3) * (E + c1 * m * (2 * (Eh + ch * m) - 1))
          + b3 * (m * ((c1 - a1) * (2 * (Eh + ch * m) - 1) + a1 * (2 * ((ch - ah) * m))))) := by
    simp only [amp3]; ring
  rw [hid]
  have := na2 (na2 (nm2 h3 hm he) (nm2 hm (na2 (nm2 h4 hA' he) (nm2 hb2 hdA hb2B)) hm0))
    (nm2 hm (na2 (nm2 h5 hB' he) (nm2 hb3 hdB hb3B)) hm0)
  refine this.trans (le_of_eq ?_)
  unfold pertK3; ring

/-- `κ₄`: `W ≥ ‖Eh‖`; `a ≥ ‖a_h‖`; `q ≥ ‖c₁‖,‖c₂‖,‖c₃‖`; `b2, b3 ≥ ‖b₂‖, ‖b₃‖` -/
def pertK4 (mm W a q b2 b3 : ℝ) : ℝ :=
  mm * (1 + 2 * ((W + q * mm) + (W + q * mm * (W + q * mm)))
    + 2 * b2 * mm * (1 + (W + q * mm) + a * mm)
    + (W * (W + q * mm) + q * mm * (2 * (W + q * mm * (W + q * mm)) + 1))
    + b3 * (W * mm + mm * ((2 * (W + q * mm * (W + q * mm)) + 1)
        + 2 * a * mm * ((W + q * mm) + a * mm))))

theorem amp4_pert (m E Eh ah b1 b2 b3 c1 c2 c3 c4 c5 c6 : ℂ) (e W a q b2B b3B : ℝ)
    (he : 0 ≤ e) (hEh : ‖Eh‖ ≤ W) (hah : ‖ah‖ ≤ a) (hq : a + e ≤ q) (hb2 : ‖b2‖ ≤ b2B)
    (hb3 : ‖b3‖ ≤ b3B) (h1 : ‖c1 - ah‖ ≤ e) (h2 : ‖c2 - ah‖ ≤ e) (h3 : ‖c3 - ah‖ ≤ e)
    (h4 : ‖c4 - b1‖ ≤ e) (h5 : ‖c5 - b2‖ ≤ e) (h6 : ‖c6 - b3‖ ≤ e) :
    ‖amp4 m E Eh c1 c2 c3 c4 c5 c6 - amp4 m E Eh ah ah ah b1 b2 b3‖
      ≤ e * pertK4 ‖m‖ W a q b2B b3B := by
  have hW : 0 ≤ W := (norm_nonneg _).trans hEh
  have ha0 : 0 ≤ a := (norm_nonneg _).trans hah
  have hb2B : 0 ≤ b2B := (norm_nonneg _).trans hb2
  have hb3B : 0 ≤ b3B := (norm_nonneg _).trans hb3
  have hq0 : 0 ≤ q := by linarith
  have hm : ‖m‖ ≤ ‖m‖ := le_rfl
  have hm0 := norm_nonneg m
  have hc1 : ‖c1‖ ≤ q := norm_le_of_close hah h1 hq
  have hc2 : ‖c2‖ ≤ q := norm_le_of_close hah h2 hq
  have hc3 : ‖c3‖ ≤ q := norm_le_of_close hah h3 hq
  have hqm : 0 ≤ q * ‖m‖ := mul_nonneg hq0 hm0
  -- perturbed stages
  have hA' : ‖Eh + c1 * m‖ ≤ W + q * ‖m‖ := na2 hEh (nm2 hc1 hm hq0)
  have hB' : ‖Eh + c2 * m * (Eh + c1 * m)‖ ≤ W + q * ‖m‖ * (W + q * ‖m‖) :=
    na2 hEh (nm2 (nm2 hc2 hm hq0) hA' hqm)
  have h2B' : ‖2 * (Eh + c2 * m * (Eh + c1 * m)) - 1‖ ≤ 2 * (W + q * ‖m‖ * (W + q * ‖m‖)) + 1 :=
    ns2 (nm2 two_le hB' (by norm_num)) one_le'
  have hC' : ‖Eh * (Eh + c1 * m) + c3 * m * (2 * (Eh + c2 * m * (Eh + c1 * m)) - 1)‖
      ≤ W * (W + q * ‖m‖) + q * ‖m‖ * (2 * (W + q * ‖m‖ * (W + q * ‖m‖)) + 1) :=
    na2 (nm2 hEh hA' hW) (nm2 (nm2 hc3 hm hq0) h2B' hqm)
  -- stage differences
  have hdA : ‖(c1 - ah) * m‖ ≤ e * ‖m‖ := nm2 h1 hm he
  have hdB : ‖m * ((c2 - ah) * (Eh + c1 * m) + ah * ((c1 - ah) * m))‖
      ≤ ‖m‖ * (e * (W + q * ‖m‖) + a * (e * ‖m‖)) :=
    nm2 hm (na2 (nm2 h2 hA' he) (nm2 hah hdA ha0)) hm0
  have hdC : ‖Eh * ((c1 - ah) * m) + m * ((c3 - ah) * (2 * (Eh + c2 * m * (Eh + c1 * m)) - 1)
        + ah * (2 * (m * ((c2 - ah) * (Eh + c1 * m) + ah * ((c1 - ah) * m)))))‖
      ≤ W * (e * ‖m‖) + ‖m‖ * (e * (2 * (W + q * ‖m‖ * (W + q * ‖m‖)) + 1)
        + a * (2 * (‖m‖ * (e * (W + q * ‖m‖) + a * (e * ‖m‖))))) :=
    na2 (nm2 hEh hdA hW)
      (nm2 hm (na2 (nm2 h3 h2B' he) (nm2 hah (nm2 two_le hdB (by norm_num)) ha0)) hm0)
  have hid : amp4 m E Eh c1 c2 c3 c4 c5 c6 - amp4 m E Eh ah ah ah b1 b2 b3
      = (c4 - b1) * m
        + 2 * (m * ((c5 - b2) * ((Eh + c1 * m) + (Eh + c2 * m * (Eh + c1 * m)))
            + b2 * ((c1 - ah) * m + m * ((c2 - ah) * (Eh + c1 * m) + ah * ((c1 - ah) * m)))))
        + m * ((c6 - b3) * (Eh * (Eh + c1 * m) + c3 * m * (2 * (Eh + c2 * m * (Eh + c1 * m)) - 1))
            + b3 * (Eh * ((c1 - ah) * m) + m * ((c3 - ah) * (2 * (Eh + c2 * m * (Eh + c1 * m)) - 1)
              + ah * (2 * (m * ((c2 - ah) * (Eh + c1 * m) + ah * ((c1 - ah) * m))))))) := by
    simp only [amp4]; ring
  rw [hid]
  have := na2 (na2 (nm2 h4 hm he)
      (nm2 two_le (nm2 hm (na2 (nm2 h5 (na2 hA' hB') he) (nm2 hb2 (na2 hdA hdB) hb2B)) hm0)
        (by norm_num)))
    (nm2 hm (na2 (nm2 h6 hC' he) (nm2 hb3 hdC hb3B)) hm0)
  refine this.trans (le_of_eq ?_)
  unfold pertK4; ring

/-! ### bounds of the exact quantities along the ray -/

theorem norm_exp_ray (x : ℂ) (t T : ℝ) (h0 : 0 ≤ t) (hT : t ≤ T) :
    ‖Complex.exp (x * t)‖ ≤ expMax x.re T := by
  rw [Complex.norm_exp, Complex.re_mul_ofReal]
  exact (le_max_right _ _).trans (max_one_exp_ray x.re t T h0 hT)

theorem norm_exp_ray_half (x : ℂ) (t T : ℝ) (h0 : 0 ≤ t) (hT : t ≤ T) :
    ‖Complex.exp (x * t / 2)‖ ≤ expMax x.re T := by
  have h : x * (t : ℂ) / 2 = x * ((t / 2 : ℝ) : ℂ) := by push_cast; ring
  rw [h]
  exact norm_exp_ray x (t / 2) T (by linarith) (by linarith)

theorem norm_phi1e_ray (x : ℂ) (t T : ℝ) (h0 : 0 ≤ t) (hT : t ≤ T) :
    ‖phi1e (x * t)‖ ≤ expMax x.re T := by
  have h := norm_phiE_ray 0 x t T h0 hT
  rw [phiE_one] at h; simpa using h

theorem norm_phi1e_ray_half (x : ℂ) (t T : ℝ) (h0 : 0 ≤ t) (hT : t ≤ T) :
    ‖phi1e (x * t / 2)‖ ≤ expMax x.re T := by
  have h := norm_phiE_ray_half 0 x t T h0 hT
  rw [phiE_one] at h; simpa using h

theorem norm_phi2e_ray (x : ℂ) (t T : ℝ) (h0 : 0 ≤ t) (hT : t ≤ T) :
    ‖phi2e (x * t)‖ ≤ expMax x.re T / 2 := by
  have h := norm_phiE_ray 1 x t T h0 hT
  rw [phiE_two] at h; simpa [Nat.factorial] using h

theorem norm_phi3e_ray (x : ℂ) (t T : ℝ) (h0 : 0 ≤ t) (hT : t ≤ T) :
    ‖phi3e (x * t)‖ ≤ expMax x.re T / 6 := by
  have h := norm_phiE_ray 2 x t T h0 hT
  rw [phiE_three] at h
  norm_num [Nat.factorial] at h
  exact h

theorem norm_dt_mul_le (dt T : ℝ) (x : ℂ) (X : ℝ) (h0 : 0 ≤ dt) (hT : dt ≤ T) (hx : ‖x‖ ≤ X) :
    ‖(dt : ℂ) * x‖ ≤ T * X := by
  have hX : 0 ≤ X := (norm_nonneg _).trans hx
  rw [norm_mul, Complex.norm_real, Real.norm_eq_abs, abs_of_nonneg h0]
  exact mul_le_mul hT hx (norm_nonneg _) (h0.trans hT)

/-! ### the headline theorems -/

/-- floor constants `D_p = δ·κ_p` -/
def pertD1 (m : ℂ) (δ : ℝ) : ℝ := δ * pertK1 ‖m‖
def pertD2 (l m : ℂ) (T δ : ℝ) : ℝ :=
  δ * pertK2 ‖m‖ (expMax l.re T) (T * (expMax l.re T + δ)) (T * (expMax l.re T / 2))
def pertD3 (l m : ℂ) (T δ : ℝ) : ℝ :=
  δ * pertK3 ‖m‖ (expMax l.re T) (T * expMax l.re T) (T * (expMax l.re T + δ))
    (T * (expMax l.re T / 2 + δ)) (T * (expMax l.re T * (10 / 3))) (T * (expMax l.re T * (7 / 6)))
def pertD4 (l m : ℂ) (T δ : ℝ) : ℝ :=
  δ * pertK4 ‖m‖ (expMax l.re T) (T * (expMax l.re T / 2)) (T * (expMax l.re T / 2 + δ))
    (T * (expMax l.re T * (5 / 6))) (T * (expMax l.re T * (7 / 6)))

theorem pertK1_nonneg (mm : ℝ) (h : 0 ≤ mm) : 0 ≤ pertK1 mm := h
theorem pertK2_nonneg (mm W q1 a2 : ℝ) (h : 0 ≤ mm) (hW : 0 ≤ W) (hq : 0 ≤ q1) (ha : 0 ≤ a2) :
    0 ≤ pertK2 mm W q1 a2 := by unfold pertK2; positivity
theorem pertK3_nonneg (mm W a1 q1 qh b2 b3 : ℝ) (h : 0 ≤ mm) (hW : 0 ≤ W) (h1 : 0 ≤ a1)
    (h2 : 0 ≤ q1) (h3 : 0 ≤ qh) (h4 : 0 ≤ b2) (h5 : 0 ≤ b3) : 0 ≤ pertK3 mm W a1 q1 qh b2 b3 := by
  unfold pertK3; positivity
theorem pertK4_nonneg (mm W a q b2 b3 : ℝ) (h : 0 ≤ mm) (hW : 0 ≤ W) (h1 : 0 ≤ a) (h2 : 0 ≤ q)
    (h4 : 0 ≤ b2) (h5 : 0 ≤ b3) : 0 ≤ pertK4 mm W a q b2 b3 := by
  unfold pertK4; positivity

/-- glue: perturbed amplification within `e·κ` of `R_p`, `R_p` within `Cl·dt^{p+1}` of the exact factor -/
theorem perturbed_global_core (A R s u : ℂ) (step : ℂ → ℂ) (p : ℕ) (Cl D κ δ T dt : ℝ) (n : ℕ)
    (hCl : 0 ≤ Cl) (hκ : 0 ≤ κ) (hδ : 0 ≤ δ) (hD : D = δ * κ) (hdt : 0 ≤ dt) (hn : n * dt ≤ T)
    (hstep : ∀ v, step v = A * v)
    (hpert : 1 ≤ n → ‖A - R‖ ≤ (δ * dt) * κ)
    (hloc : 1 ≤ n → ‖R - Complex.exp (s * dt)‖ ≤ Cl * dt ^ (p + 1)) :
    ‖step^[n] u - Complex.exp (s * (n * dt)) * u‖
      ≤ Cfloor Cl D s p T * (Cl * dt ^ p + D) * ‖u‖ := by
  rw [iterate_mul step A hstep, ← sub_mul, norm_mul]
  refine mul_le_mul_of_nonneg_right ?_ (norm_nonneg u)
  rcases Nat.eq_zero_or_pos n with rfl | hnpos
  · have hT : 0 ≤ T := by simpa using hn
    have hD0 : 0 ≤ D := by rw [hD]; exact mul_nonneg hδ hκ
    simp only [pow_zero, Nat.cast_zero, zero_mul, mul_zero, Complex.exp_zero, sub_self, norm_zero]
    unfold Cfloor; positivity
  have hD0 : 0 ≤ D := by rw [hD]; exact mul_nonneg hδ hκ
  refine global_of_local_floor A s p Cl D T dt n hCl hD0 hdt hn ?_
  have h1 := hpert hnpos
  have h2 := hloc hnpos
  calc ‖A - Complex.exp (s * dt)‖ = ‖(A - R) + (R - Complex.exp (s * dt))‖ := by congr 1; ring
    _ ≤ ‖A - R‖ + ‖R - Complex.exp (s * dt)‖ := norm_add_le _ _
    _ ≤ (δ * dt) * κ + Cl * dt ^ (p + 1) := add_le_add h1 h2
    _ = Cl * dt ^ (p + 1) + D * dt := by rw [hD]; ring

theorem dt_le_T_of_pos {n : ℕ} {dt T : ℝ} (hn1 : 1 ≤ n) (hdt : 0 ≤ dt) (hn : n * dt ≤ T) : dt ≤ T := by
  have : (1 : ℝ) ≤ n := by exact_mod_cast hn1
  nlinarith

/-- **T7, ETDRK1** with a perturbed coefficient -/
theorem E1step_perturbed_global (l m : ℂ) (T δ : ℝ) (hδ : 0 ≤ δ) (n : ℕ) (dt : ℝ) (hdt : 0 ≤ dt)
    (hn : n * dt ≤ T) (c1 : ℂ) (h1 : ‖c1 - dt * phi1e (l * dt)‖ ≤ δ * dt) (u : ℂ) :
    ‖(E1step (Complex.exp (l * dt)) c1 (fun v => m * v))^[n] u
        - Complex.exp ((l + m) * (n * dt)) * u‖
      ≤ Cfloor (Cloc1 l m T) (pertD1 m δ) (l + m) 1 T * (Cloc1 l m T * dt ^ 1 + pertD1 m δ) * ‖u‖ := by
  have hT : 0 ≤ T := le_trans (mul_nonneg (Nat.cast_nonneg n) hdt) hn
  refine perturbed_global_core (amp1 m (Complex.exp (l * dt)) c1) (R1 (l * dt) (m * dt)) (l + m) u _ 1
    (Cloc1 l m T) (pertD1 m δ) (pertK1 ‖m‖) δ T dt n (Cloc1_nonneg l m T hT)
    (pertK1_nonneg _ (norm_nonneg _)) hδ rfl hdt hn (fun v => E1step_amp m _ c1 v) (fun hn1 => ?_)
    (fun hn1 => R1_local_order_explicit l m T dt hdt (dt_le_T_of_pos hn1 hdt hn))
  rw [← amp1_exact (l * dt) dt m]
  exact amp1_pert m _ _ c1 (δ * dt) h1

/-- **T7, ETDRK2** with perturbed coefficients -/
theorem E2step_perturbed_global (l m : ℂ) (T δ : ℝ) (hδ : 0 ≤ δ) (n : ℕ) (dt : ℝ) (hdt : 0 ≤ dt)
    (hn : n * dt ≤ T) (c1 c2 : ℂ) (h1 : ‖c1 - dt * phi1e (l * dt)‖ ≤ δ * dt)
    (h2 : ‖c2 - dt * phi2e (l * dt)‖ ≤ δ * dt) (u : ℂ) :
    ‖(E2step (Complex.exp (l * dt)) c1 c2 (fun v => m * v))^[n] u
        - Complex.exp ((l + m) * (n * dt)) * u‖
      ≤ Cfloor (Cloc2 l m T) (pertD2 l m T δ) (l + m) 2 T
          * (Cloc2 l m T * dt ^ 2 + pertD2 l m T δ) * ‖u‖ := by
  have hT : 0 ≤ T := le_trans (mul_nonneg (Nat.cast_nonneg n) hdt) hn
  have hW := (expMax_pos l.re T).le
  refine perturbed_global_core (amp2 m (Complex.exp (l * dt)) c1 c2) (R2 (l * dt) (m * dt)) (l + m) u _ 2
    (Cloc2 l m T) (pertD2 l m T δ) _ δ T dt n (Cloc2_nonneg l m T hT)
    (pertK2_nonneg _ _ _ _ (norm_nonneg _) hW (by positivity) (by positivity)) hδ rfl hdt hn
    (fun v => E2step_amp m _ c1 c2 v) (fun hn1 => ?_)
    (fun hn1 => R2_local_order_explicit l m T dt hdt (dt_le_T_of_pos hn1 hdt hn))
  have hdtT := dt_le_T_of_pos hn1 hdt hn
  rw [← amp2_exact (l * dt) dt m]
  refine amp2_pert m _ _ _ c1 c2 (δ * dt) (expMax l.re T) _ (T * expMax l.re T) _
    (mul_nonneg hδ hdt) (norm_exp_ray l dt T hdt hdtT)
    (norm_dt_mul_le dt T _ _ hdt hdtT (norm_phi1e_ray l dt T hdt hdtT)) ?_
    (norm_dt_mul_le dt T _ _ hdt hdtT (norm_phi2e_ray l dt T hdt hdtT)) h1 h2
  nlinarith

/-- **T7, ETDRK3** with perturbed coefficients -/
theorem E3step_perturbed_global (l m : ℂ) (T δ : ℝ) (hδ : 0 ≤ δ) (n : ℕ) (dt : ℝ) (hdt : 0 ≤ dt)
    (hn : n * dt ≤ T) (ch c1 cb1 cb2 cb3 : ℂ)
    (hh : ‖ch - dt * (phi1e (l * dt / 2) / 2)‖ ≤ δ * dt)
    (h1 : ‖c1 - dt * phi1e (l * dt)‖ ≤ δ * dt)
    (h3 : ‖cb1 - dt * (phi1e (l * dt) - 3 * phi2e (l * dt) + 4 * phi3e (l * dt))‖ ≤ δ * dt)
    (h4 : ‖cb2 - dt * (4 * phi2e (l * dt) - 8 * phi3e (l * dt))‖ ≤ δ * dt)
    (h5 : ‖cb3 - dt * (4 * phi3e (l * dt) - phi2e (l * dt))‖ ≤ δ * dt) (u : ℂ) :
    ‖(E3step (Complex.exp (l * dt)) (Complex.exp (l * dt / 2)) ch c1 cb1 cb2 cb3 (fun v => m * v))^[n] u
        - Complex.exp ((l + m) * (n * dt)) * u‖
      ≤ Cfloor (Cloc3 l m T) (pertD3 l m T δ) (l + m) 3 T
          * (Cloc3 l m T * dt ^ 3 + pertD3 l m T δ) * ‖u‖ := by
  have hT : 0 ≤ T := le_trans (mul_nonneg (Nat.cast_nonneg n) hdt) hn
  have hW := (expMax_pos l.re T).le
  refine perturbed_global_core (amp3 m (Complex.exp (l * dt)) (Complex.exp (l * dt / 2)) ch c1 cb1 cb2 cb3)
    (R3 (l * dt) (m * dt)) (l + m) u _ 3 (Cloc3 l m T) (pertD3 l m T δ) _ δ T dt n
    (Cloc3_nonneg l m T hT)
    (pertK3_nonneg _ _ _ _ _ _ _ (norm_nonneg _) hW (by positivity) (by positivity) (by positivity)
      (by positivity) (by positivity)) hδ rfl hdt hn
    (fun v => E3step_amp m _ _ ch c1 cb1 cb2 cb3 v) (fun hn1 => ?_)
    (fun hn1 => R3_local_order_explicit l m T dt hdt (dt_le_T_of_pos hn1 hdt hn))
  have hdtT := dt_le_T_of_pos hn1 hdt hn
  have p1 := norm_phi1e_ray l dt T hdt hdtT
  have p2 := norm_phi2e_ray l dt T hdt hdtT
  have p3 := norm_phi3e_ray l dt T hdt hdtT
  have p1h := norm_phi1e_ray_half l dt T hdt hdtT
  have hb2 : ‖4 * phi2e (l * dt) - 8 * phi3e (l * dt)‖ ≤ expMax l.re T * (10 / 3) := by
    have := ns2 (nm2 (by simp : ‖(4 : ℂ)‖ ≤ 4) p2 (by norm_num)) (nm2 (by simp : ‖(8 : ℂ)‖ ≤ 8) p3 (by norm_num))
    linarith
  have hb3 : ‖4 * phi3e (l * dt) - phi2e (l * dt)‖ ≤ expMax l.re T * (7 / 6) := by
    have := ns2 (nm2 (by simp : ‖(4 : ℂ)‖ ≤ 4) p3 (by norm_num)) p2
    linarith
  have hah : ‖phi1e (l * dt / 2) / 2‖ ≤ expMax l.re T / 2 := by
    rw [norm_div]; simpa using div_le_div_of_nonneg_right p1h (by norm_num : (0 : ℝ) ≤ 2)
  rw [← amp3_exact (l * dt) dt m]
  refine amp3_pert m _ _ _ _ _ _ _ ch c1 cb1 cb2 cb3 (δ * dt) (expMax l.re T)
    (T * (expMax l.re T / 2)) (T * expMax l.re T) _ _ _ _
    (mul_nonneg hδ hdt) (norm_exp_ray l dt T hdt hdtT) (norm_exp_ray_half l dt T hdt hdtT)
    (norm_dt_mul_le dt T _ _ hdt hdtT hah) ?_
    (norm_dt_mul_le dt T _ _ hdt hdtT p1) ?_
    (norm_dt_mul_le dt T _ _ hdt hdtT hb2) (norm_dt_mul_le dt T _ _ hdt hdtT hb3) hh h1 h3 h4 h5
  · nlinarith
  · nlinarith

/-- **T7, ETDRK4** with perturbed coefficients (the three stored copies of the half-step coefficient may be
    perturbed independently) -/
theorem E4step_perturbed_global (l m : ℂ) (T δ : ℝ) (hδ : 0 ≤ δ) (n : ℕ) (dt : ℝ) (hdt : 0 ≤ dt)
    (hn : n * dt ≤ T) (c1 c2 c3 c4 c5 c6 : ℂ)
    (h1 : ‖c1 - dt * (phi1e (l * dt / 2) / 2)‖ ≤ δ * dt)
    (h2 : ‖c2 - dt * (phi1e (l * dt / 2) / 2)‖ ≤ δ * dt)
    (h3 : ‖c3 - dt * (phi1e (l * dt / 2) / 2)‖ ≤ δ * dt)
    (h4 : ‖c4 - dt * (phi1e (l * dt) - 3 * phi2e (l * dt) + 4 * phi3e (l * dt))‖ ≤ δ * dt)
    (h5 : ‖c5 - dt * (phi2e (l * dt) - 2 * phi3e (l * dt))‖ ≤ δ * dt)
    (h6 : ‖c6 - dt * (4 * phi3e (l * dt) - phi2e (l * dt))‖ ≤ δ * dt) (u : ℂ) :
    ‖(E4step (Complex.exp (l * dt)) (Complex.exp (l * dt / 2)) c1 c2 c3 c4 c5 c6 (fun v => m * v))^[n] u
        - Complex.exp ((l + m) * (n * dt)) * u‖
      ≤ Cfloor (Cloc4 l m T) (pertD4 l m T δ) (l + m) 4 T
          * (Cloc4 l m T * dt ^ 4 + pertD4 l m T δ) * ‖u‖ := by
  have hT : 0 ≤ T := le_trans (mul_nonneg (Nat.cast_nonneg n) hdt) hn
  have hW := (expMax_pos l.re T).le
  refine perturbed_global_core
    (amp4 m (Complex.exp (l * dt)) (Complex.exp (l * dt / 2)) c1 c2 c3 c4 c5 c6)
    (R4 (l * dt) (m * dt)) (l + m) u _ 4 (Cloc4 l m T) (pertD4 l m T δ) _ δ T dt n
    (Cloc4_nonneg l m T hT)
    (pertK4_nonneg _ _ _ _ _ _ (norm_nonneg _) hW (by positivity) (by positivity) (by positivity)
      (by positivity)) hδ rfl hdt hn
    (fun v => E4step_amp m _ _ c1 c2 c3 c4 c5 c6 v) (fun hn1 => ?_)
    (fun hn1 => R4_local_order_explicit l m T dt hdt (dt_le_T_of_pos hn1 hdt hn))
  have hdtT := dt_le_T_of_pos hn1 hdt hn
  have p2 := norm_phi2e_ray l dt T hdt hdtT
  have p3 := norm_phi3e_ray l dt T hdt hdtT
  have p1h := norm_phi1e_ray_half l dt T hdt hdtT
  have hb2 : ‖phi2e (l * dt) - 2 * phi3e (l * dt)‖ ≤ expMax l.re T * (5 / 6) := by
    have := ns2 p2 (nm2 two_le p3 (by norm_num))
    linarith
  have hb3 : ‖4 * phi3e (l * dt) - phi2e (l * dt)‖ ≤ expMax l.re T * (7 / 6) := by
    have := ns2 (nm2 (by simp : ‖(4 : ℂ)‖ ≤ 4) p3 (by norm_num)) p2
    linarith
  have hah : ‖phi1e (l * dt / 2) / 2‖ ≤ expMax l.re T / 2 := by
    rw [norm_div]; simpa using div_le_div_of_nonneg_right p1h (by norm_num : (0 : ℝ) ≤ 2)
  rw [← amp4_exact (l * dt) dt m]
  refine amp4_pert m _ _ _ _ _ _ c1 c2 c3 c4 c5 c6 (δ * dt) (expMax l.re T)
    (T * (expMax l.re T / 2)) _ _ _
    (mul_nonneg hδ hdt) (norm_exp_ray_half l dt T hdt hdtT)
    (norm_dt_mul_le dt T _ _ hdt hdtT hah) ?_
    (norm_dt_mul_le dt T _ _ hdt hdtT hb2) (norm_dt_mul_le dt T _ _ hdt hdtT hb3) h1 h2 h3 h4 h5 h6
  nlinarith

/-! ### the shape `C'·dt^p + C''·δ` -/

/-- the bound of the headline theorems split into the order term and the floor term -/
theorem floor_split (Cf Cl κ δ dt : ℝ) (p : ℕ) (nu : ℝ) :
    Cf * (Cl * dt ^ p + δ * κ) * nu = (Cf * Cl) * dt ^ p * nu + (Cf * κ) * δ * nu := by ring

/-! ### non-vacuity: the exact coefficients are an admissible perturbation (`δ = 0`), and so is `+ δ·dt` -/
example : ∃ (l : ℂ) (dt δ : ℝ) (c1 : ℂ), 0 < δ ∧ 0 < dt ∧ c1 ≠ dt * phi1e (l * dt) ∧
    ‖c1 - dt * phi1e (l * dt)‖ ≤ δ * dt := by
  refine ⟨-1, 1, 1, (1 : ℝ) * phi1e (-1 * (1 : ℝ)) + 1, one_pos, one_pos, ?_, ?_⟩
  · intro h
    have : (1 : ℂ) = 0 := by linear_combination h
    exact one_ne_zero this
  · simp

end Exponax.LinearOrder
end
