import ExponaxModel.Proofs.MetricsAlgebra
import ExponaxModel.Proofs.MetricsGenEq
/-
The metric laws (zero for identical inputs, positivity, symmetry, homogeneity / scale freedom) for the NAMED
spatial metrics regenerated from `exponax/metrics/_spatial.py` (`Gen.MetricsGen.MSE`, `RMSE`, `MAE`, `nMSE`, …),
over `ℝ`, on multi-channel states `List (Array ℝ)`.  Route: `MetricsGenEq.*_eq` (regenerated = model), then the
model lemmas of `MetricsAlgebra.lean`.
-/
set_option linter.unusedVariables false
namespace Exponax.MetricsGenAxioms
open Exponax Exponax.Layout Exponax.Transform Exponax.Gen Exponax.Gen.Prelude Exponax.Metrics
open Exponax.Gen.MetricsGen

/-- common scaling `a • u` of a multi-channel state -/
def scaleState (a : ℝ) (u : List (Array ℝ)) : List (Array ℝ) := u.map (fun c => c.map (fun x => a * x))

/-- the two states have the same number of channels and channel by channel the same number of entries -/
def SameShape (u r : List (Array ℝ)) : Prop := List.Forall₂ (fun a b => a.size = b.size) u r

/-- every channel is a whole `(N,)*D` array -/
def OnGrid (D N : ℕ) (u : List (Array ℝ)) : Prop := ∀ a ∈ u, a.size = N ^ D

theorem sameShape_of_grid (D N : ℕ) (u r : List (Array ℝ)) (hlen : u.length = r.length) (hu : OnGrid D N u)
    (hr : OnGrid D N r) : SameShape u r := by
  unfold SameShape
  induction u generalizing r with
  | nil =>
    cases r with
    | nil => exact List.Forall₂.nil
    | cons b r => simp at hlen
  | cons a u ih =>
    cases r with
    | nil => simp at hlen
    | cons b r =>
      refine List.Forall₂.cons ?_ (ih r (by simpa using hlen) ?_ ?_)
      · rw [hu a (by simp), hr b (by simp)]
      · intro x hx; exact hu x (by simp [hx])
      · intro x hx; exact hr x (by simp [hx])

theorem sameShape_refl (u : List (Array ℝ)) : SameShape u u := by
  unfold SameShape
  induction u with
  | nil => exact List.Forall₂.nil
  | cons a u ih => exact List.Forall₂.cons rfl ih

theorem sameShape_scale (t : ℝ) (u r : List (Array ℝ)) (h : SameShape u r) :
    SameShape (scaleState t u) (scaleState t r) := by
  unfold SameShape at *
  induction h with
  | nil => exact List.Forall₂.nil
  | cons hab _ ih => exact List.Forall₂.cons (by simpa using hab) ih

theorem onGrid_scale (D N : ℕ) (t : ℝ) (u : List (Array ℝ)) (h : OnGrid D N u) : OnGrid D N (scaleState t u) := by
  intro a ha
  simp only [scaleState, List.mem_map] at ha
  obtain ⟨c, hc, rfl⟩ := ha
  simpa using h c hc

/-! ### one channel -/

/-- the difference channel `a − b` of `spatial_norm` -/
def subChan (a b : Array ℝ) : Array ℝ := tab a.size (fun j => a.getD j 0 - b.getD j 0)

theorem chanSub_cons (a b : Array ℝ) (u r : List (Array ℝ)) :
    chanSub (a :: u) (b :: r) = subChan a b :: chanSub u r := rfl

theorem chanSub_nil_left (r : List (Array ℝ)) : chanSub ([] : List (Array ℝ)) r = [] := rfl

theorem chanSub_nil_right (u : List (Array ℝ)) : chanSub u ([] : List (Array ℝ)) = [] := by
  simp [chanSub]

theorem chanAgg_cons (D N : ℕ) (L p q : ℝ) (a : Array ℝ) (u : List (Array ℝ)) :
    chanAgg D N L p q (a :: u) = spatialAggregator D N L p q a :: chanAgg D N L p q u := rfl

theorem chanAgg_nil (D N : ℕ) (L p q : ℝ) : chanAgg D N L p q ([] : List (Array ℝ)) = [] := rfl

theorem tab_map {α β : Type} (n : ℕ) (f : ℕ → α) (g : α → β) : (tab n f).map g = tab n (fun j => g (f j)) := by
  simp [tab, Function.comp_def]

theorem subChan_scale (t : ℝ) (a b : Array ℝ) :
    subChan (a.map fun x => t * x) (b.map fun x => t * x) = (subChan a b).map fun x => t * x := by
  unfold subChan
  rw [Array.size_map, tab_map]
  apply tab_congr
  intro i _
  rw [map_mul_getD, map_mul_getD, mul_sub]

theorem subChan_comm (D N : ℕ) (L p q : ℝ) (a b : Array ℝ) (h : a.size = b.size) :
    spatialAggregator D N L p q (subChan a b) = spatialAggregator D N L p q (subChan b a) := by
  unfold subChan
  rw [← h]
  exact spatialAggregator_sub_comm_tab D N a.size L p q a b

theorem subChan_self (a : Array ℝ) : subChan a a = tab a.size (fun _ => (0 : ℝ)) := by
  unfold subChan
  apply tab_congr
  intro i _
  exact sub_self _

theorem tab_getD_lt {α : Type} (n : ℕ) (f : ℕ → α) (d : α) (j : ℕ) (hj : j < n) : (tab n f).getD j d = f j := by
  simp [tab, Array.getD, hj]

theorem tab_size' {α : Type} (n : ℕ) (f : ℕ → α) : (tab n f).size = n := by simp [tab]

/-- the aggregate of the zero channel is zero (non-zero exponents) -/
theorem spatialAggregator_zero_chan (D N n : ℕ) (L p q : ℝ) (hp : p ≠ 0) (hq : q ≠ 0) :
    spatialAggregator D N L p q (tab n (fun _ => (0 : ℝ))) = 0 := by
  rw [spatialAggregator_eq_sum, tab_size']
  have : ∑ j ∈ Finset.range n, |(tab n (fun _ => (0 : ℝ))).getD j 0| ^ p = 0 := by
    apply Finset.sum_eq_zero
    intro j hj
    rw [tab_getD_lt n _ 0 j (Finset.mem_range.mp hj), abs_zero, Real.zero_rpow hp]
  rw [this, mul_zero, Real.zero_rpow hq]

/-- the entries of `a − b` all vanish iff `a = b` (same size) -/
theorem subChan_allzero_iff (a b : Array ℝ) (h : a.size = b.size) :
    (∀ x ∈ (subChan a b).toList, x = 0) ↔ a = b := by
  constructor
  · intro hz
    apply Array.ext h
    intro i hi hi'
    have hmem : a.getD i 0 - b.getD i 0 ∈ (subChan a b).toList := by
      simp only [subChan, tab, Array.toList_map, Array.toList_range, List.mem_map, List.mem_range]
      exact ⟨i, hi, rfl⟩
    have h0 := hz _ hmem
    simp only [Array.getD, hi, hi', dif_pos] at h0
    simpa using sub_eq_zero.mp h0
  · rintro rfl x hx
    rw [subChan_self] at hx
    simp only [tab, Array.toList_map, List.mem_map] at hx
    obtain ⟨j, _, rfl⟩ := hx
    rfl

/-! ### per-channel lists -/

theorem chanSub_scale (t : ℝ) (u r : List (Array ℝ)) :
    chanSub (scaleState t u) (scaleState t r) = scaleState t (chanSub u r) := by
  induction u generalizing r with
  | nil => rfl
  | cons a u ih =>
    cases r with
    | nil => simp [scaleState, chanSub]
    | cons b r =>
      have := ih r
      simp only [scaleState, List.map_cons, chanSub_cons] at this ⊢
      rw [this, subChan_scale]

theorem chanAgg_scale (D N : ℕ) (L p q t : ℝ) (hL : 0 ≤ L) (d : List (Array ℝ)) :
    chanAgg D N L p q (scaleState t d) = (chanAgg D N L p q d).map (fun x => |t| ^ (p * q) * x) := by
  induction d with
  | nil => rfl
  | cons a d ih =>
    simp only [scaleState, List.map_cons, chanAgg_cons] at ih ⊢
    rw [ih, spatialAggregator_smul D N L p q t hL]

theorem chanAgg_chanSub_comm (D N : ℕ) (L p q : ℝ) (u r : List (Array ℝ)) (h : SameShape u r) :
    chanAgg D N L p q (chanSub u r) = chanAgg D N L p q (chanSub r u) := by
  unfold SameShape at h
  induction h with
  | nil => rfl
  | cons hab _ ih =>
    rw [chanSub_cons, chanSub_cons, chanAgg_cons, chanAgg_cons, ih, subChan_comm D N L p q _ _ hab]

theorem chanAgg_chanSub_self (D N : ℕ) (L p q : ℝ) (hp : p ≠ 0) (hq : q ≠ 0) (u : List (Array ℝ)) :
    ∀ x ∈ chanAgg D N L p q (chanSub u u), x = 0 := by
  induction u with
  | nil => intro x hx; simp [chanSub_nil_left, chanAgg_nil] at hx
  | cons a u ih =>
    intro x hx
    rw [chanSub_cons, chanAgg_cons, List.mem_cons] at hx
    rcases hx with rfl | hx
    · rw [subChan_self, spatialAggregator_zero_chan D N _ L p q hp hq]
    · exact ih x hx

theorem chanAgg_nonneg (D N : ℕ) (L p q : ℝ) (hL : 0 ≤ L) (d : List (Array ℝ)) :
    ∀ x ∈ chanAgg D N L p q d, 0 ≤ x := by
  intro x hx
  simp only [chanAgg, List.mem_map] at hx
  obtain ⟨a, _, rfl⟩ := hx
  exact spatialAggregator_nonneg D N L p q hL a

/-! ### the model value `spatialModel` -/

theorem getD_eq_zero_of_all_zero (dn : List ℝ) (h : ∀ x ∈ dn, x = 0) (c : ℕ) : dn.getD c 0 = 0 := by
  rw [List.getD_eq_getElem?_getD]
  by_cases hc : c < dn.length
  · rw [List.getElem?_eq_getElem hc]
    exact h _ (List.getElem_mem hc)
  · rw [List.getElem?_eq_none (by omega)]
    rfl

theorem combine_of_dn_zero (mode : ℕ) (dn rn sn : List ℝ) (h : ∀ x ∈ dn, x = 0) : combine mode dn rn sn = 0 := by
  rw [combine_eq_sum]
  apply Finset.sum_eq_zero
  intro c _
  rw [getD_eq_zero_of_all_zero dn h c]
  split_ifs <;> simp

/-- ZERO: every spatial metric of a state against itself is zero -/
theorem spatialModel_self (code D N : ℕ) (L p q : ℝ) (hp : p ≠ 0) (hq : q ≠ 0) (u : List (Array ℝ)) :
    spatialModel code D N L p q u u = 0 :=
  combine_of_dn_zero code _ _ _ (chanAgg_chanSub_self D N L p q hp hq u)

/-- SYMMETRY of the absolute metrics -/
theorem spatialModel_zero_symm (D N : ℕ) (L p q : ℝ) (u r : List (Array ℝ)) (h : SameShape u r) :
    spatialModel 0 D N L p q u r = spatialModel 0 D N L p q r u := by
  unfold spatialModel
  rw [Metrics.combine_zero, Metrics.combine_zero, chanAgg_chanSub_comm D N L p q u r h]

/-- SYMMETRY of the symmetric metrics -/
theorem spatialModel_two_symm (D N : ℕ) (L p q : ℝ) (u r : List (Array ℝ)) (h : SameShape u r) :
    spatialModel 2 D N L p q u r = spatialModel 2 D N L p q r u := by
  unfold spatialModel
  rw [chanAgg_chanSub_comm D N L p q u r h, combine_two_symm]

/-- HOMOGENEITY of the absolute metrics: degree `p·q` -/
theorem spatialModel_zero_scale (D N : ℕ) (L p q t : ℝ) (hL : 0 ≤ L) (u r : List (Array ℝ)) :
    spatialModel 0 D N L p q (scaleState t u) (scaleState t r) = |t| ^ (p * q) * spatialModel 0 D N L p q u r := by
  unfold spatialModel
  rw [Metrics.combine_zero, Metrics.combine_zero, chanSub_scale, chanAgg_scale D N L p q t hL, List.sum_map_mul_left, List.map_id']

/-- … also without a reference state -/
theorem combine_zero_scale (D N : ℕ) (L p q t : ℝ) (hL : 0 ≤ L) (u : List (Array ℝ)) :
    combine 0 (chanAgg D N L p q (scaleState t u)) [] [] = |t| ^ (p * q) * combine 0 (chanAgg D N L p q u) [] [] := by
  rw [Metrics.combine_zero, Metrics.combine_zero, chanAgg_scale D N L p q t hL, List.sum_map_mul_left, List.map_id']

/-- SCALE FREEDOM of the normalized metrics -/
theorem spatialModel_one_scale (D N : ℕ) (L p q t : ℝ) (hL : 0 ≤ L) (ht : t ≠ 0) (u r : List (Array ℝ)) :
    spatialModel 1 D N L p q (scaleState t u) (scaleState t r) = spatialModel 1 D N L p q u r := by
  unfold spatialModel
  rw [chanSub_scale, chanAgg_scale D N L p q t hL, chanAgg_scale D N L p q t hL, chanAgg_scale D N L p q t hL]
  exact combine_one_scale_free _ (Real.rpow_pos_of_pos (abs_pos.mpr ht) _).ne' _ _ _

/-- SCALE FREEDOM of the symmetric metrics -/
theorem spatialModel_two_scale (D N : ℕ) (L p q t : ℝ) (hL : 0 ≤ L) (ht : t ≠ 0) (u r : List (Array ℝ)) :
    spatialModel 2 D N L p q (scaleState t u) (scaleState t r) = spatialModel 2 D N L p q u r := by
  unfold spatialModel
  rw [chanSub_scale, chanAgg_scale D N L p q t hL, chanAgg_scale D N L p q t hL, chanAgg_scale D N L p q t hL]
  exact combine_two_scale_free _ (Real.rpow_pos_of_pos (abs_pos.mpr ht) _).ne' _ _ _

/-- POSITIVITY of the absolute metrics: non-negative, and zero exactly for identical states -/
theorem spatialModel_zero_nonneg_eq_zero_iff (D N : ℕ) (L p q : ℝ) (hp : 0 < p) (hq : 0 < q) (hL : 0 < L) (hN : 0 < N)
    (u r : List (Array ℝ)) (h : SameShape u r) :
    0 ≤ spatialModel 0 D N L p q u r ∧ (spatialModel 0 D N L p q u r = 0 ↔ u = r) := by
  unfold spatialModel
  rw [Metrics.combine_zero]
  unfold SameShape at h
  induction h with
  | nil => simp [chanSub_nil_left, chanAgg_nil]
  | @cons a b u r hab _ ih =>
    rw [chanSub_cons, chanAgg_cons, List.sum_cons]
    have h1 : 0 ≤ spatialAggregator D N L p q (subChan a b) := spatialAggregator_nonneg D N L p q hL.le _
    refine ⟨add_nonneg h1 ih.1, ?_⟩
    rw [add_eq_zero_iff_of_nonneg h1 ih.1, ih.2, spatialAggregator_eq_zero_iff D N L p q hp hq hL hN,
      subChan_allzero_iff a b hab]
    constructor
    · rintro ⟨rfl, rfl⟩; rfl
    · intro he; injection he with h1 h2; exact ⟨h1, h2⟩

theorem spatialModel_zero_pos (D N : ℕ) (L p q : ℝ) (hp : 0 < p) (hq : 0 < q) (hL : 0 < L) (hN : 0 < N)
    (u r : List (Array ℝ)) (h : SameShape u r) (hne : u ≠ r) : 0 < spatialModel 0 D N L p q u r := by
  obtain ⟨h0, hiff⟩ := spatialModel_zero_nonneg_eq_zero_iff D N L p q hp hq hL hN u r h
  exact lt_of_le_of_ne h0 (fun he => hne (hiff.mp he.symm))


/-! ### relative (normalized / symmetric) metrics: cons form and positivity -/

theorem combine_cons (mode : ℕ) (d r s : ℝ) (dn rn sn : List ℝ) :
    combine mode (d :: dn) (r :: rn) (s :: sn)
      = (if mode = 1 then d / r else if mode = 2 then 2 * d / (s + r) else d) + combine mode dn rn sn := by
  rw [combine_eq_sum, combine_eq_sum, List.length_cons, Finset.sum_range_succ', add_comm]
  simp only [List.getD_cons_zero, List.getD_cons_succ]

theorem spatialModel_cons (code D N : ℕ) (L p q : ℝ) (a b : Array ℝ) (u r : List (Array ℝ)) :
    spatialModel code D N L p q (a :: u) (b :: r)
      = (if code = 1 then spatialAggregator D N L p q (subChan a b) / spatialAggregator D N L p q b
         else if code = 2 then 2 * spatialAggregator D N L p q (subChan a b)
            / (spatialAggregator D N L p q a + spatialAggregator D N L p q b)
         else spatialAggregator D N L p q (subChan a b)) + spatialModel code D N L p q u r := by
  unfold spatialModel
  rw [chanSub_cons, chanAgg_cons, chanAgg_cons, chanAgg_cons, combine_cons]

theorem spatialModel_nil (code D N : ℕ) (L p q : ℝ) : spatialModel code D N L p q [] [] = 0 := by
  unfold spatialModel
  rw [combine_eq_sum]
  simp [chanSub_nil_left, chanAgg_nil]

/-- every channel of the state has a non-zero entry (the denominators of the relative metrics are positive) -/
def ChannelsNonzero (r : List (Array ℝ)) : Prop := ∀ b ∈ r, ∃ x ∈ b.toList, x ≠ 0

/-- POSITIVITY of the normalized metrics (reference channels not identically zero) -/
theorem spatialModel_one_nonneg_eq_zero_iff (D N : ℕ) (L p q : ℝ) (hp : 0 < p) (hq : 0 < q) (hL : 0 < L) (hN : 0 < N)
    (u r : List (Array ℝ)) (h : SameShape u r) (hr : ChannelsNonzero r) :
    0 ≤ spatialModel 1 D N L p q u r ∧ (spatialModel 1 D N L p q u r = 0 ↔ u = r) := by
  unfold SameShape at h
  unfold ChannelsNonzero at hr
  revert hr
  induction h with
  | nil => intro _; simp [spatialModel_nil]
  | @cons a b u r hab _ ih =>
    intro hr
    have ih' := ih (fun c hc => hr c (List.mem_cons_of_mem _ hc))
    have hb : 0 < spatialAggregator D N L p q b :=
      spatialAggregator_pos D N L p q hp hq hL hN b (hr b (by simp))
    have hd : 0 ≤ spatialAggregator D N L p q (subChan a b) := spatialAggregator_nonneg D N L p q hL.le _
    rw [spatialModel_cons]
    simp only [if_true]
    have h1 : 0 ≤ spatialAggregator D N L p q (subChan a b) / spatialAggregator D N L p q b :=
      div_nonneg hd hb.le
    refine ⟨add_nonneg h1 ih'.1, ?_⟩
    rw [add_eq_zero_iff_of_nonneg h1 ih'.1, ih'.2, div_eq_zero_iff,
      spatialAggregator_eq_zero_iff D N L p q hp hq hL hN, subChan_allzero_iff a b hab]
    constructor
    · rintro ⟨h1 | h1, rfl⟩
      · rw [h1]
      · exact absurd h1 hb.ne'
    · intro he; injection he with h1 h2; exact ⟨Or.inl h1, h2⟩

/-- POSITIVITY of the symmetric metrics (reference channels not identically zero) -/
theorem spatialModel_two_nonneg_eq_zero_iff (D N : ℕ) (L p q : ℝ) (hp : 0 < p) (hq : 0 < q) (hL : 0 < L) (hN : 0 < N)
    (u r : List (Array ℝ)) (h : SameShape u r) (hr : ChannelsNonzero r) :
    0 ≤ spatialModel 2 D N L p q u r ∧ (spatialModel 2 D N L p q u r = 0 ↔ u = r) := by
  unfold SameShape at h
  unfold ChannelsNonzero at hr
  revert hr
  induction h with
  | nil => intro _; simp [spatialModel_nil]
  | @cons a b u r hab _ ih =>
    intro hr
    have ih' := ih (fun c hc => hr c (List.mem_cons_of_mem _ hc))
    have hb : 0 < spatialAggregator D N L p q b :=
      spatialAggregator_pos D N L p q hp hq hL hN b (hr b (by simp))
    have ha : 0 ≤ spatialAggregator D N L p q a := spatialAggregator_nonneg D N L p q hL.le _
    have hab' : 0 < spatialAggregator D N L p q a + spatialAggregator D N L p q b := by linarith
    have hd : 0 ≤ spatialAggregator D N L p q (subChan a b) := spatialAggregator_nonneg D N L p q hL.le _
    rw [spatialModel_cons]
    simp only [show ¬ ((2 : ℕ) = 1) by decide, if_false, if_true]
    have h1 : 0 ≤ 2 * spatialAggregator D N L p q (subChan a b)
        / (spatialAggregator D N L p q a + spatialAggregator D N L p q b) :=
      div_nonneg (mul_nonneg (by norm_num) hd) hab'.le
    refine ⟨add_nonneg h1 ih'.1, ?_⟩
    rw [add_eq_zero_iff_of_nonneg h1 ih'.1, ih'.2, div_eq_zero_iff, mul_eq_zero,
      spatialAggregator_eq_zero_iff D N L p q hp hq hL hN, subChan_allzero_iff a b hab]
    constructor
    · rintro ⟨(h1 | h1) | h1, rfl⟩
      · norm_num at h1
      · rw [h1]
      · exact absurd h1 hab'.ne'
    · intro he; injection he with h1 h2; exact ⟨Or.inl (Or.inr h1), h2⟩

/-! ### constant channels: the normalized metrics are NOT symmetric -/

/-- the constant channel `c` on `n` points -/
def constChan (n : ℕ) (c : ℝ) : Array ℝ := tab n (fun _ => c)

theorem spatialAggregator_const (D N n : ℕ) (L p q c : ℝ) :
    spatialAggregator D N L p q (constChan n c) = ((L / (N : ℝ)) ^ D * ((n : ℝ) * |c| ^ p)) ^ q := by
  unfold constChan
  rw [spatialAggregator_eq_sum, tab_size']
  have : ∑ j ∈ Finset.range n, |(tab n (fun _ => c)).getD j 0| ^ p = (n : ℝ) * |c| ^ p := by
    rw [Finset.sum_congr rfl (fun j hj => by rw [tab_getD_lt n _ 0 j (Finset.mem_range.mp hj)]),
      Finset.sum_const, Finset.card_range, nsmul_eq_mul]
  rw [this]

theorem subChan_const (n : ℕ) (c d : ℝ) : subChan (constChan n c) (constChan n d) = constChan n (c - d) := by
  unfold subChan constChan
  rw [tab_size']
  apply tab_congr
  intro i hi
  rw [tab_getD_lt n _ 0 i hi, tab_getD_lt n _ 0 i hi]

/-- normalized metric (outer exponent 1) of two constant one-channel states -/
theorem spatialModel_one_const (D N n : ℕ) (L p c d : ℝ) :
    spatialModel 1 D N L p 1 [constChan n c] [constChan n d]
      = ((L / (N : ℝ)) ^ D * ((n : ℝ) * |c - d| ^ p)) / ((L / (N : ℝ)) ^ D * ((n : ℝ) * |d| ^ p)) := by
  rw [spatialModel_cons, spatialModel_nil]
  simp only [if_true, add_zero]
  rw [subChan_const, spatialAggregator_const, spatialAggregator_const, Real.rpow_one, Real.rpow_one]

theorem onGrid_const (D N : ℕ) (c : ℝ) : OnGrid D N [constChan (N ^ D) c] := by
  intro a ha
  rw [List.mem_singleton] at ha
  rw [ha]; exact tab_size' _ _

/-! ### literals -/

theorem lit_one_real : (lit 1 : ℝ) = 1 := by simp
theorem lit_two_pos : (0 : ℝ) < lit 2 := by rw [lit_two_real]; norm_num
theorem lit_one_pos : (0 : ℝ) < lit 1 := by rw [lit_one_real]; norm_num
theorem qlit_half_pos : (0 : ℝ) < qlit 1 2 := by rw [qlit_half_real]; norm_num

theorem abs_rpow_two_one (t : ℝ) : |t| ^ ((lit 2 : ℝ) * lit 1) = t ^ 2 := by
  rw [lit_two_real, lit_one_real, mul_one, Real.rpow_two, sq_abs]
theorem abs_rpow_two_half (t : ℝ) : |t| ^ ((lit 2 : ℝ) * qlit 1 2) = |t| := by
  rw [lit_two_real, qlit_half_real]; norm_num
theorem abs_rpow_one_one (t : ℝ) : |t| ^ ((lit 1 : ℝ) * lit 1) = |t| := by
  rw [lit_one_real]; norm_num

end Exponax.MetricsGenAxioms
