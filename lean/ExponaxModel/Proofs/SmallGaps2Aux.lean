import Mathlib.Tactic
import ExponaxModel.Model.Loops
import ExponaxModel.Proofs.LoopsGenEq
/-
H2 (C14) — `rollout` with a VARIABLE auxiliary sequence and `include_init = True`:
entry 0 is the initial state, entry `i+1` is the state after consuming `aux[0..i]` (in order);
uniformly: entry `i` is the left fold of the stepper over the first `i` auxiliary inputs.
Also for the rollout REGENERATED from `exponax/_utils.py` (`Gen.LoopsGen.rollout_aux_sequence`), including
the rejected case (`jax.lax.scan(..., length = n)` raises unless the aux sequence has exactly `n` entries).
-/
set_option linter.unusedVariables false
namespace Exponax.SmallGaps2
open Exponax.Loops

variable {S A : Type}

theorem scanStatesAux_length' (f : S → A → S) (as : List A) (u : S) :
    (scanStatesAux f as u).length = as.length := by
  induction as generalizing u with
  | nil => rfl
  | cons a as ih => simp [scanStatesAux, ih]

theorem scanStatesAux_getElem' (f : S → A → S) (as : List A) (u : S) (i : ℕ)
    (h : i < (scanStatesAux f as u).length) :
    (scanStatesAux f as u)[i] = (as.take (i + 1)).foldl f u := by
  induction as generalizing u i with
  | nil => simp [scanStatesAux] at h
  | cons a as ih =>
    cases i with
    | zero => simp [scanStatesAux]
    | succ i =>
      simp only [scanStatesAux, List.getElem_cons_succ]
      rw [ih]
      simp [List.take_succ_cons]

/-- the length of the rollout with a variable aux sequence (any `include_init`, any aux length: the model
    consumes `aux.take n`) -/
theorem rolloutAux_length (f : S → A → S) (n : ℕ) (b : Bool) (u0 : S) (aux : List A) :
    (rolloutAux f n b false u0 aux).length = min n aux.length + (if b then 1 else 0) := by
  cases b <;> simp [rolloutAux, scanStatesAux_length']

/-- **variable aux with `include_init = True`**: `n+1` entries; entry `i` is the left fold of the stepper over
    the first `i` auxiliary inputs -/
theorem aux_order_init (f : S → A → S) (n : ℕ) (u0 : S) (aux : List A) (hn : n ≤ aux.length) :
    (rolloutAux f n true false u0 aux).length = n + 1 ∧
    ∀ i (h : i < (rolloutAux f n true false u0 aux).length),
      (rolloutAux f n true false u0 aux)[i] = (aux.take i).foldl f u0 := by
  constructor
  · simp [rolloutAux, scanStatesAux_length', hn]
  · intro i h
    simp only [rolloutAux, Bool.false_eq_true, if_false, if_true] at h ⊢
    cases i with
    | zero => simp
    | succ i =>
      simp only [List.getElem_cons_succ]
      rw [scanStatesAux_getElem']
      have hi : i < n := by simpa [scanStatesAux_length', hn] using h
      rw [List.take_take]
      congr 2
      omega

/-- the same, spelled out: entry 0 is the initial state; entry `i+1` is the stepper applied to entry `i` and
    the `i`-th auxiliary input (so the inputs are consumed one per step, in order) -/
theorem aux_order_init_rec (f : S → A → S) (n : ℕ) (u0 : S) (aux : List A) (hn : n ≤ aux.length) :
    (rolloutAux f n true false u0 aux)[0]'(by rw [(aux_order_init f n u0 aux hn).1]; omega) = u0 ∧
    ∀ i (hi : i < n),
      (rolloutAux f n true false u0 aux)[i + 1]'(by rw [(aux_order_init f n u0 aux hn).1]; omega)
        = f ((rolloutAux f n true false u0 aux)[i]'(by rw [(aux_order_init f n u0 aux hn).1]; omega))
            (aux[i]'(by omega)) := by
  have h := aux_order_init f n u0 aux hn
  refine ⟨by rw [h.2]; rfl, ?_⟩
  intro i hi
  rw [h.2, h.2]
  have hia : i < aux.length := by omega
  rw [List.take_add_one, List.foldl_append, List.getElem?_eq_getElem hia]
  rfl

/-- the `include_init = True` trajectory is the initial state followed by the `include_init = False` one -/
theorem aux_init_cons (f : S → A → S) (n : ℕ) (c : Bool) (u0 : S) (aux : List A) :
    rolloutAux f n true c u0 aux = u0 :: rolloutAux f n false c u0 aux := by
  simp [rolloutAux]

/-- the last entry is `repeat(…, takes_aux=True)(u0, aux)` -/
theorem aux_init_last (f : S → A → S) (n : ℕ) (u0 : S) (aux : List A) (hn : n ≤ aux.length) :
    (rolloutAux f n true false u0 aux).getLast? = some (repeatAux f n false u0 aux) := by
  have h := aux_order_init f n u0 aux hn
  rw [List.getLast?_eq_getElem?, h.1]
  simp only [Nat.add_sub_cancel]
  rw [List.getElem?_eq_getElem (by rw [h.1]; omega), h.2]
  simp [repeatAux]

/-! ### the REGENERATED rollout with a variable aux sequence -/
open Exponax.Gen.LoopsGen

/-- **generated `rollout(…, takes_aux=True, constant_aux=False, include_init=b)`**: it is `some` exactly when
    the aux sequence has `n` entries, and then has `n (+1)` entries, entry `i` being the fold over the first
    `i (+1)` aux inputs -/
theorem generated_aux_sequence (f : S → A → S) (n : ℕ) (b : Bool) (u0 : S) (aux : List A) :
    (aux.length ≠ n → rollout_aux_sequence f n b u0 aux = none) ∧
    (aux.length = n → ∃ trj, rollout_aux_sequence f n b u0 aux = some trj ∧
        trj = rolloutAux f n b false u0 aux ∧
        trj.length = n + (if b then 1 else 0) ∧
        ∀ i (h : i < trj.length), trj[i] = (aux.take (i + (if b then 0 else 1))).foldl f u0) := by
  refine ⟨rollout_aux_sequence_none f n b u0 aux, ?_⟩
  intro h
  refine ⟨_, rollout_aux_sequence_eq_partial f n b u0 aux h, rfl, ?_, ?_⟩
  · rw [rolloutAux_length, h, Nat.min_self]
  · intro i hi
    cases b with
    | true =>
      simp only [if_true, Nat.add_zero]
      exact (aux_order_init f n u0 aux (le_of_eq h.symm)).2 i hi
    | false =>
      simp only [Bool.false_eq_true, if_false]
      simp only [rolloutAux, Bool.false_eq_true, if_false] at hi ⊢
      rw [scanStatesAux_getElem']
      have hi' : i < n := by simpa [scanStatesAux_length', h] using hi
      rw [List.take_take]
      congr 2
      omega

/-- generated, `include_init = True`: the headline statement -/
theorem generated_aux_sequence_init (f : S → A → S) (n : ℕ) (u0 : S) (aux : List A) (h : aux.length = n) :
    ∃ trj, rollout_aux_sequence f n true u0 aux = some trj ∧ trj.length = n + 1 ∧
      trj[0]? = some u0 ∧
      ∀ i (hi : i < n), trj[i + 1]? = some ((aux.take (i + 1)).foldl f u0) := by
  obtain ⟨trj, h1, h2, h3, h4⟩ := (generated_aux_sequence f n true u0 aux).2 h
  simp only [if_true, Nat.add_zero] at h3 h4
  refine ⟨trj, h1, h3, ?_, ?_⟩
  · rw [List.getElem?_eq_getElem (by omega), h4]; rfl
  · intro i hi
    rw [List.getElem?_eq_getElem (by omega), h4]

/-- generated `repeat` with a variable aux sequence returns the last entry of the generated rollout -/
theorem generated_repeat_aux_sequence (f : S → A → S) (n : ℕ) (u0 : S) (aux : List A) (h : aux.length = n) :
    repeat_aux_sequence f n u0 aux = some (aux.foldl f u0) ∧
    ∃ trj, rollout_aux_sequence f n true u0 aux = some trj ∧ trj.getLast? = some (aux.foldl f u0) := by
  have ht : aux.take n = aux := by rw [← h]; exact List.take_length
  refine ⟨?_, ?_⟩
  · rw [repeat_aux_sequence_eq_partial f n u0 aux h]; simp [repeatAux, ht]
  · refine ⟨_, rollout_aux_sequence_eq_partial f n true u0 aux h, ?_⟩
    rw [aux_init_last f n u0 aux (le_of_eq h.symm)]; simp [repeatAux, ht]

/-! non-vacuity -/
example : rolloutAux (fun (x a : ℕ) => 10 * x + a) 3 true false 0 [1, 2, 3, 4] = [0, 1, 12, 123] := by decide
example : rollout_aux_sequence (fun (x a : ℕ) => 10 * x + a) 3 true 0 [1, 2, 3] = some [0, 1, 12, 123] := by decide
example : rollout_aux_sequence (fun (x a : ℕ) => 10 * x + a) 3 true 0 [1, 2, 3, 4] = none := by decide
example : (3 : ℕ) ≤ [1, 2, 3, 4].length ∧ [1, 2, 3].length = 3 := by decide

end Exponax.SmallGaps2
