import ExponaxModel.Proofs.AliasND
/-
C03 in general dimension `D ≥ 1`, part 6 (G1): truncation of DIFFERENTIATED / MULTIPLIED spectra.

The truncation lemma `dftV_nifft_rfftn` of `AliasNDMask` is about stored spectra that are literally
`rfftnM` of a real grid field.  The non-conservative convection, the gradient norm and the vorticity
term feed `nifft` with stored spectra of the form `σ_h · x̂_h` with `σ_h = (i s k_d(h))^n`,
`σ_h = (i s k_1(h))·Δ̂⁻¹_h`, …, which are Hermitian-consistent on the RETAINED band (where
`2·Kc < N` excludes the Nyquist columns) but are not the transform of a real grid field.

  * `dftV_nifft_of_hermitian`  the general truncation lemma: if on the retained stored modes
                               `ûh_h = F(k(h))` and `conj ûh_h = F(−k(h))` for a lattice function
                               `F : ℤ^D → ℂ`, then `dftV (nifft c ûh) m = F m` on the box,
  * `dftV_nifft_mult`          multiplier form `ûh_h = σ_h · x̂_h`, `σ_h = μ(k(h))`, `conj μ(k) = μ(−k)`,
  * `dsym`                     the lattice symbol `i s p_d` of `∂_d`, `deriv_eq_dsym`, `conj_dsym`,
  * **G1** `dftV_nifft_deriv_pow`, `nifft_deriv_pow_bandLimitedV`, `nifft_deriv_pow_isRealND`
    (+ the `n = 1` form `dftV_nifft_deriv` used by the model pipelines),
  * `dftV_mul_of_box`          product of two band-limited fields with known box spectra = `linConv`,
  * `dftV_sum`, `dftV_sub_const`, `dftV_zero_eq_sum` small linearity facts used by G2–G4.

Real scale `c.s = (s : ℝ)` (`s = 2π/L`) as everywhere in the 1-D library: for a complex non-real `s`
the stored spectrum `(i s k)·x̂` is not Hermitian-consistent and G1 fails (see the remark at
`dftV_nifft_deriv_pow`).
-/
namespace Exponax.AliasND
open Exponax Exponax.Layout Exponax.Transform Exponax.DFT Exponax.Nonlin Exponax.Alias Finset

/-! ### a box vector congruent to `± k(h)` IS `± k(h)` -/

theorem box_congr_eq {D N : ℕ} (hD : 0 < D) (hN : 0 < N) (K : ℤ) (hK : 2 * K < (N : ℤ))
    (m : Fin D → ℤ) (hm : ∀ d, |m d| ≤ K) (h : ℕ) (hh : h < numModes D N)
    (hc : ∀ d, (N : ℤ) ∣ m d - kvec D N h d) : kvec D N h = m := by
  funext d
  have hb := abs_le.mp (kvec_abs_le D N h hD hN hh d)
  have hmd := abs_le.mp (hm d)
  have : m d - kvec D N h d = 0 := by
    apply Int.eq_zero_of_abs_lt_dvd (hc d)
    rw [abs_lt]; constructor <;> omega
  omega

theorem box_congr_eq_neg {D N : ℕ} (hD : 0 < D) (hN : 0 < N) (K : ℤ) (hK : 2 * K < (N : ℤ))
    (m : Fin D → ℤ) (hm : ∀ d, |m d| ≤ K) (h : ℕ) (hh : h < numModes D N)
    (hc : ∀ d, (N : ℤ) ∣ m d + kvec D N h d) : kvec D N h = -m := by
  funext d
  have hb := abs_le.mp (kvec_abs_le D N h hD hN hh d)
  have hmd := abs_le.mp (hm d)
  have : m d + kvec D N h d = 0 := by
    apply Int.eq_zero_of_abs_lt_dvd (hc d)
    rw [abs_lt]; constructor <;> omega
  rw [Pi.neg_apply]
  omega

/-! ### the general truncation lemma -/

/-- **Truncation of a stored spectrum that is Hermitian-consistent on the retained band.**
    `ûh` ANY stored array, `F : ℤ^D → ℂ` a lattice function such that at every RETAINED stored mode
    `h` (all `|k_d(h)| ≤ Kc`)  `ûh_h = F(k(h))` and `conj ûh_h = F(−k(h))`.  Then, with `2·Kc < N`,
    the full spectrum of `nifft c ûh = ifft(mask·ûh)` at every box vector `m` is `F m`.
    (Nothing is assumed about the dropped modes — in particular about the Nyquist columns.) -/
theorem dftV_nifft_of_hermitian (c : Cfg ℂ) (hD : 0 < c.D) (hq : c.fq ≠ 0) (hN : 0 < c.N)
    (h2 : 2 * Kc c < (c.N : ℤ)) (uh : Array ℂ) (F : (Fin c.D → ℤ) → ℂ)
    (hF : ∀ h, h < numModes c.D c.N → (∀ d, |kvec c.D c.N h d| ≤ Kc c) →
      uh.getD h 0 = F (kvec c.D c.N h) ∧ (starRingEnd ℂ) (uh.getD h 0) = F (-kvec c.D c.N h))
    (m : Fin c.D → ℤ) (hm : ∀ d, |m d| ≤ Kc c) :
    dftV c.D c.N (nifft c uh) m = F m := by
  rw [dftV_nifft c hN]
  have key : F m = F m * cover c.D c.N m := by rw [cover_eq_one c.D c.N hD hN m, mul_one]
  rw [key]
  unfold cover
  rw [Finset.mul_sum]
  apply Finset.sum_congr rfl
  intro h hh
  have hh' := Finset.mem_range.mp hh
  have eA : (mask c h * uh.getD h 0) * (if ∀ d, (c.N : ℤ) ∣ m d - kvec c.D c.N h d then 1 else 0)
      = F m * (if ∀ d, (c.N : ℤ) ∣ m d - kvec c.D c.N h d then 1 else 0) := by
    split_ifs with hc
    · have hk := box_congr_stored hD hN (Kc c) h2 m hm h hh' (Or.inl hc)
      rw [(mask_nd_eq_one_iff c hq h).mpr hk, one_mul, (hF h hh' hk).1,
        box_congr_eq hD hN (Kc c) h2 m hm h hh' hc]
    · simp
  have eB : (starRingEnd ℂ) (mask c h * uh.getD h 0)
        * (if ∀ d, (c.N : ℤ) ∣ m d + kvec c.D c.N h d then 1 else 0)
      = F m * (if ∀ d, (c.N : ℤ) ∣ m d + kvec c.D c.N h d then 1 else 0) := by
    split_ifs with hc
    · have hk := box_congr_stored hD hN (Kc c) h2 m hm h hh' (Or.inr hc)
      rw [(mask_nd_eq_one_iff c hq h).mpr hk, one_mul, (hF h hh' hk).2,
        box_congr_eq_neg hD hN (Kc c) h2 m hm h hh' hc, neg_neg]
    · simp
  rw [eA, eB]
  ring

/-- multiplier form: `ûh_h = σ_h · x̂_h` with `x` a real field, `σ_h = μ(k(h))` on the retained
    stored modes and `μ` a Hermitian lattice multiplier, `conj μ(k) = μ(−k)`.  Then on the box
    `dftV (nifft c ûh) m = μ(m) · X(m)`. -/
theorem dftV_nifft_mult (c : Cfg ℂ) (hD : 0 < c.D) (hq : c.fq ≠ 0) (hN : 0 < c.N)
    (h2 : 2 * Kc c < (c.N : ℤ)) (x : Array ℂ) (hx : IsRealND c.D c.N x)
    (μ : (Fin c.D → ℤ) → ℂ) (hμ : ∀ k, (starRingEnd ℂ) (μ k) = μ (-k))
    (σ : ℕ → ℂ)
    (hσ : ∀ h, h < numModes c.D c.N → (∀ d, |kvec c.D c.N h d| ≤ Kc c) → σ h = μ (kvec c.D c.N h))
    (m : Fin c.D → ℤ) (hm : ∀ d, |m d| ≤ Kc c) :
    dftV c.D c.N (nifft c (tab (modes c) fun h => σ h * (rfftnM c.D c.N x).getD h 0)) m
      = μ m * dftV c.D c.N x m := by
  refine dftV_nifft_of_hermitian c hD hq hN h2 _ (fun k => μ k * dftV c.D c.N x k) ?_ m hm
  intro h hh hk
  have hM : h < modes c := hh
  rw [DFT.tab_getD _ _ _ _ hM, rfftn_eq_dftV c.D c.N hN x h hh, hσ h hh hk]
  refine ⟨rfl, ?_⟩
  rw [map_mul, hμ, conj_dftV c.D c.N x hx]

/-- truncated form of `dftV_nifft_mult` -/
theorem truncV_dftV_nifft_mult (c : Cfg ℂ) (hD : 0 < c.D) (hq : c.fq ≠ 0) (hN : 0 < c.N)
    (h2 : 2 * Kc c < (c.N : ℤ)) (x : Array ℂ) (hx : IsRealND c.D c.N x)
    (μ : (Fin c.D → ℤ) → ℂ) (hμ : ∀ k, (starRingEnd ℂ) (μ k) = μ (-k))
    (σ : ℕ → ℂ)
    (hσ : ∀ h, h < numModes c.D c.N → (∀ d, |kvec c.D c.N h d| ≤ Kc c) → σ h = μ (kvec c.D c.N h))
    (m : Fin c.D → ℤ) :
    truncV (Kc c)
        (dftV c.D c.N (nifft c (tab (modes c) fun h => σ h * (rfftnM c.D c.N x).getD h 0))) m
      = truncV (Kc c) (fun p => μ p * dftV c.D c.N x p) m := by
  unfold truncV
  split_ifs with hm
  · exact dftV_nifft_mult c hD hq hN h2 x hx μ hμ σ hσ m hm
  · rfl

/-! ### the lattice symbol of `∂_d` -/

/-- component `d : ℕ` of a wavenumber vector (`0` for `d ≥ D`) -/
def comp {D : ℕ} (p : Fin D → ℤ) (d : ℕ) : ℤ := if hd : d < D then p ⟨d, hd⟩ else 0

theorem comp_of_lt {D : ℕ} (p : Fin D → ℤ) (d : ℕ) (hd : d < D) : comp p d = p ⟨d, hd⟩ := dif_pos hd

theorem comp_fin {D : ℕ} (p : Fin D → ℤ) (d : Fin D) : comp p (d : ℕ) = p d := by
  rw [comp_of_lt p d d.2]

theorem comp_neg {D : ℕ} (p : Fin D → ℤ) (d : ℕ) : comp (-p) d = -comp p d := by
  unfold comp
  split_ifs <;> simp

theorem comp_sub {D : ℕ} (p q : Fin D → ℤ) (d : ℕ) : comp (p - q) d = comp p d - comp q d := by
  unfold comp
  split_ifs <;> simp

/-- the lattice symbol of `∂_d`: `i·s·p_d` at the wavenumber vector `p ∈ ℤ^D` -/
noncomputable def dsym (c : Cfg ℂ) (d : ℕ) (p : Fin c.D → ℤ) : ℂ :=
  Complex.I * (c.s * ((comp p d : ℤ) : ℂ))

theorem dsym_fin (c : Cfg ℂ) (d : Fin c.D) (p : Fin c.D → ℤ) :
    dsym c (d : ℕ) p = Complex.I * (c.s * ((p d : ℤ) : ℂ)) := by
  unfold dsym
  rw [comp_fin]

/-- the model's derivative entry at a stored mode is the lattice symbol at the stored wavenumber
    vector -/
theorem deriv_eq_dsym (c : Cfg ℂ) (d : ℕ) (hd : d < c.D) (h : ℕ) :
    deriv c d h = dsym c d (kvec c.D c.N h) := by
  unfold dsym
  rw [comp_of_lt _ d hd]
  rfl

theorem dsym_neg (c : Cfg ℂ) (d : ℕ) (p : Fin c.D → ℤ) : dsym c d (-p) = -dsym c d p := by
  unfold dsym
  rw [comp_neg]
  push_cast
  ring

/-- for a real scale the symbol of `∂_d` is Hermitian: `conj (i s p_d) = i s (−p_d)` -/
theorem conj_dsym (c : Cfg ℂ) (s : ℝ) (hs : c.s = (s : ℂ)) (d : ℕ) (p : Fin c.D → ℤ) :
    (starRingEnd ℂ) (dsym c d p) = dsym c d (-p) := by
  rw [dsym_neg]
  unfold dsym
  rw [hs, map_mul, map_mul, Complex.conj_I, Complex.conj_ofReal,
    show (((comp p d : ℤ) : ℂ)) = (((comp p d : ℤ) : ℝ) : ℂ) by push_cast; rfl, Complex.conj_ofReal]
  ring

theorem conj_dsym_pow (c : Cfg ℂ) (s : ℝ) (hs : c.s = (s : ℂ)) (d n : ℕ) (p : Fin c.D → ℤ) :
    (starRingEnd ℂ) (dsym c d p ^ n) = dsym c d (-p) ^ n := by
  rw [map_pow, conj_dsym c s hs]

/-! ### G1 — truncation of differentiated spectra -/

/-- **G1 (spectrum on the box).**  Real state `x`, real scale `s`, cut-off `2·Kc < N`, axis `d < D`,
    order `n ≥ 0`.  The full spectrum of `ifft(mask·(i s k_d)^n·x̂)` at every box vector `m` is
    `(i s m_d)^n · X(m)`, `X = dftV x`: the field is `∂_d^n P_K x`.

    Remark (why `s` real — the statement is FALSE for a non-real `c.s`).  Counterexample: `D = 1`,
    `N = 4`, `fp = fq = 1` (`Kc = 1`, `2·Kc < N`), `s = i`, `n = 1`, `x = (1, 0, −1, 0)`
    (`= cos(2πj/4)`), so `X(1) = X(−1) = 2`.  The stored entry at `k = 1` is `(i·i·1)·X(1) = −2`; the
    c2r transform completes it by its conjugate at `k = −1`, so the spectrum of the output field at
    `m = −1` is `−2`, whereas `(i s m)·X(m)` at `m = −1` is `(i·i·(−1))·2 = +2`.
    `s = 2π/L` is real in the library. -/
theorem dftV_nifft_deriv_pow (c : Cfg ℂ) (hD : 0 < c.D) (hq : c.fq ≠ 0) (hN : 0 < c.N)
    (h2 : 2 * Kc c < (c.N : ℤ)) (s : ℝ) (hs : c.s = (s : ℂ)) (x : Array ℂ) (hx : IsRealND c.D c.N x)
    (d : ℕ) (hd : d < c.D) (n : ℕ) (m : Fin c.D → ℤ) (hm : ∀ d, |m d| ≤ Kc c) :
    dftV c.D c.N (nifft c (tab (modes c) fun h => deriv c d h ^ n * (rfftnM c.D c.N x).getD h 0)) m
      = (Complex.I * (c.s * ((m ⟨d, hd⟩ : ℤ) : ℂ))) ^ n * dftV c.D c.N x m := by
  rw [dftV_nifft_mult c hD hq hN h2 x hx (fun p => dsym c d p ^ n)
    (fun k => conj_dsym_pow c s hs d n k) (fun h => deriv c d h ^ n)
    (fun h _ _ => by rw [deriv_eq_dsym c d hd h]) m hm]
  show dsym c d m ^ n * _ = _
  unfold dsym
  rw [comp_of_lt _ d hd]

/-- **G1 (band-limited).**  `ifft(mask·(i s k_d)^n·x̂)` is band-limited to the box `Kc` (this part
    needs neither `x` real nor `s` real) -/
theorem nifft_deriv_pow_bandLimitedV (c : Cfg ℂ) (hq : c.fq ≠ 0) (hN : 0 < c.N) (xh : Array ℂ)
    (d n : ℕ) :
    BandLimitedV c.D c.N (Kc c) (nifft c (tab (modes c) fun h => deriv c d h ^ n * xh.getD h 0)) :=
  nifft_bandLimitedV c hq hN _

/-- **G1 (real field).**  `ifft(mask·(i s k_d)^n·x̂)` is a real grid field (the c2r transform always
    returns one) -/
theorem nifft_deriv_pow_isRealND (c : Cfg ℂ) (hN : 0 < c.N) (xh : Array ℂ) (d n : ℕ) :
    IsRealND c.D c.N (nifft c (tab (modes c) fun h => deriv c d h ^ n * xh.getD h 0)) :=
  nifft_isRealND c hN _

/-- G1 in one statement -/
theorem nifft_deriv_pow_spec (c : Cfg ℂ) (hD : 0 < c.D) (hq : c.fq ≠ 0) (hN : 0 < c.N)
    (h2 : 2 * Kc c < (c.N : ℤ)) (s : ℝ) (hs : c.s = (s : ℂ)) (x : Array ℂ) (hx : IsRealND c.D c.N x)
    (d : ℕ) (hd : d < c.D) (n : ℕ) :
    let w := nifft c (tab (modes c) fun h => deriv c d h ^ n * (rfftnM c.D c.N x).getD h 0)
    (∀ m : Fin c.D → ℤ, (∀ d, |m d| ≤ Kc c) →
        dftV c.D c.N w m = (Complex.I * (c.s * ((m ⟨d, hd⟩ : ℤ) : ℂ))) ^ n * dftV c.D c.N x m)
      ∧ BandLimitedV c.D c.N (Kc c) w ∧ IsRealND c.D c.N w :=
  ⟨fun m hm => dftV_nifft_deriv_pow c hD hq hN h2 s hs x hx d hd n m hm,
    nifft_bandLimitedV c hq hN _, nifft_isRealND c hN _⟩

/-- G1 for the model's power function `npow` (as in `derivativeM`) -/
theorem dftV_nifft_deriv_npow (c : Cfg ℂ) (hD : 0 < c.D) (hq : c.fq ≠ 0) (hN : 0 < c.N)
    (h2 : 2 * Kc c < (c.N : ℤ)) (s : ℝ) (hs : c.s = (s : ℂ)) (x : Array ℂ) (hx : IsRealND c.D c.N x)
    (d : ℕ) (hd : d < c.D) (n : ℕ) (m : Fin c.D → ℤ) (hm : ∀ d, |m d| ≤ Kc c) :
    dftV c.D c.N (nifft c (tab (modes c) fun h =>
        npow (deriv c d h) n * (rfftnM c.D c.N x).getD h 0)) m
      = (Complex.I * (c.s * ((m ⟨d, hd⟩ : ℤ) : ℂ))) ^ n * dftV c.D c.N x m := by
  simp only [npow_eq]
  exact dftV_nifft_deriv_pow c hD hq hN h2 s hs x hx d hd n m hm

/-- G1, order `1`, in the form in which the model pipelines build the spectrum
    (`deriv c d h * x̂_h`), with the symbol written as `dsym` -/
theorem dftV_nifft_deriv (c : Cfg ℂ) (hD : 0 < c.D) (hq : c.fq ≠ 0) (hN : 0 < c.N)
    (h2 : 2 * Kc c < (c.N : ℤ)) (s : ℝ) (hs : c.s = (s : ℂ)) (x : Array ℂ) (hx : IsRealND c.D c.N x)
    (d : ℕ) (hd : d < c.D) (m : Fin c.D → ℤ) (hm : ∀ d, |m d| ≤ Kc c) :
    dftV c.D c.N (nifft c (tab (modes c) fun h => deriv c d h * (rfftnM c.D c.N x).getD h 0)) m
      = dsym c d m * dftV c.D c.N x m :=
  dftV_nifft_mult c hD hq hN h2 x hx (dsym c d) (conj_dsym c s hs d) (fun h => deriv c d h)
    (fun h _ _ => deriv_eq_dsym c d hd h) m hm

/-! ### products of band-limited fields with known box spectra -/

/-- `f`, `g` band-limited to the box `K`, `3K < N`, with box spectra `F`, `G`: the spectrum of the
    pointwise product at a box vector is the LINEAR convolution `linConv F G` — no aliasing. -/
theorem dftV_mul_of_box (D N : ℕ) (hN : 0 < N) (K : ℤ) (hK : 3 * K < (N : ℤ)) (f g : Array ℂ)
    (hf : BandLimitedV D N K f) (hg : BandLimitedV D N K g) (F G : (Fin D → ℤ) → ℂ)
    (hF : ∀ p : Fin D → ℤ, (∀ d, |p d| ≤ K) → dftV D N f p = F p)
    (hG : ∀ p : Fin D → ℤ, (∀ d, |p d| ≤ K) → dftV D N g p = G p)
    (k : Fin D → ℤ) (hk : ∀ d, |k d| ≤ K) :
    dftV D N (tab (N ^ D) fun j => f.getD j 0 * g.getD j 0) k = linConv D N K F G k := by
  rw [dftV_mul_no_alias' D N hN K hK f g hf hg k hk]
  unfold linConv
  congr 1
  apply Finset.sum_congr rfl
  intro p _
  have e1 : truncV K (dftV D N f) p = truncV K F p := by
    unfold truncV
    split_ifs with hp
    · exact hF p hp
    · rfl
  have e2 : truncV K (dftV D N g) (k - p) = truncV K G (k - p) := by
    unfold truncV
    split_ifs with hp
    · exact hG _ hp
    · rfl
  rw [e1, e2]

/-- pulling a multiplier out of a truncation -/
theorem truncV_mul {D : ℕ} (K : ℤ) (μ F : (Fin D → ℤ) → ℂ) (p : Fin D → ℤ) :
    truncV K (fun q => μ q * F q) p = μ p * truncV K F p := by
  unfold truncV
  split_ifs <;> simp

/-! ### small linearity facts -/

theorem dftV_sum {ι : Type} (D N : ℕ) (S : Finset ι) (f : ι → ℕ → ℂ) (k : Fin D → ℤ) :
    dftV D N (tab (N ^ D) fun j => ∑ i ∈ S, f i j) k = ∑ i ∈ S, dftV D N (tab (N ^ D) (f i)) k := by
  simp only [dftV_tab]
  rw [Finset.sum_comm]
  exact Finset.sum_congr rfl (fun j _ => Finset.sum_mul _ _ _)

theorem dftV_neg (D N : ℕ) (f : ℕ → ℂ) (k : Fin D → ℤ) :
    dftV D N (tab (N ^ D) fun j => -f j) k = -dftV D N (tab (N ^ D) f) k := by
  simp only [dftV_tab, neg_mul, Finset.sum_neg_distrib]

theorem dftV_sub_const (D N : ℕ) (hN : 0 < N) (f : ℕ → ℂ) (a : ℂ) (k : Fin D → ℤ) :
    dftV D N (tab (N ^ D) fun j => f j - a) k
      = dftV D N (tab (N ^ D) f) k - (if ∀ d, (N : ℤ) ∣ k d then a * ((N ^ D : ℕ) : ℂ) else 0) := by
  have : (tab (N ^ D) fun j => f j - a) = tab (N ^ D) fun j => f j + (fun _ => -a) j := by
    apply Nonlin.tab_congr; intro j _; ring
  rw [this, dftV_add, dftV_const D N hN]
  split_ifs <;> ring

theorem dftV_zero_eq_sum (D N : ℕ) (f : ℕ → ℂ) :
    dftV D N (tab (N ^ D) f) 0 = ∑ j ∈ range (N ^ D), f j := by
  rw [dftV_tab]
  apply Finset.sum_congr rfl
  intro j _
  have : vdot D N (0 : Fin D → ℤ) j = 0 := by simp [vdot]
  rw [this, zpow_zero, mul_one]

end Exponax.AliasND
