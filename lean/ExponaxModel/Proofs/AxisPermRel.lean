import ExponaxModel.Proofs.AxisPermMul
import ExponaxModel.Proofs.EquivarianceND
/-
C08, T2 support — the pseudo-spectral PIPELINE and the permutation of the axes.

Relation on stored half spectra (only used to state things):

  `SpecPerm D N σ a a'` : `a`, `a'` are Nyquist-free and `irfftn a' = P_σ (irfftn a)` on the grid
                           (holds for `a = rfftn u`, `a' = rfftn (P_σ u)`, `u` real Nyquist-free:
                            `specPerm_rfftn`).

* `fieldPerm_irfftn_mul` : per-mode multipliers `g(k(h))` / `g(k(h) ∘ σ)` (conj-symmetric `g`),
* `specPerm_mul`, `specPerm_add`, `specPerm_sub`, `specPerm_zero`, `specPerm_congr` : closure,
* `nifft_fieldPerm`, `nifft_mul_fieldPerm`, `nifft_deriv_fieldPerm` : mask, then c2r — `∂_{σ e} (P_σ u) = P_σ (∂_e u)`,
* `nfft_specPerm`        : r2c, then mask (real fields; `NyqCfg c`: `N` odd or an active mask of fraction `≤ 1`).
-/
set_option linter.unusedVariables false
namespace Exponax.AxisPerm
open Exponax Exponax.Layout Exponax.Transform Exponax.DFT Exponax.AliasND Exponax.Nonlin Exponax.Alias Finset

/-! ## linearity / congruence of the c2r transform (entrywise) -/

theorem irfftnM_congr_getD (D N : ℕ) (hN : 0 < N) (a b : Array ℂ)
    (h : ∀ m, m < numModes D N → a.getD m 0 = b.getD m 0) (j : ℕ) (hj : j < N ^ D) :
    (irfftnM D N a).getD j 0 = (irfftnM D N b).getD j 0 := by
  rw [irfftnM_getD D N hN a j hj, irfftnM_getD D N hN b j hj]
  congr 1
  exact Finset.sum_congr rfl (fun m hm => by rw [h m (Finset.mem_range.mp hm)])

theorem irfftnM_add_getD (D N : ℕ) (hN : 0 < N) (f g : ℕ → ℂ) (j : ℕ) (hj : j < N ^ D) :
    (irfftnM D N (tab (numModes D N) fun h => f h + g h)).getD j 0
      = (irfftnM D N (tab (numModes D N) f)).getD j 0 + (irfftnM D N (tab (numModes D N) g)).getD j 0 := by
  rw [irfftnM_getD D N hN _ j hj, irfftnM_getD D N hN _ j hj, irfftnM_getD D N hN _ j hj, ← add_div,
    ← Finset.sum_add_distrib]
  congr 1
  apply Finset.sum_congr rfl
  intro m hm
  have hm' := Finset.mem_range.mp hm
  rw [DFT.tab_getD _ _ _ _ hm', DFT.tab_getD _ _ _ _ hm', DFT.tab_getD _ _ _ _ hm', add_mul, Complex.add_re]
  push_cast
  ring

theorem irfftnM_sub_getD (D N : ℕ) (hN : 0 < N) (f g : ℕ → ℂ) (j : ℕ) (hj : j < N ^ D) :
    (irfftnM D N (tab (numModes D N) fun h => f h - g h)).getD j 0
      = (irfftnM D N (tab (numModes D N) f)).getD j 0 - (irfftnM D N (tab (numModes D N) g)).getD j 0 := by
  rw [irfftnM_getD D N hN _ j hj, irfftnM_getD D N hN _ j hj, irfftnM_getD D N hN _ j hj, ← sub_div,
    ← Finset.sum_sub_distrib]
  congr 1
  apply Finset.sum_congr rfl
  intro m hm
  have hm' := Finset.mem_range.mp hm
  rw [DFT.tab_getD _ _ _ _ hm', DFT.tab_getD _ _ _ _ hm', DFT.tab_getD _ _ _ _ hm', sub_mul, Complex.sub_re]
  push_cast
  ring

theorem irfftnM_zero_getD (D N : ℕ) (hN : 0 < N) (a : Array ℂ) (ha : ∀ m, m < numModes D N → a.getD m 0 = 0)
    (j : ℕ) (hj : j < N ^ D) : (irfftnM D N a).getD j 0 = 0 := by
  rw [irfftnM_getD D N hN a j hj, Finset.sum_eq_zero, zero_div]
  intro m hm
  rw [ha m (Finset.mem_range.mp hm)]
  simp

/-! ## the relation on stored spectra -/

/-- `a`, `a'` Nyquist-free stored spectra whose physical fields are axis permutations of each other -/
def SpecPerm (D N : ℕ) (σ : Equiv.Perm (Fin D)) (a a' : Array ℂ) : Prop :=
  NyqFreeS D N a ∧ NyqFreeS D N a' ∧ FieldPerm D N σ (irfftnM D N a) (irfftnM D N a')

theorem nyqFreeS_tab_mul (D N : ℕ) (m : ℕ → ℂ) (a : Array ℂ) (ha : NyqFreeS D N a) :
    NyqFreeS D N (tab (numModes D N) fun h => m h * a.getD h 0) := by
  intro h hh hny
  rw [DFT.tab_getD _ _ _ _ hh, ha h hh hny, mul_zero]

theorem nyqFreeS_congr (D N : ℕ) (a b : Array ℂ) (h : ∀ m, m < numModes D N → a.getD m 0 = b.getD m 0)
    (ha : NyqFreeS D N a) : NyqFreeS D N b := fun m hm hny => by rw [← h m hm, ha m hm hny]

theorem fieldPerm_congr (D N : ℕ) (σ : Equiv.Perm (Fin D)) (v w v' w' : Array ℂ)
    (h1 : ∀ j, j < N ^ D → v.getD j 0 = w.getD j 0) (h2 : ∀ j, j < N ^ D → v'.getD j 0 = w'.getD j 0)
    (h : FieldPerm D N σ v v') : FieldPerm D N σ w w' := fun j hj => by
  rw [← h2 j hj, h j hj, h1 _ (permIdx_lt' D N σ j hj)]

/-- `SpecPerm` only looks at the stored modes -/
theorem specPerm_congr (D N : ℕ) (hN : 0 < N) (σ : Equiv.Perm (Fin D)) (a b a' b' : Array ℂ)
    (h1 : ∀ m, m < numModes D N → a.getD m 0 = b.getD m 0)
    (h2 : ∀ m, m < numModes D N → a'.getD m 0 = b'.getD m 0) (h : SpecPerm D N σ a a') :
    SpecPerm D N σ b b' :=
  ⟨nyqFreeS_congr D N a b h1 h.1, nyqFreeS_congr D N a' b' h2 h.2.1,
    fieldPerm_congr D N σ _ _ _ _ (irfftnM_congr_getD D N hN a b h1) (irfftnM_congr_getD D N hN a' b' h2) h.2.2⟩

/-- **per-mode multipliers.**  `g` conj-symmetric; the pair Nyquist-free or `g` vanishing on Nyquist
    vectors.  The multiplier `g(k(h))` on `a` corresponds to `g(k(h) ∘ σ)` on `a'`. -/
theorem fieldPerm_irfftn_mul (D N : ℕ) (hD : 0 < D) (hN : 0 < N) (σ : Equiv.Perm (Fin D))
    (g : (Fin D → ℤ) → ℂ) (hg : ∀ k, g (-k) = (starRingEnd ℂ) (g k)) (a a' : Array ℂ)
    (hNy : (NyqFreeS D N a ∧ NyqFreeS D N a') ∨ ∀ k : Fin D → ℤ, NyqVec N k → g k = 0)
    (h : FieldPerm D N σ (irfftnM D N a) (irfftnM D N a')) :
    FieldPerm D N σ (irfftnM D N (tab (numModes D N) fun h => g (kvec D N h) * a.getD h 0))
      (irfftnM D N (tab (numModes D N) fun h => g (kvec D N h ∘ σ) * a'.getD h 0)) := by
  rw [fieldPerm_iff_dftV D N hN] at h ⊢
  intro m
  have hg' : ∀ k : Fin D → ℤ, (fun k => g (k ∘ σ)) (-k) = (starRingEnd ℂ) ((fun k => g (k ∘ σ)) k) := by
    intro k
    show g ((-k) ∘ σ) = _
    rw [show (-k) ∘ σ = -(k ∘ σ) from rfl, hg]
  have hNy1 : NyqFreeS D N a ∨ ∀ k : Fin D → ℤ, NyqVec N k → g k = 0 := hNy.imp (fun x => x.1) id
  have hNy2 : NyqFreeS D N a' ∨ ∀ k : Fin D → ℤ, NyqVec N k → (fun k => g (k ∘ σ)) k = 0 :=
    hNy.imp (fun x => x.2) (fun hz k hk => hz _ (hk.comp σ))
  rw [dftV_irfftn_mul D N hD hN (fun k => g (k ∘ σ)) hg' a' hNy2 m,
    dftV_irfftn_mul D N hD hN g hg a hNy1 (m ∘ σ), h m]
  rfl

theorem specPerm_mul (D N : ℕ) (hD : 0 < D) (hN : 0 < N) (σ : Equiv.Perm (Fin D))
    (g : (Fin D → ℤ) → ℂ) (hg : ∀ k, g (-k) = (starRingEnd ℂ) (g k)) (a a' : Array ℂ)
    (h : SpecPerm D N σ a a') :
    SpecPerm D N σ (tab (numModes D N) fun h => g (kvec D N h) * a.getD h 0)
      (tab (numModes D N) fun h => g (kvec D N h ∘ σ) * a'.getD h 0) :=
  ⟨nyqFreeS_tab_mul D N _ a h.1, nyqFreeS_tab_mul D N _ a' h.2.1,
    fieldPerm_irfftn_mul D N hD hN σ g hg a a' (Or.inl ⟨h.1, h.2.1⟩) h.2.2⟩

theorem specPerm_add (D N : ℕ) (hN : 0 < N) (σ : Equiv.Perm (Fin D)) (f g f' g' : ℕ → ℂ)
    (h1 : SpecPerm D N σ (tab (numModes D N) f) (tab (numModes D N) f'))
    (h2 : SpecPerm D N σ (tab (numModes D N) g) (tab (numModes D N) g')) :
    SpecPerm D N σ (tab (numModes D N) fun h => f h + g h) (tab (numModes D N) fun h => f' h + g' h) := by
  refine ⟨?_, ?_, ?_⟩
  · intro h hh hny
    have e1 := h1.1 h hh hny
    have e2 := h2.1 h hh hny
    rw [DFT.tab_getD _ _ _ _ hh] at e1 e2 ⊢
    rw [e1, e2, add_zero]
  · intro h hh hny
    have e1 := h1.2.1 h hh hny
    have e2 := h2.2.1 h hh hny
    rw [DFT.tab_getD _ _ _ _ hh] at e1 e2 ⊢
    rw [e1, e2, add_zero]
  · intro j hj
    rw [irfftnM_add_getD D N hN f' g' j hj, irfftnM_add_getD D N hN f g _ (permIdx_lt' D N σ j hj),
      h1.2.2 j hj, h2.2.2 j hj]

theorem specPerm_sub (D N : ℕ) (hN : 0 < N) (σ : Equiv.Perm (Fin D)) (f g f' g' : ℕ → ℂ)
    (h1 : SpecPerm D N σ (tab (numModes D N) f) (tab (numModes D N) f'))
    (h2 : SpecPerm D N σ (tab (numModes D N) g) (tab (numModes D N) g')) :
    SpecPerm D N σ (tab (numModes D N) fun h => f h - g h) (tab (numModes D N) fun h => f' h - g' h) := by
  refine ⟨?_, ?_, ?_⟩
  · intro h hh hny
    have e1 := h1.1 h hh hny
    have e2 := h2.1 h hh hny
    rw [DFT.tab_getD _ _ _ _ hh] at e1 e2 ⊢
    rw [e1, e2, sub_zero]
  · intro h hh hny
    have e1 := h1.2.1 h hh hny
    have e2 := h2.2.1 h hh hny
    rw [DFT.tab_getD _ _ _ _ hh] at e1 e2 ⊢
    rw [e1, e2, sub_zero]
  · intro j hj
    rw [irfftnM_sub_getD D N hN f' g' j hj, irfftnM_sub_getD D N hN f g _ (permIdx_lt' D N σ j hj),
      h1.2.2 j hj, h2.2.2 j hj]

theorem specPerm_zero (D N : ℕ) (hN : 0 < N) (σ : Equiv.Perm (Fin D)) (a a' : Array ℂ)
    (ha : ∀ m, m < numModes D N → a.getD m 0 = 0) (ha' : ∀ m, m < numModes D N → a'.getD m 0 = 0) :
    SpecPerm D N σ a a' :=
  ⟨fun h hh _ => ha h hh, fun h hh _ => ha' h hh, fun j hj => by
    rw [irfftnM_zero_getD D N hN a' ha' j hj, irfftnM_zero_getD D N hN a ha _ (permIdx_lt' D N σ j hj)]⟩

/-- finite sums over the axes, re-indexed by the permutation: the summand `e` on the left corresponds to
    the summand `σ e` on the right -/
theorem specPerm_sum_axes (D N : ℕ) (hN : 0 < N) (σ : Equiv.Perm (Fin D)) (F F' : Fin D → ℕ → ℂ)
    (h : ∀ e, SpecPerm D N σ (tab (numModes D N) (F e)) (tab (numModes D N) (F' (σ e)))) :
    SpecPerm D N σ (tab (numModes D N) fun m => ∑ e, F e m) (tab (numModes D N) fun m => ∑ e, F' e m) := by
  have hre : ∀ m, ∑ e, F' e m = ∑ e, F' (σ e) m := fun m => (Equiv.sum_comp σ (fun e => F' e m)).symm
  simp only [hre]
  have key : ∀ s : Finset (Fin D),
      SpecPerm D N σ (tab (numModes D N) fun m => ∑ e ∈ s, F e m)
        (tab (numModes D N) fun m => ∑ e ∈ s, F' (σ e) m) := by
    intro s
    induction s using Finset.induction_on with
    | empty =>
      simp only [Finset.sum_empty]
      exact specPerm_zero D N hN σ _ _ (fun m hm => DFT.tab_getD _ _ _ _ hm) (fun m hm => DFT.tab_getD _ _ _ _ hm)
    | insert e s he ih =>
      simp only [Finset.sum_insert he]
      exact specPerm_add D N hN σ _ _ _ _ (h e) ih
  exact key Finset.univ

/-! ## the model pipeline: `nifft`, `nfft` -/

/-- **mask, then c2r, with a per-mode multiplier**: conj-symmetric `g`, any Nyquist-free pair -/
theorem nifft_mul_fieldPerm (c : Cfg ℂ) (hD : 0 < c.D) (hN : 0 < c.N) (σ : Equiv.Perm (Fin c.D))
    (g : (Fin c.D → ℤ) → ℂ) (hg : ∀ k, g (-k) = (starRingEnd ℂ) (g k)) (a a' : Array ℂ)
    (h : SpecPerm c.D c.N σ a a') :
    FieldPerm c.D c.N σ (nifft c (tab (modes c) fun m => g (kvec c.D c.N m) * a.getD m 0))
      (nifft c (tab (modes c) fun m => g (kvec c.D c.N m ∘ σ) * a'.getD m 0)) := by
  have hgm : ∀ k : Fin c.D → ℤ, (fun k => maskFn c k * g k) (-k)
      = (starRingEnd ℂ) ((fun k => maskFn c k * g k) k) := by
    intro k
    show maskFn c (-k) * g (-k) = _
    rw [maskFn_neg, hg, map_mul]
  have key := fieldPerm_irfftn_mul c.D c.N hD hN σ (fun k => maskFn c k * g k) hgm a a'
    (Or.inl ⟨h.1, h.2.1⟩) h.2.2
  unfold nifft
  refine fieldPerm_congr c.D c.N σ _ _ _ _ ?_ ?_ key
  · intro j hj
    refine irfftnM_congr_getD c.D c.N hN _ _ (fun m hm => ?_) j hj
    have hm' : m < modes c := hm
    rw [DFT.tab_getD _ _ _ _ hm, DFT.tab_getD _ _ _ _ hm', DFT.tab_getD _ _ _ _ hm', mask_eq_maskFn]
    ring
  · intro j hj
    refine irfftnM_congr_getD c.D c.N hN _ _ (fun m hm => ?_) j hj
    have hm' : m < modes c := hm
    rw [DFT.tab_getD _ _ _ _ hm, DFT.tab_getD _ _ _ _ hm', DFT.tab_getD _ _ _ _ hm', mask_eq_maskFn,
      maskFn_comp]
    ring

/-- **mask, then c2r**: the physical fields of a `SpecPerm` pair are axis permutations of each other -/
theorem nifft_fieldPerm (c : Cfg ℂ) (hD : 0 < c.D) (hN : 0 < c.N) (σ : Equiv.Perm (Fin c.D)) (a a' : Array ℂ)
    (h : SpecPerm c.D c.N σ a a') : FieldPerm c.D c.N σ (nifft c a) (nifft c a') := by
  have key := nifft_mul_fieldPerm c hD hN σ (fun _ => 1) (fun _ => by simp) a a' h
  refine fieldPerm_congr c.D c.N σ _ _ _ _ ?_ ?_ key
  · intro j hj
    rw [EquivND.nifft_congr c _ a (fun m hm => by rw [DFT.tab_getD _ _ _ _ hm, one_mul])]
  · intro j hj
    rw [EquivND.nifft_congr c _ a' (fun m hm => by rw [DFT.tab_getD _ _ _ _ hm, one_mul])]

/-- **spectral derivatives**: `∂_{σ e} (P_σ u) = P_σ (∂_e u)` (real `s = 2π/L`) -/
theorem nifft_deriv_fieldPerm (c : Cfg ℂ) (hD : 0 < c.D) (hN : 0 < c.N) (hs : c.s.im = 0)
    (σ : Equiv.Perm (Fin c.D)) (e : Fin c.D) (a a' : Array ℂ) (h : SpecPerm c.D c.N σ a a') :
    FieldPerm c.D c.N σ (nifft c (tab (modes c) fun m => Nonlin.deriv c e m * a.getD m 0))
      (nifft c (tab (modes c) fun m => Nonlin.deriv c (σ e) m * a'.getD m 0)) :=
  nifft_mul_fieldPerm c hD hN σ (derivFn c e) (derivFn_neg c hs e) a a' h

/-- the stored spectra of a real field and of its axis permutation have permuted physical fields
    (round trip) -/
theorem fieldPerm_irfftn_rfftn (D N : ℕ) (hD : 0 < D) (hN : 0 < N) (σ : Equiv.Perm (Fin D)) (v v' : Array ℂ)
    (hv : IsRealND D N v) (h : FieldPerm D N σ v v') :
    FieldPerm D N σ (irfftnM D N (rfftnM D N v)) (irfftnM D N (rfftnM D N v')) := by
  intro j hj
  rw [irfftn_rfftn D N hD hN v' (fieldPerm_real D N σ v v' h hv) j hj,
    irfftn_rfftn D N hD hN v hv _ (permIdx_lt' D N σ j hj), h j hj]

/-- a real field with Nyquist-free stored spectrum has a vanishing full spectrum at every Nyquist vector -/
theorem dftV_eq_zero_of_nyq (D N : ℕ) (hD : 0 < D) (hN : 0 < N) (v : Array ℂ) (hv : IsRealND D N v)
    (hfree : NyqFreeS D N (rfftnM D N v)) (m : Fin D → ℤ) (hm : NyqVec N m) : dftV D N v m = 0 := by
  obtain ⟨h, hh, hc | hc⟩ := exists_stored_congr D N hD hN m
  · rw [← dftV_of_congr v hc, ← rfftn_eq_dftV D N hN v h hh]
    exact hfree h hh (hm.congr hc.symm)
  · have h1 : dftV D N v (-m) = 0 := by
      rw [← dftV_of_congr v hc, ← rfftn_eq_dftV D N hN v h hh]
      exact hfree h hh (hm.neg.congr hc.symm)
    have h2 := conj_dftV D N v hv m
    rw [h1] at h2
    exact (map_eq_zero (starRingEnd ℂ)).mp h2

/-- **T1 in relation form**: for a REAL field with NYQUIST-FREE stored spectrum, the stored spectra of
    `u` and `P_σ u` are a `SpecPerm` pair -/
theorem specPerm_rfftn (D N : ℕ) (hD : 0 < D) (hN : 0 < N) (σ : Equiv.Perm (Fin D)) (v v' : Array ℂ)
    (hv : IsRealND D N v) (hfree : NyqFreeS D N (rfftnM D N v)) (h : FieldPerm D N σ v v') :
    SpecPerm D N σ (rfftnM D N v) (rfftnM D N v') := by
  refine ⟨hfree, ?_, fieldPerm_irfftn_rfftn D N hD hN σ v v' hv h⟩
  intro m hm hny
  rw [rfftn_eq_dftV D N hN v' m hm, (fieldPerm_iff_dftV D N hN σ v v').mp h]
  exact dftV_eq_zero_of_nyq D N hD hN v hv hfree _ (hny.comp σ)

/-- **r2c, then mask** (real fields): under `NyqCfg c` the masked transforms of a real field and of
    its axis permutation are a `SpecPerm` pair -/
theorem nfft_specPerm (c : Cfg ℂ) (hD : 0 < c.D) (hN : 0 < c.N) (hcfg : NyqCfg c) (σ : Equiv.Perm (Fin c.D))
    (v v' : Array ℂ) (hv : IsRealND c.D c.N v) (h : FieldPerm c.D c.N σ v v') :
    SpecPerm c.D c.N σ (nfft c v) (nfft c v') := by
  have hfree : ∀ w : Array ℂ, NyqFreeS c.D c.N (nfft c w) := by
    intro w m hm hny
    rw [nfft_getD c w m hm, mask_eq_maskFn]
    rcases hcfg with hodd | ⟨hq, hp⟩
    · exact absurd hny (not_nyqVec_of_odd c.N hodd _)
    · rw [maskFn_nyq c hN hq hp _ hny, zero_mul]
  refine ⟨hfree v, hfree v', ?_⟩
  have hNy : (NyqFreeS c.D c.N (rfftnM c.D c.N v) ∧ NyqFreeS c.D c.N (rfftnM c.D c.N v')) ∨
      ∀ k : Fin c.D → ℤ, NyqVec c.N k → maskFn c k = 0 := by
    rcases hcfg with hodd | ⟨hq, hp⟩
    · exact Or.inl ⟨nyqFreeS_of_odd c.D c.N hodd _, nyqFreeS_of_odd c.D c.N hodd _⟩
    · exact Or.inr (maskFn_nyq c hN hq hp)
  have key := fieldPerm_irfftn_mul c.D c.N hD hN σ (maskFn c) (maskFn_neg c) _ _ hNy
    (fieldPerm_irfftn_rfftn c.D c.N hD hN σ v v' hv h)
  refine fieldPerm_congr c.D c.N σ _ _ _ _ ?_ ?_ key
  · intro j hj
    refine irfftnM_congr_getD c.D c.N hN _ _ (fun m hm => ?_) j hj
    rw [DFT.tab_getD _ _ _ _ hm, nfft_getD c v m hm, mask_eq_maskFn]
  · intro j hj
    refine irfftnM_congr_getD c.D c.N hN _ _ (fun m hm => ?_) j hj
    rw [DFT.tab_getD _ _ _ _ hm, nfft_getD c v' m hm, mask_eq_maskFn, maskFn_comp]

/-! ## non-vacuity -/

example (D N : ℕ) (hN : 0 < N) (σ : Equiv.Perm (Fin D)) : ∃ a a', SpecPerm D N σ a a' :=
  ⟨#[], #[], specPerm_zero D N hN σ _ _ (fun _ _ => by simp) (fun _ _ => by simp)⟩

example (D N : ℕ) (σ : Equiv.Perm (Fin D)) (v : Array ℂ) : ∃ v', FieldPerm D N σ v v' :=
  ⟨_, fieldPerm_permField D N σ v⟩

end Exponax.AxisPerm
