import Mathlib.Tactic
import ExponaxModel.Proofs.MetricsAlgebra
import ExponaxModel.Proofs.MetricsGenEq
import ExponaxModel.Proofs.MetricsGenFourierEq
/-
H4 (C16) — multi-channel `correlation` (`exponax/metrics/_correlation.py`): the code returns the MEAN over the
channels of the per-channel correlations.  For `C` channels the value lies in `[−1, 1]`, and it is `+1` / `−1` when
every channel of the second field is a positive / negative multiple of the same channel of the first (the factor may
differ per channel).  Stated for the channel mean of the model `Metrics.correlationChannel` and for the regenerated
`Gen.MetricsGen.correlation`.
-/
set_option linter.unusedVariables false
namespace Exponax.SmallGaps2
open Exponax.Metrics Exponax.Gen.MetricsGen

/-- the channel mean of the model per-channel correlations (what `correlation` computes) -/
noncomputable def correlationMean (D N : ℕ) (L : ℝ) (u r : List (Array ℝ)) : ℝ :=
  (List.zipWith (correlationChannel D N L) u r).sum / ((List.zipWith (correlationChannel D N L) u r).length : ℝ)

/-- link: the regenerated `correlation` is `correlationMean` -/
theorem correlation_eq_mean (D N : ℕ) (L : ℝ) (hL : 0 < L) (hN : 0 < N) (u r : List (Array ℝ))
    (hu : ∀ a ∈ u, a.size = N ^ D) (hr : ∀ a ∈ r, a.size = N ^ D) :
    correlation u r = correlationMean D N L u r :=
  correlation_eq_model_partial D N L hL hN u r hu hr

theorem mean_mem_Icc (l : List ℝ) (h : ∀ x ∈ l, -1 ≤ x ∧ x ≤ 1) :
    -1 ≤ l.sum / (l.length : ℝ) ∧ l.sum / (l.length : ℝ) ≤ 1 := by
  have hs : -(l.length : ℝ) ≤ l.sum ∧ l.sum ≤ (l.length : ℝ) := by
    induction l with
    | nil => simp
    | cons a as ih =>
      have ha := h a List.mem_cons_self
      have := ih (fun x hx => h x (List.mem_cons_of_mem _ hx))
      simp only [List.sum_cons, List.length_cons, Nat.cast_add, Nat.cast_one]
      constructor <;> linarith [ha.1, ha.2, this.1, this.2]
  rcases Nat.eq_zero_or_pos l.length with h0 | hpos
  · rw [h0]; simp
  · have hp : (0 : ℝ) < (l.length : ℝ) := by exact_mod_cast hpos
    constructor
    · rw [le_div_iff₀ hp]; linarith [hs.1]
    · rw [div_le_iff₀ hp]; linarith [hs.2]

theorem mean_const (l : List ℝ) (c : ℝ) (hne : l ≠ []) (h : ∀ x ∈ l, x = c) : l.sum / (l.length : ℝ) = c := by
  have hs : l.sum = (l.length : ℝ) * c := by
    induction l with
    | nil => simp
    | cons a as ih =>
      by_cases has : as = []
      · subst has; simp [h a List.mem_cons_self]
      · have := ih has (fun x hx => h x (List.mem_cons_of_mem _ hx))
        simp only [List.sum_cons, List.length_cons, Nat.cast_add, Nat.cast_one, this, h a List.mem_cons_self]
        ring
  have hp : (l.length : ℝ) ≠ 0 := by
    have : 0 < l.length := List.length_pos_iff.mpr hne
    exact_mod_cast this.ne'
  rw [hs, mul_div_cancel_left₀ _ hp]

theorem forall_zipWith {α β γ : Type} (f : α → β → γ) (P : γ → Prop) (u : List α) (r : List β)
    (h : ∀ a ∈ u, ∀ b ∈ r, P (f a b)) : ∀ x ∈ List.zipWith f u r, P x := by
  induction u generalizing r with
  | nil => simp
  | cons a as ih =>
    cases r with
    | nil => simp
    | cons b bs =>
      intro x hx
      simp only [List.zipWith_cons_cons, List.mem_cons] at hx
      rcases hx with rfl | hx
      · exact h a List.mem_cons_self b List.mem_cons_self
      · exact ih bs (fun a' ha' b' hb' => h a' (List.mem_cons_of_mem _ ha') b' (List.mem_cons_of_mem _ hb')) x hx

/-- **multi-channel correlation lies in `[−1, 1]`** (model channel mean; any number of channels, also zero) -/
theorem correlationMean_mem_Icc (D N : ℕ) (L : ℝ) (hL : 0 ≤ L) (u r : List (Array ℝ))
    (hu : ∀ a ∈ u, a.size = N ^ D) (hr : ∀ a ∈ r, a.size = N ^ D) :
    -1 ≤ correlationMean D N L u r ∧ correlationMean D N L u r ≤ 1 := by
  unfold correlationMean
  apply mean_mem_Icc
  exact forall_zipWith _ (fun x => -1 ≤ x ∧ x ≤ 1) u r
    (fun a ha b hb => correlationChannel_mem_Icc D N L hL a b (hu a ha) (hr b hb))

/-- per-channel proportionality `r[c] = a_c · u[c]` with `sgn a_c = σ` for all channels gives mean `σ` -/
theorem correlationMean_prop (D N : ℕ) (L : ℝ) (hL : 0 < L) (hN : 0 < N) (σ : ℝ) (u r : List (Array ℝ))
    (hne : u ≠ []) (hlen : r.length = u.length) (hu : ∀ a ∈ u, a.size = N ^ D)
    (hu0 : ∀ a ∈ u, ∃ x ∈ a.toList, x ≠ 0)
    (hprop : ∀ c (h1 : c < u.length) (h2 : c < r.length), ∃ a : ℝ, a ≠ 0 ∧ a / |a| = σ ∧
      r[c] = (u[c]).map (fun x => a * x)) :
    correlationMean D N L u r = σ := by
  unfold correlationMean
  apply mean_const
  · intro h
    have := congrArg List.length h
    simp only [List.length_zipWith, List.length_nil, hlen, Nat.min_self] at this
    exact hne (List.length_eq_zero_iff.mp this)
  · intro x hx
    obtain ⟨c, hc, rfl⟩ := List.getElem_of_mem hx
    have hc' := hc
    simp only [List.length_zipWith, hlen, Nat.min_self] at hc'
    rw [List.getElem_zipWith]
    obtain ⟨a, ha, hσ, hr⟩ := hprop c hc' (by omega)
    rw [hr, correlationChannel_smul D N L a hL hN ha (u[c]) (hu _ (List.getElem_mem _))
      (hu0 _ (List.getElem_mem _)), hσ]

/-- **`+1` for positively proportional fields** (factor `a_c > 0` may differ per channel) -/
theorem correlationMean_pos (D N : ℕ) (L : ℝ) (hL : 0 < L) (hN : 0 < N) (u r : List (Array ℝ))
    (hne : u ≠ []) (hlen : r.length = u.length) (hu : ∀ a ∈ u, a.size = N ^ D)
    (hu0 : ∀ a ∈ u, ∃ x ∈ a.toList, x ≠ 0)
    (hprop : ∀ c (h1 : c < u.length) (h2 : c < r.length), ∃ a : ℝ, 0 < a ∧ r[c] = (u[c]).map (fun x => a * x)) :
    correlationMean D N L u r = 1 := by
  apply correlationMean_prop D N L hL hN 1 u r hne hlen hu hu0
  intro c h1 h2
  obtain ⟨a, ha, hr⟩ := hprop c h1 h2
  exact ⟨a, ha.ne', by rw [abs_of_pos ha, div_self ha.ne'], hr⟩

/-- **`−1` for negatively proportional fields** (factor `a_c < 0` may differ per channel) -/
theorem correlationMean_neg (D N : ℕ) (L : ℝ) (hL : 0 < L) (hN : 0 < N) (u r : List (Array ℝ))
    (hne : u ≠ []) (hlen : r.length = u.length) (hu : ∀ a ∈ u, a.size = N ^ D)
    (hu0 : ∀ a ∈ u, ∃ x ∈ a.toList, x ≠ 0)
    (hprop : ∀ c (h1 : c < u.length) (h2 : c < r.length), ∃ a : ℝ, a < 0 ∧ r[c] = (u[c]).map (fun x => a * x)) :
    correlationMean D N L u r = -1 := by
  apply correlationMean_prop D N L hL hN (-1) u r hne hlen hu hu0
  intro c h1 h2
  obtain ⟨a, ha, hr⟩ := hprop c h1 h2
  exact ⟨a, ha.ne, by rw [abs_of_neg ha, div_neg, div_self ha.ne], hr⟩

theorem size_of_prop (n : ℕ) (u r : List (Array ℝ)) (hlen : r.length = u.length) (hu : ∀ a ∈ u, a.size = n)
    (hprop : ∀ c (h1 : c < u.length) (h2 : c < r.length), ∃ a : ℝ, r[c] = (u[c]).map (fun x => a * x)) :
    ∀ b ∈ r, b.size = n := by
  intro b hb
  obtain ⟨c, hc, rfl⟩ := List.getElem_of_mem hb
  obtain ⟨a, hr⟩ := hprop c (by omega) hc
  rw [hr, Array.size_map]
  exact hu _ (List.getElem_mem _)

/-- **the regenerated multi-channel `correlation`**: in `[−1, 1]`; `+1` / `−1` for channel-wise positively /
    negatively proportional fields.  (The implementation has no `domain_extent` argument: the cell volume cancels;
    `L = 1` is used for the link to the model.) -/
theorem generated_correlation_multichannel (D N : ℕ) (hN : 0 < N) (u r : List (Array ℝ))
    (hu : ∀ a ∈ u, a.size = N ^ D) :
    ((∀ a ∈ r, a.size = N ^ D) → -1 ≤ correlation u r ∧ correlation u r ≤ 1) ∧
    (u ≠ [] → r.length = u.length → (∀ a ∈ u, ∃ x ∈ a.toList, x ≠ 0) →
      (∀ c (h1 : c < u.length) (h2 : c < r.length), ∃ a : ℝ, 0 < a ∧ r[c] = (u[c]).map (fun x => a * x)) →
      correlation u r = 1) ∧
    (u ≠ [] → r.length = u.length → (∀ a ∈ u, ∃ x ∈ a.toList, x ≠ 0) →
      (∀ c (h1 : c < u.length) (h2 : c < r.length), ∃ a : ℝ, a < 0 ∧ r[c] = (u[c]).map (fun x => a * x)) →
      correlation u r = -1) := by
  refine ⟨?_, ?_, ?_⟩
  · intro hr
    rw [correlation_eq_mean D N 1 one_pos hN u r hu hr]
    exact correlationMean_mem_Icc D N 1 zero_le_one u r hu hr
  · intro hne hlen hu0 hprop
    have hr := size_of_prop (N ^ D) u r hlen hu
      (fun c h1 h2 => by obtain ⟨a, _, h⟩ := hprop c h1 h2; exact ⟨a, h⟩)
    rw [correlation_eq_mean D N 1 one_pos hN u r hu hr]
    exact correlationMean_pos D N 1 one_pos hN u r hne hlen hu hu0 hprop
  · intro hne hlen hu0 hprop
    have hr := size_of_prop (N ^ D) u r hlen hu
      (fun c h1 h2 => by obtain ⟨a, _, h⟩ := hprop c h1 h2; exact ⟨a, h⟩)
    rw [correlation_eq_mean D N 1 one_pos hN u r hu hr]
    exact correlationMean_neg D N 1 one_pos hN u r hne hlen hu hu0 hprop

/-- with zero channels the mean is `0/0 = 0` (so the `u ≠ []` hypothesis of the `±1` statements is needed) -/
theorem correlationMean_nil (D N : ℕ) (L : ℝ) : correlationMean D N L [] [] = 0 := by
  simp [correlationMean]

/-! non-vacuity: two channels on a 2-point grid, factors 2 and 3 (resp. −2 and −3) -/
example : ∃ (u r : List (Array ℝ)), u ≠ [] ∧ r.length = u.length ∧ (∀ a ∈ u, a.size = 2 ^ 1) ∧
    (∀ a ∈ u, ∃ x ∈ a.toList, x ≠ 0) ∧
    (∀ c (h1 : c < u.length) (h2 : c < r.length), ∃ a : ℝ, 0 < a ∧ r[c] = (u[c]).map (fun x => a * x)) := by
  refine ⟨[#[1, 0], #[0, 1]], [#[2 * 1, 2 * 0], #[3 * 0, 3 * 1]], by simp, rfl, ?_, ?_, ?_⟩
  · intro a ha; simp at ha; rcases ha with rfl | rfl <;> rfl
  · intro a ha; simp at ha; rcases ha with rfl | rfl <;> simp
  · intro c h1 h2
    simp only [List.length_cons, List.length_nil] at h1
    interval_cases c
    · exact ⟨2, by norm_num, by simp⟩
    · exact ⟨3, by norm_num, by simp⟩

example : ∃ (u r : List (Array ℝ)), u ≠ [] ∧ r.length = u.length ∧ (∀ a ∈ u, a.size = 2 ^ 1) ∧
    (∀ a ∈ u, ∃ x ∈ a.toList, x ≠ 0) ∧
    (∀ c (h1 : c < u.length) (h2 : c < r.length), ∃ a : ℝ, a < 0 ∧ r[c] = (u[c]).map (fun x => a * x)) := by
  refine ⟨[#[1, 0], #[0, 1]], [#[(-2) * 1, (-2) * 0], #[(-3) * 0, (-3) * 1]], by simp, rfl, ?_, ?_, ?_⟩
  · intro a ha; simp at ha; rcases ha with rfl | rfl <;> rfl
  · intro a ha; simp at ha; rcases ha with rfl | rfl <;> simp
  · intro c h1 h2
    simp only [List.length_cons, List.length_nil] at h1
    interval_cases c
    · exact ⟨-2, by norm_num, by simp⟩
    · exact ⟨-3, by norm_num, by simp⟩

end Exponax.SmallGaps2
