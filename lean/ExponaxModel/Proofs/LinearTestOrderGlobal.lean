import ExponaxModel.Proofs.LinearTestOrder
/-
C02 support — T3: GLOBAL order of ETDRK1–4 on the linear test family `u' = λu + μu`.

 * `norm_pow_sub_pow_le`   `‖aⁿ − bⁿ‖ ≤ n · max(‖a‖,‖b‖)^{n−1} · ‖a − b‖`;
 * `global_of_local`       local error `≤ C t^{p+1}` on `[0,T]`  ⟹  after `n` steps of size `dt`,
                           `n·dt ≤ T`:  error `≤ C·T·e^{(‖s‖ + C T^p) T} · dt^p` (explicit in `C`);
 * `R?_global_order`       the four amplification factors;
 * `E?lin_iterate`, `E?step_global_order`  the regenerated stage formulas `Gen.Etdrk.E?step` with the
                           exact coefficients, iterated `n` times on any `u`.
-/
set_option linter.unusedVariables false
noncomputable section
namespace Exponax.LinearOrder
open Exponax Exponax.Spec Exponax.ContourTail Exponax.Gen.Etdrk

/-- **telescoping bound** `‖aⁿ − bⁿ‖ ≤ n · max(‖a‖,‖b‖)^{n−1} · ‖a − b‖` -/
theorem norm_pow_sub_pow_le (a b : ℂ) (n : ℕ) :
    ‖a ^ n - b ^ n‖ ≤ n * max ‖a‖ ‖b‖ ^ (n - 1) * ‖a - b‖ := by
  induction n with
  | zero => simp
  | succ n ih =>
    have hM : 0 ≤ max ‖a‖ ‖b‖ := le_max_of_le_left (norm_nonneg a)
    have h : a ^ (n + 1) - b ^ (n + 1) = a * (a ^ n - b ^ n) + (a - b) * b ^ n := by ring
    have hpow : max ‖a‖ ‖b‖ * ((n : ℝ) * max ‖a‖ ‖b‖ ^ (n - 1)) = (n : ℝ) * max ‖a‖ ‖b‖ ^ n := by
      rcases Nat.eq_zero_or_pos n with rfl | hn
      · simp
      · obtain ⟨k, rfl⟩ : ∃ k, n = k + 1 := ⟨n - 1, by omega⟩
        simp only [Nat.add_sub_cancel]
        ring
    rw [h]
    calc ‖a * (a ^ n - b ^ n) + (a - b) * b ^ n‖
        ≤ ‖a‖ * ‖a ^ n - b ^ n‖ + ‖a - b‖ * ‖b‖ ^ n := by
          refine (norm_add_le _ _).trans ?_
          rw [norm_mul, norm_mul, norm_pow]
      _ ≤ max ‖a‖ ‖b‖ * ((n : ℝ) * max ‖a‖ ‖b‖ ^ (n - 1) * ‖a - b‖)
            + ‖a - b‖ * max ‖a‖ ‖b‖ ^ n := by
          gcongr
          · exact le_max_left _ _
          · exact le_max_right _ _
      _ = ((n + 1 : ℕ) : ℝ) * max ‖a‖ ‖b‖ ^ (n + 1 - 1) * ‖a - b‖ := by
          simp only [Nat.add_sub_cancel]
          push_cast
          linear_combination ‖a - b‖ * hpow

/-- **local ⟹ global**: if the one-step amplification `a(t)` satisfies
    `‖a(t) − e^{s t}‖ ≤ C t^{p+1}` on `[0,T]`, then after `n` steps of size `dt` with `n·dt ≤ T`
    `‖a(dt)ⁿ − e^{s·n·dt}‖ ≤ C·T·e^{(‖s‖ + C T^p)·T} · dt^p`  (constant independent of `n`, `dt`). -/
theorem global_of_local (a : ℝ → ℂ) (s : ℂ) (p : ℕ) (C T : ℝ) (hC : 0 ≤ C) (hT : 0 ≤ T)
    (hloc : ∀ t : ℝ, 0 ≤ t → t ≤ T → ‖a t - Complex.exp (s * t)‖ ≤ C * t ^ (p + 1))
    (n : ℕ) (dt : ℝ) (hdt : 0 ≤ dt) (hn : n * dt ≤ T) :
    ‖a dt ^ n - Complex.exp (s * (n * dt))‖ ≤ C * T * Real.exp ((‖s‖ + C * T ^ p) * T) * dt ^ p := by
  have hK : 0 ≤ ‖s‖ + C * T ^ p := add_nonneg (norm_nonneg _) (mul_nonneg hC (pow_nonneg hT p))
  rcases Nat.eq_zero_or_pos n with rfl | hnpos
  · simp only [pow_zero, Nat.cast_zero, zero_mul, mul_zero, Complex.exp_zero, sub_self, norm_zero]
    exact mul_nonneg (mul_nonneg (mul_nonneg hC hT) (Real.exp_pos _).le) (pow_nonneg hdt p)
  have hn1 : (1 : ℝ) ≤ n := by exact_mod_cast hnpos
  have hdtT : dt ≤ T := le_trans (by nlinarith) hn
  set K := ‖s‖ + C * T ^ p with hKdef
  -- the exact factor
  have hbpow : Complex.exp (s * (n * dt)) = Complex.exp (s * dt) ^ n := by
    rw [← Complex.exp_nat_mul]; congr 1; ring
  have hb : ‖Complex.exp (s * dt)‖ ≤ Real.exp (‖s‖ * dt) := by
    rw [Complex.norm_exp]
    refine Real.exp_le_exp.mpr ?_
    calc (s * dt).re ≤ ‖s * dt‖ := Complex.re_le_norm _
      _ = ‖s‖ * dt := by rw [norm_mul, Complex.norm_real, Real.norm_eq_abs, abs_of_nonneg hdt]
  have hbK : ‖Complex.exp (s * dt)‖ ≤ Real.exp (K * dt) :=
    hb.trans (Real.exp_le_exp.mpr (mul_le_mul_of_nonneg_right
      (le_add_of_nonneg_right (mul_nonneg hC (pow_nonneg hT p))) hdt))
  have hl := hloc dt hdt hdtT
  have hdtp : dt ^ (p + 1) ≤ T ^ p * dt := by
    rw [pow_succ]; exact mul_le_mul_of_nonneg_right (pow_le_pow_left₀ hdt hdtT p) hdt
  have ha : ‖a dt‖ ≤ Real.exp (K * dt) := by
    have h1 : ‖a dt‖ ≤ ‖Complex.exp (s * dt)‖ + ‖a dt - Complex.exp (s * dt)‖ := by
      have := norm_add_le (Complex.exp (s * dt)) (a dt - Complex.exp (s * dt))
      simpa using this
    have h2 : (1 : ℝ) ≤ Real.exp (‖s‖ * dt) := Real.one_le_exp (mul_nonneg (norm_nonneg _) hdt)
    have hx : 0 ≤ C * T ^ p * dt := mul_nonneg (mul_nonneg hC (pow_nonneg hT p)) hdt
    have h3 : 1 + C * T ^ p * dt ≤ Real.exp (C * T ^ p * dt) := by
      have := Real.add_one_le_exp (C * T ^ p * dt); linarith
    calc ‖a dt‖ ≤ Real.exp (‖s‖ * dt) + C * dt ^ (p + 1) := by linarith
      _ ≤ Real.exp (‖s‖ * dt) + C * (T ^ p * dt) := by gcongr
      _ ≤ Real.exp (‖s‖ * dt) * (1 + C * T ^ p * dt) := by nlinarith
      _ ≤ Real.exp (‖s‖ * dt) * Real.exp (C * T ^ p * dt) := by gcongr
      _ = Real.exp (K * dt) := by rw [← Real.exp_add, hKdef]; congr 1; ring
  have hmax : max ‖a dt‖ ‖Complex.exp (s * dt)‖ ^ (n - 1) ≤ Real.exp (K * T) := by
    calc max ‖a dt‖ ‖Complex.exp (s * dt)‖ ^ (n - 1) ≤ Real.exp (K * dt) ^ (n - 1) :=
          pow_le_pow_left₀ (le_max_of_le_left (norm_nonneg _)) (max_le ha hbK) _
      _ = Real.exp (((n - 1 : ℕ) : ℝ) * (K * dt)) := by rw [Real.exp_nat_mul]
      _ ≤ Real.exp (K * T) := by
          refine Real.exp_le_exp.mpr ?_
          have h4 : (((n - 1 : ℕ)) : ℝ) ≤ n := by exact_mod_cast Nat.sub_le n 1
          calc ((n - 1 : ℕ) : ℝ) * (K * dt) ≤ (n : ℝ) * (K * dt) :=
                mul_le_mul_of_nonneg_right h4 (mul_nonneg hK hdt)
            _ = K * (n * dt) := by ring
            _ ≤ K * T := mul_le_mul_of_nonneg_left hn hK
  rw [hbpow]
  calc ‖a dt ^ n - Complex.exp (s * dt) ^ n‖
      ≤ n * max ‖a dt‖ ‖Complex.exp (s * dt)‖ ^ (n - 1) * ‖a dt - Complex.exp (s * dt)‖ :=
        norm_pow_sub_pow_le _ _ n
    _ ≤ n * Real.exp (K * T) * (C * dt ^ (p + 1)) := by gcongr
    _ = C * (n * dt) * Real.exp (K * T) * dt ^ p := by ring
    _ ≤ C * T * Real.exp (K * T) * dt ^ p := by gcongr

/-! ### the four amplification factors -/

/-- generic wrapper: local order for `R` ⟹ global order for `R`, both in the `∃ C` form -/
theorem global_order_of_local_order (R : ℂ → ℂ → ℂ) (l m : ℂ) (p : ℕ) (T : ℝ) (hT : 0 ≤ T)
    (hloc : ∃ C : ℝ, 0 ≤ C ∧ ∀ t : ℝ, 0 ≤ t → t ≤ T →
      ‖R (l * t) (m * t) - Complex.exp ((l + m) * t)‖ ≤ C * t ^ (p + 1)) :
    ∃ C' : ℝ, 0 ≤ C' ∧ ∀ (n : ℕ) (dt : ℝ), 0 ≤ dt → n * dt ≤ T →
      ‖R (l * dt) (m * dt) ^ n - Complex.exp ((l + m) * (n * dt))‖ ≤ C' * dt ^ p := by
  obtain ⟨C, hC, h⟩ := hloc
  refine ⟨C * T * Real.exp ((‖l + m‖ + C * T ^ p) * T),
    mul_nonneg (mul_nonneg hC hT) (Real.exp_pos _).le, fun n dt hdt hn => ?_⟩
  exact global_of_local (fun t : ℝ => R (l * t) (m * t)) (l + m) p C T hC hT h n dt hdt hn

/-- **T3, ETDRK1: global error `O(dt)`** — `n` steps of size `dt`, `n·dt ≤ T`; `C'` depends only on `λ, μ, T` -/
theorem R1_global_order (l m : ℂ) (T : ℝ) (hT : 0 ≤ T) :
    ∃ C' : ℝ, 0 ≤ C' ∧ ∀ (n : ℕ) (dt : ℝ), 0 ≤ dt → n * dt ≤ T →
      ‖R1 (l * dt) (m * dt) ^ n - Complex.exp ((l + m) * (n * dt))‖ ≤ C' * dt ^ 1 :=
  global_order_of_local_order R1 l m 1 T hT (R1_local_order l m T)

/-- **T3, ETDRK2: global error `O(dt²)`** -/
theorem R2_global_order (l m : ℂ) (T : ℝ) (hT : 0 ≤ T) :
    ∃ C' : ℝ, 0 ≤ C' ∧ ∀ (n : ℕ) (dt : ℝ), 0 ≤ dt → n * dt ≤ T →
      ‖R2 (l * dt) (m * dt) ^ n - Complex.exp ((l + m) * (n * dt))‖ ≤ C' * dt ^ 2 :=
  global_order_of_local_order R2 l m 2 T hT (R2_local_order l m T)

/-- **T3, ETDRK3: global error `O(dt³)`** -/
theorem R3_global_order (l m : ℂ) (T : ℝ) (hT : 0 ≤ T) :
    ∃ C' : ℝ, 0 ≤ C' ∧ ∀ (n : ℕ) (dt : ℝ), 0 ≤ dt → n * dt ≤ T →
      ‖R3 (l * dt) (m * dt) ^ n - Complex.exp ((l + m) * (n * dt))‖ ≤ C' * dt ^ 3 :=
  global_order_of_local_order R3 l m 3 T hT (R3_local_order l m T)

/-- **T3, ETDRK4: global error `O(dt⁴)`** -/
theorem R4_global_order (l m : ℂ) (T : ℝ) (hT : 0 ≤ T) :
    ∃ C' : ℝ, 0 ≤ C' ∧ ∀ (n : ℕ) (dt : ℝ), 0 ≤ dt → n * dt ≤ T →
      ‖R4 (l * dt) (m * dt) ^ n - Complex.exp ((l + m) * (n * dt))‖ ≤ C' * dt ^ 4 :=
  global_order_of_local_order R4 l m 4 T hT (R4_local_order l m T)

/-! ### the regenerated stage formulas, iterated

`E?lin l m dt` is the regenerated `Gen.Etdrk.E?step` with the exact coefficients for `z = λ·dt` and the
linear test nonlinearity `N v = μ v` (the definitions below are just this instantiation). -/

/-- ETDRK1 step for `u' = λu + μu` with the exact coefficients -/
def E1lin (l m : ℂ) (dt : ℝ) : ℂ → ℂ :=
  E1step (Complex.exp (l * dt)) (dt * phi1e (l * dt)) (fun v => m * v)

/-- ETDRK2 step for `u' = λu + μu` with the exact coefficients -/
def E2lin (l m : ℂ) (dt : ℝ) : ℂ → ℂ :=
  E2step (Complex.exp (l * dt)) (dt * phi1e (l * dt)) (dt * phi2e (l * dt)) (fun v => m * v)

/-- ETDRK3 step for `u' = λu + μu` with the exact coefficients -/
def E3lin (l m : ℂ) (dt : ℝ) : ℂ → ℂ :=
  E3step (Complex.exp (l * dt)) (Complex.exp (l * dt / 2)) (dt * (phi1e (l * dt / 2) / 2))
    (dt * phi1e (l * dt))
    (dt * (phi1e (l * dt) - 3 * phi2e (l * dt) + 4 * phi3e (l * dt)))
    (dt * (4 * phi2e (l * dt) - 8 * phi3e (l * dt)))
    (dt * (4 * phi3e (l * dt) - phi2e (l * dt))) (fun v => m * v)

/-- ETDRK4 step for `u' = λu + μu` with the exact coefficients -/
def E4lin (l m : ℂ) (dt : ℝ) : ℂ → ℂ :=
  E4step (Complex.exp (l * dt)) (Complex.exp (l * dt / 2)) (dt * (phi1e (l * dt / 2) / 2))
    (dt * (phi1e (l * dt / 2) / 2)) (dt * (phi1e (l * dt / 2) / 2))
    (dt * (phi1e (l * dt) - 3 * phi2e (l * dt) + 4 * phi3e (l * dt)))
    (dt * (phi2e (l * dt) - 2 * phi3e (l * dt)))
    (dt * (4 * phi3e (l * dt) - phi2e (l * dt))) (fun v => m * v)

theorem E1lin_apply (l m : ℂ) (dt : ℝ) (u : ℂ) : E1lin l m dt u = R1 (l * dt) (m * dt) * u :=
  E1step_linear (l * dt) dt m u
theorem E2lin_apply (l m : ℂ) (dt : ℝ) (u : ℂ) : E2lin l m dt u = R2 (l * dt) (m * dt) * u :=
  E2step_linear (l * dt) dt m u
theorem E3lin_apply (l m : ℂ) (dt : ℝ) (u : ℂ) : E3lin l m dt u = R3 (l * dt) (m * dt) * u :=
  E3step_linear (l * dt) dt m u
theorem E4lin_apply (l m : ℂ) (dt : ℝ) (u : ℂ) : E4lin l m dt u = R4 (l * dt) (m * dt) * u :=
  E4step_linear (l * dt) dt m u

theorem iterate_mul (f : ℂ → ℂ) (r : ℂ) (h : ∀ u, f u = r * u) (n : ℕ) (u : ℂ) :
    f^[n] u = r ^ n * u := by
  induction n with
  | zero => simp
  | succ n ih => rw [Function.iterate_succ_apply', ih, h]; ring

theorem E1lin_iterate (l m : ℂ) (dt : ℝ) (n : ℕ) (u : ℂ) :
    (E1lin l m dt)^[n] u = R1 (l * dt) (m * dt) ^ n * u := iterate_mul _ _ (E1lin_apply l m dt) n u
theorem E2lin_iterate (l m : ℂ) (dt : ℝ) (n : ℕ) (u : ℂ) :
    (E2lin l m dt)^[n] u = R2 (l * dt) (m * dt) ^ n * u := iterate_mul _ _ (E2lin_apply l m dt) n u
theorem E3lin_iterate (l m : ℂ) (dt : ℝ) (n : ℕ) (u : ℂ) :
    (E3lin l m dt)^[n] u = R3 (l * dt) (m * dt) ^ n * u := iterate_mul _ _ (E3lin_apply l m dt) n u
theorem E4lin_iterate (l m : ℂ) (dt : ℝ) (n : ℕ) (u : ℂ) :
    (E4lin l m dt)^[n] u = R4 (l * dt) (m * dt) ^ n * u := iterate_mul _ _ (E4lin_apply l m dt) n u

/-- generic wrapper: a step map that multiplies by `R(λdt, μdt)` inherits the global bound -/
theorem step_global_of_R_global (step : ℝ → ℂ → ℂ) (R : ℂ → ℂ → ℂ) (l m : ℂ) (p : ℕ) (T : ℝ)
    (hstep : ∀ (dt : ℝ) (n : ℕ) (u : ℂ), (step dt)^[n] u = R (l * dt) (m * dt) ^ n * u)
    (hR : ∃ C' : ℝ, 0 ≤ C' ∧ ∀ (n : ℕ) (dt : ℝ), 0 ≤ dt → n * dt ≤ T →
      ‖R (l * dt) (m * dt) ^ n - Complex.exp ((l + m) * (n * dt))‖ ≤ C' * dt ^ p) :
    ∃ C' : ℝ, 0 ≤ C' ∧ ∀ (n : ℕ) (dt : ℝ) (u : ℂ), 0 ≤ dt → n * dt ≤ T →
      ‖(step dt)^[n] u - Complex.exp ((l + m) * (n * dt)) * u‖ ≤ C' * dt ^ p * ‖u‖ := by
  obtain ⟨C', hC', h⟩ := hR
  refine ⟨C', hC', fun n dt u hdt hn => ?_⟩
  rw [hstep, ← sub_mul, norm_mul]
  exact mul_le_mul_of_nonneg_right (h n dt hdt hn) (norm_nonneg u)

/-- **T3 for the regenerated ETDRK1 step**: `n` steps of size `dt` (`n·dt ≤ T`) from any `u` are within
    `C'·dt·‖u‖` of the exact solution `e^{(λ+μ)·n·dt} u` -/
theorem E1step_global_order (l m : ℂ) (T : ℝ) (hT : 0 ≤ T) :
    ∃ C' : ℝ, 0 ≤ C' ∧ ∀ (n : ℕ) (dt : ℝ) (u : ℂ), 0 ≤ dt → n * dt ≤ T →
      ‖(E1lin l m dt)^[n] u - Complex.exp ((l + m) * (n * dt)) * u‖ ≤ C' * dt ^ 1 * ‖u‖ :=
  step_global_of_R_global (E1lin l m) R1 l m 1 T (E1lin_iterate l m) (R1_global_order l m T hT)

/-- **T3 for the regenerated ETDRK2 step** -/
theorem E2step_global_order (l m : ℂ) (T : ℝ) (hT : 0 ≤ T) :
    ∃ C' : ℝ, 0 ≤ C' ∧ ∀ (n : ℕ) (dt : ℝ) (u : ℂ), 0 ≤ dt → n * dt ≤ T →
      ‖(E2lin l m dt)^[n] u - Complex.exp ((l + m) * (n * dt)) * u‖ ≤ C' * dt ^ 2 * ‖u‖ :=
  step_global_of_R_global (E2lin l m) R2 l m 2 T (E2lin_iterate l m) (R2_global_order l m T hT)

/-- **T3 for the regenerated ETDRK3 step** -/
theorem E3step_global_order (l m : ℂ) (T : ℝ) (hT : 0 ≤ T) :
    ∃ C' : ℝ, 0 ≤ C' ∧ ∀ (n : ℕ) (dt : ℝ) (u : ℂ), 0 ≤ dt → n * dt ≤ T →
      ‖(E3lin l m dt)^[n] u - Complex.exp ((l + m) * (n * dt)) * u‖ ≤ C' * dt ^ 3 * ‖u‖ :=
  step_global_of_R_global (E3lin l m) R3 l m 3 T (E3lin_iterate l m) (R3_global_order l m T hT)

/-- **T3 for the regenerated ETDRK4 step** -/
theorem E4step_global_order (l m : ℂ) (T : ℝ) (hT : 0 ≤ T) :
    ∃ C' : ℝ, 0 ≤ C' ∧ ∀ (n : ℕ) (dt : ℝ) (u : ℂ), 0 ≤ dt → n * dt ≤ T →
      ‖(E4lin l m dt)^[n] u - Complex.exp ((l + m) * (n * dt)) * u‖ ≤ C' * dt ^ 4 * ‖u‖ :=
  step_global_of_R_global (E4lin l m) R4 l m 4 T (E4lin_iterate l m) (R4_global_order l m T hT)

/-- generic wrapper for the textbook form: `n ≥ 1` steps of size `dt = T/n` reach time `T` -/
theorem uniform_of_global (step : ℝ → ℂ → ℂ) (s : ℂ) (p : ℕ) (T : ℝ) (hT : 0 ≤ T)
    (h : ∃ C' : ℝ, 0 ≤ C' ∧ ∀ (n : ℕ) (dt : ℝ) (u : ℂ), 0 ≤ dt → n * dt ≤ T →
      ‖(step dt)^[n] u - Complex.exp (s * (n * dt)) * u‖ ≤ C' * dt ^ p * ‖u‖) :
    ∃ C' : ℝ, 0 ≤ C' ∧ ∀ (n : ℕ) (u : ℂ), 1 ≤ n →
      ‖(step (T / n))^[n] u - Complex.exp (s * T) * u‖ ≤ C' * (T / n) ^ p * ‖u‖ := by
  obtain ⟨C', hC', h⟩ := h
  refine ⟨C', hC', fun n u hn => ?_⟩
  have hn0 : (n : ℝ) ≠ 0 := by exact_mod_cast (Nat.pos_of_ne_zero (by omega)).ne'
  have hmul : (n : ℝ) * (T / n) = T := by field_simp
  have h1 := h n (T / n) u (div_nonneg hT (Nat.cast_nonneg n)) hmul.le
  have hc : ((n : ℂ) * ((T / n : ℝ) : ℂ)) = (T : ℂ) := by
    rw [← Complex.ofReal_natCast, ← Complex.ofReal_mul, hmul]
  rwa [hc] at h1

/-- **T3, textbook form**: `n ≥ 1` steps of size `dt = T/n` of the regenerated ETDRK`p` step reach time `T`
    with error `≤ C'·(T/n)^p·‖u‖`, `C'` independent of `n` and `u` -/
theorem E1step_global_order_uniform (l m : ℂ) (T : ℝ) (hT : 0 ≤ T) :
    ∃ C' : ℝ, 0 ≤ C' ∧ ∀ (n : ℕ) (u : ℂ), 1 ≤ n →
      ‖(E1lin l m (T / n))^[n] u - Complex.exp ((l + m) * T) * u‖ ≤ C' * (T / n) ^ 1 * ‖u‖ :=
  uniform_of_global (E1lin l m) (l + m) 1 T hT (E1step_global_order l m T hT)

theorem E2step_global_order_uniform (l m : ℂ) (T : ℝ) (hT : 0 ≤ T) :
    ∃ C' : ℝ, 0 ≤ C' ∧ ∀ (n : ℕ) (u : ℂ), 1 ≤ n →
      ‖(E2lin l m (T / n))^[n] u - Complex.exp ((l + m) * T) * u‖ ≤ C' * (T / n) ^ 2 * ‖u‖ :=
  uniform_of_global (E2lin l m) (l + m) 2 T hT (E2step_global_order l m T hT)

theorem E3step_global_order_uniform (l m : ℂ) (T : ℝ) (hT : 0 ≤ T) :
    ∃ C' : ℝ, 0 ≤ C' ∧ ∀ (n : ℕ) (u : ℂ), 1 ≤ n →
      ‖(E3lin l m (T / n))^[n] u - Complex.exp ((l + m) * T) * u‖ ≤ C' * (T / n) ^ 3 * ‖u‖ :=
  uniform_of_global (E3lin l m) (l + m) 3 T hT (E3step_global_order l m T hT)

theorem E4step_global_order_uniform (l m : ℂ) (T : ℝ) (hT : 0 ≤ T) :
    ∃ C' : ℝ, 0 ≤ C' ∧ ∀ (n : ℕ) (u : ℂ), 1 ≤ n →
      ‖(E4lin l m (T / n))^[n] u - Complex.exp ((l + m) * T) * u‖ ≤ C' * (T / n) ^ 4 * ‖u‖ :=
  uniform_of_global (E4lin l m) (l + m) 4 T hT (E4step_global_order l m T hT)

/-! ### non-vacuity -/
example : (0 : ℝ) ≤ 1 := zero_le_one
example : ∃ (n : ℕ) (dt : ℝ), 0 ≤ dt ∧ n * dt ≤ (1 : ℝ) ∧ 1 ≤ n := ⟨4, 1 / 4, by norm_num, by norm_num, by norm_num⟩
/-- the hypothesis of `global_of_local` is met by a non-trivial `a` (ETDRK1, `λ = −1`, `μ = i`) -/
example : ∃ C : ℝ, 0 ≤ C ∧ ∀ t : ℝ, 0 ≤ t → t ≤ 1 →
    ‖R1 (-1 * t) (Complex.I * t) - Complex.exp ((-1 + Complex.I) * t)‖ ≤ C * t ^ (1 + 1) :=
  R1_local_order (-1) Complex.I 1

end Exponax.LinearOrder
end
