import ExponaxModel.Proofs.InterfaceAssembly
/-
C13 — the assembly (continued): the gradient-norm, general-nonlinear, polynomial and linear families, exactly as the
convection family of `Proofs/InterfaceAssembly.lean`:

 * `General…_step`, `Normalized…_step`, `Difficulty…_step`   `baseStep` on the regenerated pieces / inheritance
 * `General…_step_model`, `General…_step_eq_normalized`, `Difficulty…_super_args_to_difficulty`,
   `Difficulty…_step_to_difficulty`, `General…_step_eq_difficulty`, `General…_step_only_groups`.

The domain extent is real for the gradient-norm and general-nonlinear families (the derivative acts before `irfftn`),
arbitrary complex for the polynomial and linear families.
-/
set_option linter.unusedVariables false
namespace Exponax.Interface
open Exponax Exponax.Layout Exponax.Transform Exponax.Nonlin Exponax.Gen.Convert Exponax.Gen.Etdrk
open Exponax.Gen.StepperWiring Exponax.Gen.Steppers Exponax.StepperWiringEq
open Exponax.EquivND (liftTermND)

/-! ### gradient-norm family -/

noncomputable def GeneralGradientNormStepper_step (g : GeneralGradientNormStepperArgs ℂ) : Spec → Spec :=
  baseStep (GeneralGradientNormStepper_base_args g)
    (fun κ => GeneralGradientNormStepper_linear_operator κ (GeneralGradientNormStepper_attrs g).linear_coefficients)
    (fun c => GeneralGradientNormStepper_stepper_nonlinear_fun c g)

noncomputable def NormalizedGradientNormStepper_step (n : NormalizedGradientNormStepperArgs ℂ) : Spec → Spec :=
  GeneralGradientNormStepper_step (NormalizedGradientNormStepper_super_args n)

noncomputable def DifficultyGradientNormStepper_step (d : DifficultyGradientNormStepperArgs ℂ) : Spec → Spec :=
  NormalizedGradientNormStepper_step (DifficultyGradientNormStepper_super_args d)

/-- the assembled step in terms of the MODEL: general linear symbol, gradient-norm term with the mean fix, one channel -/
theorem GeneralGradientNormStepper_step_model (g : GeneralGradientNormStepperArgs ℂ) :
    GeneralGradientNormStepper_step g
      = etdrkStep g.order g.dt
          (fun _ h => polySymbol (cfgOf g.num_spatial_dims g.num_points g.domain_extent g.dealiasing_fraction)
            (generalLinear g.num_spatial_dims g.linear_coefficients) h)
          g.num_circle_points g.circle_radius
          (liftTermND (cfgOf g.num_spatial_dims g.num_points g.domain_extent g.dealiasing_fraction) 1
            (gradientNorm (cfgOf g.num_spatial_dims g.num_points g.domain_extent g.dealiasing_fraction) 1
              g.gradient_norm_scale true)) := by
  unfold GeneralGradientNormStepper_step baseStep
  rw [GeneralGradientNormStepper_base_args_eq, GeneralGradientNormStepper_attrs_eq]
  simp only []
  have hlin : ∀ h, GeneralGradientNormStepper_linear_operator
        (kappa (baseCfg g.num_spatial_dims g.num_points g.domain_extent) h) g.linear_coefficients
      = polySymbol (cfgOf g.num_spatial_dims g.num_points g.domain_extent g.dealiasing_fraction)
          (generalLinear g.num_spatial_dims g.linear_coefficients) h :=
    fun h => GeneralGradientNormStepper_linear_operator_polySymbol _ h _
  have hnl : GeneralGradientNormStepper_stepper_nonlinear_fun
        (baseCfg g.num_spatial_dims g.num_points g.domain_extent) g
      = gradientNorm (cfgOf g.num_spatial_dims g.num_points g.domain_extent g.dealiasing_fraction) 1
          g.gradient_norm_scale true := by
    funext uh
    exact GeneralGradientNormStepper_stepper_nonlinear_fun_eq _ g uh
  simp only [hlin, hnl]
  rfl

noncomputable def GeneralGradientNormStepper_to_normalized (g : GeneralGradientNormStepperArgs ℂ) :
    NormalizedGradientNormStepperArgs ℂ :=
  { num_spatial_dims := g.num_spatial_dims, num_points := g.num_points,
    normalized_linear_coefficients := normalize_coefficients g.linear_coefficients g.domain_extent g.dt,
    normalized_gradient_norm_scale := normalize_gradient_norm_scale g.gradient_norm_scale g.domain_extent g.dt,
    order := g.order, dealiasing_fraction := g.dealiasing_fraction, num_circle_points := g.num_circle_points,
    circle_radius := g.circle_radius }

noncomputable def NormalizedGradientNormStepper_to_difficulty (n : NormalizedGradientNormStepperArgs ℂ) (Mx : ℂ) :
    DifficultyGradientNormStepperArgs ℂ :=
  { num_spatial_dims := n.num_spatial_dims, num_points := n.num_points,
    linear_difficulties := reduce_normalized_coefficients_to_difficulty n.normalized_linear_coefficients
      n.num_spatial_dims n.num_points,
    gradient_norm_difficulty := reduce_normalized_gradient_norm_scale_to_difficulty n.normalized_gradient_norm_scale
      n.num_spatial_dims n.num_points Mx,
    maximum_absolute := Mx, order := n.order, dealiasing_fraction := n.dealiasing_fraction,
    num_circle_points := n.num_circle_points, circle_radius := n.circle_radius }

/-- **T2 on the wiring, gradient norm**: `α = a_j dt / L^j`, `β₂ = b₂ dt / L²`. -/
theorem GeneralGradientNormStepper_step_eq_normalized (g : GeneralGradientNormStepperArgs ℂ) (ℓ : ℝ)
    (hL : g.domain_extent = (ℓ : ℂ)) :
    GeneralGradientNormStepper_step g
      = NormalizedGradientNormStepper_step (GeneralGradientNormStepper_to_normalized g) := by
  unfold NormalizedGradientNormStepper_step
  rw [GeneralGradientNormStepper_step_model, GeneralGradientNormStepper_step_model,
    NormalizedGradientNormStepper_super_args_eq]
  simp only [GeneralGradientNormStepper_to_normalized, hL]
  funext u
  exact gradientNorm_step_normalized _ _ _ _ ℓ _ _ _ _ _ _ _ u

/-- **T3, gradient norm.** -/
theorem DifficultyGradientNormStepper_super_args_to_difficulty (n : NormalizedGradientNormStepperArgs ℂ) (Mx : ℂ)
    (hD : n.num_spatial_dims ≠ 0) (hN : n.num_points ≠ 0) (hM : Mx ≠ 0) :
    DifficultyGradientNormStepper_super_args (NormalizedGradientNormStepper_to_difficulty n Mx) = n := by
  have hD' : (n.num_spatial_dims : ℂ) ≠ 0 := Nat.cast_ne_zero.mpr hD
  have hN' : (n.num_points : ℂ) ≠ 0 := Nat.cast_ne_zero.mpr hN
  rw [DifficultyGradientNormStepper_super_args_eq]
  simp only [NormalizedGradientNormStepper_to_difficulty,
    (C13_difficulty_coefficients_inverse n.normalized_linear_coefficients _ _ hD' hN' two_ne_zero).1,
    (C13_difficulty_scales_inverse n.normalized_gradient_norm_scale Mx _ _ hD' hN' hM).2.2.1]

theorem DifficultyGradientNormStepper_step_to_difficulty (n : NormalizedGradientNormStepperArgs ℂ) (Mx : ℂ)
    (hD : n.num_spatial_dims ≠ 0) (hN : n.num_points ≠ 0) (hM : Mx ≠ 0) :
    DifficultyGradientNormStepper_step (NormalizedGradientNormStepper_to_difficulty n Mx)
      = NormalizedGradientNormStepper_step n := by
  unfold DifficultyGradientNormStepper_step
  rw [DifficultyGradientNormStepper_super_args_to_difficulty n Mx hD hN hM]

/-- **T2 + T3, gradient norm**: `γ_j = α_j N^j 2^{j-1} D`, `δ₂ = β₂ M N² D`. -/
theorem GeneralGradientNormStepper_step_eq_difficulty (g : GeneralGradientNormStepperArgs ℂ) (ℓ : ℝ)
    (hL : g.domain_extent = (ℓ : ℂ)) (Mx : ℂ) (hD : g.num_spatial_dims ≠ 0) (hN : g.num_points ≠ 0)
    (hM : Mx ≠ 0) :
    GeneralGradientNormStepper_step g
      = DifficultyGradientNormStepper_step
          (NormalizedGradientNormStepper_to_difficulty (GeneralGradientNormStepper_to_normalized g) Mx) := by
  rw [DifficultyGradientNormStepper_step_to_difficulty _ Mx hD hN hM]
  exact GeneralGradientNormStepper_step_eq_normalized g ℓ hL

theorem GeneralGradientNormStepper_step_only_groups (g g' : GeneralGradientNormStepperArgs ℂ) (ℓ ℓ' : ℝ)
    (hL : g.domain_extent = (ℓ : ℂ)) (hL' : g'.domain_extent = (ℓ' : ℂ))
    (h : GeneralGradientNormStepper_to_normalized g = GeneralGradientNormStepper_to_normalized g') :
    GeneralGradientNormStepper_step g = GeneralGradientNormStepper_step g' := by
  rw [GeneralGradientNormStepper_step_eq_normalized g ℓ hL, GeneralGradientNormStepper_step_eq_normalized g' ℓ' hL',
    h]

/-! ### general nonlinear family -/

noncomputable def GeneralNonlinearStepper_step (g : GeneralNonlinearStepperArgs ℂ) : Spec → Spec :=
  baseStep (GeneralNonlinearStepper_base_args g)
    (fun κ => GeneralNonlinearStepper_linear_operator κ (GeneralNonlinearStepper_attrs g).linear_coefficients)
    (fun c => GeneralNonlinearStepper_stepper_nonlinear_fun c g)

noncomputable def NormalizedNonlinearStepper_step (n : NormalizedNonlinearStepperArgs ℂ) : Spec → Spec :=
  GeneralNonlinearStepper_step (NormalizedNonlinearStepper_super_args n)

noncomputable def DifficultyNonlinearStepper_step (d : DifficultyNonlinearStepperArgs ℂ) : Spec → Spec :=
  NormalizedNonlinearStepper_step (DifficultyNonlinearStepper_super_args d)

/-- the assembled step in terms of the MODEL: general linear symbol, general nonlinear term, one channel -/
theorem GeneralNonlinearStepper_step_model (g : GeneralNonlinearStepperArgs ℂ) :
    GeneralNonlinearStepper_step g
      = etdrkStep g.order g.dt
          (fun _ h => polySymbol (cfgOf g.num_spatial_dims g.num_points g.domain_extent g.dealiasing_fraction)
            (generalLinear g.num_spatial_dims g.linear_coefficients) h)
          g.num_circle_points g.circle_radius
          (liftTermND (cfgOf g.num_spatial_dims g.num_points g.domain_extent g.dealiasing_fraction) 1
            (general (cfgOf g.num_spatial_dims g.num_points g.domain_extent g.dealiasing_fraction) 1
              g.nonlinear_coefficients.1 g.nonlinear_coefficients.2.1 g.nonlinear_coefficients.2.2 true)) := by
  unfold GeneralNonlinearStepper_step baseStep
  rw [GeneralNonlinearStepper_base_args_eq, GeneralNonlinearStepper_attrs_eq]
  simp only []
  have hlin : ∀ h, GeneralNonlinearStepper_linear_operator
        (kappa (baseCfg g.num_spatial_dims g.num_points g.domain_extent) h) g.linear_coefficients
      = polySymbol (cfgOf g.num_spatial_dims g.num_points g.domain_extent g.dealiasing_fraction)
          (generalLinear g.num_spatial_dims g.linear_coefficients) h :=
    fun h => GeneralNonlinearStepper_linear_operator_polySymbol _ h _
  have hnl : GeneralNonlinearStepper_stepper_nonlinear_fun
        (baseCfg g.num_spatial_dims g.num_points g.domain_extent) g
      = general (cfgOf g.num_spatial_dims g.num_points g.domain_extent g.dealiasing_fraction) 1
          g.nonlinear_coefficients.1 g.nonlinear_coefficients.2.1 g.nonlinear_coefficients.2.2 true := by
    funext uh
    exact GeneralNonlinearStepper_stepper_nonlinear_fun_eq _ g uh
  simp only [hlin, hnl]
  rfl

/-- `(β₀, β₁, β₂) = (b₀ dt, b₁ dt / L, b₂ dt / L²)` -/
noncomputable def GeneralNonlinearStepper_to_normalized (g : GeneralNonlinearStepperArgs ℂ) :
    NormalizedNonlinearStepperArgs ℂ :=
  { num_spatial_dims := g.num_spatial_dims, num_points := g.num_points,
    normalized_linear_coefficients := normalize_coefficients g.linear_coefficients g.domain_extent g.dt,
    normalized_nonlinear_coefficients :=
      (g.nonlinear_coefficients.1 * g.dt,
       normalize_convection_scale g.nonlinear_coefficients.2.1 g.domain_extent g.dt,
       normalize_gradient_norm_scale g.nonlinear_coefficients.2.2 g.domain_extent g.dt),
    order := g.order, dealiasing_fraction := g.dealiasing_fraction, num_circle_points := g.num_circle_points,
    circle_radius := g.circle_radius }

noncomputable def NormalizedNonlinearStepper_to_difficulty (n : NormalizedNonlinearStepperArgs ℂ) (Mx : ℂ) :
    DifficultyNonlinearStepperArgs ℂ :=
  { num_spatial_dims := n.num_spatial_dims, num_points := n.num_points,
    linear_difficulties := reduce_normalized_coefficients_to_difficulty n.normalized_linear_coefficients
      n.num_spatial_dims n.num_points,
    nonlinear_difficulties := reduce_normalized_nonlinear_scales_to_difficulty n.normalized_nonlinear_coefficients
      n.num_spatial_dims n.num_points Mx,
    maximum_absolute := Mx, order := n.order, dealiasing_fraction := n.dealiasing_fraction,
    num_circle_points := n.num_circle_points, circle_radius := n.circle_radius }

/-- **T2 on the wiring, general nonlinear stepper.** -/
theorem GeneralNonlinearStepper_step_eq_normalized (g : GeneralNonlinearStepperArgs ℂ) (ℓ : ℝ)
    (hL : g.domain_extent = (ℓ : ℂ)) :
    GeneralNonlinearStepper_step g
      = NormalizedNonlinearStepper_step (GeneralNonlinearStepper_to_normalized g) := by
  unfold NormalizedNonlinearStepper_step
  rw [GeneralNonlinearStepper_step_model, GeneralNonlinearStepper_step_model,
    NormalizedNonlinearStepper_super_args_eq]
  simp only [GeneralNonlinearStepper_to_normalized, hL]
  funext u
  exact general_step_normalized _ _ _ _ ℓ _ _ _ _ _ _ _ _ _ u

/-- **T3, general nonlinear stepper**: `δ₀ = β₀`, `δ₁ = β₁ M N D`, `δ₂ = β₂ M N² D`. -/
theorem DifficultyNonlinearStepper_super_args_to_difficulty (n : NormalizedNonlinearStepperArgs ℂ) (Mx : ℂ)
    (hD : n.num_spatial_dims ≠ 0) (hN : n.num_points ≠ 0) (hM : Mx ≠ 0) :
    DifficultyNonlinearStepper_super_args (NormalizedNonlinearStepper_to_difficulty n Mx) = n := by
  have hD' : (n.num_spatial_dims : ℂ) ≠ 0 := Nat.cast_ne_zero.mpr hD
  have hN' : (n.num_points : ℂ) ≠ 0 := Nat.cast_ne_zero.mpr hN
  rw [DifficultyNonlinearStepper_super_args_eq]
  simp only [NormalizedNonlinearStepper_to_difficulty,
    (C13_difficulty_coefficients_inverse n.normalized_linear_coefficients _ _ hD' hN' two_ne_zero).1,
    (C13_nonlinear_scales_inverse n.normalized_nonlinear_coefficients Mx _ _ hD' hN' hM).1]

theorem DifficultyNonlinearStepper_step_to_difficulty (n : NormalizedNonlinearStepperArgs ℂ) (Mx : ℂ)
    (hD : n.num_spatial_dims ≠ 0) (hN : n.num_points ≠ 0) (hM : Mx ≠ 0) :
    DifficultyNonlinearStepper_step (NormalizedNonlinearStepper_to_difficulty n Mx)
      = NormalizedNonlinearStepper_step n := by
  unfold DifficultyNonlinearStepper_step
  rw [DifficultyNonlinearStepper_super_args_to_difficulty n Mx hD hN hM]

theorem GeneralNonlinearStepper_step_eq_difficulty (g : GeneralNonlinearStepperArgs ℂ) (ℓ : ℝ)
    (hL : g.domain_extent = (ℓ : ℂ)) (Mx : ℂ) (hD : g.num_spatial_dims ≠ 0) (hN : g.num_points ≠ 0)
    (hM : Mx ≠ 0) :
    GeneralNonlinearStepper_step g
      = DifficultyNonlinearStepper_step
          (NormalizedNonlinearStepper_to_difficulty (GeneralNonlinearStepper_to_normalized g) Mx) := by
  rw [DifficultyNonlinearStepper_step_to_difficulty _ Mx hD hN hM]
  exact GeneralNonlinearStepper_step_eq_normalized g ℓ hL

theorem GeneralNonlinearStepper_step_only_groups (g g' : GeneralNonlinearStepperArgs ℂ) (ℓ ℓ' : ℝ)
    (hL : g.domain_extent = (ℓ : ℂ)) (hL' : g'.domain_extent = (ℓ' : ℂ))
    (h : GeneralNonlinearStepper_to_normalized g = GeneralNonlinearStepper_to_normalized g') :
    GeneralNonlinearStepper_step g = GeneralNonlinearStepper_step g' := by
  rw [GeneralNonlinearStepper_step_eq_normalized g ℓ hL, GeneralNonlinearStepper_step_eq_normalized g' ℓ' hL', h]

/-! ### polynomial family -/

noncomputable def GeneralPolynomialStepper_step (g : GeneralPolynomialStepperArgs ℂ) : Spec → Spec :=
  baseStep (GeneralPolynomialStepper_base_args g)
    (fun κ => GeneralPolynomialStepper_linear_operator κ (GeneralPolynomialStepper_attrs g).linear_coefficients)
    (fun c => GeneralPolynomialStepper_stepper_nonlinear_fun c g)

noncomputable def NormalizedPolynomialStepper_step (n : NormalizedPolynomialStepperArgs ℂ) : Spec → Spec :=
  GeneralPolynomialStepper_step (NormalizedPolynomialStepper_super_args n)

noncomputable def DifficultyPolynomialStepper_step (d : DifficultyPolynomialStepperArgs ℂ) : Spec → Spec :=
  NormalizedPolynomialStepper_step (DifficultyPolynomialStepper_super_args d)

/-- the assembled step in terms of the MODEL: general linear symbol, polynomial term, one channel -/
theorem GeneralPolynomialStepper_step_model (g : GeneralPolynomialStepperArgs ℂ) :
    GeneralPolynomialStepper_step g
      = etdrkStep g.order g.dt
          (fun _ h => polySymbol (cfgOf g.num_spatial_dims g.num_points g.domain_extent g.dealiasing_fraction)
            (generalLinear g.num_spatial_dims g.linear_coefficients) h)
          g.num_circle_points g.circle_radius
          (liftTermND (cfgOf g.num_spatial_dims g.num_points g.domain_extent g.dealiasing_fraction) 1
            (polynomial (cfgOf g.num_spatial_dims g.num_points g.domain_extent g.dealiasing_fraction) 1
              g.polynomial_coefficients)) := by
  unfold GeneralPolynomialStepper_step baseStep
  rw [GeneralPolynomialStepper_base_args_eq, GeneralPolynomialStepper_attrs_eq]
  simp only []
  have hlin : ∀ h, GeneralPolynomialStepper_linear_operator
        (kappa (baseCfg g.num_spatial_dims g.num_points g.domain_extent) h) g.linear_coefficients
      = polySymbol (cfgOf g.num_spatial_dims g.num_points g.domain_extent g.dealiasing_fraction)
          (generalLinear g.num_spatial_dims g.linear_coefficients) h :=
    fun h => GeneralPolynomialStepper_linear_operator_polySymbol _ h _
  have hnl : GeneralPolynomialStepper_stepper_nonlinear_fun
        (baseCfg g.num_spatial_dims g.num_points g.domain_extent) g
      = polynomial (cfgOf g.num_spatial_dims g.num_points g.domain_extent g.dealiasing_fraction) 1
          g.polynomial_coefficients := by
    funext uh
    exact GeneralPolynomialStepper_stepper_nonlinear_fun_eq _ g uh
  simp only [hlin, hnl]
  rfl

noncomputable def GeneralPolynomialStepper_to_normalized (g : GeneralPolynomialStepperArgs ℂ) :
    NormalizedPolynomialStepperArgs ℂ :=
  { num_spatial_dims := g.num_spatial_dims, num_points := g.num_points,
    normalized_linear_coefficients := normalize_coefficients g.linear_coefficients g.domain_extent g.dt,
    normalized_polynomial_coefficients := normalize_polynomial_scales g.polynomial_coefficients g.domain_extent g.dt,
    order := g.order, dealiasing_fraction := g.dealiasing_fraction, num_circle_points := g.num_circle_points,
    circle_radius := g.circle_radius }

/-- the polynomial difficulties ARE the normalised polynomial scales -/
noncomputable def NormalizedPolynomialStepper_to_difficulty (n : NormalizedPolynomialStepperArgs ℂ) :
    DifficultyPolynomialStepperArgs ℂ :=
  { num_spatial_dims := n.num_spatial_dims, num_points := n.num_points,
    linear_difficulties := reduce_normalized_coefficients_to_difficulty n.normalized_linear_coefficients
      n.num_spatial_dims n.num_points,
    polynomial_difficulties := n.normalized_polynomial_coefficients,
    order := n.order, dealiasing_fraction := n.dealiasing_fraction, num_circle_points := n.num_circle_points,
    circle_radius := n.circle_radius }

/-- **T2 on the wiring, polynomial stepper** (every complex `L`): `α = a_j dt / L^j`, `β_k = b_k dt`. -/
theorem GeneralPolynomialStepper_step_eq_normalized (g : GeneralPolynomialStepperArgs ℂ) :
    GeneralPolynomialStepper_step g
      = NormalizedPolynomialStepper_step (GeneralPolynomialStepper_to_normalized g) := by
  unfold NormalizedPolynomialStepper_step
  rw [GeneralPolynomialStepper_step_model, GeneralPolynomialStepper_step_model,
    NormalizedPolynomialStepper_super_args_eq]
  simp only [GeneralPolynomialStepper_to_normalized]
  funext u
  exact polynomial_step_normalized _ _ _ _ _ _ _ _ _ _ _ u

/-- **T3, polynomial stepper.** -/
theorem DifficultyPolynomialStepper_super_args_to_difficulty (n : NormalizedPolynomialStepperArgs ℂ)
    (hD : n.num_spatial_dims ≠ 0) (hN : n.num_points ≠ 0) :
    DifficultyPolynomialStepper_super_args (NormalizedPolynomialStepper_to_difficulty n) = n := by
  have hD' : (n.num_spatial_dims : ℂ) ≠ 0 := Nat.cast_ne_zero.mpr hD
  have hN' : (n.num_points : ℂ) ≠ 0 := Nat.cast_ne_zero.mpr hN
  rw [DifficultyPolynomialStepper_super_args_eq]
  simp only [NormalizedPolynomialStepper_to_difficulty,
    (C13_difficulty_coefficients_inverse n.normalized_linear_coefficients _ _ hD' hN' two_ne_zero).1]

theorem DifficultyPolynomialStepper_step_to_difficulty (n : NormalizedPolynomialStepperArgs ℂ)
    (hD : n.num_spatial_dims ≠ 0) (hN : n.num_points ≠ 0) :
    DifficultyPolynomialStepper_step (NormalizedPolynomialStepper_to_difficulty n)
      = NormalizedPolynomialStepper_step n := by
  unfold DifficultyPolynomialStepper_step
  rw [DifficultyPolynomialStepper_super_args_to_difficulty n hD hN]

theorem GeneralPolynomialStepper_step_eq_difficulty (g : GeneralPolynomialStepperArgs ℂ)
    (hD : g.num_spatial_dims ≠ 0) (hN : g.num_points ≠ 0) :
    GeneralPolynomialStepper_step g
      = DifficultyPolynomialStepper_step
          (NormalizedPolynomialStepper_to_difficulty (GeneralPolynomialStepper_to_normalized g)) := by
  rw [DifficultyPolynomialStepper_step_to_difficulty _ hD hN]
  exact GeneralPolynomialStepper_step_eq_normalized g

theorem GeneralPolynomialStepper_step_only_groups (g g' : GeneralPolynomialStepperArgs ℂ)
    (h : GeneralPolynomialStepper_to_normalized g = GeneralPolynomialStepper_to_normalized g') :
    GeneralPolynomialStepper_step g = GeneralPolynomialStepper_step g' := by
  rw [GeneralPolynomialStepper_step_eq_normalized g, GeneralPolynomialStepper_step_eq_normalized g', h]

/-! ### linear family (`order = 0`, 16 contour points of radius 1 are fixed by the class) -/

noncomputable def GeneralLinearStepper_step (g : GeneralLinearStepperArgs ℂ) : Spec → Spec :=
  baseStep (GeneralLinearStepper_base_args g)
    (fun κ => GeneralLinearStepper_linear_operator κ (GeneralLinearStepper_attrs g).linear_coefficients)
    (fun c => GeneralLinearStepper_stepper_nonlinear_fun c g)

noncomputable def NormalizedLinearStepper_step (n : NormalizedLinearStepperArgs ℂ) : Spec → Spec :=
  GeneralLinearStepper_step (NormalizedLinearStepper_super_args n)

noncomputable def DifficultyLinearStepper_step (d : DifficultyLinearStepperArgs ℂ) : Spec → Spec :=
  NormalizedLinearStepper_step (DifficultyLinearStepper_super_args d)

/-- the assembled step in terms of the MODEL: the exact propagator of the general linear symbol -/
theorem GeneralLinearStepper_step_model (g : GeneralLinearStepperArgs ℂ) :
    GeneralLinearStepper_step g
      = etdrkStep 0 g.dt
          (fun _ h => polySymbol (cfgOf g.num_spatial_dims g.num_points g.domain_extent (0, 0))
            (generalLinear g.num_spatial_dims g.linear_coefficients) h)
          16 1
          (liftTermND (cfgOf g.num_spatial_dims g.num_points g.domain_extent (0, 0)) 1
            (fun _ => zeroNonlin (cfgOf g.num_spatial_dims g.num_points g.domain_extent (0, 0)) 1)) := by
  unfold GeneralLinearStepper_step baseStep
  rw [GeneralLinearStepper_base_args_eq, GeneralLinearStepper_attrs_eq]
  simp only []
  have hlin : ∀ h, GeneralLinearStepper_linear_operator
        (kappa (baseCfg g.num_spatial_dims g.num_points g.domain_extent) h) g.linear_coefficients
      = polySymbol (cfgOf g.num_spatial_dims g.num_points g.domain_extent (0, 0))
          (generalLinear g.num_spatial_dims g.linear_coefficients) h :=
    fun h => GeneralLinearStepper_linear_operator_polySymbol _ h _
  have hnl : GeneralLinearStepper_stepper_nonlinear_fun
        (baseCfg g.num_spatial_dims g.num_points g.domain_extent) g
      = fun _ => zeroNonlin (cfgOf g.num_spatial_dims g.num_points g.domain_extent (0, 0)) 1 := by
    funext uh
    exact GeneralLinearStepper_stepper_nonlinear_fun_eq _ g uh
  simp only [hlin, hnl]
  rfl

/-- written out: every entry is multiplied by `exp(dt · λ)` -/
theorem GeneralLinearStepper_step_apply (g : GeneralLinearStepperArgs ℂ) (u : Spec) (ch h : ℕ) :
    GeneralLinearStepper_step g u ch h
      = Complex.exp (g.dt * polySymbol (cfgOf g.num_spatial_dims g.num_points g.domain_extent (0, 0))
          (generalLinear g.num_spatial_dims g.linear_coefficients) h) * u ch h := by
  rw [GeneralLinearStepper_step_model]
  rfl

noncomputable def GeneralLinearStepper_to_normalized (g : GeneralLinearStepperArgs ℂ) :
    NormalizedLinearStepperArgs ℂ :=
  { num_spatial_dims := g.num_spatial_dims, num_points := g.num_points,
    normalized_linear_coefficients := normalize_coefficients g.linear_coefficients g.domain_extent g.dt }

noncomputable def NormalizedLinearStepper_to_difficulty (n : NormalizedLinearStepperArgs ℂ) :
    DifficultyLinearStepperArgs ℂ :=
  { num_spatial_dims := n.num_spatial_dims, num_points := n.num_points,
    linear_difficulties := reduce_normalized_coefficients_to_difficulty n.normalized_linear_coefficients
      n.num_spatial_dims n.num_points }

/-- **T2 on the wiring, linear stepper** (every complex `L`). -/
theorem GeneralLinearStepper_step_eq_normalized (g : GeneralLinearStepperArgs ℂ) :
    GeneralLinearStepper_step g = NormalizedLinearStepper_step (GeneralLinearStepper_to_normalized g) := by
  unfold NormalizedLinearStepper_step
  rw [GeneralLinearStepper_step_model, GeneralLinearStepper_step_model, NormalizedLinearStepper_super_args_eq]
  simp only [GeneralLinearStepper_to_normalized]
  funext u
  exact linear_step_normalized _ _ _ _ _ _ _ _ _ _ u

/-- **T3, linear stepper.** -/
theorem DifficultyLinearStepper_super_args_to_difficulty (n : NormalizedLinearStepperArgs ℂ)
    (hD : n.num_spatial_dims ≠ 0) (hN : n.num_points ≠ 0) :
    DifficultyLinearStepper_super_args (NormalizedLinearStepper_to_difficulty n) = n := by
  have hD' : (n.num_spatial_dims : ℂ) ≠ 0 := Nat.cast_ne_zero.mpr hD
  have hN' : (n.num_points : ℂ) ≠ 0 := Nat.cast_ne_zero.mpr hN
  rw [DifficultyLinearStepper_super_args_eq]
  simp only [NormalizedLinearStepper_to_difficulty,
    (C13_difficulty_coefficients_inverse n.normalized_linear_coefficients _ _ hD' hN' two_ne_zero).1]

theorem DifficultyLinearStepper_step_to_difficulty (n : NormalizedLinearStepperArgs ℂ)
    (hD : n.num_spatial_dims ≠ 0) (hN : n.num_points ≠ 0) :
    DifficultyLinearStepper_step (NormalizedLinearStepper_to_difficulty n) = NormalizedLinearStepper_step n := by
  unfold DifficultyLinearStepper_step
  rw [DifficultyLinearStepper_super_args_to_difficulty n hD hN]

theorem GeneralLinearStepper_step_eq_difficulty (g : GeneralLinearStepperArgs ℂ)
    (hD : g.num_spatial_dims ≠ 0) (hN : g.num_points ≠ 0) :
    GeneralLinearStepper_step g
      = DifficultyLinearStepper_step
          (NormalizedLinearStepper_to_difficulty (GeneralLinearStepper_to_normalized g)) := by
  rw [DifficultyLinearStepper_step_to_difficulty _ hD hN]
  exact GeneralLinearStepper_step_eq_normalized g

theorem GeneralLinearStepper_step_only_groups (g g' : GeneralLinearStepperArgs ℂ)
    (h : GeneralLinearStepper_to_normalized g = GeneralLinearStepper_to_normalized g') :
    GeneralLinearStepper_step g = GeneralLinearStepper_step g' := by
  rw [GeneralLinearStepper_step_eq_normalized g, GeneralLinearStepper_step_eq_normalized g', h]

/-! ### non-vacuity -/

example : ∃ (g : GeneralGradientNormStepperArgs ℂ) (ℓ : ℝ) (Mx : ℂ),
    g.domain_extent = (ℓ : ℂ) ∧ g.num_spatial_dims ≠ 0 ∧ g.num_points ≠ 0 ∧ Mx ≠ 0 :=
  ⟨GeneralGradientNormStepper_with_defaults 1 ((60 : ℝ) : ℂ) 64 (1 / 10), 60, 1, rfl, Nat.one_ne_zero, by decide,
    one_ne_zero⟩

example : ∃ (g : GeneralNonlinearStepperArgs ℂ) (ℓ : ℝ) (Mx : ℂ),
    g.domain_extent = (ℓ : ℂ) ∧ g.num_spatial_dims ≠ 0 ∧ g.num_points ≠ 0 ∧ Mx ≠ 0 :=
  ⟨GeneralNonlinearStepper_with_defaults 2 ((3 : ℝ) : ℂ) 32 (1 / 10), 3, 1, rfl, by decide, by decide,
    one_ne_zero⟩

example : ∃ g : GeneralPolynomialStepperArgs ℂ, g.num_spatial_dims ≠ 0 ∧ g.num_points ≠ 0 :=
  ⟨GeneralPolynomialStepper_with_defaults 3 10 16 (1 / 100), by decide, by decide⟩

example : ∃ g : GeneralLinearStepperArgs ℂ, g.num_spatial_dims ≠ 0 ∧ g.num_points ≠ 0 :=
  ⟨GeneralLinearStepper_with_defaults 1 1 32 (1 / 10), Nat.one_ne_zero, by decide⟩

example : ∃ (n : NormalizedGradientNormStepperArgs ℂ) (Mx : ℂ), n.num_spatial_dims ≠ 0 ∧ n.num_points ≠ 0 ∧ Mx ≠ 0 :=
  ⟨NormalizedGradientNormStepper_with_defaults 1 48, 1, Nat.one_ne_zero, by decide, one_ne_zero⟩

example : ∃ (n : NormalizedNonlinearStepperArgs ℂ) (Mx : ℂ), n.num_spatial_dims ≠ 0 ∧ n.num_points ≠ 0 ∧ Mx ≠ 0 :=
  ⟨NormalizedNonlinearStepper_with_defaults 1 48, 1, Nat.one_ne_zero, by decide, one_ne_zero⟩

example : ∃ n : NormalizedPolynomialStepperArgs ℂ, n.num_spatial_dims ≠ 0 ∧ n.num_points ≠ 0 :=
  ⟨NormalizedPolynomialStepper_with_defaults 1 48, Nat.one_ne_zero, by decide⟩

example : ∃ n : NormalizedLinearStepperArgs ℂ, n.num_spatial_dims ≠ 0 ∧ n.num_points ≠ 0 :=
  ⟨NormalizedLinearStepper_with_defaults 1 48, Nat.one_ne_zero, by decide⟩

/-- `…_step_only_groups`: DIFFERENT physical configurations with the same normalised arguments -/
example : ∃ (g g' : GeneralGradientNormStepperArgs ℂ) (ℓ ℓ' : ℝ),
    g.domain_extent = (ℓ : ℂ) ∧ g'.domain_extent = (ℓ' : ℂ) ∧ ℓ ≠ ℓ' ∧
      GeneralGradientNormStepper_to_normalized g = GeneralGradientNormStepper_to_normalized g' :=
  ⟨{ num_spatial_dims := 1, domain_extent := ((1 : ℝ) : ℂ), num_points := 32, dt := 1,
     linear_coefficients := [0, 0, -1], gradient_norm_scale := 1, order := 2, dealiasing_fraction := (2, 3),
     num_circle_points := 16, circle_radius := 1 },
   { num_spatial_dims := 1, domain_extent := ((2 : ℝ) : ℂ), num_points := 32, dt := 1,
     linear_coefficients := [0, 0, -4], gradient_norm_scale := 4, order := 2, dealiasing_fraction := (2, 3),
     num_circle_points := 16, circle_radius := 1 },
   1, 2, rfl, rfl, by norm_num, by
    simp only [GeneralGradientNormStepper_to_normalized, C13_normalize_coefficients_formula,
      normalize_gradient_norm_scale, npow_eq, List.mapIdx_cons, List.mapIdx_nil]
    norm_num⟩

example : ∃ (g g' : GeneralNonlinearStepperArgs ℂ) (ℓ ℓ' : ℝ),
    g.domain_extent = (ℓ : ℂ) ∧ g'.domain_extent = (ℓ' : ℂ) ∧ ℓ ≠ ℓ' ∧
      GeneralNonlinearStepper_to_normalized g = GeneralNonlinearStepper_to_normalized g' :=
  ⟨{ num_spatial_dims := 1, domain_extent := ((1 : ℝ) : ℂ), num_points := 32, dt := 1,
     linear_coefficients := [0, 0, 1], nonlinear_coefficients := (3, -1, 1), order := 2,
     dealiasing_fraction := (2, 3), num_circle_points := 16, circle_radius := 1 },
   { num_spatial_dims := 1, domain_extent := ((2 : ℝ) : ℂ), num_points := 32, dt := 1,
     linear_coefficients := [0, 0, 4], nonlinear_coefficients := (3, -2, 4), order := 2,
     dealiasing_fraction := (2, 3), num_circle_points := 16, circle_radius := 1 },
   1, 2, rfl, rfl, by norm_num, by
    simp only [GeneralNonlinearStepper_to_normalized, C13_normalize_coefficients_formula,
      normalize_convection_scale, normalize_gradient_norm_scale, npow_eq, List.mapIdx_cons, List.mapIdx_nil]
    norm_num⟩

example : ∃ g g' : GeneralPolynomialStepperArgs ℂ, g.dt ≠ g'.dt ∧
      GeneralPolynomialStepper_to_normalized g = GeneralPolynomialStepper_to_normalized g' :=
  ⟨{ num_spatial_dims := 1, domain_extent := 1, num_points := 32, dt := 1,
     linear_coefficients := [2, 0, 1], polynomial_coefficients := [0, 0, -2], order := 2,
     dealiasing_fraction := (2, 3), num_circle_points := 16, circle_radius := 1 },
   { num_spatial_dims := 1, domain_extent := 1, num_points := 32, dt := 2,
     linear_coefficients := [1, 0, 1 / 2], polynomial_coefficients := [0, 0, -1], order := 2,
     dealiasing_fraction := (2, 3), num_circle_points := 16, circle_radius := 1 },
   by norm_num, by
    simp only [GeneralPolynomialStepper_to_normalized, C13_normalize_coefficients_formula,
      normalize_polynomial_scales, List.mapIdx_cons, List.mapIdx_nil, List.map_cons, List.map_nil]
    norm_num⟩

example : ∃ g g' : GeneralLinearStepperArgs ℂ, g.domain_extent ≠ g'.domain_extent ∧
      GeneralLinearStepper_to_normalized g = GeneralLinearStepper_to_normalized g' :=
  ⟨{ num_spatial_dims := 1, domain_extent := 1, num_points := 32, dt := 1, linear_coefficients := [0, -1, 1] },
   { num_spatial_dims := 1, domain_extent := 2, num_points := 32, dt := 1, linear_coefficients := [0, -2, 4] },
   by norm_num, by
    simp only [GeneralLinearStepper_to_normalized, C13_normalize_coefficients_formula, List.mapIdx_cons,
      List.mapIdx_nil]
    norm_num⟩

end Exponax.Interface
