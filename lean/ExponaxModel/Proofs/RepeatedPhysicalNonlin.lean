import ExponaxModel.Proofs.RepeatedPhysicalDiag
/-
C14 support, part 5 — `Realisable` is preserved by steps of ETD type
`F C = e ⊙ C + c ⊙ rfftn (𝒩 (irfftn C))` (exponential Euler; the higher ETDRK stages are compositions
and sums of such maps) when the coefficient symbols `e`, `c` are Hermitian on the self-conjugate
columns and the grid-space nonlinearity `𝒩` returns real values on real states.
-/
set_option linter.unusedVariables false
set_option linter.unusedSimpArgs false
namespace Exponax.C2R
open Exponax Exponax.Layout Exponax.Transform Exponax.DFT Exponax.Conserve Finset

/-- entrywise sum of two stored spectra -/
noncomputable def addSpec (D N : ℕ) (A B : Array ℂ) : Array ℂ :=
  tab (numModes D N) (fun h => A.getD h 0 + B.getD h 0)

theorem realisable_add (D N : ℕ) (hD : 0 < D) (hN : 0 < N) (A B : Array ℂ)
    (hA : Realisable D N A) (hB : Realisable D N B) : Realisable D N (addSpec D N A B) := by
  refine ⟨tab_size _ _, ?_⟩
  intro h hh hw
  unfold addSpec
  rw [tab_getD _ _ _ _ hh, tab_getD _ _ _ _ (conjIdx_lt D N h hD hN), map_add,
    ← hA.2 h hh hw, ← hB.2 h hh hw]

/-- real scalar multiples -/
theorem realisable_smul_real (D N : ℕ) (hD : 0 < D) (hN : 0 < N) (r : ℝ) (A : Array ℂ)
    (hA : Realisable D N A) : Realisable D N (diagStep D N (fun _ => (r : ℂ)) A) :=
  diag_preserves_realisable D N hD hN _ (fun h hh hw => by simp) A hA

/-- the Fourier-space image of a grid-space nonlinearity is realisable for EVERY input spectrum -/
theorem nonlin_spectrum_realisable (D N : ℕ) (hD : 0 < D) (hN : 0 < N) (𝒩 : Array ℂ → Array ℂ)
    (h𝒩 : ∀ v, RealState D N v → ∀ j < N ^ D, ((𝒩 v).getD j 0).im = 0) (C : Array ℂ) :
    Realisable D N (rfftnM D N (𝒩 (irfftnM D N C))) :=
  rfftn_realisable' D N hD hN _ (h𝒩 _ (irfftn_realState D N hN C))

/-- **ETD-Euler-type steps preserve `Realisable`**:
    `F C = e ⊙ C + c ⊙ rfftn (𝒩 (irfftn C))` with Hermitian symbols `e`, `c` and a grid-space
    nonlinearity `𝒩` that is real on real states. -/
theorem etd_step_preserves_realisable (D N : ℕ) (hD : 0 < D) (hN : 0 < N) (e c : ℕ → ℂ)
    (he : HermSymbol D N e) (hc : HermSymbol D N c) (𝒩 : Array ℂ → Array ℂ)
    (h𝒩 : ∀ v, RealState D N v → ∀ j < N ^ D, ((𝒩 v).getD j 0).im = 0)
    (C : Array ℂ) (hC : Realisable D N C) :
    Realisable D N (addSpec D N (diagStep D N e C)
      (diagStep D N c (rfftnM D N (𝒩 (irfftnM D N C))))) :=
  realisable_add D N hD hN _ _ (diag_preserves_realisable D N hD hN e he C hC)
    (diag_preserves_realisable D N hD hN c hc _ (nonlin_spectrum_realisable D N hD hN 𝒩 h𝒩 C))

/-- **loop = sub-stepping for ETD-Euler-type steps** -/
theorem repeated_loop_etd (D N : ℕ) (hD : 0 < D) (hN : 0 < N) (e c : ℕ → ℂ)
    (he : HermSymbol D N e) (hc : HermSymbol D N c) (𝒩 : Array ℂ → Array ℂ)
    (h𝒩 : ∀ v, RealState D N v → ∀ j < N ^ D, ((𝒩 v).getD j 0).im = 0)
    (u : Array ℂ) (hu : RealState D N u) (n : ℕ) :
    Loops.repeatN (fun v => irfftnM D N ((fun C => addSpec D N (diagStep D N e C)
        (diagStep D N c (rfftnM D N (𝒩 (irfftnM D N C))))) (rfftnM D N v))) n u
      = irfftnM D N (Loops.repeatedStepFourier (fun C => addSpec D N (diagStep D N e C)
        (diagStep D N c (rfftnM D N (𝒩 (irfftnM D N C))))) n (rfftnM D N u)) :=
  repeatedStepper_eq_loop D N hD hN _
    (fun C hC => etd_step_preserves_realisable D N hD hN e c he hc 𝒩 h𝒩 C hC) u hu n

/-- non-vacuity: the quadratic nonlinearity `u ↦ u²` (pointwise) is real on real states -/
example (D N : ℕ) : ∀ v, RealState D N v → ∀ j < N ^ D,
    (((fun w : Array ℂ => tab (N ^ D) (fun j => w.getD j 0 * w.getD j 0)) v).getD j 0).im = 0 := by
  intro v hv j hj
  show ((tab (N ^ D) (fun j => v.getD j 0 * v.getD j 0)).getD j 0).im = 0
  rw [tab_getD _ _ _ _ hj, Complex.mul_im, hv.2 j hj]
  ring

end Exponax.C2R
