import ExponaxModel.Proofs.Instances
import ExponaxModel.Generated.Etdrk
import ExponaxModel.Model.Nonlin
import Mathlib.Analysis.Calculus.Deriv.Pow
import Mathlib.Analysis.Calculus.Deriv.Add
import Mathlib.Analysis.Calculus.Deriv.Mul
import Mathlib.Analysis.Calculus.Deriv.Comp
/-
C07 support — differentiability of the regenerated ETDRK stage formulas w.r.t. the state (scalar form).

F1  `E1step … E4step` (coefficients fixed) have the chain-rule derivative w.r.t. `u` whenever the
    nonlinear term `N` is differentiable at the points the step visits; the `n`-fold rollout
    (`Function.iterate`) has as derivative the product of the per-step derivatives along the orbit.
F2  `Nonlin.polyEval` is `Σ c_k u^k`, differentiable everywhere with derivative `Σ k c_k u^{k-1}`,
    in particular at `u = 0` (value `c_0`, derivative `c_1`).
F5  the guarded division `x ↦ if isZero d then 0 else x / d` is linear in `x` for every `d`
    (also `d = 0`), hence differentiable with itself as derivative; same for `Nonlin.poissonStep`.

Everything is stated for an arbitrary nontrivially normed field `𝕜` (so for `ℂ` and for `ℝ`); the
`ℂ`-instances are spelled out where the op-classes (`HasIsZero`) need them.  The stage values and the
stage derivatives are auxiliary abbreviations; `E?step_eq_stages` links them to the generated code.
-/
set_option linter.unusedVariables false
namespace Exponax.Diff
open Exponax Exponax.Gen.Etdrk Exponax.Nonlin Finset

section Scalar
variable {𝕜 : Type} [NontriviallyNormedField 𝕜]

/-! ## F1 — ETDRK1, ETDRK2: explicit derivatives -/

/-- **F1 (ETDRK0).** the linear step is its own derivative -/
theorem E0step_hasDerivAt (E u : 𝕜) : HasDerivAt (E0step E) E u := by
  have h : HasDerivAt (fun x : 𝕜 => E * x) (E * 1) u := (hasDerivAt_id u).const_mul E
  rw [mul_one] at h
  exact h

/-- **F1 (ETDRK1).** `∂_u (E u + c₁ N(u)) = E + c₁ N'(u)` -/
theorem E1step_hasDerivAt (E c1 : 𝕜) (N : 𝕜 → 𝕜) (u N'u : 𝕜) (hN : HasDerivAt N N'u u) :
    HasDerivAt (E1step E c1 N) (E + c1 * N'u) u := by
  have h : HasDerivAt (fun x : 𝕜 => E * x + c1 * N x) (E * 1 + c1 * N'u) u :=
    ((hasDerivAt_id u).const_mul E).add (hN.const_mul c1)
  rw [mul_one] at h
  exact h

/-- **F1 (ETDRK2).** with `a = E u + c₁ N(u)` (the ETDRK1 predictor), `a' = E + c₁ N'(u)`:
    `∂_u E2step = a' + c₂ (N'(a) a' − N'(u))` -/
theorem E2step_hasDerivAt (E c1 c2 : 𝕜) (N : 𝕜 → 𝕜) (u N'u N'a : 𝕜) (hu : HasDerivAt N N'u u)
    (ha : HasDerivAt N N'a (E * u + c1 * N u)) :
    HasDerivAt (E2step E c1 c2 N) ((E + c1 * N'u) + c2 * (N'a * (E + c1 * N'u) - N'u)) u := by
  have h1 : HasDerivAt (fun x : 𝕜 => E * x + c1 * N x) (E + c1 * N'u) u :=
    E1step_hasDerivAt E c1 N u N'u hu
  have h2 : HasDerivAt (fun x : 𝕜 => N (E * x + c1 * N x)) (N'a * (E + c1 * N'u)) u :=
    HasDerivAt.comp u ha h1
  exact h1.add ((h2.sub hu).const_mul c2)

/-! ## F1 — ETDRK3, ETDRK4: stage values, stage derivatives (recursive formula) -/

/-- first stage of ETDRK3/4: `a = E_h u + c₁ N(u)` -/
def stageA (Eh c1 : 𝕜) (N : 𝕜 → 𝕜) (u : 𝕜) : 𝕜 := Eh * u + c1 * N u
/-- `a' = E_h + c₁ N'(u)` -/
def stageA' (Eh c1 : 𝕜) (N' : 𝕜 → 𝕜) (u : 𝕜) : 𝕜 := Eh + c1 * N' u

/-- second stage of ETDRK3: `b = E u + c₂ (2 N(a) − N(u))` -/
def E3stageB (E Eh c1 c2 : 𝕜) (N : 𝕜 → 𝕜) (u : 𝕜) : 𝕜 :=
  E * u + c2 * (2 * N (stageA Eh c1 N u) - N u)
/-- `b' = E + c₂ (2 N'(a) a' − N'(u))` -/
def E3stageB' (E Eh c1 c2 : 𝕜) (N N' : 𝕜 → 𝕜) (u : 𝕜) : 𝕜 :=
  E + c2 * (2 * (N' (stageA Eh c1 N u) * stageA' Eh c1 N' u) - N' u)

/-- the derivative of one ETDRK3 step:
    `E + c₃ N'(u) + c₄ N'(a) a' + c₅ N'(b) b'` -/
def E3step' (E Eh c1 c2 c3 c4 c5 : 𝕜) (N N' : 𝕜 → 𝕜) (u : 𝕜) : 𝕜 :=
  E + c3 * N' u + c4 * (N' (stageA Eh c1 N u) * stageA' Eh c1 N' u)
    + c5 * (N' (E3stageB E Eh c1 c2 N u) * E3stageB' E Eh c1 c2 N N' u)

/-- link: the generated ETDRK3 step in terms of the stage abbreviations -/
theorem E3step_eq_stages (E Eh c1 c2 c3 c4 c5 : 𝕜) (N : 𝕜 → 𝕜) (u : 𝕜) :
    E3step E Eh c1 c2 c3 c4 c5 N u
      = E * u + c3 * N u + c4 * N (stageA Eh c1 N u) + c5 * N (E3stageB E Eh c1 c2 N u) := by
  simp only [E3step, E3stageB, stageA, lit_eq, Nat.cast_ofNat]

/-- second stage of ETDRK4: `b = E_h u + c₂ N(a)` -/
def E4stageB (Eh c1 c2 : 𝕜) (N : 𝕜 → 𝕜) (u : 𝕜) : 𝕜 := Eh * u + c2 * N (stageA Eh c1 N u)
/-- `b' = E_h + c₂ N'(a) a'` -/
def E4stageB' (Eh c1 c2 : 𝕜) (N N' : 𝕜 → 𝕜) (u : 𝕜) : 𝕜 :=
  Eh + c2 * (N' (stageA Eh c1 N u) * stageA' Eh c1 N' u)

/-- third stage of ETDRK4: `c = E_h a + c₃ (2 N(b) − N(u))` -/
def E4stageC (Eh c1 c2 c3 : 𝕜) (N : 𝕜 → 𝕜) (u : 𝕜) : 𝕜 :=
  Eh * stageA Eh c1 N u + c3 * (2 * N (E4stageB Eh c1 c2 N u) - N u)
/-- `c' = E_h a' + c₃ (2 N'(b) b' − N'(u))` -/
def E4stageC' (Eh c1 c2 c3 : 𝕜) (N N' : 𝕜 → 𝕜) (u : 𝕜) : 𝕜 :=
  Eh * stageA' Eh c1 N' u
    + c3 * (2 * (N' (E4stageB Eh c1 c2 N u) * E4stageB' Eh c1 c2 N N' u) - N' u)

/-- the derivative of one ETDRK4 step:
    `E + c₄ N'(u) + 2 c₅ (N'(a) a' + N'(b) b') + c₆ N'(c) c'` -/
def E4step' (E Eh c1 c2 c3 c4 c5 c6 : 𝕜) (N N' : 𝕜 → 𝕜) (u : 𝕜) : 𝕜 :=
  E + c4 * N' u
    + c5 * 2 * (N' (stageA Eh c1 N u) * stageA' Eh c1 N' u
        + N' (E4stageB Eh c1 c2 N u) * E4stageB' Eh c1 c2 N N' u)
    + c6 * (N' (E4stageC Eh c1 c2 c3 N u) * E4stageC' Eh c1 c2 c3 N N' u)

/-- link: the generated ETDRK4 step in terms of the stage abbreviations -/
theorem E4step_eq_stages (E Eh c1 c2 c3 c4 c5 c6 : 𝕜) (N : 𝕜 → 𝕜) (u : 𝕜) :
    E4step E Eh c1 c2 c3 c4 c5 c6 N u
      = E * u + c4 * N u + c5 * 2 * (N (stageA Eh c1 N u) + N (E4stageB Eh c1 c2 N u))
        + c6 * N (E4stageC Eh c1 c2 c3 N u) := by
  simp only [E4step, E4stageC, E4stageB, stageA, lit_eq, Nat.cast_ofNat]

section Stages
variable (E Eh c1 c2 c3 c4 c5 c6 : 𝕜) (N N' : 𝕜 → 𝕜) (u : 𝕜)

theorem stageA_hasDerivAt (hu : HasDerivAt N (N' u) u) :
    HasDerivAt (stageA Eh c1 N) (stageA' Eh c1 N' u) u :=
  E1step_hasDerivAt Eh c1 N u (N' u) hu

theorem E3stageB_hasDerivAt (hu : HasDerivAt N (N' u) u)
    (ha : HasDerivAt N (N' (stageA Eh c1 N u)) (stageA Eh c1 N u)) :
    HasDerivAt (E3stageB E Eh c1 c2 N) (E3stageB' E Eh c1 c2 N N' u) u := by
  have hA := stageA_hasDerivAt Eh c1 N N' u hu
  have hNa : HasDerivAt (fun x => N (stageA Eh c1 N x))
      (N' (stageA Eh c1 N u) * stageA' Eh c1 N' u) u := HasDerivAt.comp u ha hA
  have h := (E0step_hasDerivAt E u).add (((hNa.const_mul (2 : 𝕜)).sub hu).const_mul c2)
  exact h

/-- **F1 (ETDRK3).** existence + recursive formula; `N` differentiable at `u` and at the two stages -/
theorem E3step_hasDerivAt (hu : HasDerivAt N (N' u) u)
    (ha : HasDerivAt N (N' (stageA Eh c1 N u)) (stageA Eh c1 N u))
    (hb : HasDerivAt N (N' (E3stageB E Eh c1 c2 N u)) (E3stageB E Eh c1 c2 N u)) :
    HasDerivAt (E3step E Eh c1 c2 c3 c4 c5 N) (E3step' E Eh c1 c2 c3 c4 c5 N N' u) u := by
  have hA := stageA_hasDerivAt Eh c1 N N' u hu
  have hB := E3stageB_hasDerivAt E Eh c1 c2 N N' u hu ha
  have hNa : HasDerivAt (fun x => N (stageA Eh c1 N x))
      (N' (stageA Eh c1 N u) * stageA' Eh c1 N' u) u := HasDerivAt.comp u ha hA
  have hNb : HasDerivAt (fun x => N (E3stageB E Eh c1 c2 N x))
      (N' (E3stageB E Eh c1 c2 N u) * E3stageB' E Eh c1 c2 N N' u) u := HasDerivAt.comp u hb hB
  have h := (((E0step_hasDerivAt E u).add (hu.const_mul c3)).add (hNa.const_mul c4)).add
    (hNb.const_mul c5)
  have e : E3step E Eh c1 c2 c3 c4 c5 N
      = fun x => E * x + c3 * N x + c4 * N (stageA Eh c1 N x) + c5 * N (E3stageB E Eh c1 c2 N x) :=
    funext (E3step_eq_stages E Eh c1 c2 c3 c4 c5 N)
  rw [e]
  exact h

theorem E4stageB_hasDerivAt (hu : HasDerivAt N (N' u) u)
    (ha : HasDerivAt N (N' (stageA Eh c1 N u)) (stageA Eh c1 N u)) :
    HasDerivAt (E4stageB Eh c1 c2 N) (E4stageB' Eh c1 c2 N N' u) u := by
  have hA := stageA_hasDerivAt Eh c1 N N' u hu
  have hNa : HasDerivAt (fun x => N (stageA Eh c1 N x))
      (N' (stageA Eh c1 N u) * stageA' Eh c1 N' u) u := HasDerivAt.comp u ha hA
  exact (E0step_hasDerivAt Eh u).add (hNa.const_mul c2)

theorem E4stageC_hasDerivAt (hu : HasDerivAt N (N' u) u)
    (ha : HasDerivAt N (N' (stageA Eh c1 N u)) (stageA Eh c1 N u))
    (hb : HasDerivAt N (N' (E4stageB Eh c1 c2 N u)) (E4stageB Eh c1 c2 N u)) :
    HasDerivAt (E4stageC Eh c1 c2 c3 N) (E4stageC' Eh c1 c2 c3 N N' u) u := by
  have hA := stageA_hasDerivAt Eh c1 N N' u hu
  have hB := E4stageB_hasDerivAt Eh c1 c2 N N' u hu ha
  have hNb : HasDerivAt (fun x => N (E4stageB Eh c1 c2 N x))
      (N' (E4stageB Eh c1 c2 N u) * E4stageB' Eh c1 c2 N N' u) u := HasDerivAt.comp u hb hB
  exact (hA.const_mul Eh).add (((hNb.const_mul (2 : 𝕜)).sub hu).const_mul c3)

/-- **F1 (ETDRK4).** existence + recursive formula; `N` differentiable at `u` and at the three stages -/
theorem E4step_hasDerivAt (hu : HasDerivAt N (N' u) u)
    (ha : HasDerivAt N (N' (stageA Eh c1 N u)) (stageA Eh c1 N u))
    (hb : HasDerivAt N (N' (E4stageB Eh c1 c2 N u)) (E4stageB Eh c1 c2 N u))
    (hc : HasDerivAt N (N' (E4stageC Eh c1 c2 c3 N u)) (E4stageC Eh c1 c2 c3 N u)) :
    HasDerivAt (E4step E Eh c1 c2 c3 c4 c5 c6 N) (E4step' E Eh c1 c2 c3 c4 c5 c6 N N' u) u := by
  have hA := stageA_hasDerivAt Eh c1 N N' u hu
  have hB := E4stageB_hasDerivAt Eh c1 c2 N N' u hu ha
  have hC := E4stageC_hasDerivAt Eh c1 c2 c3 N N' u hu ha hb
  have hNa : HasDerivAt (fun x => N (stageA Eh c1 N x))
      (N' (stageA Eh c1 N u) * stageA' Eh c1 N' u) u := HasDerivAt.comp u ha hA
  have hNb : HasDerivAt (fun x => N (E4stageB Eh c1 c2 N x))
      (N' (E4stageB Eh c1 c2 N u) * E4stageB' Eh c1 c2 N N' u) u := HasDerivAt.comp u hb hB
  have hNc : HasDerivAt (fun x => N (E4stageC Eh c1 c2 c3 N x))
      (N' (E4stageC Eh c1 c2 c3 N u) * E4stageC' Eh c1 c2 c3 N N' u) u := HasDerivAt.comp u hc hC
  have h := (((E0step_hasDerivAt E u).add (hu.const_mul c4)).add
    ((hNa.add hNb).const_mul (c5 * 2))).add (hNc.const_mul c6)
  have e : E4step E Eh c1 c2 c3 c4 c5 c6 N
      = fun x => E * x + c4 * N x + c5 * 2 * (N (stageA Eh c1 N x) + N (E4stageB Eh c1 c2 N x))
          + c6 * N (E4stageC Eh c1 c2 c3 N x) :=
    funext (E4step_eq_stages E Eh c1 c2 c3 c4 c5 c6 N)
  rw [e]
  exact h

end Stages

/-! ## F1 — rollouts: chain rule over `Function.iterate` -/

/-- **F1 (rollout).** if the step `S` has derivative `S' x` at every point `x = S^[k] u`, `k < n`, of the
    orbit, the `n`-fold rollout has derivative `∏_{k<n} S'(S^[k] u)` at `u` -/
theorem iterate_hasDerivAt (S S' : 𝕜 → 𝕜) (u : 𝕜) (n : ℕ)
    (h : ∀ k < n, HasDerivAt S (S' (S^[k] u)) (S^[k] u)) :
    HasDerivAt (S^[n]) (∏ k ∈ range n, S' (S^[k] u)) u := by
  induction n with
  | zero =>
    simp only [Function.iterate_zero, range_zero, prod_empty]
    exact hasDerivAt_id u
  | succ n ih =>
    have ih' := ih (fun k hk => h k (Nat.lt_succ_of_lt hk))
    have hn := h n (Nat.lt_succ_self n)
    have hc : HasDerivAt (S ∘ S^[n]) (S' (S^[n] u) * ∏ k ∈ range n, S' (S^[k] u)) u :=
      HasDerivAt.comp u hn ih'
    rw [Function.iterate_succ', prod_range_succ, mul_comm]
    exact hc

/-- **F1 (ETDRK1 rollout)** for an everywhere differentiable `N` -/
theorem E1_rollout_hasDerivAt (E c1 : 𝕜) (N N' : 𝕜 → 𝕜) (hN : ∀ x, HasDerivAt N (N' x) x) (u : 𝕜) (n : ℕ) :
    HasDerivAt ((E1step E c1 N)^[n]) (∏ k ∈ range n, (E + c1 * N' ((E1step E c1 N)^[k] u))) u :=
  iterate_hasDerivAt (E1step E c1 N) (fun x => E + c1 * N' x) u n
    (fun k _ => E1step_hasDerivAt E c1 N _ _ (hN _))

/-- **F1 (ETDRK2 rollout)** -/
theorem E2_rollout_hasDerivAt (E c1 c2 : 𝕜) (N N' : 𝕜 → 𝕜) (hN : ∀ x, HasDerivAt N (N' x) x) (u : 𝕜)
    (n : ℕ) :
    HasDerivAt ((E2step E c1 c2 N)^[n])
      (∏ k ∈ range n, (fun x => (E + c1 * N' x) + c2 * (N' (E * x + c1 * N x) * (E + c1 * N' x) - N' x))
        ((E2step E c1 c2 N)^[k] u)) u :=
  iterate_hasDerivAt (E2step E c1 c2 N)
    (fun x => (E + c1 * N' x) + c2 * (N' (E * x + c1 * N x) * (E + c1 * N' x) - N' x)) u n
    (fun k _ => E2step_hasDerivAt E c1 c2 N _ _ _ (hN _) (hN _))

/-- **F1 (ETDRK3 rollout)** -/
theorem E3_rollout_hasDerivAt (E Eh c1 c2 c3 c4 c5 : 𝕜) (N N' : 𝕜 → 𝕜) (hN : ∀ x, HasDerivAt N (N' x) x)
    (u : 𝕜) (n : ℕ) :
    HasDerivAt ((E3step E Eh c1 c2 c3 c4 c5 N)^[n])
      (∏ k ∈ range n, E3step' E Eh c1 c2 c3 c4 c5 N N' ((E3step E Eh c1 c2 c3 c4 c5 N)^[k] u)) u :=
  iterate_hasDerivAt (E3step E Eh c1 c2 c3 c4 c5 N) _ u n
    (fun k _ => E3step_hasDerivAt E Eh c1 c2 c3 c4 c5 N N' _ (hN _) (hN _) (hN _))

/-- **F1 (ETDRK4 rollout)** -/
theorem E4_rollout_hasDerivAt (E Eh c1 c2 c3 c4 c5 c6 : 𝕜) (N N' : 𝕜 → 𝕜)
    (hN : ∀ x, HasDerivAt N (N' x) x) (u : 𝕜) (n : ℕ) :
    HasDerivAt ((E4step E Eh c1 c2 c3 c4 c5 c6 N)^[n])
      (∏ k ∈ range n, E4step' E Eh c1 c2 c3 c4 c5 c6 N N' ((E4step E Eh c1 c2 c3 c4 c5 c6 N)^[k] u)) u :=
  iterate_hasDerivAt (E4step E Eh c1 c2 c3 c4 c5 c6 N) _ u n
    (fun k _ => E4step_hasDerivAt E Eh c1 c2 c3 c4 c5 c6 N N' _ (hN _) (hN _) (hN _) (hN _))

/-- the linear rollout: derivative `Eⁿ` -/
theorem E0_rollout_hasDerivAt (E u : 𝕜) (n : ℕ) : HasDerivAt ((E0step E)^[n]) (E ^ n) u := by
  have h := iterate_hasDerivAt (E0step E) (fun _ => E) u n (fun k _ => E0step_hasDerivAt E _)
  simpa using h

/-! ## F2 — the polynomial nonlinearity -/

section Poly
variable {R : Type} [CommRing R]

private theorem polyEval_fold (u : R) (cs : List R) (a p : R) :
    (cs.foldl (fun (acc : R × R) co => (acc.1 + co * acc.2, acc.2 * u)) (a, p)).1
      = a + p * (cs.foldl (fun (acc : R × R) co => (acc.1 + co * acc.2, acc.2 * u)) (0, 1)).1 := by
  induction cs generalizing a p with
  | nil => simp
  | cons c cs ih =>
    simp only [List.foldl_cons]
    rw [ih (a + c * p) (p * u), ih (0 + c * 1) (1 * u)]
    ring

/-- Horner recursion of the regenerated loop: `P(c :: cs)(u) = c + u · P(cs)(u)` -/
theorem polyEval_cons (c : R) (cs : List R) (u : R) :
    polyEval (c :: cs) u = c + u * polyEval cs u := by
  unfold polyEval
  simp only [List.foldl_cons]
  rw [polyEval_fold u cs (0 + c * 1) (1 * u)]
  ring

@[simp] theorem polyEval_nil (u : R) : polyEval ([] : List R) u = 0 := rfl

/-- **F2 (closed form).** `polyEval [c₀, c₁, …] u = Σ_k c_k u^k` -/
theorem polyEval_eq_sum (cs : List R) (u : R) :
    polyEval cs u = ∑ k ∈ range cs.length, cs.getD k 0 * u ^ k := by
  induction cs with
  | nil => simp
  | cons c cs ih =>
    rw [polyEval_cons, ih, List.length_cons, sum_range_succ', mul_sum]
    simp only [List.getD_cons_succ, List.getD_cons_zero, pow_zero, mul_one]
    rw [add_comm]
    congr 1
    apply sum_congr rfl
    intro k _
    ring

/-- no `0^0` artefact: the value at `u = 0` is the constant coefficient -/
theorem polyEval_zero (cs : List R) : polyEval cs (0 : R) = cs.getD 0 0 := by
  cases cs with
  | nil => simp
  | cons c cs => rw [polyEval_cons]; simp

end Poly

/-- the formal derivative `Σ_k k c_k u^{k-1}` of the polynomial nonlinearity -/
def polyDeriv (cs : List 𝕜) (u : 𝕜) : 𝕜 := ∑ k ∈ range cs.length, (k : 𝕜) * cs.getD k 0 * u ^ (k - 1)

/-- **F2.** the polynomial nonlinearity is differentiable at every `u` with derivative `Σ k c_k u^{k-1}` -/
theorem polyEval_hasDerivAt (cs : List 𝕜) (u : 𝕜) : HasDerivAt (polyEval cs) (polyDeriv cs u) u := by
  have e : polyEval cs = fun x => ∑ k ∈ range cs.length, cs.getD k 0 * x ^ k :=
    funext (polyEval_eq_sum cs)
  rw [e]
  unfold polyDeriv
  apply HasDerivAt.fun_sum
  intro k _
  have h := (hasDerivAt_pow k u).const_mul (cs.getD k 0)
  have e2 : cs.getD k 0 * ((k : 𝕜) * u ^ (k - 1)) = (k : 𝕜) * cs.getD k 0 * u ^ (k - 1) := by ring
  rw [e2] at h
  exact h

theorem polyDeriv_zero (cs : List 𝕜) : polyDeriv cs (0 : 𝕜) = cs.getD 1 0 := by
  unfold polyDeriv
  rw [sum_eq_single 1]
  · simp
  · intro k _ hk
    rcases k with _ | _ | k
    · simp
    · exact absurd rfl hk
    · simp
  · intro h
    have : cs.length ≤ 1 := by simpa using h
    simp [List.getD_eq_getElem?_getD, List.getElem?_eq_none this]

/-- **F2 (guarded point `u = 0`).** at the zero state the derivative is the linear coefficient `c₁` —
    a finite number, no `0·log 0` / `0^0` artefact -/
theorem polyEval_hasDerivAt_zero (cs : List 𝕜) : HasDerivAt (polyEval cs) (cs.getD 1 0) (0 : 𝕜) := by
  have h := polyEval_hasDerivAt cs (0 : 𝕜)
  rwa [polyDeriv_zero] at h

theorem polyEval_differentiable (cs : List 𝕜) : Differentiable 𝕜 (polyEval cs) :=
  fun u => (polyEval_hasDerivAt cs u).differentiableAt

/-- **F1 + F2.** ETDRK4 rollouts with the polynomial nonlinearity are differentiable at every state -/
theorem E4_poly_rollout_hasDerivAt (E Eh c1 c2 c3 c4 c5 c6 : 𝕜) (cs : List 𝕜) (u : 𝕜) (n : ℕ) :
    HasDerivAt ((E4step E Eh c1 c2 c3 c4 c5 c6 (polyEval cs))^[n])
      (∏ k ∈ range n, E4step' E Eh c1 c2 c3 c4 c5 c6 (polyEval cs) (polyDeriv cs)
        ((E4step E Eh c1 c2 c3 c4 c5 c6 (polyEval cs))^[k] u)) u :=
  E4_rollout_hasDerivAt E Eh c1 c2 c3 c4 c5 c6 _ _ (polyEval_hasDerivAt cs) u n

/-- … in particular one ETDRK1 step at the zero state with the reaction polynomial `c₁ u + c₃ u³`:
    derivative `E + coef · c₁` -/
theorem E1_poly_hasDerivAt_zero (E c1 : 𝕜) (cs : List 𝕜) :
    HasDerivAt (E1step E c1 (polyEval cs)) (E + c1 * cs.getD 1 0) (0 : 𝕜) :=
  E1step_hasDerivAt E c1 _ 0 _ (polyEval_hasDerivAt_zero cs)

/-- non-vacuity of the hypotheses "`N` differentiable at the points visited": the polynomial nonlinearity -/
example (E c1 c2 u : 𝕜) (cs : List 𝕜) : DifferentiableAt 𝕜 (E2step E c1 c2 (polyEval cs)) u :=
  (E2step_hasDerivAt E c1 c2 _ u _ _ (polyEval_hasDerivAt cs u) (polyEval_hasDerivAt cs _)).differentiableAt

example (E Eh c1 c2 c3 c4 c5 u : 𝕜) (cs : List 𝕜) :
    DifferentiableAt 𝕜 (E3step E Eh c1 c2 c3 c4 c5 (polyEval cs)) u :=
  (E3step_hasDerivAt E Eh c1 c2 c3 c4 c5 _ (polyDeriv cs) u (polyEval_hasDerivAt cs _)
    (polyEval_hasDerivAt cs _) (polyEval_hasDerivAt cs _)).differentiableAt

example (E Eh c1 c2 c3 c4 c5 c6 : ℂ) : DifferentiableAt ℂ (E4step E Eh c1 c2 c3 c4 c5 c6 (polyEval [0, 1, 0, -1])) 0 :=
  (E4step_hasDerivAt E Eh c1 c2 c3 c4 c5 c6 _ (polyDeriv [0, 1, 0, -1]) 0 (polyEval_hasDerivAt _ _)
    (polyEval_hasDerivAt _ _) (polyEval_hasDerivAt _ _) (polyEval_hasDerivAt _ _)).differentiableAt

end Scalar

/-! ## F5 — guarded divisions are linear -/

/-- the guarded division of the model: `where(d == 0, 0, x / d)` -/
noncomputable def guardedDiv (d x : ℂ) : ℂ := if HasIsZero.isZero d then 0 else x / d

/-- **F5.** linear in `x` for EVERY `d`, also `d = 0` -/
theorem guardedDiv_linear (d a b x y : ℂ) :
    guardedDiv d (a * x + b * y) = a * guardedDiv d x + b * guardedDiv d y := by
  unfold guardedDiv
  split
  · simp
  · ring

theorem guardedDiv_eq_mul (d x : ℂ) : guardedDiv d x = guardedDiv d 1 * x := by
  have := guardedDiv_linear d x 0 1 0
  simpa [mul_comm] using this

/-- at the guarded point the map is the zero map (not `x/0`) -/
theorem guardedDiv_zero (x : ℂ) : guardedDiv 0 x = 0 := by
  simp [guardedDiv, HasIsZero.isZero]

/-- **F5.** … hence differentiable at every `x` with itself (the constant `guardedDiv d 1`) as
    derivative: the value is `0` at `d = 0` and `1/d` otherwise — never NaN -/
theorem guardedDiv_hasDerivAt (d x : ℂ) : HasDerivAt (guardedDiv d) (guardedDiv d 1) x := by
  have h : HasDerivAt (fun x => guardedDiv d 1 * x) (guardedDiv d 1 * 1) x :=
    (hasDerivAt_id x).const_mul (guardedDiv d 1)
  rw [mul_one] at h
  exact h.congr_of_eventuallyEq (Filter.Eventually.of_forall (fun y => guardedDiv_eq_mul d y))

theorem guardedDiv_hasDerivAt_at_zero_divisor (x : ℂ) : HasDerivAt (guardedDiv 0) 0 x := by
  have h := guardedDiv_hasDerivAt 0 x
  rwa [guardedDiv_zero] at h

/-- the model's guarded inverses are guarded divisions of `1` -/
theorem invLapZero_eq_guardedDiv (c : Cfg ℂ) (h : ℕ) : invLapZero c h = guardedDiv (laplace c 2 h) 1 := rfl

/-- `Poisson.step_fourier` is a guarded division -/
theorem poissonStep_eq_guardedDiv (c : Cfg ℂ) (order h : ℕ) (f : ℂ) :
    poissonStep c order h f = -guardedDiv (laplace c order h) f := by
  simp only [poissonStep, guardedDiv]
  split
  · simp
  · ring

/-- **F5 (model form).** `Poisson.step_fourier` is linear in the right-hand side at EVERY mode,
    including the zero mean mode where the operator vanishes -/
theorem poissonStep_linear (c : Cfg ℂ) (order h : ℕ) (a b f g : ℂ) :
    poissonStep c order h (a * f + b * g) = a * poissonStep c order h f + b * poissonStep c order h g := by
  simp only [poissonStep_eq_guardedDiv, guardedDiv_linear]
  ring

theorem poissonStep_hasDerivAt (c : Cfg ℂ) (order h : ℕ) (f : ℂ) :
    HasDerivAt (poissonStep c order h) (poissonStep c order h 1) f := by
  rw [poissonStep_eq_guardedDiv c order h 1]
  exact (guardedDiv_hasDerivAt _ f).neg.congr_of_eventuallyEq
    (Filter.Eventually.of_forall (fun y => poissonStep_eq_guardedDiv c order h y))

/-- the pressure correction of `Leray` at one mode, `−invLapZero · div`, is linear in the divergence -/
theorem invLapZero_mul_hasDerivAt (c : Cfg ℂ) (h : ℕ) (x : ℂ) :
    HasDerivAt (fun dv : ℂ => -(invLapZero c h) * dv) (-(invLapZero c h)) x := by
  have h := (hasDerivAt_id x).const_mul (-(invLapZero c h))
  rwa [mul_one] at h

end Exponax.Diff
