import ExponaxModel.Proofs.AliasND2Grad
/-
C03 in general dimension `D ≥ 1`, part 8 (G3): NON-conservative `ConvectionNonlinearFun`, any `D`.

  * multi-channel `(u·∇)u`  (`single_channel = False`, `conservative = False`), `C ≤ D` channels
    (the library uses `C = D`):  `out_i = −scale·Σ_{j<C} F[u_j · ∂_j u_i]`,
  * single-channel `u·Σ_d ∂_d u` (`single_channel = True`, `conservative = False`),
  each alias-free on the retained band under `3·Kc < N`, zero at dropped modes.
-/
namespace Exponax.AliasND
open Exponax Exponax.Layout Exponax.Transform Exponax.DFT Exponax.Nonlin Exponax.Alias Finset

/-! ### the products `P_K u · ∂_d P_K v`, alias-free -/

/-- `F[P_K y · ∂_d P_K x](k) = (Y ⋆ D_d X)(k)` on the box, `3·Kc < N` -/
theorem dftV_u_dfield (c : Cfg ℂ) (hD : 0 < c.D) (hq : c.fq ≠ 0) (hK : 3 * Kc c < (c.N : ℤ))
    (hN : 0 < c.N) (s : ℝ) (hs : c.s = (s : ℂ)) (x y : Array ℂ) (hx : IsRealND c.D c.N x)
    (hy : IsRealND c.D c.N y) (d : ℕ) (hd : d < c.D) (k : Fin c.D → ℤ) (hk : ∀ d, |k d| ≤ Kc c) :
    dftV c.D c.N (tab (c.N ^ c.D) fun j =>
        (nifft c (rfftnM c.D c.N y)).getD j 0 * (dfield c (rfftnM c.D c.N x) d).getD j 0) k
      = linConv c.D c.N (Kc c) (dftV c.D c.N y) (dspec c d x) k := by
  have h2 := two_lt_of_three c.N (Kc c) hK
  exact dftV_mul_of_box c.D c.N hN (Kc c) hK _ _ (nifft_bandLimitedV c hq hN _)
    (dfield_bandLimitedV c hq hN _ d) _ _
    (fun p hp => dftV_nifft_rfftn c hD hq hN h2 y hy p hp)
    (fun p hp => dftV_dfield c hD hq hN h2 s hs x hx d hd p hp) k hk

/-! ### multi-channel non-conservative convection `(u·∇)u` -/

/-- pipeline read-off for `ConvectionNonlinearFun(single_channel=False, conservative=False)`, any
    channel count `C`, any `D`, any input:
    `out_i(h) = −scale·mask_h·F[Σ_{j<C} u_j · w_{ij}](k(h))`, `u_j = ifft(mask·û_j)`,
    `w_{ij} = ifft(mask·(i s k_j)·û_i)`. -/
theorem convection_multi_nc_readoff (c : Cfg ℂ) (hN : 0 < c.N) (C : ℕ) (scale : ℂ)
    (uh : MC ℂ) (i : ℕ) (hi : i < C) (h : ℕ) (hh : h < numModes c.D c.N) :
    at2 (convection c C scale false false uh) i h
      = -scale * (mask c h * dftV c.D c.N (tab (c.N ^ c.D) fun x => ∑ j ∈ range C,
          (nifft c (uh.getD j #[])).getD x 0 * (dfield c (uh.getD i #[]) j).getD x 0)
          (kvec c.D c.N h)) := by
  have hM : h < modes c := hh
  unfold convection
  simp only [Bool.false_eq_true, if_false]
  rw [at2_tab2 _ _ _ _ _ hi hM, at2_tabC _ _ _ _ hi, nfft_nd c hN _ h hh]
  congr 3
  apply Nonlin.tab_congr
  intro x _
  rw [sumList_range_eq]
  apply Finset.sum_congr rfl
  intro j hj
  have hj' := Finset.mem_range.mp hj
  have hij : i * C + j < C * C := by
    calc i * C + j < i * C + C := by omega
      _ = (i + 1) * C := by ring
      _ ≤ C * C := Nat.mul_le_mul_right _ hi
  have hmod : (i * C + j) % C = j := by
    rw [Nat.add_comm, Nat.add_mul_mod_self_right, Nat.mod_eq_of_lt hj']
  have hdiv : (i * C + j) / C = i := by
    rw [Nat.add_comm, Nat.add_mul_div_right _ _ (by omega : 0 < C), Nat.div_eq_of_lt hj', zero_add]
  rw [at2_tabC _ _ _ _ hj', at2_tabC _ _ _ _ hij, hmod, hdiv]
  rfl

/-- **G3: non-conservative multi-channel convection `(u·∇)u`, any `D ≥ 1`, `C ≤ D` channels (the
    library has `C = D`), cut-off `3·Kc < N`**, real scale `s`, real states `xs ch`,
    `û_ch = rfftnM D N (xs ch)`.  Output channel `i` at a retained stored mode `h`:

      `−scale · Σ_{j<C} (X_j ⋆ D_j X_i)(k(h))`,   `D_j X (p) = (i s p_j)·X(p)`,

    with `X_ch` the box-truncated full spectrum of `xs ch` and `⋆` the LINEAR convolution: the
    coefficient of `−scale·Σ_j P_K u_j · ∂_j P_K u_i`, alias-free (no factor `½` in this variant).
    At a dropped mode the output is `0`. -/
theorem convection_multi_nc_alias_free_nd (c : Cfg ℂ) (hD : 0 < c.D) (hq : c.fq ≠ 0)
    (hK : 3 * Kc c < (c.N : ℤ)) (hN : 0 < c.N) (s : ℝ) (hs : c.s = (s : ℂ)) (C : ℕ) (hC : C ≤ c.D)
    (scale : ℂ) (uh : MC ℂ) (xs : ℕ → Array ℂ)
    (hx : ∀ ch, ch < C → IsRealND c.D c.N (xs ch))
    (huh : ∀ ch, ch < C → uh.getD ch #[] = rfftnM c.D c.N (xs ch))
    (i : ℕ) (hi : i < C) (h : ℕ) (hh : h < numModes c.D c.N) :
    (mask c h = 1 →
      at2 (convection c C scale false false uh) i h
        = -scale * ∑ j ∈ range C,
            linConv c.D c.N (Kc c) (dftV c.D c.N (xs j)) (dspec c j (xs i)) (kvec c.D c.N h))
    ∧ (mask c h = 0 → at2 (convection c C scale false false uh) i h = 0) := by
  refine ⟨fun hm => ?_, fun hm => convection_zero_off_band c C scale false false uh i h hm⟩
  have hk : ∀ d, |kvec c.D c.N h d| ≤ Kc c := (mask_nd_eq_one_iff c hq h).mp hm
  rw [convection_multi_nc_readoff c hN C scale uh i hi h hh, hm, one_mul, dftV_sum]
  congr 1
  apply Finset.sum_congr rfl
  intro j hj
  have hj' := Finset.mem_range.mp hj
  rw [huh j hj', huh i hi]
  exact dftV_u_dfield c hD hq hK hN s hs (xs i) (xs j) (hx i hi) (hx j hj') j (by omega) _ hk

/-- `linConv` of a spectrum with a differentiated spectrum, every sum and symbol written out -/
theorem linConv_u_dspec_explicit (c : Cfg ℂ) (d : Fin c.D) (x y : Array ℂ) (k : Fin c.D → ℤ) :
    linConv c.D c.N (Kc c) (dftV c.D c.N y) (dspec c d x) k
      = (1 / ((c.N ^ c.D : ℕ) : ℂ)) * ∑ p ∈ box c.D (Kc c),
          truncV (Kc c) (dftV c.D c.N y) p *
            (Complex.I * (c.s * (((k d - p d : ℤ)) : ℂ)) * truncV (Kc c) (dftV c.D c.N x) (k - p)) := by
  unfold linConv dspec
  congr 1
  apply Finset.sum_congr rfl
  intro p _
  rw [truncV_mul, dsym_fin, Pi.sub_apply]

/-- **G3 with explicit sums, `C = D` channels** (the `D`-dimensional analogue of the 1-D
    `convection_nc_one_alias_free_of_cutoff`): channel `i` at a retained stored mode is

    `−scale·Σ_j N^{-D} Σ_{p ∈ box} X_j(p) · (i s (k_j(h) − p_j)) X_i(k(h) − p)`; `0` at a dropped mode. -/
theorem convection_multi_nc_alias_free_nd_explicit (c : Cfg ℂ) (hD : 0 < c.D) (hq : c.fq ≠ 0)
    (hK : 3 * Kc c < (c.N : ℤ)) (hN : 0 < c.N) (s : ℝ) (hs : c.s = (s : ℂ))
    (scale : ℂ) (uh : MC ℂ) (xs : ℕ → Array ℂ)
    (hx : ∀ ch, ch < c.D → IsRealND c.D c.N (xs ch))
    (huh : ∀ ch, ch < c.D → uh.getD ch #[] = rfftnM c.D c.N (xs ch))
    (i : ℕ) (hi : i < c.D) (h : ℕ) (hh : h < numModes c.D c.N) :
    (mask c h = 1 →
      at2 (convection c c.D scale false false uh) i h
        = -scale * ∑ j : Fin c.D,
            ((1 / ((c.N ^ c.D : ℕ) : ℂ)) * ∑ p ∈ box c.D (Kc c),
              truncV (Kc c) (dftV c.D c.N (xs j)) p *
                (Complex.I * (c.s * (((kvec c.D c.N h j - p j : ℤ)) : ℂ))
                  * truncV (Kc c) (dftV c.D c.N (xs i)) (kvec c.D c.N h - p))))
    ∧ (mask c h = 0 → at2 (convection c c.D scale false false uh) i h = 0) := by
  have := convection_multi_nc_alias_free_nd c hD hq hK hN s hs c.D le_rfl scale uh xs hx huh i hi h hh
  refine ⟨fun hm => ?_, this.2⟩
  rw [this.1 hm]
  congr 1
  rw [← Fin.sum_univ_eq_sum_range (fun j => linConv c.D c.N (Kc c) (dftV c.D c.N (xs j))
    (dspec c j (xs i)) (kvec c.D c.N h)) c.D]
  apply Finset.sum_congr rfl
  intro j _
  exact linConv_u_dspec_explicit c j (xs i) (xs j) _

/-! ### single-channel non-conservative convection `u·Σ_d ∂_d u` -/

/-- pipeline read-off for `ConvectionNonlinearFun(single_channel=True, conservative=False)`, any
    `D`, `C ≥ 1` input channels (only channel `0` is used, one output channel) -/
theorem convection_single_nc_readoff (c : Cfg ℂ) (hN : 0 < c.N) (C : ℕ) (hC : 0 < C) (scale : ℂ)
    (uh : MC ℂ) (h : ℕ) (hh : h < numModes c.D c.N) :
    at2 (convection c C scale true false uh) 0 h
      = -scale * (mask c h * dftV c.D c.N (tab (c.N ^ c.D) fun x => ∑ d ∈ range c.D,
          (nifft c (uh.getD 0 #[])).getD x 0 * (dfield c (uh.getD 0 #[]) d).getD x 0)
          (kvec c.D c.N h)) := by
  have hM : h < modes c := hh
  unfold convection
  simp only [↓reduceIte, Bool.false_eq_true]
  rw [at2_tab2 _ _ _ _ _ Nat.zero_lt_one hM, nfft_nd c hN _ h hh]
  congr 3
  apply Nonlin.tab_congr
  intro x _
  rw [sumList_range_eq]
  apply Finset.sum_congr rfl
  intro d hd
  rw [at2_tabC _ _ _ _ hC, at2_tabC _ _ _ _ (Finset.mem_range.mp hd)]
  rfl

/-- **single-channel non-conservative convection `u·Σ_d ∂_d u`, any `D ≥ 1`, cut-off `3·Kc < N`:**
    at a retained stored mode the (single) output channel is `−scale·Σ_{d<D} (X ⋆ D_d X)(k(h))`,
    alias-free; `0` at a dropped mode. -/
theorem convection_single_nc_alias_free_nd (c : Cfg ℂ) (hD : 0 < c.D) (hq : c.fq ≠ 0)
    (hK : 3 * Kc c < (c.N : ℤ)) (hN : 0 < c.N) (s : ℝ) (hs : c.s = (s : ℂ)) (C : ℕ) (hC : 0 < C)
    (scale : ℂ) (uh : MC ℂ) (x : Array ℂ) (hx : IsRealND c.D c.N x)
    (huh : uh.getD 0 #[] = rfftnM c.D c.N x) (h : ℕ) (hh : h < numModes c.D c.N) :
    (mask c h = 1 →
      at2 (convection c C scale true false uh) 0 h
        = -scale * ∑ d ∈ range c.D,
            linConv c.D c.N (Kc c) (dftV c.D c.N x) (dspec c d x) (kvec c.D c.N h))
    ∧ (mask c h = 0 → at2 (convection c C scale true false uh) 0 h = 0) := by
  refine ⟨fun hm => ?_, fun hm => convection_zero_off_band c C scale true false uh 0 h hm⟩
  have hk : ∀ d, |kvec c.D c.N h d| ≤ Kc c := (mask_nd_eq_one_iff c hq h).mp hm
  rw [convection_single_nc_readoff c hN C hC scale uh h hh, hm, one_mul, dftV_sum, huh]
  congr 1
  apply Finset.sum_congr rfl
  intro d hd
  exact dftV_u_dfield c hD hq hK hN s hs x x hx hx d (Finset.mem_range.mp hd) _ hk

/-- G3 for the documented fraction 2/3 -/
theorem convection_multi_nc_alias_free_nd_two_thirds (c : Cfg ℂ) (hD : 0 < c.D) (hp : c.fp = 2)
    (hq : c.fq = 3) (hN : 0 < c.N) (s : ℝ) (hs : c.s = (s : ℂ)) (C : ℕ) (hC : C ≤ c.D)
    (scale : ℂ) (uh : MC ℂ) (xs : ℕ → Array ℂ)
    (hx : ∀ ch, ch < C → IsRealND c.D c.N (xs ch))
    (huh : ∀ ch, ch < C → uh.getD ch #[] = rfftnM c.D c.N (xs ch))
    (i : ℕ) (hi : i < C) (h : ℕ) (hh : h < numModes c.D c.N) :
    (mask c h = 1 →
      at2 (convection c C scale false false uh) i h
        = -scale * ∑ j ∈ range C,
            linConv c.D c.N (Kc c) (dftV c.D c.N (xs j)) (dspec c j (xs i)) (kvec c.D c.N h))
    ∧ (mask c h = 0 → at2 (convection c C scale false false uh) i h = 0) :=
  convection_multi_nc_alias_free_nd c hD (by omega) (Kc_two_thirds c hp hq).1 hN s hs C hC scale uh
    xs hx huh i hi h hh

end Exponax.AliasND
