import ExponaxModel.Proofs.AliasNDStored
import ExponaxModel.Proofs.SymmetryND2
/-
C08, T1 — PERMUTATIONS OF THE SPATIAL AXES at the level of the transforms, every dimension `D`.

Convention: a permutation `σ : Equiv.Perm (Fin D)` of the axes acts on grid fields by
`(P_σ u)(j) = u(j ∘ σ)` (`permField`): the value at the grid point with digits `j₀,…,j_{D-1}` is the
value of `u` at the grid point whose digit on axis `d` is `j_{σ d}` (`digit_permIdx`).

* `dftV_permField`              : the FULL spectrum (`AliasND.dftV`, every integer wavenumber vector)
                                  of `P_σ u` at `κ` is the full spectrum of `u` at `κ ∘ σ`; any complex `u`.
* `fullCoef D N û κ`            : full-spectrum read-off from a stored half spectrum `û`: the stored
                                  entry of the mode `≡ κ (mod N)` if the last component of `κ` reduces into
                                  `[0, N/2]`, else the conjugate of the stored entry of the mode `≡ −κ`;
                                  `fullCoef_kvec` (it reads `û[h]` at the stored wavenumber vector of `h`),
                                  `fullCoef_rfftn` (for real `u` it IS the full spectrum of `u`),
                                  `kvec_storedIdx_eq` (below Nyquist the stored mode has exactly the
                                  wavenumber vector `κ`).
* **T1** `rfftn_permField_fullCoef` : `fullCoef (rfftn (P_σ u)) κ = fullCoef (rfftn u) (κ ∘ σ)` for EVERY
                                  integer `κ`, every real `u`, every `D ≥ 1`, every `N ≥ 1` — no Nyquist
                                  proviso is needed at the level of the transforms (the proviso of
                                  `C08_transposition_2d` concerns SYMBOLS that see the sign of the Nyquist
                                  wavenumber);  `rfftn_permField_stored(_cases)` : stored-index forms.
* `D = 2`, `D = 3` written out: `permField_two_eq_transpose2`, `permIdx_three`, `rfftn_permField_2d`,
  `rfftn_permField_3d`.
-/
set_option linter.unusedVariables false
namespace Exponax.AxisPerm
open Exponax Exponax.Layout Exponax.Transform Exponax.DFT Exponax.AliasND Finset
open Exponax.SymmetryND (ofDigits ofDigits_lt ofDigits_congr digit_ofDigits ofDigits_digit)

/-! ## the permutation of the axes on the grid -/

/-- digit on axis `d` of the source index: digit `σ d` of `j` -/
def permDigit (D N : ℕ) (σ : Equiv.Perm (Fin D)) (j d : ℕ) : ℕ :=
  if h : d < D then digit D N j (σ ⟨d, h⟩) else 0

/-- source index of entry `j` of the axis-permuted field: the flat index whose digit on axis `d`
    is the digit of `j` on axis `σ d` -/
def permIdx (D N : ℕ) (σ : Equiv.Perm (Fin D)) (j : ℕ) : ℕ := ofDigits N (permDigit D N σ j) D

/-- `(P_σ u)(j) = u(j ∘ σ)` on the `N^D` grid (flat C order) -/
def permField (D N : ℕ) (σ : Equiv.Perm (Fin D)) (u : Array ℂ) : Array ℂ :=
  tab (N ^ D) (fun j => u.getD (permIdx D N σ j) 0)

@[simp] theorem permField_size (D N : ℕ) (σ : Equiv.Perm (Fin D)) (u : Array ℂ) :
    (permField D N σ u).size = N ^ D := by simp [permField]

theorem permDigit_lt (D N : ℕ) (hN : 0 < N) (σ : Equiv.Perm (Fin D)) (j d : ℕ) :
    permDigit D N σ j d < N := by
  unfold permDigit
  split_ifs
  · exact Nat.mod_lt _ hN
  · exact hN

theorem permIdx_lt (D N : ℕ) (hN : 0 < N) (σ : Equiv.Perm (Fin D)) (j : ℕ) : permIdx D N σ j < N ^ D :=
  ofDigits_lt N _ D (fun d _ => permDigit_lt D N hN σ j d)

/-- `permIdx` stays on the grid (no positivity hypothesis) -/
theorem permIdx_lt' (D N : ℕ) (σ : Equiv.Perm (Fin D)) (j : ℕ) (hj : j < N ^ D) : permIdx D N σ j < N ^ D := by
  rcases Nat.eq_zero_or_pos N with h0 | hN
  · subst h0
    rcases Nat.eq_zero_or_pos D with hD | hD
    · subst hD
      simp [permIdx, ofDigits]
    · rw [zero_pow (by omega)] at hj
      omega
  · exact permIdx_lt D N hN σ j

/-- **characterisation of `permIdx`**: its digit on axis `d` is the digit of `j` on axis `σ d` -/
theorem digit_permIdx (D N : ℕ) (hN : 0 < N) (σ : Equiv.Perm (Fin D)) (j : ℕ) (d : Fin D) :
    digit D N (permIdx D N σ j) d = digit D N j (σ d) := by
  unfold permIdx
  rw [digit_ofDigits N _ D (fun d _ => permDigit_lt D N hN σ j d) d d.2]
  simp [permDigit, d.2]

theorem permField_getD (D N : ℕ) (σ : Equiv.Perm (Fin D)) (u : Array ℂ) (j : ℕ) (hj : j < N ^ D) :
    (permField D N σ u).getD j 0 = u.getD (permIdx D N σ j) 0 := by
  rw [permField, DFT.tab_getD _ _ _ _ hj]

/-- composition: `P_τ (P_σ u) = P_{σ τ} u` at the level of indices -/
theorem permIdx_permIdx (D N : ℕ) (hN : 0 < N) (σ τ : Equiv.Perm (Fin D)) (j : ℕ) :
    permIdx D N τ (permIdx D N σ j) = permIdx D N (σ * τ) j := by
  apply digits_inj N D _ _ (permIdx_lt D N hN τ _) (permIdx_lt D N hN (σ * τ) j)
  intro d hd
  have h1 := digit_permIdx D N hN τ (permIdx D N σ j) ⟨d, hd⟩
  have h2 := digit_permIdx D N hN σ j (τ ⟨d, hd⟩)
  have h3 := digit_permIdx D N hN (σ * τ) j ⟨d, hd⟩
  simp only [Equiv.Perm.coe_mul, Function.comp_apply] at h3
  rw [h1, h2, h3]

theorem permIdx_one (D N : ℕ) (hN : 0 < N) (j : ℕ) (hj : j < N ^ D) : permIdx D N 1 j = j := by
  apply digits_inj N D _ _ (permIdx_lt D N hN 1 j) hj
  intro d hd
  have := digit_permIdx D N hN 1 j ⟨d, hd⟩
  simpa using this

theorem permIdx_inv (D N : ℕ) (hN : 0 < N) (σ : Equiv.Perm (Fin D)) (j : ℕ) (hj : j < N ^ D) :
    permIdx D N σ⁻¹ (permIdx D N σ j) = j := by
  rw [permIdx_permIdx D N hN, mul_inv_cancel, permIdx_one D N hN j hj]

theorem permIdx_inv' (D N : ℕ) (hN : 0 < N) (σ : Equiv.Perm (Fin D)) (j : ℕ) (hj : j < N ^ D) :
    permIdx D N σ (permIdx D N σ⁻¹ j) = j := by
  rw [permIdx_permIdx D N hN, inv_mul_cancel, permIdx_one D N hN j hj]

/-- the axis permutation re-indexes sums over the grid -/
theorem sum_permIdx {M : Type} [AddCommMonoid M] (D N : ℕ) (hN : 0 < N) (σ : Equiv.Perm (Fin D))
    (F : ℕ → M) :
    ∑ j ∈ range (N ^ D), F (permIdx D N σ j) = ∑ j ∈ range (N ^ D), F j := by
  apply Finset.sum_nbij' (permIdx D N σ) (permIdx D N σ⁻¹)
  · intro j _; exact Finset.mem_range.mpr (permIdx_lt D N hN σ j)
  · intro j _; exact Finset.mem_range.mpr (permIdx_lt D N hN σ⁻¹ j)
  · intro j hj; exact permIdx_inv D N hN σ j (Finset.mem_range.mp hj)
  · intro j hj; exact permIdx_inv' D N hN σ j (Finset.mem_range.mp hj)
  · intro j _; rfl

/-- the phase at a permuted grid point -/
theorem vdot_permIdx (D N : ℕ) (hN : 0 < N) (σ : Equiv.Perm (Fin D)) (k : Fin D → ℤ) (j : ℕ) :
    vdot D N k (permIdx D N σ j) = vdot D N (k ∘ σ.symm) j := by
  unfold vdot
  rw [← Equiv.sum_comp σ (fun e => (k ∘ σ.symm) e * (digit D N j e : ℤ))]
  apply Finset.sum_congr rfl
  intro d _
  rw [digit_permIdx D N hN σ j d]
  simp

/-- **T1, full-spectrum form.**  The full `D`-dimensional spectrum of the axis-permuted field at
    the integer wavenumber vector `κ` is the full spectrum of `u` at `κ ∘ σ`; ANY complex `u`. -/
theorem dftV_permField (D N : ℕ) (hN : 0 < N) (σ : Equiv.Perm (Fin D)) (u : Array ℂ) (k : Fin D → ℤ) :
    dftV D N (permField D N σ u) k = dftV D N u (k ∘ σ) := by
  unfold dftV
  rw [← sum_permIdx D N hN σ (fun i => u.getD i 0 * zeta N ^ vdot D N (k ∘ σ) i)]
  apply Finset.sum_congr rfl
  intro j hj
  rw [permField_getD D N σ u j (Finset.mem_range.mp hj), vdot_permIdx D N hN σ]
  congr 3
  funext d
  simp

theorem permField_real (D N : ℕ) (σ : Equiv.Perm (Fin D)) (u : Array ℂ) (hu : IsRealND D N u) :
    IsRealND D N (permField D N σ u) := by
  intro j hj
  rw [permField_getD D N σ u j hj]
  exact hu _ (permIdx_lt' D N σ j hj)

/-! ## full-spectrum read-off from the stored half spectrum -/

/-- residue in `[0, N)` of the component `d` of the wavenumber vector `κ` -/
def resid (D N : ℕ) (κ : Fin D → ℤ) (d : ℕ) : ℕ :=
  if h : d < D then (κ ⟨d, h⟩ % (N : ℤ)).toNat else 0

/-- flat stored index of the mode `≡ κ (mod N)` (meaningful when the last residue is `≤ N/2`) -/
def storedIdx (D N : ℕ) (κ : Fin D → ℤ) : ℕ :=
  ofDigits N (resid D N κ) (D - 1) * (N / 2 + 1) + resid D N κ (D - 1)

/-- **full-spectrum read-off**: the coefficient of the integer wavenumber vector `κ` in a stored
    half spectrum `c`: the stored entry, or the conjugate of the stored entry of the partner `−κ` -/
noncomputable def fullCoef (D N : ℕ) (c : Array ℂ) (κ : Fin D → ℤ) : ℂ :=
  if resid D N κ (D - 1) ≤ N / 2 then c.getD (storedIdx D N κ) 0
  else (starRingEnd ℂ) (c.getD (storedIdx D N (-κ)) 0)

theorem resid_lt (D N : ℕ) (hN : 0 < N) (κ : Fin D → ℤ) (d : ℕ) : resid D N κ d < N := by
  unfold resid
  split_ifs with h
  · have h1 : 0 ≤ κ ⟨d, h⟩ % (N : ℤ) := Int.emod_nonneg _ (by exact_mod_cast hN.ne')
    have h2 : κ ⟨d, h⟩ % (N : ℤ) < N := Int.emod_lt_of_pos _ (by exact_mod_cast hN)
    omega
  · exact hN

theorem resid_cast (D N : ℕ) (hN : 0 < N) (κ : Fin D → ℤ) (d : Fin D) :
    ((resid D N κ d : ℕ) : ℤ) = κ d % (N : ℤ) := by
  unfold resid
  rw [dif_pos d.2]
  exact Int.toNat_of_nonneg (Int.emod_nonneg _ (by exact_mod_cast hN.ne'))

theorem resid_dvd (D N : ℕ) (hN : 0 < N) (κ : Fin D → ℤ) (d : Fin D) :
    (N : ℤ) ∣ ((resid D N κ d : ℕ) : ℤ) - κ d := by
  rw [resid_cast D N hN]
  exact Int.modEq_iff_dvd.mp (Int.mod_modEq (κ d) N).symm

/-- the last residue of `−κ` when the last residue of `κ` is beyond `N/2` -/
theorem resid_neg_last (E N : ℕ) (hN : 0 < N) (κ : Fin (E + 1) → ℤ) (h : ¬ resid (E + 1) N κ E ≤ N / 2) :
    resid (E + 1) N (-κ) E ≤ N / 2 := by
  have h1 := resid_cast (E + 1) N hN κ (Fin.last E)
  have h2 := resid_cast (E + 1) N hN (-κ) (Fin.last E)
  have hl := resid_lt (E + 1) N hN κ E
  have hl' := resid_lt (E + 1) N hN (-κ) E
  simp only [Fin.val_last, Pi.neg_apply] at h1 h2
  have hsum : ((N : ℤ)) ∣ ((resid (E + 1) N κ E : ℕ) : ℤ) + ((resid (E + 1) N (-κ) E : ℕ) : ℤ) := by
    rw [h1, h2]
    have := (Int.mod_modEq (κ (Fin.last E)) N).add (Int.mod_modEq (-κ (Fin.last E)) N)
    rw [add_neg_cancel] at this
    exact Int.modEq_zero_iff_dvd.mp this
  obtain ⟨t, ht⟩ := hsum
  have ht1 : t = 1 := by
    have hNz : (0 : ℤ) < N := by exact_mod_cast hN
    have hpos : 0 < (N : ℤ) * t := by rw [← ht]; omega
    have hlt : (N : ℤ) * t < (N : ℤ) * 2 := by rw [← ht]; omega
    have := (mul_pos_iff_of_pos_left hNz).mp hpos
    have := lt_of_mul_lt_mul_left hlt hNz.le
    omega
  subst ht1
  omega

theorem storedIdx_div (E N : ℕ) (hN : 0 < N) (κ : Fin (E + 1) → ℤ) (hl : resid (E + 1) N κ E ≤ N / 2) :
    storedIdx (E + 1) N κ / (N / 2 + 1) = ofDigits N (resid (E + 1) N κ) E := by
  unfold storedIdx
  rw [Nat.add_sub_cancel, Nat.add_comm, Nat.add_mul_div_right _ _ (by omega), Nat.div_eq_of_lt (by omega),
    zero_add]

theorem storedIdx_mod (E N : ℕ) (hN : 0 < N) (κ : Fin (E + 1) → ℤ) (hl : resid (E + 1) N κ E ≤ N / 2) :
    storedIdx (E + 1) N κ % (N / 2 + 1) = resid (E + 1) N κ E := by
  unfold storedIdx
  rw [Nat.add_sub_cancel, Nat.add_comm, Nat.add_mul_mod_self_right, Nat.mod_eq_of_lt (by omega)]

theorem storedIdx_lt (E N : ℕ) (hN : 0 < N) (κ : Fin (E + 1) → ℤ) (hl : resid (E + 1) N κ E ≤ N / 2) :
    storedIdx (E + 1) N κ < numModes (E + 1) N := by
  rw [numModes_succ]
  have hA := ofDigits_lt N (resid (E + 1) N κ) E (fun d _ => resid_lt (E + 1) N hN κ d)
  unfold storedIdx
  rw [Nat.add_sub_cancel]
  calc ofDigits N (resid (E + 1) N κ) E * (N / 2 + 1) + resid (E + 1) N κ E
      < ofDigits N (resid (E + 1) N κ) E * (N / 2 + 1) + (N / 2 + 1) := by omega
    _ = (ofDigits N (resid (E + 1) N κ) E + 1) * (N / 2 + 1) := by ring
    _ ≤ N ^ E * (N / 2 + 1) := Nat.mul_le_mul_right _ hA

/-- the stored mode `storedIdx κ` has a wavenumber vector congruent to `κ` -/
theorem kvec_storedIdx (E N : ℕ) (hN : 0 < N) (κ : Fin (E + 1) → ℤ) (hl : resid (E + 1) N κ E ≤ N / 2) :
    VCongr (E + 1) N (kvec (E + 1) N (storedIdx (E + 1) N κ)) κ := by
  have hlt := storedIdx_lt E N hN κ hl
  intro d
  rcases Nat.lt_or_ge (d : ℕ) E with hd | hd
  · rw [kvec_leading E N _ hlt d hd, storedIdx_div E N hN κ hl,
      digit_ofDigits N _ E (fun d _ => resid_lt (E + 1) N hN κ d) d hd]
    have h1 := Int.modEq_iff_dvd.mp (fftfreq_modEq N (resid (E + 1) N κ d)).symm
    have h2 := resid_dvd (E + 1) N hN κ d
    have : fftfreq N (resid (E + 1) N κ d) - κ d
        = (fftfreq N (resid (E + 1) N κ d) - ((resid (E + 1) N κ d : ℕ) : ℤ))
          + (((resid (E + 1) N κ d : ℕ) : ℤ) - κ d) := by ring
    rw [this]
    exact Dvd.dvd.add h1 h2
  · have hdE : (d : ℕ) = E := by omega
    rw [kvec_last E N _ hlt d hdE, storedIdx_mod E N hN κ hl]
    have := resid_dvd (E + 1) N hN κ d
    rwa [hdE] at this

/-- `storedIdx` inverts `kvec` on the stored modes -/
theorem storedIdx_kvec (E N : ℕ) (hN : 0 < N) (h : ℕ) (hh : h < numModes (E + 1) N) :
    resid (E + 1) N (kvec (E + 1) N h) E = h % (N / 2 + 1) ∧ storedIdx (E + 1) N (kvec (E + 1) N h) = h := by
  have hh' := hh
  rw [numModes_succ] at hh'
  have hn : 0 < N / 2 + 1 := by omega
  have hq : h / (N / 2 + 1) < N ^ E := Nat.div_lt_of_lt_mul (by rw [mul_comm]; exact hh')
  have hr : h % (N / 2 + 1) < N / 2 + 1 := Nat.mod_lt _ hn
  have hlast : resid (E + 1) N (kvec (E + 1) N h) E = h % (N / 2 + 1) := by
    unfold resid
    rw [dif_pos (Nat.lt_succ_self E), kvec_last E N h hh ⟨E, Nat.lt_succ_self E⟩ rfl,
      Int.emod_eq_of_lt (by positivity) (by exact_mod_cast (show h % (N / 2 + 1) < N by omega)),
      Int.toNat_natCast]
  refine ⟨hlast, ?_⟩
  unfold storedIdx
  rw [Nat.add_sub_cancel, hlast,
    ofDigits_congr N _ (fun d => digit E N (h / (N / 2 + 1)) d) E, ofDigits_digit N E _ hq]
  · exact Nat.div_add_mod' h (N / 2 + 1)
  · intro d hd
    unfold resid
    rw [dif_pos (by omega), kvec_leading E N h hh ⟨d, by omega⟩ hd, fftfreq_emod,
      Int.emod_eq_of_lt (by positivity) (by exact_mod_cast (Nat.mod_lt _ hN)), Int.toNat_natCast]

/-- `fullCoef` reads the stored entry at the stored wavenumber vector; ANY array `c` -/
theorem fullCoef_kvec (D N : ℕ) (hD : 0 < D) (hN : 0 < N) (c : Array ℂ) (h : ℕ) (hh : h < numModes D N) :
    fullCoef D N c (kvec D N h) = c.getD h 0 := by
  obtain ⟨E, rfl⟩ : ∃ E, D = E + 1 := ⟨D - 1, by omega⟩
  obtain ⟨h1, h2⟩ := storedIdx_kvec E N hN h hh
  have hn : 0 < N / 2 + 1 := by omega
  unfold fullCoef
  rw [Nat.add_sub_cancel, h1, if_pos (by have := Nat.mod_lt h hn; omega), h2]

/-- for ANY complex field: if the last residue is in the stored half, `fullCoef` of the stored
    spectrum is the full spectrum -/
theorem fullCoef_rfftn_of_le (E N : ℕ) (hN : 0 < N) (u : Array ℂ) (κ : Fin (E + 1) → ℤ)
    (hl : resid (E + 1) N κ E ≤ N / 2) :
    fullCoef (E + 1) N (rfftnM (E + 1) N u) κ = dftV (E + 1) N u κ := by
  unfold fullCoef
  rw [Nat.add_sub_cancel, if_pos hl, rfftn_eq_dftV (E + 1) N hN u _ (storedIdx_lt E N hN κ hl),
    dftV_of_congr u (kvec_storedIdx E N hN κ hl)]

/-- **for a REAL field `fullCoef` of the stored spectrum is the full spectrum, at EVERY integer
    wavenumber vector** -/
theorem fullCoef_rfftn (D N : ℕ) (hD : 0 < D) (hN : 0 < N) (u : Array ℂ) (hu : IsRealND D N u)
    (κ : Fin D → ℤ) : fullCoef D N (rfftnM D N u) κ = dftV D N u κ := by
  obtain ⟨E, rfl⟩ : ∃ E, D = E + 1 := ⟨D - 1, by omega⟩
  by_cases hl : resid (E + 1) N κ E ≤ N / 2
  · exact fullCoef_rfftn_of_le E N hN u κ hl
  · have hl' := resid_neg_last E N hN κ hl
    unfold fullCoef
    rw [Nat.add_sub_cancel, if_neg hl, rfftn_eq_dftV (E + 1) N hN u _ (storedIdx_lt E N hN (-κ) hl'),
      dftV_of_congr u (kvec_storedIdx E N hN (-κ) hl'), conj_dftV (E + 1) N u hu, neg_neg]

/-- below Nyquist (and last component `≥ 0`) the stored mode has EXACTLY the wavenumber vector `κ` -/
theorem kvec_storedIdx_eq (D N : ℕ) (hD : 0 < D) (hN : 0 < N) (κ : Fin D → ℤ)
    (hκ : ∀ d, 2 * |κ d| < (N : ℤ)) (hlast : 0 ≤ κ ⟨D - 1, by omega⟩) :
    storedIdx D N κ < numModes D N ∧ kvec D N (storedIdx D N κ) = κ := by
  obtain ⟨E, rfl⟩ : ∃ E, D = E + 1 := ⟨D - 1, by omega⟩
  have hl : resid (E + 1) N κ E ≤ N / 2 := by
    have h1 := resid_cast (E + 1) N hN κ (Fin.last E)
    simp only [Fin.val_last] at h1
    have h2 := hκ (Fin.last E)
    have h3 : κ (Fin.last E) = κ ⟨E + 1 - 1, by omega⟩ := rfl
    rw [abs_of_nonneg (by rw [h3]; exact hlast)] at h2
    rw [Int.emod_eq_of_lt (by rw [h3]; exact hlast) (by omega)] at h1
    omega
  refine ⟨storedIdx_lt E N hN κ hl, ?_⟩
  funext d
  have hc := kvec_storedIdx E N hN κ hl d
  have hb := abs_le.mp (kvec_abs_le (E + 1) N _ (by omega) hN (storedIdx_lt E N hN κ hl) d)
  have hk := abs_lt.mp (show |κ d| < (N : ℤ) - ((N / 2 : ℕ) : ℤ) by have := hκ d; omega)
  have : kvec (E + 1) N (storedIdx (E + 1) N κ) d - κ d = 0 := by
    apply Int.eq_zero_of_abs_lt_dvd hc
    rw [abs_lt]; constructor <;> omega
  omega

/-! ## T1 — the stored spectrum of the axis-permuted field -/

/-- **T1.**  For a permutation `σ` of the `D` axes and a REAL field `u` (every `N ≥ 1`, Nyquist
    content allowed): the stored spectrum of `P_σ u` is the `σ`-relabelled spectrum of `u`,
    `fullCoef (rfftn (P_σ u)) κ = fullCoef (rfftn u) (κ ∘ σ)` at EVERY integer wavenumber vector. -/
theorem rfftn_permField_fullCoef (D N : ℕ) (hD : 0 < D) (hN : 0 < N) (σ : Equiv.Perm (Fin D))
    (u : Array ℂ) (hu : IsRealND D N u) (κ : Fin D → ℤ) :
    fullCoef D N (rfftnM D N (permField D N σ u)) κ = fullCoef D N (rfftnM D N u) (κ ∘ σ) := by
  rw [fullCoef_rfftn D N hD hN _ (permField_real D N σ u hu), fullCoef_rfftn D N hD hN u hu,
    dftV_permField D N hN]

/-- **T1, stored-index form.**  The stored mode `h` (wavenumber vector `k(h)`) of the permuted
    field is the full-spectrum read-off of the stored spectrum of `u` at `k(h) ∘ σ`. -/
theorem rfftn_permField_stored (D N : ℕ) (hD : 0 < D) (hN : 0 < N) (σ : Equiv.Perm (Fin D))
    (u : Array ℂ) (hu : IsRealND D N u) (h : ℕ) (hh : h < numModes D N) :
    (rfftnM D N (permField D N σ u)).getD h 0 = fullCoef D N (rfftnM D N u) (kvec D N h ∘ σ) := by
  rw [← fullCoef_kvec D N hD hN _ h hh]
  exact rfftn_permField_fullCoef D N hD hN σ u hu _

/-- **T1, the two cases written out.**  With `κ = k(h) ∘ σ`: if the last component of `κ` reduces
    into `[0, N/2]` the value is the stored entry of the mode `≡ κ` (ANY complex `u`); otherwise it is
    the complex conjugate of the stored entry of the mode `≡ −κ` (real `u`). -/
theorem rfftn_permField_stored_cases (D N : ℕ) (hD : 0 < D) (hN : 0 < N) (σ : Equiv.Perm (Fin D))
    (u : Array ℂ) (h : ℕ) (hh : h < numModes D N) :
    (resid D N (kvec D N h ∘ σ) (D - 1) ≤ N / 2 →
      (rfftnM D N (permField D N σ u)).getD h 0
        = (rfftnM D N u).getD (storedIdx D N (kvec D N h ∘ σ)) 0) ∧
    (IsRealND D N u → ¬ resid D N (kvec D N h ∘ σ) (D - 1) ≤ N / 2 →
      (rfftnM D N (permField D N σ u)).getD h 0
        = (starRingEnd ℂ) ((rfftnM D N u).getD (storedIdx D N (-(kvec D N h ∘ σ))) 0)) := by
  constructor
  · intro hl
    obtain ⟨E, rfl⟩ : ∃ E, D = E + 1 := ⟨D - 1, by omega⟩
    rw [Nat.add_sub_cancel] at hl
    rw [rfftn_eq_dftV (E + 1) N hN _ h hh, dftV_permField (E + 1) N hN,
      ← fullCoef_rfftn_of_le E N hN u _ hl, fullCoef, Nat.add_sub_cancel, if_pos hl]
  · intro hu hl
    rw [rfftn_permField_stored D N hD hN σ u hu h hh, fullCoef, if_neg hl]

/-! ## `D = 2`: the transposition of `SymmetryND2` -/

theorem permIdx_two_swap (N : ℕ) (j : ℕ) (hj : j < N ^ 2) :
    permIdx 2 N (Equiv.swap 0 1) j = SymmetryND.transIdx N j := by
  have hq : j / N < N := Nat.div_lt_of_lt_mul (by rw [sq] at hj; exact hj)
  simp [permIdx, ofDigits, permDigit, SymmetryND.transIdx, digit, Nat.mod_eq_of_lt hq]

/-- for `D = 2` and the swap of the two axes, `permField` IS `SymmetryND.transpose2` -/
theorem permField_two_eq_transpose2 (N : ℕ) (u : Array ℂ) :
    permField 2 N (Equiv.swap 0 1) u = SymmetryND.transpose2 N u := by
  unfold permField SymmetryND.transpose2
  apply Nonlin.tab_congr
  intro j hj
  rw [permIdx_two_swap N j hj]

/-- **T1, `D = 2`.**  `fullCoef (rfftn uᵀ) (k₀,k₁) = fullCoef (rfftn u) (k₁,k₀)`, real `u`. -/
theorem rfftn_permField_2d (N : ℕ) (hN : 0 < N) (u : Array ℂ) (hu : IsRealND 2 N u) (k0 k1 : ℤ) :
    fullCoef 2 N (rfftnM 2 N (SymmetryND.transpose2 N u)) ![k0, k1]
      = fullCoef 2 N (rfftnM 2 N u) ![k1, k0] := by
  rw [← permField_two_eq_transpose2, rfftn_permField_fullCoef 2 N (by norm_num) hN _ u hu]
  congr 1
  funext d
  fin_cases d <;> simp

/-! ## `D = 3` written out -/

/-- the source index in three dimensions: `(j₀,j₁,j₂) ↦ (j_{σ0}, j_{σ1}, j_{σ2})` -/
theorem permIdx_three (N : ℕ) (σ : Equiv.Perm (Fin 3)) (j : ℕ) :
    permIdx 3 N σ j
      = (digit 3 N j (σ 0) * N + digit 3 N j (σ 1)) * N + digit 3 N j (σ 2) := by
  simp [permIdx, ofDigits, permDigit]

/-- **T1, `D = 3`.**  For every permutation `σ` of the three axes, every real `u` on the `N³` grid,
    every integer wavenumber triple. -/
theorem rfftn_permField_3d (N : ℕ) (hN : 0 < N) (σ : Equiv.Perm (Fin 3)) (u : Array ℂ)
    (hu : IsRealND 3 N u) (k : Fin 3 → ℤ) :
    fullCoef 3 N (rfftnM 3 N (permField 3 N σ u)) k
      = fullCoef 3 N (rfftnM 3 N u) ![k (σ 0), k (σ 1), k (σ 2)] := by
  rw [rfftn_permField_fullCoef 3 N (by norm_num) hN σ u hu]
  congr 1
  funext d
  fin_cases d <;> rfl

/-- the cyclic rotation of the three axes `(x,y,z) ↦ (y,z,x)`, written out on the wavenumbers -/
theorem rfftn_permField_3d_rotate (N : ℕ) (hN : 0 < N) (u : Array ℂ) (hu : IsRealND 3 N u)
    (k0 k1 k2 : ℤ) :
    fullCoef 3 N (rfftnM 3 N (permField 3 N (finRotate 3) u)) ![k0, k1, k2]
      = fullCoef 3 N (rfftnM 3 N u) ![k1, k2, k0] := by
  rw [rfftn_permField_3d N hN _ u hu]
  congr 1

/-! ## non-vacuity -/

example (D N : ℕ) : ∃ u : Array ℂ, IsRealND D N u :=
  ⟨tab (N ^ D) (fun _ => 1), fun j hj => by rw [DFT.tab_getD _ _ _ _ hj]; simp⟩

example : ∃ (D N h : ℕ), 0 < D ∧ 0 < N ∧ h < numModes D N := ⟨3, 4, 5, by norm_num, by norm_num, by decide⟩

/-- wavenumber vectors below Nyquist with non-negative last component exist -/
example : ∃ (D N : ℕ) (hD : 0 < D) (κ : Fin D → ℤ), 0 < N ∧ (∀ d, 2 * |κ d| < (N : ℤ)) ∧
    0 ≤ κ ⟨D - 1, by omega⟩ :=
  ⟨2, 8, by norm_num, ![-3, 2], by norm_num, fun d => by fin_cases d <;> simp, by simp⟩

/-- both cases of `rfftn_permField_stored_cases` occur (`D = 2`, `N = 4`, swap): mode `(a,l) = (1,1)`
    is mapped to a stored mode, mode `(a,l) = (3,1)` (`k = (−1, 1)`) to a conjugate partner -/
example : resid 2 4 (kvec 2 4 4 ∘ Equiv.swap 0 1) 1 ≤ 4 / 2 := by decide
example : ¬ resid 2 4 (kvec 2 4 10 ∘ Equiv.swap 0 1) 1 ≤ 4 / 2 := by decide

end Exponax.AxisPerm
