import ExponaxModel.Proofs.C2RIsometry
import ExponaxModel.Proofs.ExactLinearSemigroup
import ExponaxModel.Proofs.InterpNDSum
/-
SmallGaps, part G8 (C11 strictness and isometry on odd grids).

(1) diffusion `∇·(A∇)` with a POSITIVE-DEFINITE matrix `A` and `s ≠ 0`: `Re λ < 0` at every non-mean mode
    (`diffusion_symbol_re_neg`, `diffusion_symbol_re_neg_stored`), hence for every `dt > 0` the regenerated propagator
    is `< 1` in modulus and every non-zero coefficient of a non-constant mode strictly shrinks
    (`diffusion_mode_strictly_shrinks`).  (`C11_re_diffusion` has only `≤ 0` for PSD.)
(2) on ODD grids every stored mode on a self-conjugate column (`herm_weight = 1`) has last wavenumber `0` and its
    conjugate partner `C2R.conjIdx` carries the OPPOSITE wave vector (`wnFlat_conjIdx_odd`); so every Hermitian-symmetric
    symbol (`ExactLinear.HermSym`, in particular every `polySymbol` with real coefficients) gives Hermitian-consistent
    factors `exp_term dt λ`, and if moreover `Re λ = 0` the step is an ISOMETRY for EVERY real state
    (`linear_step_isometry_odd_of_hermSym`); instantiated for advection and both dispersion forms
    (`advection_isometry_odd`, `dispersion_isometry_odd`, `dispersion_mixed_isometry_odd`) — this is the condition of
    `C11_isometry_iff`.
-/
set_option linter.unusedVariables false
namespace Exponax.SmallGaps
open Exponax Exponax.Layout Exponax.Transform Exponax.DFT Exponax.Nonlin Exponax.Gen.Etdrk Exponax.C2R
open Exponax.Conserve Exponax.ExactLinear Exponax.Interp Finset
open scoped ComplexConjugate

/-! ### (1) strict dissipation for positive-definite diffusion -/

/-- positive-definite `A`, `s ≠ 0`: `Re λ < 0` at every mode with a non-zero wavenumber component -/
theorem diffusion_symbol_re_neg (c : Cfg ℂ) (s : ℝ) (hs : c.s = (s : ℂ)) (hs0 : s ≠ 0) (h : ℕ) (A : ℕ → ℕ → ℝ)
    (hA : ∀ x : Fin c.D → ℝ, x ≠ 0 → 0 < ∑ i : Fin c.D, ∑ j : Fin c.D, A i j * x i * x j)
    (hk : ∃ d < c.D, wnAt c d h ≠ 0) :
    (polySymbol c (quadTerms c.D fun i j => ((A i j : ℝ) : ℂ)) h).re < 0 := by
  rw [diffusion_symbol_re c s hs h A]
  have hx : (fun i : Fin c.D => (wnAt c i h : ℝ)) ≠ 0 := by
    obtain ⟨d, hd, hne⟩ := hk
    intro h0
    have := congrFun h0 ⟨d, hd⟩
    simp only [Pi.zero_apply] at this
    exact hne (by exact_mod_cast this)
  have h1 := hA (fun i => (wnAt c i h : ℝ)) hx
  have h2 : ∑ i ∈ Finset.range c.D, ∑ j ∈ Finset.range c.D,
      A i j * ((wnAt c i h : ℝ) * (wnAt c j h : ℝ))
      = ∑ i : Fin c.D, ∑ j : Fin c.D, A i j * (wnAt c i h : ℝ) * (wnAt c j h : ℝ) := by
    rw [Finset.sum_range]
    apply Finset.sum_congr rfl
    intro i _
    rw [Finset.sum_range]
    apply Finset.sum_congr rfl
    intro j _
    ring
  rw [h2]
  have : 0 < s ^ 2 := by positivity
  nlinarith [mul_pos this h1]

/-- the same at every stored mode other than the mean mode `h = 0` -/
theorem diffusion_symbol_re_neg_stored (c : Cfg ℂ) (hD : 1 ≤ c.D) (hN : 0 < c.N) (s : ℝ) (hs : c.s = (s : ℂ))
    (hs0 : s ≠ 0) (h : ℕ) (hh : h < numModes c.D c.N) (h0 : h ≠ 0) (A : ℕ → ℕ → ℝ)
    (hA : ∀ x : Fin c.D → ℝ, x ≠ 0 → 0 < ∑ i : Fin c.D, ∑ j : Fin c.D, A i j * x i * x j) :
    (polySymbol c (quadTerms c.D fun i j => ((A i j : ℝ) : ℂ)) h).re < 0 := by
  apply diffusion_symbol_re_neg c s hs hs0 h A hA
  by_contra hcon
  apply h0
  apply (wnFlat_eq_zero_iff c.D c.N h hD hN hh).mp
  intro d hd
  by_contra hne
  exact hcon ⟨d, hd, hne⟩

/-- **G8 (1).** hence, for every `dt > 0`, the regenerated propagator is `< 1` in modulus and every non-zero
    coefficient of a non-constant mode strictly shrinks in one step -/
theorem diffusion_mode_strictly_shrinks (c : Cfg ℂ) (hD : 1 ≤ c.D) (hN : 0 < c.N) (s : ℝ) (hs : c.s = (s : ℂ))
    (hs0 : s ≠ 0) (h : ℕ) (hh : h < numModes c.D c.N) (h0 : h ≠ 0) (A : ℕ → ℕ → ℝ)
    (hA : ∀ x : Fin c.D → ℝ, x ≠ 0 → 0 < ∑ i : Fin c.D, ∑ j : Fin c.D, A i j * x i * x j)
    (dt : ℝ) (hdt : 0 < dt) (u : ℂ) (hu : u ≠ 0) :
    ‖exp_term (dt : ℂ) (polySymbol c (quadTerms c.D fun i j => ((A i j : ℝ) : ℂ)) h)‖ < 1 ∧
    ‖E0step (exp_term (dt : ℂ) (polySymbol c (quadTerms c.D fun i j => ((A i j : ℝ) : ℂ)) h)) u‖ < ‖u‖ := by
  have hre := diffusion_symbol_re_neg_stored c hD hN s hs hs0 h hh h0 A hA
  have h1 := norm_exp_term_lt_one dt _ hdt hre
  refine ⟨h1, ?_⟩
  have : E0step (exp_term (dt : ℂ) (polySymbol c (quadTerms c.D fun i j => ((A i j : ℝ) : ℂ)) h)) u
      = exp_term (dt : ℂ) (polySymbol c (quadTerms c.D fun i j => ((A i j : ℝ) : ℂ)) h) * u := rfl
  rw [this, norm_mul]
  have hpos : 0 < ‖u‖ := norm_pos_iff.mpr hu
  nlinarith

/-! ### (2) odd grids: the conjugate partner carries the opposite wave vector -/

theorem fftfreq_sigA_odd (N x : ℕ) (hodd : N % 2 = 1) (hx : x < N) :
    fftfreq N (sigA N x) = -fftfreq N x := by
  rcases Nat.eq_zero_or_pos x with h0 | h0
  · subst h0; rw [sigA_zero]; simp [fftfreq]
  · rw [sigA_pos N x h0 hx]
    unfold fftfreq
    split_ifs <;> omega

theorem digit_lt (E N a d : ℕ) (hN : 0 < N) : digit E N a d < N := Nat.mod_lt _ hN

theorem digit_negIdx (N : ℕ) (hN : 0 < N) : ∀ (E b d : ℕ), d < E →
    digit E N (negIdx N E b) d = sigA N (digit E N b d)
  | 0, _, _, hd => absurd hd (Nat.not_lt_zero _)
  | E + 1, b, d, hd => by
    rcases Nat.lt_or_ge d E with hlt | hge
    · rw [digit_succ_of_lt E N _ d hlt, digit_succ_of_lt E N _ d hlt, negIdx_div N E b hN,
        digit_negIdx N hN E (b / N) d hlt]
    · have : d = E := by omega
      subst this
      rw [digit_succ_last, digit_succ_last, negIdx_mod N d b hN]

theorem range_map_getD_int (E : ℕ) (f : ℕ → ℤ) (d : ℕ) (hd : d < E) :
    ((List.range E).map f).getD d 0 = f d := by
  simp [List.getD_eq_getElem?_getD, hd]

theorem append_single_getD_lt (l : List ℤ) (x : ℤ) (d : ℕ) (hd : d < l.length) :
    (l ++ [x]).getD d 0 = l.getD d 0 := by
  simp [List.getD_eq_getElem?_getD, List.getElem?_append_left hd]

theorem append_single_getD_last (l : List ℤ) (x : ℤ) : (l ++ [x]).getD l.length 0 = x := by
  simp [List.getD_eq_getElem?_getD]

theorem kLead_length (E N a : ℕ) : (kLead E N a).length = E := by simp [kLead]

/-- **odd `N`:** a stored mode on a self-conjugate column has its conjugate partner at the OPPOSITE wave vector -/
theorem wnFlat_conjIdx_odd (D N h : ℕ) (hD : 0 < D) (hodd : N % 2 = 1) (hh : h < numModes D N)
    (hw : herm_weight D N h = 1) (d : ℕ) (hd : d < D) :
    (wnFlat D N (conjIdx D N h)).getD d 0 = -(wnFlat D N h).getD d 0 := by
  have hN : 0 < N := by omega
  obtain ⟨E, rfl⟩ : ∃ E, D = E + 1 := ⟨D - 1, by omega⟩
  have hh' : h < N ^ E * (N / 2 + 1) := by rw [numModes_succ] at hh; exact hh
  have hl : h % (N / 2 + 1) = 0 := by
    rw [herm_weight_succ E N h hh, herm_weight_one_iff] at hw
    rcases hw with h0 | ⟨hev, _⟩
    · exact h0
    · omega
  rw [wnFlat_succ_eq E N _ (conjIdx_lt' E N h hN), wnFlat_succ_eq E N h hh', conjIdx_div, conjIdx_mod,
    Nat.add_sub_cancel, hl]
  rcases Nat.lt_or_ge d E with hlt | hge
  · rw [append_single_getD_lt _ _ d (by rw [kLead_length]; exact hlt),
      append_single_getD_lt _ _ d (by rw [kLead_length]; exact hlt)]
    unfold kLead
    rw [range_map_getD_int E _ d hlt, range_map_getD_int E _ d hlt, digit_negIdx N hN E _ d hlt,
      fftfreq_sigA_odd N _ hodd (digit_lt E N _ d hN)]
  · have : d = E := by omega
    subst this
    have e1 := append_single_getD_last (kLead d N (negIdx N d (h / (N / 2 + 1)))) ((0 : ℕ) : ℤ)
    have e2 := append_single_getD_last (kLead d N (h / (N / 2 + 1))) ((0 : ℕ) : ℤ)
    rw [kLead_length] at e1 e2
    rw [e1, e2]; simp

/-- **odd `N`:** every Hermitian-symmetric symbol is Hermitian-consistent on the self-conjugate columns -/
theorem hermSym_conjIdx_odd (D N : ℕ) (hD : 0 < D) (hodd : N % 2 = 1) (Λ : ℕ → ℂ) (hΛ : HermSym D N Λ)
    (h : ℕ) (hh : h < numModes D N) (hw : herm_weight D N h = 1) :
    Λ (conjIdx D N h) = conj (Λ h) :=
  hΛ h hh (conjIdx D N h) (conjIdx_lt D N h hD (by omega))
    (fun d hd => wnFlat_conjIdx_odd D N h hD hodd hh hw d hd)

/-- … and so are the regenerated propagators `exp_term dt λ` (real `dt`): the condition of `C11_isometry_iff` -/
theorem exp_term_herm_consistent_odd (D N : ℕ) (hD : 0 < D) (hodd : N % 2 = 1) (Λ : ℕ → ℂ) (hΛ : HermSym D N Λ)
    (dt : ℝ) (h : ℕ) (hh : h < numModes D N) (hw : herm_weight D N h = 1) :
    exp_term (dt : ℂ) (Λ h) = (starRingEnd ℂ) (exp_term (dt : ℂ) (Λ (conjIdx D N h))) := by
  rw [hermSym_conjIdx_odd D N hD hodd Λ hΛ h hh hw]
  unfold exp_term
  simp only [hasExp_complex]
  rw [← Complex.exp_conj, map_mul, Complex.conj_conj, Complex.conj_ofReal]

/-- **G8 (2), general form.** odd `N`, any `D ≥ 1`: a Hermitian-symmetric symbol with `Re λ = 0` on the stored modes
    (advection, dispersion, any odd-order operator with real coefficients) gives an ISOMETRY of the grid `L²` norm for
    EVERY real state and every real `dt`, with the regenerated `E0step` / `exp_term` -/
theorem linear_step_isometry_odd_of_hermSym (D N : ℕ) (hD : 0 < D) (hodd : N % 2 = 1) (u : Array ℂ)
    (hu : ∀ j < N ^ D, (u.getD j 0).im = 0) (dt : ℝ) (Λ : ℕ → ℂ) (hΛ : HermSym D N Λ)
    (hre : ∀ h < numModes D N, (Λ h).re = 0) :
    ∑ j ∈ range (N ^ D), ((irfftnM D N (tab (numModes D N) fun h =>
        E0step (exp_term (dt : ℂ) (Λ h)) ((rfftnM D N u).getD h 0))).getD j 0).re ^ 2
      = ∑ j ∈ range (N ^ D), (u.getD j 0).re ^ 2 := by
  have hN : 0 < N := by omega
  exact linear_step_isometry_of_herm_symbol D N hD hN u hu (fun h => exp_term (dt : ℂ) (Λ h))
    (fun h hh => by rw [norm_exp_term_real, hre h hh, mul_zero, Real.exp_zero])
    (fun h hh hw => exp_term_herm_consistent_odd D N hD hodd Λ hΛ dt h hh hw)

/-! ### the documented advection / dispersion symbols -/

/-- a symbol of the form `−i·r(k)` with `r` odd in the wave vector is Hermitian symmetric -/
theorem hermSym_of_odd_imag (D N : ℕ) (Λ : ℕ → ℂ) (r : ℕ → ℝ) (hΛ : ∀ h, Λ h = -(Complex.I * ((r h : ℝ) : ℂ)))
    (hr : ∀ h < numModes D N, ∀ h' < numModes D N,
      (∀ d < D, (wnFlat D N h').getD d 0 = -(wnFlat D N h).getD d 0) → r h' = -r h) :
    HermSym D N Λ := by
  intro h hh h' hh' hk
  rw [hΛ h', hΛ h, hr h hh h' hh' hk]
  simp only [map_neg, map_mul, Complex.conj_I, Complex.conj_ofReal]
  push_cast
  ring

theorem hermSym_advection (c : Cfg ℂ) (s : ℝ) (hs : c.s = (s : ℂ)) (v : ℕ → ℝ) :
    HermSym c.D c.N (polySymbol c (pscale (-1) (gradInner c.D (fun d => ((v d : ℝ) : ℂ)) 1))) := by
  apply hermSym_of_odd_imag c.D c.N _ _ (fun h => advection_symbol c s hs h v)
  intro h _ h' _ hk
  rw [← mul_neg, ← Finset.sum_neg_distrib]
  congr 1
  apply Finset.sum_congr rfl
  intro d hd
  rw [wnAt_def, wnAt_def, hk d (Finset.mem_range.mp hd)]
  push_cast; ring

theorem hermSym_dispersion (c : Cfg ℂ) (s : ℝ) (hs : c.s = (s : ℂ)) (ξ : ℕ → ℝ) :
    HermSym c.D c.N (polySymbol c (gradInner c.D (fun d => ((ξ d : ℝ) : ℂ)) 3)) := by
  apply hermSym_of_odd_imag c.D c.N _ _ (fun h => dispersion_symbol c s hs h ξ)
  intro h _ h' _ hk
  rw [← mul_neg, ← Finset.sum_neg_distrib]
  congr 1
  apply Finset.sum_congr rfl
  intro d hd
  rw [wnAt_def, wnAt_def, hk d (Finset.mem_range.mp hd)]
  push_cast; ring

theorem hermSym_dispersion_mixed (c : Cfg ℂ) (s : ℝ) (hs : c.s = (s : ℂ)) (ξ : ℕ → ℝ) :
    HermSym c.D c.N (polySymbol c (pmul (gradInner c.D (fun d => ((ξ d : ℝ) : ℂ)) 1) (lapT c.D 1 2))) := by
  apply hermSym_of_odd_imag c.D c.N _ _ (fun h => dispersion_mixed_symbol c s hs h ξ)
  intro h _ h' _ hk
  have e1 : ∑ d ∈ Finset.range c.D, ξ d * (wnAt c d h' : ℝ) = -∑ d ∈ Finset.range c.D, ξ d * (wnAt c d h : ℝ) := by
    rw [← Finset.sum_neg_distrib]
    apply Finset.sum_congr rfl
    intro d hd
    rw [wnAt_def, wnAt_def, hk d (Finset.mem_range.mp hd)]
    push_cast; ring
  have e2 : ∑ d ∈ Finset.range c.D, (wnAt c d h' : ℝ) ^ 2 = ∑ d ∈ Finset.range c.D, (wnAt c d h : ℝ) ^ 2 := by
    apply Finset.sum_congr rfl
    intro d hd
    rw [wnAt_def, wnAt_def, hk d (Finset.mem_range.mp hd)]
    push_cast; ring
  rw [e1, e2]; ring

/-- **G8 (2), advection `−v·∇`:** isometry for every real state on odd grids, every `D ≥ 1`, every real `dt` -/
theorem advection_isometry_odd (c : Cfg ℂ) (hD : 0 < c.D) (hodd : c.N % 2 = 1) (s : ℝ) (hs : c.s = (s : ℂ))
    (v : ℕ → ℝ) (u : Array ℂ) (hu : ∀ j < c.N ^ c.D, (u.getD j 0).im = 0) (dt : ℝ) :
    ∑ j ∈ range (c.N ^ c.D), ((irfftnM c.D c.N (tab (numModes c.D c.N) fun h =>
        E0step (exp_term (dt : ℂ) (polySymbol c (pscale (-1) (gradInner c.D (fun d => ((v d : ℝ) : ℂ)) 1)) h))
          ((rfftnM c.D c.N u).getD h 0))).getD j 0).re ^ 2
      = ∑ j ∈ range (c.N ^ c.D), (u.getD j 0).re ^ 2 :=
  linear_step_isometry_odd_of_hermSym c.D c.N hD hodd u hu dt _ (hermSym_advection c s hs v)
    (fun h _ => advection_symbol_re c s hs h v)

/-- **G8 (2), dispersion `ξ·∇³`** -/
theorem dispersion_isometry_odd (c : Cfg ℂ) (hD : 0 < c.D) (hodd : c.N % 2 = 1) (s : ℝ) (hs : c.s = (s : ℂ))
    (ξ : ℕ → ℝ) (u : Array ℂ) (hu : ∀ j < c.N ^ c.D, (u.getD j 0).im = 0) (dt : ℝ) :
    ∑ j ∈ range (c.N ^ c.D), ((irfftnM c.D c.N (tab (numModes c.D c.N) fun h =>
        E0step (exp_term (dt : ℂ) (polySymbol c (gradInner c.D (fun d => ((ξ d : ℝ) : ℂ)) 3) h))
          ((rfftnM c.D c.N u).getD h 0))).getD j 0).re ^ 2
      = ∑ j ∈ range (c.N ^ c.D), (u.getD j 0).re ^ 2 :=
  linear_step_isometry_odd_of_hermSym c.D c.N hD hodd u hu dt _ (hermSym_dispersion c s hs ξ)
    (fun h _ => dispersion_symbol_re c s hs h ξ)

/-- **G8 (2), dispersion, mixed form `(ξ·∇)(∇·∇)`** -/
theorem dispersion_mixed_isometry_odd (c : Cfg ℂ) (hD : 0 < c.D) (hodd : c.N % 2 = 1) (s : ℝ) (hs : c.s = (s : ℂ))
    (ξ : ℕ → ℝ) (u : Array ℂ) (hu : ∀ j < c.N ^ c.D, (u.getD j 0).im = 0) (dt : ℝ) :
    ∑ j ∈ range (c.N ^ c.D), ((irfftnM c.D c.N (tab (numModes c.D c.N) fun h =>
        E0step (exp_term (dt : ℂ)
          (polySymbol c (pmul (gradInner c.D (fun d => ((ξ d : ℝ) : ℂ)) 1) (lapT c.D 1 2)) h))
          ((rfftnM c.D c.N u).getD h 0))).getD j 0).re ^ 2
      = ∑ j ∈ range (c.N ^ c.D), (u.getD j 0).re ^ 2 :=
  linear_step_isometry_odd_of_hermSym c.D c.N hD hodd u hu dt _ (hermSym_dispersion_mixed c s hs ξ)
    (fun h _ => dispersion_mixed_symbol_re c s hs h ξ)

/-! ### non-vacuity -/

/-- a positive-definite matrix (the identity, `D = 2`) -/
example : ∀ x : Fin 2 → ℝ, x ≠ 0 →
    0 < ∑ i : Fin 2, ∑ j : Fin 2, (if (i : ℕ) = (j : ℕ) then (1 : ℝ) else 0) * x i * x j := by
  intro x hx
  simp only [Fin.sum_univ_two, Fin.isValue]
  have : x 0 ≠ 0 ∨ x 1 ≠ 0 := by
    by_contra hcon
    rw [not_or, not_not, not_not] at hcon
    apply hx
    funext i
    fin_cases i
    · exact hcon.1
    · exact hcon.2
  simp
  rcases this with h0 | h1
  · nlinarith [sq_nonneg (x 1), sq_pos_of_ne_zero h0]
  · nlinarith [sq_nonneg (x 0), sq_pos_of_ne_zero h1]

/-- a configuration on an odd grid, a non-mean stored mode, a self-conjugate-column mode with a non-trivial partner -/
example : ∃ c : Cfg ℂ, ∃ s : ℝ, c.s = (s : ℂ) ∧ s ≠ 0 ∧ 0 < c.D ∧ c.N % 2 = 1 ∧ (1 : ℕ) < numModes c.D c.N ∧
    herm_weight c.D c.N 3 = 1 ∧ conjIdx c.D c.N 3 = 12 :=
  ⟨{ D := 2, N := 5, s := ((1 : ℝ) : ℂ), fp := 2, fq := 3 }, 1, rfl, one_ne_zero, by decide, by decide,
    by decide, by decide, by decide⟩

end Exponax.SmallGaps
