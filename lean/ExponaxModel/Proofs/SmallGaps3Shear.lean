import ExponaxModel.Proofs.SmallGaps3ShearBasic
import ExponaxModel.Proofs.Laminar3DTerm
import ExponaxModel.Proofs.ConserveMean
/-
SmallGaps3, part K3 (C12, 3-D): the rotational term `projected3d c none` vanishes IDENTICALLY (every channel, every stored
mode) on the spectrum `û = (rfftn F, 0, 0)` of EVERY real shear velocity `(f(x₁), 0, 0)` — `F_x = f(x₁)` any real grid
function of the coordinate of axis 1 (the axis of the model's 3-D Kolmogorov injection `k = (0, ±m, 0)`, channel 0).
This is the full statement left open by `Laminar3D.projected3d_shear_none_partial` (two-mode spectra only).

No proviso on `N` (even grids with Nyquist content included) nor on the mask (with or without dealiasing); `s` real, `≠ 0`.
On the grid `u × ω = (0, −u₀ ω₂, 0)` is a function of `x₁` only in channel 1, i.e. a gradient `∂₁(·) e₁` up to its mean, removed
by the Leray projection at every `k ≠ 0`; its mean `−Σ u₀ ω₂ = Σ u₀ ∂₁u₀` vanishes because `û₀` is the spectrum of a REAL field
(`sum_real_imag_mul_zero`; for a general complex line spectrum it does not — see the remark in `Laminar3DTerm.lean`).

  * `projected3d_shear_real`        the entries,
  * `projected3d_shear_real_inj`    with the Kolmogorov injection the output is exactly the injection term,
  * `shearSpec_of_profile`          the hypotheses hold for `û = #[rfftn F, #[], #[]]`, `F_x = f(digit₁ x)`, any `f : ℕ → ℝ`.
-/
set_option linter.unusedVariables false
namespace Exponax.SmallGaps3
open Exponax Exponax.Layout Exponax.Transform Exponax.DFT Exponax.Alias Exponax.AliasND Finset
open Exponax.Nonlin (Cfg MC at2 tab2 tabC modes gridSize mask nfft nifft projected3d leray kInt deriv proj3)
open Exponax.Laminar3D (proj3_cross_zero proj3_cross_one proj3_cross_two leray_kills)

/-- `û = (rfftn F, 0, 0)` with `F` a real grid field depending on the coordinate of axis 1 only -/
structure ShearSpec (c : Cfg ℂ) (uh : MC ℂ) (F : Array ℂ) : Prop where
  real : IsRealND c.D c.N F
  axis : AxisOnly c.D c.N 1 F
  ch0 : ∀ h, h < modes c → at2 uh 0 h = (rfftnM c.D c.N F).getD h 0
  ch12 : ∀ h, h < modes c → at2 uh 1 h = 0 ∧ at2 uh 2 h = 0

theorem mask_im (c : Cfg ℂ) (h : ℕ) : (mask c h).im = 0 := by
  rcases Conserve.mask_zero_or_one c h with h1 | h0
  · rw [h1]; simp
  · rw [h0]; simp

theorem deriv_re (c : Cfg ℂ) (s : ℝ) (hs : c.s = (s : ℂ)) (d h : ℕ) : (deriv c d h).re = 0 := by
  rw [Nonlin.deriv_eq_real c s hs d h, Complex.I_mul_re, Complex.ofReal_im, neg_zero]

/-- **K3.** the 3-D rotational term of every real shear profile vanishes: every channel, every stored mode, every `N`,
    any mask -/
theorem projected3d_shear_real (c : Cfg ℂ) (hD : c.D = 3) (hN : 0 < c.N) (s : ℝ) (hs : c.s = (s : ℂ)) (hs0 : s ≠ 0)
    (uh : MC ℂ) (F : Array ℂ) (hS : ShearSpec c uh F) (i h : ℕ) (hi : i < 3) (hh : h < modes c) :
    at2 (projected3d c none uh) i h = 0 := by
  have h3 : (0 : ℕ) < 3 := by norm_num
  have h13 : (1 : ℕ) < 3 := by norm_num
  have h23 : (2 : ℕ) < 3 := by norm_num
  have hD0 : 0 < c.D := by omega
  -- the velocity spectrum lives on the line `k₀ = k₂ = 0`
  have line : ∀ h', h' < modes c → at2 uh 0 h' ≠ 0 → ∀ d, d < c.D → d ≠ 1 → (wnFlat c.D c.N h').getD d 0 = 0 := by
    intro h' hh' hne d hd hd1
    rw [hS.ch0 h' hh'] at hne
    exact rfftn_axisOnly_support c.D c.N hD0 hN 1 (by omega) F hS.axis h' hh' hne d hd hd1
  have u1 : ∀ h', h' < modes c → at2 uh 1 h' = 0 := fun h' hh' => (hS.ch12 h' hh').1
  have u2 : ∀ h', h' < modes c → at2 uh 2 h' = 0 := fun h' hh' => (hS.ch12 h' hh').2
  -- grid fields
  have vel_zero : ∀ k, k = 1 ∨ k = 2 → ∀ x, (nifft c (uh.getD k #[])).getD x 0 = 0 := by
    intro k hk x
    apply ReadOff.nifft_zero c hN
    intro h' hh'
    rcases hk with rfl | rfl
    · exact u1 h' hh'
    · exact u2 h' hh'
  have hvel : ∀ k, k < 3 → ∀ j, at2 (tabC 3 (fun i => nifft c (uh.getD i #[]))) k j
      = (nifft c (uh.getD k #[])).getD j 0 := fun k hk j => Nonlin.at2_tabC _ _ _ _ hk
  have hcurl : ∀ k, k < 3 → ∀ j, at2 (tabC 3 (fun i => nifft c ((tab2 3 (modes c) (fun i h =>
      proj3 (Gen.Misc.cross_product_3d (deriv c 0 h, deriv c 1 h, deriv c 2 h)
        (at2 uh 0 h, at2 uh 1 h, at2 uh 2 h)) i)).getD i #[]))) k j
      = (nifft c (tab (modes c) (fun h => proj3 (Gen.Misc.cross_product_3d (deriv c 0 h, deriv c 1 h, deriv c 2 h)
        (at2 uh 0 h, at2 uh 1 h, at2 uh 2 h)) k))).getD j 0 := by
    intro k hk j
    rw [Nonlin.at2_tabC _ _ _ _ hk, Laminar3D.tab2_getD _ _ _ _ hk]
  -- the spectral curl
  have curl1 : ∀ h', h' < modes c → proj3 (Gen.Misc.cross_product_3d (deriv c 0 h', deriv c 1 h', deriv c 2 h')
      (at2 uh 0 h', at2 uh 1 h', at2 uh 2 h')) 1 = 0 := by
    intro h' hh'
    rw [proj3_cross_one]
    simp only []
    rw [u2 h' hh', mul_zero, sub_zero]
    by_cases h0 : at2 uh 0 h' = 0
    · rw [h0, mul_zero]
    · have k2 : kInt c 2 h' = 0 := line h' hh' h0 2 (by omega) (by norm_num)
      rw [Nonlin.deriv_eq_zero_of_k c 2 h' k2, zero_mul]
  have curl2 : ∀ h', h' < modes c → proj3 (Gen.Misc.cross_product_3d (deriv c 0 h', deriv c 1 h', deriv c 2 h')
      (at2 uh 0 h', at2 uh 1 h', at2 uh 2 h')) 2 = -(deriv c 1 h') * (rfftnM c.D c.N F).getD h' 0 := by
    intro h' hh'
    rw [proj3_cross_two]
    simp only []
    rw [u1 h' hh', hS.ch0 h' hh']
    ring
  have hcurl1 : ∀ j, (nifft c (tab (modes c) (fun h => proj3 (Gen.Misc.cross_product_3d
      (deriv c 0 h, deriv c 1 h, deriv c 2 h) (at2 uh 0 h, at2 uh 1 h, at2 uh 2 h)) 1))).getD j 0 = 0 :=
    fun j => ReadOff.nifft_zero c hN _ (fun h'' hh'' => by
      rw [Nonlin.tab_getD _ _ _ _ hh'']; exact curl1 h'' hh'') j
  -- the two surviving fields in multiplier form
  set V0 := nifft c (tab (modes c) fun h => (1 : ℂ) * (rfftnM c.D c.N F).getD h 0) with hV0
  set C2 := nifft c (tab (modes c) fun h => -(deriv c 1 h) * (rfftnM c.D c.N F).getD h 0) with hC2
  have eV0 : nifft c (uh.getD 0 #[]) = V0 :=
    Conserve.nifft_congr c _ _ (fun m hm => by
      rw [Nonlin.tab_getD _ _ _ _ hm, one_mul]; exact hS.ch0 m hm)
  have eC2 : nifft c (tab (modes c) (fun h => proj3 (Gen.Misc.cross_product_3d
      (deriv c 0 h, deriv c 1 h, deriv c 2 h) (at2 uh 0 h, at2 uh 1 h, at2 uh 2 h)) 2)) = C2 :=
    Conserve.nifft_congr c _ _ (fun m hm => by
      rw [Nonlin.tab_getD _ _ _ _ hm, Nonlin.tab_getD _ _ _ _ hm, curl2 m hm])
  have axV0 : AxisOnly c.D c.N 1 V0 := by
    apply nifft_axisOnly c hN 1
    intro h' hh' hne d hd hd1
    rw [Nonlin.tab_getD _ _ _ _ hh', one_mul, ← hS.ch0 h' hh'] at hne
    exact line h' hh' hne d hd hd1
  have axC2 : AxisOnly c.D c.N 1 C2 := by
    apply nifft_axisOnly c hN 1
    intro h' hh' hne d hd hd1
    rw [Nonlin.tab_getD _ _ _ _ hh'] at hne
    have : at2 uh 0 h' ≠ 0 := by
      rw [hS.ch0 h' hh']
      exact fun h0 => hne (by rw [h0, mul_zero])
    exact line h' hh' this d hd hd1
  -- mean of the product: `Σ u₀ ω₂ = 0`
  have hmean : ∑ x ∈ range (c.N ^ c.D), V0.getD x 0 * C2.getD x 0 = 0 :=
    sum_real_imag_mul_zero c hN F hS.real (fun _ => 1) (fun h => -(deriv c 1 h))
      (fun h => by rw [mul_one]; exact mask_im c h)
      (fun h => by rw [Complex.mul_re, mask_im c h, Complex.neg_re, deriv_re c s hs, neg_zero, mul_zero, zero_mul,
        sub_zero])
  unfold projected3d
  simp only []
  rw [Nonlin.at2_tab2 _ _ _ _ _ hi hh]
  apply leray_kills c hD s hs hs0 _ ?_ ?_ i h hi hh
  · -- channels 0 and 2 of the transformed product vanish
    intro h' hh'
    constructor
    · rw [Nonlin.at2_tabC _ _ _ _ h3]
      apply ReadOff.nfft_zero c hN
      intro j hj
      have hj' : j < gridSize c := hj
      rw [Laminar3D.tab2_getD _ _ _ _ h3, Nonlin.tab_getD _ _ _ _ hj', proj3_cross_zero]
      simp only []
      rw [hvel 1 h13, hvel 2 h23, vel_zero 1 (Or.inl rfl) j, vel_zero 2 (Or.inr rfl) j]
      ring
    · rw [Nonlin.at2_tabC _ _ _ _ h23]
      apply ReadOff.nfft_zero c hN
      intro j hj
      have hj' : j < gridSize c := hj
      rw [Laminar3D.tab2_getD _ _ _ _ h23, Nonlin.tab_getD _ _ _ _ hj', proj3_cross_two]
      simp only []
      rw [hvel 1 h13, vel_zero 1 (Or.inl rfl) j, hcurl 1 h13, hcurl1 j]
      ring
  · -- channel 1: a function of `x₁` with zero mean
    intro h' hh' hne
    rw [Nonlin.at2_tabC _ _ _ _ h13, Laminar3D.tab2_getD _ _ _ _ h13] at hne
    -- entries of the channel-1 grid array
    have hentry : ∀ x, x < gridSize c → (tab (gridSize c) fun x =>
        proj3 (Gen.Misc.cross_product_3d
          (at2 (tabC 3 fun i => nifft c (uh.getD i #[])) 0 x, at2 (tabC 3 fun i => nifft c (uh.getD i #[])) 1 x,
            at2 (tabC 3 fun i => nifft c (uh.getD i #[])) 2 x)
          (at2 (tabC 3 fun i => nifft c ((tab2 3 (modes c) fun i h =>
              proj3 (Gen.Misc.cross_product_3d (deriv c 0 h, deriv c 1 h, deriv c 2 h)
                (at2 uh 0 h, at2 uh 1 h, at2 uh 2 h)) i).getD i #[])) 0 x,
            at2 (tabC 3 fun i => nifft c ((tab2 3 (modes c) fun i h =>
              proj3 (Gen.Misc.cross_product_3d (deriv c 0 h, deriv c 1 h, deriv c 2 h)
                (at2 uh 0 h, at2 uh 1 h, at2 uh 2 h)) i).getD i #[])) 1 x,
            at2 (tabC 3 fun i => nifft c ((tab2 3 (modes c) fun i h =>
              proj3 (Gen.Misc.cross_product_3d (deriv c 0 h, deriv c 1 h, deriv c 2 h)
                (at2 uh 0 h, at2 uh 1 h, at2 uh 2 h)) i).getD i #[])) 2 x)) 1).getD x 0
        = -(V0.getD x 0 * C2.getD x 0) := by
      intro x hx
      rw [Nonlin.tab_getD _ _ _ _ hx, proj3_cross_one]
      simp only []
      rw [hvel 2 h23, vel_zero 2 (Or.inr rfl) x, hvel 0 h3, hcurl 2 h23, eV0, eC2]
      ring
    generalize hQ : (tab (gridSize c) fun x =>
        proj3 (Gen.Misc.cross_product_3d
          (at2 (tabC 3 fun i => nifft c (uh.getD i #[])) 0 x, at2 (tabC 3 fun i => nifft c (uh.getD i #[])) 1 x,
            at2 (tabC 3 fun i => nifft c (uh.getD i #[])) 2 x)
          (at2 (tabC 3 fun i => nifft c ((tab2 3 (modes c) fun i h =>
              proj3 (Gen.Misc.cross_product_3d (deriv c 0 h, deriv c 1 h, deriv c 2 h)
                (at2 uh 0 h, at2 uh 1 h, at2 uh 2 h)) i).getD i #[])) 0 x,
            at2 (tabC 3 fun i => nifft c ((tab2 3 (modes c) fun i h =>
              proj3 (Gen.Misc.cross_product_3d (deriv c 0 h, deriv c 1 h, deriv c 2 h)
                (at2 uh 0 h, at2 uh 1 h, at2 uh 2 h)) i).getD i #[])) 1 x,
            at2 (tabC 3 fun i => nifft c ((tab2 3 (modes c) fun i h =>
              proj3 (Gen.Misc.cross_product_3d (deriv c 0 h, deriv c 1 h, deriv c 2 h)
                (at2 uh 0 h, at2 uh 1 h, at2 uh 2 h)) i).getD i #[])) 2 x)) 1) = Q at hentry hne
    have axQ : AxisOnly c.D c.N 1 Q := by
      intro x x' hx hx' hdig
      rw [hentry x hx, hentry x' hx', axV0 x x' hx hx' hdig, axC2 x x' hx hx' hdig]
    rw [Alias.nfft_getD c Q h' hh'] at hne
    have hX : (rfftnM c.D c.N Q).getD h' 0 ≠ 0 := fun h0 => hne (by rw [h0, mul_zero])
    have k0 : kInt c 0 h' = 0 := rfftn_axisOnly_support c.D c.N hD0 hN 1 (by omega) Q axQ h' hh' hX 0 (by omega) (by norm_num)
    have k2 : kInt c 2 h' = 0 := rfftn_axisOnly_support c.D c.N hD0 hN 1 (by omega) Q axQ h' hh' hX 2 (by omega) (by norm_num)
    refine ⟨k0, k2, ?_⟩
    intro k1
    have hz : h' = 0 := by
      apply (wnFlat_eq_zero_iff c.D c.N h' (by omega) hN hh').mp
      intro d hd
      have : d = 0 ∨ d = 1 ∨ d = 2 := by omega
      rcases this with rfl | rfl | rfl
      · exact k0
      · exact k1
      · exact k2
    apply hX
    rw [hz, Conserve.rfftnM_zero_mode c.D c.N hN Q]
    have : ∑ j ∈ range (c.N ^ c.D), Q.getD j 0 = -∑ x ∈ range (c.N ^ c.D), V0.getD x 0 * C2.getD x 0 := by
      rw [← Finset.sum_neg_distrib]
      exact Finset.sum_congr rfl (fun x hx => hentry x (Finset.mem_range.mp hx))
    rw [this, hmean, neg_zero]

/-- **K3, with injection.**  On the spectrum of a real shear profile the forced term is exactly the injection term -/
theorem projected3d_shear_real_inj (c : Cfg ℂ) (hD : c.D = 3) (hN : 0 < c.N) (s : ℝ) (hs : c.s = (s : ℂ)) (hs0 : s ≠ 0)
    (uh : MC ℂ) (F : Array ℂ) (hS : ShearSpec c uh F) (m' : ℕ) (gam : ℂ) (i h : ℕ) (hi : i < 3) (hh : h < modes c) :
    at2 (projected3d c (some (m', gam)) uh) i h
      = if i = 0 ∧ kInt c 0 h = 0 ∧ kInt c 2 h = 0 ∧ kInt c 1 h = (m' : ℤ)
        then -Complex.I * gam * scaling c.D c.N 2 (unflatten (wavenumberShape c.D c.N) h)
        else if i = 0 ∧ kInt c 0 h = 0 ∧ kInt c 2 h = 0 ∧ kInt c 1 h = -(m' : ℤ)
        then Complex.I * gam * scaling c.D c.N 2 (unflatten (wavenumberShape c.D c.N) h)
        else 0 := by
  have := Nonlin.projected3d_injection_documented c m' gam uh i h hi hh
  rw [projected3d_shear_real c hD hN s hs hs0 uh F hS i h hi hh, sub_zero] at this
  exact this

/-- the whole output array is the zero spectrum -/
theorem projected3d_shear_real_all (c : Cfg ℂ) (hD : c.D = 3) (hN : 0 < c.N) (s : ℝ) (hs : c.s = (s : ℂ)) (hs0 : s ≠ 0)
    (uh : MC ℂ) (F : Array ℂ) (hS : ShearSpec c uh F) (i h : ℕ) : at2 (projected3d c none uh) i h = 0 := by
  by_cases hc : i < 3 ∧ h < modes c
  · exact projected3d_shear_real c hD hN s hs hs0 uh F hS i h hc.1 hc.2
  · unfold projected3d
    simp only []
    rw [Alias.at2_tab2_any, if_neg hc]

/-! ### the hypotheses are met by every real profile -/

/-- the grid field `F_x = f(x₁)` -/
noncomputable def profileField (c : Cfg ℂ) (f : ℕ → ℝ) : Array ℂ :=
  tab (c.N ^ c.D) fun x => ((f (digit c.D c.N x 1) : ℝ) : ℂ)

theorem shearSpec_of_profile (c : Cfg ℂ) (f : ℕ → ℝ) :
    ShearSpec c (#[rfftnM c.D c.N (profileField c f), #[], #[]] : MC ℂ) (profileField c f) where
  real := fun j hj => by
    unfold profileField
    rw [DFT.tab_getD _ _ _ _ hj, Complex.ofReal_im]
  axis := fun x x' hx hx' hdig => by
    unfold profileField
    rw [DFT.tab_getD _ _ _ _ hx, DFT.tab_getD _ _ _ _ hx', hdig]
  ch0 := fun h _ => rfl
  ch12 := fun h _ => ⟨by simp [at2], by simp [at2]⟩

/-- **K3, as requested**: `û = (rfftn(f(x₁)), 0, 0)`, ANY real `f`, any `N`, any mask ⇒ the 3-D rotational term is `0` -/
theorem projected3d_shear_profile (c : Cfg ℂ) (hD : c.D = 3) (hN : 0 < c.N) (s : ℝ) (hs : c.s = (s : ℂ)) (hs0 : s ≠ 0)
    (f : ℕ → ℝ) (i h : ℕ) :
    at2 (projected3d c none (#[rfftnM c.D c.N (profileField c f), #[], #[]] : MC ℂ)) i h = 0 :=
  projected3d_shear_real_all c hD hN s hs hs0 _ _ (shearSpec_of_profile c f) i h

/-! non-vacuity: an EVEN grid without dealiasing mask (`fq = 0`: the Nyquist entry of `f` is kept), `N = 4`, and the
profile `f = (1, −2, 3, 5)` which has Nyquist content (`Σ (−1)^j f_j = 1 + 2 + 3 − 5 ≠ 0`) -/
example : ∃ (c : Cfg ℂ) (s : ℝ) (f : ℕ → ℝ), c.D = 3 ∧ 0 < c.N ∧ c.N % 2 = 0 ∧ c.fq = 0 ∧ c.s = (s : ℂ) ∧ s ≠ 0 ∧
    f 0 - f 1 + f 2 - f 3 ≠ 0 :=
  ⟨⟨3, 4, ((1 : ℝ) : ℂ), 0, 0⟩, 1, fun j => if j = 0 then 1 else if j = 1 then -2 else if j = 2 then 3 else 5,
    rfl, by decide, rfl, rfl, rfl, one_ne_zero, by norm_num⟩

end Exponax.SmallGaps3
