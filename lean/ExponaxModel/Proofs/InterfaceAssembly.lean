import ExponaxModel.Proofs.InterfaceScaling
import ExponaxModel.Proofs.InterfaceEtdrk
import ExponaxModel.Proofs.EquivarianceNDSteps
import ExponaxModel.Properties.C13_wiring
/-
C13 — "general, normalized and difficulty interfaces describe the same dynamics: only the non-dimensional groups
matter" — the ASSEMBLY of the pieces into step equalities.

Part 1 (T2 on the MODEL terms).  For every order `p`, whole stored multi-channel spectra (`Spec = ℕ → ℕ → ℂ`), the
ETDRK-`p` step of the physical stepper `(L = ℓ, dt, a, b)`

    etdrkStep p dt (polySymbol (cfgOf D N ℓ df) (generalLinear D a)) M r (liftTermND … (T (cfgOf D N ℓ df) b))

EQUALS the step of the normalised stepper `(L = 1, dt = 1, α = normalize_coefficients a ℓ dt, β = normalize_*_scale b ℓ dt)`
for `T` = convection (all four flag combinations), gradient norm, polynomial, general nonlinear, zero (linear stepper):
`convection_step_normalized`, `gradientNorm_step_normalized`, `polynomial_step_normalized`, `general_step_normalized`,
`linear_step_normalized`.

Part 2 (T2/T3 on the REGENERATED wiring).  `baseStep` mirrors `BaseStepper.__init__` + `step_fourier`: derivative
operator of `(D, L, N)`, the class's regenerated `_build_linear_operator` and regenerated
`__init__ → _build_nonlinear_fun` wiring, the regenerated ETDRK coefficients and stage formulas of the requested order.
`X_step g` is `baseStep` on the class `X`'s regenerated pieces; `Normalized…_step n`, `Difficulty…_step d` are the
parent's step on the regenerated `super().__init__` arguments (inheritance: `C13_generated_inheritance`).  For each of the
five families:

 * `General…_step_model`            the assembled step in terms of the model symbols / terms
 * `General…_step_eq_normalized`    physical stepper = normalised stepper on `(α, β)`         (`domain_extent` real)
 * `Difficulty…_super_args_to_difficulty`  the difficulty stepper built from `(γ, δ) = reduce_*(α, β)` hands its parent
                                    EXACTLY `(α, β)` and every option (`D, N, M ≠ 0`)
 * `General…_step_eq_difficulty`    physical stepper = difficulty stepper on `(γ, δ)`
 * `General…_step_only_groups`      two physical configurations with the same `(α, β)` (and the same discretisation
                                    and options) have the same step.
-/
set_option linter.unusedVariables false
namespace Exponax.Interface
open Exponax Exponax.Layout Exponax.Transform Exponax.Nonlin Exponax.Gen.Convert Exponax.Gen.Etdrk
open Exponax.Gen.StepperWiring Exponax.Gen.Steppers Exponax.StepperWiringEq
open Exponax.EquivND (liftTermND)

/-! ## lifting a scaled term -/

/-- if `dt · T_L = T_1` at every channel and index, the same holds for the terms read as maps on `Spec` -/
theorem liftTermND_scale (cL c1 : Cfg ℂ) (hm : modes cL = modes c1) (C : ℕ) (TL T1 : MC ℂ → MC ℂ) (dt : ℂ)
    (hT : ∀ uh ch h, dt * at2 (TL uh) ch h = at2 (T1 uh) ch h) (v : Spec) (ch h : ℕ) :
    dt * liftTermND cL C TL v ch h = liftTermND c1 C T1 v ch h := by
  unfold liftTermND
  rw [hm]
  split_ifs
  · exact hT _ ch h
  · rw [mul_zero]

/-! ## Part 1 — T2 on the model terms, whole spectra, every order -/

/-- **T2, convection** (single/multi channel, conservative or not). -/
theorem convection_step_normalized (p D N : ℕ) (df : ℕ × ℕ) (ℓ : ℝ) (dt : ℂ) (a : List ℂ) (b : ℂ) (C : ℕ)
    (single conservative : Bool) (M : ℕ) (r : ℂ) (u : Spec) :
    etdrkStep p dt (fun _ h => polySymbol (cfgOf D N (ℓ : ℂ) df) (generalLinear D a) h) M r
        (liftTermND (cfgOf D N (ℓ : ℂ) df) C (convection (cfgOf D N (ℓ : ℂ) df) C b single conservative)) u
      = etdrkStep p 1
        (fun _ h => polySymbol (cfgOf D N 1 df) (generalLinear D (normalize_coefficients a (ℓ : ℂ) dt)) h) M r
        (liftTermND (cfgOf D N 1 df) C
          (convection (cfgOf D N 1 df) C (normalize_convection_scale b (ℓ : ℂ) dt) single conservative)) u :=
  etdrkStep_normalize p dt _ _ M r _ _ (fun _ h => polySymbol_generalLinear_cfgOf D N ℓ dt df a h)
    (liftTermND_scale _ _ rfl C _ _ dt (convection_scaling_cfgOf D N df ℓ dt b C single conservative)) u

/-- **T2, gradient norm** (with or without the mean fix). -/
theorem gradientNorm_step_normalized (p D N : ℕ) (df : ℕ × ℕ) (ℓ : ℝ) (dt : ℂ) (a : List ℂ) (b : ℂ) (C : ℕ)
    (zeroFix : Bool) (M : ℕ) (r : ℂ) (u : Spec) :
    etdrkStep p dt (fun _ h => polySymbol (cfgOf D N (ℓ : ℂ) df) (generalLinear D a) h) M r
        (liftTermND (cfgOf D N (ℓ : ℂ) df) C (gradientNorm (cfgOf D N (ℓ : ℂ) df) C b zeroFix)) u
      = etdrkStep p 1
        (fun _ h => polySymbol (cfgOf D N 1 df) (generalLinear D (normalize_coefficients a (ℓ : ℂ) dt)) h) M r
        (liftTermND (cfgOf D N 1 df) C
          (gradientNorm (cfgOf D N 1 df) C (normalize_gradient_norm_scale b (ℓ : ℂ) dt) zeroFix)) u :=
  etdrkStep_normalize p dt _ _ M r _ _ (fun _ h => polySymbol_generalLinear_cfgOf D N ℓ dt df a h)
    (liftTermND_scale _ _ rfl C _ _ dt (gradientNorm_scaling_cfgOf D N df ℓ dt b C zeroFix)) u

/-- **T2, polynomial** (every complex `L`). -/
theorem polynomial_step_normalized (p D N : ℕ) (df : ℕ × ℕ) (L dt : ℂ) (a : List ℂ) (coeffs : List ℂ) (C : ℕ)
    (M : ℕ) (r : ℂ) (u : Spec) :
    etdrkStep p dt (fun _ h => polySymbol (cfgOf D N L df) (generalLinear D a) h) M r
        (liftTermND (cfgOf D N L df) C (polynomial (cfgOf D N L df) C coeffs)) u
      = etdrkStep p 1 (fun _ h => polySymbol (cfgOf D N 1 df) (generalLinear D (normalize_coefficients a L dt)) h) M r
        (liftTermND (cfgOf D N 1 df) C
          (polynomial (cfgOf D N 1 df) C (normalize_polynomial_scales coeffs L dt))) u :=
  etdrkStep_normalize p dt _ _ M r _ _ (fun _ h => polySymbol_generalLinear_cfgOf D N L dt df a h)
    (liftTermND_scale _ _ rfl C _ _ dt (polynomial_scaling_cfgOf D N df L dt C coeffs)) u

/-- **T2, general nonlinear term** (quadratic + single-channel conservative convection + gradient norm). -/
theorem general_step_normalized (p D N : ℕ) (df : ℕ × ℕ) (ℓ : ℝ) (dt : ℂ) (a : List ℂ) (b0 b1 b2 : ℂ) (C : ℕ)
    (zeroFix : Bool) (M : ℕ) (r : ℂ) (u : Spec) :
    etdrkStep p dt (fun _ h => polySymbol (cfgOf D N (ℓ : ℂ) df) (generalLinear D a) h) M r
        (liftTermND (cfgOf D N (ℓ : ℂ) df) C (general (cfgOf D N (ℓ : ℂ) df) C b0 b1 b2 zeroFix)) u
      = etdrkStep p 1
        (fun _ h => polySymbol (cfgOf D N 1 df) (generalLinear D (normalize_coefficients a (ℓ : ℂ) dt)) h) M r
        (liftTermND (cfgOf D N 1 df) C
          (general (cfgOf D N 1 df) C (b0 * dt) (normalize_convection_scale b1 (ℓ : ℂ) dt)
            (normalize_gradient_norm_scale b2 (ℓ : ℂ) dt) zeroFix)) u :=
  etdrkStep_normalize p dt _ _ M r _ _ (fun _ h => polySymbol_generalLinear_cfgOf D N ℓ dt df a h)
    (liftTermND_scale _ _ rfl C _ _ dt (general_scaling_cfgOf D N df ℓ dt b0 b1 b2 C zeroFix)) u

/-- the zero nonlinear function of two configurations with the same number of stored modes -/
theorem zeroNonlin_scaling (cL c1 : Cfg ℂ) (hm : modes cL = modes c1) (C : ℕ) (dt : ℂ) (uh : MC ℂ) (ch h : ℕ) :
    dt * at2 ((fun _ : MC ℂ => zeroNonlin cL C) uh) ch h = at2 ((fun _ : MC ℂ => zeroNonlin c1 C) uh) ch h := by
  simp only [zeroNonlin, hm, Exponax.Alias.at2_tab2_any]
  split_ifs <;> rw [mul_zero]

/-- **T2, linear stepper** (zero nonlinear term; every complex `L`, every order). -/
theorem linear_step_normalized (p D N : ℕ) (df : ℕ × ℕ) (L dt : ℂ) (a : List ℂ) (C : ℕ) (M : ℕ) (r : ℂ) (u : Spec) :
    etdrkStep p dt (fun _ h => polySymbol (cfgOf D N L df) (generalLinear D a) h) M r
        (liftTermND (cfgOf D N L df) C (fun _ => zeroNonlin (cfgOf D N L df) C)) u
      = etdrkStep p 1 (fun _ h => polySymbol (cfgOf D N 1 df) (generalLinear D (normalize_coefficients a L dt)) h) M r
        (liftTermND (cfgOf D N 1 df) C (fun _ => zeroNonlin (cfgOf D N 1 df) C)) u :=
  etdrkStep_normalize p dt _ _ M r _ _ (fun _ h => polySymbol_generalLinear_cfgOf D N L dt df a h)
    (liftTermND_scale (cfgOf D N L df) (cfgOf D N 1 df) rfl C _ _ dt
      (zeroNonlin_scaling (cfgOf D N L df) (cfgOf D N 1 df) rfl C dt)) u

/-- per stored mode: the entry `(ch, h)` of the two steps agrees (convection shown; the other terms by `congrFun`) -/
theorem convection_step_normalized_apply (p D N : ℕ) (df : ℕ × ℕ) (ℓ : ℝ) (dt : ℂ) (a : List ℂ) (b : ℂ) (C : ℕ)
    (single conservative : Bool) (M : ℕ) (r : ℂ) (u : Spec) (ch h : ℕ) :
    etdrkStep p dt (fun _ h => polySymbol (cfgOf D N (ℓ : ℂ) df) (generalLinear D a) h) M r
        (liftTermND (cfgOf D N (ℓ : ℂ) df) C (convection (cfgOf D N (ℓ : ℂ) df) C b single conservative)) u ch h
      = etdrkStep p 1
        (fun _ h => polySymbol (cfgOf D N 1 df) (generalLinear D (normalize_coefficients a (ℓ : ℂ) dt)) h) M r
        (liftTermND (cfgOf D N 1 df) C
          (convection (cfgOf D N 1 df) C (normalize_convection_scale b (ℓ : ℂ) dt) single conservative)) u ch h := by
  rw [convection_step_normalized]

/-! ## Part 2 — the assembled steppers on the regenerated wiring -/

/-- the configuration `BaseStepper.__init__` hands to `_build_linear_operator` / `_build_nonlinear_fun`: the derivative
    operator of `(D, L, N)`; the dealiasing fraction is set by the nonlinear function itself (`withDF`) -/
noncomputable def baseCfg (D N : ℕ) (L : ℂ) : Cfg ℂ := cfgOf D N L (0, 0)

theorem withDF_baseCfg (D N : ℕ) (L : ℂ) (df : ℕ × ℕ) : withDF (baseCfg D N L) df = cfgOf D N L df := rfl

/-- `BaseStepper.__init__` + `step_fourier`: derivative operator of `(D, L, N)`; linear operator and nonlinear function
    built from it by the class (`linop`, `nonlin`); ETDRK method of order `b.order` with `dt`, `num_circle_points`,
    `circle_radius`; the state has `b.num_channels` channels -/
noncomputable def baseStep (b : BaseStepperArgs ℂ) (linop : List ℂ → ℂ) (nonlin : Cfg ℂ → MC ℂ → MC ℂ) :
    Spec → Spec :=
  etdrkStep b.order b.dt
    (fun _ h => linop (kappa (baseCfg b.num_spatial_dims b.num_points b.domain_extent) h))
    b.num_circle_points b.circle_radius
    (liftTermND (baseCfg b.num_spatial_dims b.num_points b.domain_extent) b.num_channels
      (nonlin (baseCfg b.num_spatial_dims b.num_points b.domain_extent)))

/-! ### convection family -/

/-- the step of `GeneralConvectionStepper(**g)`: regenerated linear operator, regenerated nonlinear-function wiring -/
noncomputable def GeneralConvectionStepper_step (g : GeneralConvectionStepperArgs ℂ) : Spec → Spec :=
  baseStep (GeneralConvectionStepper_base_args g)
    (fun κ => GeneralConvectionStepper_linear_operator κ (GeneralConvectionStepper_attrs g).linear_coefficients)
    (fun c => GeneralConvectionStepper_stepper_nonlinear_fun c g)

/-- `NormalizedConvectionStepper(**n)`: the parent's step on the regenerated `super().__init__` arguments -/
noncomputable def NormalizedConvectionStepper_step (n : NormalizedConvectionStepperArgs ℂ) : Spec → Spec :=
  GeneralConvectionStepper_step (NormalizedConvectionStepper_super_args n)

/-- `DifficultyConvectionStepper(**d)`: the parent's step on the regenerated `super().__init__` arguments -/
noncomputable def DifficultyConvectionStepper_step (d : DifficultyConvectionStepperArgs ℂ) : Spec → Spec :=
  NormalizedConvectionStepper_step (DifficultyConvectionStepper_super_args d)

/-- the assembled step in terms of the MODEL: general linear symbol, convection term with the user's flags -/
theorem GeneralConvectionStepper_step_model (g : GeneralConvectionStepperArgs ℂ) :
    GeneralConvectionStepper_step g
      = etdrkStep g.order g.dt
          (fun _ h => polySymbol (cfgOf g.num_spatial_dims g.num_points g.domain_extent g.dealiasing_fraction)
            (generalLinear g.num_spatial_dims g.linear_coefficients) h)
          g.num_circle_points g.circle_radius
          (liftTermND (cfgOf g.num_spatial_dims g.num_points g.domain_extent g.dealiasing_fraction)
            (if g.single_channel then 1 else g.num_spatial_dims)
            (convection (cfgOf g.num_spatial_dims g.num_points g.domain_extent g.dealiasing_fraction)
              (if g.single_channel then 1 else g.num_spatial_dims) g.convection_scale g.single_channel
              g.conservative)) := by
  unfold GeneralConvectionStepper_step baseStep
  rw [GeneralConvectionStepper_base_args_eq, GeneralConvectionStepper_attrs_eq]
  simp only []
  have hlin : ∀ h, GeneralConvectionStepper_linear_operator
        (kappa (baseCfg g.num_spatial_dims g.num_points g.domain_extent) h) g.linear_coefficients
      = polySymbol (cfgOf g.num_spatial_dims g.num_points g.domain_extent g.dealiasing_fraction)
          (generalLinear g.num_spatial_dims g.linear_coefficients) h :=
    fun h => GeneralConvectionStepper_linear_operator_polySymbol _ h _
  have hnl : GeneralConvectionStepper_stepper_nonlinear_fun
        (baseCfg g.num_spatial_dims g.num_points g.domain_extent) g
      = convection (cfgOf g.num_spatial_dims g.num_points g.domain_extent g.dealiasing_fraction)
          (if g.single_channel then 1 else g.num_spatial_dims) g.convection_scale g.single_channel
          g.conservative := by
    funext uh
    exact GeneralConvectionStepper_stepper_nonlinear_fun_eq _ g uh rfl
  simp only [hlin, hnl]
  rfl

/-- the normalised arguments `(α, β)` of a physical configuration, every option unchanged -/
noncomputable def GeneralConvectionStepper_to_normalized (g : GeneralConvectionStepperArgs ℂ) :
    NormalizedConvectionStepperArgs ℂ :=
  { num_spatial_dims := g.num_spatial_dims, num_points := g.num_points,
    normalized_linear_coefficients := normalize_coefficients g.linear_coefficients g.domain_extent g.dt,
    normalized_convection_scale := normalize_convection_scale g.convection_scale g.domain_extent g.dt,
    single_channel := g.single_channel, conservative := g.conservative, order := g.order,
    dealiasing_fraction := g.dealiasing_fraction, num_circle_points := g.num_circle_points,
    circle_radius := g.circle_radius }

/-- the difficulties `(γ, δ) = reduce_*(α, β)` of a normalised configuration, every option unchanged -/
noncomputable def NormalizedConvectionStepper_to_difficulty (n : NormalizedConvectionStepperArgs ℂ) (Mx : ℂ) :
    DifficultyConvectionStepperArgs ℂ :=
  { num_spatial_dims := n.num_spatial_dims, num_points := n.num_points,
    linear_difficulties := reduce_normalized_coefficients_to_difficulty n.normalized_linear_coefficients
      n.num_spatial_dims n.num_points,
    convection_difficulty := reduce_normalized_convection_scale_to_difficulty n.normalized_convection_scale
      n.num_spatial_dims n.num_points Mx,
    single_channel := n.single_channel, conservative := n.conservative, maximum_absolute := Mx, order := n.order,
    dealiasing_fraction := n.dealiasing_fraction, num_circle_points := n.num_circle_points,
    circle_radius := n.circle_radius }

/-- **T2 on the wiring, convection.**  The step of the physical stepper `(L, dt, a, b)` (real `L`) IS the step of the
    normalised stepper on `α = a_j dt / L^j`, `β = b dt / L`, for every order, flag combination and option. -/
theorem GeneralConvectionStepper_step_eq_normalized (g : GeneralConvectionStepperArgs ℂ) (ℓ : ℝ)
    (hL : g.domain_extent = (ℓ : ℂ)) :
    GeneralConvectionStepper_step g
      = NormalizedConvectionStepper_step (GeneralConvectionStepper_to_normalized g) := by
  unfold NormalizedConvectionStepper_step
  rw [GeneralConvectionStepper_step_model, GeneralConvectionStepper_step_model,
    NormalizedConvectionStepper_super_args_eq]
  simp only [GeneralConvectionStepper_to_normalized, hL]
  funext u
  exact convection_step_normalized _ _ _ _ ℓ _ _ _ _ _ _ _ _ u

/-- **T3, convection.**  The difficulty stepper built from `(γ, δ) = reduce_*(α, β)` hands its parent EXACTLY `(α, β)`
    and every option. -/
theorem DifficultyConvectionStepper_super_args_to_difficulty (n : NormalizedConvectionStepperArgs ℂ) (Mx : ℂ)
    (hD : n.num_spatial_dims ≠ 0) (hN : n.num_points ≠ 0) (hM : Mx ≠ 0) :
    DifficultyConvectionStepper_super_args (NormalizedConvectionStepper_to_difficulty n Mx) = n := by
  have hD' : (n.num_spatial_dims : ℂ) ≠ 0 := Nat.cast_ne_zero.mpr hD
  have hN' : (n.num_points : ℂ) ≠ 0 := Nat.cast_ne_zero.mpr hN
  rw [DifficultyConvectionStepper_super_args_eq]
  simp only [NormalizedConvectionStepper_to_difficulty,
    (C13_difficulty_coefficients_inverse n.normalized_linear_coefficients _ _ hD' hN' two_ne_zero).1,
    (C13_difficulty_scales_inverse n.normalized_convection_scale Mx _ _ hD' hN' hM).1]

/-- **T3.** the difficulty stepper on `(γ, δ)` is the normalised stepper on `(α, β)` -/
theorem DifficultyConvectionStepper_step_to_difficulty (n : NormalizedConvectionStepperArgs ℂ) (Mx : ℂ)
    (hD : n.num_spatial_dims ≠ 0) (hN : n.num_points ≠ 0) (hM : Mx ≠ 0) :
    DifficultyConvectionStepper_step (NormalizedConvectionStepper_to_difficulty n Mx)
      = NormalizedConvectionStepper_step n := by
  unfold DifficultyConvectionStepper_step
  rw [DifficultyConvectionStepper_super_args_to_difficulty n Mx hD hN hM]

/-- **T2 + T3, convection.**  physical stepper = difficulty stepper on `γ_j = α_j N^j 2^{j-1} D`, `δ = β M N D`. -/
theorem GeneralConvectionStepper_step_eq_difficulty (g : GeneralConvectionStepperArgs ℂ) (ℓ : ℝ)
    (hL : g.domain_extent = (ℓ : ℂ)) (Mx : ℂ) (hD : g.num_spatial_dims ≠ 0) (hN : g.num_points ≠ 0)
    (hM : Mx ≠ 0) :
    GeneralConvectionStepper_step g
      = DifficultyConvectionStepper_step
          (NormalizedConvectionStepper_to_difficulty (GeneralConvectionStepper_to_normalized g) Mx) := by
  rw [DifficultyConvectionStepper_step_to_difficulty _ Mx hD hN hM]
  exact GeneralConvectionStepper_step_eq_normalized g ℓ hL

/-- **only the groups matter, convection.**  Two physical configurations (possibly different `L`, `dt`, `a`, `b`)
    with the same normalised arguments have the same step. -/
theorem GeneralConvectionStepper_step_only_groups (g g' : GeneralConvectionStepperArgs ℂ) (ℓ ℓ' : ℝ)
    (hL : g.domain_extent = (ℓ : ℂ)) (hL' : g'.domain_extent = (ℓ' : ℂ))
    (h : GeneralConvectionStepper_to_normalized g = GeneralConvectionStepper_to_normalized g') :
    GeneralConvectionStepper_step g = GeneralConvectionStepper_step g' := by
  rw [GeneralConvectionStepper_step_eq_normalized g ℓ hL, GeneralConvectionStepper_step_eq_normalized g' ℓ' hL', h]

/-- the difficulty stepper written out on the MODEL: `L = 1`, `dt = 1`, `α = extract(γ)`, `β = δ / (M N D)`, the user's
    flags and options -/
theorem DifficultyConvectionStepper_step_model (d : DifficultyConvectionStepperArgs ℂ) :
    DifficultyConvectionStepper_step d
      = etdrkStep d.order 1
          (fun _ h => polySymbol (cfgOf d.num_spatial_dims d.num_points 1 d.dealiasing_fraction)
            (generalLinear d.num_spatial_dims
              (extract_normalized_coefficients_from_difficulty d.linear_difficulties d.num_spatial_dims
                d.num_points)) h)
          d.num_circle_points d.circle_radius
          (liftTermND (cfgOf d.num_spatial_dims d.num_points 1 d.dealiasing_fraction)
            (if d.single_channel then 1 else d.num_spatial_dims)
            (convection (cfgOf d.num_spatial_dims d.num_points 1 d.dealiasing_fraction)
              (if d.single_channel then 1 else d.num_spatial_dims)
              (extract_normalized_convection_scale_from_difficulty d.convection_difficulty d.num_spatial_dims
                d.num_points d.maximum_absolute) d.single_channel d.conservative)) := by
  unfold DifficultyConvectionStepper_step NormalizedConvectionStepper_step
  rw [GeneralConvectionStepper_step_model, DifficultyConvectionStepper_super_args_eq,
    NormalizedConvectionStepper_super_args_eq]

/-! ### non-vacuity -/

/-- a physical configuration with a real domain extent, `D, N ≠ 0`, and a non-zero `maximum_absolute` -/
example : ∃ (g : GeneralConvectionStepperArgs ℂ) (ℓ : ℝ) (Mx : ℂ),
    g.domain_extent = (ℓ : ℂ) ∧ g.num_spatial_dims ≠ 0 ∧ g.num_points ≠ 0 ∧ Mx ≠ 0 :=
  ⟨GeneralConvectionStepper_with_defaults 1 ((3 : ℝ) : ℂ) 32 (1 / 10), 3, 1, rfl, Nat.one_ne_zero, by decide,
    one_ne_zero⟩

example : ∃ (n : NormalizedConvectionStepperArgs ℂ) (Mx : ℂ),
    n.num_spatial_dims ≠ 0 ∧ n.num_points ≠ 0 ∧ Mx ≠ 0 :=
  ⟨NormalizedConvectionStepper_with_defaults 2 48, 1, by decide, by decide, one_ne_zero⟩

/-- two DIFFERENT physical configurations (`L = 1` vs `L = 2`, diffusivity `1` vs `4`, convection scale `1` vs `2`)
    with the same normalised arguments: the hypothesis of `GeneralConvectionStepper_step_only_groups` is satisfiable
    non-trivially -/
example : ∃ (g g' : GeneralConvectionStepperArgs ℂ) (ℓ ℓ' : ℝ),
    g.domain_extent = (ℓ : ℂ) ∧ g'.domain_extent = (ℓ' : ℂ) ∧ ℓ ≠ ℓ' ∧
      GeneralConvectionStepper_to_normalized g = GeneralConvectionStepper_to_normalized g' :=
  ⟨{ num_spatial_dims := 1, domain_extent := ((1 : ℝ) : ℂ), num_points := 32, dt := 1,
     linear_coefficients := [0, 0, 1], convection_scale := 1, single_channel := false, conservative := false,
     order := 2, dealiasing_fraction := (2, 3), num_circle_points := 16, circle_radius := 1 },
   { num_spatial_dims := 1, domain_extent := ((2 : ℝ) : ℂ), num_points := 32, dt := 1,
     linear_coefficients := [0, 0, 4], convection_scale := 2, single_channel := false, conservative := false,
     order := 2, dealiasing_fraction := (2, 3), num_circle_points := 16, circle_radius := 1 },
   1, 2, rfl, rfl, by norm_num, by
    simp only [GeneralConvectionStepper_to_normalized, C13_normalize_coefficients_formula,
      normalize_convection_scale, List.mapIdx_cons, List.mapIdx_nil]
    norm_num⟩

/-- the hypotheses of `liftTermND_scale` are satisfiable (they are discharged by `convection_scaling_cfgOf` above) -/
example : ∃ (cL c1 : Cfg ℂ) (TL T1 : MC ℂ → MC ℂ) (dt : ℂ),
    modes cL = modes c1 ∧ ∀ uh ch h, dt * at2 (TL uh) ch h = at2 (T1 uh) ch h :=
  ⟨cfgOf 1 8 ((2 : ℝ) : ℂ) (2, 3), cfgOf 1 8 1 (2, 3), _, _, 1, rfl,
    convection_scaling_cfgOf 1 8 (2, 3) 2 1 1 1 true true⟩

end Exponax.Interface
