import ExponaxModel.Proofs.WaveWholeBasic
/-
C01 for the wave stepper on WHOLE STATES in physical space (T1), all `D ≥ 1`, `N ≥ 1`, every real `dt`, `L > 0`,
`c ≠ 0`.

`waveStep D N L dt c u = ifft(Wave.step_fourier(fft(u)))` on a two-channel state `u = #[h, v]`
(`waveStep_eq_generated`: it is the composition of the regenerated `fft`, `Wave_step_fourier`, `ifft`).

* `waveStep_channels` — for EVERY pair of arrays, the step is the real 2×2 multiplier matrix
    `[[cos ωt, sin ωt/ω], [−ω sin ωt, cos ωt]]`  (`ω = c (2π/L)|k|`, `sin ωt/ω := t` at the mean mode).
* `waveStep_stateOf` (T1) — the state `h = Σ a cos(κ·x+φ)`, `v = Σ b cos(κ'·x+ψ)` (modes strictly below Nyquist) is
  mapped to the superposition of the d'Alembert solutions
    `h(t) = Σ a cos(ωt) cos(κ·x+φ) + Σ b (sin(ω't)/ω') cos(κ'·x+ψ)`,
    `v(t) = Σ −a ω sin(ωt) cos(κ·x+φ) + Σ b cos(ω't) cos(κ'·x+ψ)`,
  and for the mean mode (`κ = 0`) `h(t) = h₀ + t v₀`, `v(t) = v₀`.
* `waveStep_grid` — the same, spelled out at every grid point.
* `waveStep_solves` — the per-mode amplitudes solve `h' = v`, `v' = −ω² h` (so the image is the solution of
  `h_tt = c² Δh`, since `Δ cos(κ·x+φ) = −(2π/L)²|κ|² cos(κ·x+φ)`).

The statement needs `c ≠ 0`: for `c = 0` the model divides by `i·c·|κ| = 0` (`Wave.inverse`), and Lean's `x/0 = 0` gives
`ĥ ↦ 0` (`stepMode_c_zero`; the Python code produces `nan`), so the requested statement is FALSE at `c = 0`.
-/
set_option linter.unusedVariables false
namespace Exponax.WaveWhole
open Exponax Exponax.Layout Exponax.Transform Exponax.DFT Exponax.ExactLinear Exponax.SpectralOpsEq
  Exponax.ReadOff Exponax.Nonlin Finset

/-! ### the whole step -/

/-- `Wave.step(u) = ifft(step_fourier(fft(u)))` on a two-channel state (channel 0: height `h`, channel 1: velocity
    `v`), the transforms channel by channel -/
noncomputable def waveStep (D N : ℕ) (L dt c : ℂ) (u : MC ℂ) : MC ℂ :=
  tabC 2 (fun ch => irfftnM D N
    ((Gen.SpectralOps.Wave_step_fourier D N L dt c (tabC 2 (fun i => rfftnM D N (u.getD i #[])))).getD ch #[]))

/-- `waveStep` is the composition of the regenerated `fft`, `Wave.step_fourier`, `ifft` (as `BaseStepper.step` calls
    them: `num_spatial_dims = D`, `num_points = N`) -/
theorem waveStep_eq_generated (D N : ℕ) (hD : 1 ≤ D) (L dt c : ℂ) (u : MC ℂ) :
    (Gen.SpectralOps.fft [2] D N (some D) u).bind (fun uh =>
        Gen.SpectralOps.ifft [2] D N (some D) (some N) (Gen.SpectralOps.Wave_step_fourier D N L dt c uh))
      = some (waveStep D N L dt c u) := by
  rw [(fft_eq 2 D N hD u).1, Option.bind_some, (ifft_eq 2 D N hD _).1]
  rfl

theorem tabC_two (f : ℕ → Array ℂ) : tabC 2 f = #[f 0, f 1] := by
  apply Array.ext
  · simp [tabC, tab]
  · intro i h1 h2
    have hi : i < 2 := by simpa [tabC, tab] using h1
    interval_cases i <;> simp [tabC, tab]

/-- the two-channel state `#[h, v]` -/
theorem pair_getD_zero (a b : Array ℂ) : (#[a, b] : MC ℂ).getD 0 #[] = a := rfl
theorem pair_getD_one (a b : Array ℂ) : (#[a, b] : MC ℂ).getD 1 #[] = b := rfl

/-- the multipliers of the wave step at the stored mode `h` -/
noncomputable def mCos (D N : ℕ) (c L dt : ℝ) (h : ℕ) : ℝ := Real.cos (waveOmega D c L (wnFlat D N h) * dt)
noncomputable def mSinc (D N : ℕ) (c L dt : ℝ) (h : ℕ) : ℝ := sincT (waveOmega D c L (wnFlat D N h)) dt
noncomputable def mOmSin (D N : ℕ) (c L dt : ℝ) (h : ℕ) : ℝ :=
  -(waveOmega D c L (wnFlat D N h) * Real.sin (waveOmega D c L (wnFlat D N h) * dt))

/-- **the whole step on EVERY pair of arrays** is the real multiplier matrix
    `[[cos ωt, sincT ω t], [−ω sin ωt, cos ωt]]` between the transforms -/
theorem waveStep_channels (D N : ℕ) (hD : 0 < D) (hN : 0 < N) (c L dt : ℝ) (hc : c ≠ 0) (hL : 0 < L)
    (u₀ u₁ : Array ℂ) :
    waveStep D N (L : ℂ) (dt : ℂ) (c : ℂ) #[u₀, u₁]
      = #[vadd (N ^ D) (mulStep D N (mCos D N c L dt) u₀) (mulStep D N (mSinc D N c L dt) u₁),
          vadd (N ^ D) (mulStep D N (mOmSin D N c L dt) u₀) (mulStep D N (mCos D N c L dt) u₁)] := by
  unfold waveStep
  rw [Wave_step_fourier_eq D N hN, tabC_two, tabC_two, NonlinFunsEq.tab2_getD _ _ _ _ (by norm_num),
    NonlinFunsEq.tab2_getD _ _ _ _ (by norm_num), pair_getD_zero, pair_getD_one,
    ← irfftnM_two D N hN, ← irfftnM_two D N hN]
  congr 2
  · apply irfftnM_congr
    intro h hh
    rw [Nonlin.tab_getD _ _ _ _ hh, Nonlin.tab_getD _ _ _ _ hh, if_pos rfl,
      stepMode_closed D N hD hN c L dt hc hL h hh]
    rfl
  · congr 1
    apply irfftnM_congr
    intro h hh
    rw [Nonlin.tab_getD _ _ _ _ hh, Nonlin.tab_getD _ _ _ _ hh, if_neg (by norm_num),
      stepMode_closed D N hD hN c L dt hc hL h hh]
    rfl

/-! ### T1: superpositions of modes strictly below Nyquist -/

/-- the evolved height modes: `a cos(ωt)` on the modes of `h`, `b sin(ωt)/ω` (`b t` at the mean mode) on those of `v` -/
noncomputable def waveH (D : ℕ) (c L t : ℝ) (ms ms' : Modes) : Modes :=
  ms.map (fun q => (q.1, q.2.1 * Real.cos (waveOmega D c L q.1 * t), q.2.2))
    ++ ms'.map (fun q => (q.1, q.2.1 * sincT (waveOmega D c L q.1) t, q.2.2))

/-- the evolved velocity modes: `−a ω sin(ωt)` on the modes of `h`, `b cos(ωt)` on those of `v` -/
noncomputable def waveV (D : ℕ) (c L t : ℝ) (ms ms' : Modes) : Modes :=
  ms.map (fun q => (q.1, q.2.1 * -(waveOmega D c L q.1 * Real.sin (waveOmega D c L q.1 * t)), q.2.2))
    ++ ms'.map (fun q => (q.1, q.2.1 * Real.cos (waveOmega D c L q.1 * t), q.2.2))

/-- **T1.**  The wave stepper advances every two-channel superposition of modes strictly below Nyquist by the exact
    solution of `h_t = v`, `v_t = c² Δh`, for every real `t` (negative too, no CFL restriction), `D ≥ 1`, `N ≥ 1`. -/
theorem waveStep_stateOf (D N : ℕ) (hD : 0 < D) (hN : 0 < N) (c L t : ℝ) (hc : c ≠ 0) (hL : 0 < L)
    (ms ms' : Modes) (hms : ∀ q ∈ ms, BelowNyquist D N q.1) (hms' : ∀ q ∈ ms', BelowNyquist D N q.1) :
    waveStep D N (L : ℂ) (t : ℂ) (c : ℂ) #[stateOf D N ms, stateOf D N ms']
      = #[stateOf D N (waveH D c L t ms ms'), stateOf D N (waveV D c L t ms ms')] := by
  rw [waveStep_channels D N hD hN c L t hc hL]
  unfold waveH waveV
  rw [stateOf_append, stateOf_append]
  have hev : ∀ f : ℝ → ℝ, ∀ κ, f (waveOmega D c L (negK κ)) = f (waveOmega D c L κ) := by
    intro f κ; rw [waveOmega_negK]
  rw [mulStep_stateOf D N hD hN (mCos D N c L t) (fun κ => Real.cos (waveOmega D c L κ * t))
      (fun h _ => rfl) (hev (fun w => Real.cos (w * t))) ms hms,
    mulStep_stateOf D N hD hN (mCos D N c L t) (fun κ => Real.cos (waveOmega D c L κ * t))
      (fun h _ => rfl) (hev (fun w => Real.cos (w * t))) ms' hms',
    mulStep_stateOf D N hD hN (mSinc D N c L t) (fun κ => sincT (waveOmega D c L κ) t)
      (fun h _ => rfl) (hev (fun w => sincT w t)) ms' hms',
    mulStep_stateOf D N hD hN (mOmSin D N c L t)
      (fun κ => -(waveOmega D c L κ * Real.sin (waveOmega D c L κ * t)))
      (fun h _ => rfl) (hev (fun w => -(w * Real.sin (w * t)))) ms hms]

/-- a list sum in `Finset`-free form used to spell states out -/
noncomputable def cosSum (D N : ℕ) (amp : List ℤ × ℝ × ℝ → ℝ) (ms : Modes) (j : ℕ) : ℝ :=
  (ms.map (fun q => amp q * Real.cos (2 * Real.pi * ((phaseK D N q.1 j : ℤ) : ℝ) / N + q.2.2))).sum

/-- T1 spelled out on the grid (`x_j = L j/N`, `(2π/L) κ·x_j = 2π κ·j/N`):
    `h_j(t) = Σ a cos(ωt) cos(2πκ·j/N+φ) + Σ b sincT(ω',t) cos(2πκ'·j/N+ψ)`,
    `v_j(t) = Σ −a ω sin(ωt) cos(2πκ·j/N+φ) + Σ b cos(ω't) cos(2πκ'·j/N+ψ)` -/
theorem waveStep_grid (D N : ℕ) (hD : 0 < D) (hN : 0 < N) (c L t : ℝ) (hc : c ≠ 0) (hL : 0 < L)
    (ms ms' : Modes) (hms : ∀ q ∈ ms, BelowNyquist D N q.1) (hms' : ∀ q ∈ ms', BelowNyquist D N q.1)
    (j : ℕ) (hj : j < N ^ D) :
    at2 (waveStep D N (L : ℂ) (t : ℂ) (c : ℂ) #[stateOf D N ms, stateOf D N ms']) 0 j
        = ((cosSum D N (fun q => q.2.1 * Real.cos (waveOmega D c L q.1 * t)) ms j
            + cosSum D N (fun q => q.2.1 * sincT (waveOmega D c L q.1) t) ms' j : ℝ) : ℂ) ∧
      at2 (waveStep D N (L : ℂ) (t : ℂ) (c : ℂ) #[stateOf D N ms, stateOf D N ms']) 1 j
        = ((cosSum D N (fun q => q.2.1 * -(waveOmega D c L q.1 * Real.sin (waveOmega D c L q.1 * t))) ms j
            + cosSum D N (fun q => q.2.1 * Real.cos (waveOmega D c L q.1 * t)) ms' j : ℝ) : ℂ) := by
  rw [waveStep_stateOf D N hD hN c L t hc hL ms ms' hms hms']
  unfold at2
  rw [pair_getD_zero, pair_getD_one, stateOf_getD _ _ _ j hj, stateOf_getD _ _ _ j hj]
  unfold waveH waveV cosSum
  refine ⟨?_, ?_⟩ <;> simp only [List.map_append, List.sum_append, List.map_map, Function.comp_def]

/-! ### the amplitudes are the solution of `h' = v`, `v' = −ω² h` -/

theorem hasDerivAt_sincT (ω t : ℝ) : HasDerivAt (fun t => sincT ω t) (Real.cos (ω * t)) t := by
  unfold sincT
  by_cases h : ω = 0
  · simp only [h, if_true, zero_mul, Real.cos_zero]
    exact hasDerivAt_id t
  · simp only [h, if_false]
    have h1 : HasDerivAt (fun t : ℝ => ω * t) ω t := by
      simpa using HasDerivAt.const_mul ω (hasDerivAt_id t)
    have h2 := (HasDerivAt.sin h1).div_const ω
    refine HasDerivAt.congr_deriv h2 ?_
    field_simp

theorem omega_sq_sincT (ω t : ℝ) : ω ^ 2 * sincT ω t = ω * Real.sin (ω * t) := by
  unfold sincT
  by_cases h : ω = 0
  · simp [h]
  · simp only [h, if_false]
    field_simp

/-- the amplitudes `H(t) = a cos ωt + b sincT ω t`, `V(t) = −a ω sin ωt + b cos ωt` of one mode satisfy
    `H' = V`, `V' = −ω² H`, `H(0) = a`, `V(0) = b` (every `ω`, `ω = 0` being the mean mode `H = a + t b`, `V = b`) -/
theorem waveStep_solves (ω a b t : ℝ) :
    HasDerivAt (fun t => a * Real.cos (ω * t) + b * sincT ω t)
        (a * -(ω * Real.sin (ω * t)) + b * Real.cos (ω * t)) t ∧
      HasDerivAt (fun t => a * -(ω * Real.sin (ω * t)) + b * Real.cos (ω * t))
        (-(ω ^ 2) * (a * Real.cos (ω * t) + b * sincT ω t)) t ∧
      a * Real.cos (ω * 0) + b * sincT ω 0 = a ∧ a * -(ω * Real.sin (ω * 0)) + b * Real.cos (ω * 0) = b := by
  have h1 : HasDerivAt (fun t : ℝ => ω * t) ω t := by
    simpa using HasDerivAt.const_mul ω (hasDerivAt_id t)
  have hcos : HasDerivAt (fun t => Real.cos (ω * t)) (-(ω * Real.sin (ω * t))) t :=
    HasDerivAt.congr_deriv (HasDerivAt.cos h1) (by ring)
  have hsin : HasDerivAt (fun t => Real.sin (ω * t)) (ω * Real.cos (ω * t)) t :=
    HasDerivAt.congr_deriv (HasDerivAt.sin h1) (by ring)
  refine ⟨?_, ?_, ?_, ?_⟩
  · exact (hcos.const_mul a).add ((hasDerivAt_sincT ω t).const_mul b)
  · have h2 := ((hsin.const_mul ω).neg.const_mul a).add (hcos.const_mul b)
    refine HasDerivAt.congr_deriv h2 ?_
    have := omega_sq_sincT ω t
    linear_combination b * this
  · unfold sincT
    by_cases h : ω = 0 <;> simp [h]
  · simp

/-- the mean mode: `ω = 0` at `κ = 0`, so `h(t) = h₀ + t v₀`, `v(t) = v₀` -/
theorem wave_mean_mode (D : ℕ) (c L t : ℝ) (κ : List ℤ) (h0 : ∀ d < D, κ.getD d 0 = 0) :
    waveOmega D c L κ = 0 ∧ Real.cos (waveOmega D c L κ * t) = 1 ∧ sincT (waveOmega D c L κ) t = t ∧
      -(waveOmega D c L κ * Real.sin (waveOmega D c L κ * t)) = 0 := by
  have hk : kappaSq D κ = 0 := (kappaSq_eq_zero_iff D κ).2 h0
  have hω : waveOmega D c L κ = 0 := by
    unfold waveOmega
    rw [hk]
    simp
  rw [hω]
  simp [sincT]

/-! ### `c = 0` is excluded for a reason -/

/-- at `c = 0` the model (`x / 0 = 0`) returns `ĥ = 0` at every non-mean mode, whatever the input -/
theorem stepMode_c_zero (dt kn x y : ℂ) : (Wave.stepMode (0 : ℂ) dt kn false x y).1 = 0 := by
  rw [stepMode_halved]
  simp

/-! non-vacuity of the hypotheses of T1 -/
example : (∀ q ∈ ([([1, -1], 2, 0.5), ([0, 0], 1, 0)] : Modes), BelowNyquist 2 4 q.1) ∧ (3 : ℝ) ≠ 0 ∧ (0 : ℝ) < 2 := by
  refine ⟨?_, by norm_num, by norm_num⟩
  intro q hq
  simp only [List.mem_cons, List.mem_nil_iff, or_false] at hq
  rcases hq with rfl | rfl
  · exact ⟨rfl, by intro d hd; interval_cases d <;> simp⟩
  · exact ⟨rfl, by intro d hd; interval_cases d <;> simp⟩

end Exponax.WaveWhole
