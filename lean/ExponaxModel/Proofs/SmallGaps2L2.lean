import ExponaxModel.Proofs.SmallGapsResample
/-
H3 (C16), part 1 — for a real Nyquist-free trigonometric polynomial `u = Σ_i a_i cos(κ_i·x + φ_i)` (`stateOf D N ms`)
the p = 2 spatial aggregate `spatialAggregator D N L 2 1 u = (L/N)^D Σ_j u_j²` equals `L^D · msClosed ms`, where

    msClosed ms = ½ Σ_i Σ_i' a_i a_i' ( [κ_i = −κ_i'] cos(φ_i + φ_i') + [κ_i = κ_i'] cos(φ_i − φ_i') )

is the mean square of `u` over the period cell in closed form from the mode list (duplicates — also `±κ` — are merged by
the double sum; no distinctness assumption).  For pairwise distinct `κ` up to sign it is
`Σ_i (a_i² cos² φ_i if κ_i = 0 else a_i²/2)` (`msClosed_distinct`).  `L^D · msClosed ms` IS the exact integral
`∫_{[0,L]^D} u(x)² dx` (`Proofs/SmallGaps2Integral.lean`), so the quadrature rule is exact: the integrand `u²` has
wavenumbers `κ_i ± κ_i'`, all of absolute value `< N`.  Consequence: the value does not depend on `N`.
-/
set_option linter.unusedVariables false
namespace Exponax.SmallGaps2
open Exponax Exponax.Layout Exponax.Transform Exponax.DFT Exponax.ExactLinear Exponax.Metrics Exponax.SmallGaps Finset

/-! ### grid sums of sampled cosines -/

/-- `Σ_j cos(2π (m·j)/N + φ) = N^D cos φ` if `N ∣ m_d` on every axis, else `0` -/
theorem sum_cos_digits (D N : ℕ) (hN : 0 < N) (m : ℕ → ℤ) (φ : ℝ) :
    ∑ j ∈ range (N ^ D),
        Real.cos (2 * Real.pi * ((∑ d ∈ range D, m d * (digit D N j d : ℤ) : ℤ) : ℝ) / N + φ)
      = if ∀ d < D, (N : ℤ) ∣ m d then ((N ^ D : ℕ) : ℝ) * Real.cos φ else 0 := by
  apply Complex.ofReal_injective
  rw [Complex.ofReal_sum]
  have hc : ∀ j ∈ range (N ^ D),
      ((Real.cos (2 * Real.pi * ((∑ d ∈ range D, m d * (digit D N j d : ℤ) : ℤ) : ℝ) / N + φ) : ℝ) : ℂ)
        = (1 / 2 : ℂ) * (Complex.exp (φ * Complex.I)
              * zeta N ^ (∑ d ∈ range D, (-m d) * (digit D N j d : ℤ))
            + Complex.exp (-(φ * Complex.I)) * zeta N ^ (∑ d ∈ range D, m d * (digit D N j d : ℤ))) := by
    intro j _
    have h := cos_eq_zeta N (∑ d ∈ range D, m d * (digit D N j d : ℤ)) 1 φ
    rw [one_mul] at h
    rw [h, Complex.ofReal_one]
    congr 3
    rw [← Finset.sum_neg_distrib]
    congr 1
    exact Finset.sum_congr rfl (fun d _ => by ring)
  rw [Finset.sum_congr rfl hc, ← Finset.mul_sum, Finset.sum_add_distrib, ← Finset.mul_sum, ← Finset.mul_sum,
    sum_zeta_digits N hN (fun d => -m d) D, sum_zeta_digits N hN m D]
  have hneg : (∀ d < D, (N : ℤ) ∣ -m d) ↔ ∀ d < D, (N : ℤ) ∣ m d := by
    constructor <;> intro h d hd <;> have := h d hd
    · exact (dvd_neg).mp this
    · exact (dvd_neg).mpr this
  by_cases hd : ∀ d < D, (N : ℤ) ∣ m d
  · rw [if_pos (hneg.mpr hd), if_pos hd, if_pos hd]
    push_cast
    rw [Complex.cos]
    ring_nf
  · rw [if_neg (fun h => hd (hneg.mp h)), if_neg hd, if_neg hd]
    simp

/-- the grid inner product of two sampled cosines (ANY integer wave vectors) -/
theorem sum_cos_mul_cos (D N : ℕ) (hN : 0 < N) (κ κ' : List ℤ) (φ φ' : ℝ) :
    ∑ j ∈ range (N ^ D),
        Real.cos (2 * Real.pi * ((phaseK D N κ j : ℤ) : ℝ) / N + φ)
          * Real.cos (2 * Real.pi * ((phaseK D N κ' j : ℤ) : ℝ) / N + φ')
      = 1 / 2 * ((if ∀ d < D, (N : ℤ) ∣ κ.getD d 0 + κ'.getD d 0 then ((N ^ D : ℕ) : ℝ) * Real.cos (φ + φ') else 0)
          + (if ∀ d < D, (N : ℤ) ∣ κ.getD d 0 - κ'.getD d 0 then ((N ^ D : ℕ) : ℝ) * Real.cos (φ - φ') else 0)) := by
  rw [← sum_cos_digits D N hN (fun d => κ.getD d 0 + κ'.getD d 0) (φ + φ'),
    ← sum_cos_digits D N hN (fun d => κ.getD d 0 - κ'.getD d 0) (φ - φ'), ← Finset.sum_add_distrib, Finset.mul_sum]
  apply Finset.sum_congr rfl
  intro j _
  have e1 : (∑ d ∈ range D, (κ.getD d 0 + κ'.getD d 0) * (digit D N j d : ℤ))
      = phaseK D N κ j + phaseK D N κ' j := by
    rw [phaseK_eq_sum, phaseK_eq_sum, ← Finset.sum_add_distrib]
    exact Finset.sum_congr rfl (fun d _ => by ring)
  have e2 : (∑ d ∈ range D, (κ.getD d 0 - κ'.getD d 0) * (digit D N j d : ℤ))
      = phaseK D N κ j - phaseK D N κ' j := by
    rw [phaseK_eq_sum, phaseK_eq_sum, ← Finset.sum_sub_distrib]
    exact Finset.sum_congr rfl (fun d _ => by ring)
  have key : ∀ A B : ℝ, Real.cos A * Real.cos B = 1 / 2 * (Real.cos (A + B) + Real.cos (A - B)) := by
    intro A B; rw [Real.cos_add, Real.cos_sub]; ring
  rw [e1, e2, key]
  congr 2 <;> (congr 1; push_cast; ring)

/-- below Nyquist, congruence of `κ` and `∓κ'` modulo `N` is equality -/
theorem dvd_add_iff_eq_negK (D N : ℕ) (κ κ' : List ℤ) (hκ : BelowNyquist D N κ) (hκ' : BelowNyquist D N κ') :
    (∀ d < D, (N : ℤ) ∣ κ.getD d 0 + κ'.getD d 0) ↔ κ = negK κ' := by
  constructor
  · intro hdv
    apply list_ext_getD _ _ D hκ.1 (by rw [negK_length]; exact hκ'.1)
    intro d hd
    have h1 := hκ.2 d hd
    have h2 := hκ'.2 d hd
    have h3 : |κ.getD d 0 + κ'.getD d 0| < (N : ℤ) := by
      have := abs_add_le (κ.getD d 0) (κ'.getD d 0)
      omega
    have := eq_zero_of_dvd_of_abs_lt N _ (hdv d hd) h3
    rw [negK_getD]
    omega
  · intro he d _
    rw [he, negK_getD, neg_add_cancel]
    exact dvd_zero _

theorem dvd_sub_iff_eq' (D N : ℕ) (κ κ' : List ℤ) (hκ : BelowNyquist D N κ) (hκ' : BelowNyquist D N κ') :
    (∀ d < D, (N : ℤ) ∣ κ.getD d 0 - κ'.getD d 0) ↔ κ = κ' := by
  have := dvd_add_iff_eq_negK D N κ (negK κ') hκ hκ'.negK
  simp only [negK_getD, negK_negK, ← sub_eq_add_neg] at this
  exact this

/-! ### list sums -/

theorem finset_sum_list_map {α : Type} (s : Finset ℕ) (l : List α) (g : ℕ → α → ℝ) :
    ∑ j ∈ s, (l.map (g j)).sum = (l.map (fun q => ∑ j ∈ s, g j q)).sum := by
  induction l with
  | nil => simp
  | cons a l ih => simp only [List.map_cons, List.sum_cons, Finset.sum_add_distrib, ih]

theorem list_sum_sq {α : Type} (l : List α) (f : α → ℝ) :
    (l.map f).sum ^ 2 = (l.map (fun q => (l.map (fun q' => f q * f q')).sum)).sum := by
  simp only [List.sum_map_mul_left, List.sum_map_mul_right]
  ring

/-- the double sum `Σ_{q ∈ l} Σ_{q' ∈ l} B q q'` -/
def dsum {α : Type} (B : α → α → ℝ) (l : List α) : ℝ := (l.map (fun q => (l.map (B q)).sum)).sum

theorem dsum_cons {α : Type} (B : α → α → ℝ) (q : α) (l : List α) :
    dsum B (q :: l) = B q q + (l.map (B q)).sum + (l.map (fun q' => B q' q)).sum + dsum B l := by
  simp only [dsum, List.map_cons, List.sum_cons, List.sum_map_add]
  ring

/-! ### the closed form -/

/-- the bilinear form of the mean square: `½ a a' ([κ = −κ'] cos(φ + φ') + [κ = κ'] cos(φ − φ'))` -/
noncomputable def msB (q q' : List ℤ × ℝ × ℝ) : ℝ :=
  q.2.1 * q'.2.1 / 2 * ((if q.1 = negK q'.1 then Real.cos (q.2.2 + q'.2.2) else 0)
    + (if q.1 = q'.1 then Real.cos (q.2.2 - q'.2.2) else 0))

/-- the mean square over the period cell of `Σ_i a_i cos(κ_i·x + φ_i)`, from the mode list -/
noncomputable def msClosed (ms : Modes) : ℝ := dsum msB ms

/-- **the grid mean square of a Nyquist-free trigonometric polynomial is `msClosed`** -/
theorem meanSquare_closed (D N : ℕ) (hN : 0 < N) (ms : Modes) (hms : ∀ q ∈ ms, BelowNyquist D N q.1) :
    1 / ((N ^ D : ℕ) : ℝ) * ∑ j ∈ range (N ^ D), ‖(stateOf D N ms).getD j 0‖ ^ 2 = msClosed ms := by
  have hNne : ((N ^ D : ℕ) : ℝ) ≠ 0 := by exact_mod_cast (pow_pos hN _).ne'
  have h1 : ∀ j ∈ range (N ^ D), ‖(stateOf D N ms).getD j 0‖ ^ 2
      = (ms.map (fun q => (ms.map (fun q' =>
          (q.2.1 * Real.cos (2 * Real.pi * ((phaseK D N q.1 j : ℤ) : ℝ) / N + q.2.2))
            * (q'.2.1 * Real.cos (2 * Real.pi * ((phaseK D N q'.1 j : ℤ) : ℝ) / N + q'.2.2)))).sum)).sum := by
    intro j hj
    rw [stateOf_getD D N ms j (Finset.mem_range.mp hj), Complex.norm_real, Real.norm_eq_abs, sq_abs, list_sum_sq]
  rw [Finset.sum_congr rfl h1, finset_sum_list_map]
  unfold msClosed dsum
  rw [← List.sum_map_mul_left]
  congr 1
  apply List.map_congr_left
  intro q hq
  rw [finset_sum_list_map, ← List.sum_map_mul_left]
  congr 1
  apply List.map_congr_left
  intro q' hq'
  have e : ∀ j ∈ range (N ^ D),
      (q.2.1 * Real.cos (2 * Real.pi * ((phaseK D N q.1 j : ℤ) : ℝ) / N + q.2.2))
        * (q'.2.1 * Real.cos (2 * Real.pi * ((phaseK D N q'.1 j : ℤ) : ℝ) / N + q'.2.2))
      = q.2.1 * q'.2.1 * (Real.cos (2 * Real.pi * ((phaseK D N q.1 j : ℤ) : ℝ) / N + q.2.2)
          * Real.cos (2 * Real.pi * ((phaseK D N q'.1 j : ℤ) : ℝ) / N + q'.2.2)) := fun j _ => by ring
  rw [Finset.sum_congr rfl e, ← Finset.mul_sum, sum_cos_mul_cos D N hN]
  unfold msB
  have p1 := dvd_add_iff_eq_negK D N q.1 q'.1 (hms q hq) (hms q' hq')
  have p2 := dvd_sub_iff_eq' D N q.1 q'.1 (hms q hq) (hms q' hq')
  by_cases c1 : q.1 = negK q'.1 <;> by_cases c2 : q.1 = q'.1
  · rw [if_pos (p1.mpr c1), if_pos (p2.mpr c2), if_pos c1, if_pos c2]; field_simp
  · rw [if_pos (p1.mpr c1), if_neg (fun h => c2 (p2.mp h)), if_pos c1, if_neg c2]; field_simp; ring
  · rw [if_neg (fun h => c1 (p1.mp h)), if_pos (p2.mpr c2), if_neg c1, if_pos c2]; field_simp; ring
  · rw [if_neg (fun h => c1 (p1.mp h)), if_neg (fun h => c2 (p2.mp h)), if_neg c1, if_neg c2]; simp

theorem stateOf_size (D N : ℕ) (ms : Modes) : (stateOf D N ms).size = N ^ D := by simp [stateOf]

/-- **H3: the p = 2 metric of a band-limited state IS the exact value `L^D · (mean square over the cell)`**, every
    outer exponent `q` (`q = 1`: the squared L² norm `∫_{[0,L]^D} u²`, `q = 1/2`: the L² norm) -/
theorem spatialAggregator_stateOf (D N : ℕ) (hN : 0 < N) (L q : ℝ) (ms : Modes)
    (hms : ∀ x ∈ ms, BelowNyquist D N x.1) :
    spatialAggregator D N L 2 q (reArr (stateOf D N ms)) = (L ^ D * msClosed ms) ^ q := by
  rw [spatialAggregator_reArr D N hN L q _ (stateOf_size D N ms) (stateOf_real D N ms),
    meanSquare_closed D N hN ms hms]

theorem spatialAggregator_stateOf_one (D N : ℕ) (hN : 0 < N) (L : ℝ) (ms : Modes)
    (hms : ∀ x ∈ ms, BelowNyquist D N x.1) :
    spatialAggregator D N L 2 1 (reArr (stateOf D N ms)) = L ^ D * msClosed ms := by
  rw [spatialAggregator_stateOf D N hN L 1 ms hms, Real.rpow_one]

/-- **consequence: independence of the resolution** — any two grids that resolve all modes give the same value -/
theorem spatialAggregator_stateOf_resolution_independent (D N N' : ℕ) (hN : 0 < N) (hN' : 0 < N') (L q : ℝ)
    (ms : Modes) (hms : ∀ x ∈ ms, BelowNyquist D N x.1) (hms' : ∀ x ∈ ms, BelowNyquist D N' x.1) :
    spatialAggregator D N L 2 q (reArr (stateOf D N ms)) = spatialAggregator D N' L 2 q (reArr (stateOf D N' ms)) := by
  rw [spatialAggregator_stateOf D N hN L q ms hms, spatialAggregator_stateOf D N' hN' L q ms hms']

/-- link to `SmallGapsResample`: the resolution-independent in-band Parseval sum used there is this closed form -/
theorem msCanon_eq_msClosed (E m : ℕ) (hm1 : 1 ≤ m) (ms : Modes) (hms : ∀ x ∈ ms, BelowNyquist (E + 1) m x.1) :
    msCanon E m ms = msClosed ms := by
  rw [← meanSquare_stateOf E m m hm1 le_rfl hm1 ms hms, meanSquare_closed (E + 1) m hm1 ms hms]

/-! ### pairwise distinct wave vectors (up to sign): the familiar formula -/

/-- `Σ_i (a_i² cos² φ_i if κ_i = 0 else a_i² / 2)` -/
noncomputable def msDiag (D : ℕ) (ms : Modes) : ℝ :=
  (ms.map (fun q => if (∀ d < D, q.1.getD d 0 = 0) then q.2.1 ^ 2 * Real.cos q.2.2 ^ 2 else q.2.1 ^ 2 / 2)).sum

theorem msB_diag (D : ℕ) (q : List ℤ × ℝ × ℝ) (hq : q.1.length = D) :
    msB q q = if (∀ d < D, q.1.getD d 0 = 0) then q.2.1 ^ 2 * Real.cos q.2.2 ^ 2 else q.2.1 ^ 2 / 2 := by
  unfold msB
  rw [if_pos rfl, sub_self, Real.cos_zero]
  by_cases h0 : ∀ d < D, q.1.getD d 0 = 0
  · rw [if_pos h0, if_pos ((eq_negK_iff D q.1 hq).mpr h0), Real.cos_sq q.2.2]
    ring_nf
  · rw [if_neg h0, if_neg (fun h => h0 ((eq_negK_iff D q.1 hq).mp h))]
    ring

theorem msClosed_distinct (D : ℕ) (ms : Modes) (hlen : ∀ q ∈ ms, q.1.length = D)
    (hp : ms.Pairwise (fun q q' => q.1 ≠ q'.1 ∧ q.1 ≠ negK q'.1)) :
    msClosed ms = msDiag D ms := by
  unfold msClosed msDiag
  induction ms with
  | nil => simp [dsum]
  | cons q ms ih =>
    rw [List.pairwise_cons] at hp
    have ih' := ih (fun x hx => hlen x (List.mem_cons_of_mem _ hx)) hp.2
    rw [dsum_cons, ih', List.map_cons, List.sum_cons, msB_diag D q (hlen q List.mem_cons_self)]
    have z1 : (ms.map (msB q)).sum = 0 := by
      apply List.sum_eq_zero
      intro z hz
      obtain ⟨q', hq', rfl⟩ := List.mem_map.mp hz
      unfold msB
      rw [if_neg (hp.1 q' hq').2, if_neg (hp.1 q' hq').1]
      ring
    have z2 : (ms.map (fun q' => msB q' q)).sum = 0 := by
      apply List.sum_eq_zero
      intro z hz
      obtain ⟨q', hq', rfl⟩ := List.mem_map.mp hz
      unfold msB
      have n1 : q'.1 ≠ negK q.1 := fun h => (hp.1 q' hq').2 (by rw [h, negK_negK])
      have n2 : q'.1 ≠ q.1 := fun h => (hp.1 q' hq').1 h.symm
      rw [if_neg n1, if_neg n2]
      ring
    rw [z1, z2]
    ring

/-- H3 for pairwise distinct modes: `(L/N)^D Σ_j u_j² = L^D Σ_i (a_i² cos² φ_i if κ_i = 0 else a_i²/2)` -/
theorem spatialAggregator_stateOf_distinct (D N : ℕ) (hN : 0 < N) (L : ℝ) (ms : Modes)
    (hms : ∀ x ∈ ms, BelowNyquist D N x.1)
    (hp : ms.Pairwise (fun q q' => q.1 ≠ q'.1 ∧ q.1 ≠ negK q'.1)) :
    spatialAggregator D N L 2 1 (reArr (stateOf D N ms)) = L ^ D * msDiag D ms := by
  rw [spatialAggregator_stateOf_one D N hN L ms hms, msClosed_distinct D ms (fun q hq => (hms q hq).1) hp]

/-! non-vacuity: a constant, an axis wave and an oblique wave in 2-D on an 8 × 8 grid -/
example : ∃ ms : Modes, (∀ x ∈ ms, BelowNyquist 2 8 x.1) ∧
    ms.Pairwise (fun q q' => q.1 ≠ q'.1 ∧ q.1 ≠ negK q'.1) := by
  refine ⟨[([0, 0], 1, 0), ([1, 0], 2, 0.5), ([2, -3], 1, 1)], ?_, ?_⟩
  · intro x hx
    simp only [List.mem_cons, List.mem_nil_iff, or_false] at hx
    rcases hx with rfl | rfl | rfl <;> exact ⟨rfl, by intro d hd; interval_cases d <;> simp⟩
  · simp [negK]

/-- one mode twice (`u = 2 cos(x)`): the double sum merges the duplicates, `mean square = 2 = (1+1)²/2` -/
example : msClosed [([1], 1, 0), ([1], 1, 0)] = 2 := by
  simp [msClosed, dsum, msB, negK]
  norm_num

end Exponax.SmallGaps2
