import ExponaxModel.Proofs.WaveWholeSemigroup
import ExponaxModel.Proofs.C2RProjection
/-
C11 for the wave stepper on whole states (T3): the discrete wave energy

    `E(h, v) = Σ_j v_j² + c² Σ_j Σ_d (∂_d h)_j²`,   `∂_d = Nonlin.derivativeM (cfg D N L) 1 d` (the model's spectral derivative)

is conserved by the whole step `waveStep` on every real two-channel state without content at or above Nyquist
(`waveStep_energy`, `waveStep_energy_bandLimited`; for odd `N` every state qualifies, `bandLimited_of_odd`).

Route: Parseval in the half layout (`DFT.parseval_nd`) turns `E` into
    `N^{-D} Σ_h w_h (|ω_h ĥ_h|² + |v̂_h|²)`            (`waveEnergy_spectral`),
the spectrum of the stepped state is the per-mode image (`rfftnM_waveStep`), and every mode conserves
`|ω ĥ|² + |v̂|²` by the per-mode theorem `stepMode_energy` (= `C11_wave_energy`), the mean mode (`ω = 0`) keeping `v̂`.

The Nyquist caveat is sharp: `WaveWholeNyquist.lean` has the counterexample for even `N`.
-/
set_option linter.unusedVariables false
namespace Exponax.WaveWhole
open Exponax Exponax.Layout Exponax.Transform Exponax.DFT Exponax.ExactLinear Exponax.SpectralOpsEq
  Exponax.ReadOff Exponax.Nonlin Finset
open scoped ComplexConjugate

/-! ### the spectrum of a Fourier multiplier applied to a band-limited real state -/

/-- one mode: if the symbol is `μ` at the stored copy of `κ` and `conj μ` at the stored copy of `−κ`, the spectrum of
    `irfftn(G ⊙ rfftn u)` is `G ⊙ rfftn u` (nothing is lost in the c2r transform) -/
theorem rfftnM_specApply_modeField (D N : ℕ) (hD : 0 < D) (hN : 0 < N) (G : ℕ → ℂ) (κ : List ℤ)
    (hκ : BelowNyquist D N κ) (μ : ℂ)
    (h1 : ∀ h < numModes D N, wnFlat D N h = κ → G h = μ)
    (h2 : ∀ h < numModes D N, wnFlat D N h = negK κ → G h = conj μ)
    (a φ : ℝ) (m : ℕ) (hm : m < numModes D N) :
    (rfftnM D N (specApply D N G (modeField D N κ a φ))).getD m 0
      = G m * (rfftnM D N (modeField D N κ a φ)).getD m 0 := by
  obtain ⟨r, ψ, hμ⟩ : ∃ r ψ : ℝ, μ = (r : ℂ) * Complex.exp ((ψ : ℂ) * Complex.I) :=
    ⟨‖μ‖, Complex.arg μ, (Complex.norm_mul_exp_arg_mul_I μ).symm⟩
  subst hμ
  have hc : conj ((r : ℂ) * Complex.exp ((ψ : ℂ) * Complex.I))
      = (r : ℂ) * Complex.exp (-((ψ : ℂ) * Complex.I)) := by
    rw [map_mul, Complex.conj_ofReal, ← Complex.exp_conj, map_mul, Complex.conj_I, Complex.conj_ofReal, mul_neg]
  rw [specApply_modeField D N hD hN G κ hκ _ r ψ rfl h1 h2 a φ, rfftnM_modeField D N hD hN κ hκ _ _ m hm,
    rfftnM_modeField D N hD hN κ hκ a φ m hm]
  have EA : (((a * r : ℝ) : ℂ) / 2) * ((N ^ D : ℕ) : ℂ) * Complex.exp (((φ + ψ : ℝ) : ℂ) * Complex.I)
      = ((r : ℂ) * Complex.exp ((ψ : ℂ) * Complex.I))
          * (((a : ℂ) / 2) * ((N ^ D : ℕ) : ℂ) * Complex.exp ((φ : ℂ) * Complex.I)) := by
    push_cast
    rw [add_mul, Complex.exp_add]
    ring
  have EB : (((a * r : ℝ) : ℂ) / 2) * ((N ^ D : ℕ) : ℂ) * Complex.exp (-(((φ + ψ : ℝ) : ℂ) * Complex.I))
      = ((r : ℂ) * Complex.exp (-((ψ : ℂ) * Complex.I)))
          * (((a : ℂ) / 2) * ((N ^ D : ℕ) : ℂ) * Complex.exp (-((φ : ℂ) * Complex.I))) := by
    push_cast
    rw [add_mul, neg_add, Complex.exp_add]
    ring
  rw [EA, EB, mul_add]
  congr 1
  · by_cases hA : wnFlat D N m = κ
    · rw [if_pos hA, if_pos hA, h1 m hm hA]
    · rw [if_neg hA, if_neg hA, mul_zero]
  · by_cases hB : wnFlat D N m = negK κ
    · rw [if_pos hB, if_pos hB, h2 m hm hB, hc]
    · rw [if_neg hB, if_neg hB, mul_zero]

/-- superpositions -/
theorem rfftnM_specApply_stateOf (D N : ℕ) (hD : 0 < D) (hN : 0 < N) (G : ℕ → ℂ) (ms : Modes)
    (hms : ∀ q ∈ ms, BelowNyquist D N q.1)
    (hG : ∀ q ∈ ms, ∃ μ : ℂ, (∀ h < numModes D N, wnFlat D N h = q.1 → G h = μ) ∧
      (∀ h < numModes D N, wnFlat D N h = negK q.1 → G h = conj μ))
    (m : ℕ) (hm : m < numModes D N) :
    (rfftnM D N (specApply D N G (stateOf D N ms))).getD m 0 = G m * (rfftnM D N (stateOf D N ms)).getD m 0 := by
  induction ms with
  | nil =>
    rw [stateOf, List.map_nil, vsum_nil, specApply_vzero D N hN, rfftnM_vzero D N hN, vzero_getD, mul_zero]
  | cons q ms ih =>
    have e : stateOf D N (q :: ms) = vadd (N ^ D) (modeField D N q.1 q.2.1 q.2.2) (stateOf D N ms) := rfl
    obtain ⟨μ, g1, g2⟩ := hG q List.mem_cons_self
    rw [e, specApply_vadd D N hN, rfftnM_vadd D N hN, rfftnM_vadd D N hN, vadd_getD _ _ _ _ hm,
      vadd_getD _ _ _ _ hm,
      rfftnM_specApply_modeField D N hD hN G q.1 (hms q List.mem_cons_self) μ g1 g2 _ _ m hm,
      ih (fun p hp => hms p (List.mem_cons_of_mem _ hp)) (fun p hp => hG p (List.mem_cons_of_mem _ hp)), mul_add]

/-- real multipliers that are even functions of the wave vector -/
theorem rfftnM_mulStep_stateOf (D N : ℕ) (hD : 0 < D) (hN : 0 < N) (c L : ℝ) (f : ℝ → ℝ) (ms : Modes)
    (hms : ∀ q ∈ ms, BelowNyquist D N q.1) (m : ℕ) (hm : m < numModes D N) :
    (rfftnM D N (mulStep D N (omMul D N c L f) (stateOf D N ms))).getD m 0
      = ((omMul D N c L f m : ℝ) : ℂ) * (rfftnM D N (stateOf D N ms)).getD m 0 := by
  apply rfftnM_specApply_stateOf D N hD hN (fun h => ((omMul D N c L f h : ℝ) : ℂ)) ms hms _ m hm
  intro q _
  refine ⟨((f (waveOmega D c L q.1) : ℝ) : ℂ), ?_, ?_⟩
  · intro h _ hk
    simp only [omMul, hk]
  · intro h _ hk
    simp only [omMul, hk, waveOmega_negK, Complex.conj_ofReal]

/-- the model derivative of order 1 along axis `d` -/
theorem rfftnM_derivativeM_stateOf (D N : ℕ) (hD : 0 < D) (hN : 0 < N) (L : ℝ) (d : ℕ) (ms : Modes)
    (hms : ∀ q ∈ ms, BelowNyquist D N q.1) (m : ℕ) (hm : m < numModes D N) :
    (rfftnM D N (derivativeM (cfg D N (L : ℂ)) 1 d (stateOf D N ms))).getD m 0
      = Nonlin.deriv (cfg D N (L : ℂ)) d m * (rfftnM D N (stateOf D N ms)).getD m 0 := by
  have hs : (cfg D N (L : ℂ)).s = ((2 * Real.pi / L : ℝ) : ℂ) := by rw [cfg_s]; push_cast; rfl
  have key := rfftnM_specApply_stateOf D N hD hN (fun h => npow (Nonlin.deriv (cfg D N (L : ℂ)) d h) 1) ms hms
    (by
      intro q _
      refine ⟨(Complex.I * (((2 * Real.pi / L : ℝ) : ℂ) * ((q.1.getD d 0 : ℤ) : ℂ))) ^ 1, ?_, ?_⟩
      · intro h hh hk
        rw [npow_eq, Nonlin.deriv_eq, hs]
        unfold kInt
        rw [cfg_D, cfg_N, hk]
      · intro h hh hk
        rw [← deriv_symbol_conj, npow_eq, Nonlin.deriv_eq, hs]
        unfold kInt
        rw [cfg_D, cfg_N, hk, negK_getD]) m hm
  rw [npow_eq, pow_one] at key
  exact key

/-! ### the energy -/

/-- the discrete wave energy `Σ_j v_j² + c² Σ_j Σ_d (∂_d h)_j²` of the two-channel state `u = #[h, v]`, with the model's
    spectral derivative; `‖z‖² = z²` for the real values of a real state -/
noncomputable def waveEnergy (D N : ℕ) (L c : ℝ) (u : MC ℂ) : ℝ :=
  ∑ j ∈ range (N ^ D), ‖at2 u 1 j‖ ^ 2
    + c ^ 2 * ∑ j ∈ range (N ^ D), ∑ d ∈ range D,
        ‖(derivativeM (cfg D N (L : ℂ)) 1 d (u.getD 0 #[])).getD j 0‖ ^ 2

/-- the energy in the half layout -/
noncomputable def specEnergy (D N : ℕ) (L c : ℝ) (hh vh : Array ℂ) : ℝ :=
  (1 / ((N ^ D : ℕ) : ℝ)) * ∑ m ∈ range (numModes D N), (herm_weight D N m : ℝ) *
    (‖((waveOmega D c L (wnFlat D N m) : ℝ) : ℂ) * hh.getD m 0‖ ^ 2 + ‖vh.getD m 0‖ ^ 2)

theorem waveOmega_sq (D : ℕ) (c L : ℝ) (κ : List ℤ) :
    waveOmega D c L κ ^ 2 = c ^ 2 * ((2 * Real.pi / L) ^ 2 * ((kappaSq D κ : ℤ) : ℝ)) := by
  have hk : (0 : ℝ) ≤ ((kappaSq D κ : ℤ) : ℝ) := by exact_mod_cast kappaSq_nonneg D κ
  unfold waveOmega
  rw [mul_pow, mul_pow, Real.sq_sqrt hk]

theorem sum_norm_deriv_sq (D N : ℕ) (L : ℝ) (m : ℕ) :
    ∑ d ∈ range D, ‖Nonlin.deriv (cfg D N (L : ℂ)) d m‖ ^ 2
      = (2 * Real.pi / L) ^ 2 * ((kappaSq D (wnFlat D N m) : ℤ) : ℝ) := by
  have hs : (cfg D N (L : ℂ)).s = ((2 * Real.pi / L : ℝ) : ℂ) := by rw [cfg_s]; push_cast; rfl
  unfold kappaSq
  push_cast
  rw [Finset.mul_sum]
  apply Finset.sum_congr rfl
  intro d _
  rw [Nonlin.deriv_eq_real _ _ hs, norm_mul, Complex.norm_I, one_mul, Complex.norm_real, Real.norm_eq_abs,
    sq_abs, mul_pow]
  rfl

/-- Parseval for the gradient of a band-limited real state -/
theorem sum_derivative_sq (D N : ℕ) (hD : 0 < D) (hN : 0 < N) (L : ℝ) (d : ℕ) (ms : Modes)
    (hms : ∀ q ∈ ms, BelowNyquist D N q.1) :
    ∑ j ∈ range (N ^ D), ‖(derivativeM (cfg D N (L : ℂ)) 1 d (stateOf D N ms)).getD j 0‖ ^ 2
      = (1 / ((N ^ D : ℕ) : ℝ)) * ∑ m ∈ range (numModes D N), (herm_weight D N m : ℝ) *
          (‖Nonlin.deriv (cfg D N (L : ℂ)) d m‖ ^ 2 * ‖(rfftnM D N (stateOf D N ms)).getD m 0‖ ^ 2) := by
  have hre : ∀ j < N ^ D, ((derivativeM (cfg D N (L : ℂ)) 1 d (stateOf D N ms)).getD j 0).im = 0 :=
    fun j hj => Conserve.irfftnM_real D N hN _ j hj
  rw [parseval_nd D N hD hN _ hre]
  congr 1
  apply Finset.sum_congr rfl
  intro m hm
  rw [rfftnM_derivativeM_stateOf D N hD hN L d ms hms m (Finset.mem_range.mp hm), norm_mul, mul_pow]

/-- **the energy of a band-limited height and a real velocity, in the half layout** -/
theorem waveEnergy_spectral (D N : ℕ) (hD : 0 < D) (hN : 0 < N) (L c : ℝ) (ms : Modes)
    (hms : ∀ q ∈ ms, BelowNyquist D N q.1) (v : Array ℂ) (hv : ∀ j < N ^ D, (v.getD j 0).im = 0) :
    waveEnergy D N L c #[stateOf D N ms, v]
      = specEnergy D N L c (rfftnM D N (stateOf D N ms)) (rfftnM D N v) := by
  unfold waveEnergy specEnergy
  have e1 : ∀ j, at2 (#[stateOf D N ms, v] : MC ℂ) 1 j = v.getD j 0 := fun j => rfl
  have e0 : (#[stateOf D N ms, v] : MC ℂ).getD 0 #[] = stateOf D N ms := rfl
  simp only [e1, e0]
  rw [parseval_nd D N hD hN v hv, Finset.sum_comm]
  simp only [sum_derivative_sq D N hD hN L _ ms hms]
  rw [← Finset.mul_sum, Finset.sum_comm, ← mul_assoc, mul_comm (c ^ 2), mul_assoc, ← mul_add, Finset.mul_sum,
    ← Finset.sum_add_distrib]
  congr 1
  apply Finset.sum_congr rfl
  intro m _
  rw [← Finset.mul_sum, ← Finset.sum_mul, sum_norm_deriv_sq, norm_mul, mul_pow, Complex.norm_real,
    Real.norm_eq_abs, sq_abs, waveOmega_sq]
  ring

/-! ### the spectrum of the stepped state, and the per-mode conservation -/

/-- the spectrum of the stepped state is the per-mode image `(A ĥ + B v̂, C ĥ + A v̂)` -/
theorem rfftnM_waveStep (D N : ℕ) (hD : 0 < D) (hN : 0 < N) (c L t : ℝ) (hc : c ≠ 0) (hL : 0 < L)
    (ms ms' : Modes) (hms : ∀ q ∈ ms, BelowNyquist D N q.1) (hms' : ∀ q ∈ ms', BelowNyquist D N q.1)
    (m : ℕ) (hm : m < numModes D N) :
    (rfftnM D N ((waveStep D N (L : ℂ) (t : ℂ) (c : ℂ) #[stateOf D N ms, stateOf D N ms']).getD 0 #[])).getD m 0
        = ((mCos D N c L t m : ℝ) : ℂ) * (rfftnM D N (stateOf D N ms)).getD m 0
          + ((mSinc D N c L t m : ℝ) : ℂ) * (rfftnM D N (stateOf D N ms')).getD m 0 ∧
      (rfftnM D N ((waveStep D N (L : ℂ) (t : ℂ) (c : ℂ) #[stateOf D N ms, stateOf D N ms']).getD 1 #[])).getD m 0
        = ((mOmSin D N c L t m : ℝ) : ℂ) * (rfftnM D N (stateOf D N ms)).getD m 0
          + ((mCos D N c L t m : ℝ) : ℂ) * (rfftnM D N (stateOf D N ms')).getD m 0 := by
  rw [waveStep_channels D N hD hN c L t hc hL, pair_getD_zero, pair_getD_one, rfftnM_vadd D N hN,
    rfftnM_vadd D N hN, vadd_getD _ _ _ _ hm, vadd_getD _ _ _ _ hm]
  simp only [mCos_eq, mSinc_eq, mOmSin_eq]
  rw [rfftnM_mulStep_stateOf D N hD hN c L _ ms hms m hm, rfftnM_mulStep_stateOf D N hD hN c L _ ms' hms' m hm,
    rfftnM_mulStep_stateOf D N hD hN c L _ ms hms m hm, rfftnM_mulStep_stateOf D N hD hN c L _ ms' hms' m hm]
  exact ⟨rfl, rfl⟩

/-- **every stored mode conserves `|ω ĥ|² + |v̂|²`**: the per-mode theorem `stepMode_energy` (`C11_wave_energy`) away
    from the mean mode, and `v̂ ↦ v̂` with `ω = 0` at the mean mode -/
theorem mode_energy (D N : ℕ) (hD : 0 < D) (hN : 0 < N) (c L t : ℝ) (hc : c ≠ 0) (hL : 0 < L) (m : ℕ)
    (hm : m < numModes D N) (x y : ℂ) :
    ‖((waveOmega D c L (wnFlat D N m) : ℝ) : ℂ) * (((mCos D N c L t m : ℝ) : ℂ) * x + ((mSinc D N c L t m : ℝ) : ℂ) * y)‖ ^ 2
        + ‖((mOmSin D N c L t m : ℝ) : ℂ) * x + ((mCos D N c L t m : ℝ) : ℂ) * y‖ ^ 2
      = ‖((waveOmega D c L (wnFlat D N m) : ℝ) : ℂ) * x‖ ^ 2 + ‖y‖ ^ 2 := by
  have cl := stepMode_closed D N hD hN c L t hc hL m hm x y
  by_cases h0 : m = 0
  · subst h0
    have hz : ∀ d < D, (wnFlat D N 0).getD d 0 = 0 := fun d _ => wnFlat_zero D N d
    obtain ⟨hω, h1, h2, h3⟩ := wave_mean_mode D c L t (wnFlat D N 0) hz
    unfold mCos mSinc mOmSin
    rw [h1, h3, hω]
    simp
  · have hne : ¬ ∀ d < D, (wnFlat D N m).getD d 0 = 0 := fun hz => h0 (eq_zero_of_wnFlat_zero D N hD hN m hm hz)
    have hω : waveOmega D c L (wnFlat D N m) ≠ 0 := fun e => hne ((waveOmega_eq_zero_iff D c L hc hL _).1 e)
    have hkn : 2 * Real.pi / L * Real.sqrt ((kappaSq D (wnFlat D N m) : ℤ) : ℝ) ≠ 0 := by
      intro e
      apply hω
      unfold waveOmega
      rw [e, mul_zero]
    have en := stepMode_energy c t (2 * Real.pi / L * Real.sqrt ((kappaSq D (wnFlat D N m) : ℤ) : ℝ)) x y hc hkn
    rw [waveKn_omega D N hD hN c L hL m hm, show decide (m = 0) = false from decide_eq_false h0] at cl
    rw [cl] at en
    exact en

/-! ### T3 -/

/-- **T3 (C11): the whole wave step conserves the discrete wave energy** of every two-channel superposition of modes
    strictly below Nyquist — all `D ≥ 1`, `N ≥ 1`, every real `t`, `L > 0`, `c ≠ 0` -/
theorem waveStep_energy (D N : ℕ) (hD : 0 < D) (hN : 0 < N) (c L t : ℝ) (hc : c ≠ 0) (hL : 0 < L)
    (ms ms' : Modes) (hms : ∀ q ∈ ms, BelowNyquist D N q.1) (hms' : ∀ q ∈ ms', BelowNyquist D N q.1) :
    waveEnergy D N L c (waveStep D N (L : ℂ) (t : ℂ) (c : ℂ) #[stateOf D N ms, stateOf D N ms'])
      = waveEnergy D N L c #[stateOf D N ms, stateOf D N ms'] := by
  have hsp := rfftnM_waveStep D N hD hN c L t hc hL ms ms' hms hms'
  have hT1 := waveStep_stateOf D N hD hN c L t hc hL ms ms' hms hms'
  have hBH : ∀ q ∈ waveH D c L t ms ms', BelowNyquist D N q.1 := by
    intro q hq
    unfold waveH at hq
    rcases List.mem_append.mp hq with hq | hq
    · obtain ⟨p, hp, rfl⟩ := List.mem_map.mp hq; exact hms p hp
    · obtain ⟨p, hp, rfl⟩ := List.mem_map.mp hq; exact hms' p hp
  rw [waveEnergy_spectral D N hD hN L c ms hms _ (stateOf_real D N ms')]
  have e0 : (waveStep D N (L : ℂ) (t : ℂ) (c : ℂ) #[stateOf D N ms, stateOf D N ms']).getD 0 #[]
      = stateOf D N (waveH D c L t ms ms') := by rw [hT1]; rfl
  have e1 : (waveStep D N (L : ℂ) (t : ℂ) (c : ℂ) #[stateOf D N ms, stateOf D N ms']).getD 1 #[]
      = stateOf D N (waveV D c L t ms ms') := by rw [hT1]; rfl
  rw [hT1, waveEnergy_spectral D N hD hN L c _ hBH _ (stateOf_real D N _)]
  unfold specEnergy
  congr 1
  apply Finset.sum_congr rfl
  intro m hm
  have hm' := Finset.mem_range.mp hm
  rw [← e0, ← e1, (hsp m hm').1, (hsp m hm').2, mode_energy D N hD hN c L t hc hL m hm']

/-- T3 for every pair of real arrays without content at or above Nyquist -/
theorem waveStep_energy_bandLimited (D N : ℕ) (hD : 0 < D) (hN : 0 < N) (c L t : ℝ) (hc : c ≠ 0) (hL : 0 < L)
    (u₀ u₁ : Array ℂ) (h₀ : RealBL D N u₀) (h₁ : RealBL D N u₁) :
    waveEnergy D N L c (waveStep D N (L : ℂ) (t : ℂ) (c : ℂ) #[u₀, u₁]) = waveEnergy D N L c #[u₀, u₁] := by
  obtain ⟨ms, hms, rfl⟩ := exists_modes_of_bandLimited D N hD hN u₀ h₀.1 h₀.2.1 h₀.2.2
  obtain ⟨ms', hms', rfl⟩ := exists_modes_of_bandLimited D N hD hN u₁ h₁.1 h₁.2.1 h₁.2.2
  exact waveStep_energy D N hD hN c L t hc hL ms ms' hms hms'

/-- long rollouts: the energy after `n` steps is the initial energy -/
theorem waveStep_energy_iterate (D N : ℕ) (hD : 0 < D) (hN : 0 < N) (c L t : ℝ) (hc : c ≠ 0) (hL : 0 < L)
    (u₀ u₁ : Array ℂ) (h₀ : RealBL D N u₀) (h₁ : RealBL D N u₁) (n : ℕ) :
    waveEnergy D N L c ((waveStep D N (L : ℂ) (t : ℂ) (c : ℂ))^[n] #[u₀, u₁]) = waveEnergy D N L c #[u₀, u₁] := by
  rw [waveStep_iterate_bandLimited D N hD hN c L t hc hL u₀ u₁ h₀ h₁ n]
  exact waveStep_energy_bandLimited D N hD hN c L _ hc hL u₀ u₁ h₀ h₁

/-! non-vacuity -/
example : ∃ (G : ℕ → ℂ) (ms : Modes), (∀ q ∈ ms, BelowNyquist 2 4 q.1) ∧
    ∀ q ∈ ms, ∃ μ : ℂ, (∀ h < numModes 2 4, wnFlat 2 4 h = q.1 → G h = μ) ∧
      (∀ h < numModes 2 4, wnFlat 2 4 h = negK q.1 → G h = conj μ) := by
  refine ⟨fun _ => 1, [([1, 1], 2, 0.5)], ?_, fun q _ => ⟨1, fun _ _ _ => rfl, fun _ _ _ => by simp⟩⟩
  intro m hm
  simp only [List.mem_cons, List.mem_nil_iff, or_false] at hm
  subst hm
  exact ⟨rfl, by intro d hd; interval_cases d <;> simp⟩
example : ∃ (u₀ u₁ : Array ℂ) (c L : ℝ), RealBL 2 4 u₀ ∧ RealBL 2 4 u₁ ∧ c ≠ 0 ∧ 0 < L := by
  have hms : ∀ m ∈ ([([1, 1], 2, 0.5)] : Modes), BelowNyquist 2 4 m.1 := by
    intro m hm
    simp only [List.mem_cons, List.mem_nil_iff, or_false] at hm
    subst hm
    exact ⟨rfl, by intro d hd; interval_cases d <;> simp⟩
  have h : RealBL 2 4 (stateOf 2 4 [([1, 1], 2, 0.5)]) :=
    ⟨by simp, stateOf_real 2 4 _, bandLimited_stateOf 2 4 (by norm_num) (by norm_num) _ hms⟩
  exact ⟨_, _, 3, 2, h, h, by norm_num, by norm_num⟩

end Exponax.WaveWhole
