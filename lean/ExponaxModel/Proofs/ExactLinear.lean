import ExponaxModel.Proofs.ExactLinearIndex
import ExponaxModel.Proofs.SymbolAlgebra
/-
C01 support, part 3 (A2, A3): one call of a linear stepper,
  `linStep D N Λ t u = irfftnM D N (h ↦ E0step (exp_term t (Λ h)) (rfftnM D N u)_h)`,
maps the single-mode field `a cos(2π κ·j/N + φ)` (strictly below Nyquist) to
  `a e^{t Re λ_κ} cos(2π κ·j/N + φ + t Im λ_κ)`      for EVERY real `t`,
and, by linearity of `rfftnM` / `irfftnM`, every finite superposition of such modes to the superposition of
the analytic solutions.  (`ExactLinearSemigroup.lean` has A4 and the `polySymbol` instance.)
-/
set_option linter.unusedVariables false
namespace Exponax.ExactLinear
open Exponax Exponax.Layout Exponax.Transform Exponax.DFT Exponax.Gen.Etdrk Finset
open scoped ComplexConjugate

/-! ### arrays -/

/-- arrays of the same size with the same entries are equal -/
theorem array_ext_getD (a b : Array ℂ) (n : ℕ) (ha : a.size = n) (hb : b.size = n)
    (h : ∀ j < n, a.getD j 0 = b.getD j 0) : a = b := by
  apply Array.ext (by omega)
  intro j h1 h2
  have := h j (by omega)
  simpa [Array.getD, h1, h2] using this

/-- entrywise sum of two arrays (length `n`) -/
noncomputable def vadd (n : ℕ) (u v : Array ℂ) : Array ℂ := tab n (fun j => u.getD j 0 + v.getD j 0)
/-- scalar multiple of an array (length `n`) -/
noncomputable def vsmul (n : ℕ) (c : ℂ) (u : Array ℂ) : Array ℂ := tab n (fun j => c * u.getD j 0)
/-- the zero array -/
noncomputable def vzero (n : ℕ) : Array ℂ := tab n (fun _ => 0)
/-- entrywise sum of a list of arrays -/
noncomputable def vsum (n : ℕ) (us : List (Array ℂ)) : Array ℂ := us.foldr (vadd n) (vzero n)

@[simp] theorem vadd_size (n : ℕ) (u v : Array ℂ) : (vadd n u v).size = n := by simp [vadd]
@[simp] theorem vsmul_size (n : ℕ) (c : ℂ) (u : Array ℂ) : (vsmul n c u).size = n := by simp [vsmul]
@[simp] theorem vzero_size (n : ℕ) : (vzero n).size = n := by simp [vzero]

theorem vadd_getD (n : ℕ) (u v : Array ℂ) (j : ℕ) (hj : j < n) :
    (vadd n u v).getD j 0 = u.getD j 0 + v.getD j 0 := by rw [vadd, tab_getD _ _ _ _ hj]
theorem vsmul_getD (n : ℕ) (c : ℂ) (u : Array ℂ) (j : ℕ) (hj : j < n) :
    (vsmul n c u).getD j 0 = c * u.getD j 0 := by rw [vsmul, tab_getD _ _ _ _ hj]
theorem vzero_getD (n : ℕ) (j : ℕ) : (vzero n).getD j 0 = 0 := by
  rcases Nat.lt_or_ge j n with hj | hj
  · rw [vzero, tab_getD _ _ _ _ hj]
  · rw [vzero, tab_getD_of_le _ _ _ _ hj]

@[simp] theorem vsum_nil (n : ℕ) : vsum n [] = vzero n := rfl
@[simp] theorem vsum_cons (n : ℕ) (u : Array ℂ) (us : List (Array ℂ)) :
    vsum n (u :: us) = vadd n u (vsum n us) := rfl

@[simp] theorem vsum_size (n : ℕ) (us : List (Array ℂ)) : (vsum n us).size = n := by
  cases us <;> simp

theorem vsum_getD (n : ℕ) (us : List (Array ℂ)) (j : ℕ) (hj : j < n) :
    (vsum n us).getD j 0 = (us.map (fun u => u.getD j 0)).sum := by
  induction us with
  | nil => rw [vsum_nil, vzero_getD]; simp
  | cons u us ih => rw [vsum_cons, vadd_getD _ _ _ _ hj, ih, List.map_cons, List.sum_cons]

/-! ### A3 (lemmas): the transforms are additive and homogeneous -/

theorem rfftnM_vadd (D N : ℕ) (hN : 0 < N) (u v : Array ℂ) :
    rfftnM D N (vadd (N ^ D) u v) = vadd (numModes D N) (rfftnM D N u) (rfftnM D N v) := by
  apply array_ext_getD _ _ (numModes D N) (by simp) (by simp)
  intro h hh
  rw [vadd_getD _ _ _ _ hh, rfftnM_getD D N hN _ h hh, rfftnM_getD D N hN u h hh,
    rfftnM_getD D N hN v h hh, ← Finset.sum_add_distrib]
  apply Finset.sum_congr rfl
  intro j hj
  rw [vadd_getD _ _ _ _ (Finset.mem_range.mp hj)]
  ring

/-- `rfftnM` is homogeneous for every complex scalar -/
theorem rfftnM_vsmul (D N : ℕ) (hN : 0 < N) (c : ℂ) (u : Array ℂ) :
    rfftnM D N (vsmul (N ^ D) c u) = vsmul (numModes D N) c (rfftnM D N u) := by
  apply array_ext_getD _ _ (numModes D N) (by simp) (by simp)
  intro h hh
  rw [vsmul_getD _ _ _ _ hh, rfftnM_getD D N hN _ h hh, rfftnM_getD D N hN u h hh, Finset.mul_sum]
  apply Finset.sum_congr rfl
  intro j hj
  rw [vsmul_getD _ _ _ _ (Finset.mem_range.mp hj)]
  ring

theorem rfftnM_vzero (D N : ℕ) (hN : 0 < N) : rfftnM D N (vzero (N ^ D)) = vzero (numModes D N) := by
  apply array_ext_getD _ _ (numModes D N) (by simp) (by simp)
  intro h hh
  rw [vzero_getD, rfftnM_getD D N hN _ h hh]
  apply Finset.sum_eq_zero
  intro j _
  rw [vzero_getD, zero_mul]

theorem irfftnM_vadd (D N : ℕ) (hN : 0 < N) (c d : Array ℂ) :
    irfftnM D N (vadd (numModes D N) c d) = vadd (N ^ D) (irfftnM D N c) (irfftnM D N d) := by
  apply array_ext_getD _ _ (N ^ D) (by simp) (by simp)
  intro j hj
  rw [vadd_getD _ _ _ _ hj, irfftnM_getD D N hN _ j hj, irfftnM_getD D N hN c j hj,
    irfftnM_getD D N hN d j hj, ← add_div, ← Finset.sum_add_distrib]
  congr 1
  apply Finset.sum_congr rfl
  intro h hh
  rw [vadd_getD _ _ _ _ (Finset.mem_range.mp hh), add_mul, Complex.add_re]
  push_cast
  ring

/-- `irfftnM` is homogeneous for REAL scalars (it takes real parts) -/
theorem irfftnM_vsmul_real (D N : ℕ) (hN : 0 < N) (r : ℝ) (c : Array ℂ) :
    irfftnM D N (vsmul (numModes D N) (r : ℂ) c) = vsmul (N ^ D) (r : ℂ) (irfftnM D N c) := by
  apply array_ext_getD _ _ (N ^ D) (by simp) (by simp)
  intro j hj
  rw [vsmul_getD _ _ _ _ hj, irfftnM_getD D N hN _ j hj, irfftnM_getD D N hN c j hj, ← mul_div_assoc,
    Finset.mul_sum]
  congr 1
  apply Finset.sum_congr rfl
  intro h hh
  rw [vsmul_getD _ _ _ _ (Finset.mem_range.mp hh), mul_assoc, Complex.re_ofReal_mul]
  push_cast
  ring

theorem irfftnM_vzero (D N : ℕ) (hN : 0 < N) : irfftnM D N (vzero (numModes D N)) = vzero (N ^ D) := by
  apply array_ext_getD _ _ (N ^ D) (by simp) (by simp)
  intro j hj
  rw [vzero_getD, irfftnM_getD D N hN _ j hj]
  have : ∀ h ∈ range (numModes D N), (herm_weight D N h : ℂ) *
      ((((vzero (numModes D N)).getD h 0 * twiddle N (-(phaseK D N (wnFlat D N h) j))).re : ℝ) : ℂ) = 0 := by
    intro h _
    rw [vzero_getD, zero_mul]
    simp
  rw [Finset.sum_eq_zero this, zero_div]

/-! ### one call of a linear stepper -/

/-- `irfftn(exp(t·Λ) ⊙ rfftn(u))` — the composition of the model's transforms with the regenerated
    `E0step` / `exp_term`, mode by mode -/
noncomputable def linStep (D N : ℕ) (Λ : ℕ → ℂ) (t : ℂ) (u : Array ℂ) : Array ℂ :=
  irfftnM D N (tab (numModes D N) (fun h => E0step (exp_term t (Λ h)) ((rfftnM D N u).getD h 0)))

@[simp] theorem linStep_size (D N : ℕ) (Λ : ℕ → ℂ) (t : ℂ) (u : Array ℂ) :
    (linStep D N Λ t u).size = N ^ D := by simp [linStep]

theorem linStep_getD (D N : ℕ) (hN : 0 < N) (Λ : ℕ → ℂ) (t : ℂ) (u : Array ℂ) (j : ℕ) (hj : j < N ^ D) :
    (linStep D N Λ t u).getD j 0
      = (∑ h ∈ range (numModes D N), (herm_weight D N h : ℂ) *
          (((Complex.exp (t * Λ h) * (rfftnM D N u).getD h 0
              * zeta N ^ (-(phaseK D N (wnFlat D N h) j))).re : ℝ) : ℂ)) / ((N ^ D : ℕ) : ℂ) := by
  unfold linStep
  rw [irfftnM_getD D N hN _ j hj]
  congr 1
  apply Finset.sum_congr rfl
  intro h hh
  rw [tab_getD _ _ _ _ (Finset.mem_range.mp hh), twiddle_eq_zpow, exp_term_eq]
  rfl

/-- the spectral multiplier as arrays -/
theorem linStep_eq (D N : ℕ) (Λ : ℕ → ℂ) (t : ℂ) (u : Array ℂ) :
    linStep D N Λ t u
      = irfftnM D N (tab (numModes D N) (fun h => Complex.exp (t * Λ h) * (rfftnM D N u).getD h 0)) := by
  rfl

theorem linStep_vadd (D N : ℕ) (hN : 0 < N) (Λ : ℕ → ℂ) (t : ℂ) (u v : Array ℂ) :
    linStep D N Λ t (vadd (N ^ D) u v) = vadd (N ^ D) (linStep D N Λ t u) (linStep D N Λ t v) := by
  rw [linStep_eq, linStep_eq, linStep_eq, ← irfftnM_vadd D N hN, rfftnM_vadd D N hN]
  congr 1
  apply array_ext_getD _ _ (numModes D N) (by simp) (by simp)
  intro h hh
  rw [tab_getD _ _ _ _ hh, vadd_getD _ _ _ _ hh, vadd_getD _ _ _ _ hh, tab_getD _ _ _ _ hh,
    tab_getD _ _ _ _ hh]
  ring

theorem linStep_vsmul_real (D N : ℕ) (hN : 0 < N) (Λ : ℕ → ℂ) (t : ℂ) (r : ℝ) (u : Array ℂ) :
    linStep D N Λ t (vsmul (N ^ D) (r : ℂ) u) = vsmul (N ^ D) (r : ℂ) (linStep D N Λ t u) := by
  rw [linStep_eq, linStep_eq, ← irfftnM_vsmul_real D N hN, rfftnM_vsmul D N hN]
  congr 1
  apply array_ext_getD _ _ (numModes D N) (by simp) (by simp)
  intro h hh
  rw [tab_getD _ _ _ _ hh, vsmul_getD _ _ _ _ hh, vsmul_getD _ _ _ _ hh, tab_getD _ _ _ _ hh]
  ring

theorem linStep_vzero (D N : ℕ) (hN : 0 < N) (Λ : ℕ → ℂ) (t : ℂ) :
    linStep D N Λ t (vzero (N ^ D)) = vzero (N ^ D) := by
  have e : tab (numModes D N) (fun h => Complex.exp (t * Λ h) * (vzero (numModes D N)).getD h 0)
      = vzero (numModes D N) := by
    apply array_ext_getD _ _ (numModes D N) (by simp) (by simp)
    intro h hh
    rw [tab_getD _ _ _ _ hh, vzero_getD, mul_zero]
  rw [linStep_eq, rfftnM_vzero D N hN, e, irfftnM_vzero D N hN]

/-- **Superposition**: the step of a finite sum of fields is the sum of the steps -/
theorem linStep_vsum (D N : ℕ) (hN : 0 < N) (Λ : ℕ → ℂ) (t : ℂ) (us : List (Array ℂ)) :
    linStep D N Λ t (vsum (N ^ D) us) = vsum (N ^ D) (us.map (linStep D N Λ t)) := by
  induction us with
  | nil => simp [linStep_vzero D N hN]
  | cons u us ih => rw [vsum_cons, linStep_vadd D N hN, ih, List.map_cons, vsum_cons]

/-- with `t = 0` and the zero symbol the step is the bare round trip -/
theorem linStep_zero (D N : ℕ) (u : Array ℂ) :
    linStep D N (fun _ => 0) 0 u = irfftnM D N (rfftnM D N u) := by
  rw [linStep_eq]
  congr 1
  apply array_ext_getD _ _ (numModes D N) (by simp) (by simp)
  intro h hh
  rw [tab_getD _ _ _ _ hh]
  simp

/-! ### A2: the step of one mode -/

/-- total c2r weight carried by the stored copies of `±κ` -/
noncomputable def Wsum (D N : ℕ) (κ : List ℤ) : ℂ :=
  ∑ h ∈ range (numModes D N), (herm_weight D N h : ℂ) *
    ((if wnFlat D N h = κ then 1 else 0) + (if wnFlat D N h = negK κ then 1 else 0))

theorem conj_coef (a φ : ℝ) (n : ℕ) :
    conj ((a / 2 : ℂ) * (n : ℂ) * Complex.exp (φ * Complex.I))
      = (a / 2 : ℂ) * (n : ℂ) * Complex.exp (-(φ * Complex.I)) := by
  have e1 : ((a : ℂ) / 2) = (((a / 2 : ℝ)) : ℂ) := by push_cast; ring
  rw [map_mul, map_mul, e1, Complex.conj_ofReal, Complex.conj_natCast, ← Complex.exp_conj, map_mul,
    Complex.conj_I, Complex.conj_ofReal, mul_neg]

/-- the step of one mode, before evaluating the weight sum -/
theorem linStep_modeField_sum (D N : ℕ) (hD : 0 < D) (hN : 0 < N) (Λ : ℕ → ℂ) (κ : List ℤ)
    (hκ : BelowNyquist D N κ) (μ : ℂ)
    (h1 : ∀ h < numModes D N, wnFlat D N h = κ → Λ h = μ)
    (h2 : ∀ h < numModes D N, wnFlat D N h = negK κ → Λ h = conj μ)
    (t a φ : ℝ) (j : ℕ) (hj : j < N ^ D) :
    (linStep D N Λ t (modeField D N κ a φ)).getD j 0
      = (((Complex.exp (t * μ) * ((a / 2 : ℂ) * ((N ^ D : ℕ) : ℂ) * Complex.exp (φ * Complex.I))
            * zeta N ^ (-(phaseK D N κ j))).re : ℝ) : ℂ) * Wsum D N κ / ((N ^ D : ℕ) : ℂ) := by
  rw [linStep_getD D N hN Λ t _ j hj]
  congr 1
  unfold Wsum
  rw [Finset.mul_sum]
  apply Finset.sum_congr rfl
  intro h hh
  have hh' := Finset.mem_range.mp hh
  rw [rfftnM_modeField D N hD hN κ hκ a φ h hh']
  set c : ℂ := (a / 2 : ℂ) * ((N ^ D : ℕ) : ℂ) * Complex.exp (φ * Complex.I) with hc
  set c' : ℂ := (a / 2 : ℂ) * ((N ^ D : ℕ) : ℂ) * Complex.exp (-(φ * Complex.I)) with hc'
  set X : ℂ := Complex.exp (t * μ) * c * zeta N ^ (-(phaseK D N κ j)) with hX
  have FA : wnFlat D N h = κ →
      Complex.exp (t * Λ h) * c * zeta N ^ (-(phaseK D N (wnFlat D N h) j)) = X := by
    intro hA
    rw [h1 h hh' hA, hA]
  have FB : wnFlat D N h = negK κ →
      Complex.exp (t * Λ h) * c' * zeta N ^ (-(phaseK D N (wnFlat D N h) j)) = conj X := by
    intro hB
    rw [h2 h hh' hB, hB, phaseK_negK, neg_neg, hX, map_mul, map_mul, conj_zeta_zpow, neg_neg, hc,
      conj_coef, ← Complex.exp_conj, map_mul, Complex.conj_ofReal]
  have key : Complex.exp (t * Λ h) * ((if wnFlat D N h = κ then c else 0)
        + (if wnFlat D N h = negK κ then c' else 0)) * zeta N ^ (-(phaseK D N (wnFlat D N h) j))
      = (if wnFlat D N h = κ then X else 0) + (if wnFlat D N h = negK κ then conj X else 0) := by
    by_cases hA : wnFlat D N h = κ
    · by_cases hB : wnFlat D N h = negK κ
      · rw [if_pos hA, if_pos hB, if_pos hA, if_pos hB]; linear_combination FA hA + FB hB
      · rw [if_pos hA, if_neg hB, if_pos hA, if_neg hB]; linear_combination FA hA
    · by_cases hB : wnFlat D N h = negK κ
      · rw [if_neg hA, if_pos hB, if_neg hA, if_pos hB]; linear_combination FB hB
      · rw [if_neg hA, if_neg hB, if_neg hA, if_neg hB]; ring
  rw [key]
  have hre : ((((if wnFlat D N h = κ then X else 0)
        + (if wnFlat D N h = negK κ then conj X else 0)).re : ℝ) : ℂ)
      = (X.re : ℂ) * ((if wnFlat D N h = κ then (1 : ℂ) else 0)
          + (if wnFlat D N h = negK κ then (1 : ℂ) else 0)) := by
    split_ifs <;> simp
    ring
  rw [hre]
  ring

theorem phaseK_zero_point (D N : ℕ) (κ : List ℤ) : phaseK D N κ 0 = 0 := by
  rw [phaseK_eq_sum]
  apply Finset.sum_eq_zero
  intro d _
  simp [digit]

/-- the stored copies of `±κ` carry total weight `2` (one mode of weight 2, or a conjugate pair / the DC mode
    on the weight-1 column) -/
theorem Wsum_eq_two (D N : ℕ) (hD : 0 < D) (hN : 0 < N) (κ : List ℤ) (hκ : BelowNyquist D N κ) :
    Wsum D N κ = 2 := by
  have hpos : 0 < N ^ D := pow_pos hN D
  have h := linStep_modeField_sum D N hD hN (fun _ => 0) κ hκ 0 (fun _ _ _ => rfl)
    (fun _ _ _ => by simp) 0 1 0 0 hpos
  rw [show ((0 : ℝ) : ℂ) = 0 by simp, linStep_zero,
    irfftn_rfftn D N hD hN _ (modeField_real D N κ 1 0) 0 hpos, modeField_getD D N κ 1 0 0 hpos,
    phaseK_zero_point] at h
  have hNne : ((N ^ D : ℕ) : ℂ) ≠ 0 := by exact_mod_cast hpos.ne'
  have e1 : (Complex.exp (0 * 0) * (((1 : ℝ) : ℂ) / 2 * ((N ^ D : ℕ) : ℂ) * Complex.exp (0 * Complex.I))
      * zeta N ^ (-(0 : ℤ))) = ((((N ^ D : ℕ) : ℝ) / 2 : ℝ) : ℂ) := by
    simp
    ring
  rw [e1, Complex.ofReal_re] at h
  simp only [Int.cast_zero, mul_zero, zero_div, zero_add, Real.cos_zero, mul_one] at h
  have h' : (1 : ℂ) * ((N ^ D : ℕ) : ℂ) = ((((N ^ D : ℕ) : ℝ) / 2 : ℝ) : ℂ) * Wsum D N κ := by
    rw [eq_div_iff hNne] at h
    simpa using h
  have h'' : ((N ^ D : ℕ) : ℂ) * 2 = ((N ^ D : ℕ) : ℂ) * Wsum D N κ := by
    have : ((((N ^ D : ℕ) : ℝ) / 2 : ℝ) : ℂ) = ((N ^ D : ℕ) : ℂ) / 2 := by push_cast; ring
    rw [this] at h'
    linear_combination 2 * h'
  exact (mul_left_cancel₀ hNne h'').symm

/-- real part of the propagated coefficient -/
theorem re_propagated (N : ℕ) (μ : ℂ) (t a φ : ℝ) (n : ℕ) (p : ℤ) :
    (Complex.exp (t * μ) * ((a / 2 : ℂ) * (n : ℂ) * Complex.exp (φ * Complex.I)) * zeta N ^ (-p)).re
      = a / 2 * n * (Real.exp (t * μ.re) * Real.cos (2 * Real.pi * (p : ℝ) / N + φ + t * μ.im)) := by
  rw [zeta_zpow_eq_exp]
  have e : Complex.exp (t * μ) * ((a / 2 : ℂ) * (n : ℂ) * Complex.exp (φ * Complex.I))
        * Complex.exp (-(2 * Real.pi * Complex.I * ((-p : ℤ) : ℂ) / N))
      = ((a / 2 * n : ℝ) : ℂ) * Complex.exp (((t * μ.re : ℝ) : ℂ)
          + ((2 * Real.pi * (p : ℝ) / N + φ + t * μ.im : ℝ) : ℂ) * Complex.I) := by
    have hw : ((t * μ.re : ℝ) : ℂ) + ((2 * Real.pi * (p : ℝ) / N + φ + t * μ.im : ℝ) : ℂ) * Complex.I
        = t * μ + φ * Complex.I + -(2 * Real.pi * Complex.I * ((-p : ℤ) : ℂ) / N) := by
      conv_rhs => rw [← Complex.re_add_im μ]
      push_cast
      ring
    rw [hw, Complex.exp_add, Complex.exp_add]
    push_cast
    ring
  rw [e, Complex.re_ofReal_mul, Complex.exp_re]
  simp only [Complex.add_re, Complex.add_im, Complex.ofReal_re, Complex.ofReal_im, Complex.mul_re,
    Complex.mul_im, Complex.I_re, Complex.I_im, mul_zero, mul_one, add_zero, zero_add, sub_self]

/-- **A2 (core form).**  If `Λ` takes the value `μ` at the stored copy of `κ` and `conj μ` at the stored copy
    of `-κ` (whichever of the two exist), the step of the mode `a cos(2π κ·j/N + φ)` is
    `a e^{t Re μ} cos(2π κ·j/N + φ + t Im μ)`, for every real `t`. -/
theorem linStep_modeField_core (D N : ℕ) (hD : 0 < D) (hN : 0 < N) (Λ : ℕ → ℂ) (κ : List ℤ)
    (hκ : BelowNyquist D N κ) (μ : ℂ)
    (h1 : ∀ h < numModes D N, wnFlat D N h = κ → Λ h = μ)
    (h2 : ∀ h < numModes D N, wnFlat D N h = negK κ → Λ h = conj μ)
    (t a φ : ℝ) :
    linStep D N Λ t (modeField D N κ a φ)
      = modeField D N κ (a * Real.exp (t * μ.re)) (φ + t * μ.im) := by
  apply array_ext_getD _ _ (N ^ D) (by simp) (by simp)
  intro j hj
  rw [linStep_modeField_sum D N hD hN Λ κ hκ μ h1 h2 t a φ j hj, Wsum_eq_two D N hD hN κ hκ,
    modeField_getD D N κ _ _ j hj, re_propagated]
  have hNne : ((N ^ D : ℕ) : ℂ) ≠ 0 := by exact_mod_cast (pow_pos hN D).ne'
  rw [div_eq_iff hNne]
  push_cast
  ring_nf

/-! ### the symbol as a function of the wave vector -/

/-- Hermitian symmetry of a symbol given on the stored modes: stored modes with opposite wave vectors
    (these are pairs on the last-axis DC column) carry conjugate values -/
def HermSym (D N : ℕ) (Λ : ℕ → ℂ) : Prop :=
  ∀ h < numModes D N, ∀ h' < numModes D N,
    (∀ d < D, (wnFlat D N h').getD d 0 = -(wnFlat D N h).getD d 0) → Λ h' = conj (Λ h)

/-- the symbol at the wave vector `κ`: `Λ` at the stored index of `κ` if `κ_last ≥ 0`, else the conjugate of
    `Λ` at the stored index of `-κ` -/
noncomputable def symAt (D N : ℕ) (Λ : ℕ → ℂ) (κ : List ℤ) : ℂ :=
  if 0 ≤ κ.getD (D - 1) 0 then Λ (modeIdx D N κ) else conj (Λ (modeIdx D N (negK κ)))

theorem symAt_stored (D N : ℕ) (hD : 0 < D) (hN : 0 < N) (Λ : ℕ → ℂ) (h : ℕ) (hh : h < numModes D N)
    (hκ : BelowNyquist D N (wnFlat D N h)) : symAt D N Λ (wnFlat D N h) = Λ h := by
  have hl := wnFlat_last_nonneg D N h hD
  rw [symAt, if_pos hl]
  congr 1
  exact wnFlat_inj D N hD hN _ _ (modeIdx_lt D N hD hN _ hκ hl) hh (wnFlat_modeIdx D N hD hN _ hκ hl)

theorem symAt_spec (D N : ℕ) (hD : 0 < D) (hN : 0 < N) (Λ : ℕ → ℂ) (hΛ : HermSym D N Λ) (κ : List ℤ)
    (hκ : BelowNyquist D N κ) :
    (∀ h < numModes D N, wnFlat D N h = κ → Λ h = symAt D N Λ κ) ∧
      (∀ h < numModes D N, wnFlat D N h = negK κ → Λ h = conj (symAt D N Λ κ)) := by
  by_cases hl : 0 ≤ κ.getD (D - 1) 0
  · have hi := modeIdx_lt D N hD hN κ hκ hl
    have hw := wnFlat_modeIdx D N hD hN κ hκ hl
    rw [symAt, if_pos hl]
    constructor
    · intro h hh hk
      rw [wnFlat_inj D N hD hN h _ hh hi (by rw [hk, hw])]
    · intro h hh hk
      apply hΛ _ hi _ hh
      intro d _
      rw [hk, hw, negK_getD]
  · have hl' : 0 ≤ (negK κ).getD (D - 1) 0 := by rw [negK_getD]; omega
    have hi := modeIdx_lt D N hD hN _ hκ.negK hl'
    have hw := wnFlat_modeIdx D N hD hN _ hκ.negK hl'
    rw [symAt, if_neg hl]
    constructor
    · intro h hh hk
      exfalso
      have := wnFlat_last_nonneg D N h hD
      rw [hk] at this
      exact hl this
    · intro h hh hk
      rw [Complex.conj_conj, wnFlat_inj D N hD hN h _ hh hi (by rw [hk, hw])]

/-- `λ(-κ) = conj λ(κ)` -/
theorem symAt_negK (D N : ℕ) (hD : 0 < D) (hN : 0 < N) (Λ : ℕ → ℂ) (hΛ : HermSym D N Λ) (κ : List ℤ)
    (hκ : BelowNyquist D N κ) : symAt D N Λ (negK κ) = conj (symAt D N Λ κ) := by
  by_cases hl : 0 ≤ κ.getD (D - 1) 0
  · by_cases hl' : 0 ≤ (negK κ).getD (D - 1) 0
    · have hi := modeIdx_lt D N hD hN _ hκ.negK hl'
      have hw := wnFlat_modeIdx D N hD hN _ hκ.negK hl'
      rw [← (symAt_spec D N hD hN Λ hΛ κ hκ).2 _ hi hw, symAt, if_pos hl']
    · rw [symAt, if_neg hl', negK_negK, symAt, if_pos hl]
  · have hl' : 0 ≤ (negK κ).getD (D - 1) 0 := by rw [negK_getD]; omega
    rw [symAt, if_pos hl', symAt, if_neg hl, Complex.conj_conj]

/-- **A2.**  For a symbol with Hermitian symmetry, one step maps the mode `a cos(2π κ·j/N + φ)` strictly below
    Nyquist to `a e^{t Re λ_κ} cos(2π κ·j/N + φ + t Im λ_κ)` — the analytic solution of `u_t = Op u` sampled on
    the grid — for every real `t`, every `D ≥ 1`, every `N ≥ 1` (odd or even). -/
theorem linStep_modeField (D N : ℕ) (hD : 0 < D) (hN : 0 < N) (Λ : ℕ → ℂ) (hΛ : HermSym D N Λ)
    (κ : List ℤ) (hκ : BelowNyquist D N κ) (t a φ : ℝ) :
    linStep D N Λ t (modeField D N κ a φ)
      = modeField D N κ (a * Real.exp (t * (symAt D N Λ κ).re)) (φ + t * (symAt D N Λ κ).im) :=
  linStep_modeField_core D N hD hN Λ κ hκ _ (symAt_spec D N hD hN Λ hΛ κ hκ).1
    (symAt_spec D N hD hN Λ hΛ κ hκ).2 t a φ

/-- A2 in grid-point form, at a stored mode `h₀` strictly below Nyquist -/
theorem linStep_modeField_stored (D N : ℕ) (hD : 0 < D) (hN : 0 < N) (Λ : ℕ → ℂ) (hΛ : HermSym D N Λ)
    (h₀ : ℕ) (hh₀ : h₀ < numModes D N) (hκ : BelowNyquist D N (wnFlat D N h₀)) (t a φ : ℝ)
    (j : ℕ) (hj : j < N ^ D) :
    (linStep D N Λ t (modeField D N (wnFlat D N h₀) a φ)).getD j 0
      = (((a * Real.exp (t * (Λ h₀).re) *
          Real.cos (2 * Real.pi * ((phaseK D N (wnFlat D N h₀) j : ℤ) : ℝ) / N + (φ + t * (Λ h₀).im)) : ℝ)) : ℂ) := by
  rw [linStep_modeField D N hD hN Λ hΛ _ hκ, symAt_stored D N hD hN Λ h₀ hh₀ hκ,
    modeField_getD D N _ _ _ j hj]

/-! ### A3: superposition -/

/-- a finite list of modes `(κ, a, φ)` -/
abbrev Modes := List (List ℤ × ℝ × ℝ)

/-- the grid state `Σ_m a_m cos(2π κ_m·j/N + φ_m)` -/
noncomputable def stateOf (D N : ℕ) (ms : Modes) : Array ℂ :=
  vsum (N ^ D) (ms.map (fun m => modeField D N m.1 m.2.1 m.2.2))

/-- the analytically evolved modes: amplitude `a e^{t Re λ_κ}`, phase `φ + t Im λ_κ` -/
noncomputable def evolve (D N : ℕ) (Λ : ℕ → ℂ) (t : ℝ) (ms : Modes) : Modes :=
  ms.map (fun m => (m.1, m.2.1 * Real.exp (t * (symAt D N Λ m.1).re), m.2.2 + t * (symAt D N Λ m.1).im))

@[simp] theorem stateOf_size (D N : ℕ) (ms : Modes) : (stateOf D N ms).size = N ^ D := by simp [stateOf]

theorem stateOf_getD (D N : ℕ) (ms : Modes) (j : ℕ) (hj : j < N ^ D) :
    (stateOf D N ms).getD j 0
      = (((ms.map (fun m => m.2.1 * Real.cos (2 * Real.pi * ((phaseK D N m.1 j : ℤ) : ℝ) / N + m.2.2))).sum : ℝ) : ℂ) := by
  rw [stateOf, vsum_getD _ _ _ hj, List.map_map]
  induction ms with
  | nil => simp
  | cons m ms ih =>
    rw [List.map_cons, List.sum_cons, List.map_cons, List.sum_cons, Complex.ofReal_add, ← ih]
    simp only [Function.comp]
    rw [modeField_getD D N _ _ _ j hj]

/-- the state as one table of real samples -/
theorem stateOf_eq_tab (D N : ℕ) (ms : Modes) :
    stateOf D N ms = tab (N ^ D) (fun j =>
      (((ms.map (fun m => m.2.1 * Real.cos (2 * Real.pi * ((phaseK D N m.1 j : ℤ) : ℝ) / N + m.2.2))).sum : ℝ) : ℂ)) := by
  apply array_ext_getD _ _ (N ^ D) (by simp) (by simp)
  intro j hj
  rw [stateOf_getD D N ms j hj, tab_getD _ _ _ _ hj]

theorem stateOf_real (D N : ℕ) (ms : Modes) (j : ℕ) (hj : j < N ^ D) :
    ((stateOf D N ms).getD j 0).im = 0 := by
  rw [stateOf_getD D N ms j hj, Complex.ofReal_im]

/-- **A3 (final form).**  One call of a linear stepper with a Hermitian-symmetric symbol advances every finite
    superposition of modes strictly below Nyquist by the exact solution: each amplitude is multiplied by
    `e^{t Re λ_κ}` and each phase advanced by `t Im λ_κ`; any real `t`, any `D ≥ 1`, odd or even `N`. -/
theorem linStep_stateOf (D N : ℕ) (hD : 0 < D) (hN : 0 < N) (Λ : ℕ → ℂ) (hΛ : HermSym D N Λ) (t : ℝ)
    (ms : Modes) (hms : ∀ m ∈ ms, BelowNyquist D N m.1) :
    linStep D N Λ t (stateOf D N ms) = stateOf D N (evolve D N Λ t ms) := by
  unfold stateOf evolve
  rw [linStep_vsum D N hN, List.map_map, List.map_map]
  congr 1
  apply List.map_congr_left
  intro m hm
  simp only [Function.comp]
  exact linStep_modeField D N hD hN Λ hΛ m.1 (hms m hm) t m.2.1 m.2.2

/-- A3 spelled out on the grid: the state `Σ a cos(2π κ·j/N + φ)` goes to
    `Σ a e^{t Re λ_κ} cos(2π κ·j/N + φ + t Im λ_κ)`. -/
theorem linStep_stateOf_tab (D N : ℕ) (hD : 0 < D) (hN : 0 < N) (Λ : ℕ → ℂ) (hΛ : HermSym D N Λ) (t : ℝ)
    (ms : Modes) (hms : ∀ m ∈ ms, BelowNyquist D N m.1) :
    linStep D N Λ t (tab (N ^ D) (fun j =>
        (((ms.map (fun m => m.2.1 * Real.cos (2 * Real.pi * ((phaseK D N m.1 j : ℤ) : ℝ) / N + m.2.2))).sum : ℝ) : ℂ)))
      = tab (N ^ D) (fun j =>
        (((ms.map (fun m => m.2.1 * Real.exp (t * (symAt D N Λ m.1).re) *
            Real.cos (2 * Real.pi * ((phaseK D N m.1 j : ℤ) : ℝ) / N + (m.2.2 + t * (symAt D N Λ m.1).im)))).sum : ℝ) : ℂ)) := by
  rw [← stateOf_eq_tab, linStep_stateOf D N hD hN Λ hΛ t ms hms, stateOf_eq_tab]
  congr 1
  funext j
  unfold evolve
  rw [List.map_map]
  rfl

/-! non-vacuity -/
example : HermSym 2 4 (fun _ => (3 : ℂ)) := by
  intro h _ h' _ _
  simp
  exact (Complex.conj_ofReal 3).symm ▸ by norm_num
example : ∀ m ∈ ([([1, 1], 2, 0.5), ([-1, 0], 1, 0)] : Modes), BelowNyquist 2 4 m.1 := by
  intro m hm
  simp only [List.mem_cons, List.mem_nil_iff, or_false] at hm
  rcases hm with rfl | rfl
  · refine ⟨rfl, ?_⟩
    intro d hd
    interval_cases d <;> simp
  · refine ⟨rfl, ?_⟩
    intro d hd
    interval_cases d <;> simp

end Exponax.ExactLinear
