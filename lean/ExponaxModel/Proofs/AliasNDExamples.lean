import ExponaxModel.Proofs.AliasND
/-
Non-vacuity of the hypotheses of the theorems of `AliasND*.lean`: concrete witnesses
(`D = 2`, `D = 3`, `N = 8` even, `N = 9` odd; fractions 2/3 and 1/2), and instantiations of the
headline theorems at these witnesses.
-/
namespace Exponax.AliasND
open Exponax Exponax.Layout Exponax.Transform Exponax.DFT Exponax.Nonlin Exponax.Alias Finset

/-! ### witnesses -/

/-- 2/3 rule, `D` dimensions, `N = 8` points per axis: `Kc = 1` -/
def cfg23 (D : ℕ) : Cfg ℂ := ⟨D, 8, 1, 2, 3⟩
/-- 1/2 rule, `D` dimensions, `N = 8`: `Kc = 1` -/
def cfg12 (D : ℕ) : Cfg ℂ := ⟨D, 8, 1, 1, 2⟩
/-- 2/3 rule, odd `N = 9`: `Kc = 1` -/
def cfg23odd (D : ℕ) : Cfg ℂ := ⟨D, 9, 1, 2, 3⟩

theorem Kc_cfg23 (D : ℕ) : Kc (cfg23 D) = 1 := by simp only [Kc, cfg23]; decide
theorem Kc_cfg12 (D : ℕ) : Kc (cfg12 D) = 1 := by simp only [Kc, cfg12]; decide
theorem Kc_cfg23odd (D : ℕ) : Kc (cfg23odd D) = 1 := by simp only [Kc, cfg23odd]; decide

/-- a real, non-constant grid field -/
noncomputable def ramp (n : ℕ) : Array ℂ := tab n (fun j => ((j : ℝ) : ℂ))

theorem ramp_real (D N : ℕ) : IsRealND D N (ramp (N ^ D)) := by
  intro j hj
  unfold ramp
  rw [DFT.tab_getD _ _ _ _ hj]
  exact Complex.ofReal_im _

/-- the mean mode is retained by every configuration with `Kc ≥ 0` -/
theorem mask_zero_mode (c : Cfg ℂ) (hq : c.fq ≠ 0) (hK : 0 ≤ Kc c) : mask c 0 = 1 := by
  rw [mask_nd_eq_one_iff c hq]
  intro d
  rw [kvec_zero]
  simpa using hK

/-- the constant field `1` is band-limited to every box `K ≥ 0` -/
theorem const_bandLimitedV (D N : ℕ) (hN : 0 < N) (K : ℤ) (hK : 0 ≤ K) :
    BandLimitedV D N K (tab (N ^ D) fun _ => (1 : ℂ)) := by
  intro a ha
  rw [dftV_const D N hN, if_neg]
  intro hd
  exact ha ⟨0, fun d => by simpa using hK, fun d => by simpa using hd d⟩

theorem const_real (D N : ℕ) : IsRealND D N (tab (N ^ D) fun _ => (1 : ℂ)) := by
  intro j hj
  rw [DFT.tab_getD _ _ _ _ hj]
  simp

/-! ### N1, abstract form (`AliasNDConv`) -/

-- `dftV_mul_band`, `dftV_mul_no_alias(')`: `0 < N`, `3K < N` (hence `2K < N`), band-limited factors, `k` in the box
example : ∃ (D N : ℕ) (K : ℤ) (u v : Array ℂ) (k : Fin D → ℤ),
    0 < N ∧ 3 * K < (N : ℤ) ∧ 2 * K < (N : ℤ) ∧ BandLimitedV D N K u ∧ BandLimitedV D N K v ∧ ∀ d, |k d| ≤ K :=
  ⟨3, 8, 2, _, _, 0, by norm_num, by norm_num, by norm_num,
    const_bandLimitedV 3 8 (by norm_num) 2 (by norm_num),
    const_bandLimitedV 3 8 (by norm_num) 2 (by norm_num), fun d => by simp⟩

-- `dftV_mul3_band`, `dftV_mul3_no_alias(')`: `4K < N`
example : ∃ (D N : ℕ) (K : ℤ) (u v w : Array ℂ) (k : Fin D → ℤ),
    0 < N ∧ 4 * K < (N : ℤ) ∧ BandLimitedV D N K u ∧ BandLimitedV D N K v ∧ BandLimitedV D N K w ∧
      ∀ d, |k d| ≤ K :=
  ⟨2, 9, 2, _, _, _, 0, by norm_num, by norm_num,
    const_bandLimitedV 2 9 (by norm_num) 2 (by norm_num),
    const_bandLimitedV 2 9 (by norm_num) 2 (by norm_num),
    const_bandLimitedV 2 9 (by norm_num) 2 (by norm_num), fun d => by simp⟩

-- `not_congr_box`, `BandLimitedV.eq_truncV`: `K + L < N`, some component beyond `K`, all within `L`
example : ∃ (D N : ℕ) (K L : ℤ) (n : Fin D → ℤ),
    K + L < (N : ℤ) ∧ (¬ ∀ d, |n d| ≤ K) ∧ ∀ d, |n d| ≤ L :=
  ⟨1, 8, 1, 2, fun _ => 2, by norm_num, fun h => by simpa using h 0, fun d => by simp⟩

/-! ### N1 about `rfftnM` (`AliasNDStored`) -/

-- `rfftn_mul_no_alias(_pairs)`: real fields with band-limited stored half spectrum, retained mode
example : ∃ (D N : ℕ) (K : ℤ) (f g : Array ℂ) (h : ℕ),
    0 < D ∧ 0 < N ∧ 3 * K < (N : ℤ) ∧ IsRealND D N f ∧ IsRealND D N g ∧
    StoredBandLimited D N K f ∧ StoredBandLimited D N K g ∧ h < numModes D N ∧
    ∀ d, |kvec D N h d| ≤ K :=
  ⟨3, 8, 2, _, _, 0, by norm_num, by norm_num, by norm_num, const_real 3 8, const_real 3 8,
    stored_of_bandLimitedV 3 8 (by norm_num) (by norm_num) 2 (by norm_num) _
      (const_bandLimitedV 3 8 (by norm_num) 2 (by norm_num)),
    stored_of_bandLimitedV 3 8 (by norm_num) (by norm_num) 2 (by norm_num) _
      (const_bandLimitedV 3 8 (by norm_num) 2 (by norm_num)),
    by decide, fun d => by rw [kvec_zero]; simp⟩

-- `rfftn_mul3_no_alias`
example : ∃ (D N : ℕ) (K : ℤ) (f : Array ℂ) (h : ℕ),
    0 < D ∧ 0 < N ∧ 4 * K < (N : ℤ) ∧ IsRealND D N f ∧ StoredBandLimited D N K f ∧
    h < numModes D N ∧ ∀ d, |kvec D N h d| ≤ K :=
  ⟨2, 9, 2, _, 0, by norm_num, by norm_num, by norm_num, const_real 2 9,
    stored_of_bandLimitedV 2 9 (by norm_num) (by norm_num) 2 (by norm_num) _
      (const_bandLimitedV 2 9 (by norm_num) 2 (by norm_num)),
    by decide, fun d => by rw [kvec_zero]; simp⟩

-- `kvec_leading`, `kvec_last`, `kvec_abs_le`, `exists_stored_of_last`
example : (5 : ℕ) < numModes (1 + 1) 8 ∧ ((⟨0, by norm_num⟩ : Fin (1 + 1)) : ℕ) < 1
    ∧ ((⟨1, by norm_num⟩ : Fin (1 + 1)) : ℕ) = 1 := ⟨by decide, by norm_num, rfl⟩

example : ∃ (E N : ℕ) (b : Fin (E + 1) → ℤ) (l : ℕ),
    0 < N ∧ l ≤ N / 2 ∧ (N : ℤ) ∣ (l : ℤ) - b (Fin.last E) :=
  ⟨1, 8, fun _ => 11, 3, by norm_num, by norm_num, ⟨-1, by norm_num⟩⟩

/-! ### N2 (`AliasNDMask`) -/

-- `mask_nd`, `nifft_bandLimitedV`, `dftV_nifft`: `fq ≠ 0`, `0 < N`
example : (cfg23 3).fq ≠ 0 ∧ 0 < (cfg23 3).N := ⟨by decide, by decide⟩

-- `dftV_nifft_rfftn`, `truncV_dftV_nifft_rfftn`, `rfftn_nifft_rfftn`: real state, `2·Kc < N`, box vector
example : ∃ (c : Cfg ℂ) (x : Array ℂ) (m : Fin c.D → ℤ) (h : ℕ),
    0 < c.D ∧ c.fq ≠ 0 ∧ 0 < c.N ∧ 2 * Kc c < (c.N : ℤ) ∧ IsRealND c.D c.N x ∧
    (∀ d, |m d| ≤ Kc c) ∧ h < numModes c.D c.N :=
  ⟨cfg23 3, ramp (8 ^ 3), fun _ => 1, 7, by decide, by decide, by decide, by decide,
    ramp_real 3 8, fun d => by rw [Kc_cfg23]; simp, by decide⟩

-- `dftV_nifft_rfftn_off`: a wavenumber vector not congruent to a box vector
example : ∃ (c : Cfg ℂ) (a : Fin c.D → ℤ),
    c.fq ≠ 0 ∧ 0 < c.N ∧ ¬ ∃ m : Fin c.D → ℤ, (∀ d, |m d| ≤ Kc c) ∧ VCongr c.D c.N a m :=
  ⟨cfg23 2, fun _ => 3, by decide, by decide,
    not_congr_box (Kc (cfg23 2)) 3 (by decide) _ (fun h => by
      have := h ⟨0, by decide⟩
      rw [Kc_cfg23] at this
      norm_num at this) (fun d => by simp)⟩

-- `box_congr_stored`
example : ∃ (D N : ℕ) (K : ℤ) (m : Fin D → ℤ) (h : ℕ), 0 < D ∧ 0 < N ∧ 2 * K < (N : ℤ) ∧
    (∀ d, |m d| ≤ K) ∧ h < numModes D N ∧
    ((∀ d, (N : ℤ) ∣ m d - kvec D N h d) ∨ (∀ d, (N : ℤ) ∣ m d + kvec D N h d)) :=
  ⟨2, 8, 1, 0, 0, by norm_num, by norm_num, by norm_num, fun d => by simp, by decide,
    Or.inl (fun d => by rw [kvec_zero]; simp)⟩

/-! ### N3 (`AliasND`) -/

/-- the hypotheses of the quadratic (2/3 rule) theorems, retained AND dropped mode, `D = 2`, even `N` -/
example : ∃ (c : Cfg ℂ) (x : Array ℂ) (h h' : ℕ),
    0 < c.D ∧ c.fq ≠ 0 ∧ c.fp = 2 ∧ c.fq = 3 ∧ 3 * Kc c < (c.N : ℤ) ∧ 0 < c.N ∧ IsRealND c.D c.N x ∧
    h < numModes c.D c.N ∧ mask c h = 1 ∧ h' < numModes c.D c.N ∧ mask c h' = 0 :=
  ⟨cfg23 2, ramp (8 ^ 2), 0, 4, by decide, by decide, rfl, rfl, by decide, by decide, ramp_real 2 8,
    by decide, mask_zero_mode _ (by decide) (by decide), by decide, by
      unfold mask
      rw [if_neg (by decide), if_neg (by decide)]⟩

/-- … `D = 3`, odd `N` -/
example : ∃ (c : Cfg ℂ) (x : Array ℂ) (h h' : ℕ),
    0 < c.D ∧ c.fq ≠ 0 ∧ 3 * Kc c < (c.N : ℤ) ∧ 0 < c.N ∧ IsRealND c.D c.N x ∧
    h < numModes c.D c.N ∧ mask c h = 1 ∧ h' < numModes c.D c.N ∧ mask c h' = 0 :=
  ⟨cfg23odd 3, ramp (9 ^ 3), 0, 3, by decide, by decide, by decide, by decide, ramp_real 3 9,
    by decide, mask_zero_mode _ (by decide) (by decide), by decide, by
      unfold mask
      rw [if_neg (by decide), if_neg (by decide)]⟩

/-- the hypotheses of the cubic (1/2 rule) theorems -/
example : ∃ (c : Cfg ℂ) (x : Array ℂ) (h h' : ℕ),
    0 < c.D ∧ c.fq ≠ 0 ∧ c.fp = 1 ∧ c.fq = 2 ∧ 4 * Kc c < (c.N : ℤ) ∧ 0 < c.N ∧ IsRealND c.D c.N x ∧
    h < numModes c.D c.N ∧ mask c h = 1 ∧ h' < numModes c.D c.N ∧ mask c h' = 0 :=
  ⟨cfg12 3, ramp (8 ^ 3), 0, 2, by decide, by decide, rfl, rfl, by decide, by decide, ramp_real 3 8,
    by decide, mask_zero_mode _ (by decide) (by decide), by decide, by
      unfold mask
      rw [if_neg (by decide), if_neg (by decide)]⟩

/-- the hypotheses of the multi-channel convection theorems: `C = D = 2`, two real states -/
example : ∃ (c : Cfg ℂ) (C : ℕ) (uh : MC ℂ) (xs : ℕ → Array ℂ) (i h : ℕ),
    0 < c.D ∧ c.D = 2 ∧ c.fq ≠ 0 ∧ 3 * Kc c < (c.N : ℤ) ∧ 0 < c.N ∧
    (∀ ch, ch < C → IsRealND c.D c.N (xs ch)) ∧
    (∀ ch, ch < C → uh.getD ch #[] = rfftnM c.D c.N (xs ch)) ∧ i < C ∧ h < numModes c.D c.N ∧
    mask c h = 1 :=
  ⟨cfg23 2, 2, #[rfftnM 2 8 (ramp (8 ^ 2)), rfftnM 2 8 (ramp (8 ^ 2))], fun _ => ramp (8 ^ 2), 1, 0,
    by decide, rfl, by decide, by decide, by decide, fun _ _ => ramp_real 2 8,
    fun ch hch => by interval_cases ch <;> rfl, by norm_num, by decide,
    mask_zero_mode _ (by decide) (by decide)⟩

/-! ### the headline theorems instantiated at the witnesses -/

/-- N1 at `D = 3`, `N = 8`, `K = 2` -/
example (h : ℕ) (hh : h < numModes 3 8) (hk : ∀ d, |kvec 3 8 h d| ≤ 2) :=
  rfftn_mul_no_alias 3 8 (by norm_num) (by norm_num) 2 (by norm_num) _ _ (const_real 3 8) (const_real 3 8)
    (stored_of_bandLimitedV 3 8 (by norm_num) (by norm_num) 2 (by norm_num) _
      (const_bandLimitedV 3 8 (by norm_num) 2 (by norm_num)))
    (stored_of_bandLimitedV 3 8 (by norm_num) (by norm_num) 2 (by norm_num) _
      (const_bandLimitedV 3 8 (by norm_num) 2 (by norm_num))) h hh hk

/-- N2 at `D = 3`, 2/3 rule -/
example (h : ℕ) (hh : h < numModes 3 8) :=
  rfftn_nifft_rfftn (cfg23 3) (by decide) (by decide) (by decide) (by decide) _ (ramp_real 3 8) h hh

/-- N3(a) at `D = 2`, 2/3 rule -/
example (c0 c1 c2 : ℂ) (h : ℕ) (hh : h < numModes 2 8) :=
  polynomial_quadratic_alias_free_nd_two_thirds (cfg23 2) (by decide) rfl rfl (by decide) c0 c1 c2 _
    (ramp_real 2 8) h hh

/-- N3(a) at `D = 3`, 1/2 rule -/
example (c0 c1 c2 c3 : ℂ) (h : ℕ) (hh : h < numModes 3 8) :=
  polynomial_cubic_alias_free_nd_half (cfg12 3) (by decide) rfl rfl (by decide) c0 c1 c2 c3 _
    (ramp_real 3 8) h hh

/-- N3(b) at `D = 2`, 2/3 rule -/
example (scale : ℂ) (i : ℕ) (hi : i < 2) (h : ℕ) (hh : h < numModes 2 8) :=
  convection_2d_conservative_alias_free (cfg23 2) rfl (by decide) (by decide) (by decide) scale _ _
    (ramp_real 2 8) (ramp_real 2 8) i hi h hh

/-- Cahn–Hilliard at `D = 3`, 1/2 rule -/
example (scale : ℂ) (h : ℕ) (hh : h < numModes 3 8) :=
  cahnHilliard_alias_free_nd (cfg12 3) (by decide) (by decide) (by decide) (by decide) scale _
    (ramp_real 3 8) h hh

/-- N2 on the grid at `D = 3`, odd `N` (`dftV_inversion`, `bandLimitedV_grid`, `nifft_rfftn_grid`:
    additionally a grid index `j < N^D`) -/
example :=
  nifft_rfftn_grid (cfg23odd 3) (by decide) (by decide) (by decide) (by decide) _ (ramp_real 3 9) 100
    (by decide)

/-- single-channel conservative convection at `D = 3` -/
example (scale : ℂ) (h : ℕ) (hh : h < numModes 3 8) :=
  convection_single_conservative_alias_free_nd (cfg23 3) (by decide) (by decide) (by decide) (by decide)
    1 scale #[rfftnM 3 8 (ramp (8 ^ 3))] (fun _ => ramp (8 ^ 3)) (fun _ _ => ramp_real 3 8)
    (fun ch hch => by interval_cases ch; rfl) 0 (by norm_num) h hh

end Exponax.AliasND
