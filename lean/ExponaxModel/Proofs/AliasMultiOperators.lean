import ExponaxModel.Proofs.AliasMultiTorus
import ExponaxModel.Proofs.AliasND2Grad
/-
C03, T1 (link to the model): the nonlinear terms return the band-`K` truncation of the Fourier coefficients of the
DOCUMENTED CONTINUOUS OPERATOR applied to the band-truncated field.

  * `HasCoeffs s L f A`     "`f : ℝ^D → ℂ` is the trigonometric polynomial with coefficient family `A` and band `L`"
                            (unique by `hasCoeffs_unique`), closed under `+`, scalar `·`, finite sums, pointwise products
                            (`hasCoeffs_mul`: linear convolution) and partial derivatives `pderiv d` (`hasCoeffs_pderiv`,
                            a real `deriv` along coordinate `d`),
  * `hasCoeffs_fine_grid`   the coefficients are what the DFT of the samples on ANY fine grid `M` returns
                            (`L + |k| < M`): `F_M[f](k) = M^D·A_k`;  `hasCoeffs_gridMean`: the grid mean is `A_0`,
  * `PKfield c s x`         the CONTINUOUS band-truncated state `P_K u (ξ) = N^{-D} Σ_{p ∈ box Kc} x̂_p e^{i s p·ξ}`;
                            it is real valued (`PKfield_real`) and interpolates the model's `ifft(mask·û)` at the grid
                            points (`nifft_rfftn_eq_PKfield`),
  * `opConsConv b u = −b·½ Σ_d ∂_d(u²)`, `opGradNorm b u = −b·½ Σ_d (∂_d u)²` the documented operators (with honest
    derivatives), their coefficient families (`opConsConv_hasCoeffs`, `opGradNorm_hasCoeffs`) and

  **`convection_conservative_continuous_nd`**, **`gradientNorm_continuous_nd`**: on every retained stored mode the model
  output is `N^D ×` the coefficient of the continuous operator applied to `P_K u` at `k(h)`; `0` on dropped modes;
  `*_fine_grid`: the same coefficient computed on an arbitrary finer grid `M > 3·Kc`.
-/
set_option linter.unusedVariables false
namespace Exponax.AliasMulti
open Exponax Exponax.Layout Exponax.Transform Exponax.DFT Exponax.Nonlin Exponax.Alias Exponax.AliasND Finset

/-! ### functions with a known coefficient family -/

/-- partial derivative along coordinate `d` -/
noncomputable def pderiv {D : ℕ} (d : Fin D) (f : (Fin D → ℝ) → ℂ) (ξ : Fin D → ℝ) : ℂ :=
  _root_.deriv (fun t : ℝ => f (Function.update ξ d t)) (ξ d)

theorem pderiv_tpoly {D : ℕ} (s : ℝ) (K : ℤ) (F : (Fin D → ℤ) → ℂ) (d : Fin D) :
    pderiv d (tpoly s K F) = tpoly s K (dcoef s d F) := by
  funext ξ
  exact (hasDerivAt_tpoly s K F ξ d).deriv

/-- `f` is the trigonometric polynomial with coefficient family `A`, band `|p_d| ≤ L` -/
def HasCoeffs {D : ℕ} (s : ℝ) (L : ℤ) (f : (Fin D → ℝ) → ℂ) (A : (Fin D → ℤ) → ℂ) : Prop :=
  ∀ ξ, f ξ = tpoly s L A ξ

theorem hasCoeffs_tpoly {D : ℕ} (s : ℝ) (L : ℤ) (A : (Fin D → ℤ) → ℂ) : HasCoeffs s L (tpoly s L A) A :=
  fun _ => rfl

theorem hasCoeffs_unique {D : ℕ} {s : ℝ} (hs : s ≠ 0) {L : ℤ} {f : (Fin D → ℝ) → ℂ} {A B : (Fin D → ℤ) → ℂ}
    (hA : HasCoeffs s L f A) (hB : HasCoeffs s L f B) (k : Fin D → ℤ) (hk : ∀ d, |k d| ≤ L) : A k = B k :=
  tpoly_coeff_unique s hs L A B (fun ξ => (hA ξ).symm.trans (hB ξ)) k hk

theorem hasCoeffs_congr {D : ℕ} {s : ℝ} {L : ℤ} {f : (Fin D → ℝ) → ℂ} {A B : (Fin D → ℤ) → ℂ}
    (hA : HasCoeffs s L f A) (h : ∀ p, (∀ d, |p d| ≤ L) → A p = B p) : HasCoeffs s L f B :=
  fun ξ => (hA ξ).trans (tpoly_congr s L A B h ξ)

theorem hasCoeffs_mul {D : ℕ} {s : ℝ} {K L : ℤ} {f g : (Fin D → ℝ) → ℂ} {A B : (Fin D → ℤ) → ℂ}
    (hf : HasCoeffs s K f A) (hg : HasCoeffs s L g B) :
    HasCoeffs s (K + L) (fun ξ => f ξ * g ξ) (conv K L A B) :=
  fun ξ => by
    show f ξ * g ξ = _
    rw [hf ξ, hg ξ, tpoly_mul]

theorem hasCoeffs_mul3 {D : ℕ} {s : ℝ} {K : ℤ} {f g h : (Fin D → ℝ) → ℂ} {A B C : (Fin D → ℤ) → ℂ}
    (hf : HasCoeffs s K f A) (hg : HasCoeffs s K g B) (hh : HasCoeffs s K h C) :
    HasCoeffs s (K + K + K) (fun ξ => f ξ * g ξ * h ξ) (conv3 K A B C) :=
  fun ξ => by
    show f ξ * g ξ * h ξ = _
    rw [hf ξ, hg ξ, hh ξ, tpoly_mul3]

theorem hasCoeffs_smul {D : ℕ} {s : ℝ} {L : ℤ} {f : (Fin D → ℝ) → ℂ} {A : (Fin D → ℤ) → ℂ} (a : ℂ)
    (hf : HasCoeffs s L f A) : HasCoeffs s L (fun ξ => a * f ξ) (fun p => a * A p) :=
  fun ξ => by
    show a * f ξ = _
    rw [hf ξ, tpoly_smul]

theorem hasCoeffs_add {D : ℕ} {s : ℝ} {L : ℤ} {f g : (Fin D → ℝ) → ℂ} {A B : (Fin D → ℤ) → ℂ}
    (hf : HasCoeffs s L f A) (hg : HasCoeffs s L g B) :
    HasCoeffs s L (fun ξ => f ξ + g ξ) (fun p => A p + B p) :=
  fun ξ => by
    show f ξ + g ξ = _
    rw [hf ξ, hg ξ, tpoly_add]

theorem hasCoeffs_sum {D : ℕ} {ι : Type} {s : ℝ} {L : ℤ} (S : Finset ι) (f : ι → (Fin D → ℝ) → ℂ)
    (A : ι → (Fin D → ℤ) → ℂ) (h : ∀ i ∈ S, HasCoeffs s L (f i) (A i)) :
    HasCoeffs s L (fun ξ => ∑ i ∈ S, f i ξ) (fun p => ∑ i ∈ S, A i p) :=
  fun ξ => by
    rw [tpoly_sum]
    exact Finset.sum_congr rfl (fun i hi => h i hi ξ)

theorem hasCoeffs_pderiv {D : ℕ} {s : ℝ} {L : ℤ} {f : (Fin D → ℝ) → ℂ} {A : (Fin D → ℤ) → ℂ} (d : Fin D)
    (hf : HasCoeffs s L f A) : HasCoeffs s L (pderiv d f) (dcoef s d A) := by
  have e : f = tpoly s L A := funext hf
  intro ξ
  rw [e, pderiv_tpoly]

/-- a band-`L` trigonometric polynomial is differentiable along every coordinate (so `pderiv` is the honest derivative) -/
theorem hasCoeffs_hasDerivAt {D : ℕ} {s : ℝ} {L : ℤ} {f : (Fin D → ℝ) → ℂ} {A : (Fin D → ℤ) → ℂ}
    (hf : HasCoeffs s L f A) (d : Fin D) (ξ : Fin D → ℝ) :
    HasDerivAt (fun t : ℝ => f (Function.update ξ d t)) (pderiv d f ξ) (ξ d) := by
  have e : f = tpoly s L A := funext hf
  rw [e, pderiv_tpoly]
  exact hasDerivAt_tpoly s L A ξ d

theorem mono_zero {D : ℕ} (z : Fin D → ℂ) : mono z 0 = 1 := by
  unfold mono
  simp

/-- removing the mean mode: `f − A_0` has the coefficient family of `f` with the entry at `0` deleted -/
theorem hasCoeffs_sub_mean {D : ℕ} {s : ℝ} {L : ℤ} (hL : 0 ≤ L) {f : (Fin D → ℝ) → ℂ} {A : (Fin D → ℤ) → ℂ}
    (hf : HasCoeffs s L f A) :
    HasCoeffs s L (fun ξ => f ξ - A 0) (fun p => if p = 0 then 0 else A p) := by
  intro ξ
  have h0 : (0 : Fin D → ℤ) ∈ box D L := mem_box.mpr (fun d => by rw [Pi.zero_apply, abs_zero]; exact hL)
  have hsplit : tpoly s L A ξ
      = tpoly s L (fun p => if p = 0 then 0 else A p) ξ + A 0 := by
    unfold tpoly trigEval
    have h1 : ∀ p ∈ box D L, A p * mono (torusPt s ξ) p
        = (if p = 0 then 0 else A p) * mono (torusPt s ξ) p + (if p = 0 then A 0 else 0) := by
      intro p _
      by_cases hp : p = 0
      · subst hp
        rw [if_pos rfl, if_pos rfl, mono_zero]
        ring
      · rw [if_neg hp, if_neg hp, add_zero]
    rw [Finset.sum_congr rfl h1, Finset.sum_add_distrib, Finset.sum_ite_eq' _ _ _, if_pos h0]
  show f ξ - A 0 = _
  rw [hf ξ, hsplit]
  ring

/-- **the coefficients are computable on ANY fine grid**: sample `f` on the `M^D` grid (`L + K < M`), transform:
    at `|k_d| ≤ K` the result is `M^D ×` the coefficient (`0` outside the band `L`) -/
theorem hasCoeffs_fine_grid {D : ℕ} {s : ℝ} (hs : s ≠ 0) {L : ℤ} {f : (Fin D → ℝ) → ℂ} {A : (Fin D → ℤ) → ℂ}
    (hf : HasCoeffs s L f A) (M : ℕ) (hM : 0 < M) (K : ℤ) (hLK : L + K < (M : ℤ)) (k : Fin D → ℤ)
    (hk : ∀ d, |k d| ≤ K) :
    dftV D M (tab (M ^ D) fun j => f (gridPt s D M j)) k = ((M ^ D : ℕ) : ℂ) * truncV L A k := by
  have e : (tab (M ^ D) fun j => f (gridPt s D M j)) = sampleTP D M L A := by
    unfold sampleTP
    apply Nonlin.tab_congr
    intro j _
    rw [hf, gridZ_eq_torusPt_gridPt D M j hM s hs]
    rfl
  rw [e, dftV_sampleTP_box D M hM L K hLK A k hk]

/-- the mean over the points of a fine grid -/
noncomputable def gridMean {D : ℕ} (s : ℝ) (M : ℕ) (f : (Fin D → ℝ) → ℂ) : ℂ :=
  (1 / ((M ^ D : ℕ) : ℂ)) * ∑ j ∈ range (M ^ D), f (gridPt s D M j)

/-- the spatial mean of a trigonometric polynomial (over any grid finer than its band) is its coefficient at `0` -/
theorem hasCoeffs_gridMean {D : ℕ} {s : ℝ} (hs : s ≠ 0) {L : ℤ} (hL : 0 ≤ L) {f : (Fin D → ℝ) → ℂ}
    {A : (Fin D → ℤ) → ℂ} (hf : HasCoeffs s L f A) (M : ℕ) (hM : 0 < M) (hLM : L < (M : ℤ)) :
    gridMean s M f = A 0 := by
  have h := hasCoeffs_fine_grid hs hf M hM 0 (by omega) 0 (fun d => by simp)
  rw [dftV_zero_eq_sum, truncV_of_le _ _ _ (fun d => by rw [Pi.zero_apply, abs_zero]; exact hL)] at h
  unfold gridMean
  rw [h]
  have hne : ((M ^ D : ℕ) : ℂ) ≠ 0 := by exact_mod_cast (pow_pos hM D).ne'
  field_simp

/-! ### bilinearity of `conv` -/

theorem conv_smul {D : ℕ} (K L : ℤ) (a b : ℂ) (F G : (Fin D → ℤ) → ℂ) (k : Fin D → ℤ) :
    conv K L (fun p => a * F p) (fun p => b * G p) k = a * b * conv K L F G k := by
  unfold conv
  rw [Finset.mul_sum]
  apply Finset.sum_congr rfl
  intro p _
  rw [truncV_mul K (fun _ => a) F, truncV_mul L (fun _ => b) G]
  ring

theorem conv3_smul {D : ℕ} (K : ℤ) (a : ℂ) (F G H : (Fin D → ℤ) → ℂ) (k : Fin D → ℤ) :
    conv3 K (fun p => a * F p) (fun p => a * G p) (fun p => a * H p) k = a ^ 3 * conv3 K F G H k := by
  unfold conv3
  rw [Finset.mul_sum]
  apply Finset.sum_congr rfl
  intro p _
  rw [Finset.mul_sum]
  apply Finset.sum_congr rfl
  intro q _
  rw [truncV_mul K (fun _ => a) F, truncV_mul K (fun _ => a) G, truncV_mul K (fun _ => a) H]
  ring

/-! ### the continuous band-truncated state -/

/-- normalised Fourier coefficients `x̂_p / N^D` of the grid state -/
noncomputable def ucoef (c : Cfg ℂ) (x : Array ℂ) : (Fin c.D → ℤ) → ℂ :=
  fun p => (1 / ((c.N ^ c.D : ℕ) : ℂ)) * dftV c.D c.N x p

/-- **the continuous band-truncated field** `P_K u(ξ) = Σ_{p ∈ box Kc} (x̂_p/N^D) e^{i s p·ξ}` -/
noncomputable def PKfield (c : Cfg ℂ) (s : ℝ) (x : Array ℂ) : (Fin c.D → ℝ) → ℂ :=
  tpoly s (Kc c) (ucoef c x)

theorem PKfield_hasCoeffs (c : Cfg ℂ) (s : ℝ) (x : Array ℂ) :
    HasCoeffs s (Kc c) (PKfield c s x) (ucoef c x) := fun _ => rfl

theorem conj_ucoef (c : Cfg ℂ) (x : Array ℂ) (hx : IsRealND c.D c.N x) (p : Fin c.D → ℤ) :
    (starRingEnd ℂ) (ucoef c x p) = ucoef c x (-p) := by
  unfold ucoef
  rw [map_mul, conj_dftV c.D c.N x hx, map_div₀, map_one, map_natCast]

/-- `P_K u` is real valued for a real state -/
theorem PKfield_real (c : Cfg ℂ) (s : ℝ) (x : Array ℂ) (hx : IsRealND c.D c.N x) (ξ : Fin c.D → ℝ) :
    (starRingEnd ℂ) (PKfield c s x ξ) = PKfield c s x ξ :=
  tpoly_real s (Kc c) (ucoef c x) (conj_ucoef c x hx) ξ

/-- the model's truncated grid state `ifft(mask·rfftn x)` is `P_K u` sampled on the grid -/
theorem nifft_rfftn_eq_sampleTP (c : Cfg ℂ) (hD : 0 < c.D) (hq : c.fq ≠ 0) (hN : 0 < c.N)
    (h2 : 2 * Kc c < (c.N : ℤ)) (x : Array ℂ) (hx : IsRealND c.D c.N x) (j : ℕ) (hj : j < c.N ^ c.D) :
    (nifft c (rfftnM c.D c.N x)).getD j 0 = (sampleTP c.D c.N (Kc c) (ucoef c x)).getD j 0 := by
  rw [nifft_rfftn_grid c hD hq hN h2 x hx j hj, sampleTP_getD _ _ _ _ j hj]
  unfold trigEval ucoef
  rw [Finset.mul_sum]
  apply Finset.sum_congr rfl
  intro m _
  rw [mono_gridZ]
  ring

/-- … i.e. the values of the continuous field at the physical grid points `ξ_j = (L/N)·j` -/
theorem nifft_rfftn_eq_PKfield (c : Cfg ℂ) (hD : 0 < c.D) (hq : c.fq ≠ 0) (hN : 0 < c.N)
    (h2 : 2 * Kc c < (c.N : ℤ)) (s : ℝ) (hs0 : s ≠ 0) (x : Array ℂ) (hx : IsRealND c.D c.N x) (j : ℕ)
    (hj : j < c.N ^ c.D) :
    (nifft c (rfftnM c.D c.N x)).getD j 0 = PKfield c s x (gridPt s c.D c.N j) := by
  rw [nifft_rfftn_eq_sampleTP c hD hq hN h2 x hx j hj, sampleTP_eq_tpoly c.D c.N hN s hs0 _ _ j hj]
  rfl

/-! ### the documented operators -/

/-- `−b·½ Σ_d ∂_d (u²)` (single-channel conservative convection, `ConvectionNonlinearFun(single_channel=True)`) -/
noncomputable def opConsConv {D : ℕ} (b : ℂ) (u : (Fin D → ℝ) → ℂ) : (Fin D → ℝ) → ℂ :=
  fun ξ => -b * (1 / 2 * ∑ d : Fin D, pderiv d (fun η => u η * u η) ξ)

/-- `−b·½ |∇u|² = −b·½ Σ_d (∂_d u)²` (`GradientNormNonlinearFun` without the zero-mode fix) -/
noncomputable def opGradNorm {D : ℕ} (b : ℂ) (u : (Fin D → ℝ) → ℂ) : (Fin D → ℝ) → ℂ :=
  fun ξ => -b * (1 / 2 * ∑ d : Fin D, pderiv d u ξ * pderiv d u ξ)

/-- coefficient family of `opConsConv b u` for `u` with coefficient family `U`, band `K` -/
noncomputable def consConvCoef {D : ℕ} (s : ℝ) (K : ℤ) (b : ℂ) (U : (Fin D → ℤ) → ℂ) : (Fin D → ℤ) → ℂ :=
  fun r => -b * (1 / 2 * ∑ d : Fin D, dcoef s d (conv K K U U) r)

/-- coefficient family of `opGradNorm b u` -/
noncomputable def gradNormCoef {D : ℕ} (s : ℝ) (K : ℤ) (b : ℂ) (U : (Fin D → ℤ) → ℂ) : (Fin D → ℤ) → ℂ :=
  fun r => -b * (1 / 2 * ∑ d : Fin D, conv K K (dcoef s d U) (dcoef s d U) r)

/-- `−b·½ Σ_d ∂_d(u²)` of a band-`K` trigonometric polynomial is the band-`2K` trigonometric polynomial with coefficients
    `−b·½ (Σ_d i s r_d)·Σ_{p+q=r} U_p U_q` -/
theorem opConsConv_hasCoeffs {D : ℕ} {s : ℝ} {K : ℤ} (b : ℂ) {u : (Fin D → ℝ) → ℂ} {U : (Fin D → ℤ) → ℂ}
    (hu : HasCoeffs s K u U) : HasCoeffs s (K + K) (opConsConv b u) (consConvCoef s K b U) := by
  unfold opConsConv consConvCoef
  exact hasCoeffs_smul (-b) (hasCoeffs_smul (1 / 2)
    (hasCoeffs_sum Finset.univ _ _ (fun d _ => hasCoeffs_pderiv d (hasCoeffs_mul hu hu))))

/-- `−b·½ |∇u|²` of a band-`K` trigonometric polynomial: coefficients `−b·½ Σ_d Σ_{p+q=r} (i s p_d U_p)(i s q_d U_q)` -/
theorem opGradNorm_hasCoeffs {D : ℕ} {s : ℝ} {K : ℤ} (b : ℂ) {u : (Fin D → ℝ) → ℂ} {U : (Fin D → ℤ) → ℂ}
    (hu : HasCoeffs s K u U) : HasCoeffs s (K + K) (opGradNorm b u) (gradNormCoef s K b U) := by
  unfold opGradNorm gradNormCoef
  exact hasCoeffs_smul (-b) (hasCoeffs_smul (1 / 2)
    (hasCoeffs_sum Finset.univ _ _ (fun d _ => hasCoeffs_mul (hasCoeffs_pderiv d hu) (hasCoeffs_pderiv d hu))))

/-! ### link of the coefficient families with the model's alias-free forms -/

theorem sum_deriv_eq (c : Cfg ℂ) (h : ℕ) :
    ∑ d ∈ range c.D, deriv c d h
      = ∑ d : Fin c.D, Complex.I * (c.s * ((kvec c.D c.N h d : ℤ) : ℂ)) := by
  rw [← Fin.sum_univ_eq_sum_range (fun d => deriv c d h) c.D]
  rfl

theorem dcoef_ucoef (c : Cfg ℂ) (s : ℝ) (hs : c.s = (s : ℂ)) (x : Array ℂ) (d : Fin c.D) :
    dcoef s d (ucoef c x) = fun p => (1 / ((c.N ^ c.D : ℕ) : ℂ)) * dspec c d x p := by
  funext p
  unfold dcoef ucoef dspec
  rw [dsym_fin, hs]
  ring

/-- `N^D ×` the coefficient of `−b·½ Σ_d ∂_d (P_K u)²` is the model's alias-free form -/
theorem consConvCoef_model (c : Cfg ℂ) (hN : 0 < c.N) (s : ℝ) (hs : c.s = (s : ℂ)) (b : ℂ) (x : Array ℂ)
    (h : ℕ) :
    ((c.N ^ c.D : ℕ) : ℂ) * consConvCoef s (Kc c) b (ucoef c x) (kvec c.D c.N h)
      = -b * ((1 : ℂ) / 2 * (∑ d ∈ range c.D, deriv c d h) *
          linConv c.D c.N (Kc c) (dftV c.D c.N x) (dftV c.D c.N x) (kvec c.D c.N h)) := by
  have hne : ((c.N ^ c.D : ℕ) : ℂ) ≠ 0 := by exact_mod_cast (pow_pos hN c.D).ne'
  unfold consConvCoef dcoef
  rw [sum_deriv_eq, linConv_eq_conv, hs]
  have e : conv (Kc c) (Kc c) (ucoef c x) (ucoef c x) (kvec c.D c.N h)
      = (1 / ((c.N ^ c.D : ℕ) : ℂ)) * (1 / ((c.N ^ c.D : ℕ) : ℂ)) *
          conv (Kc c) (Kc c) (dftV c.D c.N x) (dftV c.D c.N x) (kvec c.D c.N h) :=
    conv_smul (Kc c) (Kc c) _ _ _ _ _
  rw [e, ← Finset.sum_mul]
  generalize (∑ d : Fin c.D, Complex.I * ((s : ℂ) * ((kvec c.D c.N h d : ℤ) : ℂ))) = S
  generalize conv (Kc c) (Kc c) (dftV c.D c.N x) (dftV c.D c.N x) (kvec c.D c.N h) = Cv
  field_simp

/-- `N^D ×` the coefficient of `−b·½ |∇ P_K u|²` is the model's alias-free form -/
theorem gradNormCoef_model (c : Cfg ℂ) (hN : 0 < c.N) (s : ℝ) (hs : c.s = (s : ℂ)) (b : ℂ) (x : Array ℂ)
    (k : Fin c.D → ℤ) :
    ((c.N ^ c.D : ℕ) : ℂ) * gradNormCoef s (Kc c) b (ucoef c x) k
      = -b * (1 / 2) * ∑ d ∈ range c.D, linConv c.D c.N (Kc c) (dspec c d x) (dspec c d x) k := by
  have hne : ((c.N ^ c.D : ℕ) : ℂ) ≠ 0 := by exact_mod_cast (pow_pos hN c.D).ne'
  unfold gradNormCoef
  rw [← Fin.sum_univ_eq_sum_range (fun d => linConv c.D c.N (Kc c) (dspec c d x) (dspec c d x) k) c.D]
  have e : ∀ d : Fin c.D, conv (Kc c) (Kc c) (dcoef s d (ucoef c x)) (dcoef s d (ucoef c x)) k
      = (1 / ((c.N ^ c.D : ℕ) : ℂ)) * linConv c.D c.N (Kc c) (dspec c d x) (dspec c d x) k := by
    intro d
    rw [dcoef_ucoef c s hs x d, linConv_eq_conv]
    rw [conv_smul (Kc c) (Kc c) (1 / ((c.N ^ c.D : ℕ) : ℂ)) (1 / ((c.N ^ c.D : ℕ) : ℂ))
      (dspec c d x) (dspec c d x) k]
    ring
  rw [Finset.sum_congr rfl (fun d _ => e d), ← Finset.mul_sum]
  field_simp

/-! ### the upgraded corollaries -/

/-- **single-channel conservative convection `−b·½ Σ_d ∂_d(u²)`, every `D ≥ 1`, `3·Kc < N`** — upgraded statement.
    With `u_K = PKfield c s x` the continuous band-truncated field:
    (1) the continuous operator `opConsConv b u_K` is a trigonometric polynomial of band `2Kc` with coefficient family
        `A = consConvCoef …` (unique, `hasCoeffs_unique`);
    (2) on every retained stored mode the model returns `N^D · A(k(h))` (`N^D`: un-normalised forward transform), i.e. the
        band-`Kc` truncation of the spectrum of the continuous operator applied to `u_K`;  (3) `0` on dropped modes. -/
theorem convection_conservative_continuous_nd (c : Cfg ℂ) (hD : 0 < c.D) (hq : c.fq ≠ 0)
    (hK : 3 * Kc c < (c.N : ℤ)) (hN : 0 < c.N) (s : ℝ) (hs : c.s = (s : ℂ)) (b : ℂ) (x : Array ℂ)
    (hx : IsRealND c.D c.N x) :
    HasCoeffs s (Kc c + Kc c) (opConsConv b (PKfield c s x)) (consConvCoef s (Kc c) b (ucoef c x)) ∧
    ∀ h, h < numModes c.D c.N →
      (mask c h = 1 → at2 (convection c 1 b true true #[rfftnM c.D c.N x]) 0 h
          = ((c.N ^ c.D : ℕ) : ℂ) * consConvCoef s (Kc c) b (ucoef c x) (kvec c.D c.N h)) ∧
      (mask c h = 0 → at2 (convection c 1 b true true #[rfftnM c.D c.N x]) 0 h = 0) := by
  refine ⟨opConsConv_hasCoeffs b (PKfield_hasCoeffs c s x), fun h hh => ?_⟩
  have := convection_single_conservative_alias_free_nd c hD hq hK hN 1 b
    #[rfftnM c.D c.N x] (fun _ => x) (fun _ _ => hx) (fun ch hch => by
      have : ch = 0 := by omega
      subst this
      rfl) 0 Nat.zero_lt_one h hh
  refine ⟨fun hm => ?_, this.2⟩
  rw [this.1 hm, consConvCoef_model c hN s hs b x h]

/-- the same coefficient computed on an ARBITRARY finer grid `M > 3·Kc`: sample the continuous operator applied to the
    continuous truncated field at the `M^D` grid points and transform -/
theorem convection_conservative_fine_grid (c : Cfg ℂ) (hD : 0 < c.D) (hq : c.fq ≠ 0)
    (hK : 3 * Kc c < (c.N : ℤ)) (hN : 0 < c.N) (s : ℝ) (hs : c.s = (s : ℂ)) (hs0 : s ≠ 0) (b : ℂ) (x : Array ℂ)
    (hx : IsRealND c.D c.N x) (M : ℕ) (hM : 3 * Kc c < (M : ℤ)) (h : ℕ) (hh : h < numModes c.D c.N)
    (hm : mask c h = 1) :
    at2 (convection c 1 b true true #[rfftnM c.D c.N x]) 0 h
      = ((c.N ^ c.D : ℕ) : ℂ) / ((M ^ c.D : ℕ) : ℂ) *
          dftV c.D M (tab (M ^ c.D) fun j => opConsConv b (PKfield c s x) (gridPt s c.D M j))
            (kvec c.D c.N h) := by
  have hk : ∀ d, |kvec c.D c.N h d| ≤ Kc c := (mask_nd_eq_one_iff c hq h).mp hm
  have hM0 : 0 < M := by
    have := abs_nonneg (kvec c.D c.N h ⟨0, hD⟩)
    have := hk ⟨0, hD⟩
    omega
  have hne : ((M ^ c.D : ℕ) : ℂ) ≠ 0 := by exact_mod_cast (pow_pos hM0 c.D).ne'
  obtain ⟨hA, hmod⟩ := convection_conservative_continuous_nd c hD hq hK hN s hs b x hx
  rw [(hmod h hh).1 hm, hasCoeffs_fine_grid hs0 hA M hM0 (Kc c) (by omega) _ hk,
    truncV_of_le _ _ _ (box_le_double (Kc c) _ hk)]
  field_simp

/-- **gradient norm `−b·½|∇u|²`, every `D ≥ 1`, `3·Kc < N`, both values of the zero-mode fix** — upgraded statement.
    (1) `opGradNorm b u_K` is the trigonometric polynomial of band `2Kc` with coefficient family `A = gradNormCoef …`;
    (2) on every retained stored mode the model returns `N^D·A(k(h))` — except that with `zero_mode_fix` the mean mode
        `h = 0` is set to `0`, which is the coefficient family of `opGradNorm b u_K − mean` (part (4), the mean being `A 0`,
        `hasCoeffs_gridMean`);  (3) `0` on dropped modes. -/
theorem gradientNorm_continuous_nd (c : Cfg ℂ) (hD : 0 < c.D) (hq : c.fq ≠ 0)
    (hK : 3 * Kc c < (c.N : ℤ)) (hN : 0 < c.N) (s : ℝ) (hs : c.s = (s : ℂ)) (b : ℂ) (zeroFix : Bool)
    (x : Array ℂ) (hx : IsRealND c.D c.N x) :
    HasCoeffs s (Kc c + Kc c) (opGradNorm b (PKfield c s x)) (gradNormCoef s (Kc c) b (ucoef c x)) ∧
    (∀ h, h < numModes c.D c.N →
      (mask c h = 1 → at2 (gradientNorm c 1 b zeroFix #[rfftnM c.D c.N x]) 0 h
          = ((c.N ^ c.D : ℕ) : ℂ) *
              (if zeroFix = true ∧ kvec c.D c.N h = 0 then 0
                else gradNormCoef s (Kc c) b (ucoef c x) (kvec c.D c.N h))) ∧
      (mask c h = 0 → at2 (gradientNorm c 1 b zeroFix #[rfftnM c.D c.N x]) 0 h = 0)) ∧
    (0 ≤ Kc c → HasCoeffs s (Kc c + Kc c)
      (fun ξ => opGradNorm b (PKfield c s x) ξ - gradNormCoef s (Kc c) b (ucoef c x) 0)
      (fun r => if r = 0 then 0 else gradNormCoef s (Kc c) b (ucoef c x) r)) := by
  have hA := opGradNorm_hasCoeffs b (PKfield_hasCoeffs c s x)
  refine ⟨hA, fun h hh => ?_, fun hK0 => hasCoeffs_sub_mean (by omega) hA⟩
  have := gradientNorm_alias_free_nd c hD hq hK hN s hs b zeroFix x hx h hh
  refine ⟨fun hm => ?_, this.2⟩
  rw [this.1 hm]
  simp only [kvec_eq_zero_iff c.D c.N h hD hN hh]
  split_ifs with h0
  · rw [mul_zero]
  · rw [gradNormCoef_model c hN s hs b x]

/-- the gradient-norm coefficient computed on an arbitrary finer grid `M > 3·Kc` (no zero-mode fix, or `h ≠ 0`) -/
theorem gradientNorm_fine_grid (c : Cfg ℂ) (hD : 0 < c.D) (hq : c.fq ≠ 0)
    (hK : 3 * Kc c < (c.N : ℤ)) (hN : 0 < c.N) (s : ℝ) (hs : c.s = (s : ℂ)) (hs0 : s ≠ 0) (b : ℂ)
    (zeroFix : Bool) (x : Array ℂ) (hx : IsRealND c.D c.N x) (M : ℕ) (hM : 3 * Kc c < (M : ℤ)) (h : ℕ)
    (hh : h < numModes c.D c.N) (hm : mask c h = 1) (hz : zeroFix = false ∨ h ≠ 0) :
    at2 (gradientNorm c 1 b zeroFix #[rfftnM c.D c.N x]) 0 h
      = ((c.N ^ c.D : ℕ) : ℂ) / ((M ^ c.D : ℕ) : ℂ) *
          dftV c.D M (tab (M ^ c.D) fun j => opGradNorm b (PKfield c s x) (gridPt s c.D M j))
            (kvec c.D c.N h) := by
  have hk : ∀ d, |kvec c.D c.N h d| ≤ Kc c := (mask_nd_eq_one_iff c hq h).mp hm
  have hM0 : 0 < M := by
    have := abs_nonneg (kvec c.D c.N h ⟨0, hD⟩)
    have := hk ⟨0, hD⟩
    omega
  have hne : ((M ^ c.D : ℕ) : ℂ) ≠ 0 := by exact_mod_cast (pow_pos hM0 c.D).ne'
  obtain ⟨hA, hmod, _⟩ := gradientNorm_continuous_nd c hD hq hK hN s hs b zeroFix x hx
  have hcond : ¬ (zeroFix = true ∧ kvec c.D c.N h = 0) := by
    rintro ⟨h1, h2⟩
    rcases hz with hz | hz
    · rw [hz] at h1; exact Bool.false_ne_true h1
    · exact hz ((kvec_eq_zero_iff c.D c.N h hD hN hh).mp h2)
  rw [(hmod h hh).1 hm, if_neg hcond, hasCoeffs_fine_grid hs0 hA M hM0 (Kc c) (by omega) _ hk,
    truncV_of_le _ _ _ (box_le_double (Kc c) _ hk)]
  field_simp

end Exponax.AliasMulti
