import ExponaxModel.Proofs.SmallGaps2Specific
/-
H7 (C13), continued — the LINEAR specific steppers equal `GeneralLinearStepper` at STEP level, and
`NavierStokesVorticity` equals `GeneralVorticityConvectionStepper`.

`X_step a` is `Interface.baseStep` (regenerated `BaseStepper.__init__` + `step_fourier`; the linear classes fix
`order = 0`, 16 contour points of radius 1, one channel) on the class `X`'s regenerated `_build_linear_operator`
(`Gen.Steppers.X_linear_operator`) applied to the regenerated STORED attribute (`Gen.StepperWiring.X_attrs`: a scalar is
broadcast to `v·ones(D)` resp. `ν·diag(ones(D))`) and the regenerated `__init__ → _build_nonlinear_fun` wiring
(`Gen.StepperWiring.X_stepper_nonlinear_fun`), exactly as `Interface.GeneralLinearStepper_step`.

  Advection(velocity = v)                                   = GeneralLinearStepper(linear = [0, −v])
  Diffusion(diffusivity = ν)                                = GeneralLinearStepper(linear = [0, 0, ν])
  AdvectionDiffusion(velocity = v, diffusivity = ν)         = GeneralLinearStepper(linear = [0, −v, ν])
  Dispersion(dispersivity = ξ), advect_on_diffusion = False (default), or `D = 1` with any flag
                                                            = GeneralLinearStepper(linear = [0, 0, 0, ξ])
  HyperDiffusion(hyper_diffusivity = μ), diffuse_on_diffuse = False (default), or `D = 1` with any flag
                                                            = GeneralLinearStepper(linear = [0, 0, 0, 0, −μ])
  NavierStokesVorticity(ν, b, drag)                         = GeneralVorticityConvectionStepper(b, linear = [drag / D, 0, ν],
                                                                injection_scale = 0)

for scalar (isotropic) coefficients, every `D`, `N`, complex `L`, `dt`.  SIGNS: `Dispersion` enters with `+ξ` (unlike
`KortewegDeVries`, whose dispersivity enters the generic list as `−ξ`), `HyperDiffusion` with `−μ`.
NOTES.
 * the mixing flags are NOT expressible by a generic coefficient list in `D ≥ 2` (`(ξ·∇)(∇·∇) ≠ Σ ξ ∂_d³`,
   `(∇·∇)² ≠ Σ ∂_d⁴`): `Dispersion_mixed_ne_general_2d`, `HyperDiffusion_mixed_ne_general_2d`;
 * Navier–Stokes: as for Fisher–KPP the zeroth generic coefficient enters the generic symbol as `a₀ · Σ_d (i k_d)⁰ = D·a₀`,
   so the drag is `a₀ = drag / D` (`drag / 2`, the class accepts `D = 2` only); with the naive `a₀ = drag` the
   regenerated operators differ (`NavierStokesVorticity_naive_drag_false_2d`).
 * a VECTOR velocity / dispersivity or a vector / matrix diffusivity is anisotropic and has no generic equivalent unless all
   entries agree (`…_uniform_vector`, `Diffusion_step_eq_general_scalar_matrix`; in particular every one-entry vector in 1-D);
   the anisotropic case is genuinely different (`Advection_anisotropic_ne_general_2d`).
-/
set_option linter.unusedVariables false
namespace Exponax.Interface
open Exponax Exponax.Layout Exponax.Transform Exponax.Nonlin Exponax.Gen.Convert Exponax.Gen.Etdrk
open Exponax.Gen.StepperWiring Exponax.Gen.Steppers Exponax.StepperWiringEq
open Exponax.EquivND (liftTermND)

/-! ### helpers -/

/-- `Σ_ij (ν δ_ij) κ_i κ_j = ν Σ_d κ_d²` -/
theorem qform_scalarM (κ : List ℂ) (ν : ℂ) : qform κ (scalarM κ.length ν) = ν * psum κ 2 := by
  unfold qform psum
  rw [Finset.mul_sum]
  apply Finset.sum_congr rfl
  intro i hi
  have hi' := Finset.mem_range.mp hi
  rw [Finset.sum_eq_single_of_mem i hi]
  · have := scalarM_entry κ.length ν i i hi' hi'
    simp only [mfun, if_true] at this
    rw [this]; ring
  · intro j hj hne
    have := scalarM_entry κ.length ν i j hi' (Finset.mem_range.mp hj)
    simp only [mfun] at this
    rw [this, if_neg (Ne.symm hne), zero_mul]

theorem scalarM_length (D : ℕ) (ν : ℂ) : (scalarM D ν).length = D := by simp [scalarM]

theorem scalarM_rows (D : ℕ) (ν : ℂ) : ∀ r ∈ scalarM D ν, r.length = D := by
  intro r hr
  simp only [scalarM, List.mem_map, List.mem_range] at hr
  obtain ⟨i, _, rfl⟩ := hr
  simp

/-- the generic arguments with the geometry and `dt` of a linear class and the list `cs` -/
def linear_to_general (D : ℕ) (L : ℂ) (N : ℕ) (dt : ℂ) (cs : List ℂ) : GeneralLinearStepperArgs ℂ :=
  { num_spatial_dims := D, domain_extent := L, num_points := N, dt := dt, linear_coefficients := cs }

/-! ### the operators at one stored mode, scalar coefficients (`κ` any vector of length `D`) -/

theorem Advection_scalar_eq_general (κ : List ℂ) (D : ℕ) (hD : κ.length = D) (v : ℂ) :
    Advection_linear_operator κ (List.replicate D v) = GeneralLinearStepper_linear_operator κ [0, -v] := by
  subst hD
  rw [Advection_linear_operator_eq _ _ (by simp), vdot_replicate, GeneralLinearStepper_linear_operator_eq]
  simp [Finset.sum_range_succ]

theorem Diffusion_scalar_eq_general (κ : List ℂ) (D : ℕ) (hD : κ.length = D) (ν : ℂ) :
    Diffusion_linear_operator κ (scalarM D ν) = GeneralLinearStepper_linear_operator κ [0, 0, ν] := by
  subst hD
  rw [Diffusion_linear_operator_eq _ _ (scalarM_length _ _) (scalarM_rows _ _), qform_scalarM,
    GeneralLinearStepper_linear_operator_eq]
  simp [Finset.sum_range_succ]

theorem AdvectionDiffusion_scalar_eq_general (κ : List ℂ) (D : ℕ) (hD : κ.length = D) (v ν : ℂ) :
    AdvectionDiffusion_linear_operator κ (List.replicate D v) (scalarM D ν)
      = GeneralLinearStepper_linear_operator κ [0, -v, ν] := by
  subst hD
  rw [AdvectionDiffusion_linear_operator_eq _ _ _ (by simp) (scalarM_length _ _) (scalarM_rows _ _), vdot_replicate,
    qform_scalarM, GeneralLinearStepper_linear_operator_eq]
  simp [Finset.sum_range_succ]

theorem Dispersion_scalar_eq_general (κ : List ℂ) (D : ℕ) (hD : κ.length = D) (ξ : ℂ) :
    Dispersion_linear_operator κ (List.replicate D ξ) false = GeneralLinearStepper_linear_operator κ [0, 0, 0, ξ] := by
  subst hD
  rw [Dispersion_linear_operator_unmixed _ _ (by simp), vdot_replicate, GeneralLinearStepper_linear_operator_eq]
  simp [Finset.sum_range_succ]

theorem Dispersion_scalar_eq_general_1d (κ : List ℂ) (D : ℕ) (hκ : κ.length = D) (hD : D = 1) (ξ : ℂ) (mix : Bool) :
    Dispersion_linear_operator κ (List.replicate D ξ) mix = GeneralLinearStepper_linear_operator κ [0, 0, 0, ξ] := by
  subst hκ
  rw [Dispersion_linear_operator_eq _ _ _ (by simp), vdot_replicate, vdot_replicate,
    GeneralLinearStepper_linear_operator_eq]
  simp only [psum_one_dim _ hD]
  have hr : (∑ j ∈ Finset.range ([0, 0, 0, ξ] : List ℂ).length, ([0, 0, 0, ξ] : List ℂ).getD j 0 * κ.getD 0 0 ^ j)
      = ξ * κ.getD 0 0 ^ 3 := by
    simp [Finset.sum_range_succ]
  rw [hr]
  cases mix
  · simp
  · simp only [if_true]; ring

theorem HyperDiffusion_eq_general (κ : List ℂ) (μ : ℂ) :
    HyperDiffusion_linear_operator κ μ false = GeneralLinearStepper_linear_operator κ [0, 0, 0, 0, -μ] := by
  rw [HyperDiffusion_linear_operator_unmixed, GeneralLinearStepper_linear_operator_eq]
  simp [Finset.sum_range_succ]

theorem HyperDiffusion_eq_general_1d (κ : List ℂ) (hκ : κ.length = 1) (μ : ℂ) (mix : Bool) :
    HyperDiffusion_linear_operator κ μ mix = GeneralLinearStepper_linear_operator κ [0, 0, 0, 0, -μ] := by
  rw [HyperDiffusion_linear_operator_eq, GeneralLinearStepper_linear_operator_eq]
  simp only [psum_one_dim _ hκ]
  have hr : (∑ j ∈ Finset.range ([0, 0, 0, 0, -μ] : List ℂ).length,
        ([0, 0, 0, 0, -μ] : List ℂ).getD j 0 * κ.getD 0 0 ^ j) = -μ * κ.getD 0 0 ^ 4 := by
    simp [Finset.sum_range_succ]
  rw [hr]
  cases mix
  · simp
  · simp only [if_true]; ring

/-! ### Advection -/

/-- the step of `Advection(**a)`; the stored velocity is `none` only for a matrix argument, which the annotation of the
    source does not allow (read as the empty vector) -/
noncomputable def Advection_step (a : AdvectionArgs ℂ) : Spec → Spec :=
  baseStep (Advection_base_args a)
    (fun κ => Advection_linear_operator κ ((Advection_attrs a).velocity.getD []))
    (fun c => Advection_stepper_nonlinear_fun c a)

/-- the equivalent generic arguments: `linear_coefficients = (0, −v)` -/
def Advection_to_general (a : AdvectionArgs ℂ) (v : ℂ) : GeneralLinearStepperArgs ℂ :=
  linear_to_general a.num_spatial_dims a.domain_extent a.num_points a.dt [0, -v]

/-- whenever the STORED velocity is the constant vector `v·ones(D)` -/
theorem Advection_step_eq_general_of_stored (a : AdvectionArgs ℂ) (v : ℂ)
    (hv : (Advection_attrs a).velocity = some (List.replicate a.num_spatial_dims v)) :
    Advection_step a = GeneralLinearStepper_step (Advection_to_general a v) := by
  unfold Advection_step GeneralLinearStepper_step
  apply baseStep_congr _ _ rfl
  · intro h
    have hlen : (kappa (baseCfg a.num_spatial_dims a.num_points a.domain_extent) h).length = a.num_spatial_dims :=
      kappa_length _ h
    show Advection_linear_operator (kappa (baseCfg a.num_spatial_dims a.num_points a.domain_extent) h)
        ((Advection_attrs a).velocity.getD [])
      = GeneralLinearStepper_linear_operator (kappa (baseCfg a.num_spatial_dims a.num_points a.domain_extent) h)
        [0, -v]
    rw [hv]
    simp only [Option.getD_some]
    exact Advection_scalar_eq_general _ _ hlen v
  · funext uh
    show Advection_stepper_nonlinear_fun _ a uh = GeneralLinearStepper_stepper_nonlinear_fun _ _ uh
    rw [Advection_stepper_nonlinear_fun_eq, GeneralLinearStepper_stepper_nonlinear_fun_eq]

/-- **Advection (scalar velocity) = GeneralLinearStepper** at step level -/
theorem Advection_step_eq_general (a : AdvectionArgs ℂ) (v : ℂ) (hv : a.velocity = .scalar v) :
    Advection_step a = GeneralLinearStepper_step (Advection_to_general a v) :=
  Advection_step_eq_general_of_stored a v (by rw [Advection_attrs_eq, hv])

/-- the same for a velocity VECTOR with equal entries (in particular every one-entry vector in 1-D) -/
theorem Advection_step_eq_general_uniform_vector (a : AdvectionArgs ℂ) (v : ℂ)
    (hv : a.velocity = .vector (List.replicate a.num_spatial_dims v)) :
    Advection_step a = GeneralLinearStepper_step (Advection_to_general a v) :=
  Advection_step_eq_general_of_stored a v (by rw [Advection_attrs_eq, hv])

/-- an anisotropic velocity has NO generic equivalent: at `κ = (i, 0)` and `κ = (0, i)` the generic operator takes the same
    value for every coefficient list, `Advection` with `v = (v₁, v₂)`, `v₁ ≠ v₂`, does not -/
theorem Advection_anisotropic_ne_general_2d (v₁ v₂ : ℂ) (hv : v₁ ≠ v₂) (cs : List ℂ) :
    ¬ (Advection_linear_operator [Complex.I, 0] [v₁, v₂] = GeneralLinearStepper_linear_operator [Complex.I, 0] cs
      ∧ Advection_linear_operator [0, Complex.I] [v₁, v₂] = GeneralLinearStepper_linear_operator [0, Complex.I] cs) := by
  rintro ⟨h1, h2⟩
  have hg : GeneralLinearStepper_linear_operator [Complex.I, 0] cs
      = GeneralLinearStepper_linear_operator [0, Complex.I] cs := by
    rw [GeneralLinearStepper_linear_operator_eq, GeneralLinearStepper_linear_operator_eq]
    apply Finset.sum_congr rfl
    intro j _
    have : psum [Complex.I, 0] j = psum [0, Complex.I] j := by
      simp [psum, Finset.sum_range_succ, add_comm]
    rw [this]
  rw [← hg, ← h1, Advection_linear_operator_eq [0, Complex.I] [v₁, v₂] rfl,
    Advection_linear_operator_eq [Complex.I, 0] [v₁, v₂] rfl] at h2
  apply hv
  have h3 : v₂ * Complex.I = v₁ * Complex.I := by
    simpa [vdot, Finset.sum_range_succ] using h2
  exact (mul_right_cancel₀ Complex.I_ne_zero h3).symm

/-! ### Diffusion -/

/-- the step of `Diffusion(**a)` (every form of the argument is allowed: the stored matrix is never `none`) -/
noncomputable def Diffusion_step (a : DiffusionArgs ℂ) : Spec → Spec :=
  baseStep (Diffusion_base_args a)
    (fun κ => Diffusion_linear_operator κ ((Diffusion_attrs a).diffusivity.getD []))
    (fun c => Diffusion_stepper_nonlinear_fun c a)

/-- `linear_coefficients = (0, 0, ν)` -/
def Diffusion_to_general (a : DiffusionArgs ℂ) (ν : ℂ) : GeneralLinearStepperArgs ℂ :=
  linear_to_general a.num_spatial_dims a.domain_extent a.num_points a.dt [0, 0, ν]

/-- whenever the STORED diffusivity is `ν·I` -/
theorem Diffusion_step_eq_general_of_stored (a : DiffusionArgs ℂ) (ν : ℂ)
    (hν : (Diffusion_attrs a).diffusivity = some (scalarM a.num_spatial_dims ν)) :
    Diffusion_step a = GeneralLinearStepper_step (Diffusion_to_general a ν) := by
  unfold Diffusion_step GeneralLinearStepper_step
  apply baseStep_congr _ _ rfl
  · intro h
    have hlen : (kappa (baseCfg a.num_spatial_dims a.num_points a.domain_extent) h).length = a.num_spatial_dims :=
      kappa_length _ h
    show Diffusion_linear_operator (kappa (baseCfg a.num_spatial_dims a.num_points a.domain_extent) h)
        ((Diffusion_attrs a).diffusivity.getD [])
      = GeneralLinearStepper_linear_operator (kappa (baseCfg a.num_spatial_dims a.num_points a.domain_extent) h)
        [0, 0, ν]
    rw [hν]
    simp only [Option.getD_some]
    exact Diffusion_scalar_eq_general _ _ hlen ν
  · funext uh
    show Diffusion_stepper_nonlinear_fun _ a uh = GeneralLinearStepper_stepper_nonlinear_fun _ _ uh
    rw [Diffusion_stepper_nonlinear_fun_eq, GeneralLinearStepper_stepper_nonlinear_fun_eq]

/-- **Diffusion (scalar diffusivity) = GeneralLinearStepper** -/
theorem Diffusion_step_eq_general (a : DiffusionArgs ℂ) (ν : ℂ) (hν : a.diffusivity = .scalar ν) :
    Diffusion_step a = GeneralLinearStepper_step (Diffusion_to_general a ν) :=
  Diffusion_step_eq_general_of_stored a ν (by rw [Diffusion_attrs_eq, hν])

/-- the same for a diffusivity VECTOR with equal entries (`diag(ν, …, ν) = ν·I`) -/
theorem Diffusion_step_eq_general_uniform_vector (a : DiffusionArgs ℂ) (ν : ℂ)
    (hν : a.diffusivity = .vector (List.replicate a.num_spatial_dims ν)) :
    Diffusion_step a = GeneralLinearStepper_step (Diffusion_to_general a ν) :=
  Diffusion_step_eq_general_of_stored a ν (by rw [Diffusion_attrs_eq, hν]; simp only [diagM_replicate])

/-- … and for the diffusivity MATRIX `ν·I` -/
theorem Diffusion_step_eq_general_scalar_matrix (a : DiffusionArgs ℂ) (ν : ℂ)
    (hν : a.diffusivity = .matrix (scalarM a.num_spatial_dims ν)) :
    Diffusion_step a = GeneralLinearStepper_step (Diffusion_to_general a ν) :=
  Diffusion_step_eq_general_of_stored a ν (by rw [Diffusion_attrs_eq, hν])

/-! ### AdvectionDiffusion -/

noncomputable def AdvectionDiffusion_step (a : AdvectionDiffusionArgs ℂ) : Spec → Spec :=
  baseStep (AdvectionDiffusion_base_args a)
    (fun κ => AdvectionDiffusion_linear_operator κ ((AdvectionDiffusion_attrs a).velocity.getD [])
      ((AdvectionDiffusion_attrs a).diffusivity.getD []))
    (fun c => AdvectionDiffusion_stepper_nonlinear_fun c a)

/-- `linear_coefficients = (0, −v, ν)` -/
def AdvectionDiffusion_to_general (a : AdvectionDiffusionArgs ℂ) (v ν : ℂ) : GeneralLinearStepperArgs ℂ :=
  linear_to_general a.num_spatial_dims a.domain_extent a.num_points a.dt [0, -v, ν]

/-- whenever the STORED velocity is `v·ones(D)` and the stored diffusivity `ν·I` -/
theorem AdvectionDiffusion_step_eq_general_of_stored (a : AdvectionDiffusionArgs ℂ) (v ν : ℂ)
    (hv : (AdvectionDiffusion_attrs a).velocity = some (List.replicate a.num_spatial_dims v))
    (hν : (AdvectionDiffusion_attrs a).diffusivity = some (scalarM a.num_spatial_dims ν)) :
    AdvectionDiffusion_step a = GeneralLinearStepper_step (AdvectionDiffusion_to_general a v ν) := by
  unfold AdvectionDiffusion_step GeneralLinearStepper_step
  apply baseStep_congr _ _ rfl
  · intro h
    have hlen : (kappa (baseCfg a.num_spatial_dims a.num_points a.domain_extent) h).length = a.num_spatial_dims :=
      kappa_length _ h
    show AdvectionDiffusion_linear_operator (kappa (baseCfg a.num_spatial_dims a.num_points a.domain_extent) h)
        ((AdvectionDiffusion_attrs a).velocity.getD []) ((AdvectionDiffusion_attrs a).diffusivity.getD [])
      = GeneralLinearStepper_linear_operator (kappa (baseCfg a.num_spatial_dims a.num_points a.domain_extent) h)
        [0, -v, ν]
    rw [hv, hν]
    simp only [Option.getD_some]
    exact AdvectionDiffusion_scalar_eq_general _ _ hlen v ν
  · funext uh
    show AdvectionDiffusion_stepper_nonlinear_fun _ a uh = GeneralLinearStepper_stepper_nonlinear_fun _ _ uh
    rw [AdvectionDiffusion_stepper_nonlinear_fun_eq, GeneralLinearStepper_stepper_nonlinear_fun_eq]

/-- **AdvectionDiffusion (scalar velocity and diffusivity) = GeneralLinearStepper** -/
theorem AdvectionDiffusion_step_eq_general (a : AdvectionDiffusionArgs ℂ) (v ν : ℂ)
    (hv : a.velocity = .scalar v) (hν : a.diffusivity = .scalar ν) :
    AdvectionDiffusion_step a = GeneralLinearStepper_step (AdvectionDiffusion_to_general a v ν) :=
  AdvectionDiffusion_step_eq_general_of_stored a v ν (by rw [AdvectionDiffusion_attrs_eq, hv])
    (by rw [AdvectionDiffusion_attrs_eq, hν])

/-- the same for a velocity vector and a diffusivity vector with equal entries -/
theorem AdvectionDiffusion_step_eq_general_uniform_vector (a : AdvectionDiffusionArgs ℂ) (v ν : ℂ)
    (hv : a.velocity = .vector (List.replicate a.num_spatial_dims v))
    (hν : a.diffusivity = .vector (List.replicate a.num_spatial_dims ν)) :
    AdvectionDiffusion_step a = GeneralLinearStepper_step (AdvectionDiffusion_to_general a v ν) :=
  AdvectionDiffusion_step_eq_general_of_stored a v ν (by rw [AdvectionDiffusion_attrs_eq, hv])
    (by rw [AdvectionDiffusion_attrs_eq, hν]; simp only [diagM_replicate])

/-! ### Dispersion -/

noncomputable def Dispersion_step (a : DispersionArgs ℂ) : Spec → Spec :=
  baseStep (Dispersion_base_args a)
    (fun κ => Dispersion_linear_operator κ ((Dispersion_attrs a).dispersivity.getD [])
      (Dispersion_attrs a).advect_on_diffusion)
    (fun c => Dispersion_stepper_nonlinear_fun c a)

/-- `linear_coefficients = (0, 0, 0, ξ)` -/
def Dispersion_to_general (a : DispersionArgs ℂ) (ξ : ℂ) : GeneralLinearStepperArgs ℂ :=
  linear_to_general a.num_spatial_dims a.domain_extent a.num_points a.dt [0, 0, 0, ξ]

theorem Dispersion_nonlin_eq (a : DispersionArgs ℂ) (ξ : ℂ) :
    (fun c => Dispersion_stepper_nonlinear_fun c a) (baseCfg a.num_spatial_dims a.num_points a.domain_extent)
      = (fun c => GeneralLinearStepper_stepper_nonlinear_fun c (Dispersion_to_general a ξ))
        (baseCfg a.num_spatial_dims a.num_points a.domain_extent) := by
  funext uh
  show Dispersion_stepper_nonlinear_fun _ a uh = GeneralLinearStepper_stepper_nonlinear_fun _ _ uh
  rw [Dispersion_stepper_nonlinear_fun_eq, GeneralLinearStepper_stepper_nonlinear_fun_eq]

/-- whenever the STORED dispersivity is `ξ·ones(D)`, default `advect_on_diffusion = False` -/
theorem Dispersion_step_eq_general_of_stored (a : DispersionArgs ℂ) (ξ : ℂ)
    (hξ : (Dispersion_attrs a).dispersivity = some (List.replicate a.num_spatial_dims ξ))
    (hmix : a.advect_on_diffusion = false) :
    Dispersion_step a = GeneralLinearStepper_step (Dispersion_to_general a ξ) := by
  unfold Dispersion_step GeneralLinearStepper_step
  apply baseStep_congr _ _ rfl
  · intro h
    have hlen : (kappa (baseCfg a.num_spatial_dims a.num_points a.domain_extent) h).length = a.num_spatial_dims :=
      kappa_length _ h
    show Dispersion_linear_operator (kappa (baseCfg a.num_spatial_dims a.num_points a.domain_extent) h)
        ((Dispersion_attrs a).dispersivity.getD []) (Dispersion_attrs a).advect_on_diffusion
      = GeneralLinearStepper_linear_operator (kappa (baseCfg a.num_spatial_dims a.num_points a.domain_extent) h)
        [0, 0, 0, ξ]
    rw [hξ, show (Dispersion_attrs a).advect_on_diffusion = false from hmix]
    simp only [Option.getD_some]
    exact Dispersion_scalar_eq_general _ _ hlen ξ
  · exact Dispersion_nonlin_eq a ξ

/-- **Dispersion (scalar dispersivity, default `advect_on_diffusion = False`) = GeneralLinearStepper** -/
theorem Dispersion_step_eq_general (a : DispersionArgs ℂ) (ξ : ℂ) (hξ : a.dispersivity = .scalar ξ)
    (hmix : a.advect_on_diffusion = false) :
    Dispersion_step a = GeneralLinearStepper_step (Dispersion_to_general a ξ) :=
  Dispersion_step_eq_general_of_stored a ξ (by rw [Dispersion_attrs_eq, hξ]) hmix

/-- the same for a dispersivity VECTOR with equal entries -/
theorem Dispersion_step_eq_general_uniform_vector (a : DispersionArgs ℂ) (ξ : ℂ)
    (hξ : a.dispersivity = .vector (List.replicate a.num_spatial_dims ξ))
    (hmix : a.advect_on_diffusion = false) :
    Dispersion_step a = GeneralLinearStepper_step (Dispersion_to_general a ξ) :=
  Dispersion_step_eq_general_of_stored a ξ (by rw [Dispersion_attrs_eq, hξ]) hmix

/-- **Dispersion in one dimension, ANY flag** (`∂_x ∘ ∂_xx = ∂_xxx`) -/
theorem Dispersion_step_eq_general_1d (a : DispersionArgs ℂ) (ξ : ℂ) (hξ : a.dispersivity = .scalar ξ)
    (hD : a.num_spatial_dims = 1) :
    Dispersion_step a = GeneralLinearStepper_step (Dispersion_to_general a ξ) := by
  unfold Dispersion_step GeneralLinearStepper_step
  apply baseStep_congr _ _ rfl
  · intro h
    have hlen : (kappa (baseCfg a.num_spatial_dims a.num_points a.domain_extent) h).length = a.num_spatial_dims :=
      kappa_length _ h
    have hκ : (kappa (baseCfg a.num_spatial_dims a.num_points a.domain_extent) h).length = 1 := by
      rw [hlen]; exact hD
    show Dispersion_linear_operator (kappa (baseCfg a.num_spatial_dims a.num_points a.domain_extent) h)
        ((Dispersion_attrs a).dispersivity.getD []) (Dispersion_attrs a).advect_on_diffusion
      = GeneralLinearStepper_linear_operator (kappa (baseCfg a.num_spatial_dims a.num_points a.domain_extent) h)
        [0, 0, 0, ξ]
    rw [Dispersion_attrs_eq, hξ]
    simp only [Option.getD_some]
    exact Dispersion_scalar_eq_general_1d _ _ hlen hD ξ _
  · exact Dispersion_nonlin_eq a ξ

/-- … and the mixed flag is NOT the generic `(0, 0, 0, ξ)` in two dimensions: at `κ = (i, i)` the regenerated operators
    are `−4 i ξ` versus `−2 i ξ` -/
theorem Dispersion_mixed_ne_general_2d (ξ : ℂ) (hξ : ξ ≠ 0) :
    Dispersion_linear_operator [Complex.I, Complex.I] (List.replicate 2 ξ) true
      ≠ GeneralLinearStepper_linear_operator [Complex.I, Complex.I] [0, 0, 0, ξ] := by
  rw [Dispersion_linear_operator_mixed _ _ (by simp), GeneralLinearStepper_linear_operator_eq]
  have h2 : ([Complex.I, Complex.I] : List ℂ).length = 2 := rfl
  rw [show (List.replicate 2 ξ) = List.replicate ([Complex.I, Complex.I] : List ℂ).length ξ from rfl, vdot_replicate]
  simp only [psum, h2, List.length_cons, List.length_nil, Finset.sum_range_succ, Finset.sum_range_zero]
  simp
  intro h
  apply hξ
  have h' : ξ * Complex.I = 0 := by linear_combination (-1 / 2 : ℂ) * h
  exact (mul_eq_zero.mp h').resolve_right Complex.I_ne_zero

/-! ### HyperDiffusion -/

noncomputable def HyperDiffusion_step (a : HyperDiffusionArgs ℂ) : Spec → Spec :=
  baseStep (HyperDiffusion_base_args a)
    (fun κ => HyperDiffusion_linear_operator κ (HyperDiffusion_attrs a).hyper_diffusivity
      (HyperDiffusion_attrs a).diffuse_on_diffuse)
    (fun c => HyperDiffusion_stepper_nonlinear_fun c a)

/-- `linear_coefficients = (0, 0, 0, 0, −μ)` -/
def HyperDiffusion_to_general (a : HyperDiffusionArgs ℂ) : GeneralLinearStepperArgs ℂ :=
  linear_to_general a.num_spatial_dims a.domain_extent a.num_points a.dt [0, 0, 0, 0, -a.hyper_diffusivity]

theorem HyperDiffusion_nonlin_eq (a : HyperDiffusionArgs ℂ) :
    (fun c => HyperDiffusion_stepper_nonlinear_fun c a) (baseCfg a.num_spatial_dims a.num_points a.domain_extent)
      = (fun c => GeneralLinearStepper_stepper_nonlinear_fun c (HyperDiffusion_to_general a))
        (baseCfg a.num_spatial_dims a.num_points a.domain_extent) := by
  funext uh
  show HyperDiffusion_stepper_nonlinear_fun _ a uh = GeneralLinearStepper_stepper_nonlinear_fun _ _ uh
  rw [HyperDiffusion_stepper_nonlinear_fun_eq, GeneralLinearStepper_stepper_nonlinear_fun_eq]

/-- **HyperDiffusion (default `diffuse_on_diffuse = False`) = GeneralLinearStepper** -/
theorem HyperDiffusion_step_eq_general (a : HyperDiffusionArgs ℂ) (hmix : a.diffuse_on_diffuse = false) :
    HyperDiffusion_step a = GeneralLinearStepper_step (HyperDiffusion_to_general a) := by
  unfold HyperDiffusion_step GeneralLinearStepper_step
  apply baseStep_congr _ _ rfl
  · intro h
    show HyperDiffusion_linear_operator (kappa (baseCfg a.num_spatial_dims a.num_points a.domain_extent) h)
        a.hyper_diffusivity a.diffuse_on_diffuse
      = GeneralLinearStepper_linear_operator (kappa (baseCfg a.num_spatial_dims a.num_points a.domain_extent) h)
        [0, 0, 0, 0, -a.hyper_diffusivity]
    rw [hmix]
    exact HyperDiffusion_eq_general _ _
  · exact HyperDiffusion_nonlin_eq a

/-- **HyperDiffusion in one dimension, ANY flag** (`∂_xx ∘ ∂_xx = ∂_xxxx`) -/
theorem HyperDiffusion_step_eq_general_1d (a : HyperDiffusionArgs ℂ) (hD : a.num_spatial_dims = 1) :
    HyperDiffusion_step a = GeneralLinearStepper_step (HyperDiffusion_to_general a) := by
  unfold HyperDiffusion_step GeneralLinearStepper_step
  apply baseStep_congr _ _ rfl
  · intro h
    have hκ : (kappa (baseCfg a.num_spatial_dims a.num_points a.domain_extent) h).length = 1 := by
      rw [kappa_length]; exact hD
    show HyperDiffusion_linear_operator (kappa (baseCfg a.num_spatial_dims a.num_points a.domain_extent) h)
        a.hyper_diffusivity a.diffuse_on_diffuse
      = GeneralLinearStepper_linear_operator (kappa (baseCfg a.num_spatial_dims a.num_points a.domain_extent) h)
        [0, 0, 0, 0, -a.hyper_diffusivity]
    exact HyperDiffusion_eq_general_1d _ hκ _ _
  · exact HyperDiffusion_nonlin_eq a

/-- … and the mixed flag is NOT the generic `(0, 0, 0, 0, −μ)` in two dimensions: at `κ = (i, i)`: `−4 μ` versus `−2 μ` -/
theorem HyperDiffusion_mixed_ne_general_2d (μ : ℂ) (hμ : μ ≠ 0) :
    HyperDiffusion_linear_operator [Complex.I, Complex.I] μ true
      ≠ GeneralLinearStepper_linear_operator [Complex.I, Complex.I] [0, 0, 0, 0, -μ] := by
  rw [HyperDiffusion_linear_operator_mixed, GeneralLinearStepper_linear_operator_eq]
  have h2 : ([Complex.I, Complex.I] : List ℂ).length = 2 := rfl
  simp only [psum, h2, List.length_cons, List.length_nil, Finset.sum_range_succ, Finset.sum_range_zero]
  simp
  exact ⟨by norm_num, hμ⟩

/-! ### Navier–Stokes in vorticity form (2-D) -/

/-- the step of `GeneralVorticityConvectionStepper(**g)`; `injection_scale_is_number` is the `isinstance` check of the source
    (`True` for a Python number, in particular the default `0.0`) -/
noncomputable def GeneralVorticityConvectionStepper_step (g : GeneralVorticityConvectionStepperArgs ℂ)
    (injection_scale_is_number : Bool) : Spec → Spec :=
  baseStep (GeneralVorticityConvectionStepper_base_args g)
    (fun κ => GeneralVorticityConvectionStepper_linear_operator κ
      (GeneralVorticityConvectionStepper_attrs g).linear_coefficients)
    (fun c => GeneralVorticityConvectionStepper_stepper_nonlinear_fun c g injection_scale_is_number)

/-- the step of `NavierStokesVorticity(**a)` -/
noncomputable def NavierStokesVorticity_step (a : NavierStokesVorticityArgs ℂ) : Spec → Spec :=
  baseStep (NavierStokesVorticity_base_args a)
    (fun κ => NavierStokesVorticity_linear_operator κ (NavierStokesVorticity_attrs a).diffusivity
      (NavierStokesVorticity_attrs a).drag)
    (fun c => NavierStokesVorticity_stepper_nonlinear_fun c a)

/-- `linear_coefficients = (a₀, 0, ν)`, no injection (`injection_scale = 0`, any `injection_mode`), everything else
    forwarded -/
noncomputable def NavierStokesVorticity_to_general_with (a : NavierStokesVorticityArgs ℂ) (a0 : ℂ) (m : ℕ) :
    GeneralVorticityConvectionStepperArgs ℂ :=
  { num_spatial_dims := a.num_spatial_dims, domain_extent := a.domain_extent, num_points := a.num_points, dt := a.dt,
    vorticity_convection_scale := a.vorticity_convection_scale, linear_coefficients := [a0, 0, a.diffusivity],
    injection_mode := m, injection_scale := 0, order := a.order, dealiasing_fraction := a.dealiasing_fraction,
    num_circle_points := a.num_circle_points, circle_radius := a.circle_radius }

/-- the correct equivalent: `a₀ = drag / D` (`= drag / 2`), default `injection_mode = 4` -/
noncomputable def NavierStokesVorticity_to_general (a : NavierStokesVorticityArgs ℂ) :
    GeneralVorticityConvectionStepperArgs ℂ :=
  NavierStokesVorticity_to_general_with a (a.drag / (a.num_spatial_dims : ℂ)) 4

/-- without injection the generic class instantiates the same `VorticityConvection2d` on the same arguments -/
theorem NavierStokesVorticity_nonlin_eq (a : NavierStokesVorticityArgs ℂ) (a0 : ℂ) (m : ℕ) :
    (fun c => NavierStokesVorticity_stepper_nonlinear_fun c a)
        (baseCfg a.num_spatial_dims a.num_points a.domain_extent)
      = (fun c => GeneralVorticityConvectionStepper_stepper_nonlinear_fun c
          (NavierStokesVorticity_to_general_with a a0 m) true)
        (baseCfg a.num_spatial_dims a.num_points a.domain_extent) := by
  funext uh
  show NavierStokesVorticity_stepper_nonlinear_fun _ a uh
    = GeneralVorticityConvectionStepper_stepper_nonlinear_fun _ (NavierStokesVorticity_to_general_with a a0 m) true uh
  unfold NavierStokesVorticity_stepper_nonlinear_fun GeneralVorticityConvectionStepper_stepper_nonlinear_fun
    NavierStokesVorticity_nonlinear_fun GeneralVorticityConvectionStepper_nonlinear_fun
  have h0 : (true && HasIsZero.isZero
      (GeneralVorticityConvectionStepper_attrs (NavierStokesVorticity_to_general_with a a0 m)).injection_scale) = true := by
    simp [HasIsZero.isZero, GeneralVorticityConvectionStepper_attrs,
      GeneralVorticityConvectionStepper_init_injection_scale, NavierStokesVorticity_to_general_with]
  rw [if_pos h0]
  rfl

/-- **NavierStokesVorticity = GeneralVorticityConvectionStepper** with `a₀ = drag / D`, every order, every option
    forwarded, every `injection_mode` of the generic class (it is not used when `injection_scale = 0`); the class
    accepts `D = 2` only, the statement holds for every `D ≥ 1` -/
theorem NavierStokesVorticity_step_eq_general_any_mode (a : NavierStokesVorticityArgs ℂ) (hD : a.num_spatial_dims ≠ 0)
    (m : ℕ) :
    NavierStokesVorticity_step a
      = GeneralVorticityConvectionStepper_step
          (NavierStokesVorticity_to_general_with a (a.drag / (a.num_spatial_dims : ℂ)) m) true := by
  unfold NavierStokesVorticity_step GeneralVorticityConvectionStepper_step
  apply baseStep_congr _ _ rfl
  · intro h
    show NavierStokesVorticity_linear_operator _ a.diffusivity a.drag
      = GeneralVorticityConvectionStepper_linear_operator _ [a.drag / (a.num_spatial_dims : ℂ), 0, a.diffusivity]
    have hD' : (a.num_spatial_dims : ℂ) ≠ 0 := Nat.cast_ne_zero.mpr hD
    rw [NavierStokesVorticity_linear_operator_eq, GeneralVorticityConvectionStepper_linear_operator_eq]
    simp only [List.length_cons, List.length_nil, Finset.sum_range_succ, Finset.sum_range_zero, psum_zero,
      kappa_length]
    simp
    show a.diffusivity * _ + a.drag
      = a.drag / (a.num_spatial_dims : ℂ) * (a.num_spatial_dims : ℂ) + a.diffusivity * _
    rw [div_mul_cancel₀ _ hD']
    ring
  · exact NavierStokesVorticity_nonlin_eq a _ _

/-- … with the default `injection_mode = 4` -/
theorem NavierStokesVorticity_step_eq_general (a : NavierStokesVorticityArgs ℂ) (hD : a.num_spatial_dims ≠ 0) :
    NavierStokesVorticity_step a
      = GeneralVorticityConvectionStepper_step (NavierStokesVorticity_to_general a) true :=
  NavierStokesVorticity_step_eq_general_any_mode a hD 4

/-- without drag (the default) the list is the plain `(0, 0, ν)` -/
theorem NavierStokesVorticity_step_eq_general_no_drag (a : NavierStokesVorticityArgs ℂ) (hdrag : a.drag = 0) :
    NavierStokesVorticity_step a
      = GeneralVorticityConvectionStepper_step (NavierStokesVorticity_to_general_with a 0 4) true := by
  unfold NavierStokesVorticity_step GeneralVorticityConvectionStepper_step
  apply baseStep_congr _ _ rfl
  · intro h
    show NavierStokesVorticity_linear_operator _ a.diffusivity a.drag
      = GeneralVorticityConvectionStepper_linear_operator _ [0, 0, a.diffusivity]
    rw [NavierStokesVorticity_linear_operator_eq, GeneralVorticityConvectionStepper_linear_operator_eq, hdrag]
    simp [Finset.sum_range_succ]
  · exact NavierStokesVorticity_nonlin_eq a _ _

/-- … and the naive `a₀ = drag` is NOT the equivalent in the class's dimension `D = 2`: the regenerated linear operators
    differ at the mean mode (`drag` versus `2 drag`), for every non-zero drag -/
theorem NavierStokesVorticity_naive_drag_false_2d (N : ℕ) (L ν drag : ℂ) (hr : drag ≠ 0) :
    NavierStokesVorticity_linear_operator (kappa (baseCfg 2 N L) 0) ν drag
      ≠ GeneralVorticityConvectionStepper_linear_operator (kappa (baseCfg 2 N L) 0) [drag, 0, ν] := by
  rw [NavierStokesVorticity_linear_operator_eq, GeneralVorticityConvectionStepper_linear_operator_eq]
  simp only [List.length_cons, List.length_nil, Finset.sum_range_succ, Finset.sum_range_zero, psum_zero,
    kappa_length]
  simp
  intro h
  apply hr
  have : (baseCfg 2 N L).D = 2 := rfl
  rw [this] at h
  push_cast at h
  linear_combination -h

/-! non-vacuity -/
example : ∃ a : NavierStokesVorticityArgs ℂ, a.num_spatial_dims ≠ 0 :=
  ⟨NavierStokesVorticity_with_defaults 2 1 16 1, by decide⟩
example : ∃ a : NavierStokesVorticityArgs ℂ, a.drag = 0 :=
  ⟨NavierStokesVorticity_with_defaults 2 1 16 1, by simp [NavierStokesVorticity_with_defaults]⟩
example : ∃ (a : AdvectionArgs ℂ) (v : ℂ), a.velocity = .scalar v := ⟨Advection_with_defaults 3 1 16 1, _, rfl⟩
example : ∃ (a : DiffusionArgs ℂ) (ν : ℂ), a.diffusivity = .scalar ν := ⟨Diffusion_with_defaults 3 1 16 1, _, rfl⟩
example : ∃ (a : AdvectionDiffusionArgs ℂ) (v ν : ℂ), a.velocity = .scalar v ∧ a.diffusivity = .scalar ν :=
  ⟨AdvectionDiffusion_with_defaults 2 1 16 1, _, _, rfl, rfl⟩
example : ∃ (a : DispersionArgs ℂ) (ξ : ℂ), a.dispersivity = .scalar ξ ∧ a.advect_on_diffusion = false :=
  ⟨Dispersion_with_defaults 2 1 16 1, _, rfl, rfl⟩
example : ∃ (a : DispersionArgs ℂ) (ξ : ℂ), a.dispersivity = .scalar ξ ∧ a.num_spatial_dims = 1
    ∧ a.advect_on_diffusion = true :=
  ⟨{ Dispersion_with_defaults 1 1 16 1 with advect_on_diffusion := true }, _, rfl, rfl, rfl⟩
example : ∃ a : HyperDiffusionArgs ℂ, a.diffuse_on_diffuse = false := ⟨HyperDiffusion_with_defaults 2 1 16 1, rfl⟩
example : ∃ a : HyperDiffusionArgs ℂ, a.num_spatial_dims = 1 ∧ a.diffuse_on_diffuse = true :=
  ⟨{ HyperDiffusion_with_defaults 1 1 16 1 with diffuse_on_diffuse := true }, rfl, rfl⟩

end Exponax.Interface
