import ExponaxModel.Proofs.DiffTermsSteps
import ExponaxModel.Proofs.DiffTermsMain
import ExponaxModel.Proofs.InterfaceAssembly
/-
C07 support — T2 on the ASSEMBLED steppers of `Proofs/Interface*.lean`.

`Interface.etdrkStep` / `Interface.baseStep` act on `Interface.Spec = ℕ → ℕ → ℂ` (all indices; not a normed space).
The stored block is `Spec C M` (`C` channels, `M = modes c` stored modes).  With

    res : Interface.Spec → Spec C M      (restriction)          ext : Spec C M → Interface.Spec   (extension by 0)

  * `res_etdrkStep`        : restriction intertwines `Interface.etdrkStep` with the finite-array step `etdrkStepF` whenever
                             it intertwines the nonlinear maps;
  * `res_liftTermND`       : it does intertwine `liftTermND c C T` with `specMap c C C T` (every model term `T`);
  * `baseStep_rollout_contDiff` : hence `x ↦ res ((baseStep b linop nonlin)^[k] (ext x))` — `k` steps of ANY assembled
                             stepper (`BaseStepper.__init__` + `step_fourier`, every order) whose nonlinear function has a
                             `TermCalc` — is `ContDiff ℝ n` on the stored spectra.
-/
set_option linter.unusedVariables false
namespace Exponax.DiffTerms
open Exponax Exponax.Gen.Etdrk Exponax.Nonlin Exponax.Transform Exponax.Interface Exponax.Gen.StepperWiring

section Res
variable {C M : ℕ}

/-- restriction to the stored block -/
def res (C M : ℕ) (a : Interface.Spec) : Spec C M := fun ch h => a ch h

/-- extension by zero -/
noncomputable def ext (C M : ℕ) (x : Spec C M) : Interface.Spec :=
  fun ch h => if hh : ch < C ∧ h < M then x ⟨ch, hh.1⟩ ⟨h, hh.2⟩ else 0

theorem res_ext (x : Spec C M) : res C M (ext C M x) = x := by
  funext ch h
  simp only [res, ext, dif_pos (And.intro ch.2 h.2), Fin.eta]

theorem res_mul (a b : Interface.Spec) : res C M (a * b) = res C M a * res C M b := rfl
theorem res_add (a b : Interface.Spec) : res C M (a + b) = res C M a + res C M b := rfl
theorem res_sub (a b : Interface.Spec) : res C M (a - b) = res C M a - res C M b := rfl
theorem res_two : res C M (lit 2 : Interface.Spec) = (lit 2 : Spec C M) := rfl

/-- **restriction intertwines the assembled steps** of every order -/
theorem res_etdrkStep (p : ℕ) (dt : ℂ) (lam : Interface.Spec) (Mc : ℕ) (r : ℂ)
    (NI : Interface.Spec → Interface.Spec) (NF : Spec C M → Spec C M) (hN : ∀ a, res C M (NI a) = NF (res C M a))
    (a : Interface.Spec) :
    res C M (Interface.etdrkStep p dt lam Mc r NI a) = etdrkStepF p dt (res C M lam) Mc r NF (res C M a) := by
  match p with
  | 0 => simp only [Interface.etdrkStep, etdrkStepF, E0step, res_mul]; rfl
  | 1 => simp only [Interface.etdrkStep, etdrkStepF, E1step, res_mul, res_add, hN]; rfl
  | 2 => simp only [Interface.etdrkStep, etdrkStepF, E2step, res_mul, res_add, res_sub, hN]; rfl
  | 3 => simp only [Interface.etdrkStep, etdrkStepF, E3step, res_mul, res_add, res_sub, res_two, hN]; rfl
  | 4 => simp only [Interface.etdrkStep, etdrkStepF, E4step, res_mul, res_add, res_sub, res_two, hN]; rfl
  | (k + 5) => rfl

theorem res_iterate (SI : Interface.Spec → Interface.Spec) (SF : Spec C M → Spec C M)
    (h : ∀ a, res C M (SI a) = SF (res C M a)) (k : ℕ) (a : Interface.Spec) :
    res C M (SI^[k] a) = SF^[k] (res C M a) := by
  induction k generalizing a with
  | zero => rfl
  | succ k ih => rw [Function.iterate_succ_apply, Function.iterate_succ_apply, ih, h]

end Res

/-- restriction intertwines the lifted model term with its spectral map -/
theorem res_liftTermND (c : Cfg ℂ) (C : ℕ) (T : MC ℂ → MC ℂ) (a : Interface.Spec) :
    res C (modes c) (EquivND.liftTermND c C T a) = specMap c C C T (res C (modes c) a) := by
  funext ch h
  have e : embS C (modes c) (res C (modes c) a) = tab2 C (modes c) a := by
    unfold embS
    exact NonlinFunsEq.tab2_congr' (fun i hi m hm => by rw [dif_pos ⟨hi, hm⟩]; rfl)
  simp only [res, specMap, readS, e]
  exact EquivND.liftTermND_apply c C T a ch h h.2

/-- **T2 for `Interface.etdrkStep`.**  `k` assembled ETDRK-`p` steps with a lifted model term, restricted to the stored
    block, as a function of the initial stored spectrum -/
theorem etdrkStep_liftTerm_rollout_contDiff (c : Cfg ℂ) (C : ℕ) (T : MC ℂ → MC ℂ) (jvp : MC ℂ → MC ℂ → MC ℂ)
    (h : TermCalc T jvp) (p : ℕ) (dt : ℂ) (lam : Interface.Spec) (Mc : ℕ) (r : ℂ) (n : WithTop ℕ∞) (k : ℕ) :
    ContDiff ℝ n (fun x : Spec C (modes c) =>
      res C (modes c) ((Interface.etdrkStep p dt lam Mc r (EquivND.liftTermND c C T))^[k] (ext C (modes c) x))) := by
  have hstep : ∀ a, res C (modes c) (Interface.etdrkStep p dt lam Mc r (EquivND.liftTermND c C T) a)
      = etdrkStepF p dt (res C (modes c) lam) Mc r (specMap c C C T) (res C (modes c) a) :=
    fun a => res_etdrkStep _ _ _ _ _ _ _ (res_liftTermND c C T) a
  have e : (fun x : Spec C (modes c) =>
        res C (modes c) ((Interface.etdrkStep p dt lam Mc r (EquivND.liftTermND c C T))^[k] (ext C (modes c) x)))
      = (etdrkStepF p dt (res C (modes c) lam) Mc r (specMap c C C T))^[k] := by
    funext x
    rw [res_iterate _ _ hstep k, res_ext]
  rw [e]
  exact h.etdrk_rollout_contDiff c C p dt _ _ _ k

/-- **T2 for the assembled steppers.**  `k` steps of `Interface.baseStep` (any order, regenerated coefficients, the
    class's linear operator `linop` and nonlinear function `nonlin`), restricted to the stored block, as a function of the
    initial stored spectrum, is `ContDiff ℝ n` — provided the nonlinear function (at the stepper's configuration) has a
    `TermCalc`, which every term of `Model/Nonlin.lean` has (`DiffTermsMain`) -/
theorem baseStep_rollout_contDiff (b : BaseStepperArgs ℂ) (linop : List ℂ → ℂ) (nonlin : Cfg ℂ → MC ℂ → MC ℂ)
    (jvp : MC ℂ → MC ℂ → MC ℂ)
    (h : TermCalc (nonlin (baseCfg b.num_spatial_dims b.num_points b.domain_extent)) jvp) (n : WithTop ℕ∞) (k : ℕ) :
    ContDiff ℝ n (fun x : Spec b.num_channels (modes (baseCfg b.num_spatial_dims b.num_points b.domain_extent)) =>
      res b.num_channels (modes (baseCfg b.num_spatial_dims b.num_points b.domain_extent))
        ((baseStep b linop nonlin)^[k]
          (ext b.num_channels (modes (baseCfg b.num_spatial_dims b.num_points b.domain_extent)) x))) := by
  unfold baseStep
  exact etdrkStep_liftTerm_rollout_contDiff _ _ _ jvp h _ _ _ _ _ n k

/-- **instance: the regenerated `GeneralConvectionStepper`** (`exponax/stepper/generic/_convection.py`; also its
    normalized and difficulty children, which are this step on other arguments): `k` steps, every order, every flag
    combination, are smooth in the initial stored spectrum -/
theorem GeneralConvectionStepper_rollout_contDiff (g : GeneralConvectionStepperArgs ℂ) (n : WithTop ℕ∞) (k : ℕ) :
    ContDiff ℝ n (fun x : Spec (if g.single_channel then 1 else g.num_spatial_dims)
        (modes (cfgOf g.num_spatial_dims g.num_points g.domain_extent g.dealiasing_fraction)) =>
      res (if g.single_channel then 1 else g.num_spatial_dims)
        (modes (cfgOf g.num_spatial_dims g.num_points g.domain_extent g.dealiasing_fraction))
        ((GeneralConvectionStepper_step g)^[k]
          (ext (if g.single_channel then 1 else g.num_spatial_dims)
            (modes (cfgOf g.num_spatial_dims g.num_points g.domain_extent g.dealiasing_fraction)) x))) := by
  rw [GeneralConvectionStepper_step_model]
  exact etdrkStep_liftTerm_rollout_contDiff _ _ _ _ (convection_termCalc _ _ _ _ _) _ _ _ _ _ n k

end Exponax.DiffTerms
