import ExponaxModel.Proofs.AliasND2
import ExponaxModel.Proofs.SymmetryND
import ExponaxModel.Proofs.C2RProjection
/-
SmallGaps3, part K3 (C12, 3-D), tools (every dimension `D`, every `N ≥ 1`, ANY mask configuration — no Nyquist proviso):

  * `rfftn_axisOnly_support`   a grid field that depends on the coordinate of ONE axis `e0` only has its stored spectrum on
                               the line `k_d = 0 (d ≠ e0)`  (shift theorem `rfftn_rollND`);
  * `nifft_axisOnly`           conversely `ifft(mask·a)` of a stored array carried by that line depends on that coordinate only;
  * `dftV_nifft_mul_rfftn`     full spectrum of `ifft(mask·ρ·x̂)` for a REAL state `x` and ANY stored multiplier `ρ`:
                               `X(m)·Φ_ρ(m)` with an explicit cover sum `Φ_ρ`, real-valued for real `mask·ρ` and purely
                               imaginary for purely imaginary `mask·ρ`;
  * `sum_real_imag_mul_zero`   **discrete `∫ (R x)(J x) = 0`**: for a real state `x`, a real multiplier `ρ₁` and a purely
                               imaginary multiplier `ρ₂` (e.g. `ρ₁ = 1`, `ρ₂ = −i s k_d`: `∫ u ∂_d u = 0`) the grid inner
                               product of `ifft(mask ρ₁ x̂)` and `ifft(mask ρ₂ x̂)` vanishes — even `N` with Nyquist content
                               included (the Hermitian symmetry of `x̂` and the real part taken by the c2r transform do it).
-/
set_option linter.unusedVariables false
namespace Exponax.SmallGaps3
open Exponax Exponax.Layout Exponax.Transform Exponax.DFT Exponax.Nonlin Exponax.Alias Exponax.AliasND Finset

/-! ### fields depending on one coordinate -/

/-- the grid field `q` depends on the digit (coordinate) of axis `e0` only -/
def AxisOnly (D N e0 : ℕ) (q : Array ℂ) : Prop :=
  ∀ x x', x < N ^ D → x' < N ^ D → digit D N x e0 = digit D N x' e0 → q.getD x 0 = q.getD x' 0

/-- unit shift along axis `d` -/
def unitS (D d : ℕ) : List ℤ := (List.range D).map (fun i => if i = d then 1 else 0)

theorem unitS_getD (D d i : ℕ) (hi : i < D) : (unitS D d).getD i 0 = if i = d then 1 else 0 := by
  simp [unitS, List.getD_eq_getElem?_getD, hi]

theorem dotKS_unitS (D d : ℕ) (hd : d < D) (k : List ℤ) : SymmetryND.dotKS D k (unitS D d) = k.getD d 0 := by
  unfold SymmetryND.dotKS
  rw [Finset.sum_eq_single d]
  · rw [unitS_getD D d d hd, if_pos rfl, mul_one]
  · intro i hi hne
    rw [unitS_getD D d i (Finset.mem_range.mp hi), if_neg hne, mul_zero]
  · intro h
    exact absurd (Finset.mem_range.mpr hd) h

/-- **support of the spectrum of a one-coordinate field** -/
theorem rfftn_axisOnly_support (D N : ℕ) (hD : 0 < D) (hN : 0 < N) (e0 : ℕ) (he0 : e0 < D) (q : Array ℂ)
    (hq : AxisOnly D N e0 q) (h : ℕ) (hh : h < numModes D N) (hne : (rfftnM D N q).getD h 0 ≠ 0) (d : ℕ) (hd : d < D)
    (hde : d ≠ e0) : (wnFlat D N h).getD d 0 = 0 := by
  have hroll : ∀ j < N ^ D, (SymmetryND.rollND D N q (unitS D d)).getD j 0 = q.getD j 0 := by
    intro j hj
    rw [SymmetryND.rollND_getD D N q _ j hj]
    apply hq _ _ (SymmetryND.rollIdx_lt D N hN _ j) hj
    have hdig : ((digit D N j e0 : ℕ) : ℤ) < (N : ℤ) := by exact_mod_cast AliasND.digit_lt D N j e0 hN
    rw [SymmetryND.digit_rollIdx D N hN _ j e0 he0, unitS_getD D d e0 he0, if_neg (fun h' => hde h'.symm), sub_zero,
      Int.emod_eq_of_lt (by positivity) hdig, Int.toNat_natCast]
  have e1 := C2R.rfftnM_congr D N _ q hroll hN h hh
  rw [SymmetryND.rfftn_rollND D N hN q _ h hh, dotKS_unitS D d hd] at e1
  have h1 : twiddle N ((wnFlat D N h).getD d 0) = (1 : ℂ) := by
    have : (twiddle N ((wnFlat D N h).getD d 0) - 1) * (rfftnM D N q).getD h 0 = 0 := by
      rw [sub_mul, e1, one_mul, sub_self]
    rcases mul_eq_zero.mp this with h0 | h0
    · exact sub_eq_zero.mp h0
    · exact absurd h0 hne
  rw [twiddle_eq_zpow, DFT.zeta_zpow_eq_one_iff N hN] at h1
  have hb : |(wnFlat D N h).getD d 0| ≤ ((N / 2 : ℕ) : ℤ) := kvec_abs_le D N h hD hN hh ⟨d, hd⟩
  apply Int.eq_zero_of_abs_lt_dvd h1
  have : (0 : ℤ) < N := by exact_mod_cast hN
  omega

/-- the inverse transform of a stored array carried by the line `k_d = 0 (d ≠ e0)` depends on coordinate `e0` only -/
theorem irfftn_axisOnly (D N : ℕ) (hN : 0 < N) (e0 : ℕ) (a : Array ℂ)
    (ha : ∀ h, h < numModes D N → a.getD h 0 ≠ 0 → ∀ d, d < D → d ≠ e0 → (wnFlat D N h).getD d 0 = 0) :
    AxisOnly D N e0 (irfftnM D N a) := by
  intro x x' hx hx' hdig
  rw [irfftnM_getD D N hN a x hx, irfftnM_getD D N hN a x' hx']
  congr 1
  apply Finset.sum_congr rfl
  intro h hh
  by_cases h0 : a.getD h 0 = 0
  · rw [h0, zero_mul, zero_mul]
  · have hk := ha h (Finset.mem_range.mp hh) h0
    have : phaseK D N (wnFlat D N h) x = phaseK D N (wnFlat D N h) x' := by
      rw [phaseK_eq_sum, phaseK_eq_sum]
      apply Finset.sum_congr rfl
      intro d hd
      by_cases hde : d = e0
      · rw [hde, hdig]
      · rw [hk d (Finset.mem_range.mp hd) hde, zero_mul, zero_mul]
    rw [this]

theorem nifft_axisOnly (c : Cfg ℂ) (hN : 0 < c.N) (e0 : ℕ) (a : Array ℂ)
    (ha : ∀ h, h < modes c → a.getD h 0 ≠ 0 → ∀ d, d < c.D → d ≠ e0 → (wnFlat c.D c.N h).getD d 0 = 0) :
    AxisOnly c.D c.N e0 (nifft c a) := by
  unfold nifft
  apply irfftn_axisOnly c.D c.N hN e0
  intro h hh hne d hd hde
  have hh' : h < modes c := hh
  rw [Nonlin.tab_getD _ _ _ _ hh'] at hne
  exact ha h hh' (fun h0 => hne (by rw [h0, mul_zero])) d hd hde

/-! ### `ifft(mask·ρ·x̂)` for a real state and any stored multiplier -/

/-- the cover sum of the multiplier `z_h = mask_h ρ_h`: weight with which `X(m)` appears in the spectrum of `ifft(z·x̂)` -/
noncomputable def coverMul (D N : ℕ) (z : ℕ → ℂ) (m : Fin D → ℤ) : ℂ :=
  ∑ h ∈ range (numModes D N), ((herm_weight D N h : ℂ) / 2) *
    (z h * (if ∀ d, (N : ℤ) ∣ m d - kvec D N h d then 1 else 0)
      + (starRingEnd ℂ) (z h) * (if ∀ d, (N : ℤ) ∣ m d + kvec D N h d then 1 else 0))

theorem dftV_nifft_mul_rfftn (c : Cfg ℂ) (hN : 0 < c.N) (x : Array ℂ) (hx : IsRealND c.D c.N x) (ρ : ℕ → ℂ)
    (m : Fin c.D → ℤ) :
    dftV c.D c.N (nifft c (tab (modes c) fun h => ρ h * (rfftnM c.D c.N x).getD h 0)) m
      = dftV c.D c.N x m * coverMul c.D c.N (fun h => mask c h * ρ h) m := by
  rw [dftV_nifft c hN]
  unfold coverMul
  rw [Finset.mul_sum]
  apply Finset.sum_congr rfl
  intro h hh
  have hh' : h < modes c := Finset.mem_range.mp hh
  rw [DFT.tab_getD _ _ _ _ hh', rfftn_eq_dftV c.D c.N hN x h (Finset.mem_range.mp hh)]
  have e1 : dftV c.D c.N x (kvec c.D c.N h) * (if ∀ d, (c.N : ℤ) ∣ m d - kvec c.D c.N h d then (1 : ℂ) else 0)
      = dftV c.D c.N x m * (if ∀ d, (c.N : ℤ) ∣ m d - kvec c.D c.N h d then 1 else 0) := by
    split_ifs with hc
    · have hc' : VCongr c.D c.N m (kvec c.D c.N h) := hc
      rw [dftV_of_congr x hc']
    · simp
  have e2 : dftV c.D c.N x (-kvec c.D c.N h) * (if ∀ d, (c.N : ℤ) ∣ m d + kvec c.D c.N h d then (1 : ℂ) else 0)
      = dftV c.D c.N x m * (if ∀ d, (c.N : ℤ) ∣ m d + kvec c.D c.N h d then 1 else 0) := by
    split_ifs with hc
    · have hc' : VCongr c.D c.N m (-kvec c.D c.N h) := fun d => by
        rw [Pi.neg_apply, sub_neg_eq_add]; exact hc d
      rw [dftV_of_congr x hc']
    · simp
  rw [map_mul, map_mul, conj_dftV c.D c.N x hx]
  calc (herm_weight c.D c.N h : ℂ) / 2 *
        (mask c h * (ρ h * dftV c.D c.N x (kvec c.D c.N h))
            * (if ∀ d, (c.N : ℤ) ∣ m d - kvec c.D c.N h d then 1 else 0)
          + (starRingEnd ℂ) (mask c h) * ((starRingEnd ℂ) (ρ h) * dftV c.D c.N x (-kvec c.D c.N h))
              * (if ∀ d, (c.N : ℤ) ∣ m d + kvec c.D c.N h d then 1 else 0))
      = (herm_weight c.D c.N h : ℂ) / 2 *
        (mask c h * ρ h * (dftV c.D c.N x (kvec c.D c.N h)
            * (if ∀ d, (c.N : ℤ) ∣ m d - kvec c.D c.N h d then 1 else 0))
          + (starRingEnd ℂ) (mask c h) * (starRingEnd ℂ) (ρ h) * (dftV c.D c.N x (-kvec c.D c.N h)
              * (if ∀ d, (c.N : ℤ) ∣ m d + kvec c.D c.N h d then 1 else 0))) := by ring
    _ = _ := by rw [e1, e2, map_mul]; ring

theorem coverMul_im_of_real (D N : ℕ) (z : ℕ → ℂ) (hz : ∀ h, (z h).im = 0) (m : Fin D → ℤ) :
    (coverMul D N z m).im = 0 := by
  unfold coverMul
  rw [Complex.im_sum]
  apply Finset.sum_eq_zero
  intro h _
  have e : ((herm_weight D N h : ℂ) / 2) = (((herm_weight D N h : ℝ) / 2 : ℝ) : ℂ) := by push_cast; ring
  rw [e, Complex.im_ofReal_mul]
  have hc : ((starRingEnd ℂ) (z h)).im = 0 := by rw [Complex.conj_im, hz h, neg_zero]
  split_ifs <;> simp [hz h, hc]

theorem coverMul_re_of_imag (D N : ℕ) (z : ℕ → ℂ) (hz : ∀ h, (z h).re = 0) (m : Fin D → ℤ) :
    (coverMul D N z m).re = 0 := by
  unfold coverMul
  rw [Complex.re_sum]
  apply Finset.sum_eq_zero
  intro h _
  have e : ((herm_weight D N h : ℂ) / 2) = (((herm_weight D N h : ℝ) / 2 : ℝ) : ℂ) := by push_cast; ring
  rw [e, Complex.re_ofReal_mul]
  have hc : ((starRingEnd ℂ) (z h)).re = 0 := by rw [Complex.conj_re, hz h]
  split_ifs <;> simp [hz h, hc]

/-- **discrete `∫ (R x)(J x) = 0`**, any `D`, any `N ≥ 1`, any mask: `x` real, `mask·ρ₁` real, `mask·ρ₂` purely imaginary -/
theorem sum_real_imag_mul_zero (c : Cfg ℂ) (hN : 0 < c.N) (x : Array ℂ) (hx : IsRealND c.D c.N x) (ρ1 ρ2 : ℕ → ℂ)
    (h1 : ∀ h, (mask c h * ρ1 h).im = 0) (h2 : ∀ h, (mask c h * ρ2 h).re = 0) :
    ∑ j ∈ range (c.N ^ c.D),
        (nifft c (tab (modes c) fun h => ρ1 h * (rfftnM c.D c.N x).getD h 0)).getD j 0
          * (nifft c (tab (modes c) fun h => ρ2 h * (rfftnM c.D c.N x).getD h 0)).getD j 0 = 0 := by
  set A := nifft c (tab (modes c) fun h => ρ1 h * (rfftnM c.D c.N x).getD h 0) with hA
  set B := nifft c (tab (modes c) fun h => ρ2 h * (rfftnM c.D c.N x).getD h 0) with hB
  have hAr : IsRealND c.D c.N A := nifft_isRealND c hN _
  have hBr : IsRealND c.D c.N B := nifft_isRealND c hN _
  apply Complex.ext
  · -- real part: every term of the circular Parseval sum is purely imaginary
    rw [← dftV_zero_eq_sum c.D c.N (fun j => A.getD j 0 * B.getD j 0), dftV_mul c.D c.N hN A B 0]
    have e : (1 / ((c.N ^ c.D : ℕ) : ℂ)) = (((1 / ((c.N ^ c.D : ℕ) : ℝ)) : ℝ) : ℂ) := by push_cast; ring
    rw [e, Complex.re_ofReal_mul, Complex.re_sum, Complex.zero_re]
    apply mul_eq_zero_of_right
    apply Finset.sum_eq_zero
    intro a _
    rw [hA, hB, dftV_nifft_mul_rfftn c hN x hx ρ1, dftV_nifft_mul_rfftn c hN x hx ρ2, zero_sub,
      ← conj_dftV c.D c.N x hx (digZ c.D c.N a)]
    have r1 := coverMul_im_of_real c.D c.N (fun h => mask c h * ρ1 h) h1 (digZ c.D c.N a)
    have r2 := coverMul_re_of_imag c.D c.N (fun h => mask c h * ρ2 h) h2 (-digZ c.D c.N a)
    set X := dftV c.D c.N x (digZ c.D c.N a)
    set P := coverMul c.D c.N (fun h => mask c h * ρ1 h) (digZ c.D c.N a)
    set Q := coverMul c.D c.N (fun h => mask c h * ρ2 h) (-digZ c.D c.N a)
    have hXX : (X * (starRingEnd ℂ) X).im = 0 := by
      rw [Complex.mul_conj]; exact Complex.ofReal_im _
    have : X * P * ((starRingEnd ℂ) X * Q) = (X * (starRingEnd ℂ) X) * (P * Q) := by ring
    have hPQ : (P * Q).re = 0 := by rw [Complex.mul_re, r1, r2]; ring
    rw [this, Complex.mul_re, hXX, hPQ]
    ring
  · rw [Complex.im_sum, Complex.zero_im]
    apply Finset.sum_eq_zero
    intro j hj
    have hj' := Finset.mem_range.mp hj
    rw [Complex.mul_im, hAr j hj', hBr j hj']
    ring

end Exponax.SmallGaps3
