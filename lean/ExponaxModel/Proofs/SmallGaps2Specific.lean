import ExponaxModel.Proofs.InterfaceAssembly2
/-
H7 (C13) — the SPECIFIC steppers of the overview equal their GENERIC equivalents at STEP level (not only symbol level).

`X_step a` is `Interface.baseStep` (regenerated `BaseStepper.__init__` + `step_fourier`, regenerated ETDRK coefficients
and stage formulas of the requested order) on the class `X`'s regenerated `_build_linear_operator`
(`Gen.Steppers.X_linear_operator`) and regenerated `__init__ → _build_nonlinear_fun` wiring
(`Gen.StepperWiring.X_stepper_nonlinear_fun`), exactly as `Interface.GeneralConvectionStepper_step`.

  Burgers(ν, b, flags)                       = GeneralConvectionStepper(linear = [0, 0, ν], b, flags)
  KortewegDeVries(b, ν, ξ, μ, flags), default mixing flags (both False), or `D = 1` with any mixing flags
                                             = GeneralConvectionStepper(linear = [0, 0, ν, −ξ, −μ], b, flags)
  KuramotoSivashinskyConservative(b, a₂, a₄) = GeneralConvectionStepper(linear = [0, 0, −a₂, 0, −a₄], b, flags)
  KuramotoSivashinsky(b, a₂, a₄)             = GeneralGradientNormStepper(linear = [0, 0, −a₂, 0, −a₄], b)
  FisherKPP(ν, r)                            = GeneralPolynomialStepper(linear = [r / D, 0, ν], polynomial = [0, 0, −r])

every order, every option forwarded.  NOTE (Fisher-KPP): the zeroth general coefficient enters the general symbol as
`a₀ · Σ_d (i k_d)⁰ = D · a₀`, so the equivalent is `a₀ = r / D`; the documented `a₀ = r` is right only for `D = 1`
(`FisherKPP_documented_a0_false_2d`: the symbols differ for `D = 2`).
-/
set_option linter.unusedVariables false
namespace Exponax.Interface
open Exponax Exponax.Layout Exponax.Transform Exponax.Nonlin Exponax.Gen.Convert Exponax.Gen.Etdrk
open Exponax.Gen.StepperWiring Exponax.Gen.Steppers Exponax.StepperWiringEq
open Exponax.EquivND (liftTermND)

/-- two `baseStep`s agree when the base arguments agree, the linear operators agree on the derivative-operator
    entries of every stored mode, and the nonlinear functions agree on the stepper's configuration -/
theorem baseStep_congr (b b' : BaseStepperArgs ℂ) (hb : b = b') (linop linop' : List ℂ → ℂ)
    (nonlin nonlin' : Cfg ℂ → MC ℂ → MC ℂ)
    (hl : ∀ h, linop (kappa (baseCfg b.num_spatial_dims b.num_points b.domain_extent) h)
      = linop' (kappa (baseCfg b.num_spatial_dims b.num_points b.domain_extent) h))
    (hn : nonlin (baseCfg b.num_spatial_dims b.num_points b.domain_extent)
      = nonlin' (baseCfg b.num_spatial_dims b.num_points b.domain_extent)) :
    baseStep b linop nonlin = baseStep b' linop' nonlin' := by
  subst hb
  unfold baseStep
  have e : (fun (_ : ℕ) h => linop (kappa (baseCfg b.num_spatial_dims b.num_points b.domain_extent) h))
      = (fun (_ : ℕ) h => linop' (kappa (baseCfg b.num_spatial_dims b.num_points b.domain_extent) h)) := by
    funext _ h; exact hl h
  rw [e, hn]

theorem psum_zero (κ : List ℂ) : psum κ 0 = (κ.length : ℂ) := by
  simp [psum]

/-! ### Burgers -/

/-- the step of `Burgers(**a)` -/
noncomputable def Burgers_step (a : BurgersArgs ℂ) : Spec → Spec :=
  baseStep (Burgers_base_args a)
    (fun κ => Burgers_linear_operator κ (Burgers_attrs a).diffusivity)
    (fun c => Burgers_stepper_nonlinear_fun c a)

/-- the documented equivalent arguments: `linear_coefficients = (0, 0, ν)`, everything else forwarded -/
def Burgers_to_general (a : BurgersArgs ℂ) : GeneralConvectionStepperArgs ℂ :=
  { num_spatial_dims := a.num_spatial_dims, domain_extent := a.domain_extent, num_points := a.num_points, dt := a.dt,
    linear_coefficients := [0, 0, a.diffusivity], convection_scale := a.convection_scale,
    single_channel := a.single_channel, conservative := a.conservative, order := a.order,
    dealiasing_fraction := a.dealiasing_fraction, num_circle_points := a.num_circle_points,
    circle_radius := a.circle_radius }

/-- **Burgers = GeneralConvectionStepper** at step level -/
theorem Burgers_step_eq_general (a : BurgersArgs ℂ) :
    Burgers_step a = GeneralConvectionStepper_step (Burgers_to_general a) := by
  unfold Burgers_step GeneralConvectionStepper_step
  apply baseStep_congr _ _ rfl
  · intro h
    show Burgers_linear_operator _ a.diffusivity = GeneralConvectionStepper_linear_operator _ [0, 0, a.diffusivity]
    rw [Burgers_linear_operator_eq, GeneralConvectionStepper_linear_operator_eq]
    simp [Finset.sum_range_succ]
  · funext uh
    rw [Burgers_stepper_nonlinear_fun_eq _ a uh rfl,
      GeneralConvectionStepper_stepper_nonlinear_fun_eq _ (Burgers_to_general a) uh rfl]
    rfl

/-! ### Korteweg–de Vries -/

noncomputable def KortewegDeVries_step (a : KortewegDeVriesArgs ℂ) : Spec → Spec :=
  baseStep (KortewegDeVries_base_args a)
    (fun κ => KortewegDeVries_linear_operator κ (KortewegDeVries_attrs a).dispersivity
      (KortewegDeVries_attrs a).diffusivity (KortewegDeVries_attrs a).hyper_diffusivity
      (KortewegDeVries_attrs a).advect_over_diffuse (KortewegDeVries_attrs a).diffuse_over_diffuse
      (KortewegDeVries_base_args a).num_spatial_dims)
    (fun c => KortewegDeVries_stepper_nonlinear_fun c a)

/-- `linear_coefficients = (0, 0, ν, −ξ, −μ)` (diffusivity, dispersivity, hyper-diffusivity) -/
def KortewegDeVries_to_general (a : KortewegDeVriesArgs ℂ) : GeneralConvectionStepperArgs ℂ :=
  { num_spatial_dims := a.num_spatial_dims, domain_extent := a.domain_extent, num_points := a.num_points, dt := a.dt,
    linear_coefficients := [0, 0, a.diffusivity, -a.dispersivity, -a.hyper_diffusivity],
    convection_scale := a.convection_scale, single_channel := a.single_channel, conservative := a.conservative,
    order := a.order, dealiasing_fraction := a.dealiasing_fraction, num_circle_points := a.num_circle_points,
    circle_radius := a.circle_radius }

theorem KortewegDeVries_nonlin_eq (a : KortewegDeVriesArgs ℂ) :
    (fun c => KortewegDeVries_stepper_nonlinear_fun c a)
        (baseCfg a.num_spatial_dims a.num_points a.domain_extent)
      = (fun c => GeneralConvectionStepper_stepper_nonlinear_fun c (KortewegDeVries_to_general a))
        (baseCfg a.num_spatial_dims a.num_points a.domain_extent) := by
  funext uh
  show KortewegDeVries_stepper_nonlinear_fun _ a uh
    = GeneralConvectionStepper_stepper_nonlinear_fun _ (KortewegDeVries_to_general a) uh
  rw [KortewegDeVries_stepper_nonlinear_fun_eq _ a uh rfl,
    GeneralConvectionStepper_stepper_nonlinear_fun_eq _ (KortewegDeVries_to_general a) uh rfl]
  rfl

/-- **KdV (default mixing flags: `advect_over_diffuse = diffuse_over_diffuse = False`) = GeneralConvectionStepper** -/
theorem KortewegDeVries_step_eq_general (a : KortewegDeVriesArgs ℂ) (h1 : a.advect_over_diffuse = false)
    (h2 : a.diffuse_over_diffuse = false) :
    KortewegDeVries_step a = GeneralConvectionStepper_step (KortewegDeVries_to_general a) := by
  unfold KortewegDeVries_step GeneralConvectionStepper_step
  apply baseStep_congr _ _ rfl
  · intro h
    show KortewegDeVries_linear_operator (kappa (baseCfg a.num_spatial_dims a.num_points a.domain_extent) h)
        a.dispersivity a.diffusivity a.hyper_diffusivity a.advect_over_diffuse
        a.diffuse_over_diffuse a.num_spatial_dims
      = GeneralConvectionStepper_linear_operator (kappa (baseCfg a.num_spatial_dims a.num_points a.domain_extent) h)
        [0, 0, a.diffusivity, -a.dispersivity, -a.hyper_diffusivity]
    have hlen : (kappa (baseCfg a.num_spatial_dims a.num_points a.domain_extent) h).length = a.num_spatial_dims :=
      kappa_length _ h
    rw [KortewegDeVries_linear_operator_eq _ _ _ _ _ _ _ hlen,
      GeneralConvectionStepper_linear_operator_eq, h1, h2]
    simp [Finset.sum_range_succ]
  · exact KortewegDeVries_nonlin_eq a

theorem psum_one_dim (κ : List ℂ) (hκ : κ.length = 1) (n : ℕ) : psum κ n = κ.getD 0 0 ^ n := by
  simp [psum, hκ]

/-- **KdV in one dimension, ANY mixing flags** (`∂_x ∘ ∂_xx = ∂_xxx`, `∂_xx ∘ ∂_xx = ∂_xxxx`) -/
theorem KortewegDeVries_step_eq_general_1d (a : KortewegDeVriesArgs ℂ) (hD : a.num_spatial_dims = 1) :
    KortewegDeVries_step a = GeneralConvectionStepper_step (KortewegDeVries_to_general a) := by
  unfold KortewegDeVries_step GeneralConvectionStepper_step
  apply baseStep_congr _ _ rfl
  · intro h
    show KortewegDeVries_linear_operator (kappa (baseCfg a.num_spatial_dims a.num_points a.domain_extent) h)
        a.dispersivity a.diffusivity a.hyper_diffusivity a.advect_over_diffuse
        a.diffuse_over_diffuse a.num_spatial_dims
      = GeneralConvectionStepper_linear_operator (kappa (baseCfg a.num_spatial_dims a.num_points a.domain_extent) h)
        [0, 0, a.diffusivity, -a.dispersivity, -a.hyper_diffusivity]
    have hlen : (kappa (baseCfg a.num_spatial_dims a.num_points a.domain_extent) h).length = a.num_spatial_dims :=
      kappa_length _ h
    have hκ : (kappa (baseCfg a.num_spatial_dims a.num_points a.domain_extent) h).length = 1 := by
      rw [hlen]; exact hD
    rw [KortewegDeVries_linear_operator_eq _ _ _ _ _ _ _ hlen,
      GeneralConvectionStepper_linear_operator_eq]
    simp only [psum_one_dim _ hκ]
    cases a.advect_over_diffuse <;> cases a.diffuse_over_diffuse <;>
      (simp [Finset.sum_range_succ] <;> ring)
  · exact KortewegDeVries_nonlin_eq a

/-! ### Kuramoto–Sivashinsky (conservative form) -/

noncomputable def KuramotoSivashinskyConservative_step (a : KuramotoSivashinskyConservativeArgs ℂ) : Spec → Spec :=
  baseStep (KuramotoSivashinskyConservative_base_args a)
    (fun κ => KuramotoSivashinskyConservative_linear_operator κ
      (KuramotoSivashinskyConservative_attrs a).second_order_scale
      (KuramotoSivashinskyConservative_attrs a).fourth_order_scale)
    (fun c => KuramotoSivashinskyConservative_stepper_nonlinear_fun c a)

/-- `linear_coefficients = (0, 0, −a₂, 0, −a₄)` -/
def KuramotoSivashinskyConservative_to_general (a : KuramotoSivashinskyConservativeArgs ℂ) :
    GeneralConvectionStepperArgs ℂ :=
  { num_spatial_dims := a.num_spatial_dims, domain_extent := a.domain_extent, num_points := a.num_points, dt := a.dt,
    linear_coefficients := [0, 0, -a.second_order_scale, 0, -a.fourth_order_scale],
    convection_scale := a.convection_scale, single_channel := a.single_channel, conservative := a.conservative,
    order := a.order, dealiasing_fraction := a.dealiasing_fraction, num_circle_points := a.num_circle_points,
    circle_radius := a.circle_radius }

/-- **KuramotoSivashinskyConservative = GeneralConvectionStepper** -/
theorem KuramotoSivashinskyConservative_step_eq_general (a : KuramotoSivashinskyConservativeArgs ℂ) :
    KuramotoSivashinskyConservative_step a
      = GeneralConvectionStepper_step (KuramotoSivashinskyConservative_to_general a) := by
  unfold KuramotoSivashinskyConservative_step GeneralConvectionStepper_step
  apply baseStep_congr _ _ rfl
  · intro h
    show KuramotoSivashinskyConservative_linear_operator _ a.second_order_scale a.fourth_order_scale
      = GeneralConvectionStepper_linear_operator _ [0, 0, -a.second_order_scale, 0, -a.fourth_order_scale]
    rw [KuramotoSivashinskyConservative_linear_operator_eq, GeneralConvectionStepper_linear_operator_eq]
    simp [Finset.sum_range_succ]
    ring
  · funext uh
    rw [KuramotoSivashinskyConservative_stepper_nonlinear_fun_eq _ a uh rfl,
      GeneralConvectionStepper_stepper_nonlinear_fun_eq _ (KuramotoSivashinskyConservative_to_general a) uh rfl]
    rfl

/-! ### Kuramoto–Sivashinsky (combustion form) -/

noncomputable def KuramotoSivashinsky_step (a : KuramotoSivashinskyArgs ℂ) : Spec → Spec :=
  baseStep (KuramotoSivashinsky_base_args a)
    (fun κ => KuramotoSivashinsky_linear_operator κ (KuramotoSivashinsky_attrs a).second_order_scale
      (KuramotoSivashinsky_attrs a).fourth_order_scale)
    (fun c => KuramotoSivashinsky_stepper_nonlinear_fun c a)

/-- `linear_coefficients = (0, 0, −a₂, 0, −a₄)`, the same gradient-norm scale -/
def KuramotoSivashinsky_to_general (a : KuramotoSivashinskyArgs ℂ) : GeneralGradientNormStepperArgs ℂ :=
  { num_spatial_dims := a.num_spatial_dims, domain_extent := a.domain_extent, num_points := a.num_points, dt := a.dt,
    linear_coefficients := [0, 0, -a.second_order_scale, 0, -a.fourth_order_scale],
    gradient_norm_scale := a.gradient_norm_scale, order := a.order,
    dealiasing_fraction := a.dealiasing_fraction, num_circle_points := a.num_circle_points,
    circle_radius := a.circle_radius }

/-- **KuramotoSivashinsky = GeneralGradientNormStepper** -/
theorem KuramotoSivashinsky_step_eq_general (a : KuramotoSivashinskyArgs ℂ) :
    KuramotoSivashinsky_step a = GeneralGradientNormStepper_step (KuramotoSivashinsky_to_general a) := by
  unfold KuramotoSivashinsky_step GeneralGradientNormStepper_step
  apply baseStep_congr _ _ rfl
  · intro h
    show KuramotoSivashinsky_linear_operator _ a.second_order_scale a.fourth_order_scale
      = GeneralGradientNormStepper_linear_operator _ [0, 0, -a.second_order_scale, 0, -a.fourth_order_scale]
    rw [KuramotoSivashinsky_linear_operator_eq, GeneralGradientNormStepper_linear_operator_eq]
    simp [Finset.sum_range_succ]
    ring
  · funext uh
    rw [KuramotoSivashinsky_stepper_nonlinear_fun_eq _ a uh,
      GeneralGradientNormStepper_stepper_nonlinear_fun_eq _ (KuramotoSivashinsky_to_general a) uh]
    rfl

/-! ### Fisher–KPP -/

noncomputable def FisherKPP_step (a : FisherKPPArgs ℂ) : Spec → Spec :=
  baseStep (FisherKPP_base_args a)
    (fun κ => FisherKPP_linear_operator κ (FisherKPP_attrs a).diffusivity (FisherKPP_attrs a).reactivity)
    (fun c => FisherKPP_stepper_nonlinear_fun c a)

/-- `linear_coefficients = (a₀, 0, ν)`, `polynomial_coefficients = (0, 0, −r)` -/
noncomputable def FisherKPP_to_general_with (a : FisherKPPArgs ℂ) (a0 : ℂ) : GeneralPolynomialStepperArgs ℂ :=
  { num_spatial_dims := a.num_spatial_dims, domain_extent := a.domain_extent, num_points := a.num_points, dt := a.dt,
    linear_coefficients := [a0, 0, a.diffusivity],
    polynomial_coefficients := [0, 0, -a.reactivity], order := a.order,
    dealiasing_fraction := a.dealiasing_fraction, num_circle_points := a.num_circle_points,
    circle_radius := a.circle_radius }

/-- the correct equivalent: `a₀ = r / D` -/
noncomputable def FisherKPP_to_general (a : FisherKPPArgs ℂ) : GeneralPolynomialStepperArgs ℂ :=
  FisherKPP_to_general_with a (a.reactivity / (a.num_spatial_dims : ℂ))

theorem FisherKPP_nonlin_eq (a : FisherKPPArgs ℂ) (a0 : ℂ) :
    (fun c => FisherKPP_stepper_nonlinear_fun c a) (baseCfg a.num_spatial_dims a.num_points a.domain_extent)
      = (fun c => GeneralPolynomialStepper_stepper_nonlinear_fun c (FisherKPP_to_general_with a a0))
        (baseCfg a.num_spatial_dims a.num_points a.domain_extent) := by
  funext uh
  show FisherKPP_stepper_nonlinear_fun _ a uh
    = GeneralPolynomialStepper_stepper_nonlinear_fun _ (FisherKPP_to_general_with a a0) uh
  rw [FisherKPP_stepper_nonlinear_fun_eq _ a uh,
    GeneralPolynomialStepper_stepper_nonlinear_fun_eq _ (FisherKPP_to_general_with a a0) uh]
  rfl

/-- **FisherKPP = GeneralPolynomialStepper** with `a₀ = r / D` (every `D ≥ 1`) -/
theorem FisherKPP_step_eq_general (a : FisherKPPArgs ℂ) (hD : a.num_spatial_dims ≠ 0) :
    FisherKPP_step a = GeneralPolynomialStepper_step (FisherKPP_to_general a) := by
  unfold FisherKPP_step GeneralPolynomialStepper_step FisherKPP_to_general
  apply baseStep_congr _ _ rfl
  · intro h
    show FisherKPP_linear_operator _ a.diffusivity a.reactivity
      = GeneralPolynomialStepper_linear_operator _ [a.reactivity / (a.num_spatial_dims : ℂ), 0, a.diffusivity]
    have hD' : (a.num_spatial_dims : ℂ) ≠ 0 := Nat.cast_ne_zero.mpr hD
    rw [FisherKPP_linear_operator_eq, GeneralPolynomialStepper_linear_operator_eq]
    simp only [List.length_cons, List.length_nil, Finset.sum_range_succ, Finset.sum_range_zero, psum_zero,
      kappa_length]
    simp
    show a.diffusivity * _ + a.reactivity
      = a.reactivity / (a.num_spatial_dims : ℂ) * (a.num_spatial_dims : ℂ) + a.diffusivity * _
    rw [div_mul_cancel₀ _ hD']
    ring
  · exact FisherKPP_nonlin_eq a _

/-- the documented equivalent (`a₀ = r`) in one dimension -/
theorem FisherKPP_step_eq_general_documented_1d (a : FisherKPPArgs ℂ) (hD : a.num_spatial_dims = 1) :
    FisherKPP_step a = GeneralPolynomialStepper_step (FisherKPP_to_general_with a a.reactivity) := by
  rw [FisherKPP_step_eq_general a (by omega)]
  unfold FisherKPP_to_general
  rw [hD]
  simp

/-- … and it is NOT the equivalent for `D = 2`: the regenerated linear operators differ at the mean mode
    (`r` versus `2 r`), for every non-zero reactivity -/
theorem FisherKPP_documented_a0_false_2d (N : ℕ) (L ν r : ℂ) (hr : r ≠ 0) :
    FisherKPP_linear_operator (kappa (baseCfg 2 N L) 0) ν r
      ≠ GeneralPolynomialStepper_linear_operator (kappa (baseCfg 2 N L) 0) [r, 0, ν] := by
  rw [FisherKPP_linear_operator_eq, GeneralPolynomialStepper_linear_operator_eq]
  simp only [List.length_cons, List.length_nil, Finset.sum_range_succ, Finset.sum_range_zero, psum_zero,
    kappa_length]
  simp
  intro h
  apply hr
  have : (baseCfg 2 N L).D = 2 := rfl
  rw [this] at h
  push_cast at h
  linear_combination -h

/-! non-vacuity -/
example : ∃ a : KortewegDeVriesArgs ℂ, a.advect_over_diffuse = false ∧ a.diffuse_over_diffuse = false :=
  ⟨KortewegDeVries_with_defaults 2 1 16 1, rfl, rfl⟩
example : ∃ a : KortewegDeVriesArgs ℂ, a.num_spatial_dims = 1 ∧ a.advect_over_diffuse = true :=
  ⟨{ KortewegDeVries_with_defaults 1 1 16 1 with advect_over_diffuse := true }, rfl, rfl⟩
example : ∃ a : FisherKPPArgs ℂ, a.num_spatial_dims ≠ 0 := ⟨FisherKPP_with_defaults 3 1 16 1, by decide⟩
example : ∃ a : FisherKPPArgs ℂ, a.num_spatial_dims = 1 := ⟨FisherKPP_with_defaults 1 1 16 1, rfl⟩
example : ∃ r : ℂ, r ≠ 0 := ⟨1, one_ne_zero⟩

end Exponax.Interface
