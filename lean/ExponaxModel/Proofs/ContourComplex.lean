import ExponaxModel.Proofs.ContourTailETDRK
/-
C02 / C19 support — the stored ETDRK coefficients for COMPLEX symbols `z = λ·dt`
(advection, dispersion, complex Ginzburg–Landau, growing KS modes), code defaults
`num_circle_points = 16`, `circle_radius = 1`.

T1  * a contour node `r ζ_j + z` vanishes iff `z = −r ζ_j` (an explicit finite set on the circle
      `‖z‖ = ‖r‖`); `‖z‖ ≠ ‖r‖` is sufficient but NOT necessary (`z = 1`, `z = i` are fine).
    * for `z` outside that 16-point set and `Re z ≤ c` (`c ≥ −16`), every one of the fourteen stored
      coefficients is within `‖dt‖ · k_i · 4.9·10⁻¹³ · e^c` of `dt ×` its entire φ-combination
      (`k_i ≤ 10/3`): uniformly `‖dt‖ · 1.7·10⁻¹² · e^c`.  (Cauchy estimate on the disc of radius
      `R = 16` about `z`, the minimiser of `e^R / R^16`; `R = 4` gives the `5·10⁻⁸` of
      `coef_errors_default`.)
      `Re z ≤ 0`: `1.7·10⁻¹²·‖dt‖`;   `Re z ≤ 20`: `8.3·10⁻⁴·‖dt‖` (relative to `φ ~ e^20/20`: `4·10⁻¹¹`).

Exact (real/complex) arithmetic; IEEE rounding of the closed forms near a node is not modelled.
The fourteen coefficients are indexed by `Fin 14` (`storedCoef`, `exactPhi`, `coefWeight`);
the `rfl`-lemmas `storedCoef_0 … storedCoef_13` etc. and `coef_errors_iff` are the link to the
regenerated definitions `Gen.Etdrk.E?_coef_?`.
-/
set_option linter.unusedVariables false
namespace Exponax.ContourComplex
open Exponax Exponax.Spec Exponax.Gen.Etdrk Exponax.ContourTail

/-! ## which nodes vanish -/

theorem node_eq_zero_iff (r ζ z : ℂ) : r * ζ + z = 0 ↔ z = -(r * ζ) :=
  ⟨fun h => by linear_combination h, fun h => by rw [h]; ring⟩

/-- **T1 (exclusion set).** some contour node vanishes iff `z` is one of the `M` points `−r ζ_j` -/
theorem exists_node_eq_zero_iff (M : ℕ) (r z : ℂ) :
    (∃ ζ ∈ (roots_of_unity M : List ℂ), r * ζ + z = 0)
      ↔ ∃ j, j < M ∧ z = -(r * root_of_unity M (j + 1)) := by
  constructor
  · rintro ⟨ζ, hζ, h⟩
    obtain ⟨j, hj, rfl⟩ := (mem_roots_iff M ζ).mp hζ
    exact ⟨j, hj, (node_eq_zero_iff _ _ _).mp h⟩
  · rintro ⟨j, hj, h⟩
    exact ⟨_, (mem_roots_iff M _).mpr ⟨j, hj, rfl⟩, (node_eq_zero_iff _ _ _).mpr h⟩

/-- the hypothesis `hnz` of the `E?_coef_?_error` theorems, as an exclusion set -/
theorem nodes_ne_zero_iff (M : ℕ) (r z : ℂ) :
    (∀ ζ ∈ (roots_of_unity M : List ℂ), r * ζ + z ≠ 0)
      ↔ ∀ ζ ∈ (roots_of_unity M : List ℂ), z ≠ -(r * ζ) :=
  forall₂_congr (fun ζ _ => not_congr (node_eq_zero_iff r ζ z))

/-- the exclusion set lies on the circle `‖z‖ = ‖r‖` … -/
theorem norm_eq_of_node_eq_zero (M : ℕ) (r z ζ : ℂ) (hζ : ζ ∈ (roots_of_unity M : List ℂ))
    (h : r * ζ + z = 0) : ‖z‖ = ‖r‖ := by
  rw [(node_eq_zero_iff _ _ _).mp h, norm_neg, norm_mul, norm_of_mem_roots M ζ hζ, mul_one]

/-- … so `‖z‖ ≠ ‖r‖` keeps `z` out of it (default radius: `‖z‖ ≠ 1`) -/
theorem excluded_of_norm_ne (M : ℕ) (r z : ℂ) (h : ‖z‖ ≠ ‖r‖) :
    ∀ ζ ∈ (roots_of_unity M : List ℂ), z ≠ -(r * ζ) :=
  (nodes_ne_zero_iff M r z).mp (nodes_ne_zero_of_norm_ne M r z h)

theorem excluded_of_norm_ne_one (M : ℕ) (z : ℂ) (h : ‖z‖ ≠ 1) :
    ∀ ζ ∈ (roots_of_unity M : List ℂ), z ≠ -(1 * ζ) :=
  excluded_of_norm_ne M 1 z (by rwa [norm_one])

/-- … but `‖z‖ = ‖r‖` does NOT put `z` into it: every real `z` (e.g. `z = ±1`) is outside for even `M` -/
theorem excluded_of_real (M : ℕ) (hM : 0 < M) (hev : M % 2 = 0) (x : ℝ) :
    ∀ ζ ∈ (roots_of_unity M : List ℂ), (x : ℂ) ≠ -(1 * ζ) := by
  have h := Stiffness.nodes_ne_zero M hM hev 1 x one_ne_zero
  rw [Complex.ofReal_one] at h
  exact (nodes_ne_zero_iff M 1 x).mp h

/-- the closed-form integrands at a vanishing node are literally `0/0`: all numerators and all
    denominators of `Gen.Etdrk.E?_scan_body_?` vanish at `lr = 0` (IEEE: NaN; Lean's total division
    returns `0`, which is NOT the limit value `φ(0)`, see `ContourComplexNodes.lean`) -/
theorem integrands_zero_over_zero (w : ℂ) (hw : w = 0) :
    (Complex.exp w - 1 = 0 ∧ w = 0) ∧ (Complex.exp w - 1 - w = 0 ∧ w ^ 2 = 0) ∧
    (Complex.exp (w / 2) - 1 = 0 ∧ w = 0) ∧
    (-4 - w + Complex.exp w * (4 - 3 * w + w ^ 2) = 0 ∧ w ^ 3 = 0) ∧
    (2 + w + Complex.exp w * (-2 + w) = 0 ∧ w ^ 3 = 0) ∧
    (-4 - 3 * w - w ^ 2 + Complex.exp w * (4 - w) = 0 ∧ w ^ 3 = 0) := by
  subst hw
  simp

/-- the regenerated integrands ARE these quotients (`lr = r ζ + L·dt`) -/
theorem scan_bodies_as_quotients (L r ζ : ℂ) :
    E1_scan_body_0 L r ζ = (Complex.exp (r * ζ + L) - 1) / (r * ζ + L) ∧
    E2_scan_body_1 L r ζ = (Complex.exp (r * ζ + L) - 1 - (r * ζ + L)) / (r * ζ + L) ^ 2 ∧
    E4_scan_body_0 L r ζ = (Complex.exp ((r * ζ + L) / 2) - 1) / (r * ζ + L) ∧
    E4_scan_body_1 L r ζ = (-4 - (r * ζ + L) + Complex.exp (r * ζ + L)
        * (4 - 3 * (r * ζ + L) + (r * ζ + L) ^ 2)) / (r * ζ + L) ^ 3 ∧
    E4_scan_body_2 L r ζ = (2 + (r * ζ + L) + Complex.exp (r * ζ + L) * (-2 + (r * ζ + L)))
        / (r * ζ + L) ^ 3 ∧
    E4_scan_body_3 L r ζ = (-4 - 3 * (r * ζ + L) - (r * ζ + L) ^ 2
        + Complex.exp (r * ζ + L) * (4 - (r * ζ + L))) / (r * ζ + L) ^ 3 := by
  simp only [E1_scan_body_0, E2_scan_body_1, E4_scan_body_0, E4_scan_body_1, E4_scan_body_2,
    E4_scan_body_3, hasExp_complex, lit_eq, npow_eq]
  push_cast
  exact ⟨rfl, rfl, rfl, rfl, rfl, rfl⟩

/-! ## the fourteen stored coefficients, indexed -/

/-- the fourteen stored coefficients `E1.c1, E2.c1, E2.c2, E3.c1–c5, E4.c1–c6` -/
noncomputable def storedCoef (dt lam : ℂ) (M : ℕ) (r : ℂ) : Fin 14 → ℂ :=
  ![E1_coef_1 dt lam M r, E2_coef_1 dt lam M r, E2_coef_2 dt lam M r,
    E3_coef_1 dt lam M r, E3_coef_2 dt lam M r, E3_coef_3 dt lam M r, E3_coef_4 dt lam M r,
    E3_coef_5 dt lam M r,
    E4_coef_1 dt lam M r, E4_coef_2 dt lam M r, E4_coef_3 dt lam M r, E4_coef_4 dt lam M r,
    E4_coef_5 dt lam M r, E4_coef_6 dt lam M r]

/-- their exact values divided by `dt`: the ENTIRE Cox–Matthews φ-combinations at `z = λ·dt` -/
noncomputable def exactPhi (z : ℂ) : Fin 14 → ℂ :=
  ![phi1e z, phi1e z, phi2e z,
    phi1e (z / 2) / 2, phi1e z, phi1e z - 3 * phi2e z + 4 * phi3e z, 4 * phi2e z - 8 * phi3e z,
    4 * phi3e z - phi2e z,
    phi1e (z / 2) / 2, phi1e (z / 2) / 2, phi1e (z / 2) / 2, phi1e z - 3 * phi2e z + 4 * phi3e z,
    phi2e z - 2 * phi3e z, 4 * phi3e z - phi2e z]

/-- `k_i = Σ |a_j|/j!` for the combination `Σ a_j φ_j` (`1/2` for the half-step `φ₁(z/2)/2`) -/
noncomputable def coefWeight : Fin 14 → ℝ :=
  ![1, 1, 1 / 2, 1 / 2, 1, 19 / 6, 10 / 3, 7 / 6, 1 / 2, 1 / 2, 1 / 2, 19 / 6, 5 / 6, 7 / 6]

section links
variable (dt lam r z : ℂ) (M : ℕ)
theorem storedCoef_0 : storedCoef dt lam M r 0 = E1_coef_1 dt lam M r := rfl
theorem storedCoef_1 : storedCoef dt lam M r 1 = E2_coef_1 dt lam M r := rfl
theorem storedCoef_2 : storedCoef dt lam M r 2 = E2_coef_2 dt lam M r := rfl
theorem storedCoef_3 : storedCoef dt lam M r 3 = E3_coef_1 dt lam M r := rfl
theorem storedCoef_4 : storedCoef dt lam M r 4 = E3_coef_2 dt lam M r := rfl
theorem storedCoef_5 : storedCoef dt lam M r 5 = E3_coef_3 dt lam M r := rfl
theorem storedCoef_6 : storedCoef dt lam M r 6 = E3_coef_4 dt lam M r := rfl
theorem storedCoef_7 : storedCoef dt lam M r 7 = E3_coef_5 dt lam M r := rfl
theorem storedCoef_8 : storedCoef dt lam M r 8 = E4_coef_1 dt lam M r := rfl
theorem storedCoef_9 : storedCoef dt lam M r 9 = E4_coef_2 dt lam M r := rfl
theorem storedCoef_10 : storedCoef dt lam M r 10 = E4_coef_3 dt lam M r := rfl
theorem storedCoef_11 : storedCoef dt lam M r 11 = E4_coef_4 dt lam M r := rfl
theorem storedCoef_12 : storedCoef dt lam M r 12 = E4_coef_5 dt lam M r := rfl
theorem storedCoef_13 : storedCoef dt lam M r 13 = E4_coef_6 dt lam M r := rfl
end links

theorem coefWeight_nonneg (i : Fin 14) : 0 ≤ coefWeight i := by
  fin_cases i <;> simp [coefWeight] <;> norm_num

theorem coefWeight_le (i : Fin 14) : coefWeight i ≤ 10 / 3 := by
  fin_cases i <;> simp [coefWeight] <;> norm_num

/-- all fourteen `E?_coef_?_error` theorems in one statement (any `M`, complex `r`, any `R > ‖r‖`) -/
theorem storedCoef_error (dt lam r : ℂ) (M : ℕ) (hM : 0 < M) (R : ℝ) (hrR : ‖r‖ < R)
    (hnz : ∀ ζ ∈ (roots_of_unity M : List ℂ), r * ζ + lam * dt ≠ 0) (i : Fin 14) :
    ‖storedCoef dt lam M r i - dt * exactPhi (lam * dt) i‖
      ≤ ‖dt‖ * (coefWeight i * Real.exp (max 0 ((lam * dt).re + R)) * (‖r‖ / R) ^ M
        / (1 - (‖r‖ / R) ^ M)) := by
  have h1 : ∀ x : ℝ, (1 : ℝ) * x = x := one_mul
  fin_cases i
  · show ‖E1_coef_1 dt lam M r - dt * phi1e (lam * dt)‖ ≤ ‖dt‖ * ((1 : ℝ) * _ * _ / _)
    rw [h1]; exact E1_coef_1_error dt lam r M hM R hrR hnz
  · show ‖E2_coef_1 dt lam M r - dt * phi1e (lam * dt)‖ ≤ ‖dt‖ * ((1 : ℝ) * _ * _ / _)
    rw [h1]; exact E2_coef_1_error dt lam r M hM R hrR hnz
  · exact E2_coef_2_error dt lam r M hM R hrR hnz
  · exact E3_coef_1_error dt lam r M hM R hrR hnz
  · show ‖E3_coef_2 dt lam M r - dt * phi1e (lam * dt)‖ ≤ ‖dt‖ * ((1 : ℝ) * _ * _ / _)
    rw [h1]; exact E3_coef_2_error dt lam r M hM R hrR hnz
  · exact E3_coef_3_error dt lam r M hM R hrR hnz
  · exact E3_coef_4_error dt lam r M hM R hrR hnz
  · exact E3_coef_5_error dt lam r M hM R hrR hnz
  · exact E4_coef_1_error dt lam r M hM R hrR hnz
  · exact E4_coef_2_error dt lam r M hM R hrR hnz
  · exact E4_coef_3_error dt lam r M hM R hrR hnz
  · exact E4_coef_4_error dt lam r M hM R hrR hnz
  · exact E4_coef_5_error dt lam r M hM R hrR hnz
  · exact E4_coef_6_error dt lam r M hM R hrR hnz

/-! ## numerics for the defaults `M = 16`, `r = 1`, Cauchy radius `R = 16` -/

theorem exp_16_lt : Real.exp 16 < 8886111 := by
  have h1 : Real.exp 16 = Real.exp 1 ^ 16 := by
    rw [← Real.exp_nat_mul]; norm_num
  have h2 : Real.exp 1 ^ 16 < 2.7182818286 ^ 16 :=
    pow_lt_pow_left₀ Real.exp_one_lt_d9 (Real.exp_pos 1).le (by norm_num)
  rw [h1]
  exact h2.trans (by norm_num)

theorem exp_20_lt : Real.exp 20 < 485165196 := by
  have h1 : Real.exp 20 = Real.exp 1 ^ 20 := by
    rw [← Real.exp_nat_mul]; norm_num
  have h2 : Real.exp 1 ^ 20 < 2.7182818286 ^ 20 :=
    pow_lt_pow_left₀ Real.exp_one_lt_d9 (Real.exp_pos 1).le (by norm_num)
  rw [h1]
  exact h2.trans (by norm_num)

/-- `e^16 · 16⁻¹⁶ / (1 − 16⁻¹⁶) < 4.9·10⁻¹³` -/
theorem tail_numeric16 :
    Real.exp 16 * ((1 : ℝ) / 16) ^ 16 / (1 - ((1 : ℝ) / 16) ^ 16) < 4.9e-13 := by
  have h5 : (0 : ℝ) < 1 - ((1 : ℝ) / 16) ^ 16 := by norm_num
  rw [div_lt_iff₀ h5]
  calc Real.exp 16 * ((1 : ℝ) / 16) ^ 16 < 8886111 * ((1 : ℝ) / 16) ^ 16 :=
        mul_lt_mul_of_pos_right exp_16_lt (by positivity)
    _ < 4.9e-13 * (1 - ((1 : ℝ) / 16) ^ 16) := by norm_num

/-- passage from the raw tail bound (`M = 16`, `r = 1`, `R = 16`) to `k · 4.9·10⁻¹³ · e^c` on
    `Re z ≤ c`, `c ≥ −16` -/
theorem strip_bound (X dt z : ℂ) (k c : ℝ) (hk : 0 ≤ k) (hc : -16 ≤ c) (hz : z.re ≤ c)
    (h : ‖X‖ ≤ ‖dt‖ * (k * Real.exp (max 0 (z.re + 16)) * (‖(1 : ℂ)‖ / 16) ^ 16
      / (1 - (‖(1 : ℂ)‖ / 16) ^ 16))) :
    ‖X‖ ≤ ‖dt‖ * (k * (4.9e-13 * Real.exp c)) := by
  refine h.trans (mul_le_mul_of_nonneg_left ?_ (norm_nonneg dt))
  rw [norm_one]
  have he : Real.exp (max 0 (z.re + 16)) ≤ Real.exp c * Real.exp 16 := by
    rw [← Real.exp_add]
    exact Real.exp_le_exp.mpr (max_le (by linarith) (by linarith))
  have hT := tail_numeric16
  have ht0 : (0 : ℝ) ≤ ((1 : ℝ) / 16) ^ 16 / (1 - ((1 : ℝ) / 16) ^ 16) := by norm_num
  have hc0 : 0 ≤ Real.exp c := (Real.exp_pos c).le
  calc k * Real.exp (max 0 (z.re + 16)) * ((1 : ℝ) / 16) ^ 16 / (1 - ((1 : ℝ) / 16) ^ 16)
      = k * (Real.exp (max 0 (z.re + 16)) * (((1 : ℝ) / 16) ^ 16 / (1 - ((1 : ℝ) / 16) ^ 16))) := by
        ring
    _ ≤ k * ((Real.exp c * Real.exp 16) * (((1 : ℝ) / 16) ^ 16 / (1 - ((1 : ℝ) / 16) ^ 16))) :=
        mul_le_mul_of_nonneg_left (mul_le_mul_of_nonneg_right he ht0) hk
    _ = k * (Real.exp c * (Real.exp 16 * ((1 : ℝ) / 16) ^ 16 / (1 - ((1 : ℝ) / 16) ^ 16))) := by
        ring
    _ ≤ k * (Real.exp c * 4.9e-13) :=
        mul_le_mul_of_nonneg_left (mul_le_mul_of_nonneg_left hT.le hc0) hk
    _ = k * (4.9e-13 * Real.exp c) := by ring

/-! ## T1 — the strip `Re z ≤ c`, `z ∉ {−ζ_j}` -/

/-- **T1 (per-coefficient constant).**  `z = λ·dt` outside the 16-point exclusion set, `Re z ≤ c`,
    `c ≥ −16`: coefficient `i` is within `‖dt‖·k_i·4.9·10⁻¹³·e^c` of `dt ×` its entire φ-combination. -/
theorem storedCoef_error_strip_weighted (dt lam : ℂ) (c : ℝ) (hc : -16 ≤ c)
    (hz : (lam * dt).re ≤ c)
    (hnz : ∀ ζ ∈ (roots_of_unity 16 : List ℂ), lam * dt ≠ -(1 * ζ)) (i : Fin 14) :
    ‖storedCoef dt lam 16 1 i - dt * exactPhi (lam * dt) i‖
      ≤ ‖dt‖ * (coefWeight i * (4.9e-13 * Real.exp c)) :=
  strip_bound _ dt (lam * dt) (coefWeight i) c (coefWeight_nonneg i) hc hz
    (storedCoef_error dt lam 1 16 (by norm_num) 16 (by rw [norm_one]; norm_num)
      ((nodes_ne_zero_iff 16 1 (lam * dt)).mpr hnz) i)

/-- **T1 (uniform constant).**  … hence within `‖dt‖ · 1.7·10⁻¹² · e^c`, all fourteen. -/
theorem storedCoef_error_strip (dt lam : ℂ) (c : ℝ) (hc : -16 ≤ c) (hz : (lam * dt).re ≤ c)
    (hnz : ∀ ζ ∈ (roots_of_unity 16 : List ℂ), lam * dt ≠ -(1 * ζ)) (i : Fin 14) :
    ‖storedCoef dt lam 16 1 i - dt * exactPhi (lam * dt) i‖ ≤ ‖dt‖ * (1.7e-12 * Real.exp c) := by
  refine (storedCoef_error_strip_weighted dt lam c hc hz hnz i).trans
    (mul_le_mul_of_nonneg_left ?_ (norm_nonneg dt))
  have h1 := coefWeight_le i
  have h2 := Real.exp_pos c
  nlinarith

/-- **T1, closed left half-plane** `Re z ≤ 0`: `1.7·10⁻¹²·‖dt‖` -/
theorem storedCoef_error_halfplane (dt lam : ℂ) (hz : (lam * dt).re ≤ 0)
    (hnz : ∀ ζ ∈ (roots_of_unity 16 : List ℂ), lam * dt ≠ -(1 * ζ)) (i : Fin 14) :
    ‖storedCoef dt lam 16 1 i - dt * exactPhi (lam * dt) i‖ ≤ ‖dt‖ * 1.7e-12 := by
  have h := storedCoef_error_strip dt lam 0 (by norm_num) hz hnz i
  rwa [Real.exp_zero, mul_one] at h

/-- **T1, growing modes** `Re z ≤ 20` (Kuramoto–Sivashinsky-type symbols): `8.3·10⁻⁴·‖dt‖`
    (the exact value is of size `e^20/20 ≈ 2.4·10⁷`) -/
theorem storedCoef_error_re_le_20 (dt lam : ℂ) (hz : (lam * dt).re ≤ 20)
    (hnz : ∀ ζ ∈ (roots_of_unity 16 : List ℂ), lam * dt ≠ -(1 * ζ)) (i : Fin 14) :
    ‖storedCoef dt lam 16 1 i - dt * exactPhi (lam * dt) i‖ ≤ ‖dt‖ * 8.3e-4 := by
  refine (storedCoef_error_strip dt lam 20 (by norm_num) hz hnz i).trans
    (mul_le_mul_of_nonneg_left ?_ (norm_nonneg dt))
  have := exp_20_lt
  nlinarith

/-- the same with the sufficient condition `‖z‖ ≠ 1` of the task statement -/
theorem storedCoef_error_strip_of_norm_ne_one (dt lam : ℂ) (c : ℝ) (hc : -16 ≤ c)
    (hz : (lam * dt).re ≤ c) (hn : ‖lam * dt‖ ≠ 1) (i : Fin 14) :
    ‖storedCoef dt lam 16 1 i - dt * exactPhi (lam * dt) i‖ ≤ ‖dt‖ * (1.7e-12 * Real.exp c) :=
  storedCoef_error_strip dt lam c hc hz (excluded_of_norm_ne_one 16 _ hn) i

theorem storedCoef_error_halfplane_of_norm_ne_one (dt lam : ℂ) (hz : (lam * dt).re ≤ 0)
    (hn : ‖lam * dt‖ ≠ 1) (i : Fin 14) :
    ‖storedCoef dt lam 16 1 i - dt * exactPhi (lam * dt) i‖ ≤ ‖dt‖ * 1.7e-12 :=
  storedCoef_error_halfplane dt lam hz (excluded_of_norm_ne_one 16 _ hn) i

/-! ## the explicit form (no index type) -/

/-- unfolding of `∀ i : Fin 14` into the fourteen regenerated coefficient definitions -/
theorem coef_errors_iff (dt lam r : ℂ) (M : ℕ) (ε : ℝ) :
    (∀ i : Fin 14, ‖storedCoef dt lam M r i - dt * exactPhi (lam * dt) i‖ ≤ ε) ↔
    (‖E1_coef_1 dt lam M r - dt * phi1e (lam * dt)‖ ≤ ε ∧
     ‖E2_coef_1 dt lam M r - dt * phi1e (lam * dt)‖ ≤ ε ∧
     ‖E2_coef_2 dt lam M r - dt * phi2e (lam * dt)‖ ≤ ε ∧
     ‖E3_coef_1 dt lam M r - dt * (phi1e (lam * dt / 2) / 2)‖ ≤ ε ∧
     ‖E3_coef_2 dt lam M r - dt * phi1e (lam * dt)‖ ≤ ε ∧
     ‖E3_coef_3 dt lam M r - dt * (phi1e (lam * dt) - 3 * phi2e (lam * dt) + 4 * phi3e (lam * dt))‖ ≤ ε ∧
     ‖E3_coef_4 dt lam M r - dt * (4 * phi2e (lam * dt) - 8 * phi3e (lam * dt))‖ ≤ ε ∧
     ‖E3_coef_5 dt lam M r - dt * (4 * phi3e (lam * dt) - phi2e (lam * dt))‖ ≤ ε ∧
     ‖E4_coef_1 dt lam M r - dt * (phi1e (lam * dt / 2) / 2)‖ ≤ ε ∧
     ‖E4_coef_2 dt lam M r - dt * (phi1e (lam * dt / 2) / 2)‖ ≤ ε ∧
     ‖E4_coef_3 dt lam M r - dt * (phi1e (lam * dt / 2) / 2)‖ ≤ ε ∧
     ‖E4_coef_4 dt lam M r - dt * (phi1e (lam * dt) - 3 * phi2e (lam * dt) + 4 * phi3e (lam * dt))‖ ≤ ε ∧
     ‖E4_coef_5 dt lam M r - dt * (phi2e (lam * dt) - 2 * phi3e (lam * dt))‖ ≤ ε ∧
     ‖E4_coef_6 dt lam M r - dt * (4 * phi3e (lam * dt) - phi2e (lam * dt))‖ ≤ ε) := by
  constructor
  · intro h
    exact ⟨h 0, h 1, h 2, h 3, h 4, h 5, h 6, h 7, h 8, h 9, h 10, h 11, h 12, h 13⟩
  · rintro ⟨h0, h1, h2, h3, h4, h5, h6, h7, h8, h9, h10, h11, h12, h13⟩ i
    fin_cases i
    exacts [h0, h1, h2, h3, h4, h5, h6, h7, h8, h9, h10, h11, h12, h13]

/-- **T1 headline, explicit.**  Complex `dt, λ` with `Re (λ·dt) ≤ 0` and `λ·dt` not one of the sixteen
    points `−ζ_j`: every stored ETDRK1–4 coefficient (defaults `M = 16`, `r = 1`) is within
    `1.7·10⁻¹²·‖dt‖` of `dt ×` its exact Cox–Matthews φ-combination. -/
theorem coef_errors_halfplane (dt lam : ℂ) (hz : (lam * dt).re ≤ 0)
    (hnz : ∀ ζ ∈ (roots_of_unity 16 : List ℂ), lam * dt ≠ -(1 * ζ)) :
    ‖E1_coef_1 dt lam 16 1 - dt * phi1e (lam * dt)‖ ≤ ‖dt‖ * 1.7e-12 ∧
    ‖E2_coef_1 dt lam 16 1 - dt * phi1e (lam * dt)‖ ≤ ‖dt‖ * 1.7e-12 ∧
    ‖E2_coef_2 dt lam 16 1 - dt * phi2e (lam * dt)‖ ≤ ‖dt‖ * 1.7e-12 ∧
    ‖E3_coef_1 dt lam 16 1 - dt * (phi1e (lam * dt / 2) / 2)‖ ≤ ‖dt‖ * 1.7e-12 ∧
    ‖E3_coef_2 dt lam 16 1 - dt * phi1e (lam * dt)‖ ≤ ‖dt‖ * 1.7e-12 ∧
    ‖E3_coef_3 dt lam 16 1 - dt * (phi1e (lam * dt) - 3 * phi2e (lam * dt) + 4 * phi3e (lam * dt))‖ ≤ ‖dt‖ * 1.7e-12 ∧
    ‖E3_coef_4 dt lam 16 1 - dt * (4 * phi2e (lam * dt) - 8 * phi3e (lam * dt))‖ ≤ ‖dt‖ * 1.7e-12 ∧
    ‖E3_coef_5 dt lam 16 1 - dt * (4 * phi3e (lam * dt) - phi2e (lam * dt))‖ ≤ ‖dt‖ * 1.7e-12 ∧
    ‖E4_coef_1 dt lam 16 1 - dt * (phi1e (lam * dt / 2) / 2)‖ ≤ ‖dt‖ * 1.7e-12 ∧
    ‖E4_coef_2 dt lam 16 1 - dt * (phi1e (lam * dt / 2) / 2)‖ ≤ ‖dt‖ * 1.7e-12 ∧
    ‖E4_coef_3 dt lam 16 1 - dt * (phi1e (lam * dt / 2) / 2)‖ ≤ ‖dt‖ * 1.7e-12 ∧
    ‖E4_coef_4 dt lam 16 1 - dt * (phi1e (lam * dt) - 3 * phi2e (lam * dt) + 4 * phi3e (lam * dt))‖ ≤ ‖dt‖ * 1.7e-12 ∧
    ‖E4_coef_5 dt lam 16 1 - dt * (phi2e (lam * dt) - 2 * phi3e (lam * dt))‖ ≤ ‖dt‖ * 1.7e-12 ∧
    ‖E4_coef_6 dt lam 16 1 - dt * (4 * phi3e (lam * dt) - phi2e (lam * dt))‖ ≤ ‖dt‖ * 1.7e-12 :=
  (coef_errors_iff dt lam 1 16 _).mp (storedCoef_error_halfplane dt lam hz hnz)

/-! ## non-vacuity -/

/-- an advection symbol `z = 3i` and a complex one `z = −2 + 5i`: `‖z‖ ≠ 1`, `Re z ≤ 0` -/
example : ((Complex.I * 3) * 1 : ℂ).re ≤ 0 ∧ ‖(Complex.I * 3) * 1‖ ≠ 1 := by
  constructor
  · simp
  · simp
example : (((-2 : ℂ) + 5 * Complex.I) * 1).re ≤ 0 := by simp
example (i : Fin 14) :
    ‖storedCoef 1 (Complex.I * 3) 16 1 i - 1 * exactPhi (Complex.I * 3 * 1) i‖ ≤ ‖(1 : ℂ)‖ * 1.7e-12 :=
  storedCoef_error_halfplane_of_norm_ne_one 1 (Complex.I * 3) (by simp) (by simp) i
/-- a growing mode `z = 20` -/
example (i : Fin 14) :
    ‖storedCoef 1 20 16 1 i - 1 * exactPhi (20 * 1) i‖ ≤ ‖(1 : ℂ)‖ * 8.3e-4 :=
  storedCoef_error_re_le_20 1 20 (by simp) (excluded_of_norm_ne_one 16 _ (by simp)) i
/-- `z = −1` (`‖z‖ = 1`!) is not excluded -/
example (i : Fin 14) :
    ‖storedCoef 1 ((-1 : ℝ) : ℂ) 16 1 i - 1 * exactPhi (((-1 : ℝ) : ℂ) * 1) i‖ ≤ ‖(1 : ℂ)‖ * 1.7e-12 :=
  storedCoef_error_halfplane 1 _ (by simp)
    (by rw [mul_one]; exact excluded_of_real 16 (by norm_num) (by norm_num) (-1)) i

end Exponax.ContourComplex
